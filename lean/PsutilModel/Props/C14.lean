/-
  Props/C14.lean — property theorems for C14 (open_files / num_fds / io_counters).
  Only statements the property makes; helper lemmas live in Proofs/C14.lean.

  `cfg` is built from Generated/C14.lean, which the translator rewrites from /repo's source on
  every run; the `cfg_good_*` theorems are the proof obligations that break when a literal of
  the code changes (modes_map, masks, replace chain, bases, indices, the ' (deleted)' rule,
  the caught errnos, the io separator / key order / field names, the placement of int(value)).
-/
import PsutilModel.Proofs.C14Io
import PsutilModel.Model.C14Gen
namespace Psutil.C14
open Spec

/-! ## the translator-fed proof obligations -/

theorem cfg_good_mode : cfg.GoodMode3 := by
  refine ⟨⟨by decide, by decide, ?_⟩, ?_⟩ <;> decide

/-! ## file_flags_to_mode -/

/-- **mode table law**: for EVERY flag word whose access mode is one of the three standard
    ones, the mode string is the documented function of O_ACCMODE × O_APPEND. -/
theorem C14_mode_table (flags : Nat) (h : flags &&& 3 ≠ 3) :
    fileFlagsToMode cfg flags = some (Spec.mode flags) := by
  have hg := cfg_good_mode.toGoodMode
  rw [fileFlagsToMode_factor cfg hg, mode_eq]
  rw [and_3] at h
  have hlt : flags % 4 < 4 := Nat.mod_lt _ (by decide)
  have hcases : flags % 4 = 0 ∨ flags % 4 = 1 ∨ flags % 4 = 2 := by omega
  rcases hcases with e | e | e <;> rw [e]
  · exact (hg.table _).1
  · exact (hg.table _).2.1
  · exact (hg.table _).2.2

/-- **totality**: a mode string is defined for every flag word, access mode 3 included
    (so `open_files()` cannot fail with KeyError), and it is the documented one. -/
theorem C14_mode_total (flags : Nat) : fileFlagsToMode cfg flags = some (Spec.mode flags) := by
  have hg := cfg_good_mode
  rw [fileFlagsToMode_factor cfg hg.toGoodMode, mode_eq]
  have hlt : flags % 4 < 4 := Nat.mod_lt _ (by decide)
  have hcases : flags % 4 = 0 ∨ flags % 4 = 1 ∨ flags % 4 = 2 ∨ flags % 4 = 3 := by omega
  rcases hcases with e | e | e | e <;> rw [e]
  · exact (hg.table _).1
  · exact (hg.table _).2.1
  · exact (hg.table _).2.2
  · exact hg.three _

/-- **other bits are irrelevant**: two flag words with the same access mode and the same
    O_APPEND bit get the same mode string, whatever else differs (O_CREAT, O_TRUNC,
    O_CLOEXEC, O_DIRECT, O_LARGEFILE, …). -/
theorem C14_mode_other_bits (f g : Nat) (hacc : f % 4 = g % 4) (happ : f / 1024 % 2 = g / 1024 % 2) :
    fileFlagsToMode cfg f = fileFlagsToMode cfg g := by
  have hg := cfg_good_mode.toGoodMode
  rw [fileFlagsToMode_factor cfg hg, fileFlagsToMode_factor cfg hg, hacc]
  unfold appendSet
  rw [happ]

/-- Linux's access mode 3 is reported like O_RDWR -/
theorem C14_mode3_like_rdwr (f : Nat) (h : f % 4 = 3) :
    fileFlagsToMode cfg f = fileFlagsToMode cfg (f - 1) := by
  rw [C14_mode_total, C14_mode_total]
  have h2 : (f - 1) % 4 = 2 := by omega
  have h3 : (f - 1) / 1024 = f / 1024 := by omega
  unfold Spec.mode appendSet
  rw [h, h2, h3]
  rfl

/-- the mode string is always one of the five documented ones -/
theorem C14_mode_range (flags : Nat) :
    ∃ m, fileFlagsToMode cfg flags = some m ∧ m ∈ [mR, mW, mA, mRp, mAp] := by
  refine ⟨Spec.mode flags, C14_mode_total flags, ?_⟩
  unfold Spec.mode
  split <;> (try split) <;> simp

/-- the model configured as the code was before the `fix:` commits (three-entry `modes_map`,
    `int(value)` outside the try) -/
def cfgUpstream : Cfg :=
  { cfg with modesMap := [(0, [114]), (1, [119]), (2, [119, 43])], ioIntGuarded := false }

/-- full statement of totality for an arbitrary configuration -/
def ModeTotal (c : Cfg) : Prop := ∀ flags, (fileFlagsToMode c flags).isSome = true

theorem C14_mode_total_holds : ModeTotal cfg := fun flags => by rw [C14_mode_total]; rfl

/-- lead L13 re-found: with the three-entry table, flag word 0o100003 has no mode (KeyError) -/
theorem C14_mode_total_fails_upstream : ¬ ModeTotal cfgUpstream := by
  intro h
  have := h 0o100003
  revert this
  decide

/-! ## open_files -/

theorem cfg_good_scan : cfg.GoodScan := by
  constructor <;> decide

theorem cfg_good_access : cfg.GoodAccess := by
  constructor <;> decide

/-- **open_files is exact**, for every process state: over the kernel's rendering of ANY
    descriptor table (any number of descriptors of the six kinds, any offsets and flag words,
    any fdinfo tail, any subset closing at either stage with either errno, any subset that the
    monitor is refused to inspect — at the readlink, at the `os.stat` of the target, at the
    open of fdinfo —, the descriptor directory itself refused, the process a zombie, possibly
    gone before the call or dying at any point of the scan) the call returns exactly the
    still-open descriptors that point to a regular file by absolute path — number, offset
    (decimal), flags (octal) and implied mode —, AccessDenied when the monitor was refused, or
    NoSuchProcess when the process vanished. -/
theorem C14_open_files_exact (w : World) (hwf : ∀ d ∈ w.fds, WFFd w.fs d) :
    openFiles cfg w.fs (renderWorld w) = expectedOpenFiles w := by
  have hg := cfg_good_scan
  have ha := cfg_good_access
  unfold openFiles openFilesBody renderWorld expectedOpenFiles World.denied World.vanished
  simp only [hg.scanLimit]
  cases hgb : w.goneBefore with
  | true => simp [fileExc, goneExc, wrap, wrapExc]
  | false =>
    simp only [Bool.false_eq_true, if_false, Bool.false_or]
    cases hdd : w.dirDenied with
    | true => simp [fileExc, wrap, wrapExc, ha.wrapPermAD]
    | false =>
      simp only [Bool.false_eq_true, if_false, Bool.false_or]
      rw [scan_render cfg hg ha C14_mode_total w.fs w.seen (seen_wf w hwf), any_failsGone]
      cases List.any w.seen (deniedFd w.fs) with
      | true => simp [wrap, wrapExc, ha.wrapPermAD]
      | false =>
        cases hdied : w.died with
        | false => simp [seen_of_not_died w hdied, wrap]
        | true =>
          cases hh : w.seen.any (hits w.fs) with
          | true => simp [hg.finalAliveCheck, wrap, wrapExc]
          | false => simp [seen_listed_of_no_hits w hh, wrap]

/-- a process that stays alive during the call -/
def Live (w : World) : Prop := w.goneBefore = false ∧ w.diesAt = none

/-- nothing is refused to the monitor -/
def Inspectable (w : World) : Prop := w.denied = false

/-- **closing descriptors never fail the call for a live process**: whatever subset of the
    descriptors closes, at whichever stage (before the readlink, before fdinfo is opened, or
    after it was opened so that its first or second read fails), with ENOENT or ESRCH, the call succeeds, and what
    it reports is exactly what it would report if the closing descriptors had never been
    listed. -/
theorem C14_closing_fd_never_fails (w : World) (hl : Live w) (hi : Inspectable w)
    (hwf : ∀ d ∈ w.fds, WFFd w.fs d) :
    openFiles cfg w.fs (renderWorld w)
      = .ok ((w.fds.filter fun d => d.closesAt.isNone).filterMap (listed w.fs)) := by
  rw [C14_open_files_exact w hwf, ← listed_filter_open]
  unfold Inspectable at hi
  simp [expectedOpenFiles, World.vanished, hl.1, died_of_diesAt_none w hl.2, hi]

/-- **a process that exits during the scan** (it becomes a zombie at scan index `k`: every later
    descriptor answers ENOENT, the pid is still there) does not fail the call: the answer is what
    the descriptors read so far give — never ZombieProcess / NoSuchProcess for a pid that exists -/
theorem C14_exits_during_scan (fds : List Fd) (fs : FS) (k : Nat) (hwf : ∀ d ∈ fds, WFFd fs d)
    (hins : ∀ d ∈ fds, deniedFd fs d = false) :
    openFiles cfg fs (renderWorld { fds := killFrom k fds, fs := fs, goneBefore := false, diesAt := none, zombie := true })
      = .ok (((fds.take k).filter fun d => d.closesAt.isNone).filterMap (listed fs)) := by
  have h := C14_closing_fd_never_fails
    { fds := killFrom k fds, fs := fs, goneBefore := false, diesAt := none, zombie := true } ⟨rfl, rfl⟩
    (by simp [Inspectable, World.denied, World.seen, killFrom_not_denied fs k fds hins])
    (killFrom_wf fs k fds hwf)
  rw [h]
  simp only [killFrom_open]

/-- **no clause about the path**: for a live, inspectable process EVERY still-open descriptor whose
    target is a regular file (as `os.stat` says) is in the list, wherever the file lives — under
    `/dev/` (POSIX shared memory in `/dev/shm`), `/proc/`, `/sys/`, `/run/`, under a device-looking
    name; the kind comes from the file system, never from the name -/
theorem C14_listed_whatever_the_path (w : World) (hl : Live w) (hi : Inspectable w)
    (hwf : ∀ d ∈ w.fds, WFFd w.fs d) (d : Fd) (hd : d ∈ w.fds) (path : Bytes) (del : Bool)
    (hk : d.kind = .regular path del) (hc : d.closesAt = none) (hf : w.fs.isFile path = true) :
    ∃ l, openFiles cfg w.fs (renderWorld w) = .ok l ∧
      (⟨path, d.n, d.pos, Spec.mode d.flags, d.flags⟩ : POpenFile) ∈ l := by
  unfold Inspectable at hi
  refine ⟨w.fds.filterMap (listed w.fs), ?_, ?_⟩
  · rw [C14_open_files_exact w hwf]
    simp [expectedOpenFiles, World.vanished, hl.1, died_of_diesAt_none w hl.2, hi]
  · exact List.mem_filterMap.mpr ⟨d, hd, by simp [listed, hk, hc, hf]⟩

/-- file system of the seeded witness: `/dev/shm/x` is a regular file, `/dev/null` exists and is not -/
def fsDev : FS :=
  { isFile := fun p => p == [47, 100, 101, 118, 47, 115, 104, 109, 47, 120]
    pathExists := fun p => p == [47, 100, 101, 118, 47, 115, 104, 109, 47, 120] || p == [47, 100, 101, 118, 47, 110, 117, 108, 108] }

/-- `0 -> /dev/null`, `3 -> /dev/shm/x` (fdinfo `pos:\t0\nflags:\t02\n`) -/
def procDev : Proc :=
  { fdDir := .ok [⟨[48], .ok [47, 100, 101, 118, 47, 110, 117, 108, 108], .ok [112, 111, 115, 58, 9, 48, 10, 102, 108, 97, 103, 115, 58, 9, 48, 50, 10]⟩,
      ⟨[51], .ok [47, 100, 101, 118, 47, 115, 104, 109, 47, 120], .ok [112, 111, 115, 58, 9, 48, 10, 102, 108, 97, 103, 115, 58, 9, 48, 50, 10]⟩]
    alive := true }

/-- a regular file under `/dev/` is listed, the device node next to it is not -/
theorem C14_regular_under_dev_listed :
    openFiles cfg fsDev procDev = .ok [⟨[47, 100, 101, 118, 47, 115, 104, 109, 47, 120], 3, 0, mRp, 2⟩] := by decide

/-- **refused ⇒ AccessDenied(pid)**: when the descriptor directory may not be listed, or any
    descriptor met while the process is still there may not be inspected (EACCES / EPERM from
    its readlink, from the `os.stat` of its target, from the open of its fdinfo), the answer is
    AccessDenied — never a bare PermissionError, never a list that silently lacks an entry. -/
theorem C14_denied_is_AccessDenied (w : World) (hwf : ∀ d ∈ w.fds, WFFd w.fs d)
    (hg : w.goneBefore = false) (hd : w.denied = true) :
    openFiles cfg w.fs (renderWorld w) = .exc .accessDenied := by
  rw [C14_open_files_exact w hwf]
  simp [expectedOpenFiles, hg, hd]

/-- the reading "a descriptor that cannot be inspected is left out and the call succeeds",
    at full strength, for an arbitrary configuration -/
def UninspectableSkipped_Full (c : Cfg) : Prop :=
  ∀ w : World, Live w → w.dirDenied = false → (∀ d ∈ w.fds, WFFd w.fs d) →
    openFiles c w.fs (renderWorld w)
      = .ok ((w.fds.filter fun d => !deniedFd w.fs d).filterMap (listed w.fs))

/-- file system in which `/f` is a regular file and `os.stat("/s/x")` is refused -/
def fsDen : FS :=
  { isFile := fun p => p == [47, 102], pathExists := fun p => p == [47, 102],
    denied := fun p => p == [47, 115, 47, 120] }

/-- live process: `3 -> /f` (regular, inspectable) and `4 -> /s/x` (target cannot be stat'ed) -/
def wDen : World :=
  { fds := [⟨3, .regular [47, 102] false, 0, 2, [], none, none⟩,
            ⟨4, .regular [47, 115, 47, 120] false, 0, 2, [], none, none⟩]
    fs := fsDen, goneBefore := false, diesAt := none }

/-- … the code does NOT have that reading: one target the monitor cannot stat makes the whole
    call AccessDenied for a live process (psutil's `isfile_strict` exists for that purpose) -/
theorem C14_uninspectable_not_skipped : ¬ UninspectableSkipped_Full cfg := by
  intro h
  have h1 := h wDen ⟨rfl, rfl⟩ rfl (by decide)
  rw [C14_open_files_exact wDen (by decide)] at h1
  revert h1
  decide

theorem C14_uninspectable_witness :
    openFiles cfg wDen.fs (renderWorld wDen) = .exc .accessDenied := by
  rw [C14_open_files_exact wDen (by decide)]
  decide

/-- what the accesses answer for `wDen`, written out: fdinfo `pos:\t0\nflags:\t02\n` for both -/
def procDen : Proc :=
  { fdDir := .ok
      [⟨[51], .ok [47, 102], .ok [112, 111, 115, 58, 9, 48, 10, 102, 108, 97, 103, 115, 58, 9, 48, 50, 10]⟩,
       ⟨[52], .ok [47, 115, 47, 120], .ok [112, 111, 115, 58, 9, 48, 10, 102, 108, 97, 103, 115, 58, 9, 48, 50, 10]⟩]
    alive := true }

theorem C14_denied_stat_AccessDenied : openFiles cfg fsDen procDen = .exc .accessDenied := by decide

/-- a variant whose `isfile_strict` answered False on EACCES would return a list that silently
    lacks descriptor 4 -/
theorem C14_denied_stat_swallowed_drops_silently :
    openFiles { cfg with isfileDeniedRaises := false } fsDen procDen
      = .ok [⟨[47, 102], 3, 0, mRp, 2⟩] := by decide

/-- a variant whose `wrap_exceptions` lacked the PermissionError row would leak the bare OSError -/
theorem C14_denied_needs_wrap :
    openFiles { cfg with wrapPermAD := false } fsDen procDen = .exc .permissionError := by decide

/-- the listed descriptors are exactly the regular ones: sockets, pipes, anonymous inodes,
    devices and relative targets are never reported -/
theorem C14_only_regular_listed (fs : FS) (d : Fd) (f : POpenFile) (h : listed fs d = some f) :
    ∃ path del, d.kind = .regular path del ∧ d.closesAt = none ∧ fs.isFile path = true ∧
      f = ⟨path, d.n, d.pos, Spec.mode d.flags, d.flags⟩ := by
  unfold listed at h
  cases hk : d.kind <;> cases hc : d.closesAt <;> simp [hk, hc] at h
  rename_i path del
  exact ⟨path, del, rfl, rfl, h.1, h.2.symm⟩

/-- the same at the level of one loop iteration of the code, with the real predicate's three
    answers (regular file / something else or nothing / refused): the ONLY way an entry is
    produced is a still-open `regular` descriptor whose absolute path was stat'ed successfully
    and is a regular file. In particular a relative target is never stat'ed (it is not listed
    even when a regular file of that name exists relative to the monitor's cwd), a device /
    directory / FIFO / dangling path is not listed, and a refused stat never yields an entry. -/
theorem C14_only_regular_listed_by_scan (fs : FS) (d : Fd) (hwf : WFFd fs d) (f : POpenFile)
    (h : scanOne cfg fs (renderFd d) = .item f) :
    ∃ path del, d.kind = .regular path del ∧ d.closesAt = none ∧ fs.isFile path = true ∧
      deniedFd fs d = false ∧ f = ⟨path, d.n, d.pos, Spec.mode d.flags, d.flags⟩ := by
  rw [scanOne_render cfg cfg_good_scan cfg_good_access C14_mode_total fs d hwf] at h
  rcases Bool.eq_false_or_eq_true (deniedFd fs d) with hd | hd
  · simp [hd] at h
  · rcases Bool.eq_false_or_eq_true (hits fs d) with hh | hh
    · simp [hd, hh] at h
    · cases hl : listed fs d with
      | none => simp [hd, hh, hl] at h
      | some g =>
        simp only [hd, hh, hl, Bool.false_eq_true, if_false, Step.item.injEq] at h
        subst h
        obtain ⟨path, del, h1, h2, h3, h4⟩ := C14_only_regular_listed fs d g hl
        exact ⟨path, del, h1, h2, h3, hd, h4⟩

/-- a relative link text naming an existing regular file (relative to the monitor's cwd), a
    directory and a FIFO-like absolute path: none is listed, none is an error -/
def fsRel : FS := { isFile := fun p => p == [102], pathExists := fun p => p == [102] || p == [47, 100] }

def procRel : Proc :=
  { fdDir := .ok [⟨[51], .ok [102], .ok [112, 111, 115, 58, 9, 48, 10, 102, 108, 97, 103, 115, 58, 9, 48, 50, 10]⟩,
      ⟨[52], .ok [47, 100], .ok [112, 111, 115, 58, 9, 48, 10, 102, 108, 97, 103, 115, 58, 9, 48, 50, 10]⟩]
    alive := true }

example : openFiles cfg fsRel procRel = .ok [] := by decide

/-- **a vanished process gives NoSuchProcess** (never a partial list, never a raw OSError),
    unless the monitor was refused before the process went away -/
theorem C14_gone_process_NSP (w : World) (hwf : ∀ d ∈ w.fds, WFFd w.fs d) (h : w.vanished = true)
    (hi : w.goneBefore = true ∨ w.denied = false) :
    openFiles cfg w.fs (renderWorld w) = .exc .noSuchProcess := by
  rw [C14_open_files_exact w hwf]
  rcases hi with hi | hi <;> simp [expectedOpenFiles, h, hi]

theorem cfg_good_count : cfg.GoodCount := by
  constructor <;> decide

/-- **num_fds counts every descriptor**, of whatever kind, closing or not, whenever and at whichever
    stage the process dies during a concurrent scan — for every table length (obligation
    `cfg_good_count`: the code is `len(os.listdir(<pid>/fd))`, uncapped) -/
theorem C14_num_fds (w : World) : numFds cfg (renderWorld w) = expectedNumFds w := by
  have ha := cfg_good_access
  have hc := cfg_good_count
  unfold numFds renderWorld expectedNumFds
  simp only [hc.numFdsCap]
  cases hgb : w.goneBefore with
  | true => simp [fileExc, goneExc, wrap, wrapExc]
  | false =>
    cases hdd : w.dirDenied with
    | true => simp [fileExc, wrap, wrapExc, ha.wrapPermAD]
    | false => simp [wrap, seen_length]

/-! ### zombies and refused directories (any file system, any state of the rest) -/

/-- **a zombie holds no descriptors**: its (readable) descriptor directory is empty, so
    `open_files()` is `[]` and `num_fds()` is 0 — not ZombieProcess, not an error -/
theorem C14_zombie_no_descriptors (fs : FS) :
    openFiles cfg fs { fdDir := .ok [], alive := true, zombie := true } = .ok [] ∧
    numFds cfg { fdDir := .ok [], alive := true, zombie := true } = .ok 0 := by
  constructor <;> rfl

/-- **ENOENT / ESRCH about a zombie is ZombieProcess**, never NoSuchProcess (the pid is still
    there) and never a bare OSError: from the descriptor directory and from `/proc/pid/io` -/
theorem C14_zombie_errors (fs : FS) (e : GoneErr) :
    openFiles cfg fs { fdDir := .err (.gone e), alive := true, zombie := true } = .exc .zombieProcess ∧
    numFds cfg { fdDir := .err (.gone e), alive := true, zombie := true } = .exc .zombieProcess ∧
    Pio.ioCounters cfg true (.err (.gone e)) true = .exc .zombieProcess := by
  have ha := cfg_good_access
  cases e <;>
    simp [openFiles, openFilesBody, numFds, Pio.ioCounters, Pio.ioCountersBody, fileExc, goneExc, wrap, wrapExc,
      ha.wrapZombieFirst]

/-- **a refused descriptor directory / io file is AccessDenied(pid)** whatever the state of the
    process (running, zombie — whose directory belongs to root —, or just gone) -/
theorem C14_dir_denied (fs : FS) (alive zombie : Bool) :
    openFiles cfg fs { fdDir := .err .denied, alive := alive, zombie := zombie } = .exc .accessDenied ∧
    numFds cfg { fdDir := .err .denied, alive := alive, zombie := zombie } = .exc .accessDenied ∧
    Pio.ioCounters cfg alive (.err .denied) zombie = .exc .accessDenied := by
  have ha := cfg_good_access
  simp [openFiles, openFilesBody, numFds, Pio.ioCounters, Pio.ioCountersBody, fileExc, wrap, wrapExc, ha.wrapPermAD]

/-- **error contract of the three methods**, all states at once: whenever the specification
    names the exception for a directory / file that cannot be opened (refused → AccessDenied; gone
    process → NoSuchProcess; zombie → ZombieProcess), the three methods raise exactly that one -/
theorem C14_error_contract (fs : FS) (alive zombie : Bool) (e : FileErr) (x : Exc)
    (h : expectedOnError alive zombie e = some x) :
    openFiles cfg fs { fdDir := .err e, alive := alive, zombie := zombie } = .exc x ∧
    numFds cfg { fdDir := .err e, alive := alive, zombie := zombie } = .exc x ∧
    Pio.ioCounters cfg alive (.err e) zombie = .exc x := by
  have ha := cfg_good_access
  cases e with
  | denied =>
    simp only [expectedOnError, Option.some.injEq] at h
    subst h
    exact C14_dir_denied fs alive zombie
  | gone g =>
    cases alive <;> cases zombie <;> cases g <;> simp [expectedOnError] at h <;> subst h <;>
      simp [openFiles, openFilesBody, numFds, Pio.ioCounters, Pio.ioCountersBody, fileExc, goneExc, wrap, wrapExc,
        ha.wrapZombieFirst]

/-- a zombie whose descriptor table is empty (the kernel has released it): `[]` and `0`, in every
    other state of the world (dying at any index / stage included). That the `zombie` flag never
    changes the promised answer of a NON-empty table is `C14_open_files_exact` itself, whose right-hand
    side does not mention the flag. -/
theorem C14_zombie_world (w : World) (he : w.fds = [])
    (hg : w.goneBefore = false) (hd : w.dirDenied = false) :
    openFiles cfg w.fs (renderWorld w) = .ok [] ∧ numFds cfg (renderWorld w) = .ok 0 := by
  rw [C14_open_files_exact w (by simp [he]), C14_num_fds]
  have hs : w.seen = [] := by
    have := seen_length w
    rw [he] at this
    exact List.eq_nil_of_length_eq_zero (by simpa using this)
  simp [expectedOpenFiles, expectedNumFds, World.denied, World.vanished, hs, hg, hd, he]

/-- the fdinfo record round-trips for every offset and flag word: `pos:` is read as decimal
    and `flags:` as OCTAL (the kernel prints `0%o`), whatever follows in the file -/
theorem C14_fdinfo_roundtrip (d : Fd) : parseFdinfo cfg (fdinfoText d) = .ok (d.pos, d.flags) :=
  parseFdinfo_render cfg cfg_good_scan d

/-! ### concrete witnesses (non-vacuity, and lead L13 end to end) -/

def fsW : FS := { isFile := fun p => p == [47, 102], pathExists := fun p => p == [47, 102] }

/-- one descriptor `3 -> /f`, fdinfo `pos:\t0\nflags:\t0100003\n` (O_LARGEFILE | access mode 3) -/
def procW : Proc :=
  { fdDir := .ok [⟨[51], .ok [47, 102],
      .ok [112, 111, 115, 58, 9, 48, 10, 102, 108, 97, 103, 115, 58, 9, 48, 49, 48, 48, 48, 48, 51, 10]⟩]
    alive := true }

/-- lead L13 at the level of the whole call: the pre-fix configuration fails with KeyError
    for a live process … -/
theorem C14_accmode3_KeyError_upstream : openFiles cfgUpstream fsW procW = .exc .keyError := by decide

/-- … the current one lists the file as `r+` -/
theorem C14_accmode3_listed : openFiles cfg fsW procW = .ok [⟨[47, 102], 3, 0, mRp, 0o100003⟩] := by decide

/-- descriptor `3 -> /f` whose fdinfo file opens but whose first read fails with ENOENT (the
    descriptor was closed in between), process alive -/
def procReadGone : Proc :=
  { fdDir := .ok [⟨[51], .ok [47, 102],
      .readErr [112, 111, 115, 58, 9, 48, 10, 102, 108, 97, 103, 115, 58, 9, 48, 50, 10] false .enoent⟩]
    alive := true }

/-- the clause is about the *reads* too: a variant of the code whose guard covers only the
    `open` of fdinfo fails a live process with FileNotFoundError … -/
theorem C14_read_after_close_needs_guard :
    openFiles { cfg with infoReadGoneEnoent := false } fsW procReadGone = .exc .fileNotFound := by decide

/-- … the current code leaves the descriptor out -/
theorem C14_read_after_close_skipped : openFiles cfg fsW procReadGone = .ok [] := by decide

/-- the hypotheses of the table theorems are satisfiable by a non-trivial table: a regular
    file, a deleted one, a socket, a device, a closing descriptor -/
example : ∃ w : World, Live w ∧ Inspectable w ∧ (∀ d ∈ w.fds, WFFd w.fs d) ∧ w.fds.length = 7 ∧
    (w.fds.filterMap (listed w.fs)).length = 1 :=
  ⟨⟨[⟨3, .regular [47, 102] false, 7, 0o102001, [], none, none⟩,
     ⟨4, .regular [47, 103] true, 0, 2, [], none, none⟩,
     ⟨5, .socket 99, 0, 2, [], none, none⟩,
     ⟨6, .device [47, 100], 0, 2, [], none, none⟩,
     ⟨7, .regular [47, 102] false, 1, 1, [], some (.beforeFdinfo .esrch), none⟩,
     ⟨8, .regular [47, 102] false, 1, 1, [], some (.duringFdinfo false .enoent), none⟩,
     ⟨9, .regular [47, 102] false, 1, 1, [], some (.duringFdinfo true .esrch), none⟩], fsW, false, none, false, false, false⟩,
   ⟨rfl, rfl⟩, by unfold Inspectable; decide, by decide, rfl, by decide⟩

/-! ## io_counters -/

theorem cfg_good_io : cfg.GoodIo := by
  constructor <;> decide

theorem cfg_io_guarded : cfg.ioIntGuarded = true := by decide

/-- the six values come back under the documented names:
    read_count ← syscr, write_count ← syscw, read_bytes, write_bytes, read_chars ← rchar,
    write_chars ← wchar -/
theorem C14_io_field_names :
    cfg.pioFields.zip cfg.ioKeys = Spec.documentedFields.zip Spec.documentedKeys := by
  rw [cfg_good_io.pioFields, cfg_good_io.ioKeys]

/-- **io_counters is exact on every well-formed file**: any number of `name: value` lines in
    any order with any values, interleaved with blank lines, junk lines without `": "` and
    `name: text` lines whose text is not a number; the result is the six documented counters,
    RuntimeError for a file without any counter line, ValueError when one of the six is
    missing. -/
theorem C14_io_exact (its : List Item) (h : ∀ it ∈ its, WFItem it) (hd : DistinctKeys its) :
    Pio.ioCounters cfg true (.ok (renderItems its)) = expectedIo its :=
  ioCounters_items cfg cfg_good_io cfg_io_guarded its h hd

/-- **round trip** of the kernel's own rendering, for all counter values -/
theorem C14_io_roundtrip (a : IoAcct) :
    Pio.ioCounters cfg true (.ok (renderIo a)) = .ok (expectedIoAcct a) := by
  unfold renderIo
  rw [C14_io_exact (acctItems a)]
  · rfl
  · intro it hi
    simp only [acctItems, List.mem_cons, List.not_mem_nil, or_false] at hi
    rcases hi with e | e | e | e | e | e | e <;> subst e <;>
      exact ⟨by decide, by decide, by unfold NoWs; decide⟩
  · unfold DistinctKeys acctItems
    simp only [kvs, List.map_cons, List.map_nil]
    decide

/-- **blank and malformed lines are tolerated**: the answer is the one for the file with all
    those lines removed. -/
theorem C14_io_tolerates_blank_and_malformed (its : List Item) (h : ∀ it ∈ its, WFItem it)
    (hd : DistinctKeys its) :
    Pio.ioCounters cfg true (.ok (renderItems its))
      = Pio.ioCounters cfg true (.ok (renderItems (its.filter Item.isKv))) := by
  have hf : kvs (its.filter Item.isKv) = kvs its := kvs_filter its
  rw [C14_io_exact its h hd, C14_io_exact _ (fun it hi => h it (List.mem_filter.mp hi).1)
    (by unfold DistinctKeys; rw [hf]; exact hd)]
  unfold expectedIo
  rw [hf]

/-- an entirely empty file (or one holding only blank / junk lines) is reported as RuntimeError -/
theorem C14_io_empty_file (its : List Item) (h : ∀ it ∈ its, WFItem it) (hk : kvs its = []) :
    Pio.ioCounters cfg true (.ok (renderItems its)) = .exc .runtimeError := by
  rw [C14_io_exact its h (by unfold DistinctKeys; rw [hk]; exact List.nodup_nil)]
  simp [expectedIo, hk]

/-- the file `rchar: 1 … write_bytes: 6` followed by the line `foo: bar` -/
def ioBadValue : Bytes :=
  [114, 99, 104, 97, 114, 58, 32, 49, 10, 119, 99, 104, 97, 114, 58, 32, 50, 10, 115, 121, 115, 99, 114, 58, 32,
   51, 10, 115, 121, 115, 99, 119, 58, 32, 52, 10, 114, 101, 97, 100, 95, 98, 121, 116, 101, 115, 58, 32, 53, 10,
   119, 114, 105, 116, 101, 95, 98, 121, 116, 101, 115, 58, 32, 54, 10, 102, 111, 111, 58, 32, 98, 97, 114, 10]

/-- with `int(value)` outside the try (pre-fix), one non-numeric extra line fails the call … -/
theorem C14_io_bad_value_fails_upstream :
    Pio.ioCounters cfgUpstream true (.ok ioBadValue) = .exc .valueError := by decide

/-- … with the current code it is skipped -/
theorem C14_io_bad_value_tolerated : Pio.ioCounters cfg true (.ok ioBadValue) = .ok [3, 4, 5, 6, 1, 2] := by
  decide

/-- a missing `/proc/<pid>/io` of a process that is gone is NoSuchProcess -/
theorem C14_io_gone (e : GoneErr) : Pio.ioCounters cfg false (.err (.gone e)) = .exc .noSuchProcess := by
  have ha := cfg_good_access
  cases e <;> simp [Pio.ioCounters, Pio.ioCountersBody, fileExc, goneExc, wrap, wrapExc]

/-- a zombie's `/proc/pid/io` is still served by the kernel (to root): the six counters come
    back exactly as for a running process -/
theorem C14_io_zombie_roundtrip (a : IoAcct) :
    Pio.ioCounters cfg true (.ok (renderIo a)) true = .ok (expectedIoAcct a) := by
  have h := C14_io_roundtrip a
  unfold Pio.ioCounters at h ⊢
  cases hb : Pio.ioCountersBody cfg (.ok (renderIo a)) with
  | ok v => rw [hb] at h; simpa [wrap] using h
  | exc e => rw [hb] at h; simp [wrap] at h

/-! ## io_counters on EVERY file content (extension round 2) -/

/-- **io_counters is exact on every content of `/proc/<pid>/io`** — any bytes at all: lines are
    separated by `\n`; a line that, blanks removed, is `NAME ": " NUMBER` with exactly one separator
    and a NUMBER Python's `int()` reads (sign and single `_` between digits included) is a counter
    line; EVERY other line (blank, no separator, two or more separators, a value that is not a
    number, …) is ignored; the six documented names are reported, the last line of a name counting;
    RuntimeError when there is no counter line at all, ValueError when one of the six is missing.
    Holds in every process state (the file could be read). -/
theorem C14_io_any_content (content : Bytes) (alive zombie : Bool) :
    Pio.ioCounters cfg alive (.ok content) zombie = expectedIoContent content :=
  pio_ioCounters_content cfg cfg_good_io cfg_io_guarded alive zombie content

/-- **tolerating blank or malformed extra lines, at full strength**: in ANY file (lines `a`, then
    `b`), inserting ANY line `x` that is not a counter line — wherever, whatever bytes — does not
    change the answer -/
theorem C14_io_extra_line_tolerated (a b : List Bytes) (x : Bytes) (ha : ∀ l ∈ a, 10 ∉ l)
    (hb : ∀ l ∈ b, 10 ∉ l) (hx : 10 ∉ x) (hm : counterOf x = none) :
    Pio.ioCounters cfg true (.ok (fileOf (a ++ x :: b))) = Pio.ioCounters cfg true (.ok (fileOf (a ++ b))) := by
  rw [C14_io_any_content, C14_io_any_content]
  unfold expectedIoContent
  have h1 : ∀ l ∈ a ++ x :: b, 10 ∉ l := by
    intro l hl
    rcases List.mem_append.mp hl with h | h
    · exact ha l h
    · rcases List.mem_cons.mp h with h | h
      · subst h; exact hx
      · exact hb l h
  have h2 : ∀ l ∈ a ++ b, 10 ∉ l := by
    intro l hl
    rcases List.mem_append.mp hl with h | h
    · exact ha l h
    · exact hb l h
  rw [contentKvs_fileOf _ h1, contentKvs_fileOf _ h2]
  simp [List.filterMap_append, List.filterMap_cons, hm]

/-- **counters beyond the six are ignored** (`cancelled_write_bytes`, anything a later kernel adds):
    a counter line whose name is not one of the six documented ones does not change the answer of a
    file that has some other counter line -/
theorem C14_io_unknown_counter_ignored (a b : List Bytes) (x : Bytes) (n : Bytes) (v : Int)
    (ha : ∀ l ∈ a, 10 ∉ l) (hb : ∀ l ∈ b, 10 ∉ l) (hx : 10 ∉ x) (hm : counterOf x = some (n, v))
    (hn : n ∉ documentedKeys) (hne : (a ++ b).filterMap counterOf ≠ []) :
    Pio.ioCounters cfg true (.ok (fileOf (a ++ x :: b))) = Pio.ioCounters cfg true (.ok (fileOf (a ++ b))) := by
  rw [C14_io_any_content, C14_io_any_content]
  unfold expectedIoContent
  have h1 : ∀ l ∈ a ++ x :: b, 10 ∉ l := by
    intro l hl
    rcases List.mem_append.mp hl with h | h
    · exact ha l h
    · rcases List.mem_cons.mp h with h | h
      · subst h; exact hx
      · exact hb l h
  have h2 : ∀ l ∈ a ++ b, 10 ∉ l := by
    intro l hl
    rcases List.mem_append.mp hl with h | h
    · exact ha l h
    · exact hb l h
  rw [contentKvs_fileOf _ h1, contentKvs_fileOf _ h2]
  simp only [List.filterMap_append, List.filterMap_cons, hm]
  rw [pickLast_insert_other documentedKeys _ _ n v hn]
  have e1 : (List.filterMap counterOf a ++ (n, v) :: List.filterMap counterOf b).isEmpty = false := by
    cases List.filterMap counterOf a <;> rfl
  have e2 : (List.filterMap counterOf a ++ List.filterMap counterOf b).isEmpty = false := by
    rw [← List.filterMap_append]
    cases h : List.filterMap counterOf (a ++ b) with
    | nil => exact absurd h hne
    | cons _ _ => rfl
  rw [e1, e2]

/-- the kernel's file for (rchar 1, wchar 2, syscr 3, syscw 4, read_bytes 5, write_bytes 6,
    cancelled_write_bytes 7) as a list of lines -/
def ioKernelLines : List Bytes :=
  [[114, 99, 104, 97, 114, 58, 32, 49],
   [119, 99, 104, 97, 114, 58, 32, 50],
   [115, 121, 115, 99, 114, 58, 32, 51],
   [115, 121, 115, 99, 119, 58, 32, 52],
   [114, 101, 97, 100, 95, 98, 121, 116, 101, 115, 58, 32, 53],
   [119, 114, 105, 116, 101, 95, 98, 121, 116, 101, 115, 58, 32, 54],
   [99, 97, 110, 99, 101, 108, 108, 101, 100, 95, 119, 114, 105, 116, 101, 95, 98, 121, 116, 101, 115, 58, 32, 55]]

example : ioKernelLines = (acctItems ⟨1, 2, 3, 4, 5, 6, 7⟩).map Item.text := by
  simp only [acctItems, List.map, Item.text, ioKernelLines]
  have h : ∀ n : Nat, n < 10 → renderDec n = [48 + n] := by
    intro n hn
    unfold renderDec renderRadix renderRadixAux
    simp [hn, decimal]
  rw [h 1 (by decide), h 2 (by decide), h 3 (by decide), h 4 (by decide), h 5 (by decide), h 6 (by decide),
    h 7 (by decide)]
  rfl

/-- **duplicate key: the last line counts** — the kernel's file followed by a second `syscr: 9` -/
theorem C14_io_duplicate_last_wins :
    Pio.ioCounters cfg true (.ok (fileOf (ioKernelLines ++ [([115, 121, 115, 99, 114, 58, 32, 57] : Bytes)]))) = .ok [9, 4, 5, 6, 1, 2] ∧
    Pio.ioCounters cfg true (.ok (fileOf (([115, 121, 115, 99, 114, 58, 32, 57] : Bytes) :: ioKernelLines))) = .ok [3, 4, 5, 6, 1, 2] := by
  rw [C14_io_any_content, C14_io_any_content]
  constructor <;> decide

/-- **a key with a blank before the colon is ANOTHER name**: `syscr : 9` next to the kernel's lines is
    an extra line (ignored); a file whose only `syscr` line is spelt that way lacks the counter
    (ValueError) -/
theorem C14_io_key_trailing_blank :
    Pio.ioCounters cfg true (.ok (fileOf (ioKernelLines ++ [([115, 121, 115, 99, 114, 32, 58, 32, 57] : Bytes)]))) = .ok [3, 4, 5, 6, 1, 2] ∧
    Pio.ioCounters cfg true (.ok (fileOf (([115, 121, 115, 99, 114, 32, 58, 32, 57] : Bytes) :: ioKernelLines.eraseIdx 2))) = .exc .valueError := by
  rw [C14_io_any_content, C14_io_any_content]
  constructor <;> decide

/-- **values with a sign or `_`** are numbers for `int()`: `+9` is 9, `-9` is reported as −9 (the
    kernel prints `%llu`, never a sign: characterisation of the code, nothing the statement forbids),
    `1_0` is 10; `+ 9`, `9_`, `--9` are not numbers: those lines are ignored -/
theorem C14_io_signed_values :
    Pio.ioCounters cfg true (.ok (fileOf (ioKernelLines ++ [([115, 121, 115, 99, 114, 58, 32, 43, 57] : Bytes), ([115, 121, 115, 99, 119, 58, 32, 45, 57] : Bytes), ([114, 99, 104, 97, 114, 58, 32, 49, 95, 48] : Bytes)])))
      = .ok [9, -9, 5, 6, 10, 2] ∧
    Pio.ioCounters cfg true (.ok (fileOf (ioKernelLines ++ [([115, 121, 115, 99, 114, 58, 32, 43, 32, 57] : Bytes), ([115, 121, 115, 99, 119, 58, 32, 57, 95] : Bytes), ([114, 99, 104, 97, 114, 58, 32, 45, 45, 57] : Bytes)])))
      = .ok [3, 4, 5, 6, 1, 2] := by
  rw [C14_io_any_content, C14_io_any_content]
  constructor <;> decide

/-- the round-1 class of files is an instance: on a well-formed item list with distinct names the
    two specifications agree -/
theorem C14_io_specs_agree (its : List Item) (h : ∀ it ∈ its, WFItem it) (hd : DistinctKeys its) :
    expectedIoContent (renderItems its) = expectedIo its := by
  rw [← C14_io_any_content (renderItems its) true false, C14_io_exact its h hd]

/-! ## num_fds() against open_files() (extension round 2) -/

/-- a descriptor is NOT listed exactly when it is not a still-open descriptor of a regular file:
    another kind (socket, pipe, anon inode, device / directory / FIFO, relative target), a path
    where no regular file is, or a descriptor that closes during the scan -/
theorem C14_unlisted_iff (fs : FS) (d : Fd) :
    listed fs d = none ↔
      ¬ ∃ path del, d.kind = .regular path del ∧ d.closesAt = none ∧ fs.isFile path = true := by
  constructor
  · rintro h ⟨path, del, hk, hc, hf⟩
    simp [listed, hk, hc, hf] at h
  · intro h
    cases hl : listed fs d with
    | none => rfl
    | some f =>
      obtain ⟨path, del, h1, h2, h3, _⟩ := C14_only_regular_listed fs d f hl
      exact absurd ⟨path, del, h1, h2, h3⟩ h

/-- **num_fds() and open_files() are consistent** on a live, inspectable process: both succeed;
    every entry of `open_files()` carries the number of a descriptor that `num_fds()` counted (and
    is that descriptor's report); and `num_fds()` exceeds the length of `open_files()` by exactly
    the number of unlisted descriptors (`C14_unlisted_iff`: other kinds, relative targets, paths
    without a regular file, descriptors closing during the scan) -/
theorem C14_num_fds_vs_open_files (w : World) (hl : Live w) (hi : Inspectable w)
    (hwf : ∀ d ∈ w.fds, WFFd w.fs d) :
    ∃ l n, openFiles cfg w.fs (renderWorld w) = .ok l ∧ numFds cfg (renderWorld w) = .ok n ∧
      (∀ f ∈ l, ∃ d ∈ w.fds, d.n = f.fd ∧ listed w.fs d = some f) ∧
      l.length + (w.fds.filter fun d => (listed w.fs d).isNone).length = n := by
  have hdd : w.dirDenied = false := by
    unfold Inspectable World.denied at hi
    simp only [Bool.or_eq_false_iff] at hi
    exact hi.1
  refine ⟨w.fds.filterMap (listed w.fs), w.fds.length, ?_, ?_, ?_, length_filterMap_add _ _⟩
  · rw [C14_open_files_exact w hwf]
    unfold Inspectable at hi
    simp [expectedOpenFiles, World.vanished, hl.1, died_of_diesAt_none w hl.2, hi]
  · rw [C14_num_fds]
    simp [expectedNumFds, hl.1, hdd]
  · intro f hf
    obtain ⟨d, hd, hdf⟩ := List.mem_filterMap.mp hf
    obtain ⟨path, del, _, _, _, e⟩ := C14_only_regular_listed w.fs d f hdf
    exact ⟨d, hd, by rw [e], hdf⟩

/-- in EVERY world (closing, refused, dying, zombie …): whenever both calls answer, `open_files()`
    is never longer than `num_fds()` -/
theorem C14_open_files_le_num_fds (w : World) (hwf : ∀ d ∈ w.fds, WFFd w.fs d)
    (l : List POpenFile) (n : Nat) (h1 : openFiles cfg w.fs (renderWorld w) = .ok l)
    (h2 : numFds cfg (renderWorld w) = .ok n) : l.length ≤ n := by
  rw [C14_open_files_exact w hwf] at h1
  rw [C14_num_fds] at h2
  unfold expectedOpenFiles at h1
  unfold expectedNumFds at h2
  split at h1
  · cases h1
  · split at h1
    · cases h1
    · split at h1
      · cases h1
      · split at h2
        · cases h2
        · split at h2
          · cases h2
          · cases h1; cases h2
            exact List.length_filterMap_le _ _

/-! ## round 3 (audit-driven) -/

/-! ### the loop runs over every listed name; `num_fds` is uncapped (audit item 3) -/

/-- two descriptors `3 -> /f`, `4 -> /f` (fdinfo `pos:\t0\nflags:\t02\n`) -/
def procTwo : Proc :=
  { fdDir := .ok [⟨[51], .ok [47, 102], .ok [112, 111, 115, 58, 9, 48, 10, 102, 108, 97, 103, 115, 58, 9, 48, 50, 10]⟩,
      ⟨[52], .ok [47, 102], .ok [112, 111, 115, 58, 9, 48, 10, 102, 108, 97, 103, 115, 58, 9, 48, 50, 10]⟩]
    alive := true }

/-- why `cfg_good_scan` / `cfg_good_count` demand `scanLimit = none`, `numFdsCap = none`: a variant of the
    code that scans `files[:1]` / caps the count silently loses descriptor 4 (the table theorems are
    ∀ length; these two facts are what ties that quantifier to the code) -/
theorem C14_scan_limit_drops_silently :
    openFiles cfg fsW procTwo = .ok [⟨[47, 102], 3, 0, mRp, 2⟩, ⟨[47, 102], 4, 0, mRp, 2⟩] ∧
    openFiles { cfg with scanLimit := some 1 } fsW procTwo = .ok [⟨[47, 102], 3, 0, mRp, 2⟩] ∧
    numFds cfg procTwo = .ok 2 ∧ numFds { cfg with numFdsCap := some 1 } procTwo = .ok 1 := by decide

/-! ### what psutil can see: the link text, not the open file (audit item 1) -/

/-- **psutil sees a descriptor only through its link text**: two descriptors whose kinds print the same
    `/proc/<pid>/fd/<n>` text answer every access identically -/
theorem C14_sees_only_link_text (d : Fd) (k : FdKind) (h : linkText k = linkText d.kind) :
    renderFd { d with kind := k } = renderFd d := by
  unfold renderFd
  simp only [h]
  rfl

/-- **the ground truth is unobservable**: an unlinked regular file opened at `path` and a
    non-regular descriptor (FIFO, directory, memfd …) whose path is literally `path ++ " (deleted)"`
    are the same to every reader of `/proc/<pid>` — one IS a regular file (`Fd.isReg`), the other is
    not. No implementation working from procfs can list "exactly the descriptors whose open file is
    regular"; what is provable (and proved: `C14_open_files_exact`) is exactness with respect to what
    the monitor's `os.stat` of the link text says. -/
theorem C14_ground_truth_unobservable (d : Fd) (path : Bytes) :
    renderFd { d with kind := .regular path true } = renderFd { d with kind := .device (path ++ delText) } ∧
    Fd.isReg { d with kind := .regular path true } = true ∧
    Fd.isReg { d with kind := .device (path ++ delText) } = false := by
  refine ⟨?_, rfl, rfl⟩
  have h := C14_sees_only_link_text { d with kind := .device (path ++ delText) } (.regular path true)
    (by simp [linkText])
  exact h

/-- the reading "exactly the descriptors whose OPEN FILE is a regular file" (the kernel's knowledge of
    the inode, `groundListed`), at full strength, for an arbitrary configuration -/
def GroundTruthExact_Full (c : Cfg) : Prop :=
  ∀ w : World, Live w → Inspectable w → (∀ d ∈ w.fds, WFFd w.fs d) →
    openFiles c w.fs (renderWorld w) = .ok (w.fds.filterMap groundListed)

/-- live process: `3 -> "/g (deleted)"`, an open regular file that was unlinked; nothing is at `/g` -/
def wUnlinked : World :=
  { fds := [⟨3, .regular [47, 103] true, 5, 2, [], none, none⟩], fs := fsW, goneBefore := false, diesAt := none }

/-- **an unlinked-but-open regular file is NOT listed** (false negative with respect to the ground
    truth): the marker is dropped, nothing is at the name, `isfile_strict` says no. Characterisation:
    the call succeeds, `num_fds()` still counts the descriptor. -/
theorem C14_unlinked_open_file_not_listed :
    openFiles cfg wUnlinked.fs (renderWorld wUnlinked) = .ok [] ∧
    wUnlinked.fds.filterMap groundListed = [⟨[47, 103], 3, 5, mRp, 2⟩] ∧
    numFds cfg (renderWorld wUnlinked) = .ok 1 := by
  rw [C14_open_files_exact wUnlinked (by decide), C14_num_fds]
  decide

/-- … so the ground-truth reading is REFUTED for the code (and, by `C14_ground_truth_unobservable`, for
    any code that reads procfs) -/
theorem C14_ground_truth_not_exact : ¬ GroundTruthExact_Full cfg := by
  intro h
  have h1 := h wUnlinked ⟨rfl, rfl⟩ (by unfold Inspectable; decide) (by decide)
  rw [C14_unlinked_open_file_not_listed.1] at h1
  revert h1
  decide

/-- live process: `3 -> "/f (deleted)"`; a regular file lives at `/f` -/
def wRecreated : World :=
  { fds := [⟨3, .regular [47, 102] true, 5, 2, [], none, none⟩], fs := fsW, goneBefore := false, diesAt := none }

/-- **a re-created name is reported as if it were the open file**: `3 -> "/f (deleted)"` (the open
    file was unlinked) while ANOTHER regular file now lives at `/f`: the entry carries the path `/f`
    with the offset and flags of the unlinked file (inside the well-formed class; the specification,
    which asks the file system about the name, says the same) -/
theorem C14_recreated_name_listed :
    openFiles cfg fsW (renderWorld wRecreated) = .ok [⟨[47, 102], 3, 5, mRp, 2⟩] := by
  rw [show fsW = wRecreated.fs from rfl, C14_open_files_exact wRecreated (by decide)]
  decide

/-- `3 -> "/f (deleted)"` where the open file is NOT a regular file (an unlinked FIFO, say), fdinfo
    `pos:\t0\nflags:\t02\n`; a regular file lives at `/f` -/
def procFalsePos : Proc :=
  { fdDir := .ok [⟨[51], .ok ([47, 102] ++ delText), .ok [112, 111, 115, 58, 9, 48, 10, 102, 108, 97, 103, 115, 58, 9, 48, 50, 10]⟩]
    alive := true }

/-- **false positive outside the well-formed class** (the case `WFKind (.device p)` excludes:
    `p = x ++ " (deleted)"` with a regular file at `x`): the non-regular descriptor is listed under
    the other file's name. Characterisation of the code; `procFalsePos` is what the kernel renders for
    that `.device` descriptor (first conjunct). -/
theorem C14_deleted_nonregular_false_positive :
    (renderFd ⟨3, .device ([47, 102] ++ delText), 0, 2, [], none, none⟩).link = .ok ([47, 102] ++ delText) ∧
    openFiles cfg fsW procFalsePos = .ok [⟨[47, 102], 3, 0, mRp, 2⟩] := by
  constructor
  · rfl
  · decide

/-! ### non-absolute link texts are never handed to `isfile_strict` (audit item 4) -/

/-- **a non-absolute link text is never stat'ed by the filter** — for EVERY file system, even one that
    refuses every `os.stat` (an unsearchable cwd): a text that does not start with `/` and does not end
    in `" (deleted)"` (sockets, pipes, anon inodes, `net:[…]`, `(unreachable)/x`, …) is skipped, the
    answers of the file system are not looked at. Rests on the fact `absFirst`. -/
theorem C14_nonabsolute_never_stated (fs : FS) (name raw : Bytes) (info : InfoRes)
    (hrel : raw.head? ≠ some 47) (hdel : endsWith delText (raw.takeWhile (· != 0)) = false) :
    scanOne cfg fs ⟨name, .ok raw, info⟩ = .skip := by
  have hg := cfg_good_scan
  unfold scanOne
  simp only [pyReadlinkDenied, pyReadlinkEscapes, isfileEscapes, hg.delSuffix, hdel, Bool.false_and, Bool.and_false,
    Bool.false_eq_true, if_false, not_abs_of_head cfg hg fs raw hrel, hg.absFirst, Bool.not_true, Bool.or_false]

/-- … the one exception, stated exactly: a non-absolute text that DOES end in `" (deleted)"` is looked up
    by `readlink()`'s marker rule (`path_exists_strict`, relative to the monitor's cwd); when that
    look-up is refused the call fails (AccessDenied after `wrap_exceptions`), otherwise the
    descriptor is skipped. Characterisation (the kernel prints such a text for an unlinked file on a
    detached mount: `(unreachable)/x (deleted)`); same class as `C14_uninspectable_not_skipped`. -/
theorem C14_nonabsolute_marker_lookup (fs : FS) (name raw : Bytes) (info : InfoRes)
    (hrel : raw.head? ≠ some 47) (hdel : endsWith delText (raw.takeWhile (· != 0)) = true) :
    scanOne cfg fs ⟨name, .ok raw, info⟩ =
      if fs.denied (raw.takeWhile (· != 0)) then .raise .permissionError else .skip := by
  have hg := cfg_good_scan
  have ha := cfg_good_access
  unfold scanOne
  simp only [pyReadlinkDenied, pyReadlinkEscapes_good cfg ha, isfileEscapes_good cfg ha, hg.delSuffix, hdel,
    ha.existsDeniedRaises, Bool.true_and, not_abs_of_head cfg hg fs raw hrel, hg.absFirst, Bool.not_true, Bool.or_false, Bool.false_and,
    Bool.false_eq_true, if_false, deniedLinkStep, ha.linkGoneDenied, ha.linkDeniedRaises, if_true]

/-- a file system that refuses every `os.stat` -/
def fsAllDenied : FS := { isFile := fun _ => false, pathExists := fun _ => false, denied := fun _ => true }

/-- `3 -> pipe:[1]` -/
def procPipe : Proc :=
  { fdDir := .ok [⟨[51], .ok [112, 105, 112, 101, 58, 91, 49, 93], .openErr .enoent⟩], alive := true }

/-- why `cfg_good_scan` demands `absFirst`: with the conjuncts swapped (`isfile_strict(path) and
    path.startswith('/')`) a pipe makes the call fail under an unsearchable cwd; the code as it is
    answers `[]` -/
theorem C14_swapped_filter_stats_relative :
    openFiles cfg fsAllDenied procPipe = .ok [] ∧
    openFiles { cfg with absFirst := false } fsAllDenied procPipe = .exc .accessDenied := by decide

/-! ### readlink failing with an errno the code does not name (audit item 5) -/

/-- **any other errno of `os.readlink`**: EINVAL (22) and ENAMETOOLONG (36) skip the descriptor, every
    other errno (EIO, ELOOP, ENOTDIR, EBADF, …, whatever `OSError` subclass CPython picks) is
    re-raised — nothing is silently dropped. Rests on the facts `linkSkipErrnos`, `linkGoneExtra`,
    `linkSkipClasses`. -/
theorem C14_readlink_other_errno (fs : FS) (name : Bytes) (info : InfoRes) (en : Nat) (cls : Bytes) :
    scanOne cfg fs ⟨name, .err (.other en cls), info⟩ =
      if en = 22 ∨ en = 36 then .skip else .raise .osError := by
  have hg := cfg_good_scan
  unfold scanOne
  simp only [linkErrStep, otherLinkStep, hg.linkGoneExtra, hg.linkSkipClasses, hg.linkSkipErrnos, catches]
  by_cases h1 : en = 22
  · simp [h1]
  · by_cases h2 : en = 36
    · simp [h2]
    · simp [h1, h2]

/-- `3 -> /f` fine, `4`: readlink fails with EIO (errno 5, plain OSError) -/
def procEio : Proc :=
  { fdDir := .ok [⟨[51], .ok [47, 102], .ok [112, 111, 115, 58, 9, 48, 10, 102, 108, 97, 103, 115, 58, 9, 48, 50, 10]⟩,
      ⟨[52], .err (.other 5 clsOSError), .openErr .enoent⟩]
    alive := true }

/-- the whole call: the bare OSError leaves `open_files()` (no row of `wrap_exceptions` translates it:
    characterisation — the statement names closing descriptors, not I/O errors); a variant whose
    handler also `continue`d on EIO would return a list silently lacking descriptor 4 -/
theorem C14_readlink_eio_propagates :
    openFiles cfg fsW procEio = .exc .osError ∧
    openFiles { cfg with linkSkipErrnos := [5, 22, 36] } fsW procEio = .ok [⟨[47, 102], 3, 0, mRp, 2⟩] ∧
    openFiles { cfg with linkGoneExtra := [clsOSError] } fsW procEio = .ok [⟨[47, 102], 3, 0, mRp, 2⟩] := by decide

/-! ### the process dies between the readlink and the fdinfo of one descriptor (audit item 6) -/

/-- **death right after a link was read, more descriptors to come** ⇒ NoSuchProcess (unless the monitor
    had been refused earlier) -/
theorem C14_dies_after_link_NSP (w : World) (hwf : ∀ d ∈ w.fds, WFFd w.fs d) (k : Nat)
    (hd : w.diesAt = some k) (hs : w.diesAfterLink = true) (hk : k + 1 < w.fds.length)
    (hi : w.denied = false) :
    openFiles cfg w.fs (renderWorld w) = .exc .noSuchProcess := by
  apply C14_gone_process_NSP w hwf _ (Or.inr hi)
  have hdied : w.died = true := by simp [World.died, hd]; omega
  simp only [World.vanished, hdied, Bool.true_and, any_failsGone, World.seen, hd, hs, if_true,
    killAfter_hits_succ w.fs k w.fds hk, Bool.or_true]

/-- **death between the readlink and the fdinfo of a descriptor that points to a regular file** (whatever
    its position, the last one included) ⇒ NoSuchProcess: the fdinfo open fails, the final liveness
    check finds the process gone — never a list lacking that descriptor -/
theorem C14_dies_between_link_and_fdinfo_NSP (w : World) (hwf : ∀ d ∈ w.fds, WFFd w.fs d) (k : Nat) (d : Fd)
    (hd : w.diesAt = some k) (hs : w.diesAfterLink = true) (hk : w.fds[k]? = some d)
    (hr : reachesFdinfo w.fs d.kind = true) (hi : w.denied = false) :
    openFiles cfg w.fs (renderWorld w) = .exc .noSuchProcess := by
  apply C14_gone_process_NSP w hwf _ (Or.inr hi)
  have hlt : k < w.fds.length := by
    by_contra hc
    rw [List.getElem?_eq_none (by omega)] at hk
    cases hk
  have hdied : w.died = true := by simp [World.died, hd, hlt]
  simp only [World.vanished, hdied, Bool.true_and, any_failsGone, World.seen, hd, hs, if_true,
    killAfter_hits_at w.fs k w.fds d hk hr, Bool.or_true]

/-- **death before a link is read** (the round-1 stage) is always noticed -/
theorem C14_dies_before_link_NSP (w : World) (hwf : ∀ d ∈ w.fds, WFFd w.fs d) (k : Nat)
    (hd : w.diesAt = some k) (hs : w.diesAfterLink = false) (hk : k < w.fds.length) (hi : w.denied = false) :
    openFiles cfg w.fs (renderWorld w) = .exc .noSuchProcess := by
  apply C14_gone_process_NSP w hwf _ (Or.inr hi)
  have hdied : w.died = true := by simp [World.died, hd, hk]
  simp [World.vanished, hdied, any_failsGone, World.seen, hd, hs, killFrom_hits w.fs k w.fds hk]

/-- **a death nobody can notice gives the full list**: the process went away during the call, no access
    made afterwards failed (it died right after the link of its LAST descriptor was read, that one
    not pointing to a regular file, and no descriptor had closed): the answer is the complete report
    of the table — never a partial list -/
theorem C14_death_unnoticed_full_list (w : World) (hwf : ∀ d ∈ w.fds, WFFd w.fs d)
    (hg : w.goneBefore = false) (_hdied : w.died = true) (hn : w.seen.any (failsGone w.fs) = false)
    (hi : w.denied = false) :
    openFiles cfg w.fs (renderWorld w) = .ok (w.fds.filterMap (listed w.fs)) := by
  rw [C14_open_files_exact w hwf]
  simp [expectedOpenFiles, World.vanished, hg, hi, hn]

/-- non-vacuity: `3 -> /f`, `4 -> socket:[9]`, death right after the link of index 1 (the socket) was
    read: unnoticed, full list; death right after the link of index 0: NoSuchProcess -/
example :
    let fds : List Fd := [⟨3, .regular [47, 102] false, 7, 2, [], none, none⟩, ⟨4, .socket 9, 0, 2, [], none, none⟩]
    expectedOpenFiles ⟨fds, fsW, false, some 1, false, false, true⟩ = .ok [⟨[47, 102], 3, 7, mRp, 2⟩] ∧
    expectedOpenFiles ⟨fds, fsW, false, some 0, false, false, true⟩ = .exc .noSuchProcess ∧
    (⟨fds, fsW, false, some 1, false, false, true⟩ : World).died = true := by decide

/-! ### targets that can no longer be stat'ed: ENOTDIR, ELOOP, ENAMETOOLONG, ESTALE, EIO, … (seeded round 5) -/

/-- obligation over the facts `isfileHandlers` / `existsHandlers`, in its semantic form: in BOTH strict
    helpers every failure of `os.stat` whose class is not PermissionError — whatever the errno, whatever
    `OSError` subclass CPython raises for it — is answered `False`; PermissionError is not -/
theorem cfg_good_stat (cls : Bytes) (h : cls ≠ clsPermissionError) :
    statAnswer cfg.isfileHandlers cls = some true ∧ statAnswer cfg.existsHandlers cls = some true ∧
    statFalse cfg.isfileHandlers clsPermissionError = false ∧
    statFalse cfg.existsHandlers clsPermissionError = false :=
  ⟨allOthersFalse_spec _ cfg_good_access.isfileOthersFalse cls h,
   allOthersFalse_spec _ cfg_good_access.existsOthersFalse cls h,
   cfg_good_access.isfilePermCoherent, cfg_good_access.existsPermCoherent⟩

/-- **the errno of a failing `os.stat` never matters**: for EVERY process (any entries, any link texts,
    any fdinfo answers, any state) and EVERY file system, replacing the table of stat failures
    (`FS.statErr`: which names fail, with which errno, as which exception class) by ANY other one —
    in particular by the empty one — does not change the answer of `open_files()`. A name whose
    `os.stat` fails with ENOTDIR / ELOOP / ENAMETOOLONG / ESTALE / EIO / … is treated exactly like a
    name that is not there. -/
theorem C14_stat_errno_never_matters (fs : FS) (p : Proc) (se : Bytes → Option StatFail) :
    openFiles cfg { fs with statErr := se } p = openFiles cfg fs p := by
  unfold openFiles openFilesBody
  cases p.fdDir with
  | err e => rfl
  | ok entries => simp only [scan_statErr cfg cfg_good_access fs se]

/-- the clause "left out and never make the call fail for a live process", at full strength for
    descriptors whose target cannot be stat'ed, for an arbitrary configuration: over ANY table, ANY
    file system whose answers are coherent, ANY errno / class of the failures, a live and inspectable
    process gets exactly the report of the table without those descriptors (and without the closing
    ones) -/
def UnstatableLeftOut_Full (c : Cfg) : Prop :=
  ∀ w : World, Live w → Inspectable w → (∀ d ∈ w.fds, WFFd w.fs d) → StatCoherent w.fs →
    openFiles c w.fs (renderWorld w)
      = .ok ((w.fds.filter fun d => !targetUnstatable w.fs d && d.closesAt.isNone).filterMap (listed w.fs))

/-- **a target that can no longer be stat'ed is left out and never fails the call** -/
theorem C14_unstatable_left_out : UnstatableLeftOut_Full cfg := by
  intro w hl hi hwf hco
  rw [C14_closing_fd_never_fails w hl hi hwf, listed_filter_statable w.fs hco, List.filter_filter]

def clsNotADirectoryError : Bytes := [78, 111, 116, 65, 68, 105, 114, 101, 99, 116, 111, 114, 121, 69, 114, 114, 111, 114]

/-- `/k` is a regular file; `os.stat("/d/f")` and `os.stat("/d/f (deleted)")` fail with ENOTDIR (`/d` was a
    directory, was removed, and a regular file was created under its name) -/
def fsNotDir : FS :=
  { isFile := fun p => p == [47, 107], pathExists := fun p => p == [47, 107]
    statErr := fun p =>
      if p == [47, 100, 47, 102] || p == [47, 100, 47, 102] ++ delText then some ⟨20, clsNotADirectoryError, by decide⟩
      else none }

/-- live process: `4 -> /d/f (deleted)` (unlinked together with its directory) and `3 -> /k` -/
def wNotDir : World :=
  { fds := [⟨4, .regular [47, 100, 47, 102] true, 0, 1, [], none, none⟩,
            ⟨3, .regular [47, 107] false, 5, 0o2002, [], none, none⟩]
    fs := fsNotDir, goneBefore := false, diesAt := none }

/-- the seeded defect as a configuration: `isfile_strict` with the single clause
    `except FileNotFoundError: return False` -/
def cfgNarrowIsfile : Cfg := { cfg with isfileHandlers := [([clsFileNotFoundError], true)] }

/-- the same narrowing in `path_exists_strict` -/
def cfgNarrowExists : Cfg := { cfg with existsHandlers := [([clsFileNotFoundError], true)] }

theorem fsNotDir_coherent : StatCoherent fsNotDir := by
  intro p hp
  have hp' : p = [47, 100, 47, 102] ∨ p = [47, 100, 47, 102] ++ delText := by
    by_contra hne
    simp only [not_or] at hne
    simp [fsNotDir, hne.1] at hp
    exact hne.2 (by simpa using hp)
  rcases hp' with rfl | rfl <;> decide

/-- non-vacuity and the witness: the code as it is lists descriptor 3 and leaves descriptor 4 out … -/
theorem C14_unstatable_witness :
    Live wNotDir ∧ Inspectable wNotDir ∧ (∀ d ∈ wNotDir.fds, WFFd wNotDir.fs d) ∧ StatCoherent wNotDir.fs ∧
    openFiles cfg wNotDir.fs (renderWorld wNotDir) = .ok [⟨[47, 107], 3, 5, mAp, 0o2002⟩] := by
  refine ⟨⟨rfl, rfl⟩, by unfold Inspectable; decide, by decide, fsNotDir_coherent, ?_⟩
  rw [C14_open_files_exact wNotDir (by decide)]
  decide

/-- … and BOTH narrowings break the clause: with `isfile_strict` catching only FileNotFoundError the
    NotADirectoryError leaves `open_files()` of a live process as a bare OSError subclass; with
    `path_exists_strict` narrowed it is raised inside `readlink()` and re-raised by the loop's
    `except OSError` handler (ENOTDIR is not one of the errnos it skips) -/
theorem C14_unstatable_needs_catch_all :
    ¬ UnstatableLeftOut_Full cfgNarrowIsfile ∧ ¬ UnstatableLeftOut_Full cfgNarrowExists ∧
    openFiles cfgNarrowIsfile wNotDir.fs (renderWorld wNotDir) = .exc .osError ∧
    openFiles cfgNarrowExists wNotDir.fs (renderWorld wNotDir) = .exc .osError := by
  have hw := C14_unstatable_witness
  have h1 : openFiles cfgNarrowIsfile wNotDir.fs (renderWorld wNotDir) = .exc .osError := by decide
  have h2 : openFiles cfgNarrowExists wNotDir.fs (renderWorld wNotDir) = .exc .osError := by decide
  refine ⟨fun h => ?_, fun h => ?_, h1, h2⟩
  · have h3 := h wNotDir hw.1 hw.2.1 hw.2.2.1 hw.2.2.2.1
    rw [h1] at h3
    cases h3
  · have h3 := h wNotDir hw.1 hw.2.1 hw.2.2.1 hw.2.2.2.1
    rw [h2] at h3
    cases h3

end Psutil.C14
