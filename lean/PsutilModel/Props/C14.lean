/-
  Props/C14.lean — property theorems for C14 (open_files / num_fds / io_counters).
  Only statements the property makes; helper lemmas live in Proofs/C14.lean.

  `cfg` is built from Generated/C14.lean, which the translator rewrites from /repo's source on
  every run; the `cfg_good_*` theorems are the proof obligations that break when a literal of
  the code changes (modes_map, masks, replace chain, bases, indices, the ' (deleted)' rule,
  the caught errnos, the io separator / key order / field names, the placement of int(value)).
-/
import PsutilModel.Proofs.C14
import PsutilModel.Model.C14Gen
namespace Psutil.C14
open Spec

/-! ## the translator-fed proof obligations -/

theorem cfg_good_mode : cfg.GoodMode3 := by
  refine ⟨⟨by decide, by decide, ?_⟩, ?_⟩ <;> decide

/-! ## file_flags_to_mode -/

/-- **mode table law**: for EVERY flag word whose access mode is one of the three standard
    ones, the mode string is the documented function of O_ACCMODE × O_APPEND. -/
theorem C14_mode_table (flags : Nat) (h : flags &&& 3 ≠ 3) :
    fileFlagsToMode cfg flags = some (Spec.mode flags) := by
  have hg := cfg_good_mode.toGoodMode
  rw [fileFlagsToMode_factor cfg hg, mode_eq]
  rw [and_3] at h
  have hlt : flags % 4 < 4 := Nat.mod_lt _ (by decide)
  have hcases : flags % 4 = 0 ∨ flags % 4 = 1 ∨ flags % 4 = 2 := by omega
  rcases hcases with e | e | e <;> rw [e]
  · exact (hg.table _).1
  · exact (hg.table _).2.1
  · exact (hg.table _).2.2

/-- **totality**: a mode string is defined for every flag word, access mode 3 included
    (so `open_files()` cannot fail with KeyError), and it is the documented one. -/
theorem C14_mode_total (flags : Nat) : fileFlagsToMode cfg flags = some (Spec.mode flags) := by
  have hg := cfg_good_mode
  rw [fileFlagsToMode_factor cfg hg.toGoodMode, mode_eq]
  have hlt : flags % 4 < 4 := Nat.mod_lt _ (by decide)
  have hcases : flags % 4 = 0 ∨ flags % 4 = 1 ∨ flags % 4 = 2 ∨ flags % 4 = 3 := by omega
  rcases hcases with e | e | e | e <;> rw [e]
  · exact (hg.table _).1
  · exact (hg.table _).2.1
  · exact (hg.table _).2.2
  · exact hg.three _

end Psutil.C14
