import PsutilModel.Model.C03Gen
import PsutilModel.Spec.C03
namespace Psutil.C03
theorem placeholder : cfg.hasRollup = true := by decide
end Psutil.C03
