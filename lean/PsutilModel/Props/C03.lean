/-
  Props/C03.lean — property theorems for C03 ("a process vanishing or being denied mid-call
  yields only psutil errors"). Only statements the property makes; the program logic and the
  body lemmas live in Proofs/C03*.lean.

  `cfg` is built from Generated/C03.lean, which the translator rewrites from /repo's source on
  every run; `cfg_good` is the proof obligation that breaks when an `except` list, a
  `wrap_exceptions` clause or a decorator table changes (e.g. ppid_map() no longer tolerating
  PermissionError = lead L3, a handler step dropped from wrap_exceptions, a method losing
  @wrap_exceptions). `C03_all_methods` is stated over the generated list of public names, so a
  new public method makes it fail until it is modelled or listed as uncovered.
-/
import PsutilModel.Proofs.C03Front
import PsutilModel.Proofs.C03Gone
import PsutilModel.Proofs.C03Deny
import PsutilModel.Proofs.C03Walk
import PsutilModel.Proofs.C03Hist
import PsutilModel.Proofs.C03Fuel
import PsutilModel.Model.C03Gen
namespace Psutil.C03
open Spec

deriving instance DecidableEq for Except

/-- proof obligation on the translator's output (HAS_PROC_SMAPS_ROLLUP is host dependent: both
    values are covered) -/
theorem cfg_good : cfg = goodCfg cfg.hasRollup := by decide

/-- **the property, for one call**: under every admissible fault plan, from every state (any
    well-formed oneshot cache), the outcome is a value or NoSuchProcess / ZombieProcess /
    AccessDenied carrying `pid` — never a bare OSError, never a parsing error -/
def Safe {α : Type} (pid : Nat) (m : M α) : Prop :=
  ∀ c s, Adm c → CacheInv s.cache → OK pid (m c s).1

theorem safe_of_tri {α : Type} {pid : Nat} {m : M α} {Q : α → Prop} (h : Tri (PsOnly pid) m Q) : Safe pid m := by
  intro c s ha hi
  have := h c s ha hi
  rcases hr : m c s with ⟨res, s'⟩
  rw [hr] at this
  cases res with
  | ok a => trivial
  | error e =>
    rcases this.1 with h | h | h <;> subst h <;> simp [OK]

/-- the named public method is modelled and safe -/
def MethodOK (o : Obj) (nm : String) : Prop := ∃ m, Fe.method cfg o nm = some m ∧ Safe o.pid m

theorem methodOK_of_getter {o : Obj} {nm : String} (h : ∀ b, GetterOK b o nm)
    (hm : ∀ b, Fe.method (goodCfg b) o nm = Fe.getter (goodCfg b) o nm) : MethodOK o nm := by
  unfold MethodOK
  rw [cfg_good]
  obtain ⟨m, hg, ht⟩ := h cfg.hasRollup
  exact ⟨m, by rw [hm, hg], safe_of_tri ht⟩

/-! ## one theorem per modelled public method (all admissible plans, any number of
    threads / descriptors / other PIDs — the loops are handled by induction) -/

theorem C03_safe_pid (o : Obj) : MethodOK o "pid" :=
  methodOK_of_getter (fun b => getter_pid b o) (fun _ => rfl)

theorem C03_safe_ppid (o : Obj) : MethodOK o "ppid" :=
  methodOK_of_getter (fun b => getter_ppid b o) (fun _ => rfl)

theorem C03_safe_name (o : Obj) : MethodOK o "name" :=
  methodOK_of_getter (fun b => getter_name b o) (fun _ => rfl)

theorem C03_safe_exe (o : Obj) : MethodOK o "exe" :=
  methodOK_of_getter (fun b => getter_exe b o) (fun _ => rfl)

theorem C03_safe_cmdline (o : Obj) : MethodOK o "cmdline" :=
  methodOK_of_getter (fun b => getter_cmdline b o) (fun _ => rfl)

theorem C03_safe_status (o : Obj) : MethodOK o "status" :=
  methodOK_of_getter (fun b => getter_status b o) (fun _ => rfl)

theorem C03_safe_username (o : Obj) : MethodOK o "username" :=
  methodOK_of_getter (fun b => getter_username b o) (fun _ => rfl)

theorem C03_safe_create_time (o : Obj) : MethodOK o "create_time" :=
  methodOK_of_getter (fun b => getter_create_time b o) (fun _ => rfl)

theorem C03_safe_cwd (o : Obj) : MethodOK o "cwd" :=
  methodOK_of_getter (fun b => getter_cwd b o) (fun _ => rfl)

theorem C03_safe_nice (o : Obj) : MethodOK o "nice" :=
  methodOK_of_getter (fun b => getter_nice b o) (fun _ => rfl)

theorem C03_safe_uids (o : Obj) : MethodOK o "uids" :=
  methodOK_of_getter (fun b => getter_uids b o) (fun _ => rfl)

theorem C03_safe_gids (o : Obj) : MethodOK o "gids" :=
  methodOK_of_getter (fun b => getter_gids b o) (fun _ => rfl)

theorem C03_safe_terminal (o : Obj) : MethodOK o "terminal" :=
  methodOK_of_getter (fun b => getter_terminal b o) (fun _ => rfl)

theorem C03_safe_num_fds (o : Obj) : MethodOK o "num_fds" :=
  methodOK_of_getter (fun b => getter_num_fds b o) (fun _ => rfl)

theorem C03_safe_io_counters (o : Obj) : MethodOK o "io_counters" :=
  methodOK_of_getter (fun b => getter_io_counters b o) (fun _ => rfl)

theorem C03_safe_ionice (o : Obj) : MethodOK o "ionice" :=
  methodOK_of_getter (fun b => getter_ionice b o) (fun _ => rfl)

theorem C03_safe_cpu_affinity (o : Obj) : MethodOK o "cpu_affinity" :=
  methodOK_of_getter (fun b => getter_cpu_affinity b o) (fun _ => rfl)

theorem C03_safe_cpu_num (o : Obj) : MethodOK o "cpu_num" :=
  methodOK_of_getter (fun b => getter_cpu_num b o) (fun _ => rfl)

theorem C03_safe_environ (o : Obj) : MethodOK o "environ" :=
  methodOK_of_getter (fun b => getter_environ b o) (fun _ => rfl)

theorem C03_safe_num_ctx_switches (o : Obj) : MethodOK o "num_ctx_switches" :=
  methodOK_of_getter (fun b => getter_num_ctx_switches b o) (fun _ => rfl)

theorem C03_safe_num_threads (o : Obj) : MethodOK o "num_threads" :=
  methodOK_of_getter (fun b => getter_num_threads b o) (fun _ => rfl)

theorem C03_safe_threads (o : Obj) : MethodOK o "threads" :=
  methodOK_of_getter (fun b => getter_threads b o) (fun _ => rfl)

theorem C03_safe_cpu_times (o : Obj) : MethodOK o "cpu_times" :=
  methodOK_of_getter (fun b => getter_cpu_times b o) (fun _ => rfl)

theorem C03_safe_cpu_percent (o : Obj) : MethodOK o "cpu_percent" :=
  methodOK_of_getter (fun b => getter_cpu_percent b o) (fun _ => rfl)

theorem C03_safe_memory_info (o : Obj) : MethodOK o "memory_info" :=
  methodOK_of_getter (fun b => getter_memory_info b o) (fun _ => rfl)

theorem C03_safe_memory_full_info (o : Obj) : MethodOK o "memory_full_info" :=
  methodOK_of_getter (fun b => getter_memory_full_info b o) (fun _ => rfl)

theorem C03_safe_memory_percent (o : Obj) : MethodOK o "memory_percent" :=
  methodOK_of_getter (fun b => getter_memory_percent b o) (fun _ => rfl)

theorem C03_safe_memory_maps (o : Obj) : MethodOK o "memory_maps" :=
  methodOK_of_getter (fun b => getter_memory_maps b o) (fun _ => rfl)

theorem C03_safe_open_files (o : Obj) : MethodOK o "open_files" :=
  methodOK_of_getter (fun b => getter_open_files b o) (fun _ => rfl)

theorem C03_safe_net_connections (o : Obj) : MethodOK o "net_connections" :=
  methodOK_of_getter (fun b => getter_net_connections b o) (fun _ => rfl)


/-- is_running() never raises at all -/
theorem C03_safe_is_running (o : Obj) : MethodOK o "is_running" := by
  unfold MethodOK; rw [cfg_good]
  refine ⟨_, rfl, safe_of_tri (Q := fun _ => True) ?_⟩
  exact tri_bind (tri_exc (isRunning_safe _ o) (fun _ _ _ h => h.elim))
    (fun x _ => by cases x; exact tri_pure trivial)

/-- rlimit(resource) (get); PID 0 is rejected with ValueError by design -/
theorem C03_safe_rlimit (o : Obj) (h0 : o.pid ≠ 0) : MethodOK o "rlimit" := by
  unfold MethodOK; rw [cfg_good]
  exact ⟨_, rfl, safe_of_tri (Q := fun _ => True) (tri_bind (rlimit_safe _ o.pid h0) (fun _ _ => tri_pure trivial))⟩

/-! ## the decorator of every platform method: no bare OSError, in particular the bare `raise`
    of the FileNotFoundError clause is unreachable under admissible plans -/

theorem C03_wrap_safe {α : Type} (p : Nat) {body : M α} {Q : α → Prop} (hb : Tri (ExcOK p) body Q) :
    Safe p (wrapExceptions cfg p body) := by
  rw [cfg_good]; exact safe_of_tri (wrap_safe _ p hb)

theorem C03_wrap_never_bare_fnf {α : Type} (p : Nat) {body : M α} {Q : α → Prop} (hb : Tri (ExcOK p) body Q)
    (c : Ctx) (s : St) (ha : Adm c) (hi : CacheInv s.cache) :
    (wrapExceptions cfg p body c s).1 ≠ .error .fnf := by
  intro h
  have := C03_wrap_safe p hb c s ha hi
  rw [h] at this
  exact this

/-- witnesses live on this world: PIDs 101 and 105 (child of 101), the object is 105 -/
def w0 : World :=
  { target := 105
    procs := [⟨101, 1, 50, false, false, [(101, false)], [], false⟩,
              ⟨105, 101, 100, false, false, [(105, false)], [], false⟩] }

/-- the admissibility bound is tight: with TWO refused accesses (lexists of /proc/105 and the
    stat probe of `_is_zombie`) a zombie's exe() does leak the bare FileNotFoundError -/
theorem C03_two_denials_leak :
    (Plat.exe (goodCfg true) 105
      ⟨w0, zombieFrom 0, fun k => if k = 1 ∨ k = 2 then some .EACCES else none⟩ {}).1 = .error .fnf := by
  decide

/-! ### … as a TABLE over all modelled methods (characterisation of the code as it is — NOT a finding)

    The property's quantifier refuses ONE access per call ("access k alone is refused"), and `Adm` says so. What if two
    accesses of one call are refused? For every modelled query: either a concrete two-refusal plan that makes the call
    leak (a bare builtin exception, or a psutil error carrying another process' pid) — proved here on the model and
    replayed on the real code by the correspondence (family `two_denials`) — or the bounded statement that NO pair of
    refused accesses (indices < 12: longer than every trace on that world), on an alive or a zombie process, makes the
    call leak on the two-process world `w0` (decided exhaustively; the correspondence enumerates the same pairs on the
    real code and requires model = implementation). -/

/-- two refused accesses (indices i and j, EACCES) of a call on a process that is `life` throughout -/
def twoDeny (w : World) (life : WS) (i j : Nat) : Ctx :=
  ⟨w, fun _ => life, fun k => if k = i ∨ k = j then some .EACCES else none⟩

/-- outcome of the named call on the world's object under a context (none: not modelled) -/
def runOf (b : Bool) (w : World) (nm : String) (c : Ctx) : Option (Except PyExc Val) :=
  (Fe.method (goodCfg b) w.obj nm).map (fun m => (m c {}).1)

def OKopt (pid : Nat) : Option (Except PyExc Val) → Prop
  | some r => OK pid r
  | none => False

instance (pid : Nat) (r : Option (Except PyExc Val)) : Decidable (OKopt pid r) := by
  unfold OKopt; split <;> infer_instance

/-- PIDs 50 ← 101 ← 105; the object is 101 (it has the child 105) -/
def wc : World :=
  { target := 101
    procs := [⟨50, 0, 10, false, false, [(50, false)], [], false⟩,
              ⟨101, 50, 50, false, false, [(101, false)], [], false⟩,
              ⟨105, 101, 100, false, false, [(105, false)], [], false⟩] }

/-- (method, world, state of the process, the two refused access indices, what leaks) -/
def twoDenialLeaks : List (String × World × WS × Nat × Nat × PyExc) :=
  [("exe", w0, .zombie, 1, 2, .fnf),            -- lexists(/proc/pid) and the zombie probe refused: bare FileNotFoundError
   ("cwd", w0, .zombie, 1, 2, .fnf),
   ("parent", w0, .alive, 5, 6, .ad 101),       -- Process(ppid) swallows one refusal, parent.create_time() is refused again
   ("parents", w0, .alive, 5, 6, .ad 101),
   ("children", wc, .alive, 9, 11, .ad 105),    -- the same on a child: AccessDenied(child) is not in the except tuple
   ("children_recursive", wc, .alive, 9, 11, .ad 105)]

/-- the modelled queries for which no pair of refusals leaks on `w0` (bounded, exhaustive) -/
def twoDenialBounded : List String :=
  ["pid", "ppid", "name", "cmdline", "status", "username", "create_time", "nice", "uids", "gids", "terminal", "num_fds",
   "io_counters", "ionice", "cpu_affinity", "cpu_num", "environ", "num_ctx_switches", "num_threads", "threads",
   "cpu_times", "cpu_percent", "memory_info", "memory_full_info", "memory_percent", "memory_maps", "open_files",
   "net_connections", "connections", "is_running", "rlimit"]

def LeakHolds (b : Bool) (x : String × World × WS × Nat × Nat × PyExc) : Prop :=
  runOf b x.2.1 x.1 (twoDeny x.2.1 x.2.2.1 x.2.2.2.1 x.2.2.2.2.1) = some (.error x.2.2.2.2.2) ∧
    ¬ OK x.2.1.target (.error x.2.2.2.2.2 : Except PyExc Val)

def BoundedSafe (b : Bool) (w : World) (nm : String) (B : Nat) : Prop :=
  ∀ life ∈ [WS.alive, WS.zombie], ∀ i < B, ∀ j < B, OKopt w.target (runOf b w nm (twoDeny w life i j))

instance (b : Bool) (x : String × World × WS × Nat × Nat × PyExc) : Decidable (LeakHolds b x) := by
  unfold LeakHolds; infer_instance
instance (b : Bool) (w : World) (nm : String) (B : Nat) : Decidable (BoundedSafe b w nm B) := by
  unfold BoundedSafe; infer_instance

set_option maxRecDepth 100000 in
/-- each listed plan leaks what the table says, and that is outside `OK` -/
theorem C03_two_denials_table_leaks (b : Bool) : ∀ x ∈ twoDenialLeaks, LeakHolds b x := by
  cases b <;> decide +kernel

set_option maxRecDepth 100000 in
/-- no pair of refused accesses leaks for the other modelled queries, on `w0`, alive or zombie -/
theorem C03_two_denials_table_bounded (b : Bool) : ∀ nm ∈ twoDenialBounded, BoundedSafe b w0 nm 12 := by
  cases b <;> decide +kernel

/-- the full-strength side NOT proved: "safe under ANY number of refusals, on every world" for the queries of
    `twoDenialBounded` (would need the whole triple calculus of Proofs/C03*.lean re-done without `DenyOnce`; the
    bounded exhaustive statement above + the same enumeration on the real code is what is established) -/
def C03_multi_denial_safe_Full : Prop :=
  ∀ nm ∈ twoDenialBounded, ∀ (o : Obj) (c : Ctx) (s : St), Monotone c.ws → (∀ i e, c.deny i = some e → e = .EACCES ∨ e = .EPERM) →
    (∃ i ∈ c.w.procs, i.pid ≠ c.w.target) → CacheInv s.cache → o.pid ≠ 0 →
    ∃ m, Fe.method cfg o nm = some m ∧ OK o.pid (m c s).1

/-! ## as_dict / process_iter -/

/-- every name as_dict() accepts is a modelled getter (translator fact `asDictNames`) -/
theorem C03_as_dict_names_modelled : ∀ nm ∈ asDictNames, nm ∈ getterNames := by decide

/-- as_dict(attrs): AccessDenied and ZombieProcess are replaced by ad_value; the only exception
    that can leave is NoSuchProcess(pid); the oneshot cache is left well-formed -/
theorem C03_as_dict_policy (o : Obj) (attrs : List String) (h : ∀ nm ∈ attrs, nm ∈ asDictNames)
    (c : Ctx) (s : St) (ha : Adm c) (hi : CacheInv s.cache) :
    match (Fe.asDict cfg o attrs c s).1 with
    | .ok _ => True
    | .error e => e = .nsp o.pid := by
  rw [cfg_good]
  have := asDict_safe cfg.hasRollup o attrs (fun nm hnm => C03_as_dict_names_modelled nm (h nm hnm)) c s ha hi
  rcases hr : Fe.asDict (goodCfg cfg.hasRollup) o attrs c s with ⟨res, s'⟩
  rw [hr] at this
  cases res with
  | ok v => trivial
  | error e => exact this.1

/-- process_iter(attrs) swallows NoSuchProcess (the pid is dropped) and never raises -/
theorem C03_process_iter_swallow (attrs : List String) (h : ∀ nm ∈ attrs, nm ∈ asDictNames)
    (c : Ctx) (s : St) (ha : Adm c) (hi : CacheInv s.cache) :
    ∃ v, (Fe.processIter cfg attrs c s).1 = .ok v := by
  rw [cfg_good]
  have := processIter_safe cfg.hasRollup attrs (fun nm hnm => C03_as_dict_names_modelled nm (h nm hnm)) c s ha hi
  rcases hr : Fe.processIter (goodCfg cfg.hasRollup) attrs c s with ⟨res, s'⟩
  rw [hr] at this
  cases res with
  | ok v => exact ⟨v, rfl⟩
  | error e => exact this.1.elim

/-! ## children() and parent(): lead L3 -/

/-- children() (non recursive), repaired ppid_map(): for every admissible plan, any number of listed
    PIDs and children — a value or a psutil error for the object's pid. In particular no bare
    PermissionError (L3), and no AccessDenied carrying a child's pid: `Process(child)` may swallow
    one refusal, but then the following `child.create_time()` cannot be refused again (deny
    accounting in Proofs/C03Deny.lean) -/
theorem C03_safe_children (o : Obj) : MethodOK o "children" := by
  unfold MethodOK; rw [cfg_good]
  exact ⟨_, rfl, safe_of_tri (children_safe _ o)⟩

/-- parent(): same statement (the /proc listing is never empty in an admissible world, so
    `pids()[0]` cannot raise IndexError) -/
theorem C03_safe_parent (o : Obj) : MethodOK o "parent" := by
  unfold MethodOK; rw [cfg_good]
  exact ⟨_, rfl, safe_of_tri (parent_safe _ o)⟩

/-- ppid_map() itself lets nothing escape once PermissionError is tolerated -/
theorem C03_ppid_map_total (c : Ctx) (s : St) (ha : Adm c) (hi : CacheInv s.cache) :
    ∃ v, (Plat.ppidMap cfg c s).1 = .ok v := by
  rw [cfg_good]
  have := ppidMap_safe cfg.hasRollup c s ha hi
  rcases hr : Plat.ppidMap (goodCfg cfg.hasRollup) c s with ⟨res, s'⟩
  rw [hr] at this
  cases res with
  | ok v => exact ⟨v, rfl⟩
  | error e => exact this.1.elim

theorem adm_w0_deny (i : Nat) : Adm ⟨w0, alwaysAlive, denyAt i .EACCES⟩ := by
  refine ⟨fun _ _ _ => Nat.le_refl _, ⟨fun j e h => ?_, fun a b e e' h1 h2 => ?_⟩, ?_⟩
  · simp only [denyAt] at h; split at h <;> simp at h; exact Or.inl h.symm
  · simp only [denyAt] at h1 h2
    split at h1 <;> split at h2 <;> simp_all
  · exact ⟨⟨101, 1, 50, false, false, [(101, false)], [], false⟩, by simp [w0], by simp [w0]⟩

/-- **lead L3, re-found**: with the source as it was (ppid_map() tolerating only
    ENOENT/ESRCH) a single EACCES on the open of /proc/101/stat (access 3 of children()) makes
    Process(105).children() raise the bare builtin PermissionError -/
theorem C03_children_prefix_counterexample :
    ¬ (∀ (o : Obj) (c : Ctx) (s : St), Adm c → CacheInv s.cache →
        OK o.pid (Fe.children (preFixCfg true) o c s).1) := by
  intro h
  have := h w0.obj ⟨w0, alwaysAlive, denyAt 3 .EACCES⟩ {} (adm_w0_deny 3) cacheInv_empty
  have hrun : (Fe.children (preFixCfg true) w0.obj ⟨w0, alwaysAlive, denyAt 3 .EACCES⟩ {}).1 = .error .perm := by
    decide
  rw [hrun] at this
  exact this

/-- … and the same plan on the repaired source yields a value -/
theorem C03_children_fixed_witness :
    (Fe.children (goodCfg true) w0.obj ⟨w0, alwaysAlive, denyAt 3 .EACCES⟩ {}).1 = .ok (.procs []) := by
  decide

/-! ## the walks over other processes: children(recursive=True), parents(), connections() -/

/-- children(recursive=True): for every admissible plan, any process tree (any number of listed PIDs, any
    depth, cycles included) — a value or a psutil error for the object's pid. Each `Process(child)` /
    `child.create_time()` is a fault point; the per-child deny accounting is the one of children() -/
theorem C03_safe_children_recursive (o : Obj) : MethodOK o "children_recursive" := by
  unfold MethodOK; rw [cfg_good]
  exact ⟨_, rfl, safe_of_tri (childrenRecFuel_safe _ o none)⟩

/-- … and the bound the model puts on the `while stack` loop is immaterial: the same holds for every fuel -/
theorem C03_children_recursive_any_fuel (o : Obj) (fuel : Nat) :
    Safe o.pid (Fe.childrenRecFuel cfg o (some fuel)) := by
  rw [cfg_good]; exact safe_of_tri (childrenRecFuel_safe _ o (some fuel))

/-- **fuel sufficiency, children(recursive=True)** (was argued, now proved): the `while stack` loop pops at most
    `len(map) + 1` times — every map entry is pushed at most once, when its parent is marked seen — for ANY ppid
    map (cycles, self-parents, duplicates). Hence any fuel ≥ number of listed PIDs + 1 yields literally the same
    computation (result AND final state) as the model's default: the bound is invisible, the fuelled walk is the
    Python loop, and `C03_safe_children_recursive` speaks about it without a fuel hypothesis -/
theorem C03_children_recursive_fuel_sufficient (o : Obj) (fuel : Nat) (c : Ctx) (s : St)
    (hf : c.w.procs.length + 1 ≤ fuel) :
    Fe.childrenRecFuel cfg o (some fuel) c s = Fe.childrenRec cfg o c s :=
  childrenRecFuel_sufficient cfg o fuel c s hf

/-- … at the level of the loop itself: for every map, start state and extra fuel -/
theorem C03_children_walk_fuel_invisible (o : Obj) (pm : List (Nat × Nat)) (extra : Nat) (c : Ctx) (s : St) :
    Fe.childrenRecWalk cfg o (pm.length + 1 + extra) pm [o.pid] [] [] c s
      = Fe.childrenRecWalk cfg o (pm.length + 1) pm [o.pid] [] [] c s := by
  have hu : unseenEntries pm [] ≤ pm.length := List.length_filter_le _ _
  exact childrenRecWalk_fuel cfg o pm _ _ _ _ _ c s (by simp only [List.length_cons, List.length_nil]; omega)
    (by simp only [List.length_cons, List.length_nil]; omega)

/-- **fuel sufficiency, parents()**: every iteration of the `while` loop adds to `seen` a pid that is LISTED (the
    object `proc.parent()` returns exists only after a successful read of /proc/<ppid>/stat) and not yet seen, so
    there are at most #listed iterations, whatever the ppid links (cycles included) and whatever handler list
    surrounds `proc.parent()`; any fuel ≥ number of listed PIDs + 1 yields the same computation as the default -/
theorem C03_parents_fuel_sufficient (catchL : List String) (o : Obj) (fuel : Nat) (c : Ctx) (s : St)
    (hf : c.w.procs.length + 1 ≤ fuel) :
    Fe.parentsFuel cfg catchL o (some fuel) c s = Fe.parentsFuel cfg catchL o none c s :=
  parentsFuel_sufficient cfg catchL o fuel c s hf

/-- connections(): the deprecated alias (warns, then calls net_connections()) -/
theorem C03_safe_connections (o : Obj) : MethodOK o "connections" := by
  obtain ⟨m, hm, hs⟩ := C03_safe_net_connections o
  exact ⟨m, hm, hs⟩

/-- the weaker guarantee: a value or NoSuchProcess / ZombieProcess / AccessDenied carrying SOME pid — still
    never a bare OSError, never a parsing error -/
def SafeAny {α : Type} (m : M α) : Prop := ∀ c s, Adm c → CacheInv s.cache → OKany (m c s).1

def MethodAny (o : Obj) (nm : String) : Prop := ∃ m, Fe.method cfg o nm = some m ∧ SafeAny m

theorem safeAny_of_tri {α : Type} {m : M α} {Q : α → Prop} (h : Tri PsAny m Q) : SafeAny m := by
  intro c s ha hi
  have := h c s ha hi
  rcases hr : m c s with ⟨res, s'⟩
  rw [hr] at this
  cases res with
  | ok a => trivial
  | error e =>
    obtain ⟨q, h | h | h⟩ := this.1 <;> subst h <;> simp [OKany]

/-- the full-strength statement for parents() — FALSE of the current source, see `C03_parents_counterexample` -/
def C03_safe_parents_Full : Prop := ∀ o : Obj, MethodOK o "parents"

/-- PIDs 50 ← 101 ← 105; the object is 105 -/
def w1 : World :=
  { target := 105
    procs := [⟨50, 0, 10, false, false, [(50, false)], [], false⟩,
              ⟨101, 50, 50, false, false, [(101, false)], [], false⟩,
              ⟨105, 101, 100, false, false, [(105, false)], [], false⟩] }

theorem adm_deny (w : World) (hw : ∃ i ∈ w.procs, i.pid ≠ w.target) (i : Nat) :
    Adm ⟨w, alwaysAlive, denyAt i .EACCES⟩ := by
  refine ⟨fun _ _ _ => Nat.le_refl _, ⟨fun j e h => ?_, fun a b e e' h1 h2 => ?_⟩, hw⟩
  · simp only [denyAt] at h; split at h <;> simp at h; exact Or.inl h.symm
  · simp only [denyAt] at h1 h2
    split at h1 <;> split at h2 <;> simp_all

/-- **parents() leaks another process' pid**: ONE refused access while the walk queries the ancestor 101
    (access 7 = the open of /proc/101/stat inside `Process(101).is_running()`, reached through
    `proc.parent()` → `ppid()` → `_raise_if_pid_reused()`) makes `Process(105).parents()` raise
    NoSuchProcess(pid=101) — although 105 is alive and readable, and 101 is alive too. (A refusal at
    access 9, the read for `ppid()` proper, gives AccessDenied(pid=101).) -/
theorem C03_parents_counterexample : ¬ C03_safe_parents_Full := by
  intro h
  obtain ⟨m, hm, hs⟩ := h w1.obj
  have hm' : m = Fe.parents cfg w1.obj := by
    have : Fe.method cfg w1.obj "parents" = some (Fe.parents cfg w1.obj) := rfl
    rw [this] at hm; injection hm with hm; exact hm.symm
  subst hm'
  have hrun : (Fe.parents cfg w1.obj ⟨w1, alwaysAlive, denyAt 7 .EACCES⟩ {}).1 = .error (.nsp 101) := by
    rw [cfg_good]
    generalize cfg.hasRollup = b
    cases b <;> decide +kernel
  have := hs ⟨w1, alwaysAlive, denyAt 7 .EACCES⟩ {}
    (adm_deny w1 ⟨⟨50, 0, 10, false, false, [(50, false)], [], false⟩, by simp [w1], by simp [w1]⟩ 7) cacheInv_empty
  rw [hrun] at this
  exact absurd this (by decide +kernel)

/-- the second leak: a refusal of the ancestor's own ppid() read → AccessDenied(pid=101) -/
theorem C03_parents_counterexample_ad :
    (Fe.parents (goodCfg true) w1.obj ⟨w1, alwaysAlive, denyAt 9 .EACCES⟩ {}).1 = .error (.ad 101) := by decide +kernel

/-- what parents() does guarantee as it is (`_partial`): for every admissible plan, any chain of ancestors,
    a value or a psutil error (for the object or for an ancestor it was walking through) — never a bare
    OSError, never a parsing error -/
theorem C03_safe_parents_partial (o : Obj) : MethodAny o "parents" := by
  unfold MethodAny; rw [cfg_good]
  exact ⟨_, rfl, safeAny_of_tri (parentsFuel_any _ o none)⟩

/-- … and with `proc = proc.parent()` wrapped in `try … except (NoSuchProcess, AccessDenied): break` (the
    walk ends where an ancestor cannot be queried) the full statement holds, for every fuel -/
theorem C03_safe_parents_repaired (o : Obj) (fuel : Option Nat) :
    Safe o.pid (Fe.parentsFuel cfg repairedParentsCatch o fuel) := by
  rw [cfg_good]; exact safe_of_tri (parentsFuel_repaired _ o fuel)

/-- round 2, candidate repair "an ancestor that vanished ends the walk" (`except NoSuchProcess: break`, what parent()
    itself does for a vanished parent and children() for a vanished child): it removes the NoSuchProcess(ancestor)
    half of the finding — the witness plan then returns the chain found so far — but NOT the AccessDenied half: the
    full statement stays false, so the finding stays (see notes/C03.md, "parents(): repair decision") -/
example : (Fe.parentsFuel (goodCfg true) ["NoSuchProcess"] w1.obj none ⟨w1, alwaysAlive, denyAt 7 .EACCES⟩ {}).1
    = .ok (.procs [101]) := by decide +kernel
example : (Fe.parentsFuel (goodCfg true) ["NoSuchProcess"] w1.obj none ⟨w1, alwaysAlive, denyAt 9 .EACCES⟩ {}).1
    = .error (.ad 101) := by decide +kernel

/-- the witness plan on the repaired walk: the chain found so far -/
example : (Fe.parentsFuel (goodCfg true) repairedParentsCatch w1.obj none
    ⟨w1, alwaysAlive, denyAt 7 .EACCES⟩ {}).1 = .ok (.procs [101]) := by decide +kernel
/-- non-vacuity: fault-free walks -/
example : (Fe.parents (goodCfg true) w1.obj ⟨w1, alwaysAlive, noDeny⟩ {}).1 = .ok (.procs [101, 50]) := by decide +kernel
example : (Fe.childrenRec (goodCfg true) ⟨50, some 10⟩ ⟨{ w1 with target := 50 }, alwaysAlive, noDeny⟩ {}).1
    = .ok (.procs [101, 105]) := by decide +kernel

/-! ## assembly over the translator-generated list of public names -/

/-- public names that are not queries about the process (signals, wait, the context manager):
    out of this property's scope (C01, C15, C16) -/
def notQueries : List String := ["kill", "oneshot", "resume", "send_signal", "suspend", "terminate", "wait"]
/-- queries NOT covered by a C03 theorem (listed, never silently dropped): none left -/
def uncovered : List String := []
/-- queries for which only the weaker `MethodAny` holds of the current source (known finding
    C03-parents-foreign-pid: `C03_parents_counterexample`) -/
def weakerOnly : List String := ["parents"]
/-- covered by its own policy theorem (`C03_as_dict_policy`) -/
def byPolicy : List String := ["as_dict"]

theorem C03_all_methods (o : Obj) (h0 : o.pid ≠ 0) :
    ∀ nm ∈ publicMethods,
      nm ∈ notQueries ∨ (nm ∈ weakerOnly ∧ MethodAny o nm) ∨ nm ∈ byPolicy ∨ MethodOK o nm :=
  show ∀ nm ∈ ["as_dict", "children", "cmdline", "connections", "cpu_affinity", "cpu_num", "cpu_percent", "cpu_times", "create_time", "cwd", "environ", "exe", "gids", "io_counters", "ionice", "is_running", "kill", "memory_full_info", "memory_info", "memory_maps", "memory_percent", "name", "net_connections", "nice", "num_ctx_switches", "num_fds", "num_threads", "oneshot", "open_files", "parent", "parents", "pid", "ppid", "resume", "rlimit", "send_signal", "status", "suspend", "terminal", "terminate", "threads", "uids", "username", "wait"],
      nm ∈ notQueries ∨ (nm ∈ weakerOnly ∧ MethodAny o nm) ∨ nm ∈ byPolicy ∨ MethodOK o nm from
  List.forall_mem_cons.2 ⟨Or.inr (Or.inr (Or.inl (by decide))),
    List.forall_mem_cons.2 ⟨Or.inr (Or.inr (Or.inr (C03_safe_children o))),
    List.forall_mem_cons.2 ⟨Or.inr (Or.inr (Or.inr (C03_safe_cmdline o))),
    List.forall_mem_cons.2 ⟨Or.inr (Or.inr (Or.inr (C03_safe_connections o))),
    List.forall_mem_cons.2 ⟨Or.inr (Or.inr (Or.inr (C03_safe_cpu_affinity o))),
    List.forall_mem_cons.2 ⟨Or.inr (Or.inr (Or.inr (C03_safe_cpu_num o))),
    List.forall_mem_cons.2 ⟨Or.inr (Or.inr (Or.inr (C03_safe_cpu_percent o))),
    List.forall_mem_cons.2 ⟨Or.inr (Or.inr (Or.inr (C03_safe_cpu_times o))),
    List.forall_mem_cons.2 ⟨Or.inr (Or.inr (Or.inr (C03_safe_create_time o))),
    List.forall_mem_cons.2 ⟨Or.inr (Or.inr (Or.inr (C03_safe_cwd o))),
    List.forall_mem_cons.2 ⟨Or.inr (Or.inr (Or.inr (C03_safe_environ o))),
    List.forall_mem_cons.2 ⟨Or.inr (Or.inr (Or.inr (C03_safe_exe o))),
    List.forall_mem_cons.2 ⟨Or.inr (Or.inr (Or.inr (C03_safe_gids o))),
    List.forall_mem_cons.2 ⟨Or.inr (Or.inr (Or.inr (C03_safe_io_counters o))),
    List.forall_mem_cons.2 ⟨Or.inr (Or.inr (Or.inr (C03_safe_ionice o))),
    List.forall_mem_cons.2 ⟨Or.inr (Or.inr (Or.inr (C03_safe_is_running o))),
    List.forall_mem_cons.2 ⟨Or.inl (by decide),
    List.forall_mem_cons.2 ⟨Or.inr (Or.inr (Or.inr (C03_safe_memory_full_info o))),
    List.forall_mem_cons.2 ⟨Or.inr (Or.inr (Or.inr (C03_safe_memory_info o))),
    List.forall_mem_cons.2 ⟨Or.inr (Or.inr (Or.inr (C03_safe_memory_maps o))),
    List.forall_mem_cons.2 ⟨Or.inr (Or.inr (Or.inr (C03_safe_memory_percent o))),
    List.forall_mem_cons.2 ⟨Or.inr (Or.inr (Or.inr (C03_safe_name o))),
    List.forall_mem_cons.2 ⟨Or.inr (Or.inr (Or.inr (C03_safe_net_connections o))),
    List.forall_mem_cons.2 ⟨Or.inr (Or.inr (Or.inr (C03_safe_nice o))),
    List.forall_mem_cons.2 ⟨Or.inr (Or.inr (Or.inr (C03_safe_num_ctx_switches o))),
    List.forall_mem_cons.2 ⟨Or.inr (Or.inr (Or.inr (C03_safe_num_fds o))),
    List.forall_mem_cons.2 ⟨Or.inr (Or.inr (Or.inr (C03_safe_num_threads o))),
    List.forall_mem_cons.2 ⟨Or.inl (by decide),
    List.forall_mem_cons.2 ⟨Or.inr (Or.inr (Or.inr (C03_safe_open_files o))),
    List.forall_mem_cons.2 ⟨Or.inr (Or.inr (Or.inr (C03_safe_parent o))),
    List.forall_mem_cons.2 ⟨Or.inr (Or.inl ⟨by decide, C03_safe_parents_partial o⟩),
    List.forall_mem_cons.2 ⟨Or.inr (Or.inr (Or.inr (C03_safe_pid o))),
    List.forall_mem_cons.2 ⟨Or.inr (Or.inr (Or.inr (C03_safe_ppid o))),
    List.forall_mem_cons.2 ⟨Or.inl (by decide),
    List.forall_mem_cons.2 ⟨Or.inr (Or.inr (Or.inr (C03_safe_rlimit o h0))),
    List.forall_mem_cons.2 ⟨Or.inl (by decide),
    List.forall_mem_cons.2 ⟨Or.inr (Or.inr (Or.inr (C03_safe_status o))),
    List.forall_mem_cons.2 ⟨Or.inl (by decide),
    List.forall_mem_cons.2 ⟨Or.inr (Or.inr (Or.inr (C03_safe_terminal o))),
    List.forall_mem_cons.2 ⟨Or.inl (by decide),
    List.forall_mem_cons.2 ⟨Or.inr (Or.inr (Or.inr (C03_safe_threads o))),
    List.forall_mem_cons.2 ⟨Or.inr (Or.inr (Or.inr (C03_safe_uids o))),
    List.forall_mem_cons.2 ⟨Or.inr (Or.inr (Or.inr (C03_safe_username o))),
    List.forall_mem_cons.2 ⟨Or.inl (by decide),
    (fun _ h => nomatch h)⟩⟩⟩⟩⟩⟩⟩⟩⟩⟩⟩⟩⟩⟩⟩⟩⟩⟩⟩⟩⟩⟩⟩⟩⟩⟩⟩⟩⟩⟩⟩⟩⟩⟩⟩⟩⟩⟩⟩⟩⟩⟩⟩⟩

/-- the two-denial table (`C03_two_denials_table_leaks` / `_bounded`) is complete: every public name is a non-query, as_dict (policy theorem), or in one of the two lists -/
theorem C03_two_denials_table_complete : ∀ nm ∈ publicMethods,
    nm ∈ notQueries ∨ nm ∈ byPolicy ∨ nm ∈ twoDenialLeaks.map (·.1) ∨ nm ∈ twoDenialBounded := by decide

/-! ## the property's four plan shapes are admissible (the theorems cover a superset) -/

theorem C03_plans_admissible (w : World) (hw : ∃ i ∈ w.procs, i.pid ≠ w.target)
    {ws : Nat → WS} {deny : Nat → Option Errno} (h : PropertyPlan ws deny) : Adm ⟨w, ws, deny⟩ := by
  have hvan : ∀ k, Monotone (vanishAt k) := by
    intro k i j hij; simp only [vanishAt]; split <;> split <;> simp [WS.rank] <;> omega
  have hzom : ∀ k, Monotone (zombieFrom k) := by
    intro k i j hij; simp only [zombieFrom]; split <;> split <;> simp [WS.rank] <;> omega
  have hno : DenyOnce noDeny := by
    unfold DenyOnce noDeny
    exact ⟨fun _ _ h => (by cases h), fun _ _ _ _ h _ => (by cases h)⟩
  have hden : ∀ i e, (e = Errno.EACCES ∨ e = Errno.EPERM) → DenyOnce (denyAt i e) := by
    intro i e he
    unfold DenyOnce
    refine ⟨fun j e' h => ?_, fun a b e1 e2 h1 h2 => ?_⟩
    · simp only [denyAt] at h; split at h <;> simp at h; subst h; exact he
    · simp only [denyAt] at h1 h2
      split at h1 <;> split at h2 <;> simp_all
  cases h with
  | vanish k => exact ⟨hvan k, hno, hw⟩
  | zombie k => exact ⟨hzom k, hno, hw⟩
  | deny i e he => exact ⟨fun _ _ _ => Nat.le_refl _, hden i e he, hw⟩
  | denyVanish i j e he hij => exact ⟨hvan j, hden i e he, hw⟩

/-! ## non-vacuity: admissible plans exist, and faults do reach the handlers -/

example : Adm ⟨w0, vanishAt 2, noDeny⟩ :=
  C03_plans_admissible w0 ⟨⟨101, 1, 50, false, false, [(101, false)], [], false⟩, by simp [w0], by simp [w0]⟩
    (PropertyPlan.vanish 2)

/-- the process vanishes between the open and the read of /proc/105/stat: NoSuchProcess(105) -/
example : (Fe.name (goodCfg true) w0.obj ⟨w0, vanishAt 1, noDeny⟩ {}).1 = .error (.nsp 105) := by decide
/-- a zombie's exe(): ZombieProcess(105) -/
example : (Fe.exe (goodCfg true) w0.obj ⟨w0, zombieFrom 0, noDeny⟩ {}).1 = .error (.zombie 105) := by decide
/-- EPERM on the read: AccessDenied(105) -/
example : (Fe.name (goodCfg true) w0.obj ⟨w0, alwaysAlive, denyAt 1 .EPERM⟩ {}).1 = .error (.ad 105) := by decide

/-! ## once the process is gone, every query raises NoSuchProcess -/

/-- every as_dict name is either covered by `C03_gone_is_NSP` or a documented exemption -/
theorem C03_gone_coverage : ∀ nm ∈ asDictNames, nm ∈ goneCovered ∨ nm ∈ goneExempt := by decide

/-- **goneForever**: the process is gone before the call starts (every path below /proc/<pid>
    gives ENOENT, native calls ESRCH, nothing is refused) ⇒ each covered query on the object
    raises NoSuchProcess carrying its pid -/
theorem C03_gone_is_NSP (o : Obj) : ∀ nm ∈ goneCovered, ∃ m, Fe.method cfg o nm = some m ∧
    ∀ c, Adm c → GoneFromStart c → o.pid = c.w.target → IsNSP o.pid (m c {}).1 := by
  intro nm hnm
  rw [cfg_good]
  obtain ⟨m, hm, hg⟩ := gone_all cfg.hasRollup o nm hnm
  refine ⟨m, hm, fun c ha hgs hp => ?_⟩
  obtain ⟨s', hr, _⟩ := hg c {} 0 ha (hp ▸ pgone_of_goneFromStart hgs) (Nat.zero_le _) rfl
  rw [hr]; simp [IsNSP]

/-! ### history form: a sequence of queries on the same object -/

/-- run a sequence of calls one after the other, threading the state (access counter, caches); the outcomes in order -/
def runHistory {α : Type} : List (M α) → Ctx → St → List (Except PyExc α)
  | [], _, _ => []
  | m :: rest, c, s => (m c s).1 :: runHistory rest c (m c s).2

/-- the modelled calls for a list of method names -/
def histOf (o : Obj) (names : List String) : List (M Val) := names.filterMap (Fe.method cfg o)

/-- front-end values that a gone process still answers from the object, by documented design — NOT covered
    by the history theorem, listed explicitly:
    `pid` (attribute), `create_time` ("cached after first call": `_create_time`, filled at construction),
    `exe` once it succeeded (`_exe` memo), `is_running` (answers False), `parent`/`parents` of the lowest
    listed pid (None / [] from the cached `_LOWEST_PID`), `as_dict`/`process_iter` (policy theorems) -/
def goneMemoExempt : List String := ["pid", "create_time", "exe (after a successful exe())", "is_running", "parent", "parents"]

/-- **goneForever, history form**: whatever object (any pid / cached create time), whatever state the earlier
    calls left (any access counter, any inactive oneshot cache), once the process is gone EVERY call of EVERY
    sequence of covered queries — any length, any order, repetitions included — raises NoSuchProcess(pid);
    induction over the call sequence (each call leaves the state as the next one needs it) -/
theorem C03_gone_forever_history (o : Obj) (names : List String) (hn : ∀ nm ∈ names, nm ∈ goneCovered) :
    (histOf o names).length = names.length ∧
    ∀ c s, Adm c → PGone c o.pid 0 → s.cache.active = false →
      ∀ out ∈ runHistory (histOf o names) c s, IsNSP o.pid out := by
  unfold histOf
  rw [cfg_good]
  induction names with
  | nil => exact ⟨rfl, fun _ _ _ _ _ out h => by cases h⟩
  | cons nm rest ih =>
    obtain ⟨m, hm, hg⟩ := gone_all cfg.hasRollup o nm (hn nm (List.mem_cons_self ..))
    obtain ⟨hlen, hall⟩ := ih (fun x hx => hn x (List.mem_cons_of_mem _ hx))
    simp only [List.filterMap_cons, hm]
    refine ⟨by simp [hlen], fun c s ha hgone hc out hout => ?_⟩
    obtain ⟨s', hr, hc', _⟩ := hg c s 0 ha hgone (Nat.zero_le _) hc
    simp only [runHistory, hr, List.mem_cons] at hout
    rcases hout with h | h
    · subst h; simp [IsNSP]
    · exact hall c s' ha hgone (by rw [hc']; exact hc) out h

/-- the stronger history statement: the process is gone only FROM the access index `k0` (it may have vanished at
    any point of an earlier call, even in the middle of it: `∀ k ≥ k0, gone`, nothing refused from k0 on); every
    call that STARTS at a counter ≥ k0 — whatever state (counter, trace, inactive oneshot cache) the earlier
    calls left — raises NoSuchProcess(pid) -/
def C03_gone_forever_from_Full : Prop :=
  ∀ (o : Obj) (names : List String), (∀ nm ∈ names, nm ∈ goneCovered) →
    ∀ c s (k0 : Nat), Adm c → (∀ k, k0 ≤ k → pst c k o.pid = .gone) → (∀ k, k0 ≤ k → c.deny k = none) →
      k0 ≤ s.k → s.cache.active = false →
      ∀ out ∈ runHistory (histOf o names) c s, IsNSP o.pid out

/-- **goneForever at full strength** (was open after round 1): proved. Every lemma of Proofs/C03Gone.lean is stated
    for a call starting at a counter ≥ k0 and returns that the counter does not decrease, so the induction over the
    call sequence threads `k0 ≤ s.k` -/
theorem C03_gone_forever_from : C03_gone_forever_from_Full := by
  intro o names hn
  unfold histOf
  rw [cfg_good]
  induction names with
  | nil => exact fun _ _ _ _ _ _ _ _ out h => by cases h
  | cons nm rest ih =>
    obtain ⟨m, hm, hg⟩ := gone_all cfg.hasRollup o nm (hn nm (List.mem_cons_self ..))
    have hall := ih (fun x hx => hn x (List.mem_cons_of_mem _ hx))
    simp only [List.filterMap_cons, hm]
    intro c s k0 ha hg1 hg2 hk hc out hout
    obtain ⟨s', hr, hc', hk'⟩ := hg c s k0 ha ⟨hg1, hg2⟩ hk hc
    simp only [runHistory, hr, List.mem_cons] at hout
    rcases hout with h | h
    · subst h; simp [IsNSP]
    · exact hall c s' k0 ha hg1 hg2 (Nat.le_trans hk hk') (by rw [hc']; exact hc) out h

/-! ### … with the object's `_gone` / `_pid_reused` / `_exe` attributes threaded (Model/C03Hist.lean) -/

/-- the history calls for a list of names -/
def histOfH (o : Obj) (names : List String) : List HCall := names.filterMap (Fe.methodH cfg o)

/-- **goneForever, attributes threaded**: one object, whatever its flags (`_gone`, `_pid_reused` set or not by
    earlier calls — also set wrongly, e.g. by a refused access inside an earlier is_running()), `_exe` not yet
    memoised (a successful earlier exe() is answered from the memo by documented design: `goneMemoExempt`), the
    process gone from index k0 on: every call of every sequence over is_running() and the 31 covered queries that
    starts at a counter ≥ k0 answers `GoneAnswer` — NoSuchProcess(pid), False for is_running() -/
theorem C03_gone_forever_flags (o : Obj) (names : List String) (hn : ∀ nm ∈ names, nm ∈ histCovered) :
    (histOfH o names).length = names.length ∧
    ∀ c s (k0 : Nat) (f : Flags), Adm c → PGone c o.pid k0 → k0 ≤ s.k → s.cache.active = false → f.exe = none →
      ∀ x ∈ names.zip (runHist (histOfH o names) f c s), k0 ≤ x.2.1 ∧ GoneAnswer o.pid x.1 x.2.2 := by
  unfold histOfH
  rw [cfg_good]
  induction names with
  | nil => exact ⟨rfl, fun _ _ _ _ _ _ _ _ _ x h => by cases h⟩
  | cons nm rest ih =>
    obtain ⟨h, hm, hg⟩ := hgone_all cfg.hasRollup o nm (hn nm (List.mem_cons_self ..))
    obtain ⟨hlen, hall⟩ := ih (fun x hx => hn x (List.mem_cons_of_mem _ hx))
    simp only [List.filterMap_cons, hm]
    refine ⟨by simp [hlen], fun c s k0 f ha hgone hk hc hf x hx => ?_⟩
    obtain ⟨out, f', s', hr, hans, hf', hc', hk'⟩ := hg f c s k0 ha hgone hk hc hf
    simp only [runHist, hr, List.zip_cons_cons, List.mem_cons] at hx
    rcases hx with h | h
    · subst h; exact ⟨hk, hans⟩
    · exact hall c s' k0 f' ha hgone (Nat.le_trans hk hk') (by rw [hc']; exact hc) hf' x h

/-- the memo exemption is real: once exe() succeeded the object answers from `_exe`, gone or not, without an access -/
theorem C03_exe_memo_answers (o : Obj) (f : Flags) (b : Bool) (hf : f.exe = some b) (c : Ctx) (s : St) :
    Fe.exeH cfg o f c s = (.ok (.ok (if b then .str else .estr), f), s) := by
  unfold Fe.exeH; simp only [hf]; rfl

/-- non-vacuity: three queries in a row on a vanished 105 -/
example : runHistory (histOf w0.obj ["name", "ppid", "children_recursive"]) ⟨w0, vanishAt 0, noDeny⟩ {}
    = [.error (.nsp 105), .error (.nsp 105), .error (.nsp 105)] := by decide +kernel
/-- non-vacuity of the stronger forms: 105 vanishes at access 3, in the middle of children() (after is_running() saw it
    alive); the calls that start afterwards answer as a gone process -/
example : (runHist (histOfH w0.obj ["children", "name", "is_running", "is_running", "ppid"]) {} ⟨w0, vanishAt 3, noDeny⟩ {}).map (·.2)
    = [.ok (.procs []), .error (.nsp 105), .ok (.bool false), .ok (.bool false), .error (.nsp 105)] := by
  rw [histOfH, cfg_good]; generalize cfg.hasRollup = b; cases b <;> decide +kernel

theorem C03_gone_rlimit (o : Obj) (h0 : o.pid ≠ 0) (c : Ctx) (ha : Adm c) (hgs : GoneFromStart c)
    (hp : o.pid = c.w.target) : IsNSP o.pid (Plat.rlimit cfg o.pid c {}).1 := by
  rw [cfg_good]
  obtain ⟨s', hr, _⟩ := rlimit_gone cfg.hasRollup o.pid h0 c {} 0 ha (hp ▸ pgone_of_goneFromStart hgs) (Nat.zero_le _) rfl
  rw [hr]; simp [IsNSP]

/-- the hypotheses of `C03_gone_is_NSP` are satisfiable, and the conclusion is what the model computes -/
example : Adm ⟨w0, vanishAt 0, noDeny⟩ ∧ GoneFromStart ⟨w0, vanishAt 0, noDeny⟩ :=
  ⟨C03_plans_admissible w0 ⟨⟨101, 1, 50, false, false, [(101, false)], [], false⟩, by simp [w0], by simp [w0]⟩
      (PropertyPlan.vanish 0),
   fun _ => rfl, fun _ => rfl⟩
example : (Fe.exe (goodCfg true) w0.obj ⟨w0, vanishAt 0, noDeny⟩ {}).1 = .error (.nsp 105) := by decide

end Psutil.C03
