/-
  Props/C03.lean — property theorems for C03 ("a process vanishing or being denied mid-call
  yields only psutil errors"). Only statements the property makes; the program logic and the
  body lemmas live in Proofs/C03*.lean.

  `cfg` is built from Generated/C03.lean, which the translator rewrites from /repo's source on
  every run; `cfg_good` is the proof obligation that breaks when an `except` list, a
  `wrap_exceptions` clause or a decorator table changes (e.g. ppid_map() no longer tolerating
  PermissionError = lead L3, a handler step dropped from wrap_exceptions, a method losing
  @wrap_exceptions). `C03_all_methods` is stated over the generated list of public names, so a
  new public method makes it fail until it is modelled or listed as uncovered.
-/
import PsutilModel.Proofs.C03Front
import PsutilModel.Proofs.C03Value
import PsutilModel.Proofs.C03Gone
import PsutilModel.Proofs.C03Deny
import PsutilModel.Proofs.C03Walk
import PsutilModel.Proofs.C03Hist
import PsutilModel.Proofs.C03Fuel
import PsutilModel.Proofs.C03TablesU
import PsutilModel.Proofs.C03TablesR
import PsutilModel.Proofs.C03CauseU
import PsutilModel.Proofs.C03CauseR
import PsutilModel.Model.C03Gen
namespace Psutil.C03
open Spec


/-- the two facts every theorem below is proved for BOTH values of: HAS_PROC_SMAPS_ROLLUP (host dependent) and whether
    is_running() carries the repair of finding C03-denied-probe-reads-as-reuse (fact `runningProbe`) -/
def host : Host := ⟨cfg.hasRollup, cfg.probeLenient⟩

/-- proof obligation on the translator's output: every `except` list, `wrap_exceptions` clause, decorator table,
    the NotImplementedError clause of as_dict … is the one the proofs are about -/
theorem cfg_good : cfg = goodCfg host := by decide

/-- … and the fact `runningProbe` has one of the two shapes the model knows (anything else — the statements of the
    try as text — makes this fail) -/
theorem cfg_running_probe_known : runningProbe ∈ ["compare", "lenient"] := by decide

/-- obligation on the fact `parentRootStop` (/repo d7107b4, fixes/C05-parent-root-recycled.diff): the lowest-PID stop of
    parent() is exactly `self._raise_if_pid_reused()` then `return None`, with nothing but the `lowest_pid` assignment
    before it — so the model's stop (`Fe.rootStop`) runs the identity probe (one more open + read of /proc/<pid>/stat)
    before it answers None. Any other shape (the statements as text) or the unguarded stop makes this fail
    (`cfg_good` fails on the unguarded stop as well: `goodCfg.parentRootGuard = true`). -/
theorem cfg_parent_root_guard : parentRootStop = "guard; return None" ∧ cfg.parentRootGuard = true := by decide

/-- obligation on the shape facts the model hard-codes: as_dict iterates `attrs or valid_names` inside
    `with self.oneshot()`, oneshot() deactivates every cache in a `finally`, and the statements inside each modelled
    try are the ones transcribed in Model/C03.lean (moving one out of / into its try changes the fact) -/
theorem cfg_shapes_good :
    asDictLs = "ls = attrs or valid_names ;; with self.oneshot(): For ls" ∧
    oneshotShape = "yield@[5]/6 finally: if POSIX:\n    self.uids.cache_deactivate(self) ;; self._proc.oneshot_exit() ;; self.cpu_times.cache_deactivate(self) ;; self.memory_info.cache_deactivate(self) ;; self.ppid.cache_deactivate(self)" ∧
    tryScopes.lookup "children" = some ["child = Process(pid) ;; if self.create_time() <= child.create_time():\n    ret.append(child)", "child = Process(child_pid) ;; intime = self.create_time() <= child.create_time() ;; if intime:\n    ret.append(child)\n    stack.append(child_pid)"] ∧
    tryScopes.lookup "parent" = some ["parent = Process(ppid) ;; if parent.create_time() <= ctime:\n    return parent"] ∧
    tryScopes.lookup "parents" = some (if cfg.parentsCatch = [] then [] else ["proc = proc.parent()"]) ∧
    (tryScopes.lookup "is_running" = some ["self._pid_reused = self != Process(self.pid) ;; if self._pid_reused:\n    _pids_reused.add(self.pid)\n    raise NoSuchProcess(self.pid) ;; return True"] ∨
     tryScopes.lookup "is_running" = some ["other = Process(self.pid) ;; if self._ident[1] is not None and other._ident[1] is None:\n    return True ;; self._pid_reused = self != other ;; if self._pid_reused:\n    _pids_reused.add(self.pid)\n    raise NoSuchProcess(self.pid) ;; return True"]) ∧
    tryScopes.lookup "name" = some ["cmdline = self.cmdline() ;;else;; if cmdline:\n    extended_name = os.path.basename(cmdline[0])\n    if os.fsencode(extended_name).startswith(bname):\n        name = extended_name"] ∧
    tryScopes.lookup "status" = some ["return self._proc.status()"] ∧
    tryScopes.lookup "ppid_map" = some ["with open_binary(f'{procfs_path}/{pid}/stat') as f:\n    data = f.read() ;;else;; rpar = data.rfind(b')') ;; dset = data[rpar + 2:].split() ;; ppid = int(dset[1]) ;; ret[pid] = ppid"] ∧
    tryScopes.lookup "_pslinux._is_zombie" = some ["data = bcat(f'{self._procfs_path}/{self.pid}/stat') ;;else;; rpar = data.rfind(b')') ;; status = data[rpar + 2:rpar + 3] ;; return status == b'Z'"] ∧
    tryScopes.lookup "_pslinux._readlink" = some ["return readlink(path)"] ∧
    tryScopes.lookup "_pslinux.threads" = some ["with open_binary(fname) as f:\n    st = f.read().strip()"] ∧
    tryScopes.lookup "_pslinux.memory_full_info" = some ["uss, pss, swap = self._parse_smaps_rollup()"] := by
  decide +kernel

/-- **the property, for one call**: under every admissible fault plan, from every state (any
    well-formed oneshot cache), the outcome is a value or NoSuchProcess / ZombieProcess /
    AccessDenied carrying `pid` — never a bare OSError, never a parsing error -/
def Safe {α : Type} (pid : Nat) (m : M α) : Prop :=
  ∀ c s, Adm c → CacheInv s.cache → OK pid (m c s).1

theorem safe_of_tri {α : Type} {pid : Nat} {m : M α} {Q : α → Prop} (h : Tri (PsOnly pid) m Q) : Safe pid m := by
  intro c s ha hi
  have := h c s ha hi
  rcases hr : m c s with ⟨res, s'⟩
  rw [hr] at this
  cases res with
  | ok a => trivial
  | error e =>
    rcases this.1 with h | h | h <;> subst h <;> simp [OK]

/-- glue: one admissible plan on which the run ends with an error outside `OK pid` refutes `Safe pid` (stated over an
    abstract run so that instantiating the quantifiers does not make the elaborator evaluate the model) -/
theorem not_safe_of_run {α : Type} {pid : Nat} {m : M α} {c : Ctx} {s : St} {e : PyExc} (ha : Adm c) (hi : CacheInv s.cache)
    (hrun : (m c s).1 = .error e) (hbad : ¬ OK pid (.error e : Except PyExc α)) : ¬ Safe pid m := by
  intro h
  have := h c s ha hi
  rw [hrun] at this
  exact hbad this

/-- the named public method is modelled and safe -/
def MethodOK (o : Obj) (nm : String) : Prop := ∃ m, Fe.method cfg o nm = some m ∧ Safe o.pid m

theorem methodOK_of_getter {o : Obj} {nm : String} (h : ∀ b, GetterOK b o nm)
    (hm : ∀ b, Fe.method (goodCfg b) o nm = Fe.getter (goodCfg b) o nm) : MethodOK o nm := by
  unfold MethodOK
  rw [cfg_good]
  obtain ⟨m, hg, ht⟩ := h host
  exact ⟨m, by rw [hm, hg], safe_of_tri ht⟩

/-! ## one theorem per modelled public method (all admissible plans, any number of
    threads / descriptors / other PIDs — the loops are handled by induction) -/

theorem C03_safe_pid (o : Obj) : MethodOK o "pid" :=
  methodOK_of_getter (fun b => getter_pid b o) (fun _ => rfl)

theorem C03_safe_ppid (o : Obj) : MethodOK o "ppid" :=
  methodOK_of_getter (fun b => getter_ppid b o) (fun _ => rfl)

theorem C03_safe_name (o : Obj) : MethodOK o "name" :=
  methodOK_of_getter (fun b => getter_name b o) (fun _ => rfl)

theorem C03_safe_exe (o : Obj) : MethodOK o "exe" :=
  methodOK_of_getter (fun b => getter_exe b o) (fun _ => rfl)

theorem C03_safe_cmdline (o : Obj) : MethodOK o "cmdline" :=
  methodOK_of_getter (fun b => getter_cmdline b o) (fun _ => rfl)

theorem C03_safe_status (o : Obj) : MethodOK o "status" :=
  methodOK_of_getter (fun b => getter_status b o) (fun _ => rfl)

theorem C03_safe_username (o : Obj) : MethodOK o "username" :=
  methodOK_of_getter (fun b => getter_username b o) (fun _ => rfl)

theorem C03_safe_create_time (o : Obj) : MethodOK o "create_time" :=
  methodOK_of_getter (fun b => getter_create_time b o) (fun _ => rfl)

theorem C03_safe_cwd (o : Obj) : MethodOK o "cwd" :=
  methodOK_of_getter (fun b => getter_cwd b o) (fun _ => rfl)

theorem C03_safe_nice (o : Obj) : MethodOK o "nice" :=
  methodOK_of_getter (fun b => getter_nice b o) (fun _ => rfl)

theorem C03_safe_uids (o : Obj) : MethodOK o "uids" :=
  methodOK_of_getter (fun b => getter_uids b o) (fun _ => rfl)

theorem C03_safe_gids (o : Obj) : MethodOK o "gids" :=
  methodOK_of_getter (fun b => getter_gids b o) (fun _ => rfl)

theorem C03_safe_terminal (o : Obj) : MethodOK o "terminal" :=
  methodOK_of_getter (fun b => getter_terminal b o) (fun _ => rfl)

theorem C03_safe_num_fds (o : Obj) : MethodOK o "num_fds" :=
  methodOK_of_getter (fun b => getter_num_fds b o) (fun _ => rfl)

theorem C03_safe_io_counters (o : Obj) : MethodOK o "io_counters" :=
  methodOK_of_getter (fun b => getter_io_counters b o) (fun _ => rfl)

theorem C03_safe_ionice (o : Obj) : MethodOK o "ionice" :=
  methodOK_of_getter (fun b => getter_ionice b o) (fun _ => rfl)

theorem C03_safe_cpu_affinity (o : Obj) : MethodOK o "cpu_affinity" :=
  methodOK_of_getter (fun b => getter_cpu_affinity b o) (fun _ => rfl)

theorem C03_safe_cpu_num (o : Obj) : MethodOK o "cpu_num" :=
  methodOK_of_getter (fun b => getter_cpu_num b o) (fun _ => rfl)

theorem C03_safe_environ (o : Obj) : MethodOK o "environ" :=
  methodOK_of_getter (fun b => getter_environ b o) (fun _ => rfl)

theorem C03_safe_num_ctx_switches (o : Obj) : MethodOK o "num_ctx_switches" :=
  methodOK_of_getter (fun b => getter_num_ctx_switches b o) (fun _ => rfl)

theorem C03_safe_num_threads (o : Obj) : MethodOK o "num_threads" :=
  methodOK_of_getter (fun b => getter_num_threads b o) (fun _ => rfl)

theorem C03_safe_threads (o : Obj) : MethodOK o "threads" :=
  methodOK_of_getter (fun b => getter_threads b o) (fun _ => rfl)

theorem C03_safe_cpu_times (o : Obj) : MethodOK o "cpu_times" :=
  methodOK_of_getter (fun b => getter_cpu_times b o) (fun _ => rfl)

theorem C03_safe_cpu_percent (o : Obj) : MethodOK o "cpu_percent" :=
  methodOK_of_getter (fun b => getter_cpu_percent b o) (fun _ => rfl)

theorem C03_safe_memory_info (o : Obj) : MethodOK o "memory_info" :=
  methodOK_of_getter (fun b => getter_memory_info b o) (fun _ => rfl)

theorem C03_safe_memory_full_info (o : Obj) : MethodOK o "memory_full_info" :=
  methodOK_of_getter (fun b => getter_memory_full_info b o) (fun _ => rfl)

theorem C03_safe_memory_percent (o : Obj) : MethodOK o "memory_percent" :=
  methodOK_of_getter (fun b => getter_memory_percent b o) (fun _ => rfl)

theorem C03_safe_memory_maps (o : Obj) : MethodOK o "memory_maps" :=
  methodOK_of_getter (fun b => getter_memory_maps b o) (fun _ => rfl)

theorem C03_safe_open_files (o : Obj) : MethodOK o "open_files" :=
  methodOK_of_getter (fun b => getter_open_files b o) (fun _ => rfl)

theorem C03_safe_net_connections (o : Obj) : MethodOK o "net_connections" :=
  methodOK_of_getter (fun b => getter_net_connections b o) (fun _ => rfl)


/-- is_running() is safe in the sense of every other query (used by `C03_all_methods`); the stronger fact — it
    never raises at all — is `C03_is_running_never_raises` -/
theorem C03_safe_is_running (o : Obj) : MethodOK o "is_running" := by
  unfold MethodOK; rw [cfg_good]
  refine ⟨_, rfl, safe_of_tri (Q := fun _ => True) ?_⟩
  exact tri_bind (tri_exc (isRunning_safe _ o) (fun _ _ _ h => h.elim))
    (fun x _ => by cases x; exact tri_pure trivial)

/-- **is_running() never raises**: under every admissible plan, from every state, it returns a bool — with and
    without the repair of the identity probe -/
theorem C03_is_running_never_raises (o : Obj) (c : Ctx) (s : St) (ha : Adm c) (hi : CacheInv s.cache) :
    ∃ r, (Fe.isRunning cfg o c s).1 = .ok r := by
  rw [cfg_good]
  have := isRunning_safe host o c s ha hi
  rcases hr : Fe.isRunning (goodCfg host) o c s with ⟨res, s'⟩
  rw [hr] at this
  cases res with
  | ok v => exact ⟨v, rfl⟩
  | error e => exact this.1.elim

/-- rlimit(resource) (get); PID 0 is rejected with ValueError by design -/
theorem C03_safe_rlimit (o : Obj) (h0 : o.pid ≠ 0) : MethodOK o "rlimit" := by
  unfold MethodOK; rw [cfg_good]
  exact ⟨_, rfl, safe_of_tri (Q := fun _ => True) (tri_bind (rlimit_safe _ o.pid h0) (fun _ _ => tri_pure trivial))⟩

/-! ## the decorator of every platform method: no bare OSError, in particular the bare `raise`
    of the FileNotFoundError clause is unreachable under admissible plans -/

theorem C03_wrap_safe {α : Type} (p : Nat) {body : M α} {Q : α → Prop} (hb : Tri (ExcOK p) body Q) :
    Safe p (wrapExceptions cfg p body) := by
  rw [cfg_good]; exact safe_of_tri (wrap_safe _ p hb)

theorem C03_wrap_never_bare_fnf {α : Type} (p : Nat) {body : M α} {Q : α → Prop} (hb : Tri (ExcOK p) body Q)
    (c : Ctx) (s : St) (ha : Adm c) (hi : CacheInv s.cache) :
    (wrapExceptions cfg p body c s).1 ≠ .error .fnf := by
  intro h
  have := C03_wrap_safe p hb c s ha hi
  rw [h] at this
  exact this

/-- the admissibility bound is tight: with TWO refused accesses (lexists of /proc/105 and the
    stat probe of `_is_zombie`) a zombie's exe() does leak the bare FileNotFoundError -/
theorem C03_two_denials_leak :
    (Plat.exe (goodCfg ⟨true, false⟩) 105
      ⟨w0, zombieFrom 0, fun k => if k = 1 ∨ k = 2 then some .EACCES else none⟩ {}).1 = .error .fnf := by
  decide

/-! ### … as a TABLE over all modelled methods (characterisation of the code as it is — NOT a finding)

    The property's quantifier refuses ONE access per call ("access k alone is refused"), and `Adm` says so. What if two
    accesses of one call are refused? For every modelled query: either a concrete two-refusal plan that makes the call
    leak (a bare builtin exception, or a psutil error carrying another process' pid) — proved here on the model and
    replayed on the real code by the correspondence (family `two_denials`) — or the bounded statement that NO pair of
    refused accesses (indices < 12: longer than every trace on that world), on an alive or a zombie process, makes the
    call leak on the two-process world `w0` (decided exhaustively; the correspondence enumerates the same pairs on the
    real code and requires model = implementation). -/

/-- each listed plan leaks what the table says, and that is outside `OK` (4 configurations, `decide +kernel` in
    Proofs/C03TablesU.lean / C03TablesR.lean) -/
theorem C03_two_denials_table_leaks (b : Host) : ∀ x ∈ twoDenialLeaks, LeakHolds b x := by
  rcases b with ⟨r, _ | _⟩
  · exact leaks_u r
  · exact leaks_r r

/-- no pair of refused accesses leaks for the other modelled queries, on `w0`, alive or zombie -/
theorem C03_two_denials_table_bounded (b : Host) : ∀ nm ∈ twoDenialBounded, BoundedSafe b w0 nm 12 := by
  rcases b with ⟨r, _ | _⟩
  · exact bounded_u r
  · exact bounded_r r

/-- the full-strength side NOT proved: "safe under ANY number of refusals, on every world" for the queries of
    `twoDenialBounded` (would need the whole triple calculus of Proofs/C03*.lean re-done without `DenyOnce`; the
    bounded exhaustive statement above + the same enumeration on the real code is what is established) -/
def C03_multi_denial_safe_Full : Prop :=
  ∀ nm ∈ twoDenialBounded, ∀ (o : Obj) (c : Ctx) (s : St), Monotone c.ws → (∀ i e, c.deny i = some e → e = .EACCES ∨ e = .EPERM) →
    (∃ i ∈ c.w.procs, i.pid ≠ c.w.target) → CacheInv s.cache → o.pid ≠ 0 →
    ∃ m, Fe.method cfg o nm = some m ∧ OK o.pid (m c s).1


/-! ## the class matches the cause (`Spec.Cause`) — integrator decision (a) of round 3

    "raises NoSuchProcess (gone), ZombieProcess (still listed, as a zombie) or AccessDenied (permission refused)":
    `Spec.Cause` says NoSuchProcess only if the process was gone at one of the call's accesses, ZombieProcess only if it
    was a zombie at one of them, AccessDenied only if one of them was refused. Quantifier: the property's four plan
    shapes (`PropertyPlan`; NOT the superset `Adm`: zombie + one refusal of the `_is_zombie` probe reads as
    NoSuchProcess and is outside the property's plans).

    * FALSE of the source as it is (finding C03-denied-probe-reads-as-reuse): ONE refused access inside the identity
      probe of is_running() (`Process(self.pid)`: `_init` swallows AccessDenied, `_ident = (pid, None)` ≠ the object's)
      makes ppid() / children() / parent() / parents() raise NoSuchProcess(pid) for a live, readable process.
    * With the repair the candidate fixes/C03-denied-probe-lenient.rejected.diff (not proposed: it conflicts with C05/C01, see notes/C03.md) (fact `runningProbe = "lenient"`): holds on every enumerated plan.
    * What is proved is BOUNDED (all four plan shapes with every index < 12 on the two-process world, < 16 on the
      three-process world for the walks; `decide +kernel`), plus the same predicate evaluated in Lean on the REAL
      code's outcome for every case of the correspondence. The unbounded statement for the repaired source is the
      def `C03_cause_Full` and is NOT proved (it needs the triple calculus redone with an index-aware exception
      post-condition). -/

/-- the full statement, for a configuration: the object is the one the plan is about, any start state -/
def C03_cause_FullFor (cf : Cfg) : Prop :=
  ∀ (nm : String) (c : Ctx) (s : St) (m : M Val), PropertyPlan c.ws c.deny → (∃ i ∈ c.w.procs, i.pid ≠ c.w.target) →
    CacheInv s.cache → Fe.method cf c.w.obj nm = some m →
    OK c.w.target (m c s).1 → Cause c.ws c.deny s.k (m c s).2.k (m c s).1

/-- … for the source as extracted -/
def C03_cause_Full : Prop := C03_cause_FullFor cfg

/-- every enumerated plan is one of the property's plans (so the bounded tables are instances of the quantifier) -/
theorem plansUpTo_property (B : Nat) : ∀ p ∈ plansUpTo B, PropertyPlan p.1 p.2 := by
  intro p hp
  simp only [plansUpTo, List.mem_append, List.mem_map, List.mem_flatMap, List.mem_range, List.mem_cons,
    List.not_mem_nil, or_false] at hp
  rcases hp with ((⟨k, _, rfl⟩ | ⟨k, _, rfl⟩) | ⟨i, _, rfl | rfl⟩) | ⟨j, _, i, hij, rfl | rfl⟩
  · exact .vanish k
  · exact .zombie k
  · exact .deny i _ (Or.inl rfl)
  · exact .deny i _ (Or.inr rfl)
  · exact .denyVanish i j _ (Or.inl rfl) hij
  · exact .denyVanish i j _ (Or.inr rfl) hij

/-- **counterexample (source without the repair)**: `Process(105).ppid()`, 105 alive and readable throughout, ONE
    refusal (EACCES on access 0 = the open of /proc/105/stat inside `is_running()`'s `Process(self.pid)`) →
    NoSuchProcess(105) after a single access, at which the process was not gone -/
theorem C03_cause_counterexample_unrepaired (r : Bool) : ¬ C03_cause_FullFor (goodCfg ⟨r, false⟩) := by
  intro h
  have hw := (cause_witness_u r).1
  simp only [runK, Option.map_eq_some_iff] at hw
  obtain ⟨m, hm, hrun⟩ := hw
  have hr1 : (m ⟨w0, alwaysAlive, denyAt 0 .EACCES⟩ {}).1 = .error (.nsp 105) := congrArg Prod.fst hrun
  have hr2 : (m ⟨w0, alwaysAlive, denyAt 0 .EACCES⟩ {}).2.k = 1 := congrArg Prod.snd hrun
  have := h "ppid" ⟨w0, alwaysAlive, denyAt 0 .EACCES⟩ {} m (.deny 0 _ (Or.inl rfl))
    ⟨⟨101, 1, 50, false, false, [(101, false)], [], false, [.file, .anon]⟩, by simp [w0], by simp [w0]⟩ cacheInv_empty hm
    (by rw [hr1]; decide)
  rw [hr1, hr2] at this
  obtain ⟨k, _, _, hk⟩ := this
  simp [alwaysAlive] at hk

/-- the extracted source refutes the clause exactly as long as the repair has not landed -/
theorem C03_cause_counterexample (hl : cfg.probeLenient = false) : ¬ C03_cause_Full := by
  unfold C03_cause_Full
  rw [cfg_good]
  have : host = ⟨cfg.hasRollup, false⟩ := by unfold host; rw [hl]
  rw [this]
  exact C03_cause_counterexample_unrepaired _

/-- **where it holds, source as it is** (bounded): the 32 queries that never call `_raise_if_pid_reused()` satisfy
    `OK ∧ Cause` on every enumerated property plan — for BOTH configurations, hence for the extracted one -/
theorem C03_cause_bounded_plain : ∀ nm ∈ causePlain, CauseHolds host w0 nm 12 := by
  generalize host = b
  rcases b with ⟨r, _ | _⟩
  · exact cause_plain_u r
  · exact cause_plain_r r

/-- **characterisation of the defect** (source without the repair, bounded): ppid / children / children(recursive) /
    parent satisfy `OK ∧ Cause` on every enumerated plan EXCEPT those that refuse one of the two accesses of the
    identity probe, where the outcome is NoSuchProcess(pid) — on the two-process world and on 50 ← 101 ← 105 (object 101) -/
theorem C03_cause_bounded_unrepaired (r : Bool) :
    ∀ x ∈ causeProbe, CauseBut ⟨r, false⟩ w0 x.1 12 x.2 ∧ CauseBut ⟨r, false⟩ wc x.1 16 x.2 := cause_probe_u r

/-- **with the repair** (bounded): the same four queries satisfy `OK ∧ Cause` on every enumerated plan; the three witness
    plans return values (parents() is left out: its errors may carry an ancestor's pid — finding C03-parents-foreign-pid —
    and `Cause` speaks about the object's own process) -/
theorem C03_cause_bounded_repaired (r : Bool) :
    (∀ x ∈ causeProbe, CauseHolds ⟨r, true⟩ w0 x.1 12 ∧ CauseHolds ⟨r, true⟩ wc x.1 16) ∧
    runK ⟨r, true⟩ w0 "ppid" ⟨w0, alwaysAlive, denyAt 0 .EACCES⟩ = some (.ok .int, 3) ∧
    runK ⟨r, true⟩ w0 "children" ⟨w0, alwaysAlive, denyAt 0 .EACCES⟩ = some (.ok (.procs []), 6) ∧
    runK ⟨r, true⟩ w0 "parent" ⟨w0, alwaysAlive, denyAt 1 .EACCES⟩ = some (.ok (.proc 101), 6) :=
  ⟨cause_probe_r r, cause_witness_r r⟩

/-- the cause tables are complete: every public name is a non-query, as_dict, parents, or in one of the two lists -/
theorem C03_cause_table_complete : ∀ nm ∈ publicMethods,
    nm ∈ ["kill", "oneshot", "resume", "send_signal", "suspend", "terminate", "wait"] ∨ nm = "as_dict" ∨ nm = "parents" ∨
      nm ∈ causePlain ∨ nm ∈ causeProbe.map (·.1) := by decide

/-- non-vacuity of `Cause`: each class is produced by the plan that is its cause -/
example : OKC w0 ⟨w0, vanishAt 1, noDeny⟩ (runK ⟨true, false⟩ w0 "name" ⟨w0, vanishAt 1, noDeny⟩) ∧
    runK ⟨true, false⟩ w0 "name" ⟨w0, vanishAt 1, noDeny⟩ = some (.error (.nsp 105), 3) := by decide +kernel
example : runK ⟨true, false⟩ w0 "exe" ⟨w0, zombieFrom 0, noDeny⟩ = some (.error (.zombie 105), 4) ∧
    Cause (zombieFrom 0) noDeny 0 4 (.error (.zombie 105) : Except PyExc Val) := by decide +kernel
example : runK ⟨true, false⟩ w0 "name" ⟨w0, alwaysAlive, denyAt 1 .EPERM⟩ = some (.error (.ad 105), 2) ∧
    Cause alwaysAlive (denyAt 1 .EPERM) 0 2 (.error (.ad 105) : Except PyExc Val) := by decide +kernel
/-- … and is refuted by a class without its cause -/
example : ¬ Cause alwaysAlive (denyAt 0 .EACCES) 0 1 (.error (.nsp 105) : Except PyExc Val) := by decide

/-! ## lazily evaluated results of platform methods, and the OS accesses of the helpers their bodies call
    (seeded round 5)

    Two dimensions the fault plans did not span: (1) WHEN a wrapped method's body runs — a method that returns a
    generator / iterator runs its body while the front end iterates the result, after the try of `@wrap_exceptions`
    has returned (`Cfg.lazyBodies`, model `W`); (2) the OS access a helper makes on a path OUTSIDE procfs that the
    body read out of a procfs record: `path_exists_strict()` on a mapping whose name ends in " (deleted)"
    (`ProcInfo.maps`, `Path.mapFile`, `Plat.mapsLoop`), an access of the call like any other, so it may be the one
    that is refused. -/

/-- obligation on the three new facts: no method of `_pslinux.Process` returns a lazy result (TOTAL over the class);
    `path_exists_strict` is `os.stat` under [PermissionError → raise, OSError → return False]; the only file-system
    probe inside memory_maps() is the " (deleted)" suffix test (`cfg_good` pins the first two as well) -/
theorem cfg_eager_bodies :
    cfg.lazyBodies = [] ∧
    cfg.existsStrictClauses = [(["PermissionError"], "raise"), (["OSError"], "return False")] ∧
    mapsDeletedProbe = "if path.endswith(' (deleted)') and (not path_exists_strict(path))" := by decide

/-- for EVERY decorated method name and EVERY body of the source as it is, the body runs inside the decorator's
    handlers (nothing is deferred to the iteration of a returned object) -/
theorem C03_wrapped_bodies_run_inside_handlers {α : Type} (name : String) (p : Nat) (body : M α)
    (h : cfg.wrapped.contains name = true) : W cfg name p body = wrapExceptions cfg p body := by
  unfold W
  rw [if_neg (by rw [cfg_eager_bodies.1]; simp), if_pos h]

/-- … whereas for ANY configuration a method that returns a lazy result gets nothing from the decorator: whatever
    its body raises reaches the front end as it is -/
theorem C03_lazy_body_escapes_wrapper {α : Type} (cf : Cfg) (name : String) (p : Nat) (body : M α)
    (h : cf.lazyBodies.contains name = true) : W cf name p body = body := by
  unfold W; rw [if_pos h]

/-- memory_maps() at the platform level, over the new dimension: EVERY world — any number of mappings of any kinds,
    any of the " (deleted)" names existing literally or not —, every admissible plan — the process vanishing / turning
    zombie at any access, the ONE refused access being any access of the call, the stat of any mapping's backing path
    included — gives a value or a psutil error for `p` (the front-end statement is `C03_safe_memory_maps`) -/
theorem C03_memory_maps_any_mappings (p : Nat) : Safe p (Plat.memoryMaps cfg p) := by
  rw [cfg_good]; exact safe_of_tri (memoryMaps_safe host p)

/-- the helper alone: whatever `os.stat` of the path answers (there, not there, refused), `path_exists_strict` lets
    only the PermissionError of the refused access out -/
theorem C03_exists_strict_only_refusal (p i : Nat) (c : Ctx) (s : St) (ha : Adm c) (hi : CacheInv s.cache) :
    match (Plat.pathExistsStrict cfg p i c s).1 with
    | .ok _ => True
    | .error e => e = .perm := by
  rw [cfg_good]
  have := pathExistsStrict_safe host p i c s ha hi
  rcases hr : Plat.pathExistsStrict (goodCfg host) p i c s with ⟨res, s'⟩
  rw [hr] at this
  cases res with
  | ok _ => trivial
  | error e =>
    -- the body is one access: only OSErrors; fnf / ple are answered False
    have hos : Tri OsOnly (Plat.pathExistsStrict (goodCfg host) p i) (fun _ => True) := by
      unfold Plat.pathExistsStrict accStatMap
      refine tri_tryCatch (E' := OsOnly)
        (tri_bind (tri_access_os _ _ (fun _ => True) (fun _ _ _ _ => trivial)) (fun _ _ => tri_pure trivial))
        (fun _ _ _ _ h => h) ?_
      intro e m' he ho
      obtain ⟨c, k, ho⟩ := ho
      rcases ho with h | h | h <;> subst h <;> simp [goodCfg, catches, PyExc.bases] at he <;> subst he
      · exact tri_pure trivial
      · exact tri_pure trivial
      · exact tri_throw (fun _ _ => Or.inr (Or.inr rfl))
    have h2 := hos c s ha hi
    rw [hr] at h2
    have h1 : ExcOK p c s'.k e := this.1
    rcases h2.1 with h | h | h <;> subst h
    · -- a FileNotFoundError cannot leave: the OSError clause answers False
      exfalso
      unfold Plat.pathExistsStrict tryCatch at hr
      rcases hb : (accStatMap p i >>= fun _ => (pure true : M Bool)) c s with ⟨rb, sb⟩
      rw [hb] at hr
      cases rb with
      | ok v => simp at hr
      | error e' =>
        simp only at hr
        cases e' <;> simp [goodCfg, catches, PyExc.bases, throw, pure_eq, M.pure] at hr
    · exfalso
      unfold Plat.pathExistsStrict tryCatch at hr
      rcases hb : (accStatMap p i >>= fun _ => (pure true : M Bool)) c s with ⟨rb, sb⟩
      rw [hb] at hr
      cases rb with
      | ok v => simp at hr
      | error e' =>
        simp only at hr
        cases e' <;> simp [goodCfg, catches, PyExc.bases, throw, pure_eq, M.pure] at hr
    · rfl

/-- PIDs 101 and 105; the object 105 maps a file, a really deleted file, an anonymous region and a file whose
    name literally ends in " (deleted)" -/
def wMaps : World :=
  { target := 105
    procs := [⟨101, 1, 50, false, false, [(101, false)], [], false, [.file, .anon]⟩,
              ⟨105, 101, 100, false, false, [(105, false)], [], false,
                [.file, .deleted false, .anon, .deleted true]⟩] }

/-- outcome of the named call on the world's object for ANY configuration -/
def runOf' (cf : Cfg) (w : World) (nm : String) (c : Ctx) : Option (Except PyExc Val) :=
  (Fe.method cf w.obj nm).map (fun m => (m c {}).1)

/-- the source with memory_maps() turned into a generator (or returning any other lazy object) -/
def lazyMapsCfg (h : Host) : Cfg := { goodCfg h with lazyBodies := ["memory_maps"] }

/-- the source with `@wrap_exceptions` dropped from memory_maps() ("the read is decorated already") -/
def bareMapsCfg (h : Host) : Cfg := { goodCfg h with wrapped := (goodCfg h).wrapped.erase "memory_maps" }

theorem adm_wMaps_deny (i : Nat) : Adm ⟨wMaps, alwaysAlive, denyAt i .EACCES⟩ := by
  refine ⟨fun _ _ _ => Nat.le_refl _, ⟨fun j e h => ?_, fun a b e e' h1 h2 => ?_⟩,
    ⟨⟨101, 1, 50, false, false, [(101, false)], [], false, [.file, .anon]⟩, by simp [wMaps], by simp [wMaps]⟩⟩
  · simp only [denyAt] at h; split at h <;> simp at h; exact Or.inl h.symm
  · simp only [denyAt] at h1 h2
    split at h1 <;> split at h2 <;> simp_all

/-- concrete runs on `wMaps` (accesses: 0 open smaps, 1 read smaps, 2 stat of mapping 1's path, 3 stat of mapping 3's
    path): all four mappings reported after 4 accesses; each of the two stats refused → AccessDenied(105); the process
    gone / a zombie from the first stat on changes nothing (the paths are outside procfs) -/
theorem C03_memory_maps_probe_runs (b : Host) :
    runK b wMaps "memory_maps" ⟨wMaps, alwaysAlive, noDeny⟩ = some (.ok (.list 4), 4) ∧
    runOf b wMaps "memory_maps" ⟨wMaps, alwaysAlive, denyAt 2 .EACCES⟩ = some (.error (.ad 105)) ∧
    runOf b wMaps "memory_maps" ⟨wMaps, alwaysAlive, denyAt 3 .EPERM⟩ = some (.error (.ad 105)) ∧
    runOf b wMaps "memory_maps" ⟨wMaps, vanishAt 2, noDeny⟩ = some (.ok (.list 4)) ∧
    runOf b wMaps "memory_maps" ⟨wMaps, zombieFrom 2, noDeny⟩ = some (.ok (.list 4)) ∧
    runOf b wMaps "memory_maps" ⟨wMaps, vanishAt 1, noDeny⟩ = some (.error (.nsp 105)) := by
  obtain ⟨ro, le⟩ := b
  cases ro <;> cases le <;> decide +kernel

/-- **a lazy memory_maps() leaks**: with the body deferred to the iteration (seeded change C03-4 and every variant of
    it: `yield`, a returned generator expression, `map(...)`), the one refused stat of a " (deleted)" path reaches the
    caller as a bare PermissionError — through memory_maps() and through as_dict(), which only absorbs
    AccessDenied / ZombieProcess; the statement `Safe` is false of that source. Dropping the decorator does the same. -/
theorem C03_lazy_memory_maps_leaks (b : Host) :
    runOf' (lazyMapsCfg b) wMaps "memory_maps" ⟨wMaps, alwaysAlive, denyAt 2 .EACCES⟩ = some (.error .perm) ∧
    runOf' (bareMapsCfg b) wMaps "memory_maps" ⟨wMaps, alwaysAlive, denyAt 2 .EACCES⟩ = some (.error .perm) ∧
    ((Fe.asDict (lazyMapsCfg b) wMaps.obj ["pid", "memory_maps"] ⟨wMaps, alwaysAlive, denyAt 3 .EPERM⟩ {}).1
        = .error .perm) ∧
    -- vanish / zombie faults on the same source are still translated (the nested read is decorated itself)
    runOf' (lazyMapsCfg b) wMaps "memory_maps" ⟨wMaps, vanishAt 0, noDeny⟩ = some (.error (.nsp 105)) ∧
    runOf' (lazyMapsCfg b) wMaps "memory_maps" ⟨wMaps, alwaysAlive, denyAt 1 .EACCES⟩ = some (.error (.ad 105)) := by
  obtain ⟨ro, le⟩ := b
  cases ro <;> cases le <;> decide +kernel

theorem C03_lazy_memory_maps_not_safe (b : Host) : ¬ Safe 105 (Plat.memoryMaps (lazyMapsCfg b) 105) := by
  have hrun : (Plat.memoryMaps (lazyMapsCfg b) 105 ⟨wMaps, alwaysAlive, denyAt 2 .EACCES⟩ {}).1 = .error .perm := by
    obtain ⟨ro, le⟩ := b
    cases ro <;> cases le <;> decide +kernel
  exact not_safe_of_run (adm_wMaps_deny 2) cacheInv_empty hrun (by decide)

/-! ## as_dict / process_iter -/

/-- every name as_dict() accepts is a modelled getter (translator fact `asDictNames`) -/
theorem C03_as_dict_names_modelled : ∀ nm ∈ asDictNames, nm ∈ getterNames := by decide

/-- as_dict(attrs): AccessDenied and ZombieProcess are replaced by ad_value; the only exception
    that can leave is NoSuchProcess(pid); the oneshot cache is left well-formed -/
theorem C03_as_dict_policy (o : Obj) (attrs : List String) (h : ∀ nm ∈ attrs, nm ∈ asDictNames)
    (c : Ctx) (s : St) (ha : Adm c) (hi : CacheInv s.cache) :
    match (Fe.asDict cfg o attrs c s).1 with
    | .ok _ => True
    | .error e => e = .nsp o.pid := by
  rw [cfg_good]
  have := asDict_safe host o attrs (fun nm hnm => C03_as_dict_names_modelled nm (h nm hnm)) c s ha hi
  rcases hr : Fe.asDict (goodCfg host) o attrs c s with ⟨res, s'⟩
  rw [hr] at this
  cases res with
  | ok v => trivial
  | error e => exact this.1

/-- as_dict() / as_dict(attrs=None) / as_dict(attrs=[]) — every name of `_as_dict_attrnames`, in ANY iteration order
    (any list of valid names), the NotImplementedError clause skipping instead of re-raising: same policy, the only
    exception that can leave is NoSuchProcess(pid) -/
theorem C03_as_dict_default_policy (o : Obj) (names : List String) (h : ∀ nm ∈ names, nm ∈ asDictNames)
    (c : Ctx) (s : St) (ha : Adm c) (hi : CacheInv s.cache) :
    match (Fe.asDictAll cfg o names c s).1 with
    | .ok _ => True
    | .error e => e = .nsp o.pid := by
  rw [cfg_good]
  have := asDictAll_safe host o names (fun nm hnm => C03_as_dict_names_modelled nm (h nm hnm)) c s ha hi
  rcases hr : Fe.asDictAll (goodCfg host) o names c s with ⟨res, s'⟩
  rw [hr] at this
  cases res with
  | ok v => trivial
  | error e => exact this.1

/-- non-vacuity / what the default form answers: all 30 names for a live process; NoSuchProcess for one that is gone
    (the first name that touches /proc raises it; `pid` and the cached `create_time` alone would not) -/
example : (Fe.asDictAll (goodCfg ⟨true, false⟩) w0.obj asDictNames ⟨w0, alwaysAlive, noDeny⟩ {}).1 = .ok (30, [], []) := by
  decide +kernel
example : (Fe.asDictAll (goodCfg ⟨true, false⟩) w0.obj asDictNames ⟨w0, vanishAt 0, noDeny⟩ {}).1 = .error (.nsp 105) := by
  decide +kernel
/-- what the audit's edit 3 would do (`except (NotImplementedError, NoSuchProcess)` on the second handler): the default
    form of a gone process returns a partial dict instead of raising — the fact `asDictSkipCatch` feeds the model, so the
    correspondence (call `as_dict_all`, `gone_nsp`) sees it -/
example : (Fe.asDictAll { goodCfg ⟨true, false⟩ with asDictSkipCatch := ["NotImplementedError", "NoSuchProcess"] }
    w0.obj asDictNames ⟨w0, vanishAt 0, noDeny⟩ {}).1 = .ok (2, [], []) := by
  decide +kernel

/-- process_iter(attrs) with a NON-EMPTY attrs swallows NoSuchProcess (the pid is dropped) and never raises
    (`attrs=[]` means "every name" in the source — `ls = attrs or valid_names` — and is not what `Fe.processIter` models) -/
theorem C03_process_iter_swallow (attrs : List String) (_hne : attrs ≠ []) (h : ∀ nm ∈ attrs, nm ∈ asDictNames)
    (c : Ctx) (s : St) (ha : Adm c) (hi : CacheInv s.cache) :
    ∃ v, (Fe.processIter cfg attrs c s).1 = .ok v := by
  rw [cfg_good]
  have := processIter_safe host attrs (fun nm hnm => C03_as_dict_names_modelled nm (h nm hnm)) c s ha hi
  rcases hr : Fe.processIter (goodCfg host) attrs c s with ⟨res, s'⟩
  rw [hr] at this
  cases res with
  | ok v => exact ⟨v, rfl⟩
  | error e => exact this.1.elim

/-! ## children() and parent(): lead L3 -/

/-- children() (non recursive), repaired ppid_map(): for every admissible plan, any number of listed
    PIDs and children — a value or a psutil error for the object's pid. In particular no bare
    PermissionError (L3), and no AccessDenied carrying a child's pid: `Process(child)` may swallow
    one refusal, but then the following `child.create_time()` cannot be refused again (deny
    accounting in Proofs/C03Deny.lean) -/
theorem C03_safe_children (o : Obj) : MethodOK o "children" := by
  unfold MethodOK; rw [cfg_good]
  exact ⟨_, rfl, safe_of_tri (children_safe _ o)⟩

/-- parent(): same statement (the /proc listing is never empty in an admissible world, so
    `pids()[0]` cannot raise IndexError) -/
theorem C03_safe_parent (o : Obj) : MethodOK o "parent" := by
  unfold MethodOK; rw [cfg_good]
  exact ⟨_, rfl, safe_of_tri (parent_safe _ o)⟩

/-- the world in which the object IS the lowest listed PID: `parent()` takes its lowest-PID stop -/
def wLow : World :=
  { target := 101
    procs := [⟨101, 0, 50, false, false, [(101, false)], [], false, [.file, .anon]⟩,
              ⟨105, 101, 100, false, false, [(105, false)], [], false, [.file, .anon]⟩] }

/-- **the guarded lowest-PID stop is one more access that can fail** (since /repo d7107b4) — and it fails with psutil
    errors only. On `wLow`, `Process(101).parent()` / `.parents()`: undisturbed → None / [] after 3 accesses (the listing,
    then open + read of /proc/101/stat by the identity probe; 1 access before the guard: `preRootGuardCfg`); the process
    gone from access 1 on → NoSuchProcess(101) (before the guard: None — the stop answered for a process that no longer
    exists); the probe's open or read refused → NoSuchProcess(101) as well (the region of finding
    C03-denied-probe-reads-as-reuse now reaches this path too; `OK` holds, `Cause` does not); a zombie → None. All covered
    by `C03_safe_parent` / `C03_safe_parents_partial`, which quantify over every admissible plan. -/
theorem C03_parent_root_stop_probe (b : Bool) :
    runK ⟨b, false⟩ wLow "parent" ⟨wLow, alwaysAlive, noDeny⟩ = some (.ok .none, 3) ∧
    runK ⟨b, false⟩ wLow "parents" ⟨wLow, alwaysAlive, noDeny⟩ = some (.ok (.procs []), 3) ∧
    runK ⟨b, false⟩ wLow "parent" ⟨wLow, vanishAt 1, noDeny⟩ = some (.error (.nsp 101), 4) ∧
    runK ⟨b, false⟩ wLow "parents" ⟨wLow, vanishAt 1, noDeny⟩ = some (.error (.nsp 101), 4) ∧
    runK ⟨b, false⟩ wLow "parent" ⟨wLow, alwaysAlive, denyAt 1 .EACCES⟩ = some (.error (.nsp 101), 2) ∧
    runK ⟨b, false⟩ wLow "parent" ⟨wLow, alwaysAlive, denyAt 2 .EPERM⟩ = some (.error (.nsp 101), 3) ∧
    runK ⟨b, false⟩ wLow "parent" ⟨wLow, zombieFrom 1, noDeny⟩ = some (.ok .none, 3) ∧
    (Fe.parent (preRootGuardCfg ⟨b, false⟩) wLow.obj ⟨wLow, alwaysAlive, noDeny⟩ {}).2.k = 1 ∧
    (Fe.parent (preRootGuardCfg ⟨b, false⟩) wLow.obj ⟨wLow, vanishAt 1, noDeny⟩ {}).1 = .ok .none := by
  cases b <;> decide +kernel

/-- ppid_map() itself lets nothing escape once PermissionError is tolerated -/
theorem C03_ppid_map_total (c : Ctx) (s : St) (ha : Adm c) (hi : CacheInv s.cache) :
    ∃ v, (Plat.ppidMap cfg c s).1 = .ok v := by
  rw [cfg_good]
  have := ppidMap_safe host c s ha hi
  rcases hr : Plat.ppidMap (goodCfg host) c s with ⟨res, s'⟩
  rw [hr] at this
  cases res with
  | ok v => exact ⟨v, rfl⟩
  | error e => exact this.1.elim

theorem adm_w0_deny (i : Nat) : Adm ⟨w0, alwaysAlive, denyAt i .EACCES⟩ := by
  refine ⟨fun _ _ _ => Nat.le_refl _, ⟨fun j e h => ?_, fun a b e e' h1 h2 => ?_⟩, ?_⟩
  · simp only [denyAt] at h; split at h <;> simp at h; exact Or.inl h.symm
  · simp only [denyAt] at h1 h2
    split at h1 <;> split at h2 <;> simp_all
  · exact ⟨⟨101, 1, 50, false, false, [(101, false)], [], false, [.file, .anon]⟩, by simp [w0], by simp [w0]⟩

/-- **lead L3, re-found**: with the source as it was (ppid_map() tolerating only
    ENOENT/ESRCH) a single EACCES on the open of /proc/101/stat (access 3 of children()) makes
    Process(105).children() raise the bare builtin PermissionError -/
theorem C03_children_prefix_counterexample :
    ¬ (∀ (o : Obj) (c : Ctx) (s : St), Adm c → CacheInv s.cache →
        OK o.pid (Fe.children (preFixCfg ⟨true, false⟩) o c s).1) := by
  intro h
  have := h w0.obj ⟨w0, alwaysAlive, denyAt 3 .EACCES⟩ {} (adm_w0_deny 3) cacheInv_empty
  have hrun : (Fe.children (preFixCfg ⟨true, false⟩) w0.obj ⟨w0, alwaysAlive, denyAt 3 .EACCES⟩ {}).1 = .error .perm := by
    decide
  rw [hrun] at this
  exact this

/-- … and the same plan on the repaired source yields a value -/
theorem C03_children_fixed_witness :
    (Fe.children (goodCfg ⟨true, false⟩) w0.obj ⟨w0, alwaysAlive, denyAt 3 .EACCES⟩ {}).1 = .ok (.procs []) := by
  decide

/-! ## the walks over other processes: children(recursive=True), parents(), connections() -/

/-- children(recursive=True): for every admissible plan, any process tree (any number of listed PIDs, any
    depth, cycles included) — a value or a psutil error for the object's pid. Each `Process(child)` /
    `child.create_time()` is a fault point; the per-child deny accounting is the one of children() -/
theorem C03_safe_children_recursive (o : Obj) : MethodOK o "children_recursive" := by
  unfold MethodOK; rw [cfg_good]
  exact ⟨_, rfl, safe_of_tri (childrenRecFuel_safe _ o none)⟩

/-- … and the bound the model puts on the `while stack` loop is immaterial: the same holds for every fuel -/
theorem C03_children_recursive_any_fuel (o : Obj) (fuel : Nat) :
    Safe o.pid (Fe.childrenRecFuel cfg o (some fuel)) := by
  rw [cfg_good]; exact safe_of_tri (childrenRecFuel_safe _ o (some fuel))

/-- **fuel sufficiency, children(recursive=True)** (was argued, now proved): the `while stack` loop pops at most
    `len(map) + 1` times — every map entry is pushed at most once, when its parent is marked seen — for ANY ppid
    map (cycles, self-parents, duplicates). Hence any fuel ≥ number of listed PIDs + 1 yields literally the same
    computation (result AND final state) as the model's default: the bound is invisible, the fuelled walk is the
    Python loop, and `C03_safe_children_recursive` speaks about it without a fuel hypothesis -/
theorem C03_children_recursive_fuel_sufficient (o : Obj) (fuel : Nat) (c : Ctx) (s : St)
    (hf : c.w.procs.length + 1 ≤ fuel) :
    Fe.childrenRecFuel cfg o (some fuel) c s = Fe.childrenRec cfg o c s :=
  childrenRecFuel_sufficient cfg o fuel c s hf

/-- … at the level of the loop itself: for every map, start state and extra fuel -/
theorem C03_children_walk_fuel_invisible (o : Obj) (pm : List (Nat × Nat)) (extra : Nat) (c : Ctx) (s : St) :
    Fe.childrenRecWalk cfg o (pm.length + 1 + extra) pm [o.pid] [] [] c s
      = Fe.childrenRecWalk cfg o (pm.length + 1) pm [o.pid] [] [] c s := by
  have hu : unseenEntries pm [] ≤ pm.length := List.length_filter_le _ _
  exact childrenRecWalk_fuel cfg o pm _ _ _ _ _ c s (by simp only [List.length_cons, List.length_nil]; omega)
    (by simp only [List.length_cons, List.length_nil]; omega)

/-- **fuel sufficiency, parents()**: every iteration of the `while` loop adds to `seen` a pid that is LISTED (the
    object `proc.parent()` returns exists only after a successful read of /proc/<ppid>/stat) and not yet seen, so
    there are at most #listed iterations, whatever the ppid links (cycles included) and whatever handler list
    surrounds `proc.parent()`; any fuel ≥ number of listed PIDs + 1 yields the same computation as the default -/
theorem C03_parents_fuel_sufficient (catchL : List String) (o : Obj) (fuel : Nat) (c : Ctx) (s : St)
    (hf : c.w.procs.length + 1 ≤ fuel) :
    Fe.parentsFuel cfg catchL o (some fuel) c s = Fe.parentsFuel cfg catchL o none c s :=
  parentsFuel_sufficient cfg catchL o fuel c s hf

/-- connections(): the deprecated alias (warns, then calls net_connections()) -/
theorem C03_safe_connections (o : Obj) : MethodOK o "connections" := by
  obtain ⟨m, hm, hs⟩ := C03_safe_net_connections o
  exact ⟨m, hm, hs⟩

/-- the weaker guarantee: a value or NoSuchProcess / ZombieProcess / AccessDenied carrying SOME pid — still
    never a bare OSError, never a parsing error -/
def SafeAny {α : Type} (m : M α) : Prop := ∀ c s, Adm c → CacheInv s.cache → OKany (m c s).1

def MethodAny (o : Obj) (nm : String) : Prop := ∃ m, Fe.method cfg o nm = some m ∧ SafeAny m

theorem safeAny_of_tri {α : Type} {m : M α} {Q : α → Prop} (h : Tri PsAny m Q) : SafeAny m := by
  intro c s ha hi
  have := h c s ha hi
  rcases hr : m c s with ⟨res, s'⟩
  rw [hr] at this
  cases res with
  | ok a => trivial
  | error e =>
    obtain ⟨q, h | h | h⟩ := this.1 <;> subst h <;> simp [OKany]

/-- the full-strength statement for parents() — FALSE of the current source, see `C03_parents_counterexample` -/
def C03_safe_parents_Full : Prop := ∀ o : Obj, MethodOK o "parents"

theorem adm_deny (w : World) (hw : ∃ i ∈ w.procs, i.pid ≠ w.target) (i : Nat) :
    Adm ⟨w, alwaysAlive, denyAt i .EACCES⟩ := by
  refine ⟨fun _ _ _ => Nat.le_refl _, ⟨fun j e h => ?_, fun a b e e' h1 h2 => ?_⟩, hw⟩
  · simp only [denyAt] at h; split at h <;> simp at h; exact Or.inl h.symm
  · simp only [denyAt] at h1 h2
    split at h1 <;> split at h2 <;> simp_all

/-- **parents() leaks another process' pid**: ONE refused access while the walk queries the ancestor 101 (access 9 =
    the open of /proc/101/stat for the ancestor's own `ppid()` read, reached through `proc.parent()`) makes
    `Process(105).parents()` raise AccessDenied(pid=101) — although 105 is readable. Holds with and without the repair
    of is_running(); without it a refusal at access 7 (inside `Process(101).is_running()`) gives NoSuchProcess(pid=101)
    as well (`C03_parents_counterexample_nsp`). -/
theorem C03_parents_counterexample : ¬ C03_safe_parents_Full := by
  intro h
  obtain ⟨m, hm, hs⟩ := h w1.obj
  have hm' : m = Fe.parents cfg w1.obj := by
    have : Fe.method cfg w1.obj "parents" = some (Fe.parents cfg w1.obj) := rfl
    rw [this] at hm; injection hm with hm; exact hm.symm
  subst hm'
  have hrun : (Fe.parents cfg w1.obj ⟨w1, alwaysAlive, denyAt 9 .EACCES⟩ {}).1 = .error (.ad 101) := by
    rw [cfg_good]; exact parents_ad_witness host
  exact not_safe_of_run (adm_deny w1 ⟨⟨50, 0, 10, false, false, [(50, false)], [], false, [.file, .anon]⟩, by simp [w1], by simp [w1]⟩ 9)
    cacheInv_empty hrun (by decide) hs

/-- the second leak, of the source WITHOUT the is_running() repair: a refusal inside the ancestor's identity probe →
    NoSuchProcess(pid=101) for a live ancestor; with the repair the same plan returns the whole chain -/
theorem C03_parents_counterexample_nsp :
    (Fe.parents (goodCfg ⟨true, false⟩) w1.obj ⟨w1, alwaysAlive, denyAt 7 .EACCES⟩ {}).1 = .error (.nsp 101) ∧
    (Fe.parents (goodCfg ⟨true, true⟩) w1.obj ⟨w1, alwaysAlive, denyAt 7 .EACCES⟩ {}).1 = .ok (.procs [101, 50]) := by
  constructor <;> decide +kernel

/-- what parents() does guarantee as it is (`_partial`): for every admissible plan, any chain of ancestors,
    a value or a psutil error (for the object or for an ancestor it was walking through) — never a bare
    OSError, never a parsing error -/
theorem C03_safe_parents_partial (o : Obj) : MethodAny o "parents" := by
  unfold MethodAny; rw [cfg_good]
  exact ⟨_, rfl, safeAny_of_tri (parentsFuel_any _ o none)⟩

/-- … and with `proc = proc.parent()` wrapped in `try … except (NoSuchProcess, AccessDenied): break` (the
    walk ends where an ancestor cannot be queried) the full statement holds, for every fuel -/
theorem C03_safe_parents_repaired (o : Obj) (fuel : Option Nat) :
    Safe o.pid (Fe.parentsFuel cfg repairedParentsCatch o fuel) := by
  rw [cfg_good]; exact safe_of_tri (parentsFuel_repaired _ o fuel)

/-- round 2, candidate repair "an ancestor that vanished ends the walk" (`except NoSuchProcess: break`, what parent()
    itself does for a vanished parent and children() for a vanished child): it removes the NoSuchProcess(ancestor)
    half of the finding — the witness plan then returns the chain found so far — but NOT the AccessDenied half: the
    full statement stays false, so the finding stays (see notes/C03.md, "parents(): repair decision") -/
example : (Fe.parentsFuel (goodCfg ⟨true, false⟩) ["NoSuchProcess"] w1.obj none ⟨w1, alwaysAlive, denyAt 7 .EACCES⟩ {}).1
    = .ok (.procs [101]) := by decide +kernel
example : (Fe.parentsFuel (goodCfg ⟨true, false⟩) ["NoSuchProcess"] w1.obj none ⟨w1, alwaysAlive, denyAt 9 .EACCES⟩ {}).1
    = .error (.ad 101) := by decide +kernel

/-- the witness plan on the repaired walk: the chain found so far -/
example : (Fe.parentsFuel (goodCfg ⟨true, false⟩) repairedParentsCatch w1.obj none
    ⟨w1, alwaysAlive, denyAt 7 .EACCES⟩ {}).1 = .ok (.procs [101]) := by decide +kernel
/-- non-vacuity: fault-free walks -/
example : (Fe.parents (goodCfg ⟨true, false⟩) w1.obj ⟨w1, alwaysAlive, noDeny⟩ {}).1 = .ok (.procs [101, 50]) := by decide +kernel
example : (Fe.childrenRec (goodCfg ⟨true, false⟩) ⟨50, some 10⟩ ⟨{ w1 with target := 50 }, alwaysAlive, noDeny⟩ {}).1
    = .ok (.procs [101, 105]) := by decide +kernel

/-! ## "returns a WELL-FORMED value" (seeded round 5, C03-5): the value clause of the property

    `Spec.OKV pid nm` = `Spec.OK pid` + the returned object has the documented shape of the query `nm`
    (`Spec.WellFormed`; an exception INSTANCE handed back as the return value, `Val.exc`, is the documented result of
    no query). The value part (`Ret`, Proofs/C03Value.lean) is proved from EVERY context — any world, any state sequence,
    any number of refusals — so it covers in particular `Spec.TransitionPlan`: one refusal combined with alive → zombie →
    gone at later accesses of the same call, the plans that reach the nested fallbacks of exe() / name() / username() /
    cwd(). -/

/-- obligation on the facts about WHICH OBJECT the front end hands back: exe()'s helper guess_it has no handler around
    `self.cmdline()` and ends in `if isinstance(fallback, AccessDenied): raise fallback; return fallback`, and the only
    place of psutil.Process / process_iter where a caught exception object travels as a value is exe() passing it to
    guess_it (`cfg_good` pins `guessClauses` / `guessTailRaises` as fields of `cfg` as well) -/
theorem cfg_value_flows :
    cfg.guessClauses = [] ∧ cfg.guessTailRaises = true ∧
    guessItTail = "if isinstance(fallback, AccessDenied): raise fallback ;; return fallback" ∧
    excValueFlows = ["exe: return guess_it(fallback=err)"] := by decide

/-- **the property with the value clause, for one call** -/
def SafeV (pid : Nat) (nm : String) (m : M Val) : Prop :=
  ∀ c s, Adm c → CacheInv s.cache → OKV pid nm (m c s).1

def MethodOKV (o : Obj) (nm : String) : Prop := ∃ m, Fe.method cfg o nm = some m ∧ SafeV o.pid nm m

/-- glue: `Safe` + "every value it can return is the documented one" -/
theorem safeV_of {pid : Nat} {nm : String} {m : M Val} (hs : Safe pid m) (hr : Ret (WellFormed nm) m) : SafeV pid nm m := by
  intro c s ha hi
  have h1 := hs c s ha hi
  rcases hrun : m c s with ⟨res, s'⟩
  rw [hrun] at h1
  cases res with
  | ok v => exact hr c s v s' hrun
  | error e => cases e <;> first | exact h1 | exact h1.elim

theorem methodOKV_of {o : Obj} {nm : String} (h : MethodOK o nm)
    (hr : ∀ m, Fe.method cfg o nm = some m → Ret (WellFormed nm) m) : MethodOKV o nm := by
  obtain ⟨m, hm, hs⟩ := h
  exact ⟨m, hm, safeV_of hs (hr m hm)⟩

/-- **every getter (the 30 names of as_dict), every plan**: whatever the fault plan — admissible or not — a value the
    call returns has the documented shape of that query; in particular no getter ever hands back an exception object -/
theorem C03_value_wellformed (o : Obj) : ∀ nm ∈ getterNames, ∀ m, Fe.method cfg o nm = some m → Ret (WellFormed nm) m := by
  intro nm hnm m hm
  obtain ⟨hg, ht, _, _⟩ := cfg_value_flows
  obtain ⟨g, hgg, hret⟩ := getter_ret cfg hg ht o nm hnm
  rw [method_eq_getter cfg o nm hnm, hgg] at hm
  cases hm
  exact hret

/-- **the property with the value clause** for each of the 30 getters: under every admissible plan (so under every
    `TransitionPlan`, see `C03_transition_plans_admissible`) a well-formed value of that query, or
    NoSuchProcess / ZombieProcess / AccessDenied carrying the pid -/
theorem C03_okv_getters (o : Obj) : ∀ nm ∈ getterNames, MethodOKV o nm := by
  intro nm hnm
  refine methodOKV_of ?_ (C03_value_wellformed o nm hnm)
  exact methodOK_of_getter (fun b => getter_ok b o nm hnm) (fun b => method_eq_getter (goodCfg b) o nm hnm)

theorem C03_okv_exe (o : Obj) : MethodOKV o "exe" := C03_okv_getters o "exe" (by decide)
theorem C03_okv_name (o : Obj) : MethodOKV o "name" := C03_okv_getters o "name" (by decide)
theorem C03_okv_username (o : Obj) : MethodOKV o "username" := C03_okv_getters o "username" (by decide)
theorem C03_okv_cwd (o : Obj) : MethodOKV o "cwd" := C03_okv_getters o "cwd" (by decide)
theorem C03_okv_status (o : Obj) : MethodOKV o "status" := C03_okv_getters o "status" (by decide)

theorem C03_okv_is_running (o : Obj) : MethodOKV o "is_running" :=
  methodOKV_of (C03_safe_is_running o) (fun m hm => by cases hm; exact isRunning_ret cfg o)

theorem C03_okv_children (o : Obj) : MethodOKV o "children" :=
  methodOKV_of (C03_safe_children o) (fun m hm => by cases hm; exact children_ret cfg o)

theorem C03_okv_children_recursive (o : Obj) : MethodOKV o "children_recursive" :=
  methodOKV_of (C03_safe_children_recursive o) (fun m hm => by cases hm; exact childrenRec_ret cfg o)

theorem C03_okv_parent (o : Obj) : MethodOKV o "parent" :=
  methodOKV_of (C03_safe_parent o) (fun m hm => by cases hm; exact parent_ret cfg o)

/-- parents(): only the weaker `MethodAny` holds for the exception side (finding C03-parents-foreign-pid); the value
    clause holds at full strength -/
theorem C03_value_parents (o : Obj) : Ret (WellFormed "parents") (Fe.parents cfg o) := parents_ret cfg o

/-- as_dict(attrs) / as_dict(): every stored value is ad_value or the getter's own well-formed value — never an
    exception object (`bad = []`), whatever the plan -/
theorem C03_as_dict_values_wellformed (o : Obj) (explicit : Bool) (attrs : List String) (h : ∀ nm ∈ attrs, nm ∈ asDictNames)
    (c : Ctx) (s : St) (v : Nat × List String × List String) (s' : St)
    (hrun : Fe.asDictOf cfg o explicit attrs c s = (.ok v, s')) : WellFormed "as_dict" (.asdict v.1 v.2.1 v.2.2) := by
  obtain ⟨hg, ht, _, _⟩ := cfg_value_flows
  have := asDictOf_ret cfg hg ht o explicit attrs (fun nm hnm => C03_as_dict_names_modelled nm (h nm hnm)) c s v s' hrun
  simp [WellFormed, WellFormedB, this]

/-- process_iter(attrs): the same for the `info` dict of every yielded process -/
theorem C03_process_iter_values_wellformed (attrs : List String) (h : ∀ nm ∈ attrs, nm ∈ asDictNames)
    (c : Ctx) (s : St) (v : Val) (s' : St) (hrun : Fe.processIter cfg attrs c s = (.ok v, s')) :
    WellFormed "process_iter" v := by
  obtain ⟨hg, ht, _, _⟩ := cfg_value_flows
  have hl := iterLoop_ret cfg hg ht attrs (fun nm hnm => C03_as_dict_names_modelled nm (h nm hnm))
  have : Ret (WellFormed "process_iter") (Fe.processIter cfg attrs) := by
    unfold Fe.processIter
    refine ret_bind fun pids => ret_bind' (hl _) (fun l hl' => ret_pure ?_)
    show WellFormedB "process_iter" (.iter l) = true
    simp only [WellFormedB, beq_self_eq_true, Bool.true_and, List.all_eq_true]
    intro x hx
    simp [hl' x hx]
  exact this c s v s' hrun

/-- the new plan dimension is inside the quantifier of every `Safe` / `SafeV` theorem: one refusal (EACCES / EPERM, at
    ANY index) combined with alive → zombie → gone at ANY later (or earlier) indices is admissible -/
theorem C03_transition_plans_admissible (w : World) (hw : ∃ i ∈ w.procs, i.pid ≠ w.target)
    {ws : Nat → WS} {deny : Nat → Option Errno} (h : TransitionPlan ws deny) : Adm ⟨w, ws, deny⟩ := by
  have hden : ∀ i e, (e = Errno.EACCES ∨ e = Errno.EPERM) → DenyOnce (denyAt i e) := by
    intro i e he
    unfold DenyOnce
    refine ⟨fun j e' h => ?_, fun a b e1 e2 h1 h2 => ?_⟩
    · simp only [denyAt] at h; split at h <;> simp at h; subst h; exact he
    · simp only [denyAt] at h1 h2
      split at h1 <;> split at h2 <;> simp_all
  cases h with
  | mk i j l e he hjl =>
    refine ⟨?_, hden i e he, hw⟩
    intro a b hab
    simp only [transition]
    split <;> split <;> (try split) <;> (try split) <;> simp [WS.rank] <;> omega
  | denyZombie i k e he =>
    refine ⟨?_, hden i e he, hw⟩
    intro a b hab
    simp only [zombieFrom]
    split <;> split <;> simp [WS.rank] <;> omega

/-- what-if configurations = the seeded change C03-5 and its variants: (a) guess_it catches ZombieProcess around
    `self.cmdline()` and does an early `return fallback`; (b) guess_it's tail no longer re-raises an AccessDenied fallback -/
def earlyReturnCfg (h : Host) : Cfg := { goodCfg h with guessClauses := [(["ZombieProcess"], "return fallback")] }
def noReraiseCfg (h : Host) : Cfg := { goodCfg h with guessTailRaises := false }

/-- **the value clause is what such a source violates, and only on the combined plan**: world `w0`, exe(): the readlink of
    /proc/105/exe refused (access 0) AND the process a zombie from access 1 on (the cmdline read) → exe() RETURNS the
    AccessDenied instance, as_dict(['exe']) stores it; each fault alone and the property's deny-then-vanish still end in
    AccessDenied / ZombieProcess / NoSuchProcess. The whole life cycle in the call (`transition 1 5`: a zombie at the
    cmdline read, gone only after the zombie probe) gives the same object; gone BEFORE the probe (`transition 1 3`:
    `_is_zombie` fails, cmdline() returns []) raises AccessDenied again. With the tail not re-raising, the refusal alone
    is enough. The source as it is raises ZombieProcess(105) on the same plan. -/
theorem C03_returned_exception_counterexample (b : Host) :
    runOf' (earlyReturnCfg b) w0 "exe" ⟨w0, zombieFrom 1, denyAt 0 .EACCES⟩ = some (.ok (.exc (.ad 105))) ∧
    ¬ OKV 105 "exe" (.ok (.exc (.ad 105))) ∧
    (Fe.asDict (earlyReturnCfg b) w0.obj ["exe"] ⟨w0, zombieFrom 1, denyAt 0 .EACCES⟩ {}).1 = .ok (1, [], ["exe"]) ∧
    ¬ WellFormed "as_dict" (.asdict 1 [] ["exe"]) ∧
    runOf' (earlyReturnCfg b) w0 "exe" ⟨w0, transition 1 5, denyAt 0 .EPERM⟩ = some (.ok (.exc (.ad 105))) ∧
    runOf' (earlyReturnCfg b) w0 "exe" ⟨w0, transition 1 3, denyAt 0 .EPERM⟩ = some (.error (.ad 105)) ∧
    runOf' (earlyReturnCfg b) w0 "exe" ⟨w0, alwaysAlive, denyAt 0 .EACCES⟩ = some (.error (.ad 105)) ∧
    runOf' (earlyReturnCfg b) w0 "exe" ⟨w0, zombieFrom 0, noDeny⟩ = some (.error (.zombie 105)) ∧
    runOf' (earlyReturnCfg b) w0 "exe" ⟨w0, vanishAt 1, denyAt 0 .EACCES⟩ = some (.error (.nsp 105)) ∧
    runOf' (noReraiseCfg b) w0 "exe" ⟨w0, alwaysAlive, denyAt 0 .EACCES⟩ = some (.ok (.exc (.ad 105))) ∧
    runOf' (goodCfg b) w0 "exe" ⟨w0, zombieFrom 1, denyAt 0 .EACCES⟩ = some (.error (.zombie 105)) := by
  obtain ⟨ro, le⟩ := b
  cases ro <;> cases le <;> decide +kernel

theorem C03_early_return_not_safeV (b : Host) : ¬ SafeV 105 "exe" (Fe.exe (earlyReturnCfg b) w0.obj) := by
  intro h
  have hadm : Adm ⟨w0, zombieFrom 1, denyAt 0 .EACCES⟩ :=
    C03_transition_plans_admissible w0
      ⟨⟨101, 1, 50, false, false, [(101, false)], [], false, [.file, .anon]⟩, by simp [w0], by simp [w0]⟩
      (TransitionPlan.denyZombie 0 1 .EACCES (Or.inl rfl))
  have hrun : (Fe.exe (earlyReturnCfg b) w0.obj ⟨w0, zombieFrom 1, denyAt 0 .EACCES⟩ {}).1 = .ok (.exc (.ad 105)) := by
    obtain ⟨ro, le⟩ := b
    cases ro <;> cases le <;> decide +kernel
  have := h ⟨w0, zombieFrom 1, denyAt 0 .EACCES⟩ {} hadm cacheInv_empty
  rw [hrun] at this
  exact absurd this (by decide)

/-! ## assembly over the translator-generated list of public names -/

/-- public names that are not queries about the process (signals, wait, the context manager):
    out of this property's scope (C01, C15, C16) -/
def notQueries : List String := ["kill", "oneshot", "resume", "send_signal", "suspend", "terminate", "wait"]
/-- queries NOT covered by a C03 theorem (listed, never silently dropped): none left -/
def uncovered : List String := []
/-- queries for which only the weaker `MethodAny` holds of the current source (known finding
    C03-parents-foreign-pid: `C03_parents_counterexample`) -/
def weakerOnly : List String := ["parents"]
/-- covered by its own policy theorem (`C03_as_dict_policy`) -/
def byPolicy : List String := ["as_dict"]

theorem C03_all_methods (o : Obj) (h0 : o.pid ≠ 0) :
    ∀ nm ∈ publicMethods,
      nm ∈ notQueries ∨ (nm ∈ weakerOnly ∧ MethodAny o nm) ∨ nm ∈ byPolicy ∨ MethodOK o nm :=
  show ∀ nm ∈ ["as_dict", "children", "cmdline", "connections", "cpu_affinity", "cpu_num", "cpu_percent", "cpu_times", "create_time", "cwd", "environ", "exe", "gids", "io_counters", "ionice", "is_running", "kill", "memory_full_info", "memory_info", "memory_maps", "memory_percent", "name", "net_connections", "nice", "num_ctx_switches", "num_fds", "num_threads", "oneshot", "open_files", "parent", "parents", "pid", "ppid", "resume", "rlimit", "send_signal", "status", "suspend", "terminal", "terminate", "threads", "uids", "username", "wait"],
      nm ∈ notQueries ∨ (nm ∈ weakerOnly ∧ MethodAny o nm) ∨ nm ∈ byPolicy ∨ MethodOK o nm from
  List.forall_mem_cons.2 ⟨Or.inr (Or.inr (Or.inl (by decide))),
    List.forall_mem_cons.2 ⟨Or.inr (Or.inr (Or.inr (C03_safe_children o))),
    List.forall_mem_cons.2 ⟨Or.inr (Or.inr (Or.inr (C03_safe_cmdline o))),
    List.forall_mem_cons.2 ⟨Or.inr (Or.inr (Or.inr (C03_safe_connections o))),
    List.forall_mem_cons.2 ⟨Or.inr (Or.inr (Or.inr (C03_safe_cpu_affinity o))),
    List.forall_mem_cons.2 ⟨Or.inr (Or.inr (Or.inr (C03_safe_cpu_num o))),
    List.forall_mem_cons.2 ⟨Or.inr (Or.inr (Or.inr (C03_safe_cpu_percent o))),
    List.forall_mem_cons.2 ⟨Or.inr (Or.inr (Or.inr (C03_safe_cpu_times o))),
    List.forall_mem_cons.2 ⟨Or.inr (Or.inr (Or.inr (C03_safe_create_time o))),
    List.forall_mem_cons.2 ⟨Or.inr (Or.inr (Or.inr (C03_safe_cwd o))),
    List.forall_mem_cons.2 ⟨Or.inr (Or.inr (Or.inr (C03_safe_environ o))),
    List.forall_mem_cons.2 ⟨Or.inr (Or.inr (Or.inr (C03_safe_exe o))),
    List.forall_mem_cons.2 ⟨Or.inr (Or.inr (Or.inr (C03_safe_gids o))),
    List.forall_mem_cons.2 ⟨Or.inr (Or.inr (Or.inr (C03_safe_io_counters o))),
    List.forall_mem_cons.2 ⟨Or.inr (Or.inr (Or.inr (C03_safe_ionice o))),
    List.forall_mem_cons.2 ⟨Or.inr (Or.inr (Or.inr (C03_safe_is_running o))),
    List.forall_mem_cons.2 ⟨Or.inl (by decide),
    List.forall_mem_cons.2 ⟨Or.inr (Or.inr (Or.inr (C03_safe_memory_full_info o))),
    List.forall_mem_cons.2 ⟨Or.inr (Or.inr (Or.inr (C03_safe_memory_info o))),
    List.forall_mem_cons.2 ⟨Or.inr (Or.inr (Or.inr (C03_safe_memory_maps o))),
    List.forall_mem_cons.2 ⟨Or.inr (Or.inr (Or.inr (C03_safe_memory_percent o))),
    List.forall_mem_cons.2 ⟨Or.inr (Or.inr (Or.inr (C03_safe_name o))),
    List.forall_mem_cons.2 ⟨Or.inr (Or.inr (Or.inr (C03_safe_net_connections o))),
    List.forall_mem_cons.2 ⟨Or.inr (Or.inr (Or.inr (C03_safe_nice o))),
    List.forall_mem_cons.2 ⟨Or.inr (Or.inr (Or.inr (C03_safe_num_ctx_switches o))),
    List.forall_mem_cons.2 ⟨Or.inr (Or.inr (Or.inr (C03_safe_num_fds o))),
    List.forall_mem_cons.2 ⟨Or.inr (Or.inr (Or.inr (C03_safe_num_threads o))),
    List.forall_mem_cons.2 ⟨Or.inl (by decide),
    List.forall_mem_cons.2 ⟨Or.inr (Or.inr (Or.inr (C03_safe_open_files o))),
    List.forall_mem_cons.2 ⟨Or.inr (Or.inr (Or.inr (C03_safe_parent o))),
    List.forall_mem_cons.2 ⟨Or.inr (Or.inl ⟨by decide, C03_safe_parents_partial o⟩),
    List.forall_mem_cons.2 ⟨Or.inr (Or.inr (Or.inr (C03_safe_pid o))),
    List.forall_mem_cons.2 ⟨Or.inr (Or.inr (Or.inr (C03_safe_ppid o))),
    List.forall_mem_cons.2 ⟨Or.inl (by decide),
    List.forall_mem_cons.2 ⟨Or.inr (Or.inr (Or.inr (C03_safe_rlimit o h0))),
    List.forall_mem_cons.2 ⟨Or.inl (by decide),
    List.forall_mem_cons.2 ⟨Or.inr (Or.inr (Or.inr (C03_safe_status o))),
    List.forall_mem_cons.2 ⟨Or.inl (by decide),
    List.forall_mem_cons.2 ⟨Or.inr (Or.inr (Or.inr (C03_safe_terminal o))),
    List.forall_mem_cons.2 ⟨Or.inl (by decide),
    List.forall_mem_cons.2 ⟨Or.inr (Or.inr (Or.inr (C03_safe_threads o))),
    List.forall_mem_cons.2 ⟨Or.inr (Or.inr (Or.inr (C03_safe_uids o))),
    List.forall_mem_cons.2 ⟨Or.inr (Or.inr (Or.inr (C03_safe_username o))),
    List.forall_mem_cons.2 ⟨Or.inl (by decide),
    (fun _ h => nomatch h)⟩⟩⟩⟩⟩⟩⟩⟩⟩⟩⟩⟩⟩⟩⟩⟩⟩⟩⟩⟩⟩⟩⟩⟩⟩⟩⟩⟩⟩⟩⟩⟩⟩⟩⟩⟩⟩⟩⟩⟩⟩⟩⟩⟩

/-- the two-denial table (`C03_two_denials_table_leaks` / `_bounded`) is complete: every public name is a non-query, as_dict (policy theorem), or in one of the two lists -/
theorem C03_two_denials_table_complete : ∀ nm ∈ publicMethods,
    nm ∈ notQueries ∨ nm ∈ byPolicy ∨ nm ∈ twoDenialLeaks.map (·.1) ∨ nm ∈ twoDenialBounded := by decide

/-! ## the property's four plan shapes are admissible (the theorems cover a superset) -/

theorem C03_plans_admissible (w : World) (hw : ∃ i ∈ w.procs, i.pid ≠ w.target)
    {ws : Nat → WS} {deny : Nat → Option Errno} (h : PropertyPlan ws deny) : Adm ⟨w, ws, deny⟩ := by
  have hvan : ∀ k, Monotone (vanishAt k) := by
    intro k i j hij; simp only [vanishAt]; split <;> split <;> simp [WS.rank] <;> omega
  have hzom : ∀ k, Monotone (zombieFrom k) := by
    intro k i j hij; simp only [zombieFrom]; split <;> split <;> simp [WS.rank] <;> omega
  have hno : DenyOnce noDeny := by
    unfold DenyOnce noDeny
    exact ⟨fun _ _ h => (by cases h), fun _ _ _ _ h _ => (by cases h)⟩
  have hden : ∀ i e, (e = Errno.EACCES ∨ e = Errno.EPERM) → DenyOnce (denyAt i e) := by
    intro i e he
    unfold DenyOnce
    refine ⟨fun j e' h => ?_, fun a b e1 e2 h1 h2 => ?_⟩
    · simp only [denyAt] at h; split at h <;> simp at h; subst h; exact he
    · simp only [denyAt] at h1 h2
      split at h1 <;> split at h2 <;> simp_all
  cases h with
  | vanish k => exact ⟨hvan k, hno, hw⟩
  | zombie k => exact ⟨hzom k, hno, hw⟩
  | deny i e he => exact ⟨fun _ _ _ => Nat.le_refl _, hden i e he, hw⟩
  | denyVanish i j e he hij => exact ⟨hvan j, hden i e he, hw⟩

/-! ## non-vacuity: admissible plans exist, and faults do reach the handlers -/

example : Adm ⟨w0, vanishAt 2, noDeny⟩ :=
  C03_plans_admissible w0 ⟨⟨101, 1, 50, false, false, [(101, false)], [], false, [.file, .anon]⟩, by simp [w0], by simp [w0]⟩
    (PropertyPlan.vanish 2)

/-- the process vanishes between the open and the read of /proc/105/stat: NoSuchProcess(105) -/
example : (Fe.name (goodCfg ⟨true, false⟩) w0.obj ⟨w0, vanishAt 1, noDeny⟩ {}).1 = .error (.nsp 105) := by decide
/-- a zombie's exe(): ZombieProcess(105) -/
example : (Fe.exe (goodCfg ⟨true, false⟩) w0.obj ⟨w0, zombieFrom 0, noDeny⟩ {}).1 = .error (.zombie 105) := by decide
/-- EPERM on the read: AccessDenied(105) -/
example : (Fe.name (goodCfg ⟨true, false⟩) w0.obj ⟨w0, alwaysAlive, denyAt 1 .EPERM⟩ {}).1 = .error (.ad 105) := by decide

/-! ## once the process is gone, every query raises NoSuchProcess -/

/-- every as_dict name is either covered by `C03_gone_is_NSP` or a documented exemption -/
theorem C03_gone_coverage : ∀ nm ∈ asDictNames, nm ∈ goneCovered ∨ nm ∈ goneExempt := by decide

/-- **goneForever**: the process is gone before the call starts (every path below /proc/<pid>
    gives ENOENT, native calls ESRCH, nothing is refused) ⇒ each covered query on the object
    raises NoSuchProcess carrying its pid -/
theorem C03_gone_is_NSP (o : Obj) : ∀ nm ∈ goneCovered, ∃ m, Fe.method cfg o nm = some m ∧
    ∀ c, Adm c → GoneFromStart c → o.pid = c.w.target → IsNSP o.pid (m c {}).1 := by
  intro nm hnm
  rw [cfg_good]
  obtain ⟨m, hm, hg⟩ := gone_all host o nm hnm
  refine ⟨m, hm, fun c ha hgs hp => ?_⟩
  obtain ⟨s', hr, _⟩ := hg c {} 0 ha (hp ▸ pgone_of_goneFromStart hgs) (Nat.zero_le _) rfl
  rw [hr]; simp [IsNSP]

/-! ### history form: a sequence of queries on the same object -/

/-- run a sequence of calls one after the other, threading the state (access counter, caches); the outcomes in order -/
def runHistory {α : Type} : List (M α) → Ctx → St → List (Except PyExc α)
  | [], _, _ => []
  | m :: rest, c, s => (m c s).1 :: runHistory rest c (m c s).2

/-- the modelled calls for a list of method names -/
def histOf (o : Obj) (names : List String) : List (M Val) := names.filterMap (Fe.method cfg o)

/-- front-end values that a gone process still answers from the object, by documented design — NOT covered
    by the history theorem, listed explicitly:
    `pid` (attribute), `create_time` ("cached after first call": `_create_time`, filled at construction),
    `exe` once it succeeded (`_exe` memo), `is_running` (answers False), `parent`/`parents` of the lowest
    listed pid (None / [] from the cached `_LOWEST_PID`), `as_dict`/`process_iter` (policy theorems) -/
def goneMemoExempt : List String := ["pid", "create_time", "exe (after a successful exe())", "is_running", "parent", "parents"]

/-- **goneForever, history form**: whatever object (any pid / cached create time), whatever state the earlier
    calls left (any access counter, any inactive oneshot cache), once the process is gone EVERY call of EVERY
    sequence of covered queries — any length, any order, repetitions included — raises NoSuchProcess(pid);
    induction over the call sequence (each call leaves the state as the next one needs it) -/
theorem C03_gone_forever_history (o : Obj) (names : List String) (hn : ∀ nm ∈ names, nm ∈ goneCovered) :
    (histOf o names).length = names.length ∧
    ∀ c s, Adm c → PGone c o.pid 0 → s.cache.active = false →
      ∀ out ∈ runHistory (histOf o names) c s, IsNSP o.pid out := by
  unfold histOf
  rw [cfg_good]
  induction names with
  | nil => exact ⟨rfl, fun _ _ _ _ _ out h => by cases h⟩
  | cons nm rest ih =>
    obtain ⟨m, hm, hg⟩ := gone_all host o nm (hn nm (List.mem_cons_self ..))
    obtain ⟨hlen, hall⟩ := ih (fun x hx => hn x (List.mem_cons_of_mem _ hx))
    simp only [List.filterMap_cons, hm]
    refine ⟨by simp [hlen], fun c s ha hgone hc out hout => ?_⟩
    obtain ⟨s', hr, hc', _⟩ := hg c s 0 ha hgone (Nat.zero_le _) hc
    simp only [runHistory, hr, List.mem_cons] at hout
    rcases hout with h | h
    · subst h; simp [IsNSP]
    · exact hall c s' ha hgone (by rw [hc']; exact hc) out h

/-- the stronger history statement: the process is gone only FROM the access index `k0` (it may have vanished at
    any point of an earlier call, even in the middle of it: `∀ k ≥ k0, gone`, nothing refused from k0 on); every
    call that STARTS at a counter ≥ k0 — whatever state (counter, trace, inactive oneshot cache) the earlier
    calls left — raises NoSuchProcess(pid) -/
def C03_gone_forever_from_Full : Prop :=
  ∀ (o : Obj) (names : List String), (∀ nm ∈ names, nm ∈ goneCovered) →
    ∀ c s (k0 : Nat), Adm c → (∀ k, k0 ≤ k → pst c k o.pid = .gone) → (∀ k, k0 ≤ k → c.deny k = none) →
      k0 ≤ s.k → s.cache.active = false →
      ∀ out ∈ runHistory (histOf o names) c s, IsNSP o.pid out

/-- **goneForever at full strength** (was open after round 1): proved. Every lemma of Proofs/C03Gone.lean is stated
    for a call starting at a counter ≥ k0 and returns that the counter does not decrease, so the induction over the
    call sequence threads `k0 ≤ s.k` -/
theorem C03_gone_forever_from : C03_gone_forever_from_Full := by
  intro o names hn
  unfold histOf
  rw [cfg_good]
  induction names with
  | nil => exact fun _ _ _ _ _ _ _ _ out h => by cases h
  | cons nm rest ih =>
    obtain ⟨m, hm, hg⟩ := gone_all host o nm (hn nm (List.mem_cons_self ..))
    have hall := ih (fun x hx => hn x (List.mem_cons_of_mem _ hx))
    simp only [List.filterMap_cons, hm]
    intro c s k0 ha hg1 hg2 hk hc out hout
    obtain ⟨s', hr, hc', hk'⟩ := hg c s k0 ha ⟨hg1, hg2⟩ hk hc
    simp only [runHistory, hr, List.mem_cons] at hout
    rcases hout with h | h
    · subst h; simp [IsNSP]
    · exact hall c s' k0 ha hg1 hg2 (Nat.le_trans hk hk') (by rw [hc']; exact hc) out h

/-! ### … with the object's `_gone` / `_pid_reused` / `_exe` attributes threaded (Model/C03Hist.lean) -/

/-- the history calls for a list of names -/
def histOfH (o : Obj) (names : List String) : List HCall := names.filterMap (Fe.methodH cfg o)

/-- **goneForever, attributes threaded**: one object, whatever its flags (`_gone`, `_pid_reused` set or not by
    earlier calls — also set wrongly, e.g. by a refused access inside an earlier is_running()), `_exe` not yet
    memoised (a successful earlier exe() is answered from the memo by documented design: `goneMemoExempt`), the
    process gone from index k0 on: every call of every sequence over is_running() and the 31 covered queries that
    starts at a counter ≥ k0 answers `GoneAnswer` — NoSuchProcess(pid), False for is_running() -/
theorem C03_gone_forever_flags (o : Obj) (names : List String) (hn : ∀ nm ∈ names, nm ∈ histCovered) :
    (histOfH o names).length = names.length ∧
    ∀ c s (k0 : Nat) (f : Flags), Adm c → PGone c o.pid k0 → k0 ≤ s.k → s.cache.active = false → f.exe = none →
      ∀ x ∈ names.zip (runHist (histOfH o names) f c s), k0 ≤ x.2.1 ∧ GoneAnswer o.pid x.1 x.2.2 := by
  unfold histOfH
  rw [cfg_good]
  induction names with
  | nil => exact ⟨rfl, fun _ _ _ _ _ _ _ _ _ x h => by cases h⟩
  | cons nm rest ih =>
    obtain ⟨h, hm, hg⟩ := hgone_all host o nm (hn nm (List.mem_cons_self ..))
    obtain ⟨hlen, hall⟩ := ih (fun x hx => hn x (List.mem_cons_of_mem _ hx))
    simp only [List.filterMap_cons, hm]
    refine ⟨by simp [hlen], fun c s k0 f ha hgone hk hc hf x hx => ?_⟩
    obtain ⟨out, f', s', hr, hans, hf', hc', hk'⟩ := hg f c s k0 ha hgone hk hc hf
    simp only [runHist, hr, List.zip_cons_cons, List.mem_cons] at hx
    rcases hx with h | h
    · subst h; exact ⟨hk, hans⟩
    · exact hall c s' k0 f' ha hgone (Nat.le_trans hk hk') (by rw [hc']; exact hc) hf' x h

/-- the memo exemption is real: once exe() succeeded the object answers from `_exe`, gone or not, without an access -/
theorem C03_exe_memo_answers (o : Obj) (f : Flags) (b : Bool) (hf : f.exe = some b) (c : Ctx) (s : St) :
    Fe.exeH cfg o f c s = (.ok (.ok (if b then .str else .estr), f), s) := by
  unfold Fe.exeH; simp only [hf]; rfl

/-- non-vacuity: three queries in a row on a vanished 105 -/
example : runHistory (histOf w0.obj ["name", "ppid", "children_recursive"]) ⟨w0, vanishAt 0, noDeny⟩ {}
    = [.error (.nsp 105), .error (.nsp 105), .error (.nsp 105)] := by decide +kernel
/-- non-vacuity of the stronger forms: 105 vanishes at access 3, in the middle of children() (after is_running() saw it
    alive); the calls that start afterwards answer as a gone process -/
example : (runHist (histOfH w0.obj ["children", "name", "is_running", "is_running", "ppid"]) {} ⟨w0, vanishAt 3, noDeny⟩ {}).map (·.2)
    = [.ok (.procs []), .error (.nsp 105), .ok (.bool false), .ok (.bool false), .error (.nsp 105)] := by
  rw [histOfH, cfg_good]; generalize host = b; rcases b with ⟨_ | _, _ | _⟩ <;> decide +kernel

theorem C03_gone_rlimit (o : Obj) (h0 : o.pid ≠ 0) (c : Ctx) (ha : Adm c) (hgs : GoneFromStart c)
    (hp : o.pid = c.w.target) : IsNSP o.pid (Plat.rlimit cfg o.pid c {}).1 := by
  rw [cfg_good]
  obtain ⟨s', hr, _⟩ := rlimit_gone host o.pid h0 c {} 0 ha (hp ▸ pgone_of_goneFromStart hgs) (Nat.zero_le _) rfl
  rw [hr]; simp [IsNSP]

/-- the hypotheses of `C03_gone_is_NSP` are satisfiable, and the conclusion is what the model computes -/
example : Adm ⟨w0, vanishAt 0, noDeny⟩ ∧ GoneFromStart ⟨w0, vanishAt 0, noDeny⟩ :=
  ⟨C03_plans_admissible w0 ⟨⟨101, 1, 50, false, false, [(101, false)], [], false, [.file, .anon]⟩, by simp [w0], by simp [w0]⟩
      (PropertyPlan.vanish 0),
   fun _ => rfl, fun _ => rfl⟩
example : (Fe.exe (goodCfg ⟨true, false⟩) w0.obj ⟨w0, vanishAt 0, noDeny⟩ {}).1 = .error (.nsp 105) := by decide

end Psutil.C03
