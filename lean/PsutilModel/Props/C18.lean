import PsutilModel.Model.C18Gen
import PsutilModel.Spec.C18
namespace Psutil.C18
theorem placeholder : cfg.shift = 13 := by decide
end Psutil.C18
