/-
  Props/C18.lean — property theorems for C18 (nice / ionice / cpu_affinity / rlimit).
  Only statements the property makes; helper lemmas live in Proofs/C18*.lean.

  Every theorem here is about `stepPy c` — the call as the caller writes it (arguments as Python
  objects), in an execution context (entry errno, status file cached by `oneshot()`), against the
  complete system calls (permission tests included), through the native wrappers with their errno
  protocol, failure tests and the sizing loop of the affinity getter. `stepPy cfg` is what the
  driver runs against the real code. The theorems quantify over every configuration `c` that is
  `Good` and has the EINVAL → ValueError fall-through; `cfg_good` and `cfg_einval_is_valueError`
  are the proof obligations saying that the configuration the translator extracts from the
  current source (`cfg`, built from Generated/C18.lean on every run) is such a configuration.
  `cfg_good` breaks when the C packing constant or macros change, when `ionice_set`'s bounds /
  class set / default change, when the `IOPriority` enum changes, when `rlimit` stops checking
  `len(limits) != 2` or stops refusing PID 0, when the front end stops raising for a level without
  a class, stops sorting the get result, takes the CPUs for `cpu_affinity([])` from anything but
  `range(1024)`, when a native getter's errno protocol changes, when a native setter stops testing
  the return value of its system call, or when the sizing loop of the affinity getter changes its
  first size / retry test / growth.

  The superseded layer `step` (rounds 1–2: a caller permitted everything, no errno protocol, no
  failure tests, no sizing loop, `cpu_affinity_set` before aebc260) lives in Proofs/C18Step.lean as
  a proof layer; nothing in this file is stated about it.
-/
import PsutilModel.Proofs.C18Code
import PsutilModel.Proofs.C18Who
import PsutilModel.Proofs.C18Num
import PsutilModel.Proofs.C18Refused
import PsutilModel.Model.C18Gen
namespace Psutil.C18
open Spec

theorem cfg_good : cfg.Good := by constructor <;> decide

/-- proof obligation on the translator's fact (fix aebc260): after the diagnosis loop an EINVAL
    of `sched_setaffinity` is turned into ValueError; dropping that breaks this theorem -/
theorem cfg_einval_is_valueError : cfg.einvalValueError = true := by decide

/-! ### packing -/

/-- `IOPRIO_PRIO_VALUE` then `IOPRIO_PRIO_CLASS/DATA` (with the shift of the C source) give the
    class and data back, the packed value fits the kernel's `unsigned short`, and the kernel
    reads the same class out of it -/
theorem C18_ioprio_roundtrip (cls data : Nat) (hc : cls < 8) (hd : data < 8192) :
    ioprioUnpack cfg.shift (ioprioPack cfg.shift cls data) = (cls, data) ∧
    ioprioPack cfg.shift cls data < 65536 ∧
    ioprioClassOf (ioprioPack cfg.shift cls data) = cls := by
  rw [cfg_good.shift]
  refine ⟨unpack_pack cls data hd, ?_, ?_⟩
  · rw [pack_eq _ _ hd]; omega
  · rw [pack_eq _ _ hd]; exact classOf_eq cls data hc hd

/-! ### refinement: whatever the specification promises, the code does -/

/-- **C18_refines_py.** For EVERY good configuration with the EINVAL fall-through, kernel state,
    existing process, execution context and request as the caller writes it: when the
    specification promises an outcome to this caller (`expectPy`: a get form, a set form with a
    valid value the caller is permitted to set, one of the listed invalid requests,
    `cpu_affinity([])`), the call yields exactly that result and leaves exactly that kernel (same
    per-process states, same log of changes). The only exclusion is the region of the finding
    `C18-huge-cpu-overflowerror` (a CPU number outside the C long range), and only for a
    configuration without the OverflowError branch. -/
theorem C18_refines_py (c : Cfg) (hg : c.Good) (hrep : c.einvalValueError = true) (k : Kernel) (pid : Nat)
    (st : PState) (x : Ctx) (r : PyReq) (o : Out) (k' : Kernel)
    (hpid : pid ≠ 0) (hst : k.procs pid = some st) (hwf : WF k st)
    (hreg : c.overflowValueError = true ∨ ¬ OverflowRegion r.erase)
    (hs : Spec.expectPy k pid st r = .promised o k') : stepPy c k pid x r = (o, k') := by
  unfold Spec.expectPy at hs
  split at hs
  · cases hs
  · cases hs
  · rename_i h1 h2
    rw [stepPy_alive c hst]
    by_cases hsz : r.Sized
    · rw [stepPyCore_sized c k pid x r hsz]
      exact refines_any_context c hg hrep k pid st x _ o k' hpid hst hwf hreg hs
    · -- an iterator that is not covered by the two silent cases: a non-empty iterator of CPUs
      cases r with
      | nice v => exact absurd trivial hsz
      | ionice a b => exact absurd trivial hsz
      | cpuAffinity cpus =>
        cases cpus with
        | none => exact absurd trivial hsz
        | some p =>
          obtain ⟨f, l⟩ := p
          have hf : f = .iterator := Classical.byContradiction fun hne => hsz hne
          subst hf
          have hl : l ≠ [] := fun hl => h1 (by rw [hl])
          rw [stepPyCore_iterator_nonempty c k pid x l hl]
          exact refines_any_context c hg hrep k pid st x _ o k' hpid hst hwf hreg hs
      | rlimit res l =>
        cases l with
        | none => exact absurd trivial hsz
        | some p =>
          obtain ⟨f, l⟩ := p
          have hf : f = .iterator := Classical.byContradiction fun hne => hsz hne
          subst hf
          exact absurd rfl (h2 res l)

/-- **C18_refines_code_py.** The refinement for the code as it is (`cfg`), outside the region of
    the known finding `C18-huge-cpu-overflowerror`. -/
theorem C18_refines_code_py (k : Kernel) (pid : Nat) (st : PState) (x : Ctx) (r : PyReq) (o : Out) (k' : Kernel)
    (hpid : pid ≠ 0) (hst : k.procs pid = some st) (hwf : WF k st) (hreg : ¬ OverflowRegion r.erase)
    (hs : Spec.expectPy k pid st r = .promised o k') : stepPy cfg k pid x r = (o, k') :=
  C18_refines_py cfg cfg_good cfg_einval_is_valueError k pid st x r o k' hpid hst hwf (Or.inr hreg) hs

/-! ### get reads the kernel (every execution context) -/

/-- `nice()` returns the kernel's value for EVERY nice value (−1, the error sentinel of
    getpriority(2), included) and EVERY value of errno on entry; needs no privilege -/
theorem C18_py_get_nice (c : Cfg) (hg : c.Good) (k : Kernel) (pid : Nat) (st : PState) (x : Ctx)
    (hpid : pid ≠ 0) (hst : k.procs pid = some st) :
    stepPy c k pid x (.nice none) = (.ok (.int st.nice), k) := by
  rw [stepPy_alive c hst]
  show niceGetX c k pid x.errnoIn = _
  rw [niceGetX_eq c hg]
  exact step_get_nice c k pid st hpid hst

/-- `ionice()` (ioprio_get(2) reports failure by −1 only); class 4..7 cannot be stored by the kernel -/
theorem C18_py_get_ionice (c : Cfg) (hg : c.Good) (k : Kernel) (pid : Nat) (st : PState) (x : Ctx)
    (hpid : pid ≠ 0) (hst : k.procs pid = some st) (hcls : st.ioprio / 8192 ≤ 3) :
    stepPy c k pid x (.ionice none none) = (.ok (.ionice (st.ioprio / 8192) (st.ioprio % 8192)), k) := by
  rw [stepPy_alive c hst]
  show ioniceGetX c k pid x.errnoIn = _
  rw [ioniceGetX_eq c hg]
  exact step_get_ionice c hg k pid st hpid hst hcls

/-- `cpu_affinity()`: the native getter with its sizing loop (first mask 64 CPUs, EINVAL → twice
    as many) returns the kernel's mask on every kernel with up to 1024 possible CPU ids -/
theorem C18_py_get_affinity (c : Cfg) (hg : c.Good) (k : Kernel) (pid : Nat) (st : PState) (x : Ctx)
    (hpid : pid ≠ 0) (hst : k.procs pid = some st) (hwf : WF k st) :
    stepPy c k pid x (.cpuAffinity none) = (.ok (.cpus st.affinity), k) := by
  rw [stepPy_alive c hst]
  show cpuAffinityX c k pid x none = _
  have h := step_get_affinity c hg k pid st hpid hst hwf
  simp only [step, cpuAffinity] at h
  simp only [cpuAffinityX, cextAffinityGetL_eq c hg k pid _ hwf.ncpu]
  exact h

/-- `rlimit(res)` for the caller's own processes (or with CAP_SYS_RESOURCE); the resource as int,
    enum member or bool -/
theorem C18_py_get_rlimit (c : Cfg) (hg : c.Good) (hrep : c.einvalValueError = true) (k : Kernel) (pid : Nat)
    (st : PState) (x : Ctx) (hpid : pid ≠ 0) (hst : k.procs pid = some st) (hwf : WF k st)
    (rs : Scalar) (res : Nat) (hrs : rs.val = res) (hres : res < 16) (s h : Int)
    (hperm : Spec.permitted k st (.rlimit res none) = true)
    (hs : Spec.limitToPy (st.rlimits res).1 = some s) (hh : Spec.limitToPy (st.rlimits res).2 = some h) :
    stepPy c k pid x (.rlimit rs none) = (.ok (.limits s h), k) := by
  apply C18_refines_py c hg hrep k pid st x _ _ _ hpid hst hwf
    (Or.inr (not_overflowRegion (fun _ e => by cases e)))
  rw [expectPy_rlimit_get, hrs, expectP_of_permitted hperm]
  have : (0 : Int) ≤ (res : Int) ∧ (res : Int) < 16 := by omega
  simp only [Spec.expect, this, and_self, if_true, Int.toNat_natCast, hs, hh]

/-! ### set, then get -/

/-- every nice value −20..19 the caller is permitted to set: the call succeeds, the kernel state of
    that process is the old one with exactly the nice value replaced, exactly one change is logged,
    and `nice()` — in any context — returns the value -/
theorem C18_py_set_then_get_nice (c : Cfg) (hg : c.Good) (hrep : c.einvalValueError = true) (k : Kernel)
    (pid : Nat) (st : PState) (x : Ctx) (v : Scalar) (hpid : pid ≠ 0) (hst : k.procs pid = some st)
    (hwf : WF k st) (hv : -20 ≤ v.val ∧ v.val ≤ 19)
    (hperm : Spec.permitted k st (.nice (some v.val)) = true) :
    ∃ k', stepPy c k pid x (.nice (some v)) = (.ok .none, k') ∧
      k'.procs pid = some { st with nice := v.val } ∧ k'.log = k.log ++ [.nice pid v.val] ∧
      ∀ x', stepPy c k' pid x' (.nice none) = (.ok (.int v.val), k') := by
  refine ⟨Spec.replaced k pid { st with nice := v.val } (.nice pid v.val), ?_, replaced_self _ _ _ _, rfl, ?_⟩
  · apply C18_refines_py c hg hrep k pid st x _ _ _ hpid hst hwf
      (Or.inr (not_overflowRegion (fun _ e => by cases e)))
    rw [expectPy_nice]
    show Spec.expectP k pid st (.nice (some v.val)) = _
    rw [expectP_of_permitted hperm]
    simp [Spec.expect, hv]
  · intro x'
    exact C18_py_get_nice c hg _ pid _ x' hpid (replaced_self _ _ _ _)

/-- every valid `ionice(ioclass, value)` (`ValidIonice`: RT/BE with a level 0..7 or none, NONE/IDLE
    without a level; class and level as int / `IOPRIO_CLASS_*` member / bool) the caller is permitted -/
theorem C18_py_set_then_get_ionice (c : Cfg) (hg : c.Good) (hrep : c.einvalValueError = true) (k : Kernel)
    (pid : Nat) (st : PState) (x : Ctx) (cls : Scalar) (value : Option Scalar) (hpid : pid ≠ 0)
    (hst : k.procs pid = some st) (hwf : WF k st) (hv : ValidIonice cls.val (value.map Scalar.val))
    (hperm : Spec.permitted k st (.ionice (some cls.val) (value.map Scalar.val)) = true) :
    ∃ k', stepPy c k pid x (.ionice (some cls) value) = (.ok .none, k') ∧
      k'.procs pid = some { st with ioprio := cls.val.toNat * 8192 + ((value.map Scalar.val).getD 0).toNat } ∧
      k'.log = k.log ++ [.ioprio pid (cls.val.toNat * 8192 + ((value.map Scalar.val).getD 0).toNat)] ∧
      ∀ x', stepPy c k' pid x' (.ionice none none) =
        (.ok (.ionice cls.val.toNat ((value.map Scalar.val).getD 0).toNat), k') := by
  generalize hvv : value.map Scalar.val = vv at hv hperm ⊢
  generalize hcc : cls.val = cc at hv hperm ⊢
  have h1 : 0 ≤ cc ∧ cc ≤ 3 := by unfold ValidIonice at hv; omega
  have h2 : ¬ (vv.getD 0 < 0 ∨ vv.getD 0 > 7) := by unfold ValidIonice at hv; omega
  have h3 : ¬ ((cc = 0 ∨ cc = 3) ∧ vv.getD 0 ≠ 0) := by unfold ValidIonice at hv; omega
  refine ⟨Spec.replaced k pid { st with ioprio := Spec.ioprioValue cc.toNat (vv.getD 0).toNat }
        (.ioprio pid (Spec.ioprioValue cc.toNat (vv.getD 0).toNat)), ?_, ?_, ?_, ?_⟩
  · apply C18_refines_py c hg hrep k pid st x _ _ _ hpid hst hwf
      (Or.inr (not_overflowRegion (fun _ e => by cases e)))
    rw [expectPy_ionice]
    show Spec.expectP k pid st (.ionice (some cls.val) (value.map Scalar.val)) = _
    rw [hvv, hcc, expectP_of_permitted hperm]
    simp only [Spec.expect, h2, if_false, h1, and_self, if_true, h3]
  · simp [Spec.replaced, Spec.ioprioValue]
  · simp [Spec.replaced, Spec.ioprioValue]
  · intro x'
    have hget := C18_py_get_ionice c hg
      (Spec.replaced k pid { st with ioprio := Spec.ioprioValue cc.toNat (vv.getD 0).toNat }
        (.ioprio pid (Spec.ioprioValue cc.toNat (vv.getD 0).toNat))) pid
      { st with ioprio := Spec.ioprioValue cc.toNat (vv.getD 0).toNat } x' hpid
      (replaced_self _ _ _ _) (by simp only [Spec.ioprioValue]; omega)
    have e1 : Spec.ioprioValue cc.toNat (vv.getD 0).toNat / 8192 = cc.toNat := by
      simp only [Spec.ioprioValue]; omega
    have e2 : Spec.ioprioValue cc.toNat (vv.getD 0).toNat % 8192 = (vv.getD 0).toNat := by
      simp only [Spec.ioprioValue]; omega
    simp only [e1, e2] at hget
    exact hget

/-- every non-empty list of eligible CPUs (`ValidCpus`; duplicates, any order; handed over as list,
    tuple, set, range or iterator) on a process the caller may change: the call succeeds, the mask
    of that process becomes exactly those CPUs (ascending `a` with the same members), one change is
    logged, and `cpu_affinity()` — in any context — returns `a` -/
theorem C18_py_set_then_get_affinity (c : Cfg) (hg : c.Good) (hrep : c.einvalValueError = true) (k : Kernel)
    (pid : Nat) (st : PState) (x : Ctx) (f : CpuForm) (cpus : List Int) (hpid : pid ≠ 0)
    (hst : k.procs pid = some st) (hwf : WF k st) (hv : ValidCpus k st cpus)
    (hperm : Spec.permitted k st (.cpuAffinity (some cpus)) = true) :
    ∃ k' a, stepPy c k pid x (.cpuAffinity (some (f, cpus))) = (.ok .none, k') ∧
      k'.procs pid = some { st with affinity := a } ∧ k'.log = k.log ++ [.affinity pid a] ∧
      Asc a ∧ (∀ y : Nat, y ∈ a ↔ (y : Int) ∈ cpus) ∧
      ∀ x', stepPy c k' pid x' (.cpuAffinity none) = (.ok (.cpus a), k') := by
  obtain ⟨hne, hall⟩ := hv
  have hemp : cpus.isEmpty = false := by
    cases cpus with
    | nil => exact absurd rfl hne
    | cons _ _ => rfl
  have hallb : (cpus.all fun y => decide (0 ≤ y) && (Spec.eligible k st).contains y.toNat) = true := by
    rw [List.all_eq_true]
    intro y hy
    obtain ⟨h0, h1, h2⟩ := hall y hy
    simp only [Bool.and_eq_true, decide_eq_true_eq, List.contains_iff_mem]
    exact ⟨h0, (mem_eligible k st _).2 ⟨h1, h2⟩⟩
  have hlong : AllLong cpus := by
    intro y hy
    obtain ⟨h0, h1, _⟩ := hall y hy
    have := hwf.ncpu
    simp only [fitsCLong, decide_eq_true_eq]; omega
  have hmem : ∀ y : Nat, y ∈ Spec.ascending k (cpus.map Int.toNat) ↔ (y : Int) ∈ cpus := by
    intro y
    simp only [Spec.ascending, List.mem_filter, List.mem_range, List.contains_iff_mem, List.mem_map]
    constructor
    · rintro ⟨_, z, hz, rfl⟩
      rw [Int.toNat_of_nonneg (hall z hz).1]; exact hz
    · intro hy
      have := hall _ hy
      exact ⟨by simpa using this.2.1, (y : Int), hy, by simp⟩
  have hwf' : WF (Spec.replaced k pid { st with affinity := Spec.ascending k (cpus.map Int.toNat) }
      (.affinity pid (Spec.ascending k (cpus.map Int.toNat))))
      { st with affinity := Spec.ascending k (cpus.map Int.toNat) } := by
    refine ⟨hwf.ncpu, asc_rangeFilter _ _, ?_, ?_, hwf.ioprio, hwf.rl, hwf.stat⟩
    · intro y hy
      have hy' := (hmem y).1 hy
      have := hall _ hy'
      show y < k.ncpu ∧ y ∈ st.cpuset
      simpa using this.2
    · cases hc : cpus with
      | nil => exact absurd hc hne
      | cons y rest =>
        have hy : y ∈ cpus := by simp [hc]
        have : y.toNat ∈ Spec.ascending k (cpus.map Int.toNat) :=
          (hmem _).2 (by rw [Int.toNat_of_nonneg (hall y hy).1]; exact hy)
        rw [hc] at this
        intro h
        simp only at h
        rw [h] at this; cases this
  refine ⟨Spec.replaced k pid { st with affinity := Spec.ascending k (cpus.map Int.toNat) }
      (.affinity pid (Spec.ascending k (cpus.map Int.toNat))), Spec.ascending k (cpus.map Int.toNat),
    ?_, replaced_self _ _ _ _, rfl, asc_rangeFilter _ _, hmem, ?_⟩
  · refine C18_refines_py c hg hrep k pid st x (.cpuAffinity (some (f, cpus))) _ _ hpid hst hwf
      (Or.inr (not_overflowRegion_long hlong)) ?_
    rw [expectPy_affinity_set k pid st f cpus (Or.inr hne), expectP_of_permitted hperm]
    simp only [Spec.expect, hemp, Bool.false_eq_true, if_false, hallb, if_true]
  · intro x'
    exact C18_py_get_affinity c hg _ pid _ x' hpid (replaced_self _ _ _ _) hwf'

/-- every pair of limits the statement quantifies over (`ValidLimits`: soft ≤ hard, values below
    2^63 or RLIM_INFINITY, which this caller is allowed to set: `fs.nr_open` for NOFILE, raising the
    hard limit needs CAP_SYS_RESOURCE), handed over as tuple or list, resource as int / enum / bool -/
theorem C18_py_set_then_get_rlimit (c : Cfg) (hg : c.Good) (hrep : c.einvalValueError = true) (k : Kernel)
    (pid : Nat) (st : PState) (x : Ctx) (rs : Scalar) (res : Nat) (f : LimForm) (s h : Int) (s' h' : Nat)
    (hpid : pid ≠ 0) (hst : k.procs pid = some st) (hwf : WF k st) (hrs : rs.val = res) (hf : f ≠ .iterator)
    (hv : ValidLimits k st res s h s' h')
    (hperm : Spec.permitted k st (.rlimit res none) = true) :
    ∃ k', stepPy c k pid x (.rlimit rs (some (f, [s, h]))) = (.ok .none, k') ∧
      k'.procs pid = some { st with rlimits := fun r => if r = res then (s', h') else st.rlimits r } ∧
      k'.log = k.log ++ [.rlimit pid res s' h'] ∧
      ∀ x', stepPy c k' pid x' (.rlimit rs none) = (.ok (.limits s h), k') := by
  obtain ⟨hr, hs, hh, hle, hno, hcap⟩ := hv
  have hres : (0 : Int) ≤ (res : Int) ∧ (res : Int) < 16 := by omega
  have hno' : ((res : Int) = 7 → h' ≤ k.nrOpen) := fun e => hno (by omega)
  have hperm' : Spec.permitted k st (.rlimit res (some [s, h])) = true := hperm
  refine ⟨Spec.replaced k pid { st with rlimits := fun r => if r = res then (s', h') else st.rlimits r }
      (.rlimit pid res s' h'), ?_, replaced_self _ _ _ _, rfl, ?_⟩
  · apply C18_refines_py c hg hrep k pid st x _ _ _ hpid hst hwf
      (Or.inr (not_overflowRegion (fun _ e => by cases f <;> cases e)))
    rw [expectPy_rlimit_set k pid st rs f _ hf, hrs, expectP_of_permitted hperm']
    simp only [Spec.expect, hres, and_self, if_true, hs, hh, Int.toNat_natCast]
    rw [if_pos ⟨hle, hno', hcap⟩]
  · intro x'
    have hwf' : WF (Spec.replaced k pid { st with rlimits := fun r => if r = res then (s', h') else st.rlimits r }
        (.rlimit pid res s' h')) { st with rlimits := fun r => if r = res then (s', h') else st.rlimits r } := by
      refine ⟨hwf.ncpu, hwf.asc, hwf.sub, hwf.ne, hwf.ioprio, ?_, hwf.stat⟩
      intro r
      show (if r = res then (s', h') else st.rlimits r).1 < _ ∧ (if r = res then (s', h') else st.rlimits r).2 < _
      split
      · exact ⟨limitOfPy_lt hs, limitOfPy_lt hh⟩
      · exact hwf.rl r
    refine C18_py_get_rlimit c hg hrep _ pid _ x' hpid (replaced_self _ _ _ _) hwf' rs res hrs hr s h hperm ?_ ?_
    · simp only [if_true]; exact limitToPy_limitOfPy hs
    · simp only [if_true]; exact limitToPy_limitOfPy hh

/-! ### nothing else changes -/

/-- no call — any request in any form, valid or not, any context, any configuration, any caller —
    changes the state of another process or a kernel parameter -/
theorem C18_py_others_unchanged (c : Cfg) (k : Kernel) (pid : Nat) (hpid : pid ≠ 0) (x : Ctx) (r : PyReq) :
    (∀ q, q ≠ pid → (stepPy c k pid x r).2.procs q = k.procs q) ∧
    (stepPy c k pid x r).2.ncpu = k.ncpu ∧ (stepPy c k pid x r).2.nrOpen = k.nrOpen ∧
    (stepPy c k pid x r).2.capResource = k.capResource ∧ (stepPy c k pid x r).2.capNice = k.capNice ∧
    (stepPy c k pid x r).2.self = k.self :=
  let f := frame_stepPy c k hpid x r
  ⟨f.others, f.ncpu, f.nrOpen, f.cap, f.capNice, f.self⟩

/-- **C18_exception_no_effect.** EVERY call that raises — whatever the request, the forms of its
    arguments, the configuration, the kernel, the caller's privileges, the context, valid or not,
    listed in the statement or not (privilege failures, overflowing ints, unknown classes, a
    vanished process …) — leaves the kernel exactly as it was: same state of every process, empty
    effect log. -/
theorem C18_exception_no_effect (c : Cfg) (k : Kernel) (pid : Nat) (x : Ctx) (r : PyReq) (e : Exc) (k' : Kernel)
    (h : stepPy c k pid x r = (.exc e, k')) : k' = k := by
  have := excKeeps_stepPy c k pid x r e (by rw [h])
  rw [h] at this
  exact this

/-! ### invalid requests: ValueError, nothing changes -/

/-- level outside 0..7 (WHATEVER the class); a level for the idle/none class; a level without a
    class; limits (tuple or list) that are not a pair: ValueError and the very same kernel — for
    every caller, privileged or not (the tests come before any system call), every argument form -/
theorem C18_py_invalid_ValueError_no_effect (c : Cfg) (hg : c.Good) (k : Kernel) (pid : Nat) (st : PState)
    (x : Ctx) (hpid : pid ≠ 0) (hst : k.procs pid = some st) :
    (∀ (cls : Scalar) (value : Option Scalar),
      ((value.map Scalar.val).getD 0 < 0 ∨ (value.map Scalar.val).getD 0 > 7) →
      stepPy c k pid x (.ionice (some cls) value) = (.exc .valueError, k)) ∧
    (∀ (cls : Scalar) (value : Option Scalar), (cls.val = 0 ∨ cls.val = 3) → (value.map Scalar.val).getD 0 ≠ 0 →
      stepPy c k pid x (.ionice (some cls) value) = (.exc .valueError, k)) ∧
    (∀ value : Scalar, stepPy c k pid x (.ionice none (some value)) = (.exc .valueError, k)) ∧
    (∀ (res : Scalar) (f : LimForm) (limits : List Int), f ≠ .iterator → limits.length ≠ 2 →
      stepPy c k pid x (.rlimit res (some (f, limits))) = (.exc .valueError, k)) := by
  refine ⟨fun cls value h => ?_, fun cls value h1 h2 => ?_, fun value => ?_, fun res f limits hf h => ?_⟩
  · rw [stepPy_alive c hst]
    show ioniceSetX c k pid cls.val (value.map Scalar.val) = _
    simp only [ioniceSetX, hg.dflt, hg.lo, hg.hi, hg.noval]
    split
    · rfl
    · first | rfl | rw [if_pos h]
  · rw [stepPy_alive c hst]
    show ioniceSetX c k pid cls.val (value.map Scalar.val) = _
    simp only [ioniceSetX, hg.dflt, hg.lo, hg.hi, hg.noval]
    rw [if_pos ⟨h2, (noval_contains _).2 h1⟩]
  · rw [stepPy_alive c hst]
    show stepX c k pid x (.ionice none (some value.val)) = _
    simp [stepX, hg.vwc]
  · rw [stepPy_alive c hst, stepPyCore_sized c k pid x (.rlimit res (some (f, limits))) hf]
    show rlimitLX c k pid res.val (some limits) = _
    simp only [rlimitLX, hpid, false_and, if_false, hg.pair]
    rw [if_pos h]

/-- the statement about CPU lists at full strength: a non-empty list naming only CPUs that do not
    exist or that the process may not use (ANY ints, in any form), on a process the caller may
    change, raises ValueError and changes nothing — in every context -/
def C18_invalid_cpus_Full (c : Cfg) : Prop :=
  ∀ (k : Kernel) (pid : Nat) (st : PState) (f : CpuForm) (cpus : List Int) (x : Ctx), pid ≠ 0 →
    k.procs pid = some st → WF k st → Spec.permitted k st (.cpuAffinity (some cpus)) = true →
    OnlyUnusableAny k st cpus → stepPy c k pid x (.cpuAffinity (some (f, cpus))) = (.exc .valueError, k)

/-- with the OverflowError branch of `fixes/C18-affinity-overflow-valueerror.diff` (fact
    `affinityOverflowRaisesValueError`) the full statement holds -/
theorem C18_invalid_cpus_repaired (c : Cfg) (hg : c.Good) (hrep : c.einvalValueError = true)
    (hov : c.overflowValueError = true) : C18_invalid_cpus_Full c := by
  intro k pid st f cpus x hpid hst hwf hperm h
  refine C18_refines_py c hg hrep k pid st x (.cpuAffinity (some (f, cpus))) _ _ hpid hst hwf (Or.inl hov) ?_
  rw [expectPy_affinity_set k pid st f cpus (Or.inr h.1), expectP_of_permitted hperm]
  exact expect_of_onlyUnusableAny pid h

/-- the code as it is: the statement holds for every such list whose numbers fit a C long
    (`_partial`: the rest is the known finding `C18-huge-cpu-overflowerror`) -/
theorem C18_py_invalid_cpus_partial (c : Cfg) (hg : c.Good) (hrep : c.einvalValueError = true) (k : Kernel)
    (pid : Nat) (st : PState) (f : CpuForm) (cpus : List Int) (x : Ctx) (hpid : pid ≠ 0)
    (hst : k.procs pid = some st) (hwf : WF k st)
    (hperm : Spec.permitted k st (.cpuAffinity (some cpus)) = true)
    (h : OnlyUnusableAny k st cpus) (hl : AllLong cpus) :
    stepPy c k pid x (.cpuAffinity (some (f, cpus))) = (.exc .valueError, k) := by
  refine C18_refines_py c hg hrep k pid st x (.cpuAffinity (some (f, cpus))) _ _ hpid hst hwf
    (Or.inr (not_overflowRegion_long hl)) ?_
  rw [expectPy_affinity_set k pid st f cpus (Or.inr h.1), expectP_of_permitted hperm]
  exact expect_of_onlyUnusableAny pid h

/-- the source as found (fact `affinityOverflowRaisesValueError = false`): `cpu_affinity_set` catches
    `(OSError, ValueError)` only -/
def cfgOverflowUncaught : Cfg := { cfg with overflowValueError := false }

/-- the full statement is false of the source as found before /repo 90c3e72 (defect `C18-huge-cpu-overflowerror`, fixed):
    `cpu_affinity([2**63])` names only a nonexistent CPU and raises OverflowError, not ValueError -/
theorem C18_invalid_cpus_counterexample : ¬ C18_invalid_cpus_Full cfgOverflowUncaught := by
  intro h
  have := h kWitness 7 stWitness CpuForm.list [9223372036854775808] ⟨0, none⟩ (by decide) rfl wf_witness rfl
    ⟨by decide, by decide⟩
  have h2 : (stepPy cfgOverflowUncaught kWitness 7 ⟨0, none⟩ (.cpuAffinity (some (.list, [9223372036854775808])))).1 =
      .exc .overflowError := by decide
  rw [this] at h2
  cases h2

/- `fixes/C18-affinity-overflow-valueerror.diff` has landed as /repo 90c3e72: the obligation on the
   translator's fact and the full statement / the refinement without any excluded region for the code as it is -/

theorem cfg_overflow_is_valueError : cfg.overflowValueError = true := by decide

theorem C18_invalid_cpus : C18_invalid_cpus_Full cfg :=
  C18_invalid_cpus_repaired cfg cfg_good cfg_einval_is_valueError cfg_overflow_is_valueError

theorem C18_refines_code_py_full (k : Kernel) (pid : Nat) (st : PState) (x : Ctx) (r : PyReq) (o : Out) (k' : Kernel)
    (hpid : pid ≠ 0) (hst : k.procs pid = some st) (hwf : WF k st)
    (hs : Spec.expectPy k pid st r = .promised o k') : stepPy cfg k pid x r = (o, k') :=
  C18_refines_py cfg cfg_good cfg_einval_is_valueError k pid st x r o k' hpid hst hwf
    (Or.inl cfg_overflow_is_valueError) hs

/-- … whatever happens there, nothing changes and the exception is one of the two -/
theorem C18_huge_cpu_raises (c : Cfg) (k : Kernel) (pid : Nat) (st : PState) (x : Ctx) (f : CpuForm)
    (cpus : List Int) (hst : k.procs pid = some st) (hstat : k.statCpus ≤ 1024) (hnl : ¬ AllLong cpus)
    (hf : f ≠ .iterator) :
    (stepPy c k pid x (.cpuAffinity (some (f, cpus)))).2 = k ∧
    (c.overflowValueError = true → (stepPy c k pid x (.cpuAffinity (some (f, cpus)))).1 = .exc .valueError) := by
  rw [stepPy_alive c hst, stepPyCore_sized c k pid x (.cpuAffinity (some (f, cpus))) hf]
  show (stepX c k pid x (.cpuAffinity (some cpus))).2 = k ∧
    (c.overflowValueError = true → (stepX c k pid x (.cpuAffinity (some cpus))).1 = .exc .valueError)
  have hemp : cpus.isEmpty = false := by
    cases cpus with
    | nil => exact absurd (fun v hv => by cases hv) hnl
    | cons _ _ => rfl
  have hnl' : ¬ AllLong (dedup c cpus) := fun h => hnl (fun v hv => h v ((mem_dedup c cpus v).2 hv))
  obtain ⟨e, he, hor⟩ := cpuSetOfSeq_notLong hnl'
  refine ⟨?_, fun hov => by rw [stepX_overflow_caught c hov k pid st x cpus hst hstat hnl]⟩
  have hx := excKeeps_stepX c k pid x (.cpuAffinity (some cpus))
  cases hr : (stepX c k pid x (.cpuAffinity (some cpus))).1 with
  | exc e' => exact hx e' hr
  | ok v =>
    exfalso
    simp only [stepX, cpuAffinityX, hemp, Bool.false_eq_true, if_false, cpuAffinitySetP, cextAffinitySetP, he] at hr
    split at hr
    · split at hr
      · cases hr
      · split at hr
        · cases hr
        · split at hr <;> cases hr
    · cases hr

/-! ### `cpu_affinity([])` -/

/-- the empty list / tuple / set / range selects ALL eligible CPUs (every possible CPU id of the
    process's cpuset, also ids beyond the number of `cpuN` lines of `/proc/stat`), whatever the
    current mask, in every context; afterwards `cpu_affinity()` returns them -/
theorem C18_py_empty_selects_all_eligible (c : Cfg) (hg : c.Good) (hrep : c.einvalValueError = true) (k : Kernel)
    (pid : Nat) (st : PState) (x : Ctx) (f : CpuForm) (hf : f ≠ .iterator) (hpid : pid ≠ 0)
    (hst : k.procs pid = some st) (hwf : WF k st)
    (hperm : Spec.permitted k st (.cpuAffinity (some [])) = true) :
    ∃ k', stepPy c k pid x (.cpuAffinity (some (f, []))) = (.ok .none, k') ∧
      k'.procs pid = some { st with affinity := Spec.eligible k st } ∧
      k'.log = k.log ++ [.affinity pid (Spec.eligible k st)] ∧
      (∀ y, y ∈ Spec.eligible k st ↔ y < k.ncpu ∧ y ∈ st.cpuset) ∧
      ∀ x', stepPy c k' pid x' (.cpuAffinity none) = (.ok (.cpus (Spec.eligible k st)), k') := by
  refine ⟨Spec.replaced k pid { st with affinity := Spec.eligible k st } (.affinity pid (Spec.eligible k st)),
    ?_, replaced_self _ _ _ _, rfl, mem_eligible k st, ?_⟩
  · refine C18_refines_py c hg hrep k pid st x (.cpuAffinity (some (f, []))) _ _ hpid hst hwf
      (Or.inr (not_overflowRegion_long (fun v hv => by cases hv))) ?_
    rw [expectPy_affinity_set k pid st f [] (Or.inl hf), expectP_of_permitted hperm]
    rfl
  · intro x'
    have hwf' : WF (Spec.replaced k pid { st with affinity := Spec.eligible k st } (.affinity pid (Spec.eligible k st)))
        { st with affinity := Spec.eligible k st } :=
      ⟨hwf.ncpu, asc_rangeFilter _ _, fun y hy => (mem_eligible k st y).1 hy, eligible_ne_nil hwf, hwf.ioprio,
        hwf.rl, hwf.stat⟩
    exact C18_py_get_affinity c hg _ pid _ x' hpid (replaced_self _ _ _ _) hwf'

/-! ### the arguments as Python objects (enum members, bools, tuples / sets / ranges / iterators) -/

/-- Whether an argument is a plain int, a member of an `IntEnum` (`IOPRIO_CLASS_*`, a resource
    wrapped in an enum) or a bool, and whether the CPUs / limits come as a list, tuple, set or range:
    the call gives the same answer and the same kernel as with the bare values — for every
    configuration, kernel, existing process, context. -/
theorem C18_arg_form_irrelevant (c : Cfg) (k : Kernel) (pid : Nat) (st : PState) (x : Ctx) (r : PyReq)
    (hst : k.procs pid = some st) (h : r.Sized) : stepPy c k pid x r = stepX c k pid x r.erase := by
  rw [stepPy_alive c hst, stepPyCore_sized c k pid x r h]

/-- … and two requests that differ only in the forms of their arguments have the same effect
    (process existing or not) -/
theorem C18_same_values_same_effect (c : Cfg) (k : Kernel) (pid : Nat) (x : Ctx) (r r' : PyReq)
    (h : r.Sized) (h' : r'.Sized) (he : r.erase = r'.erase) : stepPy c k pid x r = stepPy c k pid x r' := by
  simp only [stepPy, goneGuard, isSet_erase he, stepPyCore_sized c k pid x r h, stepPyCore_sized c k pid x r' h', he]

/-- a non-exhausted iterator of CPUs is as good as the list of what it yields -/
theorem C18_cpu_iterator (c : Cfg) (k : Kernel) (pid : Nat) (st : PState) (x : Ctx) (l : List Int)
    (hst : k.procs pid = some st) (h : l ≠ []) :
    stepPy c k pid x (.cpuAffinity (some (.iterator, l))) = stepPy c k pid x (.cpuAffinity (some (.list, l))) := by
  rw [stepPy_alive c hst, stepPy_alive c hst, stepPyCore_iterator_nonempty c k pid x l h]
  rfl

/-- Characterisation, OUTSIDE the statement (it names `cpu_affinity([])`, the empty list): an
    EXHAUSTED ITERATOR is truthy, so the front end's `if not cpus` does not fire, the platform layer
    receives an empty list, the kernel refuses the empty mask, and a caller permitted to change the
    process gets ValueError — the mask is NOT reset to all eligible CPUs, nothing changes. -/
theorem C18_empty_iterator_is_refused (c : Cfg) (hg : c.Good) (hrep : c.einvalValueError = true) (k : Kernel)
    (pid : Nat) (st : PState) (x : Ctx) (hpid : pid ≠ 0) (hst : k.procs pid = some st)
    (hperm : Spec.permitted k st (.cpuAffinity (some [])) = true) :
    stepPy c k pid x (.cpuAffinity (some (.iterator, []))) = (.exc .valueError, k) := by
  obtain ⟨el, hel⟩ := eligX_some hst x.statusMask
  have hp := permAffinity_none hpid hst (by simpa [Spec.permitted] using hperm)
  rw [stepPy_alive c hst]
  simp only [stepPyCore, hel, dedup_nil]
  rw [cpuAffinitySetP_eq_With c _ k pid [] hg.setChecks.2.2 hp (Or.inr (fun v hv => by cases hv)), hrep]
  exact cpuAffinitySetWith_refused el k pid [] (Or.inr (cextAffinitySet_nil k pid st hpid hst))

/-- Characterisation, outside the statement: limits given as an iterator — `len(limits)` raises
    TypeError before the kernel is asked anything -/
theorem C18_limits_iterator_TypeError (c : Cfg) (k : Kernel) (pid : Nat) (st : PState) (x : Ctx) (res : Scalar)
    (l : List Int) (hpid : pid ≠ 0) (hst : k.procs pid = some st) :
    stepPy c k pid x (.rlimit res (some (.iterator, l))) = (.exc .typeError, k) := by
  rw [stepPy_alive c hst]
  simp [stepPyCore, hpid]

/-! ### a vanished process; PID 0 -/

/-- a vanished process: every get form answers NoSuchProcess (the kernel's ESRCH through
    `wrap_exceptions`), every set form — valid or not — answers NoSuchProcess before its arguments
    are looked at (the guard), a level without a class is still a ValueError; nothing changes -/
theorem C18_gone_process (c : Cfg) (hg : c.Good) (k : Kernel) (pid : Nat) (x : Ctx) (hpid : pid ≠ 0)
    (hgone : k.procs pid = none) (hn : k.ncpu ≤ 1024) :
    stepPy c k pid x (.nice none) = (.exc (.noSuchProcess pid), k) ∧
    stepPy c k pid x (.ionice none none) = (.exc (.noSuchProcess pid), k) ∧
    stepPy c k pid x (.cpuAffinity none) = (.exc (.noSuchProcess pid), k) ∧
    (∀ res : Scalar, fitsCInt res.val = true → 0 ≤ res.val ∧ res.val < 16 →
      stepPy c k pid x (.rlimit res none) = (.exc (.noSuchProcess pid), k)) ∧
    (∀ v : Scalar, stepPy c k pid x (.ionice none (some v)) = (.exc .valueError, k)) ∧
    (∀ r : PyReq, r.isSet = true → stepPy c k pid x r = (.exc (.noSuchProcess pid), k)) := by
  have hr := resolve_pid k hpid
  have hguard : ∀ r : PyReq, r.isSet = false → stepPy c k pid x r = stepPyCore c k pid x r := by
    intro r h; simp [stepPy, goneGuard, h]
  refine ⟨?_, ?_, ?_, ?_, ?_, ?_⟩
  · rw [hguard _ rfl]
    show niceGetX c k pid x.errnoIn = _
    rw [niceGetX_eq c hg]
    simp [niceGet, cextGetpriority, sysGetpriority, hr, hgone, ofSys, wrapExc]
  · rw [hguard _ rfl]
    show ioniceGetX c k pid x.errnoIn = _
    rw [ioniceGetX_eq c hg]
    simp [ioniceGet, cextIoprioGet, sysIoprioGet, hr, hgone, wrapExc]
  · rw [hguard _ rfl]
    show cpuAffinityX c k pid x none = _
    simp only [cpuAffinityX, cextAffinityGetL_eq c hg k pid _ hn]
    simp [cextAffinityGet, sysSchedGetaffinity, hr, hgone, ofSys, wrapExc]
  · intro res hfit hres
    rw [hguard _ rfl]
    show rlimitLX c k pid res.val none = _
    have h2 : ¬ (res.val < 0 ∨ res.val ≥ 16) := by omega
    simp [rlimitLX, hpid, pyPrlimitGetP, resourceCheck, hfit, h2, sysPrlimitGetP, permPrlimit_gone hpid hgone,
      sysPrlimitGet, hr, hgone, wrapExc]
  · intro v
    rw [hguard _ rfl]
    show stepX c k pid x (.ionice none (some v.val)) = _
    simp [stepX, hg.vwc]
  · intro r h
    simp [stepPy, goneGuard, h, hpid, hgone]

/-- `rlimit` never reaches the kernel for PID 0 (where `prlimit` would act on the caller) -/
theorem C18_rlimit_pid0_refused (c : Cfg) (hg : c.Good) (k : Kernel) (x : Ctx) (res : Scalar)
    (l : Option (LimForm × List Int)) : stepPy c k 0 x (.rlimit res l) = (.exc .valueError, k) := by
  have hgd : goneGuard k 0 (.rlimit res l) = false := by simp [goneGuard]
  simp only [stepPy, hgd, Bool.false_eq_true, if_false]
  cases l with
  | none => simp [stepPyCore, PyReq.erase, stepX, rlimitLX, hg.pid0]
  | some p =>
    obtain ⟨f, l⟩ := p
    cases f <;> simp [stepPyCore, PyReq.erase, stepX, rlimitLX, hg.pid0]

/-- why the other theorems assume `pid ≠ 0`: for the kernel PID 0 is the caller -/
theorem C18_pid0_is_the_caller :
    ((stepPy cfg { kWitness with self := 7 } 0 ⟨0, none⟩ (.nice (some (.int 5)))).2.procs 7).map (·.nice) = some 5 := by
  decide

/-! ### who is calling, and which process each system call is addressed to (seeded round 5)

  "… for that process … while every other process is unchanged": the process is the one the
  `Process` object was made for, whoever makes the call. Every attribute can also be reached
  through primitives that act on the CALLING process (`who = 0`; `os.nice`,
  `resource.getrlimit/setrlimit`), and a short cut "the target is me" needs to know who "me" is:
  a pid remembered at import time or when the object was made is no longer the caller's after a
  `fork()`. `stepPyW c rt o` (Model/C18Who.lean) is the call made by process `k.self` of a program
  whose module was imported by `o.importPid` and whose object was created by `o.createPid`, with the
  system calls addressed as `rt` says; `routing` is what the translator extracts from the source
  (every call of a process-addressed primitive in the front end and in `_pslinux.Process`, its pid
  argument and the `self.pid == …` tests guarding it). The driver runs `stepPyW cfg routing`. -/

/-- proof obligation on the translator's facts `addr*`: every get and set form hands `self.pid` to
    every process primitive it calls -/
theorem cfg_routing_direct : routing = Routing.direct := by decide

/-- **C18_any_caller_refines.** The refinement for EVERY calling process (`k.self`: the target
    itself, its parent, its forked child, a stranger) and EVERY pair of remembered pids (a program
    that forked any number of times between import, object creation and the call): whatever the
    specification promises about process `pid`, the call yields exactly that result and that
    kernel — the specification never looks at who calls. -/
theorem C18_any_caller_refines (c : Cfg) (hg : c.Good) (hrep : c.einvalValueError = true) (og : Origin)
    (k : Kernel) (pid : Nat) (st : PState) (x : Ctx) (r : PyReq) (o : Out) (k' : Kernel)
    (hpid : pid ≠ 0) (hst : k.procs pid = some st) (hwf : WF k st)
    (hreg : c.overflowValueError = true ∨ ¬ OverflowRegion r.erase)
    (hs : Spec.expectPy k pid st r = .promised o k') : stepPyW c Routing.direct og k pid x r = (o, k') := by
  rw [stepPyW_direct]
  exact C18_refines_py c hg hrep k pid st x r o k' hpid hst hwf hreg hs

/-- the same for the code as it is: `stepPyW cfg routing` is what the driver runs -/
theorem C18_any_caller_refines_code (og : Origin) (k : Kernel) (pid : Nat) (st : PState) (x : Ctx) (r : PyReq)
    (o : Out) (k' : Kernel) (hpid : pid ≠ 0) (hst : k.procs pid = some st) (hwf : WF k st)
    (hs : Spec.expectPy k pid st r = .promised o k') : stepPyW cfg routing og k pid x r = (o, k') := by
  rw [cfg_routing_direct]
  exact C18_any_caller_refines cfg cfg_good cfg_einval_is_valueError og k pid st x r o k' hpid hst hwf
    (Or.inl cfg_overflow_is_valueError) hs

/-- **C18_set_reaches_exactly_that_process.** "… exactly that value for that process while every
    other process is unchanged", with the caller and the program's fork history as dimensions: for
    every caller, every remembered pids and every request, no process other than `pid` — in
    particular not the CALLER (`k.self ≠ pid`), not the importing process — changes; and a
    rlimit / nice / ionice / cpu_affinity set that the specification promises shows its value in
    the kernel state of `pid` and is read back by the get form whatever pids the program remembers
    (`C18_py_get_rlimit` quantifies over every kernel, hence over every later caller). -/
theorem C18_set_reaches_exactly_that_process (c : Cfg) (hg : c.Good) (hrep : c.einvalValueError = true)
    (og : Origin) (k : Kernel) (pid : Nat) (hpid : pid ≠ 0) (x : Ctx) (r : PyReq) :
    (∀ q, q ≠ pid → (stepPyW c Routing.direct og k pid x r).2.procs q = k.procs q) ∧
    (k.self ≠ pid → (stepPyW c Routing.direct og k pid x r).2.procs k.self = k.procs k.self) ∧
    (og.importPid ≠ pid → (stepPyW c Routing.direct og k pid x r).2.procs og.importPid = k.procs og.importPid) ∧
    (∀ (st : PState) (rs : Scalar) (res : Nat) (f : LimForm) (s h : Int) (s' h' : Nat),
      k.procs pid = some st → WF k st → rs.val = res → f ≠ .iterator → ValidLimits k st res s h s' h' →
      Spec.permitted k st (.rlimit res none) = true → r = .rlimit rs (some (f, [s, h])) →
      ∃ k', stepPyW c Routing.direct og k pid x r = (.ok .none, k') ∧
        k'.procs pid = some { st with rlimits := fun r => if r = res then (s', h') else st.rlimits r } ∧
        ∀ (og' : Origin) (x' : Ctx),
          stepPyW c Routing.direct og' k' pid x' (.rlimit rs none) = (.ok (.limits s h), k')) := by
  have hf := frame_stepPy c k hpid x r
  refine ⟨?_, ?_, ?_, ?_⟩
  · intro q hq; rw [stepPyW_direct]; exact hf.others q hq
  · intro hq; rw [stepPyW_direct]; exact hf.others _ hq
  · intro hq; rw [stepPyW_direct]; exact hf.others _ hq
  · intro st rs res f s h s' h' hst hwf hrs hfi hv hperm hr
    subst hr
    obtain ⟨k', h1, h2, _, h4⟩ :=
      C18_py_set_then_get_rlimit c hg hrep k pid st x rs res f s h s' h' hpid hst hwf hrs hfi hv hperm
    refine ⟨k', by rw [stepPyW_direct]; exact h1, h2, ?_⟩
    intro og' x'
    rw [stepPyW_direct]
    exact h4 x'

/-- the program of the seeded change C18-5: the module was imported by process 7, which forked;
    the child 9 makes the calls on its parent -/
def kFork : Kernel :=
  { procs := fun q =>
      if q = 7 then some { nice := 0, ioprio := 0, affinity := [0, 1], cpuset := [0, 1], rlimits := fun _ => (100, 200) }
      else if q = 9 then some { nice := 0, ioprio := 0, affinity := [0, 1], cpuset := [0, 1], rlimits := fun _ => (100, 200) }
      else none
    self := 9, ncpu := 4, nrOpen := 1048576, capResource := true, log := [] }

/-- `rlimit` set through the caller's own `setrlimit()` when `self.pid ==` a pid remembered at import -/
def rtImportShortcut : Routing := { Routing.direct with rlimitSet := .callerIf .atImport }

/-- **why a remembered pid must not decide** (seeded C18-5 and its relatives). Forked child 9 of
    importer 7 sets RLIMIT_NOFILE of its parent: with the short cut keyed on the import-time pid the
    call "succeeds", the parent keeps (100, 200) and the CHILD gets (50, 200) — the specification
    promises the opposite; in the process that imported the module the same routing is harmless
    (which is why no single-process test sees it); the same for a pid remembered on the object when
    the object crosses a fork (`nice`), and for an unconditional caller primitive (`cpu_affinity`,
    `ionice`); a short cut keyed on `os.getpid()` evaluated in the call is right in both. -/
theorem C18_remembered_pid_shortcut_counterexample :
    -- the child, import-time short cut
    (stepPyW cfg rtImportShortcut ⟨7, 9⟩ kFork 7 ⟨0, none⟩ (.rlimit (.int 7) (some (.tuple, [50, 200])))).1 = .ok .none ∧
    ((stepPyW cfg rtImportShortcut ⟨7, 9⟩ kFork 7 ⟨0, none⟩ (.rlimit (.int 7) (some (.tuple, [50, 200])))).2.procs 7).map
      (fun st => st.rlimits 7) = some (100, 200) ∧
    ((stepPyW cfg rtImportShortcut ⟨7, 9⟩ kFork 7 ⟨0, none⟩ (.rlimit (.int 7) (some (.tuple, [50, 200])))).2.procs 9).map
      (fun st => st.rlimits 7) = some (50, 200) ∧
    -- what the code as it is does
    ((stepPyW cfg routing ⟨7, 9⟩ kFork 7 ⟨0, none⟩ (.rlimit (.int 7) (some (.tuple, [50, 200])))).2.procs 7).map
      (fun st => st.rlimits 7) = some (50, 200) ∧
    ((stepPyW cfg routing ⟨7, 9⟩ kFork 7 ⟨0, none⟩ (.rlimit (.int 7) (some (.tuple, [50, 200])))).2.procs 9).map
      (fun st => st.rlimits 7) = some (100, 200) ∧
    -- the importing process itself (no fork): the short cut is invisible
    ((stepPyW cfg rtImportShortcut ⟨7, 7⟩ { kFork with self := 7 } 7 ⟨0, none⟩
      (.rlimit (.int 7) (some (.tuple, [50, 200])))).2.procs 7).map (fun st => st.rlimits 7) = some (50, 200) ∧
    -- a pid remembered on the object, the object made before the fork: nice lands on the child
    ((stepPyW cfg { Routing.direct with niceSet := .callerIf .atCreate } ⟨7, 7⟩ kFork 7 ⟨0, none⟩
      (.nice (some (.int 5)))).2.procs 9).map (·.nice) = some 5 ∧
    ((stepPyW cfg { Routing.direct with niceSet := .callerIf .atCreate } ⟨7, 7⟩ kFork 7 ⟨0, none⟩
      (.nice (some (.int 5)))).2.procs 7).map (·.nice) = some 0 ∧
    -- an unconditional caller primitive
    ((stepPyW cfg { Routing.direct with affSet := .caller } ⟨7, 9⟩ kFork 7 ⟨0, none⟩
      (.cpuAffinity (some (.list, [1])))).2.procs 7).map (·.affinity) = some [0, 1] ∧
    (stepPyW cfg { Routing.direct with ioniceGet := .caller } ⟨7, 9⟩
      { kFork with procs := fun q => if q = 9 then some { nice := 0, ioprio := 16388, affinity := [0], cpuset := [0],
                                                             rlimits := fun _ => (0, 0) } else kFork.procs q }
      7 ⟨0, none⟩ (.ionice none none)).1 = .ok (.ionice 2 4) ∧
    -- keyed on os.getpid() in the call: right for the child and for the importer
    ((stepPyW cfg { Routing.direct with rlimitSet := .callerIf .now } ⟨7, 9⟩ kFork 7 ⟨0, none⟩
      (.rlimit (.int 7) (some (.tuple, [50, 200])))).2.procs 7).map (fun st => st.rlimits 7) = some (50, 200) := by
  decide

/-! #### seeded round 5 (change C01-7): the magnitude of a CPU number, the width it is held in -/

/-- **proof obligation**: the native setter holds a CPU number in a C long from `PyLong_AsLong` to
    `CPU_SET` (no narrower variable, no narrowing cast) -/
theorem cfg_cpu_number_held_as_long : cpuNumBits = 64 := by decide

/-- **C18_any_cpu_number_refines.** The refinement with the magnitude of the CPU numbers as a
    dimension: `stepPyN cpuNumBits cfg routing` — what the driver runs, the native loop seeing each
    number as the C variable holds it — yields exactly what the specification promises, for CPU
    lists of ints of ANY magnitude (the specification reads a CPU number as the integer it is). -/
theorem C18_any_cpu_number_refines (og : Origin) (k : Kernel) (pid : Nat) (st : PState) (x : Ctx) (r : PyReq)
    (o : Out) (k' : Kernel) (hpid : pid ≠ 0) (hst : k.procs pid = some st) (hwf : WF k st)
    (hs : Spec.expectPy k pid st r = .promised o k') : stepPyN cpuNumBits cfg routing og k pid x r = (o, k') := by
  rw [cfg_cpu_number_held_as_long, stepPyN_long]
  exact C18_any_caller_refines_code og k pid st x r o k' hpid hst hwf hs

/-- **C18_unusable_cpu_numbers_any_magnitude.** "A CPU list naming only nonexistent or ineligible
    CPUs raises ValueError and changes nothing" for numbers of every magnitude — `2^32 + 3`,
    `2^40`, `-2^32`, beyond the C long — in every list form, context, caller: no such number is ever
    taken for a CPU that exists. -/
theorem C18_unusable_cpu_numbers_any_magnitude (og : Origin) (k : Kernel) (pid : Nat) (st : PState) (f : CpuForm)
    (cpus : List Int) (x : Ctx) (hpid : pid ≠ 0) (hst : k.procs pid = some st) (hwf : WF k st)
    (hperm : Spec.permitted k st (.cpuAffinity (some cpus)) = true) (h : OnlyUnusableAny k st cpus) :
    stepPyN cpuNumBits cfg routing og k pid x (.cpuAffinity (some (f, cpus))) = (.exc .valueError, k) := by
  refine C18_any_cpu_number_refines og k pid st x (.cpuAffinity (some (f, cpus))) _ _ hpid hst hwf ?_
  rw [expectPy_affinity_set k pid st f cpus (Or.inr h.1), expectP_of_permitted hperm]
  exact expect_of_onlyUnusableAny pid h

/-- **C18_valid_cpus_exactly_that.** … and a list of eligible CPUs is
    installed exactly (the promise for valid values, restated for what the driver runs). -/
theorem C18_valid_cpus_exactly_that (og : Origin) (k : Kernel) (pid : Nat) (st : PState) (x : Ctx) (r : PyReq)
    (o : Out) (k' : Kernel) (hpid : pid ≠ 0) (hst : k.procs pid = some st) (hwf : WF k st)
    (hs : Spec.expectPy k pid st r = .promised o k') :
    (stepPyN cpuNumBits cfg routing og k pid x r).1 = o ∧ (stepPyN cpuNumBits cfg routing og k pid x r).2 = k' := by
  rw [C18_any_cpu_number_refines og k pid st x r o k' hpid hst hwf hs]
  exact ⟨rfl, rfl⟩

/-- **why the width matters** (seeded C01-7 and its relatives). Process 7 of `kWitness` (4 CPUs,
    confined to CPUs 0-1, currently on CPU 0). Held in a 32-bit int, `2^32 + 1` — no CPU at all —
    becomes CPU 1: the call "succeeds" and the process moves to CPU 1, where the property promises
    ValueError and no change (which is what the code as it is does); mixed with a real CPU it adds
    a CPU nobody asked for; `2^32 - 1` becomes the `-1` of "invalid CPU value"; a 10-bit wrap
    (`number % 1024`) does the same with `1025`; numbers below `2^31` behave alike in both, which
    is why no test with ordinary CPU numbers sees the difference. -/
theorem C18_narrow_cpu_number_counterexample :
    (stepPyN 32 cfg routing ⟨1, 1⟩ kWitness 7 ⟨0, none⟩ (.cpuAffinity (some (.list, [4294967297])))).1 = .ok .none ∧
    ((stepPyN 32 cfg routing ⟨1, 1⟩ kWitness 7 ⟨0, none⟩ (.cpuAffinity (some (.list, [4294967297])))).2.procs 7).map
      (·.affinity) = some [1] ∧
    -- the code as it is
    (stepPyN cpuNumBits cfg routing ⟨1, 1⟩ kWitness 7 ⟨0, none⟩ (.cpuAffinity (some (.list, [4294967297])))).1 =
      .exc .valueError ∧
    ((stepPyN cpuNumBits cfg routing ⟨1, 1⟩ kWitness 7 ⟨0, none⟩ (.cpuAffinity (some (.list, [4294967297])))).2.procs 7).map
      (·.affinity) = some [0] ∧
    -- mixed with a real CPU: a CPU that was never requested
    ((stepPyN 32 cfg routing ⟨1, 1⟩ kWitness 7 ⟨0, none⟩ (.cpuAffinity (some (.list, [0, 4294967297])))).2.procs 7).map
      (·.affinity) = some [0, 1] ∧
    ((stepPyN cpuNumBits cfg routing ⟨1, 1⟩ kWitness 7 ⟨0, none⟩ (.cpuAffinity (some (.list, [0, 4294967297])))).2.procs 7).map
      (·.affinity) = some [0] ∧
    -- negative after the wrap: dropped as before; 2^32 - 1 is "invalid CPU value"
    (stepPyN 32 cfg routing ⟨1, 1⟩ kWitness 7 ⟨0, none⟩ (.cpuAffinity (some (.list, [1, 2147483649])))).1 = .ok .none ∧
    (stepPyN 32 cfg routing ⟨1, 1⟩ kWitness 7 ⟨0, none⟩ (.cpuAffinity (some (.list, [1, 4294967295])))).1 = .exc .valueError ∧
    (stepPyN cpuNumBits cfg routing ⟨1, 1⟩ kWitness 7 ⟨0, none⟩ (.cpuAffinity (some (.list, [1, 4294967295])))).1 = .ok .none ∧
    -- another modulus: the number taken modulo CPU_SETSIZE
    ((stepPyN 10 cfg routing ⟨1, 1⟩ kWitness 7 ⟨0, none⟩ (.cpuAffinity (some (.list, [1025])))).2.procs 7).map
      (·.affinity) = some [1] ∧
    (stepPyN cpuNumBits cfg routing ⟨1, 1⟩ kWitness 7 ⟨0, none⟩ (.cpuAffinity (some (.list, [1025])))).1 = .exc .valueError ∧
    -- ordinary numbers: no difference
    (stepPyN 32 cfg routing ⟨1, 1⟩ kWitness 7 ⟨0, none⟩ (.cpuAffinity (some (.list, [1, 70, -2])))).1 =
      (stepPyN cpuNumBits cfg routing ⟨1, 1⟩ kWitness 7 ⟨0, none⟩ (.cpuAffinity (some (.list, [1, 70, -2])))).1 := by
  decide

/-- … and in general: a short cut to the caller's own primitives is sound exactly as far as the pid
    it is keyed on IS the caller's — always for `os.getpid()` evaluated in the call, for a remembered
    pid only while no fork lies in between (`Origin.unforked`) -/
theorem C18_caller_shortcut_sound (c : Cfg) (og : Origin) (k : Kernel) (pid : Nat) (x : Ctx) (r : PyReq)
    (a : Addr) (ha : a = .pid ∨ a = .callerIf .now ∨ (∃ s, a = .callerIf s ∧ s.eval og k = k.self)) :
    stepPyW c ⟨a, a, a, a, a, a, a, a⟩ og k pid x r = stepPy c k pid x r := by
  apply stepPyW_sound
  have hw : resolve k (a.who og k pid) = resolve k pid := by
    rcases ha with rfl | rfl | ⟨s, rfl, hs⟩
    · rfl
    · exact who_now_sound og k pid
    · exact who_remembered_sound s og k pid hs
  exact ⟨hw, hw, hw, hw, hw, hw, hw, hw⟩

/-! ### who may do what: privilege failures are noticed and change nothing

  The set theorems above are conditional on `Spec.permitted` (the EPERM / EACCES sections of the
  man pages). Where the caller is NOT permitted the kernel refuses; the native setters test the
  return value of the system call (`Cfg.Good.setChecks`, facts `…ChecksRetval`), so the refusal
  reaches the caller as AccessDenied and nothing changes. -/

/-- `nice(v)` without CAP_SYS_NICE: on a process of another user → EPERM → AccessDenied; lowering the
    value of one's own process below what RLIMIT_NICE allows → EACCES → AccessDenied; kernel unchanged -/
theorem C18_py_nice_refused (c : Cfg) (hg : c.Good) (k : Kernel) (pid : Nat) (st : PState) (x : Ctx) (v : Scalar)
    (hpid : pid ≠ 0) (hst : k.procs pid = some st) (hfit : fitsCInt v.val = true) (hcap : k.capNice = false) :
    (st.foreign = true → stepPy c k pid x (.nice (some v)) = (.exc (.accessDenied pid), k)) ∧
    (st.foreign = false → clampNice v.val < st.nice →
      ¬ (20 - clampNice v.val ≤ ((st.rlimits 13).1 : Int)) →
      stepPy c k pid x (.nice (some v)) = (.exc (.accessDenied pid), k)) := by
  constructor
  · intro hf
    rw [stepPy_alive c hst]
    show niceSetX c k pid v.val = _
    simp [niceSetX, cextSetpriorityP, hfit, sysSetpriorityP, permNice, resolve_pid k hpid, hst, hf, hcap,
      hg.setChecks.1, checkedCall, wrapExc]
  · intro hf hlt hrl
    rw [stepPy_alive c hst]
    show niceSetX c k pid v.val = _
    simp [niceSetX, cextSetpriorityP, hfit, sysSetpriorityP, permNice, resolve_pid k hpid, hst, hf, hcap,
      hg.setChecks.1, checkedCall, wrapExc, canNice, rlimitNice, hlt, hrl]

/-- an unprivileged caller lowering the nice value of its own process from 5 to 0 -/
def kUnpriv : Kernel :=
  { kWitness with capNice := false, procs := fun q => if q = 7 then some { stWitness with nice := 5 } else none }

/-- why the native setters must test the return value (facts `setpriorityChecksRetval`, …): with
    the code as it is the refused `nice(0)` raises AccessDenied; with the test dropped from
    `psutil_posix_setpriority` the same call returns None although the kernel still reports 5 — a
    "successful set" after which the kernel does not show the value -/
theorem C18_unchecked_setter_counterexample :
    (stepPy cfg kUnpriv 7 ⟨0, none⟩ (.nice (some (.int 0)))).1 = .exc (.accessDenied 7) ∧
    (stepPy { cfg with setPrioChecks := false } kUnpriv 7 ⟨0, none⟩ (.nice (some (.int 0)))).1 = .ok .none ∧
    ((stepPy { cfg with setPrioChecks := false } kUnpriv 7 ⟨0, none⟩ (.nice (some (.int 0)))).2.procs 7).map (·.nice)
      = some 5 := by
  decide

/-- root's process seen by the unprivileged caller -/
def kForeign : Kernel :=
  { kWitness with capNice := false, capResource := false,
                  procs := fun q => if q = 7 then some { stWitness with foreign := true } else none }

/-- the other refusals, on concrete kernels (what the live family `live-unpriv` observes on the real
    code): the realtime I/O class without CAP_SYS_NICE; every set form and `rlimit` on another user's
    process → AccessDenied, while its niceness, I/O priority and mask can be read -/
theorem C18_unprivileged_refusals :
    (stepPy cfg kUnpriv 7 ⟨0, none⟩ (.ionice (some (.enum 1)) (some (.int 2)))).1 = .exc (.accessDenied 7) ∧
    (stepPy cfg kUnpriv 7 ⟨0, none⟩ (.ionice (some (.enum 2)) (some (.int 2)))).1 = .ok .none ∧
    (stepPy cfg kForeign 7 ⟨0, none⟩ (.nice (some (.int 3)))).1 = .exc (.accessDenied 7) ∧
    (stepPy cfg kForeign 7 ⟨0, none⟩ (.ionice (some (.int 2)) (some (.int 4)))).1 = .exc (.accessDenied 7) ∧
    (stepPy cfg kForeign 7 ⟨0, none⟩ (.cpuAffinity (some (.list, [0])))).1 = .exc (.accessDenied 7) ∧
    (stepPy cfg kForeign 7 ⟨0, none⟩ (.rlimit (.int 7) none)).1 = .exc (.accessDenied 7) ∧
    (stepPy cfg kForeign 7 ⟨0, none⟩ (.rlimit (.int 7) (some (.tuple, [1, 2])))).1 = .exc (.accessDenied 7) ∧
    (stepPy cfg kForeign 7 ⟨0, none⟩ (.nice none)).1 = .ok (.int 0) ∧
    (stepPy cfg kForeign 7 ⟨0, none⟩ (.ionice none none)).1 = .ok (.ionice 0 0) ∧
    (stepPy cfg kForeign 7 ⟨0, none⟩ (.cpuAffinity none)).1 = .ok (.cpus [0]) := by
  decide

/-! ### the sizing loop of the affinity getter (`psutil_proc_cpu_affinity_get`)

  `C18_py_get_affinity` holds on every kernel with up to 1024 possible CPU ids: the first
  `sched_getaffinity` with a 64-CPU mask fails with EINVAL when the kernel's mask is larger, and the
  loop retries with 128, 256, … CPUs (`Cfg.Good.affLoop`, `Cfg.Good.affGet`; facts
  `affinityGetInitBits`, `affinityGetRetryTest`, `affinityGetGrowth`, `affinityGetErrTest`). -/

/-- a machine with 200 possible CPU ids -/
def kBig : Kernel := { kWitness with ncpu := 200 }

/-- on the 200-CPU machine the code as it is returns the mask (two EINVAL rounds: 64, 128, then 256
    CPUs); with the errno test flipped (`errno == EINVAL` → give up) the first EINVAL is raised; with
    a mask that never grows the function does not return; with the success test reading errno
    instead of the return value the stale EINVAL of the previous round is raised after the call
    that succeeded -/
theorem C18_affinity_get_sizing_loop :
    (stepPy cfg kBig 7 ⟨0, none⟩ (.cpuAffinity none)).1 = .ok (.cpus [0]) ∧
    (stepPy { cfg with affLoop := ⟨64, 1, 2, 0⟩ } kBig 7 ⟨0, none⟩ (.cpuAffinity none)).1 = .exc (.osError .EINVAL) ∧
    (stepPy { cfg with affLoop := ⟨64, 0, 1, 0⟩ } kBig 7 ⟨0, none⟩ (.cpuAffinity none)).1 = .exc .hang ∧
    (stepPy { cfg with affLoop := ⟨64, 3, 2, 0⟩ } kBig 7 ⟨0, none⟩ (.cpuAffinity none)).1 = .exc (.osError .EINVAL) := by
  decide

/-! ### why errno must be cleared; why the status file must not decide; why not `range(N)` -/

/-- the seeded change C18-1 as a configuration: `errno = 0` dropped, test `priority == -1 && errno != 0` -/
def cfgNoClear : Cfg := { cfg with prioGet := ⟨false, .sentinelAndErrno⟩ }

/-- nice −1 read with a stale errno (ENOENT) raises under the three broken errno protocols -/
theorem C18_stale_errno_counterexample :
    (stepPy cfgNoClear { kWitness with procs := fun q => if q = 7 then some { stWitness with nice := -1 } else none }
      7 ⟨2, none⟩ (.nice none)).1 = .exc (.osRaw 2) ∧
    (stepPy { cfg with prioGet := ⟨false, .errnoOnly⟩ } kWitness 7 ⟨2, none⟩ (.nice none)).1 = .exc (.osRaw 2) ∧
    (stepPy { cfg with prioGet := ⟨true, .sentinelOnly⟩ }
      { kWitness with procs := fun q => if q = 7 then some { stWitness with nice := -1 } else none }
      7 ⟨0, none⟩ (.nice none)).1 = .exc (.osRaw 0) := by
  decide

def cfgUnrepaired : Cfg := { cfg with einvalValueError := false }

/-- a process confined to CPUs 0-1 of four, currently on both -/
def kBoth : Kernel :=
  { kWitness with procs := fun q => if q = 7 then some { stWitness with affinity := [0, 1] } else none }

/-- the superseded code (before aebc260, finding `C18-ineligible-oserror`, fixed): `cpu_affinity([2])`
    on a process confined to 0-1 and running on 0 raised OSError(EINVAL); and `oneshot()` changed the
    answer (status file cached while the mask was `0`); the code as it is gives ValueError in all three -/
theorem C18_einval_fallthrough_needed :
    (stepPy cfgUnrepaired kWitness 7 ⟨0, none⟩ (.cpuAffinity (some (.list, [2])))).1 = .exc (.osError .EINVAL) ∧
    (stepPy cfgUnrepaired kBoth 7 ⟨0, none⟩ (.cpuAffinity (some (.list, [2])))).1 = .exc .valueError ∧
    (stepPy cfgUnrepaired kBoth 7 ⟨0, some [0]⟩ (.cpuAffinity (some (.list, [2])))).1 = .exc (.osError .EINVAL) ∧
    (stepPy cfg kWitness 7 ⟨0, none⟩ (.cpuAffinity (some (.list, [2])))).1 = .exc .valueError ∧
    (stepPy cfg kBoth 7 ⟨0, some [0]⟩ (.cpuAffinity (some (.list, [2])))).1 = .exc .valueError := by
  decide

/-- four possible CPU ids, CPU 2 offline (three `cpuN` lines), the process on CPU 0 -/
def stHole : PState := { stWitness with affinity := [0], cpuset := [0, 1, 3] }
def kHole : Kernel := { kWitness with procs := fun q => if q = 7 then some stHole else none, statCpus := 3 }
/-- a container: 16 ids, the cpuset is 14-15, a virtualised `/proc/stat` shows `cpu0`, `cpu1` -/
def stLxc : PState := { stWitness with affinity := [14], cpuset := [14, 15] }
def kLxc : Kernel :=
  { kWitness with procs := fun q => if q = 7 then some stLxc else none, ncpu := 16, statCpus := 2 }

/-- the request shape of the other platforms' branch, `range(len(cpu_times(percpu=True)))` (seeded C18-2) -/
def cfgCount : Cfg := { cfg with emptyAsksCount := true }
/-- the front end taking the CPUs for `[]` from `_get_eligible_cpus()` (the code before 1ed9255) -/
def cfgStatusRange : Cfg := { cfg with emptyAsksAll := none }

theorem wf_hole : WF kHole stHole :=
  ⟨by decide, by decide, by decide, by decide, by decide,
    fun _ => ⟨by simp [stHole, stWitness], by simp [stHole, stWitness]⟩, by decide⟩

theorem wf_lxc : WF kLxc stLxc :=
  ⟨by decide, by decide, by decide, by decide, by decide,
    fun _ => ⟨by simp [stLxc, stWitness], by simp [stLxc, stWitness]⟩, by decide⟩

/-- why `cpu_affinity([])` must ask for `range(1024)`: resolved through the status file, a mask
    narrowed to `0-1` stays `0-1`; asked for CPUs `0..N-1` (N = number of `cpuN` lines) the eligible
    CPU 3 is left out when CPU 2 is offline, and in the container nothing changes (ValueError);
    and a valid CPU whose id is ≥ the number of `cpuN` lines is accepted -/
theorem C18_empty_request_shape_counterexamples :
    ((stepPy cfgStatusRange kBoth 7 ⟨0, none⟩ (.cpuAffinity (some (.list, [])))).2.procs 7).map (·.affinity)
      = some [0, 1] ∧
    Spec.eligible kHole stHole = [0, 1, 3] ∧
    ((stepPy cfgCount kHole 7 ⟨0, none⟩ (.cpuAffinity (some (.list, [])))).2.procs 7).map (·.affinity) = some [0, 1] ∧
    Spec.eligible kLxc stLxc = [14, 15] ∧
    (stepPy cfgCount kLxc 7 ⟨0, none⟩ (.cpuAffinity (some (.list, [])))).1 = .exc .valueError ∧
    ((stepPy cfg kHole 7 ⟨0, none⟩ (.cpuAffinity (some (.list, [3])))).2.procs 7).map (·.affinity) = some [3] ∧
    (stepPy cfg kLxc 7 ⟨0, none⟩ (.cpuAffinity (some (.list, [1])))).1 = .exc .valueError := by
  decide

/-- … whereas the code as it is (`range(1024)`) selects all eligible CPUs in both worlds, in every
    context (instances of `C18_py_empty_selects_all_eligible`) -/
theorem C18_empty_selects_all_eligible_with_holes (x : Ctx) :
    ((stepPy cfg kHole 7 x (.cpuAffinity (some (.list, [])))).2.procs 7).map (·.affinity) = some [0, 1, 3] ∧
    ((stepPy cfg kLxc 7 x (.cpuAffinity (some (.list, [])))).2.procs 7).map (·.affinity) = some [14, 15] := by
  constructor
  · obtain ⟨k', h1, h2, _⟩ := C18_py_empty_selects_all_eligible cfg cfg_good cfg_einval_is_valueError kHole 7 stHole x
      CpuForm.list (by decide) (by decide) rfl wf_hole rfl
    rw [h1, h2]; decide
  · obtain ⟨k', h1, h2, _⟩ := C18_py_empty_selects_all_eligible cfg cfg_good cfg_einval_is_valueError kLxc 7 stLxc x
      CpuForm.list (by decide) (by decide) rfl wf_lxc rfl
    rw [h1, h2]; decide

/-! ### seeded round 5 (change C18-7): a get form the kernel REFUSES, with another readable source

  "The get form returns what the kernel reports for that process." prlimit(2) on a process of another
  user without CAP_SYS_RESOURCE is refused (EPERM), while `/proc/<pid>/limits` shows the same sixteen
  pairs to everybody. Where the question is refused `Spec.expectP` is silent (its promise about sets is
  about successful sets) — but an ANSWER of a get form must still be the kernel's value for that
  resource of that process, wherever it is read; the only other honest outcome is the refusal passed
  on (`Spec.refusedGetAnswers`, Spec/C18Refused.lean). `stepPyA alt` (Model/C18Alt.lean) is the call
  with the alternative source `alt` (which row of the limits file answers for which resource);
  the driver runs `stepPyA rlimitAlt cpuNumBits cfg routing`. -/

/-- **proof obligation** on the fact `rlimitGetOtherSources`: no statement of `rlimit` (platform layer
    and front end) hands back anything but the result of `resource.prlimit(self.pid, resource_)` -/
theorem cfg_rlimit_get_single_source : AltSrc.ofCode Gen.C18.rlimitGetOtherSources = some none := by decide

/-- **C18_refused_get_is_honest.** For every kernel, caller, fork history, context, process, every
    one of the sixteen resources and every value the kernel may hold for them: a get form that the
    kernel refuses to this caller yields one of the admissible results — the kernel's own value for
    THAT resource of THAT process, or AccessDenied — and leaves the kernel as it was. (The code as it
    is passes the refusal on.) -/
theorem C18_refused_get_is_honest (og : Origin) (k : Kernel) (pid : Nat) (st : PState) (x : Ctx) (r : PyReq)
    (as : List Out) (hpid : pid ≠ 0) (hst : k.procs pid = some st)
    (h : Spec.refusedGetAnswersPy k pid st r = some as) :
    (stepPyA rlimitAlt cpuNumBits cfg routing og k pid x r).1 ∈ as ∧
      (stepPyA rlimitAlt cpuNumBits cfg routing og k pid x r).2 = k := by
  have halt : rlimitAlt = none := by unfold rlimitAlt; rw [cfg_rlimit_get_single_source]; rfl
  rw [halt, stepPyA_none, cfg_cpu_number_held_as_long, stepPyN_long, cfg_routing_direct, stepPyW_direct]
  exact refused_get_honest cfg k pid st x r as hpid hst h

/-- … and what it passes on is AccessDenied for that pid, for each of the sixteen resources -/
theorem C18_refused_rlimit_get_raises_AccessDenied (og : Origin) (k : Kernel) (pid : Nat) (st : PState) (x : Ctx)
    (rs : Scalar) (hpid : pid ≠ 0) (hst : k.procs pid = some st) (h0 : 0 ≤ rs.val) (h16 : rs.val < 16)
    (hf : st.foreign = true) (hc : k.capResource = false) :
    stepPyA rlimitAlt cpuNumBits cfg routing og k pid x (.rlimit rs none) = (.exc (.accessDenied pid), k) := by
  have halt : rlimitAlt = none := by unfold rlimitAlt; rw [cfg_rlimit_get_single_source]; rfl
  rw [halt, stepPyA_none, cfg_cpu_number_held_as_long, stepPyN_long, cfg_routing_direct, stepPyW_direct]
  exact stepPy_refused_get cfg x rs hpid hst h0 h16 hf hc

/-- root's process 7 with sixteen different pairs, seen by a caller without CAP_SYS_RESOURCE -/
def stRefused : PState := { stWitness with rlimits := fun r => (100 + r, 200 + r), foreign := true }
def kRefused : Kernel :=
  { kWitness with capResource := false, procs := fun q => if q = 7 then some stRefused else none }

/-- the limits file read through a table whose RLIMIT_RTTIME entry names the RLIMIT_RTPRIO row -/
def altSlip : AltSrc := some [0, 1, 2, 3, 4, 5, 6, 7, 8, 9, 10, 11, 12, 13, 14, 14]

/-- **why the source matters** (seeded C18-7 and its relatives). Answering a refused `rlimit(res)` from
    `/proc/<pid>/limits` is honest when every resource is read from its own row (`altIdentity`); with
    one entry of the table pointing at a neighbouring row, `rlimit(RLIMIT_RTTIME)` returns
    RLIMIT_RTPRIO's pair (114, 214) where the kernel holds (115, 215) — an answer that is not among the
    admissible ones — while the fifteen other resources, the permitted caller and the code as it is
    (AccessDenied) show nothing: only a refused get of that one resource on a process whose rows
    differ tells the two apart. -/
theorem C18_refused_get_wrong_row_counterexample :
    Spec.refusedGetAnswersPy kRefused 7 stRefused (.rlimit (.int 15) none)
      = some [.ok (.limits 115 215), .exc (.accessDenied 7)] ∧
    (stepPyA altSlip 64 cfg Routing.direct ⟨1, 1⟩ kRefused 7 ⟨0, none⟩ (.rlimit (.int 15) none)).1 = .ok (.limits 114 214) ∧
    (stepPyA altIdentity 64 cfg Routing.direct ⟨1, 1⟩ kRefused 7 ⟨0, none⟩ (.rlimit (.int 15) none)).1
      = .ok (.limits 115 215) ∧
    (stepPyA none 64 cfg Routing.direct ⟨1, 1⟩ kRefused 7 ⟨0, none⟩ (.rlimit (.int 15) none)).1 = .exc (.accessDenied 7) ∧
    (stepPyA altSlip 64 cfg Routing.direct ⟨1, 1⟩ kRefused 7 ⟨0, none⟩ (.rlimit (.int 14) none)).1 = .ok (.limits 114 214) ∧
    (stepPyA altSlip 64 cfg Routing.direct ⟨1, 1⟩ { kRefused with capResource := true } 7 ⟨0, none⟩
      (.rlimit (.int 15) none)).1 = .ok (.limits 115 215) ∧
    Spec.refusedGetAnswersPy { kRefused with capResource := true } 7 stRefused (.rlimit (.int 15) none) = none := by
  decide

/-- **C18_refused_get_own_row_is_honest.** Reading each resource from its own row IS honest, for every
    kernel and every value: the file shows what the kernel holds. -/
theorem C18_refused_get_own_row_is_honest (og : Origin) (k : Kernel) (pid : Nat) (st : PState) (x : Ctx) (rs : Scalar)
    (as : List Out) (hpid : pid ≠ 0) (hst : k.procs pid = some st)
    (h : Spec.refusedGetAnswersPy k pid st (.rlimit rs none) = some as) :
    (stepPyA altIdentity cpuNumBits cfg routing og k pid x (.rlimit rs none)).1 ∈ as ∧
      (stepPyA altIdentity cpuNumBits cfg routing og k pid x (.rlimit rs none)).2 = k :=
  refused_get_own_row_honest cfg cfg_cpu_number_held_as_long cfg_routing_direct og k pid st x rs as hpid hst h

example : stRefused.foreign = true ∧ kRefused.capResource = false ∧ kRefused.procs 7 = some stRefused ∧
    Spec.permitted kRefused stRefused (.rlimit 15 none) = false := ⟨rfl, rfl, rfl, by decide⟩

/-! ### the hypotheses are satisfiable -/

example : WF kWitness stWitness ∧ kWitness.procs 7 = some stWitness ∧ (7 : Nat) ≠ 0 :=
  ⟨wf_witness, rfl, by decide⟩
example : ValidIonice 2 (some 5) ∧ ValidIonice 3 none := by unfold ValidIonice; simp
example : ValidIonice (Scalar.enum 2).val ((some (Scalar.bool true)).map Scalar.val) := by
  unfold ValidIonice; simp [Scalar.val]
example : ValidCpus kWitness stWitness [1, 0, 1] := ⟨by decide, by decide⟩
example : ValidLimits kWitness stWitness 3 5 (-1) 5 Spec.rlimInfinity :=
  ⟨by decide, by decide, by decide, by decide, by decide, Or.inl rfl⟩
example : OnlyUnusableAny kWitness stWitness [2, 9, -1, 9223372036854775808] := ⟨by decide, by decide⟩
example : AllLong [2, 9, -1] ∧ ¬ AllLong [9223372036854775808] := by
  constructor
  · intro v hv; simp at hv; rcases hv with rfl | rfl | rfl <;> decide
  · intro h; have := h _ (List.mem_singleton.2 rfl); revert this; decide
example : Spec.permitted kWitness stWitness (.nice (some (-5))) = true ∧
    Spec.permitted kUnpriv { stWitness with nice := 5 } (.nice (some 0)) = false ∧
    Spec.permitted kUnpriv { stWitness with nice := 5 } (.nice (some 7)) = true ∧
    Spec.permitted kUnpriv stWitness (.ionice (some 1) none) = false ∧
    Spec.permitted kUnpriv stWitness (.cpuAffinity (some [0])) = true := by decide
example : OverflowRegion (.cpuAffinity (some [9223372036854775808])) :=
  ⟨_, rfl, fun h => by have := h _ (List.mem_singleton.2 rfl); revert this; decide⟩
example : ¬ OverflowRegion (PyReq.nice (some (.int 5))).erase := not_overflowRegion (fun _ e => by cases e)
example : kWitness.procs 9 = none ∧ (9 : Nat) ≠ 0 ∧ (PyReq.nice (some (.int 5))).isSet = true := ⟨rfl, by decide, rfl⟩
example : (PyReq.ionice (some (.enum 2)) (some (.bool true))).Sized := trivial
example : (PyReq.ionice (some (.enum 2)) (some (.bool true))).erase = .ionice (some 2) (some 1) := rfl
example : ¬ (PyReq.cpuAffinity (some (.iterator, [1]))).Sized := fun h => h rfl
example : WF kBig stWitness ∧ kBig.procs 7 = some stWitness := ⟨⟨by decide, by decide, by decide, by decide,
  by decide, fun _ => ⟨by simp [stWitness], by simp [stWitness]⟩, by decide⟩, rfl⟩

end Psutil.C18
