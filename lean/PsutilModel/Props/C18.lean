/-
  Props/C18.lean — property theorems for C18 (nice / ionice / cpu_affinity / rlimit).
  Only statements the property makes; helper lemmas live in Proofs/C18*.lean.

  `cfg` is built from Generated/C18.lean, which the translator rewrites from /repo's source on
  every run; `cfg_good` is the proof obligation that breaks when the C packing constant or
  macros change, when `ionice_set`'s bounds / class set / default change, when the `IOPriority`
  enum changes, when `rlimit` stops checking `len(limits) != 2` or stops refusing PID 0, when the
  front end stops raising for a level without a class, stops de-duplicating / sorting, or takes
  the CPUs for `cpu_affinity([])` from the current mask again.
-/
import PsutilModel.Proofs.C18Ctx
import PsutilModel.Proofs.C18Py
import PsutilModel.Model.C18Gen
namespace Psutil.C18
open Spec

theorem cfg_good : cfg.Good := by constructor <;> decide

/-! ### packing -/

/-- `IOPRIO_PRIO_VALUE` then `IOPRIO_PRIO_CLASS/DATA` (with the shift of the C source) give the
    class and data back, the packed value fits the kernel's `unsigned short`, and the kernel
    reads the same class out of it -/
theorem C18_ioprio_roundtrip (cls data : Nat) (hc : cls < 8) (hd : data < 8192) :
    ioprioUnpack cfg.shift (ioprioPack cfg.shift cls data) = (cls, data) ∧
    ioprioPack cfg.shift cls data < 65536 ∧
    ioprioClassOf (ioprioPack cfg.shift cls data) = cls := by
  rw [cfg_good.shift]
  refine ⟨unpack_pack cls data hd, ?_, ?_⟩
  · rw [pack_eq _ _ hd]; omega
  · rw [pack_eq _ _ hd]; exact classOf_eq cls data hc hd

/-! ### refinement: whatever the specification promises, the code does -/

/-- For EVERY kernel state, process, and request: when the specification promises an outcome
    (a get form, a set form with a valid value, one of the listed invalid requests,
    `cpu_affinity([])`), the model returns exactly that result and leaves exactly that kernel
    (same per-process states, same log of changes). The only exclusion is the region of the
    known finding `C18-ineligible-oserror`. -/
theorem C18_refines (c : Cfg) (hg : c.Good) (k : Kernel) (pid : Nat) (st : PState) (req : Req)
    (o : Out) (k' : Kernel) (hpid : pid ≠ 0) (hst : k.procs pid = some st) (hwf : WF k st)
    (hreg : ¬ InFindingRegion k st req)
    (hs : Spec.expect k pid st req = .promised o k') : step c k pid req = (o, k') := by
  cases req with
  | nice v => exact refines_nice c k pid st v o k' hpid hst hs
  | ionice cls v => exact refines_ionice c hg k pid st cls v o k' hpid hst hs
  | cpuAffinity cpus => exact refines_affinity c hg k pid st cpus o k' hpid hst hwf hreg hs
  | rlimit res l => exact refines_rlimit c hg k pid st res l o k' hpid hst hs

/-! ### get reads the kernel -/

theorem C18_get_nice (c : Cfg) (k : Kernel) (pid : Nat) (st : PState) (hpid : pid ≠ 0)
    (hst : k.procs pid = some st) : step c k pid (.nice none) = (.ok (.int st.nice), k) :=
  refines_nice c k pid st none _ _ hpid hst rfl

theorem C18_get_ionice (c : Cfg) (hg : c.Good) (k : Kernel) (pid : Nat) (st : PState) (hpid : pid ≠ 0)
    (hst : k.procs pid = some st) (hcls : st.ioprio / 8192 ≤ 3) :
    step c k pid (.ionice none none) = (.ok (.ionice (st.ioprio / 8192) (st.ioprio % 8192)), k) :=
  refines_ionice c hg k pid st none none _ _ hpid hst (by simp [Spec.expect, hcls])

theorem C18_get_affinity (c : Cfg) (hg : c.Good) (k : Kernel) (pid : Nat) (st : PState) (hpid : pid ≠ 0)
    (hst : k.procs pid = some st) (hwf : WF k st) :
    step c k pid (.cpuAffinity none) = (.ok (.cpus st.affinity), k) := by
  have h := refines_affinity c hg k pid st none _ _ hpid hst hwf (fun h => h) rfl
  rwa [show Spec.ascending k st.affinity = st.affinity from
    rangeFilter_contains_self hwf.asc (fun x hx => (hwf.sub x hx).1)] at h

theorem C18_get_rlimit (c : Cfg) (hg : c.Good) (k : Kernel) (pid : Nat) (st : PState) (hpid : pid ≠ 0)
    (hst : k.procs pid = some st) (res : Nat) (hres : res < 16) (s h : Int)
    (hs : Spec.limitToPy (st.rlimits res).1 = some s) (hh : Spec.limitToPy (st.rlimits res).2 = some h) :
    step c k pid (.rlimit res none) = (.ok (.limits s h), k) :=
  refines_rlimit c hg k pid st res none _ _ hpid hst (by
    have : (0 : Int) ≤ (res : Int) ∧ (res : Int) < 16 := by omega
    simp only [Spec.expect, this, and_self, if_true, Int.toNat_natCast, hs, hh])

/-! ### set, then get -/

theorem C18_set_then_get_nice (c : Cfg) (k : Kernel) (pid : Nat) (st : PState) (v : Int)
    (hpid : pid ≠ 0) (hst : k.procs pid = some st) (hv : -20 ≤ v ∧ v ≤ 19) :
    ∃ k', step c k pid (.nice (some v)) = (.ok .none, k') ∧
      k'.procs pid = some { st with nice := v } ∧
      step c k' pid (.nice none) = (.ok (.int v), k') := by
  refine ⟨Spec.replaced k pid { st with nice := v } (.nice pid v),
    refines_nice c k pid st (some v) _ _ hpid hst (by simp [Spec.expect, hv]), ?_, ?_⟩
  · exact replaced_self _ _ _ _
  · exact C18_get_nice c _ pid _ hpid (replaced_self _ _ _ _)

/-- the values `ionice(ioclass, value)` accepts: RT/BE with a level 0..7 (or none = 0),
    NONE/IDLE with no level -/
def ValidIonice (cls : Int) (value : Option Int) : Prop :=
  ((cls = 1 ∨ cls = 2) ∧ 0 ≤ value.getD 0 ∧ value.getD 0 ≤ 7) ∨ ((cls = 0 ∨ cls = 3) ∧ value.getD 0 = 0)

theorem C18_set_then_get_ionice (c : Cfg) (hg : c.Good) (k : Kernel) (pid : Nat) (st : PState)
    (cls : Int) (value : Option Int) (hpid : pid ≠ 0) (hst : k.procs pid = some st)
    (hv : ValidIonice cls value) :
    ∃ k', step c k pid (.ionice (some cls) value) = (.ok .none, k') ∧
      k'.procs pid = some { st with ioprio := cls.toNat * 8192 + (value.getD 0).toNat } ∧
      step c k' pid (.ionice none none) = (.ok (.ionice cls.toNat (value.getD 0).toNat), k') := by
  have h1 : 0 ≤ cls ∧ cls ≤ 3 := by unfold ValidIonice at hv; omega
  have h2 : ¬ (value.getD 0 < 0 ∨ value.getD 0 > 7) := by unfold ValidIonice at hv; omega
  have h3 : ¬ ((cls = 0 ∨ cls = 3) ∧ value.getD 0 ≠ 0) := by unfold ValidIonice at hv; omega
  refine ⟨Spec.replaced k pid { st with ioprio := Spec.ioprioValue cls.toNat (value.getD 0).toNat }
        (.ioprio pid (Spec.ioprioValue cls.toNat (value.getD 0).toNat)),
    refines_ionice c hg k pid st (some cls) value _ _ hpid hst
    (by simp only [Spec.expect, h1, and_self, if_true, h2, if_false, h3]), ?_, ?_⟩
  · simp [Spec.replaced, Spec.ioprioValue]
  · have hget := C18_get_ionice c hg
      (Spec.replaced k pid { st with ioprio := Spec.ioprioValue cls.toNat (value.getD 0).toNat }
        (.ioprio pid (Spec.ioprioValue cls.toNat (value.getD 0).toNat))) pid
      { st with ioprio := Spec.ioprioValue cls.toNat (value.getD 0).toNat } hpid
      (replaced_self _ _ _ _) (by simp only [Spec.ioprioValue]; omega)
    have e1 : Spec.ioprioValue cls.toNat (value.getD 0).toNat / 8192 = cls.toNat := by
      simp only [Spec.ioprioValue]; omega
    have e2 : Spec.ioprioValue cls.toNat (value.getD 0).toNat % 8192 = (value.getD 0).toNat := by
      simp only [Spec.ioprioValue]; omega
    simp only [e1, e2] at hget
    exact hget

/-- a CPU list every element of which is an eligible CPU of the process -/
def ValidCpus (k : Kernel) (st : PState) (cpus : List Int) : Prop :=
  cpus ≠ [] ∧ ∀ x ∈ cpus, 0 ≤ x ∧ x.toNat < k.ncpu ∧ x.toNat ∈ st.cpuset

theorem C18_set_then_get_affinity (c : Cfg) (hg : c.Good) (k : Kernel) (pid : Nat) (st : PState)
    (cpus : List Int) (hpid : pid ≠ 0) (hst : k.procs pid = some st) (hwf : WF k st)
    (hv : ValidCpus k st cpus) :
    ∃ k' a, step c k pid (.cpuAffinity (some cpus)) = (.ok .none, k') ∧
      k'.procs pid = some { st with affinity := a } ∧
      Asc a ∧ (∀ x : Nat, x ∈ a ↔ (x : Int) ∈ cpus) ∧
      step c k' pid (.cpuAffinity none) = (.ok (.cpus a), k') := by
  obtain ⟨hne, hall⟩ := hv
  have hemp : cpus.isEmpty = false := by
    cases cpus with
    | nil => exact absurd rfl hne
    | cons _ _ => rfl
  have hallb : (cpus.all fun x => decide (0 ≤ x) && (Spec.eligible k st).contains x.toNat) = true := by
    rw [List.all_eq_true]
    intro x hx
    obtain ⟨h0, h1, h2⟩ := hall x hx
    simp only [Bool.and_eq_true, decide_eq_true_eq, List.contains_iff_mem]
    exact ⟨h0, (mem_eligible k st _).2 ⟨h1, h2⟩⟩
  have hreg : ¬ InFindingRegion k st (.cpuAffinity (some cpus)) := by
    rintro ⟨_, h, _⟩
    cases hc : cpus with
    | nil => exact hne hc
    | cons y _ => exact (h y (by simp [hc])).2.2 (hall y (by simp [hc])).2.2
  have hmem : ∀ x : Nat, x ∈ Spec.ascending k (cpus.map Int.toNat) ↔ (x : Int) ∈ cpus := by
    intro x
    simp only [Spec.ascending, List.mem_filter, List.mem_range, List.contains_iff_mem, List.mem_map]
    constructor
    · rintro ⟨_, y, hy, rfl⟩
      rw [Int.toNat_of_nonneg (hall y hy).1]; exact hy
    · intro hx
      have := hall _ hx
      exact ⟨by simpa using this.2.1, (x : Int), hx, by simp⟩
  have hwf' : WF (Spec.replaced k pid { st with affinity := Spec.ascending k (cpus.map Int.toNat) }
      (.affinity pid (Spec.ascending k (cpus.map Int.toNat))))
      { st with affinity := Spec.ascending k (cpus.map Int.toNat) } := by
    refine ⟨hwf.ncpu, asc_rangeFilter _ _, ?_, ?_, hwf.ioprio, hwf.rl, hwf.stat⟩
    · intro x hx
      have hx' := (hmem x).1 hx
      have := hall _ hx'
      show x < k.ncpu ∧ x ∈ st.cpuset
      simpa using this.2
    · cases hc : cpus with
      | nil => exact absurd hc hne
      | cons y rest =>
        have hy : y ∈ cpus := by simp [hc]
        have : y.toNat ∈ Spec.ascending k (cpus.map Int.toNat) :=
          (hmem _).2 (by rw [Int.toNat_of_nonneg (hall y hy).1]; exact hy)
        rw [hc] at this
        intro h
        simp only at h
        rw [h] at this; cases this
  refine ⟨Spec.replaced k pid { st with affinity := Spec.ascending k (cpus.map Int.toNat) }
      (.affinity pid (Spec.ascending k (cpus.map Int.toNat))), Spec.ascending k (cpus.map Int.toNat),
    refines_affinity c hg k pid st (some cpus) _ _ hpid hst hwf hreg
    (by simp only [Spec.expect, hemp, Bool.false_eq_true, if_false, hallb, if_true]), ?_,
    asc_rangeFilter _ _, hmem, ?_⟩
  · exact replaced_self _ _ _ _
  · exact C18_get_affinity c hg _ pid _ hpid (replaced_self _ _ _ _) hwf'

/-- limits the statement quantifies over: a pair `soft ≤ hard` of values below 2^63 or
    RLIM_INFINITY (−1), which this caller is allowed to set (`fs.nr_open` for NOFILE; raising
    the hard limit needs CAP_SYS_RESOURCE) -/
def ValidLimits (k : Kernel) (st : PState) (res : Nat) (s h : Int) (s' h' : Nat) : Prop :=
  res < 16 ∧ Spec.limitOfPy s = some s' ∧ Spec.limitOfPy h = some h' ∧ s' ≤ h' ∧
    (res = 7 → h' ≤ k.nrOpen) ∧ (k.capResource = true ∨ h' ≤ (st.rlimits res).2)

theorem C18_set_then_get_rlimit (c : Cfg) (hg : c.Good) (k : Kernel) (pid : Nat) (st : PState)
    (res : Nat) (s h : Int) (s' h' : Nat) (hpid : pid ≠ 0) (hst : k.procs pid = some st)
    (hv : ValidLimits k st res s h s' h') :
    ∃ k', step c k pid (.rlimit res (some [s, h])) = (.ok .none, k') ∧
      k'.procs pid = some { st with rlimits := fun r => if r = res then (s', h') else st.rlimits r } ∧
      step c k' pid (.rlimit res none) = (.ok (.limits s h), k') := by
  obtain ⟨hr, hs, hh, hle, hno, hcap⟩ := hv
  have hres : (0 : Int) ≤ (res : Int) ∧ (res : Int) < 16 := by omega
  have hno' : ((res : Int) = 7 → h' ≤ k.nrOpen) := fun e => hno (by omega)
  refine ⟨Spec.replaced k pid { st with rlimits := fun r => if r = res then (s', h') else st.rlimits r }
      (.rlimit pid res s' h'),
    refines_rlimit c hg k pid st res (some [s, h]) _ _ hpid hst
    (by
      simp only [Spec.expect, hres, and_self, if_true, hs, hh, Int.toNat_natCast]
      rw [if_pos ⟨hle, hno', hcap⟩]), ?_, ?_⟩
  · exact replaced_self _ _ _ _
  · refine C18_get_rlimit c hg _ pid _ hpid (replaced_self _ _ _ _) res hr s h ?_ ?_
    · simp only [if_true]; exact limitToPy_limitOfPy hs
    · simp only [if_true]; exact limitToPy_limitOfPy hh

/-! ### nothing else changes -/

/-- no call on `Process(pid)` — valid or not, whatever the configuration — changes the state
    of another process or a kernel parameter -/
theorem C18_others_unchanged (c : Cfg) (k : Kernel) (pid : Nat) (hpid : pid ≠ 0) (req : Req) :
    (∀ q, q ≠ pid → (step c k pid req).2.procs q = k.procs q) ∧
    (step c k pid req).2.ncpu = k.ncpu ∧ (step c k pid req).2.nrOpen = k.nrOpen ∧
    (step c k pid req).2.capResource = k.capResource ∧ (step c k pid req).2.self = k.self :=
  let f := frame_step c k hpid req
  ⟨f.others, f.ncpu, f.nrOpen, f.cap, f.self⟩

/-- a valid set replaces exactly the requested attribute of that process and logs exactly one
    change (read off the specification, which `C18_refines` shows the code meets) -/
theorem C18_set_changes_only_that (c : Cfg) (hg : c.Good) (k : Kernel) (pid : Nat) (st : PState)
    (v : Int) (hpid : pid ≠ 0) (hst : k.procs pid = some st) (hv : -20 ≤ v ∧ v ≤ 19) :
    ∀ st', (step c k pid (.nice (some v))).2.procs pid = some st' →
      st'.ioprio = st.ioprio ∧ st'.affinity = st.affinity ∧ st'.cpuset = st.cpuset ∧
      st'.rlimits = st.rlimits ∧ (step c k pid (.nice (some v))).2.log = k.log ++ [.nice pid v] := by
  have _ := hg
  rw [refines_nice c k pid st (some v) (.ok .none) (Spec.replaced k pid { st with nice := v } (.nice pid v))
    hpid hst (by simp [Spec.expect, hv])]
  intro st' h
  rw [replaced_self] at h
  simp only [Option.some.injEq] at h
  subst h
  exact ⟨rfl, rfl, rfl, rfl, rfl⟩

/-! ### invalid requests: ValueError, nothing changes -/

/-- level outside 0..7; a level for the idle/none class; a level without a class; limits that
    are not a pair: ValueError and the very same kernel (state and effect log untouched) -/
theorem C18_invalid_ValueError_no_effect (c : Cfg) (hg : c.Good) (k : Kernel) (pid : Nat) (st : PState)
    (hpid : pid ≠ 0) (hst : k.procs pid = some st) :
    (∀ cls value, 0 ≤ cls ∧ cls ≤ 3 → (Option.getD value 0 < 0 ∨ Option.getD value 0 > 7) →
      step c k pid (.ionice (some cls) value) = (.exc .valueError, k)) ∧
    (∀ cls value, (cls = 0 ∨ cls = 3) → Option.getD value 0 ≠ 0 →
      step c k pid (.ionice (some cls) value) = (.exc .valueError, k)) ∧
    (∀ value, step c k pid (.ionice none (some value)) = (.exc .valueError, k)) ∧
    (∀ res limits, List.length limits ≠ 2 →
      step c k pid (.rlimit res (some limits)) = (.exc .valueError, k)) := by
  refine ⟨fun cls value h1 h2 => ?_, fun cls value h1 h2 => ?_, fun value => ?_, fun res limits h => ?_⟩
  · exact refines_ionice c hg k pid st (some cls) value _ _ hpid hst
      (by simp only [Spec.expect, h1, and_self, if_true, h2])
  · by_cases h3 : Option.getD value 0 < 0 ∨ Option.getD value 0 > 7
    · exact refines_ionice c hg k pid st (some cls) value _ _ hpid hst
        (by
          have : 0 ≤ cls ∧ cls ≤ 3 := by omega
          simp only [Spec.expect, this, and_self, if_true, h3])
    · exact refines_ionice c hg k pid st (some cls) value _ _ hpid hst
        (by
          have : 0 ≤ cls ∧ cls ≤ 3 := by omega
          simp only [Spec.expect, this, and_self, if_true, h3, if_false, h1, h2, ne_eq, not_false_eq_true])
  · exact refines_ionice c hg k pid st none (some value) _ _ hpid hst rfl
  · refine refines_rlimit c hg k pid st res (some limits) _ _ hpid hst ?_
    match limits, h with
    | [], _ => rfl
    | [_], _ => rfl
    | _ :: _ :: _ :: _, _ => rfl

/-- the statement at full strength: such a list raises ValueError and changes nothing -/
def C18_invalid_cpus_Full (c : Cfg) : Prop :=
  ∀ (k : Kernel) (pid : Nat) (st : PState) (cpus : List Int), pid ≠ 0 → k.procs pid = some st → WF k st →
    OnlyUnusableCpus k st cpus → step c k pid (.cpuAffinity (some cpus)) = (.exc .valueError, k)

/-- proved part: outside the region of the known finding (i.e. when some listed CPU does not
    exist, or when the status line starts with a range) the statement holds -/
theorem C18_invalid_cpus_partial (c : Cfg) (hg : c.Good) (k : Kernel) (pid : Nat) (st : PState)
    (cpus : List Int) (hpid : pid ≠ 0) (hst : k.procs pid = some st) (hwf : WF k st)
    (h : OnlyUnusableCpus k st cpus)
    (hout : (∃ x ∈ cpus, x < 0 ∨ k.ncpu ≤ x.toNat) ∨ statusRange st.affinity ≠ none) :
    step c k pid (.cpuAffinity (some cpus)) = (.exc .valueError, k) := by
  refine refines_affinity c hg k pid st (some cpus) _ _ hpid hst hwf ?_ (expect_of_onlyUnusable pid h)
  rintro ⟨_, hall, hsr⟩
  rcases hout with ⟨x, hx, hx'⟩ | hout
  · have := hall x hx; have := hwf.stat; omega
  · exact hout hsr

/-- the "changes nothing" half holds at full strength, also inside the region of the finding:
    such a list never changes the kernel, and the call always raises (ValueError, or the
    kernel's EINVAL passed on as OSError) -/
theorem C18_invalid_cpus_no_effect (c : Cfg) (k : Kernel) (pid : Nat) (st : PState)
    (cpus : List Int) (hpid : pid ≠ 0) (hst : k.procs pid = some st) (hn : k.ncpu ≤ 1024)
    (h : OnlyUnusableCpus k st cpus) :
    (step c k pid (.cpuAffinity (some cpus))).2 = k ∧
    ((step c k pid (.cpuAffinity (some cpus))).1 = .exc .valueError ∨
     (step c k pid (.cpuAffinity (some cpus))).1 = .exc (.osError .EINVAL)) := by
  obtain ⟨hne, hall⟩ := h
  have hemp : cpus.isEmpty = false := by
    cases cpus with
    | nil => exact absurd rfl hne
    | cons _ _ => rfl
  simp only [step, cpuAffinity, hemp, Bool.false_eq_true, if_false]
  have hl : AllLong cpus := fun v hv => (hall v hv).1
  have hel : ∃ el, getEligibleCpus k pid = some el := by
    simp only [getEligibleCpus, hst]
    split <;> exact ⟨_, rfl⟩
  obtain ⟨el, hel⟩ := hel
  by_cases hm1 : (-1 : Int) ∈ cpus
  · have := cpuSetOfSeq_minus1 (allLong_dedup c hl) ((mem_dedup c cpus _).2 hm1)
    simp only [cpuAffinitySet, cextAffinitySet, this, hel, true_or, if_true]
    split <;> simp [wrapExc]
  · obtain ⟨m, hm, hmem⟩ := cpuSetOfSeq_ok (allLong_dedup c hl) (fun h => hm1 ((mem_dedup c cpus _).1 h))
    have hmem' : ∀ x : Nat, x ∈ m ↔ (x < 1024 ∧ (x : Int) ∈ cpus) := fun x => by rw [hmem, mem_dedup c]
    have hgr := granted_eq k st m cpus hn hmem'
    have hnil : (List.range k.ncpu).filter
        (fun (x : Nat) => decide ((x : Int) ∈ cpus) && st.cpuset.contains x) = [] := by
      rw [List.filter_eq_nil_iff]
      intro x hx
      have hx' : x < k.ncpu := List.mem_range.1 hx
      simp only [Bool.and_eq_true, decide_eq_true_eq, List.contains_iff_mem]
      rintro ⟨h1, h2⟩
      rcases (hall _ h1).2 with h | h | h
      · omega
      · rw [Int.toNat_natCast] at h; omega
      · rw [Int.toNat_natCast] at h; exact h h2
    rw [hnil] at hgr
    simp only [cpuAffinitySet, cextAffinitySet, hm, sysSchedSetaffinity, resolve_pid k hpid, hst, hgr,
      List.isEmpty_nil, if_true, ofSys, or_true, hel]
    split <;> simp [wrapExc]

/-- the full statement is false of the code (known finding `C18-ineligible-oserror`):
    `cpu_affinity([2])` on that process raises OSError(EINVAL), not ValueError -/
theorem C18_invalid_cpus_counterexample : ¬ C18_invalid_cpus_Full cfg := by
  intro h
  have := h kWitness 7 stWitness [2] (by decide) rfl wf_witness ⟨by decide, by decide⟩
  have h2 : (step cfg kWitness 7 (.cpuAffinity (some [2]))).1 = .exc (.osError .EINVAL) := by decide
  rw [this] at h2
  cases h2

/-! ### `cpu_affinity([])` -/

theorem C18_empty_selects_all_eligible (c : Cfg) (hg : c.Good) (k : Kernel) (pid : Nat) (st : PState)
    (hpid : pid ≠ 0) (hst : k.procs pid = some st) (hwf : WF k st) :
    ∃ k', step c k pid (.cpuAffinity (some [])) = (.ok .none, k') ∧
      k'.procs pid = some { st with affinity := Spec.eligible k st } ∧
      ∀ x, x ∈ Spec.eligible k st ↔ x < k.ncpu ∧ x ∈ st.cpuset := by
  refine ⟨Spec.replaced k pid { st with affinity := Spec.eligible k st } (.affinity pid (Spec.eligible k st)),
    refines_affinity c hg k pid st (some []) _ _ hpid hst hwf (fun h => h.1 rfl) rfl, ?_,
    mem_eligible k st⟩
  exact replaced_self _ _ _ _

/-- the same front end taking the CPUs from `_get_eligible_cpus()` (the unfixed code) -/
def cfgStatusRange : Cfg := { cfg with emptyAsksAll := none }

/-- why the empty list must not be resolved through `/proc/<pid>/status`: once the mask is
    `0-1` of four CPUs, `cpu_affinity([])` leaves it at `0-1` -/
theorem C18_empty_needs_full_mask :
    ((step cfgStatusRange
        { kWitness with procs := fun q => if q = 7 then some { stWitness with affinity := [0, 1], cpuset := [0, 1, 2, 3] } else none }
        7 (.cpuAffinity (some []))).2.procs 7).map (·.affinity) = some [0, 1] := by
  decide

/-! ### duplicates, order, shape of the result -/

/-- two CPU lists naming the same CPUs (duplicates, any order) have the same effect — under
    every configuration, i.e. whether or not the front end de-duplicates first -/
theorem C18_dedup (c : Cfg) (k : Kernel) (pid : Nat) (st : PState) (l l' : List Int)
    (hpid : pid ≠ 0) (hst : k.procs pid = some st) (hn : k.ncpu ≤ 1024)
    (hl : AllLong l) (hl' : AllLong l') (hne : l ≠ []) (hne' : l' ≠ [])
    (hsame : ∀ x, x ∈ l ↔ x ∈ l') :
    step c k pid (.cpuAffinity (some l)) = step c k pid (.cpuAffinity (some l')) := by
  have e1 : l.isEmpty = false := by cases l <;> simp_all
  have e2 : l'.isEmpty = false := by cases l' <;> simp_all
  simp only [step, cpuAffinity, e1, e2, Bool.false_eq_true, if_false]
  have hdiag : ∀ el, diagnose (List.range k.statCpus) el (dedup c l) = diagnose (List.range k.statCpus) el (dedup c l') := by
    intro el
    rw [Bool.eq_iff_iff, diagnose_true, diagnose_true]
    constructor
    · rintro ⟨x, hx, h⟩; exact ⟨x, (mem_dedup c _ _).2 ((hsame x).1 ((mem_dedup c _ _).1 hx)), h⟩
    · rintro ⟨x, hx, h⟩; exact ⟨x, (mem_dedup c _ _).2 ((hsame x).2 ((mem_dedup c _ _).1 hx)), h⟩
  by_cases hm : (-1 : Int) ∈ l
  · have hm' : (-1 : Int) ∈ l' := (hsame _).1 hm
    have a := cpuSetOfSeq_minus1 (allLong_dedup c hl) ((mem_dedup c l _).2 hm)
    have b := cpuSetOfSeq_minus1 (allLong_dedup c hl') ((mem_dedup c l' _).2 hm')
    simp only [cpuAffinitySet, cextAffinitySet, a, b, hdiag]
  · have hm' : (-1 : Int) ∉ l' := fun h => hm ((hsame _).2 h)
    obtain ⟨m, a, ha⟩ := cpuSetOfSeq_ok (allLong_dedup c hl) (fun h => hm ((mem_dedup c l _).1 h))
    obtain ⟨m', b, hb⟩ := cpuSetOfSeq_ok (allLong_dedup c hl') (fun h => hm' ((mem_dedup c l' _).1 h))
    have ha' : ∀ x : Nat, x ∈ m ↔ (x < 1024 ∧ (x : Int) ∈ l) := fun x => by rw [ha, mem_dedup c]
    have hb' : ∀ x : Nat, x ∈ m' ↔ (x < 1024 ∧ (x : Int) ∈ l) := fun x => by rw [hb, mem_dedup c, hsame]
    have hg1 := granted_eq k st m l hn ha'
    have hg2 := granted_eq k st m' l hn hb'
    have hsys : sysSchedSetaffinity k pid m = sysSchedSetaffinity k pid m' := by
      simp only [sysSchedSetaffinity, resolve_pid k hpid, hst, hg1, hg2]
    simp only [cpuAffinitySet, cextAffinitySet, a, b, hsys, hdiag]

/-- whatever the native layer reports, the get form returns an ascending duplicate-free list -/
theorem C18_get_sorted_unique (c : Cfg) (hg : c.Good) (k k' : Kernel) (pid : Nat) (l : List Nat)
    (h : step c k pid (.cpuAffinity none) = (.ok (.cpus l), k')) : l.Pairwise (· < ·) := by
  simp only [step, cpuAffinity, hg.sorted, if_true] at h
  split at h
  · simp only [Prod.mk.injEq, Out.ok.injEq, Val.cpus.injEq] at h
    rw [← h.1]; exact asc_sortedSet _
  · simp at h

/-! ### PID 0 -/

/-- `rlimit` never reaches the kernel for PID 0 (where `prlimit` would act on the caller) -/
theorem C18_rlimit_pid0_refused (c : Cfg) (hg : c.Good) (k : Kernel) (res : Int) (l : Option (List Int)) :
    step c k 0 (.rlimit res l) = (.exc .valueError, k) := by
  simp [step, rlimitL, hg.pid0]

/-- why the other theorems assume `pid ≠ 0`: for the kernel PID 0 is the caller -/
theorem C18_pid0_is_the_caller :
    ((step cfg { kWitness with self := 7 } 0 (.nice (some 5))).2.procs 7).map (·.nice) = some 5 := by
  decide

/-! ### the execution context does not matter: entry errno, cached status file

  `stepX` is the call made with a given C `errno` on entry of the native layer and — inside
  `Process.oneshot()` — a given cached copy of the status file. The driver runs `stepX`. -/

/-- `nice()` returns the kernel's value for EVERY nice value (−1, the error sentinel of
    getpriority(2), included) and EVERY value of errno on entry -/
theorem C18_nice_get_exact (c : Cfg) (hg : c.Good) (k : Kernel) (pid : Nat) (st : PState) (hpid : pid ≠ 0)
    (hst : k.procs pid = some st) (x : Ctx) :
    stepX c k pid x (.nice none) = (.ok (.int st.nice), k) := by
  rw [show stepX c k pid x (.nice none) = niceGetX c k pid x.errnoIn from rfl, niceGetX_eq c hg]
  exact C18_get_nice c k pid st hpid hst

/-- the same for `ionice()` (ioprio_get(2) reports failure by −1 only) -/
theorem C18_ionice_get_exact (c : Cfg) (hg : c.Good) (k : Kernel) (pid : Nat) (st : PState) (hpid : pid ≠ 0)
    (hst : k.procs pid = some st) (hcls : st.ioprio / 8192 ≤ 3) (x : Ctx) :
    stepX c k pid x (.ionice none none) = (.ok (.ionice (st.ioprio / 8192) (st.ioprio % 8192)), k) := by
  rw [show stepX c k pid x (.ionice none none) = ioniceGetX c k pid x.errnoIn from rfl, ioniceGetX_eq c hg]
  exact C18_get_ionice c hg k pid st hpid hst hcls

/-- the same for `cpu_affinity()` (sched_getaffinity(2): success is the return value 0) -/
theorem C18_affinity_get_exact (c : Cfg) (hg : c.Good) (k : Kernel) (pid : Nat) (st : PState) (hpid : pid ≠ 0)
    (hst : k.procs pid = some st) (hwf : WF k st) (x : Ctx) :
    stepX c k pid x (.cpuAffinity none) = (.ok (.cpus st.affinity), k) := by
  have h := C18_get_affinity c hg k pid st hpid hst hwf
  simp only [step, cpuAffinity] at h
  simp only [stepX, cpuAffinityX, cextAffinityGetE_eq c hg]
  exact h

/-- every call gives the same answer and the same kernel in every context; for the set form of
    `cpu_affinity` this is claimed here only when the status file is read at call time and the
    EINVAL fall-through is absent (the code as it is) — see `C18_invalid_cpus_repaired` and
    `C18_oneshot_stale_status_counterexample` for the rest -/
theorem C18_context_irrelevant (c : Cfg) (hg : c.Good) (k : Kernel) (pid : Nat) (x : Ctx) (req : Req)
    (h : ∀ cpus, req = .cpuAffinity (some cpus) → x.statusMask = none ∧ c.einvalValueError = false) :
    stepX c k pid x req = step c k pid req := by
  cases req with
  | nice v =>
    cases v with
    | none => exact niceGetX_eq c hg k pid _
    | some v => rfl
  | ionice cls v =>
    cases cls with
    | none =>
      cases v with
      | none => exact ioniceGetX_eq c hg k pid _
      | some v => simp only [stepX, step, ioniceGetX_eq c hg]
    | some cls => rfl
  | cpuAffinity cpus =>
    cases cpus with
    | none => simp only [stepX, cpuAffinityX, step, cpuAffinity, cextAffinityGetE_eq c hg]
    | some l =>
      obtain ⟨h1, h2⟩ := h l rfl
      simp only [stepX, cpuAffinityX, step, cpuAffinity, h1, h2, getEligibleCpusX, cpuAffinitySetWith_plain]
  | rlimit res l => rfl

/-- the seeded change C18-1 as a configuration: `errno = 0` dropped, test `priority == -1 && errno != 0` -/
def cfgNoClear : Cfg := { cfg with prioGet := ⟨false, .sentinelAndErrno⟩ }

/-- why errno must be cleared: nice −1 read with a stale errno (ENOENT) raises -/
theorem C18_stale_errno_counterexample :
    (stepX cfgNoClear { kWitness with procs := fun q => if q = 7 then some { stWitness with nice := -1 } else none }
      7 ⟨2, none⟩ (.nice none)).1 = .exc (.osRaw 2) ∧
    (stepX { cfg with prioGet := ⟨false, .errnoOnly⟩ } kWitness 7 ⟨2, none⟩ (.nice none)).1 = .exc (.osRaw 2) ∧
    (stepX { cfg with prioGet := ⟨true, .sentinelOnly⟩ }
      { kWitness with procs := fun q => if q = 7 then some { stWitness with nice := -1 } else none }
      7 ⟨0, none⟩ (.nice none)).1 = .exc (.osRaw 0) := by
  decide

/-- the statement about only-unusable CPU lists at full strength, in every context -/
def C18_invalid_cpus_FullX (c : Cfg) : Prop :=
  ∀ (k : Kernel) (pid : Nat) (st : PState) (cpus : List Int) (x : Ctx), pid ≠ 0 → k.procs pid = some st →
    WF k st → OnlyUnusableCpus k st cpus → stepX c k pid x (.cpuAffinity (some cpus)) = (.exc .valueError, k)

/-- with `fixes/C18-ineligible-valueerror.diff` (fact `affinityEinvalRaisesValueError`) the full
    statement holds, for every cached status file -/
theorem C18_invalid_cpus_repaired (c : Cfg) (hrep : c.einvalValueError = true) : C18_invalid_cpus_FullX c := by
  intro k pid st cpus x hpid hst hwf h
  have hemp : cpus.isEmpty = false := by
    cases cpus with
    | nil => exact absurd rfl h.1
    | cons _ _ => rfl
  have hel : ∃ el, getEligibleCpusX k pid x.statusMask = some el := by
    cases x.statusMask with
    | none =>
      simp only [getEligibleCpusX, getEligibleCpus, hst]
      split <;> exact ⟨_, rfl⟩
    | some m => exact ⟨_, rfl⟩
  obtain ⟨el, hel⟩ := hel
  simp only [stepX, cpuAffinityX, hemp, Bool.false_eq_true, if_false, hrep, hel]
  exact cpuAffinitySetWith_refused el k pid _ (native_refuses_onlyUnusable c k pid st cpus hpid hst hwf.ncpu h)

/-- With the repair, the refinement holds for EVERY request in EVERY context, without the
    exclusion of the finding's region: whatever the specification promises, the call made with
    any entry errno and any cached status file yields exactly that result and that kernel. -/
theorem C18_refines_any_context (c : Cfg) (hg : c.Good) (hrep : c.einvalValueError = true) (k : Kernel)
    (pid : Nat) (st : PState) (x : Ctx) (req : Req) (o : Out) (k' : Kernel) (hpid : pid ≠ 0)
    (hst : k.procs pid = some st) (hwf : WF k st)
    (hs : Spec.expect k pid st req = .promised o k') : stepX c k pid x req = (o, k') := by
  by_cases haff : ∃ cpus, req = .cpuAffinity (some cpus)
  · obtain ⟨cpus, rfl⟩ := haff
    have hel : ∃ el, getEligibleCpusX k pid x.statusMask = some el := by
      cases x.statusMask with
      | none =>
        simp only [getEligibleCpusX, getEligibleCpus, hst]
        split <;> exact ⟨_, rfl⟩
      | some m => exact ⟨_, rfl⟩
    obtain ⟨el, hel⟩ := hel
    by_cases hreg : InFindingRegion k st (.cpuAffinity (some cpus))
    · obtain ⟨hne, hall, _⟩ := hreg
      have hou : OnlyUnusableCpus k st cpus :=
        ⟨hne, fun y hy => ⟨by
          have := hall y hy
          have := hwf.ncpu
          have := hwf.stat
          simp only [fitsCLong, decide_eq_true_eq]; omega, Or.inr (Or.inr (hall y hy).2.2)⟩⟩
      rw [expect_of_onlyUnusable pid hou] at hs
      simp only [Verdict.promised.injEq] at hs
      obtain ⟨rfl, rfl⟩ := hs
      exact C18_invalid_cpus_repaired c hrep k pid st cpus x hpid hst hwf hou
    · have h1 := C18_refines c hg k pid st _ o k' hpid hst hwf hreg hs
      simp only [step, cpuAffinity, hg.count, Bool.false_eq_true, if_false, hg.empty] at h1
      simp only [stepX, cpuAffinityX, hg.count, Bool.false_eq_true, if_false, hg.empty, hrep, hel]
      rcases expect_affinity_set_shape hs with ho | ⟨ho, hk⟩
      · subst ho
        split at h1
        · rename_i he
          simp only [he, if_true]
          exact cpuAffinitySetWith_ok _ _ k pid _ k' ((cpuAffinitySet_cases k pid _ _ _ h1).1 rfl)
        · rename_i he
          simp only [he, Bool.false_eq_true, if_false]
          exact cpuAffinitySetWith_ok _ _ k pid _ k' ((cpuAffinitySet_cases k pid _ _ _ h1).1 rfl)
      · subst ho
        have hk' := hk.symm
        subst hk'
        split at h1
        · rename_i he
          simp only [he, if_true]
          exact cpuAffinitySetWith_refused el k pid _ ((cpuAffinitySet_cases k pid _ _ _ h1).2 rfl)
        · rename_i he
          simp only [he, Bool.false_eq_true, if_false]
          exact cpuAffinitySetWith_refused el k pid _ ((cpuAffinitySet_cases k pid _ _ _ h1).2 rfl)
  · have hctx := C18_context_irrelevant c hg k pid x req (fun cpus h => absurd ⟨cpus, h⟩ haff)
    rw [hctx]
    refine C18_refines c hg k pid st req o k' hpid hst hwf ?_ hs
    intro hr
    cases req with
    | nice v => exact hr
    | ionice a b => exact hr
    | rlimit a b => exact hr
    | cpuAffinity cpus =>
      cases cpus with
      | none => exact hr
      | some l => exact haff ⟨l, rfl⟩

def cfgUnrepaired : Cfg := { cfg with einvalValueError := false }
def cfgRepaired : Cfg := { cfg with einvalValueError := true }

/-- without the repair the full statement is false (finding `C18-ineligible-oserror`) -/
theorem C18_invalid_cpus_counterexampleX : ¬ C18_invalid_cpus_FullX cfgUnrepaired := by
  intro h
  have := h kWitness 7 stWitness [2] ⟨0, none⟩ (by decide) rfl wf_witness ⟨by decide, by decide⟩
  have h2 : (stepX cfgUnrepaired kWitness 7 ⟨0, none⟩ (.cpuAffinity (some [2]))).1 = .exc (.osError .EINVAL) := by
    decide
  rw [this] at h2
  cases h2

/-- a process confined to CPUs 0-1 of four, currently on both -/
def kBoth : Kernel :=
  { kWitness with procs := fun q => if q = 7 then some { stWitness with affinity := [0, 1] } else none }

/-- without the repair `oneshot()` changes the answer: the mask is `0-1` now (the diagnosis would
    say ValueError), but a status file cached while the mask was `0` makes the same call raise
    OSError(EINVAL); with the repair both give ValueError -/
theorem C18_oneshot_stale_status_counterexample :
    (stepX cfgUnrepaired kBoth 7 ⟨0, none⟩ (.cpuAffinity (some [2]))).1 = .exc .valueError ∧
    (stepX cfgUnrepaired kBoth 7 ⟨0, some [0]⟩ (.cpuAffinity (some [2]))).1 = .exc (.osError .EINVAL) ∧
    (stepX cfgRepaired kBoth 7 ⟨0, some [0]⟩ (.cpuAffinity (some [2]))).1 = .exc .valueError := by
  decide

/-! ### rlimit: RLIM_INFINITY, soft > hard, resource out of range -/

/-- Python int ↔ `rlim_t`: −1 is RLIM_INFINITY (2^64−1) in both directions, and the conversion
    round-trips on every 64-bit value -/
theorem C18_rlim_conversion :
    toU64 (-1) = 18446744073709551615 ∧ ofU64 18446744073709551615 = -1 ∧
    (∀ n : Nat, n < 18446744073709551616 → toU64 (ofU64 n) = n) ∧
    (∀ v : Int, fitsCLong v = true → ofU64 (toU64 v) = v) := by
  refine ⟨by decide, by decide, fun n hn => ?_, fun v hv => ?_⟩
  · unfold toU64 ofU64; split <;> split <;> omega
  · simp only [fitsCLong, decide_eq_true_eq] at hv
    unfold toU64 ofU64; split <;> split <;> omega

/-- soft > hard (as unsigned 64-bit values, so `(-1, 5)` too): the kernel's EINVAL reaches the
    caller as ValueError and nothing changes -/
theorem C18_rlimit_soft_gt_hard (c : Cfg) (hg : c.Good) (k : Kernel) (pid : Nat) (st : PState) (res : Nat)
    (s h : Int) (hpid : pid ≠ 0) (hst : k.procs pid = some st) (hres : res < 16)
    (hs : fitsCLong s = true) (hh : fitsCLong h = true) (hgt : toU64 s > toU64 h) :
    step c k pid (.rlimit res (some [s, h])) = (.exc .valueError, k) := by
  have hfit : fitsCInt (res : Int) = true := by simp [fitsCInt]; omega
  have hr : ¬ ((res : Int) < 0 ∨ (res : Int) ≥ 16) := by omega
  simp [step, rlimitL, hpid, hg.pair, pyPrlimitSet, resourceCheck, hfit, hr, hs, hh, sysPrlimitSet,
    resolve_pid k hpid, hst, hgt, wrapExc]

/-- a resource number outside 0..15: ValueError for the get and the set form, nothing changes -/
theorem C18_rlimit_bad_resource (c : Cfg) (k : Kernel) (pid : Nat) (res : Int) (l : Option (List Int))
    (hpid : pid ≠ 0) (hfit : fitsCInt res = true) (hres : res < 0 ∨ res ≥ 16) :
    step c k pid (.rlimit res l) = (.exc .valueError, k) := by
  cases l with
  | none => simp [step, rlimitL, hpid, pyPrlimitGet, resourceCheck, hfit, hres, wrapExc]
  | some l =>
    simp only [step, rlimitL, hpid, false_and, if_false]
    split
    · rfl
    · simp [pyPrlimitSet, resourceCheck, hfit, hres, wrapExc]

/-! ### the hypotheses are satisfiable -/

example : WF kWitness stWitness ∧ kWitness.procs 7 = some stWitness ∧ (7 : Nat) ≠ 0 :=
  ⟨wf_witness, rfl, by decide⟩
example : ValidIonice 2 (some 5) ∧ ValidIonice 3 none := by unfold ValidIonice; simp
example : ValidCpus kWitness stWitness [1, 0, 1] := ⟨by decide, by decide⟩
example : ValidLimits kWitness stWitness 3 5 (-1) 5 Spec.rlimInfinity :=
  ⟨by decide, by decide, by decide, by decide, by decide, Or.inl rfl⟩
example : OnlyUnusableCpus kWitness stWitness [2, 9, -1] := ⟨by decide, by decide⟩
example : ¬ InFindingRegion kWitness stWitness (.cpuAffinity (some [9])) := by
  rintro ⟨_, h, _⟩; have := h 9 (by simp); simp [kWitness] at this
example : InFindingRegion kWitness stWitness (.cpuAffinity (some [2])) := ⟨by decide, by decide, by decide⟩
example : cfgRepaired.einvalValueError = true := rfl

/-- proof obligation on the translator's fact (fix aebc260 landed): after the diagnosis loop an
    EINVAL of `sched_setaffinity` is turned into ValueError; dropping that breaks this theorem -/
theorem cfg_einval_is_valueError : cfg.einvalValueError = true := by decide

/-- **C18_invalid_cpus.** The full statement (only nonexistent / ineligible CPUs → ValueError,
    nothing changed), for the code as it is now, in every context. -/
theorem C18_invalid_cpus : C18_invalid_cpus_FullX cfg :=
  C18_invalid_cpus_repaired cfg cfg_einval_is_valueError

/-- **C18_refines_code.** The refinement without any excluded region, for the code as it is now. -/
theorem C18_refines_code (k : Kernel) (pid : Nat) (st : PState) (x : Ctx) (req : Req) (o : Out) (k' : Kernel)
    (hpid : pid ≠ 0) (hst : k.procs pid = some st) (hwf : WF k st)
    (hs : Spec.expect k pid st req = .promised o k') : stepX cfg k pid x req = (o, k') :=
  C18_refines_any_context cfg cfg_good cfg_einval_is_valueError k pid st x req o k' hpid hst hwf hs
example : fitsCLong (-1) = true ∧ fitsCLong 5 = true ∧ toU64 (-1) > toU64 5 := by decide
example : fitsCInt 16 = true ∧ ((16 : Int) < 0 ∨ (16 : Int) ≥ 16) := by decide

/-! ### worlds whose `/proc/stat` does not number the CPUs `0..N-1` (seeded C18-2)

  `statCpus` = number of `cpuN` lines = `len(per_cpu_times())` is independent of which CPU ids the
  process may use: every theorem above quantifies over all such worlds (`WF` only asks
  `statCpus ≤ ncpu`). In particular `C18_empty_selects_all_eligible` / `C18_refines_code` hold for
  them with the `range(1024)` request of the Linux branch. -/

/-- four possible CPU ids, CPU 2 offline (three `cpuN` lines), the process on CPU 0 -/
def stHole : PState := { stWitness with affinity := [0], cpuset := [0, 1, 3] }
def kHole : Kernel := { kWitness with procs := fun q => if q = 7 then some stHole else none, statCpus := 3 }
/-- a container: 16 ids, the cpuset is 14-15, a virtualised `/proc/stat` shows `cpu0`, `cpu1` -/
def stLxc : PState := { stWitness with affinity := [14], cpuset := [14, 15] }
def kLxc : Kernel :=
  { kWitness with procs := fun q => if q = 7 then some stLxc else none, ncpu := 16, statCpus := 2 }

/-- the request shape of the other platforms' branch, `range(len(cpu_times(percpu=True)))` -/
def cfgCount : Cfg := { cfg with emptyAsksCount := true }

theorem wf_hole : WF kHole stHole :=
  ⟨by decide, by decide, by decide, by decide, by decide,
    fun _ => ⟨by simp [stHole, stWitness], by simp [stHole, stWitness]⟩, by decide⟩

theorem wf_lxc : WF kLxc stLxc :=
  ⟨by decide, by decide, by decide, by decide, by decide,
    fun _ => ⟨by simp [stLxc, stWitness], by simp [stLxc, stWitness]⟩, by decide⟩

/-- why `cpu_affinity([])` must not ask for CPUs `0..N-1`, N the number of `cpuN` lines: with CPU 2
    offline the eligible CPU 3 is left out; in the container none of `0..1` is eligible and the
    call fails, the mask stays `[14]`. Both worlds are well-formed. -/
theorem C18_empty_count_counterexample :
    Spec.eligible kHole stHole = [0, 1, 3] ∧
    ((stepX cfgCount kHole 7 ⟨0, none⟩ (.cpuAffinity (some []))).2.procs 7).map (·.affinity) = some [0, 1] ∧
    Spec.eligible kLxc stLxc = [14, 15] ∧
    (stepX { cfgCount with einvalValueError := true } kLxc 7 ⟨0, none⟩ (.cpuAffinity (some []))).1 = .exc .valueError ∧
    ((stepX { cfgCount with einvalValueError := true } kLxc 7 ⟨0, none⟩ (.cpuAffinity (some []))).2.procs 7).map
      (·.affinity) = some [14] := by
  decide

/-- … whereas the code as it is (`range(1024)`) selects all eligible CPUs in both worlds, in every
    context (instances of `C18_refines_code`) -/
theorem C18_empty_selects_all_eligible_with_holes (x : Ctx) :
    ((stepX cfg kHole 7 x (.cpuAffinity (some []))).2.procs 7).map (·.affinity) = some [0, 1, 3] ∧
    ((stepX cfg kLxc 7 x (.cpuAffinity (some []))).2.procs 7).map (·.affinity) = some [14, 15] := by
  constructor
  · rw [C18_refines_code kHole 7 stHole x (.cpuAffinity (some [])) _ _ (by decide) rfl wf_hole rfl]
    decide
  · rw [C18_refines_code kLxc 7 stLxc x (.cpuAffinity (some [])) _ _ (by decide) rfl wf_lxc rfl]
    decide

/-- a valid CPU whose id is ≥ the number of `cpuN` lines is set without complaint: the "invalid
    CPU" test of the diagnosis loop (`cpu not in range(len(per_cpu_times()))`) runs only after the
    native layer refused the whole list, i.e. when no listed CPU was usable anyway — it can put the
    wrong CPU into the message of the ValueError, never turn a valid request into an error -/
theorem C18_valid_cpu_beyond_stat_lines :
    ((stepX cfgRepaired kHole 7 ⟨0, none⟩ (.cpuAffinity (some [3]))).1 = .ok .none) ∧
    ((stepX cfgRepaired kHole 7 ⟨0, none⟩ (.cpuAffinity (some [3]))).2.procs 7).map (·.affinity) = some [3] ∧
    ((stepX cfgRepaired kLxc 7 ⟨0, none⟩ (.cpuAffinity (some [15, 14]))).2.procs 7).map (·.affinity) = some [14, 15] ∧
    (stepX cfgRepaired kLxc 7 ⟨0, none⟩ (.cpuAffinity (some [1]))).1 = .exc .valueError := by
  decide

/-! ### the arguments as Python objects (enum members, bools, tuples / sets / ranges / iterators)

  `stepPy` is the call as the caller writes it; the driver runs `stepPy`. -/

/-- Whether an argument is a plain int, a member of an `IntEnum` (`IOPRIO_CLASS_*`, a resource
    wrapped in an enum) or a bool, and whether the CPUs / limits come as a list, tuple, set or range:
    the call gives the same answer and the same kernel as with the bare values — for every
    configuration, kernel, existing process, context. -/
theorem C18_arg_form_irrelevant (c : Cfg) (k : Kernel) (pid : Nat) (st : PState) (x : Ctx) (r : PyReq)
    (hst : k.procs pid = some st) (h : r.Sized) : stepPy c k pid x r = stepX c k pid x r.erase := by
  rw [stepPy_alive c hst, stepPyCore_sized c k pid x r h]

/-- … and two requests that differ only in the forms of their arguments have the same effect
    (process existing or not) -/
theorem C18_same_values_same_effect (c : Cfg) (k : Kernel) (pid : Nat) (x : Ctx) (r r' : PyReq)
    (h : r.Sized) (h' : r'.Sized) (he : r.erase = r'.erase) : stepPy c k pid x r = stepPy c k pid x r' := by
  simp only [stepPy, goneGuard, isSet_erase he, stepPyCore_sized c k pid x r h, stepPyCore_sized c k pid x r' h', he]

/-- a non-exhausted iterator of CPUs is as good as the list of what it yields -/
theorem C18_cpu_iterator (c : Cfg) (k : Kernel) (pid : Nat) (st : PState) (x : Ctx) (l : List Int)
    (hst : k.procs pid = some st) (h : l ≠ []) :
    stepPy c k pid x (.cpuAffinity (some (.iterator, l))) = stepX c k pid x (.cpuAffinity (some l)) := by
  rw [stepPy_alive c hst, stepPyCore_iterator_nonempty c k pid x l h]

/-- **C18_refines_code_py.** The refinement for the code as it is, with the arguments as Python
    objects: whatever the specification promises for the call as written, `stepPy` yields exactly
    that result and that kernel, in every context. -/
theorem C18_refines_code_py (k : Kernel) (pid : Nat) (st : PState) (x : Ctx) (r : PyReq) (o : Out) (k' : Kernel)
    (hpid : pid ≠ 0) (hst : k.procs pid = some st) (hwf : WF k st)
    (hs : Spec.expectPy k pid st r = .promised o k') : stepPy cfg k pid x r = (o, k') := by
  unfold Spec.expectPy at hs
  split at hs
  · cases hs
  · cases hs
  · rename_i h1 h2
    rw [stepPy_alive cfg hst]
    by_cases hsz : r.Sized
    · rw [stepPyCore_sized cfg k pid x r hsz]
      exact C18_refines_code k pid st x _ o k' hpid hst hwf hs
    · -- an iterator that is not covered by the two silent cases: a non-empty iterator of CPUs
      cases r with
      | nice v => exact absurd trivial hsz
      | ionice a b => exact absurd trivial hsz
      | cpuAffinity cpus =>
        cases cpus with
        | none => exact absurd trivial hsz
        | some p =>
          obtain ⟨f, l⟩ := p
          have hf : f = .iterator := Classical.byContradiction fun hne => hsz hne
          subst hf
          have hl : l ≠ [] := fun hl => h1 (by rw [hl])
          rw [stepPyCore_iterator_nonempty cfg k pid x l hl]
          exact C18_refines_code k pid st x _ o k' hpid hst hwf hs
      | rlimit res l =>
        cases l with
        | none => exact absurd trivial hsz
        | some p =>
          obtain ⟨f, l⟩ := p
          have hf : f = .iterator := Classical.byContradiction fun hne => hsz hne
          subst hf
          exact absurd rfl (h2 res l)

/-- Outside the statement (it names `cpu_affinity([])`, the empty list), noted as behaviour: an
    EXHAUSTED ITERATOR is truthy, so the front end's `if not cpus` does not fire, the platform layer
    receives an empty list, the kernel refuses the empty mask, and the caller gets ValueError —
    the mask is NOT reset to all eligible CPUs, nothing changes. Every context. -/
theorem C18_empty_iterator_is_refused (c : Cfg) (hrep : c.einvalValueError = true) (k : Kernel) (pid : Nat)
    (st : PState) (x : Ctx) (hpid : pid ≠ 0) (hst : k.procs pid = some st) :
    stepPy c k pid x (.cpuAffinity (some (.iterator, []))) = (.exc .valueError, k) := by
  have hel : ∃ el, getEligibleCpusX k pid x.statusMask = some el := by
    cases x.statusMask with
    | none =>
      simp only [getEligibleCpusX, getEligibleCpus, hst]
      split <;> exact ⟨_, rfl⟩
    | some m => exact ⟨_, rfl⟩
  obtain ⟨el, hel⟩ := hel
  rw [stepPy_alive c hst]
  simp only [stepPyCore, hrep, hel, dedup_nil]
  exact cpuAffinitySetWith_refused el k pid [] (Or.inr (cextAffinitySet_nil k pid st hpid hst))

/-- limits given as an iterator: `len(limits)` raises TypeError before the kernel is asked anything -/
theorem C18_limits_iterator_TypeError (c : Cfg) (k : Kernel) (pid : Nat) (st : PState) (x : Ctx) (res : Scalar)
    (l : List Int) (hpid : pid ≠ 0) (hst : k.procs pid = some st) :
    stepPy c k pid x (.rlimit res (some (.iterator, l))) = (.exc .typeError, k) := by
  rw [stepPy_alive c hst]
  simp [stepPyCore, hpid]

/-- **C18_exception_no_effect.** EVERY call that raises — whatever the request, the forms of its
    arguments, the configuration, the kernel, the context, valid or not, listed in the statement or
    not (privilege failures, overflowing ints, unknown classes, a vanished process …) — leaves the
    kernel exactly as it was: same state of every process, empty effect log. -/
theorem C18_exception_no_effect (c : Cfg) (k : Kernel) (pid : Nat) (x : Ctx) (r : PyReq) (e : Exc) (k' : Kernel)
    (h : stepPy c k pid x r = (.exc e, k')) : k' = k := by
  have := excKeeps_stepPy c k pid x r e (by rw [h])
  rw [h] at this
  exact this

/-- no call — any request in any form, any context, any configuration — changes another process
    or a kernel parameter (`C18_others_unchanged` for `stepPy`) -/
theorem C18_others_unchanged_py (c : Cfg) (k : Kernel) (pid : Nat) (hpid : pid ≠ 0) (x : Ctx) (r : PyReq) :
    (∀ q, q ≠ pid → (stepPy c k pid x r).2.procs q = k.procs q) ∧
    (stepPy c k pid x r).2.ncpu = k.ncpu ∧ (stepPy c k pid x r).2.nrOpen = k.nrOpen ∧
    (stepPy c k pid x r).2.capResource = k.capResource ∧ (stepPy c k pid x r).2.self = k.self :=
  let f := frame_stepPy c k hpid x r
  ⟨f.others, f.ncpu, f.nrOpen, f.cap, f.self⟩

/-- a vanished process: every get form answers NoSuchProcess (the kernel's ESRCH through
    `wrap_exceptions`), every set form — valid or not — answers NoSuchProcess before its arguments
    are looked at (the guard), a level without a class is still a ValueError; nothing changes -/
theorem C18_gone_process (c : Cfg) (hg : c.Good) (k : Kernel) (pid : Nat) (x : Ctx) (hpid : pid ≠ 0)
    (hgone : k.procs pid = none) :
    stepPy c k pid x (.nice none) = (.exc (.noSuchProcess pid), k) ∧
    stepPy c k pid x (.ionice none none) = (.exc (.noSuchProcess pid), k) ∧
    stepPy c k pid x (.cpuAffinity none) = (.exc (.noSuchProcess pid), k) ∧
    (∀ res : Scalar, fitsCInt res.val = true → 0 ≤ res.val ∧ res.val < 16 →
      stepPy c k pid x (.rlimit res none) = (.exc (.noSuchProcess pid), k)) ∧
    (∀ v : Scalar, stepPy c k pid x (.ionice none (some v)) = (.exc .valueError, k)) ∧
    (∀ r : PyReq, r.isSet = true → stepPy c k pid x r = (.exc (.noSuchProcess pid), k)) := by
  have hr := resolve_pid k hpid
  have hguard : ∀ r : PyReq, r.isSet = false → stepPy c k pid x r = stepPyCore c k pid x r := by
    intro r h; simp [stepPy, goneGuard, h]
  refine ⟨?_, ?_, ?_, ?_, ?_, ?_⟩
  · rw [hguard _ rfl]
    show niceGetX c k pid x.errnoIn = _
    rw [niceGetX_eq c hg]
    simp [niceGet, cextGetpriority, sysGetpriority, hr, hgone, ofSys, wrapExc]
  · rw [hguard _ rfl]
    show ioniceGetX c k pid x.errnoIn = _
    rw [ioniceGetX_eq c hg]
    simp [ioniceGet, cextIoprioGet, sysIoprioGet, hr, hgone, wrapExc]
  · rw [hguard _ rfl]
    show cpuAffinityX c k pid x none = _
    simp only [cpuAffinityX, cextAffinityGetE_eq c hg]
    simp [cextAffinityGet, sysSchedGetaffinity, hr, hgone, ofSys, wrapExc]
  · intro res hfit hres
    rw [hguard _ rfl]
    show rlimitL c k pid res.val none = _
    have h2 : ¬ (res.val < 0 ∨ res.val ≥ 16) := by omega
    simp [rlimitL, hpid, pyPrlimitGet, resourceCheck, hfit, h2, sysPrlimitGet, hr, hgone, wrapExc]
  · intro v
    rw [hguard _ rfl]
    show stepX c k pid x (.ionice none (some v.val)) = _
    simp [stepX, hg.vwc]
  · intro r h
    simp [stepPy, goneGuard, h, hpid, hgone]

example : kWitness.procs 9 = none ∧ (9 : Nat) ≠ 0 ∧ (PyReq.nice (some (.int 5))).isSet = true := ⟨rfl, by decide, rfl⟩
example : (PyReq.ionice (some (.enum 2)) (some (.bool true))).Sized := trivial
example : (PyReq.ionice (some (.enum 2)) (some (.bool true))).erase = .ionice (some 2) (some 1) := rfl
example : ¬ (PyReq.cpuAffinity (some (.iterator, [1]))).Sized := fun h => h rfl

end Psutil.C18
