/-
  Props/C02.lean — property theorems for C02: `==`, `hash()` and `is_running()` follow the process,
  not the PID.  The model is the identity machine shared with C01 (Model/C01.lean), instantiated
  with the facts extracted for this check (Generated/C02.lean → Model/C02Gen.lean); helper lemmas
  live in Proofs/C01*.lean and Proofs/C02.lean.

  `cfg_good` is the proof obligation that breaks when `boot_time()` rewrites `BOOT_TIME` (lead L2) or
  when `create_time()` stops using the cached value.

  Histories: any list of kernel events (spawn / exit / reap / tick / **clock step**) and psutil calls
  (Process(pid) at any point, is_running, signals, setters, ppid, **boot_time()**, create_time, ==,
  hash, process_iter, oneshot() entry/exit, str), plus permission changes (the kernel refusing a PID with
  EPERM / EACCES).  Hypotheses: the published boot time is never 0 (`b0 ≠ 0`) and `/proc/pid/stat` can always be
  opened (`HistOK`) — what `==` / `is_running()` answer otherwise is characterised at the end of the file.

  Objects: `St.ps.objs` holds every `Process` object the history produced — those built by
  `Process(pid)` AND those built and yielded by `process_iter()` (which appends them and returns their
  indices); every theorem that says "for any object i of the state" therefore speaks about both kinds, and
  about pairs mixing them.
-/
import PsutilModel.Proofs.C02
import PsutilModel.Proofs.C01Hid
import PsutilModel.Model.C02Gen
namespace Psutil.C02
open Psutil.C01 Psutil.C01.Spec

/-- `BOOT_TIME` is written once and `create_time()` uses it -/
theorem cfg_good : cfg.BootGood := ⟨by decide, by decide⟩

/-- **C02_ghost_meaning.** What the specification calls the object's process start (`ghost`) is the start
    stamp of the incarnation owning the PID at the instant `Process(pid)` succeeded — in any state. -/
theorem C02_ghost_meaning (s : St) (pid : Int) (i : Nat)
    (h : (step cfg s (.c (.newObj pid))).2 = .obj i) :
    ∃ o, (step cfg s (.c (.newObj pid))).1.ps.objs[i]? = some o ∧ (o.pid : Int) = pid
      ∧ s.kern.owner o.pid = some o.ghost ∧ o.gone = false ∧ o.reused = false := by
  simp only [step] at h ⊢
  split at h
  · split at h <;> cases h
  · rename_i hneg
    rw [if_neg hneg]
    have hm := mkObj_shape cfg s.kern s.ps pid.toNat
    cases hmk : mkObj cfg s.kern s.ps pid.toNat with
    | mk ps' oo =>
      rw [hmk] at hm h
      cases oo with
      | none => cases h
      | some o =>
        simp only [Out.obj.injEq] at h
        subst h
        obtain ⟨_, _, hpid, hown, hg, hr⟩ := hm
        exact ⟨o, List.getElem?_concat_length, by rw [hpid]; omega, by rw [hpid]; exact hown, hg, hr⟩

/-- **C02_eq_iff_same_incarnation.** After any history, for any two objects (built at any two points of
    it): `a == b` is True exactly when they have the same PID and were built for the same process start. -/
theorem C02_eq_iff_same_incarnation (b0 : Nat) (hb0 : BtOK cfg.createNoneTest b0) (h : List Ev) (hh : HistOK cfg.createNoneTest h)
    (i j : Nat) (a b : PObj)
    (ha : (run cfg (St.init b0) h).ps.objs[i]? = some a) (hb : (run cfg (St.init b0) h).ps.objs[j]? = some b) :
    (step cfg (run cfg (St.init b0) h) (.c (.eq i j))).2 = .bool (decide (SameIncarnation a b)) := by
  have hinv := run_inv cfg_good h _ hh (init_inv cfg.clk hb0)
  generalize run cfg (St.init b0) h = s at *
  obtain ⟨B, hoa, hob⟩ := shared_boot hinv ha hb
  rw [step_eq_out cfg s ha hb]
  congr 1
  rw [hoa.ident_eq, hob.ident_eq, Bool.eq_iff_iff, decide_eq_true_iff]
  simp [SameIncarnation]

/-- **C02_hash_congr.** Equal objects hash alike. -/
theorem C02_hash_congr (b0 : Nat) (hb0 : BtOK cfg.createNoneTest b0) (h : List Ev) (hh : HistOK cfg.createNoneTest h)
    (i j : Nat) (a b : PObj)
    (ha : (run cfg (St.init b0) h).ps.objs[i]? = some a) (hb : (run cfg (St.init b0) h).ps.objs[j]? = some b)
    (hsame : SameIncarnation a b) :
    (step cfg (run cfg (St.init b0) h) (.c (.hash i))).2 = (step cfg (run cfg (St.init b0) h) (.c (.hash j))).2 := by
  have hinv := run_inv cfg_good h _ hh (init_inv cfg.clk hb0)
  generalize run cfg (St.init b0) h = s at *
  obtain ⟨B, hoa, hob⟩ := shared_boot hinv ha hb
  rw [step_hash_out cfg s ha, step_hash_out cfg s hb, hoa.ident_eq, hob.ident_eq, hsame.1, hsame.2]

/-- **C02_isRunning_iff_listed.** After any history, `is_running()` is True exactly when the incarnation the
    object was built for is still in the process table (a zombie is still listed), False otherwise —
    including when the PID is alive again under another process. -/
theorem C02_isRunning_iff_listed (b0 : Nat) (hb0 : BtOK cfg.createNoneTest b0) (h : List Ev) (hh : HistOK cfg.createNoneTest h) (i : Nat) (o : PObj)
    (ho : (run cfg (St.init b0) h).ps.objs[i]? = some o) :
    (step cfg (run cfg (St.init b0) h) (.c (.isRunning i))).2 = .bool (listedB (run cfg (St.init b0) h).kern o) := by
  have hinv := run_inv cfg_good h _ hh (init_inv cfg.clk hb0)
  generalize run cfg (St.init b0) h = s at *
  obtain ⟨B, hB, hok⟩ := hinv.ps.objs o (List.mem_of_getElem? ho)
  have hs := isRunningO_spec cfg_good hB (hinv.ps.boot_nz B hB) hok
  rw [step_isRunning_out cfg s ho]
  congr 1
  rw [Bool.eq_iff_iff, hs.iff, listedB_iff, listed_iff_owner hinv.kern]

/-- a zombie is still listed: `exit` alone never changes any `is_running()` answer's specification -/
theorem C02_zombie_still_listed (k : Kernel) (o : PObj) (pid : Nat) :
    Listed (k.apply (.exit pid)) o ↔ Listed k o := by
  simp only [Listed, Kernel.apply, List.mem_map]
  constructor
  · rintro ⟨x, ⟨y, hy, rfl⟩, hp, hs⟩
    refine ⟨y, hy, ?_, ?_⟩
    · split at hp <;> exact hp
    · split at hs <;> exact hs
  · rintro ⟨y, hy, hp, hs⟩
    refine ⟨_, ⟨y, hy, rfl⟩, ?_, ?_⟩
    · split <;> exact hp
    · split <;> exact hs

/-- **C02_isRunning_sticky.** Once the object's incarnation has left the table, `is_running()` is False after
    every continuation of the history — PID reuse, clock steps, `boot_time()` and any other call included. -/
theorem C02_isRunning_sticky (b0 : Nat) (hb0 : BtOK cfg.createNoneTest b0) (h : List Ev) (hh : HistOK cfg.createNoneTest h) (i : Nat) (o : PObj)
    (ho : (run cfg (St.init b0) h).ps.objs[i]? = some o)
    (hgone : ¬ Listed (run cfg (St.init b0) h).kern o) (h2 : List Ev) (hh2 : HistOK cfg.createNoneTest h2) :
    (step cfg (run cfg (run cfg (St.init b0) h) h2) (.c (.isRunning i))).2 = .bool false := by
  have hinv := run_inv cfg_good h _ hh (init_inv cfg.clk hb0)
  generalize run cfg (St.init b0) h = s at *
  have hinv2 := run_inv cfg_good h2 s hh2 hinv
  obtain ⟨o', ho', hevo⟩ := run_ext cfg_good h2 s hh2 hinv i o ho
  obtain ⟨B, hB, hok⟩ := hinv.ps.objs o (List.mem_of_getElem? ho)
  have hdead : s.kern.owner o.pid ≠ some o.ghost := fun e => hgone ((listed_iff_owner hinv.kern o).2 e)
  have hdead2 := run_dead (c := cfg) o.pid o.ghost h2 s hok.ghost_lt hdead
  obtain ⟨B', hB', hok'⟩ := hinv2.ps.objs o' (List.mem_of_getElem? ho')
  have hs := isRunningO_spec cfg_good hB' (hinv2.ps.boot_nz B' hB') hok'
  rw [step_isRunning_out cfg _ ho']
  congr 1
  cases hr : (isRunningO cfg (run cfg s h2).kern (run cfg s h2).ps o').2.2 with
  | false => rfl
  | true =>
    have := hs.iff.1 hr
    rw [hevo.pid, hevo.ghost] at this
    exact absurd this hdead2

/-- the answer given by `is_running()` itself is sticky: after it returned False once, it returns False
    ever after -/
theorem C02_isRunning_false_forever (b0 : Nat) (hb0 : BtOK cfg.createNoneTest b0) (h : List Ev) (hh : HistOK cfg.createNoneTest h) (i : Nat)
    (hfalse : (step cfg (run cfg (St.init b0) h) (.c (.isRunning i))).2 = .bool false)
    (h2 : List Ev) (hh2 : HistOK cfg.createNoneTest h2) :
    (step cfg (run cfg (St.init b0) (h ++ .c (.isRunning i) :: h2)) (.c (.isRunning i))).2 = .bool false := by
  cases ho : (run cfg (St.init b0) h).ps.objs[i]? with
  | none => rw [step_bad_index cfg _ (call := .isRunning i) rfl ho] at hfalse; cases hfalse
  | some o =>
    rw [C02_isRunning_iff_listed b0 hb0 h hh i o ho] at hfalse
    have hgone : ¬ Listed (run cfg (St.init b0) h).kern o := by
      rw [← listedB_iff]; simp only [Out.bool.injEq] at hfalse; simp [hfalse]
    have hrun : ∀ (l1 l2 : List Ev) (s : St), run cfg s (l1 ++ l2) = run cfg (run cfg s l1) l2 := by
      intro l1; induction l1 with
      | nil => intro l2 s; rfl
      | cons e es ih => intro l2 s; exact ih l2 _
    rw [hrun]
    exact C02_isRunning_sticky b0 hb0 h hh i o ho hgone (.c (.isRunning i) :: h2)
      (fun e he => by
        rcases List.mem_cons.1 he with rfl | he
        · trivial
        · exact hh2 e he)

/-- **C02_answers_stable.** `==` and `hash()` of existing objects are not affected by anything that happens
    later (clock steps, `boot_time()`, exits, PID reuse, new objects, any call): the identity an object
    was given at construction is never recomputed. -/
theorem C02_answers_stable (b0 : Nat) (hb0 : BtOK cfg.createNoneTest b0) (h : List Ev) (hh : HistOK cfg.createNoneTest h) (i j : Nat) (a b : PObj)
    (ha : (run cfg (St.init b0) h).ps.objs[i]? = some a) (hb : (run cfg (St.init b0) h).ps.objs[j]? = some b)
    (h2 : List Ev) (hh2 : HistOK cfg.createNoneTest h2) :
    (step cfg (run cfg (run cfg (St.init b0) h) h2) (.c (.eq i j))).2
        = (step cfg (run cfg (St.init b0) h) (.c (.eq i j))).2
    ∧ (step cfg (run cfg (run cfg (St.init b0) h) h2) (.c (.hash i))).2
        = (step cfg (run cfg (St.init b0) h) (.c (.hash i))).2 := by
  have hinv := run_inv cfg_good h _ hh (init_inv cfg.clk hb0)
  generalize run cfg (St.init b0) h = s at *
  obtain ⟨a', ha', ea⟩ := run_ext cfg_good h2 s hh2 hinv i a ha
  obtain ⟨b', hb', eb⟩ := run_ext cfg_good h2 s hh2 hinv j b hb
  rw [step_eq_out cfg _ ha' hb', step_eq_out cfg s ha hb, step_hash_out cfg _ ha', step_hash_out cfg s ha,
    ea.pid, ea.ident, eb.pid, eb.ident]
  exact ⟨rfl, rfl⟩

/-! ## Objects handed out by `process_iter()` -/

/-- **C02_iter_keeps_objects.** In any state, `process_iter()` does not touch the kernel nor any existing
    object — cached or not, evicted from the cache or not: same PID, same identity, same sticky flags. -/
theorem C02_iter_keeps_objects (s : St) (j : Nat) (o : PObj) (ho : s.ps.objs[j]? = some o) :
    (step cfg s (.c .processIter)).1.ps.objs[j]? = some o
      ∧ (step cfg s (.c .processIter)).1.kern = s.kern := by
  rw [step_processIter]
  obtain ⟨t, ht⟩ := (processIter_shape cfg s.kern s.ps).1
  exact ⟨by simp only [ht]; exact getElem?_append_of_some ho t, rfl⟩

/-- **C02_iter_ghost_meaning.** In any state, every handle `(pid, i)` yielded by `process_iter()` is either an
    entry of the cache as it was (the very same object index), or a new object appended behind the
    existing ones whose `ghost` is the start stamp of the incarnation owning `pid` at that instant, with
    no sticky flag; and the new cache is exactly what was yielded. -/
theorem C02_iter_ghost_meaning (s : St) (l : List (Nat × Nat))
    (h : (step cfg s (.c .processIter)).2 = .procs l) :
    (step cfg s (.c .processIter)).1.ps.pmap = l
    ∧ ∀ e ∈ l, e ∈ s.ps.pmap ∨
        (s.ps.objs.length ≤ e.2 ∧ ∃ o, (step cfg s (.c .processIter)).1.ps.objs[e.2]? = some o ∧ o.pid = e.1
          ∧ s.kern.owner e.1 = some o.ghost ∧ o.gone = false ∧ o.reused = false) := by
  rw [step_processIter] at h ⊢
  simp only [Out.procs.injEq] at h
  subst h
  obtain ⟨_, hpm, hy⟩ := processIter_shape cfg s.kern s.ps
  exact ⟨hpm, hy⟩

/-- **C02_iter_handles_valid.** After any history, every handle `(pid, i)` yielded by `process_iter()` names an
    object of the resulting state, and that object's PID is `pid` — so all theorems of this file apply to
    it under index `i`. -/
theorem C02_iter_handles_valid (b0 : Nat) (hb0 : BtOK cfg.createNoneTest b0) (h : List Ev) (hh : HistOK cfg.createNoneTest h) (l : List (Nat × Nat))
    (hl : (step cfg (run cfg (St.init b0) h) (.c .processIter)).2 = .procs l) :
    ∀ e ∈ l, ∃ o, (step cfg (run cfg (St.init b0) h) (.c .processIter)).1.ps.objs[e.2]? = some o ∧ o.pid = e.1 := by
  have hinv := run_inv cfg_good h _ hh (init_inv cfg.clk hb0)
  generalize run cfg (St.init b0) h = s at *
  have hinv' := step_inv cfg_good s (.c .processIter) trivial hinv
  have hpm := (C02_iter_ghost_meaning s l hl).1
  intro e he
  exact hinv'.ps.pmap e (hpm ▸ he)

/-- **C02_oneshot_identity.** Entering or leaving a `oneshot()` block on any object changes nothing the
    properties speak about (no state, no answer). -/
theorem C02_oneshot_identity (s : St) (i : Nat) (enter : Bool) :
    step cfg s (.c (.oneshot i enter)) = (s, .unit) := rfl

/-! ## The status word of `str(p)` / `repr(p)`

Outside the property's statement (C02 speaks about `==`, `hash()` and `is_running()` only): `status i` is a
model-correspondence observable — the model transcribes `__str__` as it is and the harness compares it with
the implementation, without any specification-level judgement.  The theorems below say what that
transcription guarantees and characterise what it does not. -/

/-- **C02_status_terminated_sound.** After any history, when `str(p)` says "terminated" (with or without
    "+ PID reused"), the object's incarnation is indeed no longer in the process table. -/
theorem C02_status_terminated_sound (b0 : Nat) (hb0 : BtOK cfg.createNoneTest b0) (h : List Ev) (hh : HistOK cfg.createNoneTest h) (i : Nat) (o : PObj)
    (ho : (run cfg (St.init b0) h).ps.objs[i]? = some o)
    (hw : (step cfg (run cfg (St.init b0) h) (.c (.status i))).2 = .status .terminated
        ∨ (step cfg (run cfg (St.init b0) h) (.c (.status i))).2 = .status .reusedTerminated) :
    ¬ Listed (run cfg (St.init b0) h).kern o := by
  have hinv := run_inv cfg_good h _ hh (init_inv cfg.clk hb0)
  generalize run cfg (St.init b0) h = s at *
  obtain ⟨B, _, hok⟩ := hinv.ps.objs o (List.mem_of_getElem? ho)
  rw [step_status_out cfg s ho] at hw
  simp only [Out.status.injEq] at hw
  exact (statusWord_spec hinv.kern hok).1 hw

/-- **C02_status_listed.** After any history, while the object's own incarnation is in the table `str(p)`
    shows that incarnation's state (zombie or not) — never "terminated". -/
theorem C02_status_listed (b0 : Nat) (hb0 : BtOK cfg.createNoneTest b0) (h : List Ev) (hh : HistOK cfg.createNoneTest h) (i : Nat) (o : PObj)
    (ho : (run cfg (St.init b0) h).ps.objs[i]? = some o)
    (hl : Listed (run cfg (St.init b0) h).kern o) :
    ∃ x, (run cfg (St.init b0) h).kern.find o.pid = some x ∧ x.start = o.ghost
      ∧ ownZombie (run cfg (St.init b0) h).kern o = some x.zombie
      ∧ (step cfg (run cfg (St.init b0) h) (.c (.status i))).2 = .status (if x.zombie then .zombie else .alive) := by
  have hinv := run_inv cfg_good h _ hh (init_inv cfg.clk hb0)
  generalize run cfg (St.init b0) h = s at *
  obtain ⟨B, _, hok⟩ := hinv.ps.objs o (List.mem_of_getElem? ho)
  obtain ⟨x, hf, hs, hw⟩ := (statusWord_spec hinv.kern hok).2 hl
  exact ⟨x, hf, hs, ownZombie_of_find hinv.kern hf hs, by rw [step_status_out cfg s ho, hw]⟩

/-- CHARACTERISATION, not a clause of the property: the statement "terminated is shown exactly when the
    incarnation is gone".  `__str__` deliberately has no side effects (it does not run `is_running()`), so
    it cannot hold; see `C02_status_stale_counterexample`. -/
def StatusTerminatedIffNotListed_Full (c : Cfg) : Prop :=
  ∀ (b0 : Nat), BtOK c.createNoneTest b0 → ∀ (h : List Ev), HistOK c.createNoneTest h → ∀ (i : Nat) (o : PObj),
    (run c (St.init b0) h).ps.objs[i]? = some o →
    (((step c (run c (St.init b0) h) (.c (.status i))).2 = .status .terminated
        ∨ (step c (run c (St.init b0) h) (.c (.status i))).2 = .status .reusedTerminated)
      ↔ ¬ Listed (run c (St.init b0) h).kern o)

/-- a handle whose process ended and whose PID was recycled, nobody having asked `is_running()` since -/
def witnessStaleStr : List Ev := [.k (.spawn 8), .c (.newObj 8), .k (.reap 8), .k (.spawn 8)]

/-- **C02_status_stale_counterexample** (documented characterisation of `__str__`, outside the property's
    statement — not a defect against C02).  `__str__` only looks at the `_pid_reused` flag and then reads
    `/proc/pid/stat` of whoever holds the PID, deliberately without the identity test (no side effects in
    `repr`): for the stale handle of `witnessStaleStr`, on which nobody has called `is_running()` since the
    recycling, it shows the current owner's status.  So only the direction `C02_status_terminated_sound`
    holds, not the converse. -/
theorem C02_status_stale_counterexample : ¬ StatusTerminatedIffNotListed_Full cfg := by
  intro H
  have h0 : (run cfg (St.init 1000) witnessStaleStr).ps.objs[0]? = some ⟨8, some (0 + cfg.clk * 1000), some (0 + cfg.clk * 1000), false, false, 0⟩ := by
    decide
  have := (H 1000 (by decide) witnessStaleStr (by decide) 0 _ h0).2
    (by rw [← listedB_iff]; decide)
  revert this; decide

/-! ## Non-vacuity -/

/-- lead L2 as a history: an object, a clock step of +10 s, `boot_time()`, a second object for the same
    live process -/
def witnessL2 : List Ev :=
  [.k (.spawn 8), .c (.newObj 8), .k (.setBtime 1010), .c .bootTime, .c (.newObj 8)]

/-- a history with two recyclings, a zombie, a clock step and three objects -/
def witnessMixed : List Ev :=
  [.k (.spawn 8), .c (.newObj 8), .k (.setBtime 1010), .c .bootTime, .k (.reap 8), .k (.spawn 8),
   .c (.newObj 8), .k (.exit 8), .c (.newObj 8), .c (.isRunning 0), .k (.setBtime 7), .c .processIter]

/-- seeded change C02-1 as a history: a stale handle 0 on PID 8, the PID is recycled, `process_iter()` hands
    out handle 1 on the new owner, `is_running()` on the stale handle flags the reuse, `process_iter()`
    evicts the cache entry (which belongs to the NEW owner) and skips the PID, a third sweep builds handle 2 -/
def witnessIterReuse : List Ev :=
  [.k (.spawn 8), .c (.newObj 8), .k (.reap 8), .k (.spawn 8), .c .processIter, .c (.isRunning 0),
   .c .processIter, .c .processIter]

example : HistOK cfg.createNoneTest witnessL2 ∧ HistOK cfg.createNoneTest witnessMixed
    ∧ HistOK cfg.createNoneTest witnessIterReuse := by decide

/-- along `witnessIterReuse`: the first sweep yields the new handle (8, 1), the second sweep yields nothing
    (entry evicted, PID skipped), the third yields a third handle (8, 2); handle 1 — evicted from the cache
    while its process lives — is still running, equals handle 2, differs from the stale handle 0, which
    is not running -/
example :
    (step cfg (run cfg (St.init 1000) (witnessIterReuse.take 4)) (.c .processIter)).2 = .procs [(8, 1)]
    ∧ (step cfg (run cfg (St.init 1000) (witnessIterReuse.take 6)) (.c .processIter)).2 = .procs []
    ∧ (step cfg (run cfg (St.init 1000) (witnessIterReuse.take 7)) (.c .processIter)).2 = .procs [(8, 2)]
    ∧ (step cfg (run cfg (St.init 1000) witnessIterReuse) (.c (.isRunning 1))).2 = .bool true
    ∧ (step cfg (run cfg (St.init 1000) witnessIterReuse) (.c (.isRunning 0))).2 = .bool false
    ∧ (step cfg (run cfg (St.init 1000) witnessIterReuse) (.c (.eq 1 2))).2 = .bool true
    ∧ (step cfg (run cfg (St.init 1000) witnessIterReuse) (.c (.eq 0 1))).2 = .bool false
    ∧ (step cfg (run cfg (St.init 1000) witnessIterReuse) (.c (.status 0))).2 = .status .reusedTerminated
    ∧ (step cfg (run cfg (St.init 1000) witnessIterReuse) (.c (.status 1))).2 = .status .alive := by decide

/-- with the extracted configuration: the two objects of `witnessL2` are equal and both running; in
    `witnessMixed` object 0 (old incarnation) differs from 1 and 2, which are equal (zombie included),
    object 0 is not running, objects 1 and 2 are -/
example :
    (step cfg (run cfg (St.init 1000) witnessL2) (.c (.eq 0 1))).2 = .bool true
    ∧ (step cfg (run cfg (St.init 1000) witnessL2) (.c (.isRunning 0))).2 = .bool true
    ∧ (step cfg (run cfg (St.init 1000) witnessMixed) (.c (.eq 0 1))).2 = .bool false
    ∧ (step cfg (run cfg (St.init 1000) witnessMixed) (.c (.eq 1 2))).2 = .bool true
    ∧ (step cfg (run cfg (St.init 1000) witnessMixed) (.c (.isRunning 0))).2 = .bool false
    ∧ (step cfg (run cfg (St.init 1000) witnessMixed) (.c (.isRunning 2))).2 = .bool true := by decide

/-! ## Why `BOOT_TIME` must be written once: the full statements are false otherwise -/

/-- `boot_time()` as in psutil ≤ 7.0.0 (rewrites BOOT_TIME on every call) -/
def cfgBootRewrite : Cfg :=
  { clk := 100, goneRaises := true, bootWriteOnce := false, createUsesCache := true, createNoneTest := false,
    guardSignal := true, guardNice := true, guardIonice := true, guardRlimit := true,
    guardAffinity := true, guardPpid := true, pid0Refused := true, negRejected := true,
    rlimitPid0Refused := true, sigStop := 19, sigCont := 18, sigTerm := 15, sigKill := 9,
    ioNoValue := [0, 3], affinityAll := 1024 }

def EqIffSame_Full (c : Cfg) : Prop :=
  ∀ (b0 : Nat), BtOK c.createNoneTest b0 → ∀ (h : List Ev), HistOK c.createNoneTest h → ∀ (i j : Nat) (a b : PObj),
    (run c (St.init b0) h).ps.objs[i]? = some a → (run c (St.init b0) h).ps.objs[j]? = some b →
    (step c (run c (St.init b0) h) (.c (.eq i j))).2 = .bool (decide (SameIncarnation a b))

def IsRunningIffListed_Full (c : Cfg) : Prop :=
  ∀ (b0 : Nat), BtOK c.createNoneTest b0 → ∀ (h : List Ev), HistOK c.createNoneTest h → ∀ (i : Nat) (o : PObj),
    (run c (St.init b0) h).ps.objs[i]? = some o →
    (step c (run c (St.init b0) h) (.c (.isRunning i))).2 = .bool (listedB (run c (St.init b0) h).kern o)

/-- **Lead L2 (proved).** With a `boot_time()` that rewrites BOOT_TIME, after `witnessL2` the two objects of
    the same live process compare unequal, and `is_running()` of the first one is False. -/
theorem C02_bootrewrite_counterexample :
    ¬ EqIffSame_Full cfgBootRewrite ∧ ¬ IsRunningIffListed_Full cfgBootRewrite := by
  have h0 : (run cfgBootRewrite (St.init 1000) witnessL2).ps.objs[0]? = some ⟨8, some 100000, some 100000, false, false, 0⟩ := by
    decide
  have h1 : (run cfgBootRewrite (St.init 1000) witnessL2).ps.objs[1]? = some ⟨8, some 101000, some 101000, false, false, 0⟩ := by
    decide
  constructor
  · intro H
    have := H 1000 (by decide) witnessL2 (by decide) 0 1 _ _ h0 h1
    revert this; decide
  · intro H
    have := H 1000 (by decide) witnessL2 (by decide) 0 _ h0
    revert this; decide

/-! ## `(pid, None)` identities — CHARACTERISATION outside the property's quantifier

C02 quantifies over histories of spawn/exit/reap/PID-reuse events, clock steps and psutil calls (`HistOK`).
Whether `/proc/pid/stat` can be opened is not one of those events: on Linux the file is world-readable, and
`Process._init` says so ("This should happen on Windows only … on all other platforms we are able to get create
time for all PIDs").  Under a hidepid mount or an LSM it is not, and then (transcribed in `mkObj`) `_init`
catches AccessDenied and leaves the provisional `_ident = (pid, None)`.  The theorems below say exactly what `==`
and `is_running()` answer then (any state), and the counterexample shows that the statements of
`C02_eq_iff_same_incarnation` / `C02_isRunning_iff_listed` do not extend to histories with unreadable stat
files; the witnesses are replayed on the real code by the check (corpus `unknown-start-*`). -/

/-- **C02_unknown_start_meaning.** In any state: `Process(pid)` for a listed PID whose stat file cannot be opened
    succeeds; the new object has `_ident = (pid, None)`, no memoised create time, no sticky flag, its ghost is
    the current owner, and `BOOT_TIME` is not touched. -/
theorem C02_unknown_start_meaning (s : St) (pid : Nat) (x : Inst)
    (hf : s.kern.find pid = some x) (hh : s.kern.isHidden pid = true) :
    step cfg s (.c (.newObj pid))
      = ({ s with ps := { s.ps with objs := s.ps.objs ++ [⟨pid, none, none, false, false, x.start⟩] } },
         .obj s.ps.objs.length) := by
  have hneg : ¬ ((pid : Int) < 0) := by omega
  simp [step, hneg, mkObj, hf, hh]

/-- **C02_eq_unknown_start.** In any state: two objects whose start is unknown are equal exactly when they have
    the same PID (whatever processes they were built for); an object with unknown start never equals one
    with a known start (even when both were built for the same process). -/
theorem C02_eq_unknown_start (s : St) (i j : Nat) (a b : PObj)
    (ha : s.ps.objs[i]? = some a) (hb : s.ps.objs[j]? = some b) (hna : a.ident = none) :
    (b.ident = none → (step cfg s (.c (.eq i j))).2 = .bool (a.pid == b.pid))
    ∧ (b.ident ≠ none → (step cfg s (.c (.eq i j))).2 = .bool false) := by
  rw [step_eq_out cfg s ha hb, hna]
  constructor
  · intro hnb; rw [hnb]; simp
  · intro hnb
    cases hbi : b.ident with
    | none => exact absurd hbi hnb
    | some v => simp

/-- **C02_isRunning_unknown_start.** In any state: `is_running()` of an unflagged object whose start is unknown is
    True exactly when its PID is listed and the stat file of whoever holds it now is unreadable too (the fresh
    `Process(pid)` then also gets `(pid, None)`) — it follows the readability of the PID, not the process. -/
theorem C02_isRunning_unknown_start (s : St) (i : Nat) (o : PObj) (ho : s.ps.objs[i]? = some o)
    (hn : o.ident = none) (hg : o.gone = false) (hr : o.reused = false) :
    (step cfg s (.c (.isRunning i))).2 = .bool ((s.kern.find o.pid).isSome && s.kern.isHidden o.pid) := by
  rw [step_isRunning_out cfg s ho]
  congr 1
  unfold isRunningO
  simp only [hg, hr, Bool.or_self, Bool.false_eq_true, if_false, mkObj]
  cases hf : s.kern.find o.pid with
  | none => rfl
  | some x =>
    cases hh : s.kern.isHidden o.pid with
    | true => simp [hn]
    | false => simp [hn]

/-! `HistOKb` (Proofs/C01Hid.lean): histories that may hide `/proc/pid/stat` — only "the published boot time is
never 0" is asked. -/

def EqIffSame_AnyReadability_Full (c : Cfg) : Prop :=
  ∀ (b0 : Nat), BtOK c.createNoneTest b0 → ∀ (h : List Ev), HistOKb c.createNoneTest h → ∀ (i j : Nat) (a b : PObj),
    (run c (St.init b0) h).ps.objs[i]? = some a → (run c (St.init b0) h).ps.objs[j]? = some b →
    (step c (run c (St.init b0) h) (.c (.eq i j))).2 = .bool (decide (SameIncarnation a b))

def IsRunningIffListed_AnyReadability_Full (c : Cfg) : Prop :=
  ∀ (b0 : Nat), BtOK c.createNoneTest b0 → ∀ (h : List Ev), HistOKb c.createNoneTest h → ∀ (i : Nat) (o : PObj),
    (run c (St.init b0) h).ps.objs[i]? = some o →
    (step c (run c (St.init b0) h) (.c (.isRunning i))).2 = .bool (listedB (run c (St.init b0) h).kern o)

/-- one live process, seen once while its stat file is unreadable and once after it became readable -/
def witnessUnknownThenKnown : List Ev :=
  [.k (.spawn 8), .k (.hide 8 true), .c (.newObj 8), .k (.hide 8 false), .c (.newObj 8)]

/-- an object built while stat was readable; the file then becomes unreadable -/
def witnessKnownThenHidden : List Ev := [.k (.spawn 8), .c (.newObj 8), .k (.hide 8 true)]

/-- an object with unknown start; its process ends and the PID goes to another unreadable process -/
def witnessUnknownRecycled : List Ev :=
  [.k (.spawn 8), .k (.hide 8 true), .c (.newObj 8), .k (.reap 8), .k (.spawn 8), .c (.newObj 8)]

/-- **C02_unknown_start_counterexample** (characterisation, not a defect against C02 as stated: readability
    changes are outside its quantifier).  With the extracted configuration, once stat files can be unreadable:
    two objects of the same live process compare unequal (`witnessUnknownThenKnown`, and `is_running()` of the first
    is False: the fresh `(8, t)` differs from `(8, None)`, the object is flagged "PID reused"); `is_running()` of
    an object with a known start is False while its process is alive (`witnessKnownThenHidden`); and for an object
    with unknown start `is_running()` stays True after its process ended, and it equals the object of the PID's
    next owner (`witnessUnknownRecycled`). -/
theorem C02_unknown_start_counterexample :
    ¬ EqIffSame_AnyReadability_Full cfg ∧ ¬ IsRunningIffListed_AnyReadability_Full cfg
    ∧ (step cfg (run cfg (St.init 1000) witnessKnownThenHidden) (.c (.isRunning 0))).2 = .bool false
    ∧ listedB (run cfg (St.init 1000) witnessKnownThenHidden).kern ⟨8, some (0 + cfg.clk * 1000), some (0 + cfg.clk * 1000), false, false, 0⟩ = true
    ∧ (step cfg (run cfg (St.init 1000) witnessUnknownRecycled) (.c (.isRunning 0))).2 = .bool true
    ∧ (step cfg (run cfg (St.init 1000) witnessUnknownRecycled) (.c (.eq 0 1))).2 = .bool true := by
  have h0 : (run cfg (St.init 1000) witnessUnknownThenKnown).ps.objs[0]? = some ⟨8, none, none, false, false, 0⟩ := by
    decide
  have h1 : (run cfg (St.init 1000) witnessUnknownThenKnown).ps.objs[1]?
      = some ⟨8, some (0 + cfg.clk * 1000), some (0 + cfg.clk * 1000), false, false, 0⟩ := by decide
  have hok : HistOKb cfg.createNoneTest witnessUnknownThenKnown := by decide
  refine ⟨?_, ?_, by decide, by decide, by decide, by decide⟩
  · intro H
    have := H 1000 (by decide) witnessUnknownThenKnown hok 0 1 _ _ h0 h1
    revert this; decide
  · intro H
    have := H 1000 (by decide) witnessUnknownThenKnown hok 0 _ h0
    revert this; decide

end Psutil.C02
