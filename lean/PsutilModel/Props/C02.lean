/-
  Props/C02.lean — property theorems for C02: `==`, `hash()` and `is_running()` follow the process,
  not the PID.  The model is the identity machine shared with C01 (Model/C01.lean), instantiated
  with the facts extracted for this check (Generated/C02.lean → Model/C02Gen.lean); helper lemmas
  live in Proofs/C01*.lean and Proofs/C02.lean (the clauses are proved there for ANY configuration with
  `BootGood`; this file instantiates them).

  Obligations on the translator's facts: `cfg_good` breaks when `boot_time()` rewrites `BOOT_TIME` (lead L2), when
  `BOOT_TIME` is stored anywhere else in the package (fact `bootStoresElsewhere`), or when the value `create_time()`
  RETURNS stops coming from the cached `BOOT_TIME` (fact `createBoot`: a dead `BOOT_TIME or boot_time()` expression does
  not count); `cfg_none_test` breaks when `create_time()` goes back to testing the cached value by truthiness
  (`BOOT_TIME or boot_time()`, the defect repaired by /repo 29257b1); `cfg_identity_shape` pins `__eq__` / `__ne__` /
  `__hash__` and every store to `_ident`, `_hash`, `_gone`, `_pid_reused`, `_create_time`.

  Histories: any list of kernel events (spawn / exit / reap / tick / **clock step to ANY value, 0 included**) and psutil
  calls (Process(pid) at any point, is_running, signals, setters, ppid, **boot_time()**, create_time, ==,
  hash, process_iter, oneshot() entry/exit, str), plus permission changes (the kernel refusing a PID with
  EPERM / EACCES), from ANY initial published boot time `b0` (0 included).  The only hypothesis is `HistOK true h`:
  * `/proc/pid/stat` can always be opened (no `hide p true`) and no PID is recycled within one clock tick (no
    `spawnSameTick`: psutil's documented assumption) — what `==` / `is_running()` answer with unreadable stat files is
    characterised at the end of the file.
  NO hypothesis on the boot time: `HistOK`'s index is the `createNoneTest` flag, and `HistOK true` / `BtOK true b` put no
  restriction on `setBtime` / `b` (Proofs/C01.lean).  The helper lemmas are indexed by `cfg.createNoneTest`; the theorems
  here discharge that with `cfg_none_test`.  For a configuration that tests truthiness the restriction "never 0" is
  needed and the property is false without it (`C02_btime0_counterexample` — a what-if theorem about `cfgTruthy`, the
  source before 29257b1; `C02_btime0_as_extracted` says the checked source is not that one).

  What is promised about `hash()`: equal objects hash alike (`C02_hash_congr`) and an object's hash never changes
  (`C02_answers_stable`).  The CONVERSE ("hash alike ⇒ same process") is NOT a clause: no hash function can
  promise it, and the statement's "exactly when" is read for `==` only.  In the model the hash IS the identity
  `(pid, create time)` (`Out.ident`), so the converse holds there by construction — a fact about the model, tied to
  the code by `cfg_identity_shape` (`hash(self._ident)`), not a promise about CPython's `hash()`.

  Objects: `St.ps.objs` holds every `Process` object the history produced — those built by
  `Process(pid)` AND those built and yielded by `process_iter()` (which appends them and returns their
  indices); every theorem that says "for any object i of the state" therefore speaks about both kinds, and
  about pairs mixing them.  NOT in the model: instances of `Process` subclasses / `psutil.Popen` (same `_init`;
  exercised by the correspondence — families x:classes, x:hashes — and pinned by `cfg_identity_shape`: `isinstance`
  test), `psutil.Popen` over an already reaped child (`_ignore_nsp`: `_ident = (pid, None)`, `_gone = True`), objects
  returned by `parent()` / `children()` / `parents()` / `wait_procs()`.
-/
import PsutilModel.Proofs.C02
import PsutilModel.Proofs.C01Hid
import PsutilModel.Proofs.C02Rdb
import PsutilModel.Proofs.C02Fault
import PsutilModel.Spec.C02Fault
import PsutilModel.Proofs.C02Stat
import PsutilModel.Spec.C02Stat
import PsutilModel.Model.C02Gen
namespace Psutil.C02
open Psutil.C01 Psutil.C01.Spec

/-- `BOOT_TIME` is written once — under `if BOOT_TIME is None` inside `boot_time()`, and nowhere else in the package —
    and the boot time that flows into `create_time()`'s result is the cached one whenever there is one -/
theorem cfg_good : cfg.BootGood := ⟨by decide, by decide⟩

/-- **cfg_none_test** (obligation, in force since /repo 29257b1 = fixes/C02-boottime-zero.diff): `create_time()` decides
    "there is a cached boot time" by `BOOT_TIME is not None` (fact `createBoot = "isNotNone"`), NOT by truthiness.  Every
    theorem below that speaks about histories rests on it: that is what lets them hold for EVERY boot time, 0 included,
    and for every clock step.  It stops building when the test goes back to `BOOT_TIME or boot_time()` — the defect of
    the former finding `C02-boottime-zero` (`C02_btime0_counterexample`). -/
theorem cfg_none_test : cfg.createNoneTest = true := by decide

/-- **cfg_identity_shape** (obligation on the source of `__eq__` / `__ne__` / `__hash__` and on every store to the
    attributes identity rests on; the model's `Call.eq` compares `_ident`, `Call.hash` returns a function of `_ident`
    alone, and `mkObj` / `isRunningO` / the signal path are the only writers of `_ident`, `_gone`, `_pid_reused`):
    * `==` answers `NotImplemented` for anything that is not an instance of `Process` — SUBCLASS instances
      (`psutil.Popen`) included in the comparison — and otherwise compares `_ident` (the OpenBSD/NetBSD block is not
      executed on Linux); `!=` is its negation;
    * `hash()` is `hash(self._ident)`, memoised in `_hash`, which is reset nowhere;
    * `_ident` is stored in `_init` only (provisional `(pid, None)`, then `_get_ident()`); `_pid_reused` in `_init`
      and `is_running` only; `_gone` in `_init` (False; True under `_ignore_nsp`: psutil.Popen over a reaped child,
      outside the model), `is_running` and `_send_signal` (ESRCH) only; `_create_time` is the memo of `create_time()`.
    An edit that makes `==` class-sensitive, hashes something else, re-computes `_ident` or clears a sticky flag
    changes one of these lists. -/
theorem cfg_identity_shape :
    Gen.C02.eqShape = ["def(self, other)", "if not isinstance(other, Process): return NotImplemented",
        "if OPENBSD or NETBSD: <not Linux>", "return self._ident == other._ident"]
    ∧ Gen.C02.neShape = ["def(self, other)", "return not self == other"]
    ∧ Gen.C02.hashShape = ["def(self)", "if self._hash is None: self._hash = hash(self._ident)", "return self._hash"]
    ∧ Gen.C02.identityStores = ["_init: self._create_time = None", "_init: self._gone = False",
        "_init: self._pid_reused = False", "_init: self._hash = None", "_init: self._ident = (self.pid, None)",
        "_init: self._ident = self._get_ident()", "_init: self._gone = True",
        "_get_ident: self._create_time = self._proc.create_time(fast_only=True)",
        "__hash__: self._hash = hash(self._ident)", "is_running: self._pid_reused = self != Process(self.pid)",
        "is_running: self._gone = True", "create_time: self._create_time = self._proc.create_time()",
        "_send_signal: self._gone = True"] := by decide

/-- **C02_ghost_meaning.** What the specification calls the object's process start (`ghost`) is the start
    stamp of the incarnation owning the PID at the instant `Process(pid)` succeeded — in any state. -/
theorem C02_ghost_meaning (s : St) (pid : Int) (i : Nat)
    (h : (step cfg s (.c (.newObj pid))).2 = .obj i) :
    ∃ o, (step cfg s (.c (.newObj pid))).1.ps.objs[i]? = some o ∧ (o.pid : Int) = pid
      ∧ s.kern.owner o.pid = some o.ghost ∧ o.gone = false ∧ o.reused = false := by
  simp only [step] at h ⊢
  split at h
  · split at h <;> cases h
  · rename_i hneg
    rw [if_neg hneg]
    have hm := mkObj_shape cfg s.kern s.ps pid.toNat
    cases hmk : mkObj cfg s.kern s.ps pid.toNat with
    | mk ps' oo =>
      rw [hmk] at hm h
      cases oo with
      | none => cases h
      | some o =>
        simp only [Out.obj.injEq] at h
        subst h
        obtain ⟨_, _, hpid, hown, hg, hr⟩ := hm
        exact ⟨o, List.getElem?_concat_length, by rw [hpid]; omega, by rw [hpid]; exact hown, hg, hr⟩

/-- **C02_eq_iff_same_incarnation.** After any history, for any two objects (built at any two points of
    it): `a == b` is True exactly when they have the same PID and were built for the same process start. -/
theorem C02_eq_iff_same_incarnation (b0 : Nat) (h : List Ev) (hh : HistOK true h)
    (i j : Nat) (a b : PObj)
    (ha : (run cfg (St.init b0) h).ps.objs[i]? = some a) (hb : (run cfg (St.init b0) h).ps.objs[j]? = some b) :
    (step cfg (run cfg (St.init b0) h) (.c (.eq i j))).2 = .bool (decide (SameIncarnation a b)) :=
  eq_iff_same_gen cfg_good b0 (BtOK.of_none_test cfg_none_test b0) h (HistOK.of_none_test cfg_none_test hh) i j a b ha hb

/-- **C02_hash_congr.** Equal objects hash alike.  (One direction only: this and the stability half of
    `C02_answers_stable` are everything C02 promises about `hash()`; see the header for the converse.) -/
theorem C02_hash_congr (b0 : Nat) (h : List Ev) (hh : HistOK true h)
    (i j : Nat) (a b : PObj)
    (ha : (run cfg (St.init b0) h).ps.objs[i]? = some a) (hb : (run cfg (St.init b0) h).ps.objs[j]? = some b)
    (hsame : SameIncarnation a b) :
    (step cfg (run cfg (St.init b0) h) (.c (.hash i))).2 = (step cfg (run cfg (St.init b0) h) (.c (.hash j))).2 :=
  hash_congr_gen cfg_good b0 (BtOK.of_none_test cfg_none_test b0) h (HistOK.of_none_test cfg_none_test hh) i j a b ha hb hsame

/-- **C02_isRunning_iff_listed.** After any history, `is_running()` is True exactly when the incarnation the
    object was built for is still in the process table (a zombie is still listed), False otherwise —
    including when the PID is alive again under another process. -/
theorem C02_isRunning_iff_listed (b0 : Nat) (h : List Ev) (hh : HistOK true h) (i : Nat) (o : PObj)
    (ho : (run cfg (St.init b0) h).ps.objs[i]? = some o) :
    (step cfg (run cfg (St.init b0) h) (.c (.isRunning i))).2 = .bool (listedB (run cfg (St.init b0) h).kern o) :=
  isRunning_iff_listed_gen cfg_good b0 (BtOK.of_none_test cfg_none_test b0) h (HistOK.of_none_test cfg_none_test hh) i o ho

/-- a zombie is still listed: `exit` alone never changes any `is_running()` answer's specification -/
theorem C02_zombie_still_listed (k : Kernel) (o : PObj) (pid : Nat) :
    Listed (k.apply (.exit pid)) o ↔ Listed k o := by
  simp only [Listed, Kernel.apply, List.mem_map]
  constructor
  · rintro ⟨x, ⟨y, hy, rfl⟩, hp, hs⟩
    refine ⟨y, hy, ?_, ?_⟩
    · split at hp <;> exact hp
    · split at hs <;> exact hs
  · rintro ⟨y, hy, hp, hs⟩
    refine ⟨_, ⟨y, hy, rfl⟩, ?_, ?_⟩
    · split <;> exact hp
    · split <;> exact hs

/-- **C02_isRunning_sticky.** Once the object's incarnation has left the table, `is_running()` is False after
    every continuation of the history — PID reuse, clock steps, `boot_time()` and any other call included. -/
theorem C02_isRunning_sticky (b0 : Nat) (h : List Ev) (hh : HistOK true h) (i : Nat) (o : PObj)
    (ho : (run cfg (St.init b0) h).ps.objs[i]? = some o)
    (hgone : ¬ Listed (run cfg (St.init b0) h).kern o) (h2 : List Ev) (hh2 : HistOK true h2) :
    (step cfg (run cfg (run cfg (St.init b0) h) h2) (.c (.isRunning i))).2 = .bool false :=
  isRunning_sticky_gen cfg_good b0 (BtOK.of_none_test cfg_none_test b0) h (HistOK.of_none_test cfg_none_test hh) i o ho hgone h2 (HistOK.of_none_test cfg_none_test hh2)

/-- the answer given by `is_running()` itself is sticky: after it returned False once, it returns False
    ever after -/
theorem C02_isRunning_false_forever (b0 : Nat) (h : List Ev) (hh : HistOK true h) (i : Nat)
    (hfalse : (step cfg (run cfg (St.init b0) h) (.c (.isRunning i))).2 = .bool false)
    (h2 : List Ev) (hh2 : HistOK true h2) :
    (step cfg (run cfg (St.init b0) (h ++ .c (.isRunning i) :: h2)) (.c (.isRunning i))).2 = .bool false := by
  cases ho : (run cfg (St.init b0) h).ps.objs[i]? with
  | none => rw [step_bad_index cfg _ (call := .isRunning i) rfl ho] at hfalse; cases hfalse
  | some o =>
    rw [C02_isRunning_iff_listed b0 h hh i o ho] at hfalse
    have hgone : ¬ Listed (run cfg (St.init b0) h).kern o := by
      rw [← listedB_iff]; simp only [Out.bool.injEq] at hfalse; simp [hfalse]
    have hrun : ∀ (l1 l2 : List Ev) (s : St), run cfg s (l1 ++ l2) = run cfg (run cfg s l1) l2 := by
      intro l1; induction l1 with
      | nil => intro l2 s; rfl
      | cons e es ih => intro l2 s; exact ih l2 _
    rw [hrun]
    exact C02_isRunning_sticky b0 h hh i o ho hgone (.c (.isRunning i) :: h2)
      (fun e he => by
        rcases List.mem_cons.1 he with rfl | he
        · trivial
        · exact hh2 e he)

/-- **C02_answers_stable.** `==` and `hash()` of existing objects are not affected by anything that happens
    later (clock steps, `boot_time()`, exits, PID reuse, new objects, any call): the identity an object
    was given at construction is never recomputed. -/
theorem C02_answers_stable (b0 : Nat) (h : List Ev) (hh : HistOK true h) (i j : Nat) (a b : PObj)
    (ha : (run cfg (St.init b0) h).ps.objs[i]? = some a) (hb : (run cfg (St.init b0) h).ps.objs[j]? = some b)
    (h2 : List Ev) (hh2 : HistOK true h2) :
    (step cfg (run cfg (run cfg (St.init b0) h) h2) (.c (.eq i j))).2
        = (step cfg (run cfg (St.init b0) h) (.c (.eq i j))).2
    ∧ (step cfg (run cfg (run cfg (St.init b0) h) h2) (.c (.hash i))).2
        = (step cfg (run cfg (St.init b0) h) (.c (.hash i))).2 :=
  answers_stable_gen cfg_good b0 (BtOK.of_none_test cfg_none_test b0) h (HistOK.of_none_test cfg_none_test hh) i j a b ha hb h2 (HistOK.of_none_test cfg_none_test hh2)

/-- **C02_object_constant.** What an object IS never changes: after any continuation of the history the object under
    index `i` still has the PID, the process start it was built for (`ghost`) and the `_ident` it had; the sticky
    flags `_gone` / `_pid_reused` are only ever set, never cleared. -/
theorem C02_object_constant (b0 : Nat) (h : List Ev) (hh : HistOK true h)
    (i : Nat) (o : PObj) (ho : (run cfg (St.init b0) h).ps.objs[i]? = some o)
    (h2 : List Ev) (hh2 : HistOK true h2) :
    ∃ o', (run cfg (run cfg (St.init b0) h) h2).ps.objs[i]? = some o' ∧ o'.pid = o.pid ∧ o'.ghost = o.ghost
      ∧ o'.ident = o.ident ∧ (o.gone = true → o'.gone = true) ∧ (o.reused = true → o'.reused = true) := by
  obtain ⟨o', ho', e⟩ := object_constant_gen cfg_good b0 (BtOK.of_none_test cfg_none_test b0) h (HistOK.of_none_test cfg_none_test hh) i o ho h2 (HistOK.of_none_test cfg_none_test hh2)
  exact ⟨o', ho', e.pid, e.ghost, e.ident, e.gone, e.reused⟩

/-- **C02_built_for_owner_at_construction** (the end-to-end reading of "built for the same process start"): an
    object built by `Process(pid)` at ANY point of a history is, after ANY continuation, still an object of that PID
    whose `ghost` — the only thing `SameIncarnation` / `Listed` look at besides the PID — is the start of the
    incarnation that held the PID at the instant of the construction. -/
theorem C02_built_for_owner_at_construction (b0 : Nat) (h : List Ev)
    (hh : HistOK true h) (pid : Int) (i : Nat)
    (hnew : (step cfg (run cfg (St.init b0) h) (.c (.newObj pid))).2 = .obj i)
    (h2 : List Ev) (hh2 : HistOK true h2) :
    ∃ o, (run cfg (St.init b0) (h ++ .c (.newObj pid) :: h2)).ps.objs[i]? = some o ∧ (o.pid : Int) = pid
      ∧ (run cfg (St.init b0) h).kern.owner o.pid = some o.ghost := by
  obtain ⟨o, ho, hp, hown, _, _⟩ := C02_ghost_meaning (run cfg (St.init b0) h) pid i hnew
  have hh1 : HistOK true (h ++ [.c (.newObj pid)]) := fun e he => by
    rcases List.mem_append.1 he with he | he
    · exact hh e he
    · rw [List.mem_singleton.1 he]; trivial
  have hrun1 : run cfg (St.init b0) (h ++ [.c (.newObj pid)]) = (step cfg (run cfg (St.init b0) h) (.c (.newObj pid))).1 := by
    rw [run_append]; rfl
  obtain ⟨o', ho', e⟩ := object_constant_gen cfg_good b0 (BtOK.of_none_test cfg_none_test b0) (h ++ [.c (.newObj pid)])
    (HistOK.of_none_test cfg_none_test hh1) i o (by rw [hrun1]; exact ho) h2 (HistOK.of_none_test cfg_none_test hh2)
  refine ⟨o', ?_, by rw [e.pid]; exact hp, by rw [e.pid, e.ghost]; exact hown⟩
  have : h ++ .c (.newObj pid) :: h2 = (h ++ [.c (.newObj pid)]) ++ h2 := by simp
  rw [this, run_append]; exact ho'

/-! ## Objects handed out by `process_iter()` -/

/-- **C02_iter_keeps_objects.** In any state, `process_iter()` does not touch the kernel nor any existing
    object — cached or not, evicted from the cache or not: same PID, same identity, same sticky flags. -/
theorem C02_iter_keeps_objects (s : St) (j : Nat) (o : PObj) (ho : s.ps.objs[j]? = some o) :
    (step cfg s (.c .processIter)).1.ps.objs[j]? = some o
      ∧ (step cfg s (.c .processIter)).1.kern = s.kern := by
  rw [step_processIter]
  obtain ⟨t, ht⟩ := (processIter_shape cfg s.kern s.ps).1
  exact ⟨by simp only [ht]; exact getElem?_append_of_some ho t, rfl⟩

/-- **C02_iter_ghost_meaning.** In any state, every handle `(pid, i)` yielded by `process_iter()` is either an
    entry of the cache as it was (the very same object index), or a new object appended behind the
    existing ones whose `ghost` is the start stamp of the incarnation owning `pid` at that instant, with
    no sticky flag; and the new cache is exactly what was yielded. -/
theorem C02_iter_ghost_meaning (s : St) (l : List (Nat × Nat))
    (h : (step cfg s (.c .processIter)).2 = .procs l) :
    (step cfg s (.c .processIter)).1.ps.pmap = l
    ∧ ∀ e ∈ l, e ∈ s.ps.pmap ∨
        (s.ps.objs.length ≤ e.2 ∧ ∃ o, (step cfg s (.c .processIter)).1.ps.objs[e.2]? = some o ∧ o.pid = e.1
          ∧ s.kern.owner e.1 = some o.ghost ∧ o.gone = false ∧ o.reused = false) := by
  rw [step_processIter] at h ⊢
  simp only [Out.procs.injEq] at h
  subst h
  obtain ⟨_, hpm, hy⟩ := processIter_shape cfg s.kern s.ps
  exact ⟨hpm, hy⟩

/-- **C02_iter_handles_valid.** After any history, every handle `(pid, i)` yielded by `process_iter()` names an
    object of the resulting state, and that object's PID is `pid` — so all theorems of this file apply to
    it under index `i`. -/
theorem C02_iter_handles_valid (b0 : Nat) (h : List Ev) (hh : HistOK true h) (l : List (Nat × Nat))
    (hl : (step cfg (run cfg (St.init b0) h) (.c .processIter)).2 = .procs l) :
    ∀ e ∈ l, ∃ o, (step cfg (run cfg (St.init b0) h) (.c .processIter)).1.ps.objs[e.2]? = some o ∧ o.pid = e.1 := by
  have hinv := run_inv cfg_good h _ (HistOK.of_none_test cfg_none_test hh) (init_inv cfg.clk (BtOK.of_none_test cfg_none_test b0))
  generalize run cfg (St.init b0) h = s at *
  have hinv' := step_inv cfg_good s (.c .processIter) trivial hinv
  have hpm := (C02_iter_ghost_meaning s l hl).1
  intro e he
  exact hinv'.ps.pmap e (hpm ▸ he)

/-- **C02_oneshot_identity** (a statement about the MODEL, true by definition — `rfl`): the arm `Call.oneshot` of
    `step` is the identity.  The driver maps `oneshot()` entry/exit AND every "other" public call of the histories
    (wait(0), as_dict, name, status, cpu_times, str, hash, username, … and C02's module-level calls pids(),
    pid_exists(), cpu_percent(), memory_info(), cmdline(), !=, set(), dict keys, == with foreign types)
    to this arm; that those calls really leave every later `==` / `hash()` / `is_running()` answer alone is NOT proved
    here — it is what the correspondence observes on the real code (ops `enter` / `leave` / `other`), and what
    `cfg_identity_shape` (no other store to the identity attributes) ties to the source. -/
theorem C02_oneshot_identity (s : St) (i : Nat) (enter : Bool) :
    step cfg s (.c (.oneshot i enter)) = (s, .unit) := rfl

/-! ## The status word of `str(p)` / `repr(p)`

Outside the property's statement (C02 speaks about `==`, `hash()` and `is_running()` only): `status i` is a
model-correspondence observable — the model transcribes `__str__` as it is and the harness compares it with
the implementation, without any specification-level judgement.  The theorems below say what that
transcription guarantees and characterise what it does not. -/

/-- **C02_status_terminated_sound.** After any history, when `str(p)` says "terminated" (with or without
    "+ PID reused"), the object's incarnation is indeed no longer in the process table. -/
theorem C02_status_terminated_sound (b0 : Nat) (h : List Ev) (hh : HistOK true h) (i : Nat) (o : PObj)
    (ho : (run cfg (St.init b0) h).ps.objs[i]? = some o)
    (hw : (step cfg (run cfg (St.init b0) h) (.c (.status i))).2 = .status .terminated
        ∨ (step cfg (run cfg (St.init b0) h) (.c (.status i))).2 = .status .reusedTerminated) :
    ¬ Listed (run cfg (St.init b0) h).kern o := by
  have hinv := run_inv cfg_good h _ (HistOK.of_none_test cfg_none_test hh) (init_inv cfg.clk (BtOK.of_none_test cfg_none_test b0))
  generalize run cfg (St.init b0) h = s at *
  obtain ⟨B, _, hok⟩ := hinv.ps.objs o (List.mem_of_getElem? ho)
  rw [step_status_out cfg s ho] at hw
  simp only [Out.status.injEq] at hw
  exact (statusWord_spec hinv.kern hok).1 hw

/-- **C02_status_listed.** After any history, while the object's own incarnation is in the table `str(p)`
    shows that incarnation's state (zombie or not) — never "terminated". -/
theorem C02_status_listed (b0 : Nat) (h : List Ev) (hh : HistOK true h) (i : Nat) (o : PObj)
    (ho : (run cfg (St.init b0) h).ps.objs[i]? = some o)
    (hl : Listed (run cfg (St.init b0) h).kern o) :
    ∃ x, (run cfg (St.init b0) h).kern.find o.pid = some x ∧ x.start = o.ghost
      ∧ ownZombie (run cfg (St.init b0) h).kern o = some x.zombie
      ∧ (step cfg (run cfg (St.init b0) h) (.c (.status i))).2 = .status (if x.zombie then .zombie else .alive) := by
  have hinv := run_inv cfg_good h _ (HistOK.of_none_test cfg_none_test hh) (init_inv cfg.clk (BtOK.of_none_test cfg_none_test b0))
  generalize run cfg (St.init b0) h = s at *
  obtain ⟨B, _, hok⟩ := hinv.ps.objs o (List.mem_of_getElem? ho)
  obtain ⟨x, hf, hs, hw⟩ := (statusWord_spec hinv.kern hok).2 hl
  exact ⟨x, hf, hs, ownZombie_of_find hinv.kern hf hs, by rw [step_status_out cfg s ho, hw]⟩

/-- CHARACTERISATION, not a clause of the property: the statement "terminated is shown exactly when the
    incarnation is gone".  `__str__` deliberately has no side effects (it does not run `is_running()`), so
    it cannot hold; see `C02_status_stale_counterexample`. -/
def StatusTerminatedIffNotListed_Full (c : Cfg) : Prop :=
  ∀ (b0 : Nat), BtOK c.createNoneTest b0 → ∀ (h : List Ev), HistOK c.createNoneTest h → ∀ (i : Nat) (o : PObj),
    (run c (St.init b0) h).ps.objs[i]? = some o →
    (((step c (run c (St.init b0) h) (.c (.status i))).2 = .status .terminated
        ∨ (step c (run c (St.init b0) h) (.c (.status i))).2 = .status .reusedTerminated)
      ↔ ¬ Listed (run c (St.init b0) h).kern o)

/-- a handle whose process ended and whose PID was recycled, nobody having asked `is_running()` since -/
def witnessStaleStr : List Ev := [.k (.spawn 8), .c (.newObj 8), .k (.reap 8), .k (.spawn 8)]

/-- **C02_status_stale_counterexample** (documented characterisation of `__str__`, outside the property's
    statement — not a defect against C02).  `__str__` only looks at the `_pid_reused` flag and then reads
    `/proc/pid/stat` of whoever holds the PID, deliberately without the identity test (no side effects in
    `repr`): for the stale handle of `witnessStaleStr`, on which nobody has called `is_running()` since the
    recycling, it shows the current owner's status.  So only the direction `C02_status_terminated_sound`
    holds, not the converse. -/
theorem C02_status_stale_counterexample : ¬ StatusTerminatedIffNotListed_Full cfg := by
  intro H
  have h0 : (run cfg (St.init 1000) witnessStaleStr).ps.objs[0]? = some ⟨8, some (0 + cfg.clk * 1000), some (0 + cfg.clk * 1000), false, false, 0⟩ := by
    decide
  have := (H 1000 (by decide) witnessStaleStr (by decide) 0 _ h0).2
    (by rw [← listedB_iff]; decide)
  revert this; decide

/-! ## Non-vacuity -/

/-- lead L2 as a history: an object, a clock step of +10 s, `boot_time()`, a second object for the same
    live process -/
def witnessL2 : List Ev :=
  [.k (.spawn 8), .c (.newObj 8), .k (.setBtime 1010), .c .bootTime, .c (.newObj 8)]

/-- a history with two recyclings, a zombie, a clock step and three objects -/
def witnessMixed : List Ev :=
  [.k (.spawn 8), .c (.newObj 8), .k (.setBtime 1010), .c .bootTime, .k (.reap 8), .k (.spawn 8),
   .c (.newObj 8), .k (.exit 8), .c (.newObj 8), .c (.isRunning 0), .k (.setBtime 7), .c .processIter]

/-- seeded change C02-1 as a history: a stale handle 0 on PID 8, the PID is recycled, `process_iter()` hands
    out handle 1 on the new owner, `is_running()` on the stale handle flags the reuse, `process_iter()`
    evicts the cache entry (which belongs to the NEW owner) and skips the PID, a third sweep builds handle 2 -/
def witnessIterReuse : List Ev :=
  [.k (.spawn 8), .c (.newObj 8), .k (.reap 8), .k (.spawn 8), .c .processIter, .c (.isRunning 0),
   .c .processIter, .c .processIter]

example : HistOK true witnessL2 ∧ HistOK true witnessMixed ∧ HistOK true witnessIterReuse := by decide

/-- along `witnessIterReuse`: the first sweep yields the new handle (8, 1), the second sweep yields nothing
    (entry evicted, PID skipped), the third yields a third handle (8, 2); handle 1 — evicted from the cache
    while its process lives — is still running, equals handle 2, differs from the stale handle 0, which
    is not running -/
example :
    (step cfg (run cfg (St.init 1000) (witnessIterReuse.take 4)) (.c .processIter)).2 = .procs [(8, 1)]
    ∧ (step cfg (run cfg (St.init 1000) (witnessIterReuse.take 6)) (.c .processIter)).2 = .procs []
    ∧ (step cfg (run cfg (St.init 1000) (witnessIterReuse.take 7)) (.c .processIter)).2 = .procs [(8, 2)]
    ∧ (step cfg (run cfg (St.init 1000) witnessIterReuse) (.c (.isRunning 1))).2 = .bool true
    ∧ (step cfg (run cfg (St.init 1000) witnessIterReuse) (.c (.isRunning 0))).2 = .bool false
    ∧ (step cfg (run cfg (St.init 1000) witnessIterReuse) (.c (.eq 1 2))).2 = .bool true
    ∧ (step cfg (run cfg (St.init 1000) witnessIterReuse) (.c (.eq 0 1))).2 = .bool false
    ∧ (step cfg (run cfg (St.init 1000) witnessIterReuse) (.c (.status 0))).2 = .status .reusedTerminated
    ∧ (step cfg (run cfg (St.init 1000) witnessIterReuse) (.c (.status 1))).2 = .status .alive := by decide

/-- with the extracted configuration: the two objects of `witnessL2` are equal and both running; in
    `witnessMixed` object 0 (old incarnation) differs from 1 and 2, which are equal (zombie included),
    object 0 is not running, objects 1 and 2 are -/
example :
    (step cfg (run cfg (St.init 1000) witnessL2) (.c (.eq 0 1))).2 = .bool true
    ∧ (step cfg (run cfg (St.init 1000) witnessL2) (.c (.isRunning 0))).2 = .bool true
    ∧ (step cfg (run cfg (St.init 1000) witnessMixed) (.c (.eq 0 1))).2 = .bool false
    ∧ (step cfg (run cfg (St.init 1000) witnessMixed) (.c (.eq 1 2))).2 = .bool true
    ∧ (step cfg (run cfg (St.init 1000) witnessMixed) (.c (.isRunning 0))).2 = .bool false
    ∧ (step cfg (run cfg (St.init 1000) witnessMixed) (.c (.isRunning 2))).2 = .bool true := by decide

/-! ## Why `BOOT_TIME` must be written once: the full statements are false otherwise -/

/-- `boot_time()` as in psutil ≤ 7.0.0 (rewrites BOOT_TIME on every call) -/
def cfgBootRewrite : Cfg :=
  { clk := 100, goneRaises := true, bootWriteOnce := false, createUsesCache := true, createNoneTest := false,
    guardSignal := true, guardNice := true, guardIonice := true, guardRlimit := true,
    guardAffinity := true, guardPpid := true, pid0Refused := true, negRejected := true,
    rlimitPid0Refused := true, sigStop := 19, sigCont := 18, sigTerm := 15, sigKill := 9,
    ioNoValue := [0, 3], affinityAll := 1024 }

def EqIffSame_Full (c : Cfg) : Prop :=
  ∀ (b0 : Nat), BtOK c.createNoneTest b0 → ∀ (h : List Ev), HistOK c.createNoneTest h → ∀ (i j : Nat) (a b : PObj),
    (run c (St.init b0) h).ps.objs[i]? = some a → (run c (St.init b0) h).ps.objs[j]? = some b →
    (step c (run c (St.init b0) h) (.c (.eq i j))).2 = .bool (decide (SameIncarnation a b))

def IsRunningIffListed_Full (c : Cfg) : Prop :=
  ∀ (b0 : Nat), BtOK c.createNoneTest b0 → ∀ (h : List Ev), HistOK c.createNoneTest h → ∀ (i : Nat) (o : PObj),
    (run c (St.init b0) h).ps.objs[i]? = some o →
    (step c (run c (St.init b0) h) (.c (.isRunning i))).2 = .bool (listedB (run c (St.init b0) h).kern o)

/-- the two full statements hold for the configuration extracted from the source (they are the theorems
    `C02_eq_iff_same_incarnation` / `C02_isRunning_iff_listed`; refuted below for the pre-fix `boot_time()`) -/
theorem C02_full_statements : EqIffSame_Full cfg ∧ IsRunningIffListed_Full cfg :=
  ⟨fun b0 _ h hh => C02_eq_iff_same_incarnation b0 h (cfg_none_test ▸ hh),
   fun b0 _ h hh => C02_isRunning_iff_listed b0 h (cfg_none_test ▸ hh)⟩

/-- **Lead L2 (proved).** With a `boot_time()` that rewrites BOOT_TIME, after `witnessL2` the two objects of
    the same live process compare unequal, and `is_running()` of the first one is False. -/
theorem C02_bootrewrite_counterexample :
    ¬ EqIffSame_Full cfgBootRewrite ∧ ¬ IsRunningIffListed_Full cfgBootRewrite := by
  have h0 : (run cfgBootRewrite (St.init 1000) witnessL2).ps.objs[0]? = some ⟨8, some 100000, some 100000, false, false, 0⟩ := by
    decide
  have h1 : (run cfgBootRewrite (St.init 1000) witnessL2).ps.objs[1]? = some ⟨8, some 101000, some 101000, false, false, 0⟩ := by
    decide
  constructor
  · intro H
    have := H 1000 (by decide) witnessL2 (by decide) 0 1 _ _ h0 h1
    revert this; decide
  · intro H
    have := H 1000 (by decide) witnessL2 (by decide) 0 _ h0
    revert this; decide

/-! ## A published boot time of 0 (RTC-less board before NTP steps the clock) — former finding `C02-boottime-zero`

Clock steps are INSIDE C02's quantifier, and a clock step is exactly what happens on a machine that boots with
`btime 0` (no RTC: the epoch) and is then set by NTP.  Up to /repo 29257b1 `create_time()` computed
`BOOT_TIME or boot_time()`: a cached `0.0` is falsy, so `boot_time()` was asked again on every call, and — `boot_time()`
writing `BOOT_TIME` only while it is `None` — the cached 0.0 was never replaced: every later identity followed the LIVE
boot time, and C02 was false (`C02_btime0_counterexample`, replayed on the real code: `spawn 8; Process(8); btime 0→5;
Process(8)` gave an object != the first, and `is_running()` of the first was False).  Since 29257b1 the test is
`BOOT_TIME is not None` (obligation `cfg_none_test`), and every theorem of this file is stated WITHOUT any hypothesis on
the boot time: `b0` is any number, `HistOK true` allows every clock step.  Below: the same statements as `def`s for an
arbitrary configuration, their proof for ANY configuration with the `is not None` test, `C02_any_boot_full` (the code
as it is), `C02_btime0_as_extracted` (which of the two cases the checked source is), and — as a WHAT-IF theorem about
the unrepaired configuration `cfgTruthy`, not about the checked source — the refutation. -/

def EqIffSame_AnyBoot_Full (c : Cfg) : Prop :=
  ∀ (b0 : Nat) (h : List Ev), HistOK true h → ∀ (i j : Nat) (a b : PObj),
    (run c (St.init b0) h).ps.objs[i]? = some a → (run c (St.init b0) h).ps.objs[j]? = some b →
    (step c (run c (St.init b0) h) (.c (.eq i j))).2 = .bool (decide (SameIncarnation a b))

def IsRunningIffListed_AnyBoot_Full (c : Cfg) : Prop :=
  ∀ (b0 : Nat) (h : List Ev), HistOK true h → ∀ (i : Nat) (o : PObj),
    (run c (St.init b0) h).ps.objs[i]? = some o →
    (step c (run c (St.init b0) h) (.c (.isRunning i))).2 = .bool (listedB (run c (St.init b0) h).kern o)

def AnswersStable_AnyBoot_Full (c : Cfg) : Prop :=
  ∀ (b0 : Nat) (h : List Ev), HistOK true h → ∀ (i j : Nat) (a b : PObj),
    (run c (St.init b0) h).ps.objs[i]? = some a → (run c (St.init b0) h).ps.objs[j]? = some b →
    ∀ (h2 : List Ev), HistOK true h2 →
    (step c (run c (run c (St.init b0) h) h2) (.c (.eq i j))).2 = (step c (run c (St.init b0) h) (.c (.eq i j))).2
    ∧ (step c (run c (run c (St.init b0) h) h2) (.c (.hash i))).2 = (step c (run c (St.init b0) h) (.c (.hash i))).2

/-- the extracted configuration with `create_time()` testing truthiness: `BOOT_TIME or boot_time()` (psutil before
    /repo 29257b1 — a what-if configuration) -/
def cfgTruthy : Cfg := { cfg with createNoneTest := false }
/-- … testing `BOOT_TIME is not None` (fixes/C02-boottime-zero.diff = /repo 29257b1: the checked source,
    `C02_btime0_as_extracted`) -/
def cfgNoneTest : Cfg := { cfg with createNoneTest := true }

/-- a board that boots at the epoch: `Process(8)` captures `BOOT_TIME = 0.0`; NTP steps the clock (published btime 5);
    `Process(8)` again, for the same live process -/
def witnessBtime0 : List Ev := [.k (.spawn 8), .c (.newObj 8), .k (.setBtime 5), .c (.newObj 8)]

example : HistOK true witnessBtime0 := by decide

/-- **C02_any_boot_full_of_none_test** (full strength, generic).  For ANY configuration in which
    `BOOT_TIME` is written once and `create_time()` takes the cached value whenever it `is not None`, all clauses
    hold for ALL histories and ALL initial boot times — 0 included, no hypothesis on clock steps. -/
theorem C02_any_boot_full_of_none_test (c : Cfg) (hc : c.BootGood) (hn : c.createNoneTest = true) :
    EqIffSame_AnyBoot_Full c ∧ IsRunningIffListed_AnyBoot_Full c ∧ AnswersStable_AnyBoot_Full c := by
  refine ⟨?_, ?_, ?_⟩
  · intro b0 h hh i j a b ha hb
    exact eq_iff_same_gen hc b0 (Or.inl hn) h (hn ▸ hh) i j a b ha hb
  · intro b0 h hh i o ho
    exact isRunning_iff_listed_gen hc b0 (Or.inl hn) h (hn ▸ hh) i o ho
  · intro b0 h hh i j a b ha hb h2 hh2
    exact answers_stable_gen hc b0 (Or.inl hn) h (hn ▸ hh) i j a b ha hb h2 (hn ▸ hh2)

/-- the repaired configuration, built by hand from the extracted one, satisfies the obligations -/
theorem cfgNoneTest_good : cfgNoneTest.BootGood ∧ cfgNoneTest.createNoneTest = true :=
  ⟨⟨cfg_good.once, cfg_good.cache⟩, rfl⟩

/-- **C02_btime0_counterexample** (WHAT-IF: the unrepaired configuration `cfgTruthy` — the source before /repo 29257b1,
    former finding `C02-boottime-zero`; NOT the checked source, see `C02_btime0_as_extracted`).  With the truthiness
    test, after `witnessBtime0` from a published boot time of 0 the two objects of the same live process compare unequal
    and `is_running()` of the first is False (it is flagged "PID reused"; with C01's guard its `terminate()` raises
    NoSuchProcess).  This is what comes back if the test is reverted — and then `cfg_none_test` stops building. -/
theorem C02_btime0_counterexample :
    ¬ EqIffSame_AnyBoot_Full cfgTruthy ∧ ¬ IsRunningIffListed_AnyBoot_Full cfgTruthy := by
  have h0 : (run cfgTruthy (St.init 0) witnessBtime0).ps.objs[0]? = some ⟨8, some 0, some 0, false, false, 0⟩ := by
    decide
  have h1 : (run cfgTruthy (St.init 0) witnessBtime0).ps.objs[1]?
      = some ⟨8, some (0 + cfg.clk * 5), some (0 + cfg.clk * 5), false, false, 0⟩ := by decide
  constructor
  · intro H
    have := H 0 witnessBtime0 (by decide) 0 1 _ _ h0 h1
    revert this; decide
  · intro H
    have := H 0 witnessBtime0 (by decide) 0 _ h0
    revert this; decide

/-- **C02_any_boot_full** (the code as it is).  For the configuration extracted from the checked source all clauses
    hold for ALL histories and ALL initial boot times — 0 included, no hypothesis on clock steps.  (These are the
    statements of `C02_eq_iff_same_incarnation`, `C02_isRunning_iff_listed`, `C02_answers_stable` in one place.) -/
theorem C02_any_boot_full :
    EqIffSame_AnyBoot_Full cfg ∧ IsRunningIffListed_AnyBoot_Full cfg ∧ AnswersStable_AnyBoot_Full cfg :=
  C02_any_boot_full_of_none_test cfg cfg_good cfg_none_test

/-- **C02_btime0_as_extracted.** Which case the checked source is: the REPAIRED one.  The extracted configuration tests
    `BOOT_TIME is not None`; it IS `cfgNoneTest` and is NOT `cfgTruthy` (the configuration `C02_btime0_counterexample`
    refutes); and the hypothesis-free statements hold for it. -/
theorem C02_btime0_as_extracted :
    cfg.createNoneTest = true ∧ cfg = cfgNoneTest ∧ cfg ≠ cfgTruthy
    ∧ EqIffSame_AnyBoot_Full cfg ∧ IsRunningIffListed_AnyBoot_Full cfg ∧ AnswersStable_AnyBoot_Full cfg := by
  refine ⟨cfg_none_test, ?_, ?_, C02_any_boot_full⟩
  · have h : cfg = { cfg with createNoneTest := cfg.createNoneTest } := rfl
    rw [cfg_none_test] at h
    exact h
  · intro h
    have h2 : cfg.createNoneTest = cfgTruthy.createNoneTest := congrArg Cfg.createNoneTest h
    rw [cfg_none_test] at h2
    exact absurd h2 (by decide)

/-- with the extracted configuration, along `witnessBtime0` from a published boot time of 0: the two objects of the same
    live process are equal, hash alike, and both are running (the very answers `cfgTruthy` gets wrong) -/
example :
    (step cfg (run cfg (St.init 0) witnessBtime0) (.c (.eq 0 1))).2 = .bool true
    ∧ (step cfg (run cfg (St.init 0) witnessBtime0) (.c (.hash 0))).2
        = (step cfg (run cfg (St.init 0) witnessBtime0) (.c (.hash 1))).2
    ∧ (step cfg (run cfg (St.init 0) witnessBtime0) (.c (.isRunning 0))).2 = .bool true
    ∧ (step cfg (run cfg (St.init 0) witnessBtime0) (.c (.isRunning 1))).2 = .bool true := by decide

/-! ## `(pid, None)` identities — CHARACTERISATION outside the property's quantifier

C02 quantifies over histories of spawn/exit/reap/PID-reuse events, clock steps and psutil calls (`HistOK`).
Whether `/proc/pid/stat` can be opened is not one of those events: on Linux the file is world-readable, and
`Process._init` says so ("This should happen on Windows only … on all other platforms we are able to get create
time for all PIDs").  Under a hidepid mount or an LSM it is not, and then (transcribed in `mkObj`) `_init`
catches AccessDenied and leaves the provisional `_ident = (pid, None)`.  The theorems below say exactly what `==`
and `is_running()` answer then (any state), and the counterexample shows that the statements of
`C02_eq_iff_same_incarnation` / `C02_isRunning_iff_listed` do not extend to histories with unreadable stat
files; the witnesses are replayed on the real code by the check (corpus `unknown-start-*`). -/

/-- **C02_unknown_start_meaning.** In any state: `Process(pid)` for a listed PID whose stat file cannot be opened
    succeeds; the new object has `_ident = (pid, None)`, no memoised create time, no sticky flag, its ghost is
    the current owner, and `BOOT_TIME` is not touched. -/
theorem C02_unknown_start_meaning (s : St) (pid : Nat) (x : Inst)
    (hf : s.kern.find pid = some x) (hh : s.kern.isHidden pid = true) :
    step cfg s (.c (.newObj pid))
      = ({ s with ps := { s.ps with objs := s.ps.objs ++ [⟨pid, none, none, false, false, x.start⟩] } },
         .obj s.ps.objs.length) := by
  have hneg : ¬ ((pid : Int) < 0) := by omega
  simp [step, hneg, mkObj, hf, hh]

/-- **C02_eq_unknown_start.** In any state: two objects whose start is unknown are equal exactly when they have
    the same PID (whatever processes they were built for); an object with unknown start never equals one
    with a known start (even when both were built for the same process). -/
theorem C02_eq_unknown_start (s : St) (i j : Nat) (a b : PObj)
    (ha : s.ps.objs[i]? = some a) (hb : s.ps.objs[j]? = some b) (hna : a.ident = none) :
    (b.ident = none → (step cfg s (.c (.eq i j))).2 = .bool (a.pid == b.pid))
    ∧ (b.ident ≠ none → (step cfg s (.c (.eq i j))).2 = .bool false) := by
  rw [step_eq_out cfg s ha hb, hna]
  constructor
  · intro hnb; rw [hnb]; simp
  · intro hnb
    cases hbi : b.ident with
    | none => exact absurd hbi hnb
    | some v => simp

/-- **C02_isRunning_unknown_start.** In any state: `is_running()` of an unflagged object whose start is unknown is
    True exactly when its PID is listed and the stat file of whoever holds it now is unreadable too (the fresh
    `Process(pid)` then also gets `(pid, None)`) — it follows the readability of the PID, not the process. -/
theorem C02_isRunning_unknown_start (s : St) (i : Nat) (o : PObj) (ho : s.ps.objs[i]? = some o)
    (hn : o.ident = none) (hg : o.gone = false) (hr : o.reused = false) :
    (step cfg s (.c (.isRunning i))).2 = .bool ((s.kern.find o.pid).isSome && s.kern.isHidden o.pid) := by
  rw [step_isRunning_out cfg s ho]
  congr 1
  unfold isRunningO
  simp only [hg, hr, Bool.or_self, Bool.false_eq_true, if_false, mkObj]
  cases hf : s.kern.find o.pid with
  | none => rfl
  | some x =>
    cases hh : s.kern.isHidden o.pid with
    | true => simp [hn]
    | false => simp [hn]

/-! `HistOKb` (Proofs/C01Hid.lean): histories that may hide `/proc/pid/stat` — only "no PID recycled within one clock
tick" is asked (and, for a configuration with the truthiness test, "the published boot time is never 0": void for the
checked source, `cfg_none_test`). -/

def EqIffSame_AnyReadability_Full (c : Cfg) : Prop :=
  ∀ (b0 : Nat), BtOK c.createNoneTest b0 → ∀ (h : List Ev), HistOKb c.createNoneTest h → ∀ (i j : Nat) (a b : PObj),
    (run c (St.init b0) h).ps.objs[i]? = some a → (run c (St.init b0) h).ps.objs[j]? = some b →
    (step c (run c (St.init b0) h) (.c (.eq i j))).2 = .bool (decide (SameIncarnation a b))

def IsRunningIffListed_AnyReadability_Full (c : Cfg) : Prop :=
  ∀ (b0 : Nat), BtOK c.createNoneTest b0 → ∀ (h : List Ev), HistOKb c.createNoneTest h → ∀ (i : Nat) (o : PObj),
    (run c (St.init b0) h).ps.objs[i]? = some o →
    (step c (run c (St.init b0) h) (.c (.isRunning i))).2 = .bool (listedB (run c (St.init b0) h).kern o)

/-- one live process, seen once while its stat file is unreadable and once after it became readable -/
def witnessUnknownThenKnown : List Ev :=
  [.k (.spawn 8), .k (.hide 8 true), .c (.newObj 8), .k (.hide 8 false), .c (.newObj 8)]

/-- an object built while stat was readable; the file then becomes unreadable -/
def witnessKnownThenHidden : List Ev := [.k (.spawn 8), .c (.newObj 8), .k (.hide 8 true)]

/-- an object with unknown start; its process ends and the PID goes to another unreadable process -/
def witnessUnknownRecycled : List Ev :=
  [.k (.spawn 8), .k (.hide 8 true), .c (.newObj 8), .k (.reap 8), .k (.spawn 8), .c (.newObj 8)]

/-- **C02_unknown_start_counterexample** (characterisation, not a defect against C02 as stated: readability
    changes are outside its quantifier).  With the extracted configuration, once stat files can be unreadable:
    two objects of the same live process compare unequal (`witnessUnknownThenKnown`, and `is_running()` of the first
    is False: the fresh `(8, t)` differs from `(8, None)`, the object is flagged "PID reused"); `is_running()` of
    an object with a known start is False while its process is alive (`witnessKnownThenHidden`); and for an object
    with unknown start `is_running()` stays True after its process ended, and it equals the object of the PID's
    next owner (`witnessUnknownRecycled`). -/
theorem C02_unknown_start_counterexample :
    ¬ EqIffSame_AnyReadability_Full cfg ∧ ¬ IsRunningIffListed_AnyReadability_Full cfg
    ∧ (step cfg (run cfg (St.init 1000) witnessKnownThenHidden) (.c (.isRunning 0))).2 = .bool false
    ∧ listedB (run cfg (St.init 1000) witnessKnownThenHidden).kern ⟨8, some (0 + cfg.clk * 1000), some (0 + cfg.clk * 1000), false, false, 0⟩ = true
    ∧ (step cfg (run cfg (St.init 1000) witnessUnknownRecycled) (.c (.isRunning 0))).2 = .bool true
    ∧ (step cfg (run cfg (St.init 1000) witnessUnknownRecycled) (.c (.eq 0 1))).2 = .bool true := by
  have h0 : (run cfg (St.init 1000) witnessUnknownThenKnown).ps.objs[0]? = some ⟨8, none, none, false, false, 0⟩ := by
    decide
  have h1 : (run cfg (St.init 1000) witnessUnknownThenKnown).ps.objs[1]?
      = some ⟨8, some (0 + cfg.clk * 1000), some (0 + cfg.clk * 1000), false, false, 0⟩ := by decide
  have hok : HistOKb cfg.createNoneTest witnessUnknownThenKnown := by decide
  refine ⟨?_, ?_, by decide, by decide, by decide, by decide⟩
  · intro H
    have := H 1000 (by decide) witnessUnknownThenKnown hok 0 1 _ _ h0 h1
    revert this; decide
  · intro H
    have := H 1000 (by decide) witnessUnknownThenKnown hok 0 _ h0
    revert this; decide

/-! ## What the property DOES promise when stat files may be unreadable (seeded round 5, C02-7)

`C02_unknown_start_counterexample` shows which "iff"s are lost once an object can be built blind (`_ident = (pid, None)`).
It does not make such objects lawless: the clauses below are statements of the property ("False ever after, even when
the PID is alive again under a new process", "equal objects hash alike", "not on any other psutil call made in between")
and hold over ALL histories with `hide` events anywhere (`HistOKb`: in particular while a `Process` object is being
built), for EVERY object — known start or `(pid, None)` — with ANY calls in between (`create_time()`, `is_running()`,
`process_iter()`, `as_dict`, …).  `StatOpens` (Spec/C01.lean) is an input of the kernel: the PID is free, or its holder's
stat file opens right now.  They rest on the model's "nothing rewrites `_ident` after construction", which is the
obligation `cfg_identity_shape` (fact `identityStores`). -/

/-- **C02_not_running_after_gone_readable.**  After ANY history in which stat files may be unreadable at any point
    (`HistOKb`), for EVERY object: when the incarnation the object was built for has left the process table and
    `/proc/pid/stat` of its PID opens at the moment of the call (the PID is free, or its NEW holder is readable),
    `is_running()` is False — an object never "adopts" a later holder of its PID, whatever was asked in between.  The only
    hole left is the one `C02_unknown_start_counterexample` exhibits (start unknown AND the new holder unreadable at that
    very moment). -/
theorem C02_not_running_after_gone_readable (b0 : Nat) (h : List Ev) (hh : HistOKb true h) (i : Nat) (o : PObj)
    (ho : (run cfg (St.init b0) h).ps.objs[i]? = some o)
    (hgone : ¬ Listed (run cfg (St.init b0) h).kern o)
    (hread : StatOpens (run cfg (St.init b0) h).kern o.pid) :
    (step cfg (run cfg (St.init b0) h) (.c (.isRunning i))).2 = .bool false := by
  have hinv := run_inv2 cfg_good h _ (HistOKb.of_none_test cfg_none_test hh) (init_inv2 cfg.clk (BtOK.of_none_test cfg_none_test b0))
  rw [step_isRunning_out cfg _ ho, isRunning_false_readable cfg_good _ hinv.kern.stamp hinv.ps.boot_nz
    (hinv.ps.objs o (List.mem_of_getElem? ho)) hgone hread]

/-- **C02_eq_any_readability.**  After ANY history with unreadable phases, for ANY two objects: when `==` answers True
    the two have the same PID, hash alike, and — as soon as one of them was built while its stat file opened (has a
    start time; `C02_unknown_start_meaning` is the converse reading) — were built for the same process start.  So no
    object of a later holder of the PID ever equals an object of an earlier one, unless BOTH were built blind. -/
theorem C02_eq_any_readability (b0 : Nat) (h : List Ev) (hh : HistOKb true h) (i j : Nat) (a b : PObj)
    (ha : (run cfg (St.init b0) h).ps.objs[i]? = some a) (hb : (run cfg (St.init b0) h).ps.objs[j]? = some b)
    (he : (step cfg (run cfg (St.init b0) h) (.c (.eq i j))).2 = .bool true) :
    a.pid = b.pid
    ∧ (step cfg (run cfg (St.init b0) h) (.c (.hash i))).2 = (step cfg (run cfg (St.init b0) h) (.c (.hash j))).2
    ∧ (a.ident ≠ none ∨ b.ident ≠ none → SameIncarnation a b) := by
  have hinv := run_inv2 cfg_good h _ (HistOKb.of_none_test cfg_none_test hh) (init_inv2 cfg.clk (BtOK.of_none_test cfg_none_test b0))
  rw [step_eq_out cfg _ ha hb] at he
  have he' : (a.pid == b.pid && a.ident == b.ident) = true := by simpa using he
  obtain ⟨hp, hi, hg⟩ := eq_true_shape (hinv.ps.objs a (List.mem_of_getElem? ha)) (hinv.ps.objs b (List.mem_of_getElem? hb)) he'
  refine ⟨hp, ?_, fun hk => ⟨hp, hg hk⟩⟩
  rw [step_hash_out cfg _ ha, step_hash_out cfg _ hb, hp, hi]

/-- **C02_object_constant_any_readability.**  "Not on any other psutil call made in between", over histories with
    unreadable phases: NO event — kernel event or psutil call of any kind, `create_time()` included — changes the PID,
    the identity `(pid, create time | None)` (hence the answers of `==` and `hash()`) or the ghost of an existing
    object; an identity left incomplete at construction stays incomplete. -/
theorem C02_object_constant_any_readability (b0 : Nat) (h : List Ev) (hh : HistOKb true h) (ev : Ev) (j : Nat) (o : PObj)
    (ho : (run cfg (St.init b0) h).ps.objs[j]? = some o) :
    ∃ o', (step cfg (run cfg (St.init b0) h) ev).1.ps.objs[j]? = some o'
      ∧ o'.pid = o.pid ∧ o'.ident = o.ident ∧ o'.ghost = o.ghost := by
  have hinv := run_inv2 cfg_good h _ (HistOKb.of_none_test cfg_none_test hh) (init_inv2 cfg.clk (BtOK.of_none_test cfg_none_test b0))
  obtain ⟨o', ho', hs⟩ := step_same cfg_good _ ev hinv j o ho
  exact ⟨o', ho', hs.pid, hs.ident, hs.ghost⟩

/-- the history these clauses were added for (non-vacuity): PID 7's stat is unreadable while the object is built, the
    process is reaped, PID 7 goes to another process whose stat IS readable, `create_time()` is asked (it answers with
    the NEW holder's start; `_ident` stays `(7, None)`), a second object is built for the new holder: the first object
    is not running, the two are unequal -/
example :
    let h : List Ev := [.k (.spawn 7), .k (.hide 7 true), .c (.newObj 7), .k (.reap 7), .k (.spawn 7),
                        .k (.hide 7 false), .c (.createTime 0), .c (.newObj 7)]
    HistOKb true h
    ∧ (run cfg (St.init 1000) h).ps.objs[0]? = some ⟨7, none, some (1 + cfg.clk * 1000), false, false, 0⟩
    ∧ statOpensB (run cfg (St.init 1000) h).kern 7 = true ∧ listedB (run cfg (St.init 1000) h).kern ⟨7, none, none, false, false, 0⟩ = false
    ∧ (step cfg (run cfg (St.init 1000) h) (.c (.isRunning 0))).2 = .bool false
    ∧ (step cfg (run cfg (St.init 1000) h) (.c (.eq 0 1))).2 = .bool false := by decide

/-! ## Transient failures of the read of `/proc/pid/stat` (seeded round 5; Model/C02Fault.lean, Spec/C02Fault.lean)

  Histories `List FEv`: everything above, plus `fault pid on/off` events — from `on` to `off` every attempt to get the
  content of `/proc/pid/stat` fails with an OSError that is neither ENOENT/ESRCH nor EACCES/EPERM (EMFILE, ENFILE,
  ENOMEM, EIO, …: the caller ran out of file descriptors, the kernel out of memory, …).  ANY PID, at ANY point, for any
  duration, several at once (`FHistOK` restricts the kernel events exactly as `HistOK` does and the faults not at all). -/
open Psutil.C02.Spec

set_option maxRecDepth 20000 in
/-- **cfg_stat_fault_propagates** (obligation on the path from the read to the caller of `is_running()`):
    `_parse_stat_file` gets the content with a bare `bcat(path)` (fact `statReadShape`), `cat`/`bcat` guard the
    read only when a `fallback` is given (`catShape`), `wrap_exceptions` translates PermissionError /
    ProcessLookupError / FileNotFoundError only (`wrapHandlers`), `is_running()` turns only NoSuchProcess into
    `_gone` (`isRunningHandlers`), `_init` catches AccessDenied / ZombieProcess / NoSuchProcess only (`initHandlers`)
    — so the configuration the driver runs and the theorems below speak about is `StatFault.propagates`.  Stops
    building as soon as one of the stages swallows more (a `fallback=`, a detour through a helper, a broader
    `except`): what that does to C02 is `C02_fault_swallowed_counterexample`. -/
theorem cfg_stat_fault_propagates :
    statReadBare = true ∧ catBare = true ∧ wrapNarrow = true ∧ isRunningNarrow = true ∧ initNarrow = true
    ∧ statFault = .propagates := by decide

/-- (helper) the hypothesis on histories with failing reads, indexed as the lemmas of Proofs/C02Fault.lean want it -/
theorem fhist_ok {h : List FEv} (hh : FHistOK true h) : FHistOK cfg.createNoneTest h := by
  rw [cfg_none_test]; exact hh

/-- (helper) the invariant of the identity machine holds after any history with failing reads -/
theorem frun_inv (b0 : Nat) (h : List FEv) (hh : FHistOK true h) :
    Inv cfg.createNoneTest cfg.clk (runF cfg .propagates (FSt.init b0) h).st :=
  runF_inv cfg_good h (FSt.init b0) (fhist_ok hh) (init_inv cfg.clk (BtOK.of_none_test cfg_none_test b0))

/-- **is_running() while reads fail, exactly.**  After ANY history with failing reads, for any object: the call
    leaves with the OS error exactly when it has to read a stat file that fails right now (no sticky flag answers
    and the object's own PID is faulty); in every other case — the fault is on another PID, is over, or was never
    there — it answers whether the object's own incarnation is still in the process table. -/
theorem C02_fault_isRunning_exact (b0 : Nat) (h : List FEv) (hh : FHistOK true h) (i : Nat) (o : PObj)
    (ho : (runF cfg statFault (FSt.init b0) h).st.ps.objs[i]? = some o) :
    (stepF cfg statFault (runF cfg statFault (FSt.init b0) h).st (runF cfg statFault (FSt.init b0) h).faulty
        (.isRunning i)).2
      = if !flagged o && (runF cfg statFault (FSt.init b0) h).faulty.contains o.pid then .osError
        else .ok (.bool (listedB (runF cfg statFault (FSt.init b0) h).st.kern o)) := by
  rw [cfg_stat_fault_propagates.2.2.2.2.2] at ho ⊢
  exact stepF_isRunning cfg_good (frun_inv b0 h hh) _ ho

/-- **The clause seeded C02-5 breaks.**  After any history with failing reads `is_running()` tells the truth about
    the object's own incarnation, or — only while reads of the object's own PID fail — leaves with the OS error:
    never False for a process that is still in the table, never True for one that is not. -/
theorem C02_fault_isRunning_right_or_withheld (b0 : Nat) (h : List FEv) (hh : FHistOK true h) (i : Nat) (o : PObj)
    (ho : (runF cfg statFault (FSt.init b0) h).st.ps.objs[i]? = some o) :
    RightOrWithheld (runF cfg statFault (FSt.init b0) h).faulty (runF cfg statFault (FSt.init b0) h).st.kern o
      (stepF cfg statFault (runF cfg statFault (FSt.init b0) h).st (runF cfg statFault (FSt.init b0) h).faulty
        (.isRunning i)).2 := by
  rw [C02_fault_isRunning_exact b0 h hh i o ho]
  unfold RightOrWithheld
  split
  · rename_i hc
    simp only [Bool.and_eq_true, List.contains_iff_mem] at hc
    exact Or.inr ⟨rfl, by simpa using hc.2⟩
  · exact Or.inl rfl

/-- **Nothing sticks.**  Once no read fails any more (`faulty = []` at the end of the history — whatever failed
    before, whichever calls were made meanwhile), `is_running()` answers exactly as in a world without faults:
    True iff the object's own incarnation is in the table. -/
theorem C02_fault_no_trace (b0 : Nat) (h : List FEv) (hh : FHistOK true h)
    (hclear : (runF cfg statFault (FSt.init b0) h).faulty = []) (i : Nat) (o : PObj)
    (ho : (runF cfg statFault (FSt.init b0) h).st.ps.objs[i]? = some o) :
    (stepF cfg statFault (runF cfg statFault (FSt.init b0) h).st (runF cfg statFault (FSt.init b0) h).faulty
        (.isRunning i)).2 = .ok (.bool (listedB (runF cfg statFault (FSt.init b0) h).st.kern o)) := by
  rw [C02_fault_isRunning_exact b0 h hh i o ho, hclear]
  simp

/-- `==` and `hash()` read nothing: after any history with failing reads, and while reads fail, two objects are equal
    exactly when they have the same PID and were built for the same process start, and equal objects hash alike -/
theorem C02_fault_eq_hash (b0 : Nat) (h : List FEv) (hh : FHistOK true h) (i j : Nat) (a b : PObj)
    (ha : (runF cfg statFault (FSt.init b0) h).st.ps.objs[i]? = some a)
    (hb : (runF cfg statFault (FSt.init b0) h).st.ps.objs[j]? = some b) :
    (stepF cfg statFault (runF cfg statFault (FSt.init b0) h).st (runF cfg statFault (FSt.init b0) h).faulty
        (.eq i j)).2 = .ok (.bool (decide (SameIncarnation a b)))
    ∧ (SameIncarnation a b →
        (stepF cfg statFault (runF cfg statFault (FSt.init b0) h).st (runF cfg statFault (FSt.init b0) h).faulty
          (.hash i)).2
        = (stepF cfg statFault (runF cfg statFault (FSt.init b0) h).st (runF cfg statFault (FSt.init b0) h).faulty
          (.hash j)).2) := by
  rw [cfg_stat_fault_propagates.2.2.2.2.2] at ha hb ⊢
  have hinv := frun_inv b0 h hh
  generalize (runF cfg .propagates (FSt.init b0) h).st = s at *
  generalize (runF cfg .propagates (FSt.init b0) h).faulty = F at *
  obtain ⟨B, hoa, hob⟩ := shared_boot hinv ha hb
  rw [stepF_eq_out, stepF_hash_out, stepF_hash_out, step_eq_out cfg s ha hb, step_hash_out cfg s ha,
    step_hash_out cfg s hb]
  refine ⟨?_, fun hsame => by rw [hoa.ident_eq, hob.ident_eq, hsame.1, hsame.2]⟩
  show OutF.ok (Out.bool (a.pid == b.pid && a.ident == b.ident)) = OutF.ok (Out.bool (decide (SameIncarnation a b)))
  congr 2
  rw [hoa.ident_eq, hob.ident_eq, Bool.eq_iff_iff, decide_eq_true_iff]
  simp [SameIncarnation]

/-- along any continuation with failing reads an object keeps its PID, the process it was built for and its
    `_ident`; sticky flags are only ever set -/
theorem C02_fault_object_constant (b0 : Nat) (h : List FEv) (hh : FHistOK true h) (i : Nat) (o : PObj)
    (ho : (runF cfg statFault (FSt.init b0) h).st.ps.objs[i]? = some o) (h2 : List FEv) (hh2 : FHistOK true h2) :
    ∃ o', (runF cfg statFault (runF cfg statFault (FSt.init b0) h) h2).st.ps.objs[i]? = some o' ∧ Evolves o o' := by
  rw [cfg_stat_fault_propagates.2.2.2.2.2] at ho ⊢
  exact runF_ext cfg_good h2 _ (fhist_ok hh2) (frun_inv b0 h hh) i o ho

/-- **"False ever after", with failing reads.**  Once the object's incarnation has left the table, `is_running()` is
    never True again after any continuation — failing reads, recycled PID, anything: it answers False or (while reads
    of its PID fail and no sticky flag is set yet) leaves with the OS error. -/
theorem C02_fault_never_true_after_gone (b0 : Nat) (h : List FEv) (hh : FHistOK true h) (i : Nat) (o : PObj)
    (ho : (runF cfg statFault (FSt.init b0) h).st.ps.objs[i]? = some o)
    (hgone : ¬ Listed (runF cfg statFault (FSt.init b0) h).st.kern o) (h2 : List FEv) (hh2 : FHistOK true h2) :
    (stepF cfg statFault (runF cfg statFault (runF cfg statFault (FSt.init b0) h) h2).st
        (runF cfg statFault (runF cfg statFault (FSt.init b0) h) h2).faulty (.isRunning i)).2 ≠ .ok (.bool true) := by
  rw [cfg_stat_fault_propagates.2.2.2.2.2] at ho hgone ⊢
  have hinv := frun_inv b0 h hh
  generalize runF cfg .propagates (FSt.init b0) h = fs at *
  have hinv2 := runF_inv cfg_good h2 fs (fhist_ok hh2) hinv
  obtain ⟨o', ho', hevo⟩ := runF_ext cfg_good h2 fs (fhist_ok hh2) hinv i o ho
  obtain ⟨B, hB, hok⟩ := hinv.ps.objs o (List.mem_of_getElem? ho)
  have hdead : fs.st.kern.owner o.pid ≠ some o.ghost := fun e => hgone ((listed_iff_owner hinv.kern o).2 e)
  have hdead2 := runF_dead (c := cfg) .propagates o.pid o.ghost h2 fs hok.ghost_lt hdead
  rw [stepF_isRunning cfg_good hinv2 _ ho']
  split
  · intro hc; cases hc
  · intro hc
    injection hc with hc; injection hc with hc
    have hl := (listed_iff_owner hinv2.kern o').1 ((listedB_iff _ _).1 hc)
    rw [hevo.pid, hevo.ghost] at hl
    exact hdead2 hl

/-- ANY state, any fault set: a call (other than the sweep) that leaves with the transient OS error has stored
    nothing — module state, objects, cache, effect log and kernel are what they were -/
theorem C02_fault_oserror_stores_nothing (s : St) (F : List Nat) (call : Call) (hne : call ≠ .processIter)
    (hout : (stepF cfg statFault s F call).2 = .osError) : (stepF cfg statFault s F call).1 = s := by
  rw [cfg_stat_fault_propagates.2.2.2.2.2] at hout ⊢
  rcases stepF_cases cfg s F call hne with e | e
  · rw [e]
  · rw [e] at hout; cases hout

/-- ANY state, any fault set: a sweep — complete or cut short by a failing read — leaves the kernel and every existing
    object exactly as it was (objects are only appended), and every cache entry afterwards was cached before or is a
    fresh object built for the current owner of its PID, without sticky flags -/
theorem C02_fault_sweep_keeps_objects (s : St) (F : List Nat) :
    (stepF cfg statFault s F .processIter).1.kern = s.kern
    ∧ (∀ (j : Nat) (o : PObj), s.ps.objs[j]? = some o → (stepF cfg statFault s F .processIter).1.ps.objs[j]? = some o)
    ∧ (∀ e ∈ (stepF cfg statFault s F .processIter).1.ps.pmap,
        e ∈ s.ps.pmap ∨ FreshHandle s.kern s.ps.objs.length (stepF cfg statFault s F .processIter).1.ps.objs e) := by
  rw [cfg_stat_fault_propagates.2.2.2.2.2]
  obtain ⟨⟨t, ht⟩, hy⟩ := sweepF_shape cfg s.kern s.ps F
  refine ⟨rfl, fun j o ho => ?_, hy⟩
  rw [stepF_sweep]
  simp only [ht]
  exact getElem?_append_of_some ho t

/-- the full statements, for any configuration and any way the failure surfaces -/
def IsRunningRightOrWithheld_Full (c : Cfg) (sf : StatFault) : Prop :=
  ∀ (b0 : Nat), BtOK c.createNoneTest b0 → ∀ (h : List FEv), FHistOK c.createNoneTest h → ∀ (i : Nat) (o : PObj),
    (runF c sf (FSt.init b0) h).st.ps.objs[i]? = some o →
    RightOrWithheld (runF c sf (FSt.init b0) h).faulty (runF c sf (FSt.init b0) h).st.kern o
      (stepF c sf (runF c sf (FSt.init b0) h).st (runF c sf (FSt.init b0) h).faulty (.isRunning i)).2

def NoTrace_Full (c : Cfg) (sf : StatFault) : Prop :=
  ∀ (b0 : Nat), BtOK c.createNoneTest b0 → ∀ (h : List FEv), FHistOK c.createNoneTest h →
    (runF c sf (FSt.init b0) h).faulty = [] → ∀ (i : Nat) (o : PObj),
    (runF c sf (FSt.init b0) h).st.ps.objs[i]? = some o →
    (stepF c sf (runF c sf (FSt.init b0) h).st [] (.isRunning i)).2
      = .ok (.bool (listedB (runF c sf (FSt.init b0) h).st.kern o))

/-- both hold for the source as extracted -/
theorem C02_fault_full_statements : IsRunningRightOrWithheld_Full cfg statFault ∧ NoTrace_Full cfg statFault :=
  ⟨fun b0 _ h hh i o ho => C02_fault_isRunning_right_or_withheld b0 h (cfg_none_test ▸ hh) i o ho,
   fun b0 _ h hh hclear i o ho => by
     have := C02_fault_no_trace b0 h (cfg_none_test ▸ hh) hclear i o ho
     rw [hclear] at this; exact this⟩

/-- live process 8, one handle, reads of `/proc/8/stat` start failing -/
def witnessFaultOn : List FEv := [.ev (.k (.spawn 8)), .ev (.c (.newObj 8)), .fault 8 true]

/-- … `is_running()` is asked during the shortage, then the shortage is over -/
def witnessFaultAsked : List FEv := witnessFaultOn ++ [.ev (.c (.isRunning 0)), .fault 8 false]

example : FHistOK true witnessFaultOn ∧ FHistOK true witnessFaultAsked := by decide

set_option maxRecDepth 20000 in
/-- non-vacuity, the extracted configuration: during the shortage the answer is withheld, afterwards it is True
    again, and a fresh handle is equal to the old one -/
example :
    (stepF cfg statFault (runF cfg statFault (FSt.init 1000) witnessFaultOn).st
      (runF cfg statFault (FSt.init 1000) witnessFaultOn).faulty (.isRunning 0)).2 = .osError
    ∧ (stepF cfg statFault (runF cfg statFault (FSt.init 1000) witnessFaultAsked).st
        (runF cfg statFault (FSt.init 1000) witnessFaultAsked).faulty (.isRunning 0)).2 = .ok (.bool true)
    ∧ (runF cfg statFault (FSt.init 1000) (witnessFaultAsked ++ [.ev (.c (.newObj 8)), .ev (.c (.eq 0 1))])).st.ps.objs.length = 2 := by
  decide

/-- **What swallowing the failure does (what-if: `StatFault.asGone`, e.g. `bcat(path, fallback=b"")` + "empty ⇒
    NoSuchProcess", or `except OSError` around the read — seeded C02-5).**  Both full statements are false: during
    the shortage `is_running()` of the handle of LIVE process 8 answers False (`witnessFaultOn`), and the `_gone`
    flag set then keeps it False after the shortage is over (`witnessFaultAsked`), while the process is in the
    table all along. -/
theorem C02_fault_swallowed_counterexample :
    ¬ IsRunningRightOrWithheld_Full cfg .asGone ∧ ¬ NoTrace_Full cfg .asGone := by
  have h0 : (runF cfg .asGone (FSt.init 1000) witnessFaultOn).st.ps.objs[0]?
      = some ⟨8, some (0 + cfg.clk * 1000), some (0 + cfg.clk * 1000), false, false, 0⟩ := by decide
  have h1 : (runF cfg .asGone (FSt.init 1000) witnessFaultAsked).st.ps.objs[0]?
      = some ⟨8, some (0 + cfg.clk * 1000), some (0 + cfg.clk * 1000), true, false, 0⟩ := by decide
  constructor
  · intro H
    have := H 1000 (by decide) witnessFaultOn (by decide) 0 _ h0
    revert this; unfold RightOrWithheld; decide
  · intro H
    have := H 1000 (by decide) witnessFaultAsked (by decide) (by decide) 0 _ h1
    revert this; decide

/-! ## The bytes of `/proc/<pid>/stat` — command names and the other fields as a dimension of the histories
     (seeded round 5, C02-6; Model/C01Stat.lean + Model/C02Stat.lean, Spec/C02Stat.lean, Proofs/C02Stat.lean)

The identity `(pid, create_time)` behind `==`, `hash()` and `is_running()` is PARSED by psutil from the stat line the
kernel publishes, `pid (comm) state ppid … starttime …` (proc(5)).  `comm` is chosen by the process itself — the name of
the executable, `prctl(PR_SET_NAME)` —: any bytes (spaces, parentheses, `) `, newlines, text that looks like the rest of a
stat line), and it CHANGES while the process lives (`execve()` of a script after `fork()`, a rename), as do the counters
in the other fields.  Histories `List FEvB`: every event of the histories above, where a `spawn` says which comm and
which other fields the new incarnation shows, plus `rewrite pid comm aux` (the line of a LIVING process changes in
everything but pid, state and starttime) — and the failing reads of the previous section, all interleaved.  psutil's
calls run on the kernel as its reader makes it out of those bytes (`readStat` in the extracted shape `scfg`, `view`,
`FStB.step`); the specification looks at the kernel's own table only (`ListedB`, `SameIncarnation`; Spec/C02Stat.lean).
Hypothesis `FHistOKB`: the lines are in the kernel's format (a state letter, 17 numbers between ppid and starttime, at
least 17 after it) and the process table obeys `FHistOK true`.  NO hypothesis on any comm, none on when lines change. -/

/-- **scfg_good** (obligation on the translator's facts `statSearch`, `statNeedle`, `statSkip`, `statSplit`,
    `statCtimeIdx`, `statStatusIdx`, `createReads` — extracted by following the DATA FLOW of `_parse_stat_file` /
    `create_time`, helper functions inlined, so a move of the same logic into a helper changes nothing): the end of the
    name is the LAST `)` of the file content, the fields start two bytes further and are split at runs of whitespace,
    field 19 is stored as 'create_time' and field 0 as 'status', `create_time()` is
    `float(<stat record>['create_time']) / CLOCK_TICKS` + boot time, and the driver runs exactly that reader.  Stops
    building when the name is delimited any other way (first `)`, first `) `, a non-greedy regular expression, a
    `partition`, …) or when `create_time()` obtains starttime by another route. -/
theorem scfg_good :
    scfgRaw.Good ∧ Gen.C02.statSearch = "rfind" ∧ Gen.C02.statSplit = "ws"
      ∧ Gen.C02.createReads = "float(create_time)/CLOCK_TICKS" ∧ scfg = scfgRaw := by
  decide

theorem scfg_is_good : scfg.Good := scfg_good.2.2.2.2 ▸ scfg_good.1

/-- **C02_stat_identity_any_comm.** Whatever bytes an incarnation shows as its command name (`x.comm` is
    unconstrained) and whatever its other fields, psutil's reader recovers from its stat line exactly the kernel's
    starttime and whether it is a zombie — the two things `_ident` and `is_running()` are made of. -/
theorem C02_stat_identity_any_comm (x : InstB) (hwf : x.aux.WF) :
    readStat scfg (statLine x) = .ok x.stamp x.zombie := readStat_statLine scfg_is_good x hwf

/-- (helper) the byte-level run from the initial state IS the run of its erasure on the kernel's own table, and the
    reached kernel holds kernel-formatted lines -/
theorem statB_run (b0 : Nat) (h : List FEvB) (hh : FHistOKB h) :
    (runFB scfg cfg statFault (FStB.init b0) h).toFSt = runF cfg statFault (FSt.init b0) (h.map FEvB.erase)
    ∧ (runFB scfg cfg statFault (FStB.init b0) h).sb.kern.WF :=
  runFB_toFSt scfg_is_good cfg statFault h (FStB.init b0) (initB_wf b0) hh.1

/-- **C02_stat_bytes_refine.** Every byte-level history — any comm at every spawn, lines rewritten while processes
    live, reads failing transiently — runs exactly as the history of Model/C02Fault.lean it stands for, and in the
    state it reaches every psutil call has the outcome and leaves the objects that call has on the kernel's own table. -/
theorem C02_stat_bytes_refine (b0 : Nat) (h : List FEvB) (hh : FHistOKB h) :
    (runFB scfg cfg statFault (FStB.init b0) h).toFSt = runF cfg statFault (FSt.init b0) (h.map FEvB.erase)
    ∧ ∀ call, ((runFB scfg cfg statFault (FStB.init b0) h).step scfg cfg statFault (.ev (.c call))).2
          = some (stepF cfg statFault (runF cfg statFault (FSt.init b0) (h.map FEvB.erase)).st
              (runF cfg statFault (FSt.init b0) (h.map FEvB.erase)).faulty call).2
        ∧ ((runFB scfg cfg statFault (FStB.init b0) h).step scfg cfg statFault (.ev (.c call))).1.toFSt
          = ((runF cfg statFault (FSt.init b0) (h.map FEvB.erase)).step cfg statFault (.ev (.c call))).1 := by
  obtain ⟨h1, h2⟩ := statB_run b0 h hh
  refine ⟨h1, fun call => ?_⟩
  obtain ⟨a, b, _⟩ := FStB.step_call_good scfg_is_good cfg statFault _ h2 call
  rw [h1] at a b
  exact ⟨a, b⟩

/-- **C02_eq_hash_any_stat_bytes** (`==` and `hash()` follow the process for ANY stat bytes).  After any byte-level
    history — every incarnation showing any command name, the holders of one PID showing the same name or names of
    the same shape, living processes renaming themselves between the construction of the two objects, reads failing —
    two objects are equal exactly when they have the same PID and were built for the same process start, and equal
    objects hash alike. -/
theorem C02_eq_hash_any_stat_bytes (b0 : Nat) (h : List FEvB) (hh : FHistOKB h) (i j : Nat) (a b : PObj)
    (ha : (runFB scfg cfg statFault (FStB.init b0) h).sb.ps.objs[i]? = some a)
    (hb : (runFB scfg cfg statFault (FStB.init b0) h).sb.ps.objs[j]? = some b) :
    ((runFB scfg cfg statFault (FStB.init b0) h).step scfg cfg statFault (.ev (.c (.eq i j)))).2
        = some (.ok (.bool (decide (SameIncarnation a b))))
    ∧ (SameIncarnation a b →
        ((runFB scfg cfg statFault (FStB.init b0) h).step scfg cfg statFault (.ev (.c (.hash i)))).2
        = ((runFB scfg cfg statFault (FStB.init b0) h).step scfg cfg statFault (.ev (.c (.hash j)))).2) := by
  obtain ⟨hrun, hcall⟩ := C02_stat_bytes_refine b0 h hh
  have ha' : (runF cfg statFault (FSt.init b0) (h.map FEvB.erase)).st.ps.objs[i]? = some a := by rw [← hrun]; exact ha
  have hb' : (runF cfg statFault (FSt.init b0) (h.map FEvB.erase)).st.ps.objs[j]? = some b := by rw [← hrun]; exact hb
  obtain ⟨h1, h2⟩ := C02_fault_eq_hash b0 (h.map FEvB.erase) hh.2 i j a b ha' hb'
  refine ⟨by rw [(hcall _).1, h1], fun hs => by rw [(hcall _).1, (hcall _).1, h2 hs]⟩

/-- **C02_isRunning_any_stat_bytes** (`is_running()` follows the process for ANY stat bytes — the clause seeded C02-6
    breaks).  After any byte-level history, for any object: `is_running()` is True while the object's own incarnation
    is in the kernel's table — however often that process has renamed itself or its counters have moved since the
    object was built —, False once it is not — whatever the new holder of the PID calls itself, the very same name
    included —, or, only while reads of the object's own PID fail, leaves with the OS error. -/
theorem C02_isRunning_any_stat_bytes (b0 : Nat) (h : List FEvB) (hh : FHistOKB h) (i : Nat) (o : PObj)
    (ho : (runFB scfg cfg statFault (FStB.init b0) h).sb.ps.objs[i]? = some o) :
    RightOrWithheldB (runFB scfg cfg statFault (FStB.init b0) h).faulty (runFB scfg cfg statFault (FStB.init b0) h).sb.kern o
      ((runFB scfg cfg statFault (FStB.init b0) h).step scfg cfg statFault (.ev (.c (.isRunning i)))).2 := by
  obtain ⟨hrun, hcall⟩ := C02_stat_bytes_refine b0 h hh
  have ho' : (runF cfg statFault (FSt.init b0) (h.map FEvB.erase)).st.ps.objs[i]? = some o := by rw [← hrun]; exact ho
  have hex := C02_fault_isRunning_exact b0 (h.map FEvB.erase) hh.2 i o ho'
  rw [(hcall _).1, hex, ← hrun]
  show RightOrWithheldB (runFB scfg cfg statFault (FStB.init b0) h).faulty _ o
    (some (if !flagged o && (runFB scfg cfg statFault (FStB.init b0) h).faulty.contains o.pid then OutF.osError
      else .ok (.bool (listedB (runFB scfg cfg statFault (FStB.init b0) h).sb.kern.forget o))))
  unfold RightOrWithheldB
  split
  · rename_i hc
    simp only [Bool.and_eq_true, List.contains_iff_mem] at hc
    exact Or.inr (Or.inr ⟨rfl, by simpa using hc.2⟩)
  · cases hl : listedB (runFB scfg cfg statFault (FStB.init b0) h).sb.kern.forget o
    · exact Or.inr (Or.inl ⟨fun hL => (by rw [← listedB_forget_iff, hl] at hL; cases hL), rfl⟩)
    · exact Or.inl ⟨(listedB_forget_iff _ o).1 hl, rfl⟩

/-- **C02_isRunning_iff_listed_any_stat_bytes.** With no read failing at the moment of the call the answer is given
    and exact: True iff the object's own incarnation is in the kernel's table. -/
theorem C02_isRunning_iff_listed_any_stat_bytes (b0 : Nat) (h : List FEvB) (hh : FHistOKB h) (i : Nat) (o : PObj)
    (ho : (runFB scfg cfg statFault (FStB.init b0) h).sb.ps.objs[i]? = some o)
    (hclear : (runFB scfg cfg statFault (FStB.init b0) h).faulty = []) :
    (ListedB (runFB scfg cfg statFault (FStB.init b0) h).sb.kern o
      ∧ ((runFB scfg cfg statFault (FStB.init b0) h).step scfg cfg statFault (.ev (.c (.isRunning i)))).2
          = some (.ok (.bool true)))
    ∨ (¬ ListedB (runFB scfg cfg statFault (FStB.init b0) h).sb.kern o
      ∧ ((runFB scfg cfg statFault (FStB.init b0) h).step scfg cfg statFault (.ev (.c (.isRunning i)))).2
          = some (.ok (.bool false))) := by
  rcases C02_isRunning_any_stat_bytes b0 h hh i o ho with h1 | h1 | ⟨_, hm⟩
  · exact Or.inl h1
  · exact Or.inr h1
  · rw [hclear] at hm; cases hm

/-- **C02_rename_changes_no_answer** (the second half of what seeded C02-6 breaks: a process RENAMING itself while
    an object exists).  In ANY state whose lines are kernel-formatted: when the line of a listed process changes in
    anything but pid, state and starttime — a new command name of any bytes, new counters — the kernel's own table is
    what it was (`forget`), and EVERY psutil call — `is_running()`, `==`, `hash()`, `Process(pid)`, `process_iter()`,
    signals … on any object — has exactly the outcome it had before the change. -/
theorem C02_rename_changes_no_answer (fs : FStB) (hk : fs.sb.kern.WF) (pid : Nat) (comm : Bytes) (aux : Aux)
    (haux : aux.WF) (call : Call) :
    (fs.step scfg cfg statFault (.ev (.k (.rewrite pid comm aux)))).1.sb.kern.forget = fs.sb.kern.forget
    ∧ ((fs.step scfg cfg statFault (.ev (.k (.rewrite pid comm aux)))).1.step scfg cfg statFault (.ev (.c call))).2
        = (fs.step scfg cfg statFault (.ev (.c call))).2 := by
  have hk' := FStB.step_wf scfg cfg statFault fs hk (.ev (.k (.rewrite pid comm aux))) haux
  have hf : (fs.step scfg cfg statFault (.ev (.k (.rewrite pid comm aux)))).1.sb.kern.forget = fs.sb.kern.forget := by
    rw [(FStB.step_kernel_event scfg cfg statFault fs _).2]; exact forget_rewrite _ _ _ _
  refine ⟨hf, ?_⟩
  rw [(FStB.step_call_good scfg_is_good cfg statFault _ hk' call).1, (FStB.step_call_good scfg_is_good cfg statFault fs hk call).1]
  simp only [FStB.toFSt, StB.toSt, hf]
  rfl

/-- **C02_never_true_after_gone_any_stat_bytes** ("False ever after", over the byte dimension).  Once the object's
    own incarnation has left the kernel's table, `is_running()` is never True again after any continuation — the PID
    taken by a process with the same command name and the same other fields, lines rewritten, reads failing. -/
theorem C02_never_true_after_gone_any_stat_bytes (b0 : Nat) (h : List FEvB) (hh : FHistOKB h) (i : Nat) (o : PObj)
    (ho : (runFB scfg cfg statFault (FStB.init b0) h).sb.ps.objs[i]? = some o)
    (hgone : ¬ ListedB (runFB scfg cfg statFault (FStB.init b0) h).sb.kern o) (h2 : List FEvB) (hh2 : FHistOKB h2) :
    ((runFB scfg cfg statFault (runFB scfg cfg statFault (FStB.init b0) h) h2).step scfg cfg statFault
        (.ev (.c (.isRunning i)))).2 ≠ some (.ok (.bool true)) := by
  obtain ⟨hrun, _⟩ := statB_run b0 h hh
  obtain ⟨hrun2, hcall2⟩ := C02_stat_bytes_refine b0 (h ++ h2) (hh.append hh2)
  rw [runFB_append] at hrun2 hcall2
  rw [List.map_append, runF_append] at hrun2 hcall2
  have ho' : (runF cfg statFault (FSt.init b0) (h.map FEvB.erase)).st.ps.objs[i]? = some o := by rw [← hrun]; exact ho
  have hgone' : ¬ Listed (runF cfg statFault (FSt.init b0) (h.map FEvB.erase)).st.kern o := by
    rw [← hrun]; exact fun hl => hgone ((listedB_forget _ o).2 hl)
  have := C02_fault_never_true_after_gone b0 (h.map FEvB.erase) hh.2 i o ho' hgone' (h2.map FEvB.erase) hh2.2
  rw [(hcall2 _).1]
  intro hc
  exact this (Option.some.inj hc)

/-- **C02_answers_stable_any_stat_bytes.** `==` and `hash()` of existing objects are not affected by anything that
    happens later — in particular not by the processes renaming themselves, nor by a PID passing to a process with
    the same name: the identity an object was given at construction is never re-read from the stat file. -/
theorem C02_answers_stable_any_stat_bytes (b0 : Nat) (h : List FEvB) (hh : FHistOKB h) (i j : Nat) (a b : PObj)
    (ha : (runFB scfg cfg statFault (FStB.init b0) h).sb.ps.objs[i]? = some a)
    (hb : (runFB scfg cfg statFault (FStB.init b0) h).sb.ps.objs[j]? = some b)
    (h2 : List FEvB) (hh2 : FHistOKB h2) :
    ((runFB scfg cfg statFault (runFB scfg cfg statFault (FStB.init b0) h) h2).step scfg cfg statFault (.ev (.c (.eq i j)))).2
        = ((runFB scfg cfg statFault (FStB.init b0) h).step scfg cfg statFault (.ev (.c (.eq i j)))).2
    ∧ ((runFB scfg cfg statFault (runFB scfg cfg statFault (FStB.init b0) h) h2).step scfg cfg statFault (.ev (.c (.hash i)))).2
        = ((runFB scfg cfg statFault (FStB.init b0) h).step scfg cfg statFault (.ev (.c (.hash i)))).2 := by
  obtain ⟨hrun, hcall⟩ := C02_stat_bytes_refine b0 h hh
  obtain ⟨hrun2, hcall2⟩ := C02_stat_bytes_refine b0 (h ++ h2) (hh.append hh2)
  rw [runFB_append] at hrun2 hcall2
  rw [List.map_append, runF_append] at hrun2 hcall2
  have ha' : (runF cfg statFault (FSt.init b0) (h.map FEvB.erase)).st.ps.objs[i]? = some a := by rw [← hrun]; exact ha
  have hb' : (runF cfg statFault (FSt.init b0) (h.map FEvB.erase)).st.ps.objs[j]? = some b := by rw [← hrun]; exact hb
  obtain ⟨a', ha2, ea⟩ := C02_fault_object_constant b0 (h.map FEvB.erase) hh.2 i a ha' (h2.map FEvB.erase) hh2.2
  obtain ⟨b', hb2, eb⟩ := C02_fault_object_constant b0 (h.map FEvB.erase) hh.2 j b hb' (h2.map FEvB.erase) hh2.2
  refine ⟨?_, ?_⟩
  · rw [(hcall2 _).1, (hcall _).1, stepF_eq_out, stepF_eq_out, step_eq_out cfg _ ha2 hb2, step_eq_out cfg _ ha' hb',
      ea.pid, eb.pid, ea.ident, eb.ident]
  · rw [(hcall2 _).1, (hcall _).1, stepF_hash_out, stepF_hash_out, step_hash_out cfg _ ha2, step_hash_out cfg _ ha',
      ea.pid, ea.ident]

/-- **C02_iter_handles_any_stat_bytes** (`process_iter()` handles follow the process for ANY stat bytes).  After any
    byte-level history, every handle `(pid, i)` a sweep yields names an object of the resulting state whose PID is
    `pid` — a cache entry as it was, or a fresh object whose `ghost` is the holder of `pid` in the kernel's OWN table
    at that instant, with no sticky flag — so every theorem of this section applies to it under index `i`; and the
    sweep alters no existing object. -/
theorem C02_iter_handles_any_stat_bytes (b0 : Nat) (h : List FEvB) (hh : FHistOKB h) (l : List (Nat × Nat))
    (hl : ((runFB scfg cfg statFault (FStB.init b0) h).step scfg cfg statFault (.ev (.c .processIter))).2
            = some (.ok (.procs l))) :
    (∀ e ∈ l, ∃ o, ((runFB scfg cfg statFault (FStB.init b0) h).step scfg cfg statFault (.ev (.c .processIter))).1.sb.ps.objs[e.2]?
          = some o ∧ o.pid = e.1
        ∧ (e ∈ (runFB scfg cfg statFault (FStB.init b0) h).sb.ps.pmap
            ∨ ((runFB scfg cfg statFault (FStB.init b0) h).sb.ps.objs.length ≤ e.2
                ∧ (runFB scfg cfg statFault (FStB.init b0) h).sb.kern.forget.owner e.1 = some o.ghost
                ∧ o.gone = false ∧ o.reused = false)))
    ∧ ∀ (j : Nat) (o : PObj), (runFB scfg cfg statFault (FStB.init b0) h).sb.ps.objs[j]? = some o →
        ((runFB scfg cfg statFault (FStB.init b0) h).step scfg cfg statFault (.ev (.c .processIter))).1.sb.ps.objs[j]? = some o := by
  obtain ⟨hrun, hcall⟩ := C02_stat_bytes_refine b0 h hh
  obtain ⟨hout, hst⟩ := hcall .processIter
  rw [hout] at hl
  have hl' := Option.some.inj hl
  have hobjs : ((runFB scfg cfg statFault (FStB.init b0) h).step scfg cfg statFault (.ev (.c .processIter))).1.sb.ps
      = (stepF cfg statFault (runF cfg statFault (FSt.init b0) (h.map FEvB.erase)).st
          (runF cfg statFault (FSt.init b0) (h.map FEvB.erase)).faulty .processIter).1.ps := by
    have := congrArg (fun x => x.st.ps) hst
    exact this
  have hps : (runFB scfg cfg statFault (FStB.init b0) h).sb.ps = (runF cfg statFault (FSt.init b0) (h.map FEvB.erase)).st.ps := by
    rw [← hrun]; rfl
  have hkern : (runFB scfg cfg statFault (FStB.init b0) h).sb.kern.forget = (runF cfg statFault (FSt.init b0) (h.map FEvB.erase)).st.kern := by
    rw [← hrun]; rfl
  rw [hobjs, hps, hkern]
  have hinv := frun_inv b0 (h.map FEvB.erase) hh.2
  rw [cfg_stat_fault_propagates.2.2.2.2.2] at hl' ⊢
  generalize (runF cfg .propagates (FSt.init b0) (h.map FEvB.erase)).st = s at *
  generalize (runF cfg .propagates (FSt.init b0) (h.map FEvB.erase)).faulty = F at *
  have hinv' := stepF_inv cfg_good s F .processIter hinv
  have hpm := stepF_sweep_pmap cfg s F l hl'
  obtain ⟨hk, hkeep, hfresh⟩ := (cfg_stat_fault_propagates.2.2.2.2.2 ▸ C02_fault_sweep_keeps_objects s F :
    (stepF cfg .propagates s F .processIter).1.kern = s.kern
    ∧ (∀ (j : Nat) (o : PObj), s.ps.objs[j]? = some o → (stepF cfg .propagates s F .processIter).1.ps.objs[j]? = some o)
    ∧ (∀ e ∈ (stepF cfg .propagates s F .processIter).1.ps.pmap,
        e ∈ s.ps.pmap ∨ FreshHandle s.kern s.ps.objs.length (stepF cfg .propagates s F .processIter).1.ps.objs e))
  refine ⟨fun e he => ?_, hkeep⟩
  have he' : e ∈ (stepF cfg .propagates s F .processIter).1.ps.pmap := hpm ▸ he
  obtain ⟨o, ho, hp⟩ := hinv'.ps.pmap e he'
  refine ⟨o, ho, hp, ?_⟩
  rcases hfresh e he' with hc | ⟨hlen, o2, ho2, _, hown, hg, hr⟩
  · exact Or.inl hc
  · rw [ho] at ho2; cases ho2
    exact Or.inr ⟨hlen, hown, hg, hr⟩

/-! ### the full statements over the byte dimension, for an arbitrary reader; WHAT-IF: the name ends at the first `) ` -/

/-- `C02_isRunning_any_stat_bytes` for an arbitrary reader / configuration / fault path -/
def IsRunningRightOrWithheld_AnyStatBytes_Full (sc : StatCfg) (c : Cfg) (sf : StatFault) : Prop :=
  ∀ (b0 : Nat) (h : List FEvB), FHistOKB h → ∀ (i : Nat) (o : PObj),
    (runFB sc c sf (FStB.init b0) h).sb.ps.objs[i]? = some o →
    RightOrWithheldB (runFB sc c sf (FStB.init b0) h).faulty (runFB sc c sf (FStB.init b0) h).sb.kern o
      ((runFB sc c sf (FStB.init b0) h).step sc c sf (.ev (.c (.isRunning i)))).2

/-- the `==` half of `C02_eq_hash_any_stat_bytes` for an arbitrary reader / configuration / fault path -/
def EqIffSame_AnyStatBytes_Full (sc : StatCfg) (c : Cfg) (sf : StatFault) : Prop :=
  ∀ (b0 : Nat) (h : List FEvB), FHistOKB h → ∀ (i j : Nat) (a b : PObj),
    (runFB sc c sf (FStB.init b0) h).sb.ps.objs[i]? = some a → (runFB sc c sf (FStB.init b0) h).sb.ps.objs[j]? = some b →
    ((runFB sc c sf (FStB.init b0) h).step sc c sf (.ev (.c (.eq i j)))).2 = some (.ok (.bool (decide (SameIncarnation a b))))

/-- both hold for the source as extracted -/
theorem C02_stat_full_statements :
    IsRunningRightOrWithheld_AnyStatBytes_Full scfg cfg statFault ∧ EqIffSame_AnyStatBytes_Full scfg cfg statFault :=
  ⟨fun b0 h hh i o ho => C02_isRunning_any_stat_bytes b0 h hh i o ho,
   fun b0 h hh i j a b ha hb => (C02_eq_hash_any_stat_bytes b0 h hh i j a b ha hb).1⟩

/-- WHAT-IF reader `head, _, tail = data.partition(b') ')` / `rpar = data.find(b') ')`: the name ends at the FIRST closing
    parenthesis that is followed by a space (the shape of seeded change C02-6; not the checked source) -/
def scfgFirstRparSp : StatCfg := ⟨.find, [41, 32], 2, 19, 0⟩
/-- a line with zeros in every other field -/
def auxZero : Aux := ⟨83, 1, List.replicate 17 0, List.replicate 30 0⟩
/-- PID 7, started at tick 5, called `ab` … -/
def procAB : InstB := ⟨7, 5, false, 5, [97, 98], auxZero⟩
/-- … the very same process after it renamed itself to `a) b` (`execve("./a) b")`, `prctl(PR_SET_NAME)`) -/
def procRen : InstB := ⟨7, 5, false, 5, [97, 41, 32, 98], auxZero⟩
/-- a live process, an object built for it, then the process renames itself -/
def witnessRename : List FEvB :=
  [.ev (.k (.tick 5)), .ev (.k (.spawn 7 [97, 98] auxZero)), .ev (.c (.newObj 7)), .ev (.k (.rewrite 7 [97, 41, 32, 98] auxZero))]

example : FHistOKB witnessRename := by decide

/-- (helper) what the what-if reader makes of the four lines: the ordinary name is read correctly, a name containing `) `
    shifts every field and starttime is read from itrealvalue (always 0) -/
theorem read_procAB : readStat scfgFirstRparSp (statLine procAB) = .ok 5 false := by
  have : statLine procAB = [55, 32, 40, 97, 98, 41, 32, 83, 32, 49] ++ (List.replicate 17 [32, 48]).flatten
      ++ [32, 53] ++ (List.replicate 30 [32, 48]).flatten ++ [10] := by
    simp [statLine, statTail, procAB, auxZero, stateTok, renderDec_small, renderInt, joinWith]
  rw [this]; decide

theorem read_procRen : readStat scfgFirstRparSp (statLine procRen) = .ok 0 false := by
  have : statLine procRen = [55, 32, 40, 97, 41, 32, 98, 41, 32, 83, 32, 49] ++ (List.replicate 17 [32, 48]).flatten
      ++ [32, 53] ++ (List.replicate 30 [32, 48]).flatten ++ [10] := by
    simp [statLine, statTail, procRen, auxZero, stateTok, renderDec_small, renderInt, joinWith]
  rw [this]; decide

theorem view_procAB : view scfgFirstRparSp ⟨[procAB], 6, 1000, [], []⟩ = some ⟨[⟨7, 5, false, 5⟩], 6, 1000, [], []⟩ := by
  simp [view, viewProcs, viewInst, read_procAB]; exact ⟨rfl, rfl⟩
theorem view_procRen : view scfgFirstRparSp ⟨[procRen], 6, 1000, [], []⟩ = some ⟨[⟨7, 5, false, 0⟩], 6, 1000, [], []⟩ := by
  simp [view, viewProcs, viewInst, read_procRen]; exact ⟨rfl, rfl⟩


/-- psutil's state after `Process(7)` under the what-if reader (the line `7 (ab) …` parses correctly) -/
def psAfterNew : Ps × List Eff :=
  let r := stepF cfg .propagates ⟨⟨[⟨7, 5, false, 5⟩], 6, 1000, [], []⟩, ⟨none, [], [], []⟩, []⟩ [] (.newObj 7)
  (r.1.ps, r.1.log)

/-- (helper) the state `witnessRename` reaches under the what-if reader -/
theorem run_witnessRename : runFB scfgFirstRparSp cfg .propagates (FStB.init 1000) witnessRename
    = ⟨⟨⟨[procRen], 6, 1000, [], []⟩, psAfterNew.1, psAfterNew.2⟩, []⟩ := by
  have h2 : runFB scfgFirstRparSp cfg .propagates (FStB.init 1000) (witnessRename.take 2)
      = ⟨⟨⟨[procAB], 6, 1000, [], []⟩, ⟨none, [], [], []⟩, []⟩, []⟩ := rfl
  have h3 : runFB scfgFirstRparSp cfg .propagates (FStB.init 1000) (witnessRename.take 3)
      = ⟨⟨⟨[procAB], 6, 1000, [], []⟩, psAfterNew.1, psAfterNew.2⟩, []⟩ := by
    have : witnessRename.take 3 = witnessRename.take 2 ++ [.ev (.c (.newObj 7))] := rfl
    rw [this, runFB_append, h2]
    simp only [runFB, FStB.step, view_procAB]
    rfl
  have : witnessRename = witnessRename.take 3 ++ [.ev (.k (.rewrite 7 [97, 41, 32, 98] auxZero))] := rfl
  rw [this, runFB_append, h3]
  rfl

/-- first holder of PID 7 (start 0), called `a) b` -/
def procA : InstB := ⟨7, 0, false, 0, [97, 41, 32, 98], auxZero⟩
/-- second holder of PID 7 (start 1), called `c) d` -/
def procC : InstB := ⟨7, 1, false, 1, [99, 41, 32, 100], auxZero⟩
/-- PID 7 passes from a process called `a) b` to a process called `c) d`; one object built for each -/
def witnessRecycle : List FEvB :=
  [.ev (.k (.spawn 7 [97, 41, 32, 98] auxZero)), .ev (.c (.newObj 7)), .ev (.k (.reap 7)),
   .ev (.k (.spawn 7 [99, 41, 32, 100] auxZero)), .ev (.c (.newObj 7))]

example : FHistOKB witnessRecycle := by decide

theorem read_procA : readStat scfgFirstRparSp (statLine procA) = .ok 0 false := by
  have : statLine procA = [55, 32, 40, 97, 41, 32, 98, 41, 32, 83, 32, 49] ++ (List.replicate 17 [32, 48]).flatten
      ++ [32, 48] ++ (List.replicate 30 [32, 48]).flatten ++ [10] := by
    simp [statLine, statTail, procA, auxZero, stateTok, renderDec_small, renderInt, joinWith]
  rw [this]; decide

theorem read_procC : readStat scfgFirstRparSp (statLine procC) = .ok 0 false := by
  have : statLine procC = [55, 32, 40, 99, 41, 32, 100, 41, 32, 83, 32, 49] ++ (List.replicate 17 [32, 48]).flatten
      ++ [32, 49] ++ (List.replicate 30 [32, 48]).flatten ++ [10] := by
    simp [statLine, statTail, procC, auxZero, stateTok, renderDec_small, renderInt, joinWith]
  rw [this]; decide

theorem view_procA : view scfgFirstRparSp ⟨[procA], 1, 1000, [], []⟩ = some ⟨[⟨7, 0, false, 0⟩], 1, 1000, [], []⟩ := by
  simp [view, viewProcs, viewInst, read_procA]; exact ⟨rfl, rfl⟩
theorem view_procC : view scfgFirstRparSp ⟨[procC], 2, 1000, [], []⟩ = some ⟨[⟨7, 1, false, 0⟩], 2, 1000, [], []⟩ := by
  simp [view, viewProcs, viewInst, read_procC]; exact ⟨rfl, rfl⟩

def psOld : Ps × List Eff :=
  let r := stepF cfg .propagates ⟨⟨[⟨7, 0, false, 0⟩], 1, 1000, [], []⟩, ⟨none, [], [], []⟩, []⟩ [] (.newObj 7)
  (r.1.ps, r.1.log)
def psBoth : Ps × List Eff :=
  let r := stepF cfg .propagates ⟨⟨[⟨7, 1, false, 0⟩], 2, 1000, [], []⟩, psOld.1, psOld.2⟩ [] (.newObj 7)
  (r.1.ps, r.1.log)

/-- (helper) the state `witnessRecycle` reaches under the what-if reader -/
theorem run_witnessRecycle : runFB scfgFirstRparSp cfg .propagates (FStB.init 1000) witnessRecycle
    = ⟨⟨⟨[procC], 2, 1000, [], []⟩, psBoth.1, psBoth.2⟩, []⟩ := by
  have h1 : runFB scfgFirstRparSp cfg .propagates (FStB.init 1000) (witnessRecycle.take 1)
      = ⟨⟨⟨[procA], 1, 1000, [], []⟩, ⟨none, [], [], []⟩, []⟩, []⟩ := rfl
  have h2 : runFB scfgFirstRparSp cfg .propagates (FStB.init 1000) (witnessRecycle.take 2)
      = ⟨⟨⟨[procA], 1, 1000, [], []⟩, psOld.1, psOld.2⟩, []⟩ := by
    have : witnessRecycle.take 2 = witnessRecycle.take 1 ++ [.ev (.c (.newObj 7))] := rfl
    rw [this, runFB_append, h1]
    simp only [runFB, FStB.step, view_procA]
    rfl
  have h4 : runFB scfgFirstRparSp cfg .propagates (FStB.init 1000) (witnessRecycle.take 4)
      = ⟨⟨⟨[procC], 2, 1000, [], []⟩, psOld.1, psOld.2⟩, []⟩ := by
    have : witnessRecycle.take 4 = witnessRecycle.take 2
        ++ [.ev (.k (.reap 7)), .ev (.k (.spawn 7 [99, 41, 32, 100] auxZero))] := rfl
    rw [this, runFB_append, h2]
    rfl
  have : witnessRecycle = witnessRecycle.take 4 ++ [.ev (.c (.newObj 7))] := rfl
  rw [this, runFB_append, h4]
  simp only [runFB, FStB.step, view_procC]
  rfl

/-- **C02_first_rpar_space_counterexample** (WHAT-IF, the shape of seeded change C02-6; not the checked source).  With a
    reader that ends the name at the first `) `, both full statements over the byte dimension are FALSE:
    * `witnessRename` — a live process called `ab`, an object built for it, the process renames itself to `a) b`:
      `is_running()` answers False although the object's own incarnation is in the kernel's table (the fresh
      `Process(pid)` reads starttime from itrealvalue = 0 instead of 5, so `self != Process(self.pid)`);
    * `witnessRecycle` — PID 7 passes from a process called `a) b` to one called `c) d`, one object each: the two
      objects compare EQUAL although they were built for different process starts (both starttimes read as 0).
    The extracted reader answers True / False on the same histories (`example` below); both histories are replayed on
    the real code by the check (corpus of family `x:stat`). -/
theorem C02_first_rpar_space_counterexample :
    ¬ IsRunningRightOrWithheld_AnyStatBytes_Full scfgFirstRparSp cfg .propagates
    ∧ ¬ EqIffSame_AnyStatBytes_Full scfgFirstRparSp cfg .propagates := by
  constructor
  · intro H
    have hobj : psAfterNew.1.objs[0]? = some ⟨7, some (5 + cfg.clk * 1000), some (5 + cfg.clk * 1000), false, false, 5⟩ := by decide
    have := H 1000 witnessRename (by decide) 0 _ (by rw [run_witnessRename]; exact hobj)
    rw [run_witnessRename] at this
    simp only [FStB.step, view_procRen] at this
    have hout : (stepF cfg .propagates ⟨⟨[⟨7, 5, false, 0⟩], 6, 1000, [], []⟩, psAfterNew.1, psAfterNew.2⟩ [] (.isRunning 0)).2
        = .ok (.bool false) := by decide
    rw [hout] at this
    rcases this with ⟨_, h⟩ | ⟨hn, _⟩ | ⟨h, _⟩
    · cases h
    · exact hn ⟨procRen, by simp, rfl, rfl⟩
    · cases h
  · intro H
    have h0 : psBoth.1.objs[0]? = some ⟨7, some (0 + cfg.clk * 1000), some (0 + cfg.clk * 1000), false, false, 0⟩ := by decide
    have h1 : psBoth.1.objs[1]? = some ⟨7, some (0 + cfg.clk * 1000), some (0 + cfg.clk * 1000), false, false, 1⟩ := by decide
    have := H 1000 witnessRecycle (by decide) 0 1 _ _ (by rw [run_witnessRecycle]; exact h0) (by rw [run_witnessRecycle]; exact h1)
    rw [run_witnessRecycle] at this
    simp only [FStB.step, view_procC] at this
    revert this
    decide

/-- non-vacuity, the extracted configuration on the same two histories: after the rename `is_running()` is True, and
    the objects of the two holders of PID 7 are unequal -/
example :
    ((runFB scfg cfg statFault (FStB.init 1000) witnessRename).step scfg cfg statFault (.ev (.c (.isRunning 0)))).2
      = some (.ok (.bool true))
    ∧ ((runFB scfg cfg statFault (FStB.init 1000) witnessRecycle).step scfg cfg statFault (.ev (.c (.eq 0 1)))).2
      = some (.ok (.bool false)) := by
  rw [((C02_stat_bytes_refine 1000 witnessRename (by decide)).2 _).1,
    ((C02_stat_bytes_refine 1000 witnessRecycle (by decide)).2 _).1]
  decide

end Psutil.C02
