/-
  Props/C05.lean — property theorems for C05: `children()`, `parent()` and `parents()` describe
  the real process tree. Only statements the property makes; helper lemmas live in
  Proofs/C05*.lean.

  `cfg`/`scfg` are built from Generated/C05.lean, which the translator rewrites from /repo's
  source on every run. `cfg_good`/`scfg_good` are the proof obligations that break when one of
  the three create-time tests stops being `<=`, the `seen` guard of the recursive walk goes
  away, `children()` hands out the caller itself again, `parents()` loses its cycle stop, an
  identity pre-check or the lowest-PID stop is dropped, or a stat reader uses `find`/another
  index.

  Conventions: `pm` is what `ppid_map()` returned (ANY list of pairs — forests, self-loops,
  cycles, unlisted parents), `look0` the world when the caller's identity is checked, `look`
  the world in which each child PID is examined afterwards (`look ≠ look0` = processes
  vanishing or PIDs being recycled while the tree is walked); start times are arbitrary
  naturals (every ordering, ties included).
-/
import PsutilModel.Proofs.C05
import PsutilModel.Model.C05Gen
namespace Psutil.C05
open Spec

theorem cfg_good : cfg.Good := by
  constructor <;> decide

/-! ## children() -/

/-- **C05_terminates.** On ANY ppid map — cyclic, self-looping, with duplicate keys — and any
    world, `children()` finishes: the walk never runs out of the fuel `walkFuel pm`
    (≤ (n+1)² + 2 iterations for n listed PIDs). -/
theorem C05_terminates (me : Caller) (recursive : Bool) (look0 : Look) (pm : PpidMap) (look : Look) :
    (children cfg me recursive look0 pm look).2 ≠ .diverged := by
  cases hraise : (raiseIfPidReused look0 me).2 with
  | true =>
    simp [children, cfg_good.childrenGuarded, hraise]
  | false =>
    cases recursive with
    | false => rw [children_flat_good cfg cfg_good me look0 pm look hraise]; simp
    | true =>
      obtain ⟨s, hs, _⟩ := children_rec_good cfg cfg_good me look0 pm look hraise
      rw [hs]; simp

/-- **C05_children_exact.** `children()` returns exactly the listed processes whose parent link
    is the caller, that still exist and did not start before it — each once, never the caller. -/
theorem C05_children_exact (me : Caller) (look0 : Look) (pm : PpidMap) (look : Look)
    (hu : UniquePids pm) (hr : me.reused = false) (hn : ¬ Recycled look0 me) :
    ∃ l, (children cfg me false look0 pm look).2 = .ok l
      ∧ IsSetOf l (fun c => Child pm look me.ctime me.pid c ∧ c ≠ me.pid) := by
  refine ⟨_, children_flat_good cfg cfg_good me look0 pm look (raise_false hr hn), ?_, ?_⟩
  · exact kids_nodup (uniquePids_filter hu _) _ _
  · intro c
    rw [mem_kids_iff, child_goodMap_iff]

/-- **C05_children_rec_exact.** `children(recursive=True)` returns exactly the descendants of the
    caller — the inductive closure `Desc` of the child relation — each once, minus the caller. -/
theorem C05_children_rec_exact (me : Caller) (look0 : Look) (pm : PpidMap) (look : Look)
    (hu : UniquePids pm) (hr : me.reused = false) (hn : ¬ Recycled look0 me) :
    ∃ l, (children cfg me true look0 pm look).2 = .ok l
      ∧ IsSetOf l (fun c => Desc pm look me.ctime me.pid c ∧ c ≠ me.pid) := by
  obtain ⟨s, hs, hnd, hmem⟩ := children_rec_good cfg cfg_good me look0 pm look (raise_false hr hn)
  exact ⟨_, hs, flatMap_kids_isSetOf hu hnd hmem⟩

/-- **C05_nodup.** No PID is returned twice, in either mode. -/
theorem C05_nodup (me : Caller) (recursive : Bool) (look0 : Look) (pm : PpidMap) (look : Look)
    (hu : UniquePids pm) (l : List Nat) (h : (children cfg me recursive look0 pm look).2 = .ok l) :
    l.Nodup := by
  cases hraise : (raiseIfPidReused look0 me).2 with
  | true => simp [children, cfg_good.childrenGuarded, hraise] at h
  | false =>
    cases recursive with
    | false =>
      rw [children_flat_good cfg cfg_good me look0 pm look hraise] at h
      cases h
      exact kids_nodup (uniquePids_filter hu _) _ _
    | true =>
      obtain ⟨s, hs, hnd, hmem⟩ := children_rec_good cfg cfg_good me look0 pm look hraise
      rw [hs] at h
      cases h
      exact (flatMap_kids_isSetOf hu hnd hmem).1

/-- every returned PID was accepted as a child of somebody in the map without the caller's entry -/
theorem children_mem (me : Caller) (recursive : Bool) (look0 : Look) (pm : PpidMap) (look : Look)
    (l : List Nat) (h : (children cfg me recursive look0 pm look).2 = .ok l) :
    ∀ c ∈ l, ∃ p, Child pm look me.ctime p c ∧ c ≠ me.pid := by
  intro c hc
  cases hraise : (raiseIfPidReused look0 me).2 with
  | true => simp [children, cfg_good.childrenGuarded, hraise] at h
  | false =>
    cases recursive with
    | false =>
      rw [children_flat_good cfg cfg_good me look0 pm look hraise] at h
      cases h
      exact ⟨me.pid, child_goodMap_iff.1 (mem_kids_iff.1 hc)⟩
    | true =>
      obtain ⟨s, hs, _, _⟩ := children_rec_good cfg cfg_good me look0 pm look hraise
      rw [hs] at h
      cases h
      obtain ⟨p, _, hk⟩ := List.mem_flatMap.1 hc
      exact ⟨p, child_goodMap_iff.1 (mem_kids_iff.1 hk)⟩

/-- **C05_not_self.** The caller is never among its own children or descendants — for ANY map
    (self-loops, cycles through the caller, even duplicate entries). -/
theorem C05_not_self (me : Caller) (recursive : Bool) (look0 : Look) (pm : PpidMap) (look : Look)
    (l : List Nat) (h : (children cfg me recursive look0 pm look).2 = .ok l) : me.pid ∉ l := by
  intro hm
  obtain ⟨_, _, hne⟩ := children_mem me recursive look0 pm look l h _ hm
  exact hne rfl

/-- **C05_no_older.** Every returned process exists when examined and did not start before the
    caller (a recycled PID is never handed out) — for ANY map and world. -/
theorem C05_no_older (me : Caller) (recursive : Bool) (look0 : Look) (pm : PpidMap) (look : Look)
    (l : List Nat) (h : (children cfg me recursive look0 pm look).2 = .ok l) :
    ∀ c ∈ l, ∃ s, look c = some s ∧ me.ctime ≤ s := by
  intro c hc
  obtain ⟨_, hch, _⟩ := children_mem me recursive look0 pm look l h c hc
  exact hch.2

end Psutil.C05
