/-
  Props/C05.lean — property theorems for C05 (children / parent / parents).
-/
import PsutilModel.Proofs.C05
import PsutilModel.Model.C05Gen
namespace Psutil.C05
open Spec

theorem cfg_good : cfg.Good := by
  constructor <;> decide

end Psutil.C05
