/-
  Props/C05.lean — property theorems for C05: `children()`, `parent()` and `parents()` describe
  the real process tree. Only statements the property makes; helper lemmas live in
  Proofs/C05*.lean.

  `cfg`/`scfg`/`xcfg`/`ocfg`/`rcfg` are built from Generated/C05.lean (25 facts), which the translator rewrites
  from /repo's source on every run. `cfg_good`/`scfg_good`/`xcfg_good`/`ocfg_good`/`rcfg_good` (the last one: the range
  gate of `Process(pid)` refuses no PID below PID_MAX_LIMIT, last section of this file) are the proof
  obligations that break when one of the three create-time tests stops being `<=` (or compares other
  operands), the `seen` guard of the recursive walk goes away, `children()` hands out the caller itself
  again, `parents()` loses its PID-keyed cycle stop, an identity pre-check, the `_gone` test or the
  lowest-PID stop is dropped, `ppid_map()` stops skipping unreadable/vanished stat files, POSIX `ppid()`
  grows a per-object cache, `create_time()` loses its cache, or a stat reader uses `find`/another index.
  The fact `rootGuarded` (identity check before the lowest-PID stop of `parent()`) is pinned by the obligation
  `cfg_root_guarded` since /repo d7107b4 (fixes/C05-parent-root-recycled.diff, former finding
  C05-recycled-lowest-pid): `C05_recycled_caller_NSP_parent_full` / `C05_dead_caller_NSP_X_parent_full` are the
  last clause of the statement at full strength for the code as it is; what the unguarded stop did is kept as a
  what-if (`C05_recycled_lowest_pid_counterexample`, `C05_recycled_lowest_pid_unguarded`: configuration `asFoundCfg`).

  Conventions: `pm` is what `ppid_map()` returned (ANY list of pairs — forests, self-loops,
  cycles, unlisted parents), `look0` the world when the caller's identity is checked, `look`
  the world in which each child PID is examined afterwards (`look ≠ look0` = processes
  vanishing or PIDs being recycled while the tree is walked); start times are arbitrary
  naturals (every ordering, ties included).
-/
import PsutilModel.Proofs.C05
import PsutilModel.Proofs.C05Parent
import PsutilModel.Proofs.C05Table
import PsutilModel.Proofs.C05Spec
import PsutilModel.Proofs.C05Stat
import PsutilModel.Proofs.C05Dyn
import PsutilModel.Proofs.C05Static
import PsutilModel.Proofs.C05Soft
import PsutilModel.Proofs.C05Lit
import PsutilModel.Proofs.C05Seq
import PsutilModel.Proofs.C05Range
import PsutilModel.Model.C05Gen
namespace Psutil.C05
open Spec

theorem cfg_good : cfg.Good := by
  constructor <;> decide

/-! ## children() -/

/-- **C05_terminates.** On ANY ppid map — cyclic, self-looping, with duplicate keys — and any
    world, `children()` finishes: the walk never runs out of the fuel `walkFuel pm`
    (≤ (n+1)² + 2 iterations for n listed PIDs). -/
theorem C05_terminates (me : Caller) (recursive : Bool) (look0 : Look) (pm : PpidMap) (look : Look) :
    (children cfg me recursive look0 pm look).2 ≠ .diverged := by
  cases hraise : (raiseIfPidReused true look0 me).2 with
  | true =>
    simp [children, cfg_good.childrenGuarded, cfg_good.goneRaises, hraise]
  | false =>
    cases recursive with
    | false => rw [children_flat_good cfg cfg_good me look0 pm look hraise]; simp
    | true =>
      obtain ⟨s, hs, _⟩ := children_rec_good cfg cfg_good me look0 pm look hraise
      rw [hs]; simp

/-- **C05_children_exact.** `children()` returns exactly the listed processes whose parent link
    is the caller, that still exist and did not start before it — each once, never the caller. -/
theorem C05_children_exact (me : Caller) (look0 : Look) (pm : PpidMap) (look : Look)
    (hu : UniquePids pm) (hr : me.reused = false) (hgone : me.gone = false) (ha : Alive look0 me) :
    ∃ l, (children cfg me false look0 pm look).2 = .ok l
      ∧ IsSetOf l (fun c => Child pm look me.ctime me.pid c ∧ c ≠ me.pid) := by
  refine ⟨_, children_flat_good cfg cfg_good me look0 pm look (raise_false true hr hgone ha), ?_, ?_⟩
  · exact kids_nodup (uniquePids_filter hu _) _ _
  · intro c
    rw [mem_kids_iff, child_goodMap_iff]

/-- **C05_children_rec_exact.** `children(recursive=True)` returns exactly the descendants of the
    caller — the inductive closure `Desc` of the child relation — each once, minus the caller. -/
theorem C05_children_rec_exact (me : Caller) (look0 : Look) (pm : PpidMap) (look : Look)
    (hu : UniquePids pm) (hr : me.reused = false) (hgone : me.gone = false) (ha : Alive look0 me) :
    ∃ l, (children cfg me true look0 pm look).2 = .ok l
      ∧ IsSetOf l (fun c => Desc pm look me.ctime me.pid c ∧ c ≠ me.pid) := by
  obtain ⟨s, hs, hnd, hmem⟩ := children_rec_good cfg cfg_good me look0 pm look (raise_false true hr hgone ha)
  exact ⟨_, hs, flatMap_kids_isSetOf hu hnd hmem⟩

/-- **C05_nodup.** No PID is returned twice, in either mode. -/
theorem C05_nodup (me : Caller) (recursive : Bool) (look0 : Look) (pm : PpidMap) (look : Look)
    (hu : UniquePids pm) (l : List Nat) (h : (children cfg me recursive look0 pm look).2 = .ok l) :
    l.Nodup := by
  cases hraise : (raiseIfPidReused true look0 me).2 with
  | true => simp [children, cfg_good.childrenGuarded, cfg_good.goneRaises, hraise] at h
  | false =>
    cases recursive with
    | false =>
      rw [children_flat_good cfg cfg_good me look0 pm look hraise] at h
      cases h
      exact kids_nodup (uniquePids_filter hu _) _ _
    | true =>
      obtain ⟨s, hs, hnd, hmem⟩ := children_rec_good cfg cfg_good me look0 pm look hraise
      rw [hs] at h
      cases h
      exact (flatMap_kids_isSetOf hu hnd hmem).1

/-- every returned PID was accepted as a child of somebody in the map without the caller's entry -/
theorem children_mem (me : Caller) (recursive : Bool) (look0 : Look) (pm : PpidMap) (look : Look)
    (l : List Nat) (h : (children cfg me recursive look0 pm look).2 = .ok l) :
    ∀ c ∈ l, ∃ p, Child pm look me.ctime p c ∧ c ≠ me.pid := by
  intro c hc
  cases hraise : (raiseIfPidReused true look0 me).2 with
  | true => simp [children, cfg_good.childrenGuarded, cfg_good.goneRaises, hraise] at h
  | false =>
    cases recursive with
    | false =>
      rw [children_flat_good cfg cfg_good me look0 pm look hraise] at h
      cases h
      exact ⟨me.pid, child_goodMap_iff.1 (mem_kids_iff.1 hc)⟩
    | true =>
      obtain ⟨s, hs, _, _⟩ := children_rec_good cfg cfg_good me look0 pm look hraise
      rw [hs] at h
      cases h
      obtain ⟨p, _, hk⟩ := List.mem_flatMap.1 hc
      exact ⟨p, child_goodMap_iff.1 (mem_kids_iff.1 hk)⟩

/-- **C05_not_self.** The caller is never among its own children or descendants — for ANY map
    (self-loops, cycles through the caller, even duplicate entries). -/
theorem C05_not_self (me : Caller) (recursive : Bool) (look0 : Look) (pm : PpidMap) (look : Look)
    (l : List Nat) (h : (children cfg me recursive look0 pm look).2 = .ok l) : me.pid ∉ l := by
  intro hm
  obtain ⟨_, _, hne⟩ := children_mem me recursive look0 pm look l h _ hm
  exact hne rfl

/-- **C05_no_older.** Every returned process exists when examined and did not start before the
    caller (a recycled PID is never handed out) — for ANY map and world. -/
theorem C05_no_older (me : Caller) (recursive : Bool) (look0 : Look) (pm : PpidMap) (look : Look)
    (l : List Nat) (h : (children cfg me recursive look0 pm look).2 = .ok l) :
    ∀ c ∈ l, ∃ s, look c = some s ∧ me.ctime ≤ s := by
  intro c hc
  obtain ⟨_, hch, _⟩ := children_mem me recursive look0 pm look l h c hc
  exact hch.2

/-- **C05_children_table.** On a process table read in one go (any parent links, any start
    times, PIDs unique) `children()` is exactly the set of rows whose ppid is the caller's PID
    and whose start time is not before the caller's — minus the caller. -/
theorem C05_children_table (T : Table) (hT : T.pids.Nodup) (me : Caller) (hr : me.reused = false)
    (hgone : me.gone = false) (ha : Alive (lookOf T) me) :
    ∃ l, (children cfg me false (lookOf T) (ppidMap T) (lookOf T)).2 = .ok l
      ∧ IsSetOf l (fun c => ∃ r, ChildT T me.pid me.ctime r ∧ r.pid = c ∧ c ≠ me.pid) := by
  obtain ⟨l, hl, hnd, hmem⟩ := C05_children_exact me (lookOf T) (ppidMap T) (lookOf T)
    (uniquePids_ppidMap hT) hr hgone ha
  refine ⟨l, hl, hnd, fun c => (hmem c).trans ?_⟩
  show (Child (ppidMap T) (lookOf T) me.ctime me.pid c ∧ c ≠ me.pid) ↔ _
  rw [child_table_iff hT]
  constructor
  · rintro ⟨⟨r, h1, h2⟩, h3⟩; exact ⟨r, h1, h2, h3⟩
  · rintro ⟨r, h1, h2, h3⟩; exact ⟨⟨r, h1, h2⟩, h3⟩

/-! ## The caller's identity -/

/-- **C05_dead_caller_NSP.** If the incarnation the object was built for no longer owns its PID
    (the process is gone, or the PID belongs to a process with another start time), or the object
    already knows it (`_gone` / `_pid_reused`), `children()` raises `NoSuchProcess(pid)`. -/
theorem C05_dead_caller_NSP (me : Caller) (recursive : Bool) (look0 : Look) (pm : PpidMap)
    (look : Look) (h : ¬ Alive look0 me ∨ me.gone = true ∨ me.reused = true) :
    (children cfg me recursive look0 pm look).2 = .nsp me.pid := by
  simp [children, cfg_good.childrenGuarded, cfg_good.goneRaises, raise_true_of_dead h]

/-- **C05_recycled_caller_NSP** — `children()`, both modes, at full strength: whatever the object has seen
    before, if the caller's PID now belongs to a process with another start time, `children()` raises
    `NoSuchProcess(pid)`. (For `parent()`/`parents()` see `C05_recycled_caller_NSP_parent` and the
    counterexample `C05_recycled_lowest_pid_counterexample`.) -/
theorem C05_recycled_caller_NSP (me : Caller) (recursive : Bool) (look0 : Look) (pm : PpidMap)
    (look : Look) (h : Recycled look0 me) :
    (children cfg me recursive look0 pm look).2 = .nsp me.pid :=
  C05_dead_caller_NSP me recursive look0 pm look (Or.inl (not_alive_of_recycled h))

/-- **C05_dead_caller_NSP (parent, parents).** Same for `parent()` and `parents()`, for a caller
    that is not the lowest PID `parent()` stops at — or for EVERY caller once the stop checks the identity
    first (`cfg.rootGuarded = true`: the repaired code) (`_LOWEST_PID` unset or current; the table is
    not empty). A gone caller is not listed, hence never the root. -/
theorem C05_dead_caller_NSP_parent (ps : Ps) (T : Table) (me : Caller) (hT : T ≠ [])
    (hfresh : ps.lowest = none ∨ ps.lowest = minPid? T) (hroot : isRoot T me.pid = false ∨ cfg.rootGuarded = true)
    (h : ¬ Alive (lookOf T) me ∨ me.gone = true ∨ me.reused = true) :
    (parent cfg ps T me).2.2 = .nsp me.pid ∧ (parents cfg ps T me).2 = .nsp me.pid := by
  obtain ⟨r, hrT⟩ := List.exists_mem_of_ne_nil T hT
  obtain ⟨m, hm⟩ := minPid_some_of_mem hrT
  have hlow : lowestPid ps T = (⟨some m⟩, some m) := by
    unfold lowestPid
    rcases hfresh with h | h
    · rw [h, hm]
    · rw [hm] at h
      have : ps = ⟨some m⟩ := by cases ps; simp_all
      rw [this]
  have hp : parent cfg ps T me = (⟨some m⟩, (raiseIfPidReused true (lookOf T) me).1, .nsp me.pid) := by
    unfold parent
    simp only [cfg_good.lowestStop, if_true, hlow]
    cases hbeq : (me.pid == m) with
    | false =>
      simp only [Bool.false_eq_true, if_false]
      unfold parentCore
      simp [cfg_good.ppidGuarded, cfg_good.goneRaises, raise_true_of_dead h]
    | true =>
      have hrg : cfg.rootGuarded = true := by
        rcases hroot with hroot | hroot
        · have : me.pid = m := by simpa using hbeq
          simp [isRoot, hm, this] at hroot
        · exact hroot
      simp [hrg, cfg_good.goneRaises, raise_true_of_dead h]
  refine ⟨by rw [hp], ?_⟩
  unfold parents parentsFuel
  simp [parentsLoop, hp]

/-- **C05_recycled_caller_NSP (parent, parents).** -/
theorem C05_recycled_caller_NSP_parent (ps : Ps) (T : Table) (me : Caller)
    (hfresh : ps.lowest = none ∨ ps.lowest = minPid? T) (hroot : isRoot T me.pid = false ∨ cfg.rootGuarded = true)
    (h : Recycled (lookOf T) me) :
    (parent cfg ps T me).2.2 = .nsp me.pid ∧ (parents cfg ps T me).2 = .nsp me.pid := by
  have hT : T ≠ [] := by
    obtain ⟨s, hs, _⟩ := h
    obtain ⟨r, hfind, _⟩ := lookOf_some hs
    exact List.ne_nil_of_mem (find_some hfind).2
  exact C05_dead_caller_NSP_parent ps T me hT hfresh hroot (Or.inl (not_alive_of_recycled h))

/-- psutil before the `_gone` test in `_raise_if_pid_reused()` (fact `goneRaises = false`) -/
def preGoneCfg : Cfg := ⟨.le, .le, .le, true, true, true, true, true, true, false, false⟩

/-- Why the fact `goneRaises` matters: without the `_gone` test an object that `is_running()` has
    once seen gone (`_gone = True`) never re-checks its identity, so when PID 5 is recycled
    afterwards `children()` answers for the new process 5 (`[6]`) instead of raising
    NoSuchProcess — the full-strength statement is **false** for that configuration; with the
    test the same call raises. (Former known finding C05-gone-then-recycled, fixed in /repo.) -/
theorem C05_recycled_after_gone_counterexample :
    Recycled (lookOf [⟨1, 0, 1⟩, ⟨5, 1, 15⟩, ⟨6, 5, 20⟩]) ⟨5, 10, true, false⟩
    ∧ (children preGoneCfg ⟨5, 10, true, false⟩ false (lookOf [⟨1, 0, 1⟩, ⟨5, 1, 15⟩, ⟨6, 5, 20⟩])
        (ppidMap [⟨1, 0, 1⟩, ⟨5, 1, 15⟩, ⟨6, 5, 20⟩]) (lookOf [⟨1, 0, 1⟩, ⟨5, 1, 15⟩, ⟨6, 5, 20⟩])).2 = .ok [6]
    ∧ (children cfg ⟨5, 10, true, false⟩ false (lookOf [⟨1, 0, 1⟩, ⟨5, 1, 15⟩, ⟨6, 5, 20⟩])
        (ppidMap [⟨1, 0, 1⟩, ⟨5, 1, 15⟩, ⟨6, 5, 20⟩]) (lookOf [⟨1, 0, 1⟩, ⟨5, 1, 15⟩, ⟨6, 5, 20⟩])).2 = .nsp 5 := by
  refine ⟨⟨15, by decide, by decide⟩, by decide, by decide⟩

/-- …and that state is what the model's `is_running()` produces from a fresh object when the
    process is gone (`mid` table without PID 5). -/
example : (isRunning (lookOf [⟨1, 0, 1⟩, ⟨6, 5, 20⟩]) ⟨5, 10, false, false⟩) = (⟨5, 10, true, false⟩, false) := by
  decide

/-! ## parent() / parents() -/

/-- **C05_parent_spec.** For a caller listed with its own start time, `parent()` is the process
    named by its ppid unless that PID now belongs to a younger process (then None); the root
    (lowest listed PID) has no parent; an unlisted ppid gives None. (`_LOWEST_PID` unset or
    current.) -/
theorem C05_parent_spec (ps : Ps) (T : Table) (me : Caller)
    (hfresh : ps.lowest = none ∨ ps.lowest = minPid? T) (hr : me.reused = false)
    (hgone : me.gone = false) (hl : lookOf T me.pid = some me.ctime) :
    (parent cfg ps T me).2.2 = .ok (parentOf T me.pid me.ctime) :=
  (parent_good cfg cfg_good ps T me hfresh hr hgone hl).1

/-- **C05_parents_chain / C05_parents_terminates.** On ANY table (cyclic parent links, equal
    start times, self-loops) `parents()` returns — within `|T| + 2` iterations — the chain of
    `parent()`: up to the root, or up to the first process already on the chain. -/
theorem C05_parents_chain (ps : Ps) (T : Table) (me : Caller)
    (hfresh : ps.lowest = none ∨ ps.lowest = minPid? T) (hr : me.reused = false)
    (hgone : me.gone = false) (hl : lookOf T me.pid = some me.ctime) :
    ∃ l, (parents cfg ps T me).2 = .ok l ∧ Chain T [me.pid] me.pid me.ctime l := by
  have hlt : unseenCnt T.pids [me.pid] < parentsFuel T := by
    have := unseenCnt_le_length T.pids [me.pid]
    have hlen : T.pids.length = T.length := by simp [Table.pids]
    unfold parentsFuel
    omega
  obtain ⟨l, h1, h2⟩ := parentsLoop_good cfg cfg_good T (parentsFuel T) ps [me.pid] me [] hfresh hr hgone hl hlt
  exact ⟨l, by simpa [parents] using h1, h2⟩

theorem C05_parents_terminates (ps : Ps) (T : Table) (me : Caller)
    (hfresh : ps.lowest = none ∨ ps.lowest = minPid? T) (hr : me.reused = false)
    (hgone : me.gone = false) (hl : lookOf T me.pid = some me.ctime) : (parents cfg ps T me).2 ≠ .diverged := by
  obtain ⟨l, h, _⟩ := C05_parents_chain ps T me hfresh hr hgone hl
  rw [h]; simp

/-- **C05_parents_to_root.** When the parent links that pass the create-time test are acyclic
    (witnessed by any rank that strictly decreases from child to parent — on a real system:
    start time, ties broken by the order of creation) the chain is the plain iteration of
    `parent()` up to the root: nothing is cut. -/
theorem C05_parents_to_root (ps : Ps) (T : Table) (me : Caller)
    (hfresh : ps.lowest = none ∨ ps.lowest = minPid? T) (hr : me.reused = false)
    (hgone : me.gone = false) (hl : lookOf T me.pid = some me.ctime) (rk : Nat → Nat)
    (hrk : ∀ r ∈ T, ∀ q ∈ T, q.pid = r.ppid → isRoot T r.pid = false → q.start ≤ r.start →
      rk q.pid < rk r.pid) :
    ∃ l, (parents cfg ps T me).2 = .ok l ∧ ChainToRoot T me.pid me.ctime l := by
  obtain ⟨l, h1, h2⟩ := C05_parents_chain ps T me hfresh hr hgone hl
  refine ⟨l, h1, chain_toRoot rk hrk hl ?_ h2⟩
  intro s hs
  rw [List.mem_singleton] at hs
  subst hs
  exact Nat.le_refl _

/-! ## The specification functions the driver prints are the relations above -/

theorem C05_spec_childList (links : PpidMap) (hu : UniquePids links) (look : Look) (ct root : Nat) :
    IsSetOf (childList links look ct root) (fun c => Child links look ct root c ∧ c ≠ root) :=
  ⟨childList_nodup hu look ct root, fun _ => mem_childList⟩

theorem C05_spec_descList (links : PpidMap) (look : Look) (ct root : Nat)
    (hc : closed links look ct root (descSat links look ct root) = true) :
    IsSetOf (descList links look ct root) (fun c => Desc links look ct root c ∧ c ≠ root) :=
  descList_exact hc

theorem C05_spec_chainList (T : Table) (pid ct : Nat) (l : List Row)
    (h : Chain T [pid] pid ct l) : chainList T (T.length + 1) [pid] pid ct = l := by
  have hlt : unseenCnt T.pids [pid] < T.length + 1 := by
    have := unseenCnt_le_length T.pids [pid]
    have hlen : T.pids.length = T.length := by simp [Table.pids]
    omega
  exact chain_unique (chainList_chain T _ _ _ _ hlt) h

/-! ## Reading the table out of `/proc/<pid>/stat` -/

theorem scfg_good : scfg.Good := by
  constructor <;> decide

/-- **C05_stat_roundtrip.** For EVERY comm byte string (spaces, parentheses, newlines, …) both
    `ppid_map()` and `_parse_stat_file()` recover the ppid and the start time the kernel wrote. -/
theorem C05_stat_roundtrip (pid : Nat) (comm state : Bytes) (ppid : Nat) (pre : List Bytes)
    (start : Nat) (post : List Bytes) (hst : Tok state) (hpre : ∀ t ∈ pre, Tok t)
    (hpost : ∀ t ∈ post, Tok t) (hlen : pre.length = 17) (hpl : 17 ≤ post.length) :
    mapEntry scfg (renderStat pid comm state ppid pre start post) = .ok ppid
    ∧ statPpid scfg (renderStat pid comm state ppid pre start post) = .ok ppid
    ∧ statCtime scfg (renderStat pid comm state ppid pre start post) = .ok start :=
  stat_roundtrip scfg scfg_good pid comm state ppid pre start post hst hpre hpost hlen hpl

/-! ## The richer world: zombies, unreadable stat files, a world per step of `parents()`, oneshot

  `L` is the listing `pids()` returned, `w0` the world in which the caller's identity is checked and
  `ppid_map()` reads the stat files (ANY of them may be gone or unreadable), `wl` the world in which
  each child is examined afterwards. `W i` are the worlds the i-th `parent()` call of `parents()` sees. -/

theorem xcfg_good : (xcfg.mapSkipsDenied = true ∧ xcfg.mapSkipsGone = true) ∧ xcfg.base = cfg :=
  ⟨⟨by decide, by decide⟩, rfl⟩

/-- a process readable when `ppid_map()` ran is not unreadable when it is examined -/
def StaysReadable (L : List Nat) (w0 wl : XWorld) : Prop :=
  ∀ c ∈ L, (∃ pp s, w0 c = .ok pp s) → wl c ≠ .denied

theorem staysReadable_keys {L : List Nat} {w0 wl : XWorld} (h : StaysReadable L w0 wl) :
    ∀ p ∈ (linksOf L w0).map (·.1), wl p ≠ .denied := by
  intro p hp
  obtain ⟨e, he, rfl⟩ := List.mem_map.1 hp
  obtain ⟨hL, s, hs⟩ := mem_linksOf.1 (show (e.1, e.2) ∈ linksOf L w0 from he)
  exact h e.1 hL ⟨e.2, s, hs⟩

/-- **C05_unreadable_left_out** (non-recursive). Whatever subset of the other processes has an
    unreadable (EACCES/EPERM) or vanished stat file when `ppid_map()` runs, `children()` does not fail:
    it returns exactly the children among the processes whose links are visible (`linksOf`: listed and
    readable), each once, never the caller — an unreadable process is left out. -/
theorem C05_unreadable_left_out (me : Caller) (L : List Nat) (w0 wl : XWorld) (hL : L.Nodup)
    (hr : me.reused = false) (hgone : me.gone = false) (ha : ∃ pp, w0 me.pid = .ok pp me.ctime)
    (hwl : StaysReadable L w0 wl) :
    ∃ l, (childrenX xcfg me false L w0 wl).2 = .ok l
      ∧ IsSetOf l (fun c => Child (linksOf L w0) (lookOfW wl) me.ctime me.pid c ∧ c ≠ me.pid) := by
  obtain ⟨pp, hpp⟩ := ha
  have hme : w0 me.pid ≠ .denied := by rw [hpp]; simp
  have hal : Alive (lookOfW w0) me := by unfold Alive lookOfW; rw [hpp]
  rw [childrenX_refines xcfg xcfg_good.1 me false L w0 wl hme (staysReadable_keys hwl)]
  obtain ⟨l, h1, h2⟩ := C05_children_exact me (lookOfW w0) (linksOf L w0) (lookOfW wl)
    (uniquePids_linksOf w0 hL) hr hgone hal
  refine ⟨l, ?_, h2⟩
  show XOut.ofOut (children xcfg.base me false (lookOfW w0) (linksOf L w0) (lookOfW wl)).2 = _
  rw [xcfg_good.2, h1]; rfl

/-- **C05_unreadable_left_out** (recursive): exactly the descendants through visible links. -/
theorem C05_unreadable_left_out_rec (me : Caller) (L : List Nat) (w0 wl : XWorld) (hL : L.Nodup)
    (hr : me.reused = false) (hgone : me.gone = false) (ha : ∃ pp, w0 me.pid = .ok pp me.ctime)
    (hwl : StaysReadable L w0 wl) :
    ∃ l, (childrenX xcfg me true L w0 wl).2 = .ok l
      ∧ IsSetOf l (fun c => Desc (linksOf L w0) (lookOfW wl) me.ctime me.pid c ∧ c ≠ me.pid) := by
  obtain ⟨pp, hpp⟩ := ha
  have hme : w0 me.pid ≠ .denied := by rw [hpp]; simp
  have hal : Alive (lookOfW w0) me := by unfold Alive lookOfW; rw [hpp]
  rw [childrenX_refines xcfg xcfg_good.1 me true L w0 wl hme (staysReadable_keys hwl)]
  obtain ⟨l, h1, h2⟩ := C05_children_rec_exact me (lookOfW w0) (linksOf L w0) (lookOfW wl)
    (uniquePids_linksOf w0 hL) hr hgone hal
  refine ⟨l, ?_, h2⟩
  show XOut.ofOut (children xcfg.base me true (lookOfW w0) (linksOf L w0) (lookOfW wl)).2 = _
  rw [xcfg_good.2, h1]; rfl

/-- what a visible link is: the PID is listed and its stat file was read -/
theorem C05_links_visible (L : List Nat) (w : XWorld) (c p : Nat) :
    (c, p) ∈ linksOf L w ↔ c ∈ L ∧ ∃ s, w c = .ok p s := mem_linksOf

/-- **C05_unreadable_never_returned.** A process whose stat file was unreadable when `ppid_map()` ran
    is in no result, at any depth. -/
theorem C05_unreadable_never_returned (me : Caller) (recursive : Bool) (L : List Nat) (w0 wl : XWorld)
    (hL : L.Nodup) (hr : me.reused = false) (hgone : me.gone = false)
    (ha : ∃ pp, w0 me.pid = .ok pp me.ctime) (hwl : StaysReadable L w0 wl) (l : List Nat)
    (h : (childrenX xcfg me recursive L w0 wl).2 = .ok l) (c : Nat) (hc : w0 c = .denied) : c ∉ l := by
  intro hm
  have hlink : ∀ {x : Nat}, (∃ p, (x, p) ∈ linksOf L w0) → w0 x ≠ .denied := by
    rintro x ⟨p, hp⟩
    obtain ⟨_, s, hs⟩ := mem_linksOf.1 hp
    rw [hs]; simp
  cases recursive with
  | false =>
    obtain ⟨l', h1, _, h2⟩ := C05_unreadable_left_out me L w0 wl hL hr hgone ha hwl
    rw [h1] at h; cases h
    exact hlink ⟨_, ((h2 c).1 hm).1.1⟩ hc
  | true =>
    obtain ⟨l', h1, _, h2⟩ := C05_unreadable_left_out_rec me L w0 wl hL hr hgone ha hwl
    rw [h1] at h; cases h
    have hd := ((h2 c).1 hm).1
    cases hd with
    | base hch => exact hlink ⟨_, hch.1⟩ hc
    | step _ hch => exact hlink ⟨_, hch.1⟩ hc

/-- the statement WITHOUT the hypothesis that readable processes stay readable during the walk -/
def C05_unreadable_left_out_Full : Prop :=
  ∀ (me : Caller) (recursive : Bool) (L : List Nat) (w0 wl : XWorld), L.Nodup → me.reused = false →
    me.gone = false → (∃ pp, w0 me.pid = .ok pp me.ctime) →
    ∃ l, (childrenX xcfg me recursive L w0 wl).2 = .ok l

def tDeny0 : XTable := [⟨1, 0, 1, .run⟩, ⟨5, 1, 10, .run⟩, ⟨6, 5, 20, .run⟩]
def tDeny1 : XTable := [⟨1, 0, 1, .run⟩, ⟨5, 1, 10, .run⟩, ⟨6, 5, 20, .denied⟩]

/-- …is FALSE of the code as found: child 6 is readable while `ppid_map()` runs and unreadable when
    `Process(6).create_time()` is asked (e.g. it exec'ed a set-uid binary under hidepid=1):
    `AccessDenied(6)` escapes from `Process(5).children()` — `except (NoSuchProcess, ZombieProcess)`
    does not catch it. -/
theorem C05_unreadable_mid_walk_counterexample :
    (childrenX xcfg ⟨5, 10, false, false⟩ false tDeny0.pids tDeny0.read tDeny1.read).2 = .denied 6
    ∧ (childrenX xcfg ⟨5, 10, false, false⟩ true tDeny0.pids tDeny0.read tDeny1.read).2 = .denied 6
    ∧ ¬ C05_unreadable_left_out_Full := by
  have h1 : (childrenX xcfg ⟨5, 10, false, false⟩ false tDeny0.pids tDeny0.read tDeny1.read).2 = .denied 6 := by
    decide
  refine ⟨h1, by decide, ?_⟩
  intro hf
  obtain ⟨l, hl⟩ := hf ⟨5, 10, false, false⟩ false tDeny0.pids tDeny0.read tDeny1.read (by decide) rfl rfl
    ⟨1, by decide⟩
  rw [h1] at hl; cases hl

/-- without the skip in `ppid_map()` (psutil before cdbd31b) one unreadable stat file anywhere in the
    listing makes `children()` of ANY process fail with a bare `PermissionError` -/
theorem C05_unreadable_needs_skip :
    (childrenX { xcfg with mapSkipsDenied := false } ⟨1, 1, false, false⟩ false tDeny1.pids tDeny1.read tDeny1.read).2
      = .permissionError
    ∧ (childrenX xcfg ⟨1, 1, false, false⟩ true tDeny1.pids tDeny1.read tDeny1.read).2 = .ok [5] := by
  refine ⟨by decide, by decide⟩

/-- **C05_model_state_letter_unread** (a lemma about the MODEL, true by construction: `XTable.read` never
    looks at the state letter). What it records is the modelling decision that zombies (state Z: exited, not
    yet reaped, still listed) are processes like any other for all three calls — as caller, as child, as
    parent. That the CODE behaves so (`wrap_exceptions`/`_raise_if_zombie`, `ZombieProcess` in the `except`
    tuples, `Process.__init__` are not in the model) rests on the correspondence: rows with state Z in every
    family, `dyn/zombie`, corpus `zombie-*`, exhaustive {R,Z,X,G} states (mutation ME). -/
theorem C05_model_state_letter_unread (me : Caller) (recursive : Bool) (T0 T1 : XTable) :
    childrenX xcfg me recursive (XTable.pids (T0.map unz)) (XTable.read (T0.map unz)) (XTable.read (T1.map unz))
      = childrenX xcfg me recursive T0.pids T0.read T1.read := by
  rw [read_unz, read_unz, pids_unz]

theorem C05_model_state_letter_unread_parents (fuel : Nat) (ps : Ps) (Ts : Nat → XTable) (me : Caller) (os : Oneshot) :
    parentsX cfg fuel ps (fun i => stepOfX ((Ts i).map unz)) me os
      = parentsX cfg fuel ps (fun i => stepOfX (Ts i)) me os := by
  have : (fun i => stepOfX ((Ts i).map unz)) = (fun i => stepOfX (Ts i)) := by
    funext i
    unfold stepOfX
    rw [read_unz, pids_unz]
  rw [this]

def tZ : XTable := [⟨1, 0, 1, .run⟩, ⟨5, 1, 10, .zombie⟩, ⟨6, 5, 20, .zombie⟩, ⟨7, 5, 9, .zombie⟩, ⟨8, 6, 30, .run⟩]

/-- a zombie caller lists its children (zombie 6, and 8 below it; 7 is older: a recycled PID), a zombie
    child is listed, the parent of a zombie and a zombie parent are found -/
example : (childrenX xcfg ⟨5, 10, false, false⟩ false tZ.pids tZ.read tZ.read).2 = .ok [6]
    ∧ (childrenX xcfg ⟨5, 10, false, false⟩ true tZ.pids tZ.read tZ.read).2 = .ok [6, 8]
    ∧ (parentsX cfg 7 ⟨none⟩ (fun _ => stepOfX tZ) ⟨8, 30, false, false⟩ none).2
        = .ok [⟨6, 5, 20⟩, ⟨5, 1, 10⟩, ⟨1, 0, 1⟩] := by
  refine ⟨by decide, by decide, by decide⟩

/-- **C05_unreadable_caller_NSP** (as found). A caller whose own stat file has become unreadable no
    longer compares equal to `Process(pid)` (`_ident = (pid, None)`): it is treated as a reused PID. -/
theorem C05_unreadable_caller_NSP (me : Caller) (recursive : Bool) (L : List Nat) (w0 wl : XWorld)
    (h : w0 me.pid = .denied) : (childrenX xcfg me recursive L w0 wl).2 = .nsp me.pid := by
  unfold childrenX
  simp [xcfg_good.2, cfg_good.childrenGuarded, cfg_good.goneRaises, raiseX_denied h]

/-! ### parents() while the table changes between the steps -/

/-- **C05_parents_dyn_spec.** For ANY sequence of worlds — ancestors exiting, being reaped, their PIDs
    reused between two `parent()` calls — `parents()` is `chainDyn`: `parentOfW` (parent() as the
    statement reads, in the worlds of that step) iterated, cut at the root, at a PID already on the
    chain, and ended by NoSuchProcess at an element that is no longer itself. -/
theorem C05_parents_dyn_spec (fuel : Nat) (ps : Ps) (W : Nat → PStep) (me : Caller) (os : Oneshot) (low : Nat)
    (hlow : lowestPidX ps (W 0).listing = (⟨some low⟩, some low)) (hos : ∀ pp, os ≠ some (some pp))
    (hr : me.reused = false) (hgone : me.gone = false) :
    (parentsX cfg fuel ps W me os).2 = chainDyn cfg.rootGuarded W low fuel 0 [me.pid] me.pid me.ctime [] :=
  parentsLoopX_spec cfg cfg_good W low fuel 0 ps [me.pid] me os [] hlow hos hr hgone

/-- **C05_parents_dyn_links.** Every element of the returned chain was the parent of the previous one
    at the time it was looked up (`ParentAt` in the worlds of its step), the previous one still being
    the same incarnation at that moment (`SameAt`); no element is younger than its child (hence than
    the caller); no PID occurs twice and the caller is not among them. -/
theorem C05_parents_dyn_links (fuel : Nat) (ps : Ps) (W : Nat → PStep) (me : Caller) (os : Oneshot) (low : Nat)
    (hlow : lowestPidX ps (W 0).listing = (⟨some low⟩, some low)) (hos : ∀ pp, os ≠ some (some pp))
    (hr : me.reused = false) (hgone : me.gone = false) (l : List Row)
    (h : (parentsX cfg fuel ps W me os).2 = .ok l) :
    Linked W 0 me.pid me.ctime l ∧ (me.pid :: l.map (·.pid)).Nodup ∧ ∀ q ∈ l, q.start ≤ me.ctime := by
  rw [C05_parents_dyn_spec fuel ps W me os low hlow hos hr hgone] at h
  obtain ⟨l', hl, hlink, hseen, hnd, hle⟩ := chainDyn_linked cfg.rootGuarded W low fuel 0 [me.pid] me.pid me.ctime [] l h
  simp only [List.nil_append] at hl
  subst hl
  refine ⟨hlink, ?_, hle⟩
  rw [List.nodup_cons]
  refine ⟨?_, hnd⟩
  intro hm
  obtain ⟨q, hq, hqp⟩ := List.mem_map.1 hm
  exact hseen q hq (by rw [hqp]; exact List.mem_singleton.2 rfl)

/-- **C05_parents_dyn_terminates.** Whatever the worlds do, `parents()` ends within `|U| + 2` iterations,
    `U` being any list that contains the PIDs the look-ups can find (e.g. `0 … pid_max`): every
    iteration puts a PID on the chain that was not there before (the `seen` set of 7ebb1d1). -/
theorem C05_parents_dyn_terminates (ps : Ps) (W : Nat → PStep) (me : Caller) (os : Oneshot) (low : Nat)
    (hlow : lowestPidX ps (W 0).listing = (⟨some low⟩, some low)) (hos : ∀ pp, os ≠ some (some pp))
    (hr : me.reused = false) (hgone : me.gone = false) (U : List Nat)
    (hU : ∀ i p gp st, (W i).wp p = .ok gp st → p ∈ U) :
    (parentsX cfg (U.length + 2) ps W me os).2 ≠ .diverged := by
  rw [C05_parents_dyn_spec _ ps W me os low hlow hos hr hgone]
  refine chainDyn_terminates cfg.rootGuarded W low U hU _ _ _ _ _ _ ?_
  have := unseenCnt_le_length U [me.pid]
  omega

/-- **C05_parent_dyn_dead_NSP.** One `parent()` call in ANY three worlds: when the object's incarnation
    does not own the PID at the identity check (gone, another start time, unreadable) and it is not
    the root, the call raises NoSuchProcess(pid) — this is also how `parents()` ends at an ancestor
    that exited or was recycled between two steps. -/
theorem C05_parent_dyn_dead_NSP (ps : Ps) (s : PStep) (me : Caller) (os : Oneshot) (low : Nat)
    (hlow : lowestPidX ps s.listing = (⟨some low⟩, some low)) (hos : ∀ pp, os ≠ some (some pp))
    (hr : me.reused = false) (hgone : me.gone = false) (hroot : me.pid ≠ low ∨ cfg.rootGuarded = true)
    (hdead : ¬ SameAt s me.pid me.ctime) : (parentX cfg ps s me os).2.2.2 = .nsp me.pid := by
  rw [(parentX_spec cfg cfg_good ps s me os low hlow hos hr hgone).2, parentOfW_dead hroot hdead]
  rfl

def w0dyn : XTable := [⟨1, 0, 1, .run⟩, ⟨10, 1, 5, .run⟩, ⟨20, 10, 8, .run⟩, ⟨30, 20, 9, .run⟩]
/-- after the first step: 20 exited and its PID was reused by a process started at 50 -/
def w1dyn : XTable := [⟨1, 0, 1, .run⟩, ⟨10, 1, 5, .run⟩, ⟨20, 1, 50, .run⟩, ⟨30, 1, 9, .run⟩]
/-- after the first step: 10 exited, 20 was re-parented to init -/
def w2dyn : XTable := [⟨1, 0, 1, .run⟩, ⟨20, 1, 8, .run⟩, ⟨30, 20, 9, .run⟩]

/-- non-vacuity: a constant world gives the full chain; an ancestor recycled between the steps ends the
    walk with NoSuchProcess(ancestor); an ancestor re-parented between the steps gives the chain of
    the links as they were when looked up -/
example : (parentsX cfg 6 ⟨none⟩ (fun _ => stepOfX w0dyn) ⟨30, 9, false, false⟩ none).2
      = .ok [⟨20, 10, 8⟩, ⟨10, 1, 5⟩, ⟨1, 0, 1⟩]
    ∧ (parentsX cfg 6 ⟨none⟩ (fun i => if i = 0 then stepOfX w0dyn else stepOfX w1dyn) ⟨30, 9, false, false⟩ none).2
      = .nsp 20
    ∧ (parentsX cfg 6 ⟨none⟩ (fun i => if i = 0 then stepOfX w0dyn else stepOfX w2dyn) ⟨30, 9, false, false⟩ none).2
      = .ok [⟨20, 10, 8⟩, ⟨1, 0, 1⟩] := by
  refine ⟨by decide, by decide, by decide⟩

/-! ### oneshot -/

/-- **C05_model_oneshot_cache_hit** (a lemma about the MODEL: it unfolds `ppidX` on a cache hit; that
    `Process.ppid` is `@memoize_when_activated` is not a translator fact — the tie is the `dyn/oneshot`
    family, mutation N2). Inside `with p.oneshot():`, once `ppid()` has answered `pp`, `parent()`
    is answered from the cache: neither the identity check nor the own stat file is consulted (the
    worlds `wi`, `wo` do not occur on the right-hand side); only `Process(pp)` is looked up afresh and
    tested against the caller's start time. A re-parenting inside the block is therefore not seen. -/
theorem C05_model_oneshot_cache_hit (s : PStep) (me : Caller) (pp : Nat) :
    (parentCoreX cfg s me (some (some pp))).2.2
      = (match s.wp pp with
         | .gone => .ok none
         | .denied => .denied pp
         | .ok gp st => if st ≤ me.ctime then .ok (some ⟨pp, gp, st⟩) else .ok none) := by
  unfold parentCoreX ppidX
  simp only
  cases s.wp pp with
  | gone => rfl
  | denied => rfl
  | ok gp st =>
    by_cases hle : st ≤ me.ctime
    · simp [cfg_good.parentOp, Cmp.eval, hle]
    · simp [cfg_good.parentOp, Cmp.eval, hle]

/-- …and the first `ppid()` inside the block is an ordinary one that fills the cache -/
example : (ppidX cfg (stepOfX w0dyn) ⟨30, 9, false, false⟩ (some none)).2 = (some (some 20), .ok 20) := by decide

/-! ### The table of seeded change C05-2 (a descendant older than the caller behind a recycled PID) -/

def seeded2 : Table :=
  [⟨1, 0, 1⟩, ⟨100, 1, 5000⟩, ⟨200, 100, 6000⟩, ⟨500, 200, 6500⟩, ⟨300, 200, 1000⟩, ⟨400, 300, 7000⟩,
   ⟨600, 100, 900⟩, ⟨700, 500, 4999⟩]

/-- 300 (older than the caller, hanging off the recycled PID 200) is not a descendant, nor is 400 below
    it, nor 700 at depth 3: `C05_no_older` / `C05_children_rec_exact` speak about every depth -/
example : (children cfg ⟨100, 5000, false, false⟩ true (lookOf seeded2) (ppidMap seeded2) (lookOf seeded2)).2
    = .ok [200, 500] := by decide

/-! ## Why each fact of `cfg_good` matters (counterexamples for the other configurations) -/

/-- the configuration of the repaired code, written out (every repair of this property, the pending
    identity check before the lowest-PID stop included) -/
def fixedCfg : Cfg := ⟨.le, .le, .le, true, true, true, true, true, true, true, true⟩

theorem fixedCfg_good : fixedCfg.Good := by constructor <;> rfl

/-- psutil up to 7.x: `children()` keeps the caller's own entry, `parents()` has no cycle stop -/
def preFixCfg : Cfg := { fixedCfg with skipSelf := false, parentsSeen := false }

def cyc : Table := [⟨20, 21, 5⟩, ⟨21, 20, 5⟩, ⟨1, 0, 1⟩]
def selfLoop : Table := [⟨7, 7, 5⟩, ⟨1, 0, 1⟩]

/-- **L6.** With `ppid(20)=21, ppid(21)=20` the pre-fix `children(recursive=True)` of process 20
    contains 20 itself; with a self-loop both modes return the process itself. The repaired
    configuration returns `[21]` and `[]`. -/
theorem C05_L6_self_among_descendants :
    (children preFixCfg ⟨20, 5, false, false⟩ true (lookOf cyc) (ppidMap cyc) (lookOf cyc)).2 = .ok [21, 20]
    ∧ (children preFixCfg ⟨7, 5, false, false⟩ false (lookOf selfLoop) (ppidMap selfLoop) (lookOf selfLoop)).2 = .ok [7]
    ∧ (children preFixCfg ⟨7, 5, false, false⟩ true (lookOf selfLoop) (ppidMap selfLoop) (lookOf selfLoop)).2 = .ok [7]
    ∧ (children fixedCfg ⟨20, 5, false, false⟩ true (lookOf cyc) (ppidMap cyc) (lookOf cyc)).2 = .ok [21]
    ∧ (children fixedCfg ⟨7, 5, false, false⟩ true (lookOf selfLoop) (ppidMap selfLoop) (lookOf selfLoop)).2 = .ok [] := by
  decide

/-- **L7.** Without the cycle stop `parents()` of process 20 never returns on the 2-cycle of
    equal start times: the loop is still running after ANY number of iterations. -/
theorem C05_L7_parents_diverges (fuel : Nat) :
    (parentsLoop preFixCfg cyc fuel ⟨none⟩ [20] ⟨20, 5, false, false⟩ []).2 = .diverged := by
  have key : ∀ (fuel : Nat) (ps : Ps) (seen : List Nat) (cur : Caller) (acc : List Row),
      (ps = ⟨none⟩ ∨ ps = ⟨some 1⟩) →
      (cur = ⟨20, 5, false, false⟩ ∨ cur = ⟨21, 5, false, false⟩) →
      (parentsLoop preFixCfg cyc fuel ps seen cur acc).2 = .diverged := by
    intro fuel
    induction fuel with
    | zero => intro ps seen cur acc _ _; rfl
    | succ fuel ih =>
      intro ps seen cur acc hps hcur
      have h20 : ∀ ps, (ps = ⟨none⟩ ∨ ps = ⟨some 1⟩) →
          parent preFixCfg ps cyc ⟨20, 5, false, false⟩ = (⟨some 1⟩, ⟨20, 5, false, false⟩, .ok (some ⟨21, 20, 5⟩)) := by
        intro ps h; rcases h with rfl | rfl <;> decide
      have h21 : ∀ ps, (ps = ⟨none⟩ ∨ ps = ⟨some 1⟩) →
          parent preFixCfg ps cyc ⟨21, 5, false, false⟩ = (⟨some 1⟩, ⟨21, 5, false, false⟩, .ok (some ⟨20, 21, 5⟩)) := by
        intro ps h; rcases h with rfl | rfl <;> decide
      rcases hcur with rfl | rfl
      · simp only [parentsLoop, h20 ps hps]
        exact ih _ _ _ _ (Or.inr rfl) (Or.inr rfl)
      · simp only [parentsLoop, h21 ps hps]
        exact ih _ _ _ _ (Or.inr rfl) (Or.inl rfl)
  exact key fuel _ _ _ _ (Or.inl rfl) (Or.inl rfl)

/-- …while the repaired `parents()` answers `[21]` on the same table. -/
example : (parents fixedCfg ⟨none⟩ cyc ⟨20, 5, false, false⟩).2 = .ok [⟨21, 20, 5⟩] := by decide

/-- the `seen` guard of the recursive walk is what makes it terminate: without it the walk on the
    2-cycle is still running after ANY number of iterations -/
theorem C05_walk_diverges_without_seen_guard (fuel : Nat) :
    walk false (accepted .le 5 (lookOf cyc)) (ppidMap cyc) fuel [] [20] [] = none := by
  have key : ∀ (fuel : Nat) (seen rest ret : List Nat) (top : Nat), (top = 20 ∨ top = 21) →
      walk false (accepted .le 5 (lookOf cyc)) (ppidMap cyc) fuel seen (top :: rest) ret = none := by
    intro fuel
    induction fuel with
    | zero => intro _ _ _ _ _; rfl
    | succ fuel ih =>
      intro seen rest ret top htop
      have k20 : (kidsOf (ppidMap cyc) 20).filter (accepted .le 5 (lookOf cyc)) = [21] := by decide
      have k21 : (kidsOf (ppidMap cyc) 21).filter (accepted .le 5 (lookOf cyc)) = [20] := by decide
      rcases htop with rfl | rfl
      · simp only [walk, Bool.false_and, Bool.false_eq_true, if_false, k20]
        exact ih _ _ _ 21 (Or.inr rfl)
      · simp only [walk, Bool.false_and, Bool.false_eq_true, if_false, k21]
        exact ih _ _ _ 20 (Or.inl rfl)
  exact key fuel [] [] [] 20 (Or.inl rfl)

/-- a strict `<` in the create-time test would lose children started in the caller's own clock tick -/
example : (children { fixedCfg with childOp := .lt } ⟨1, 5, false, false⟩ false
    (lookOf [⟨1, 0, 5⟩, ⟨2, 1, 5⟩]) (ppidMap [⟨1, 0, 5⟩, ⟨2, 1, 5⟩]) (lookOf [⟨1, 0, 5⟩, ⟨2, 1, 5⟩])).2 = .ok []
  ∧ (children fixedCfg ⟨1, 5, false, false⟩ false
    (lookOf [⟨1, 0, 5⟩, ⟨2, 1, 5⟩]) (ppidMap [⟨1, 0, 5⟩, ⟨2, 1, 5⟩]) (lookOf [⟨1, 0, 5⟩, ⟨2, 1, 5⟩])).2 = .ok [2] := by
  decide

/-! ## Non-vacuity: the hypotheses are met by ordinary tables, and the results are what one expects -/

/-- the tree of the docstring of `children()`: A=10, B=11, X=12, Y=13, C=14, D=15 -/
def docTree : Table :=
  [⟨1, 0, 0⟩, ⟨10, 1, 5⟩, ⟨11, 10, 6⟩, ⟨12, 11, 7⟩, ⟨13, 12, 8⟩, ⟨14, 10, 6⟩, ⟨15, 10, 9⟩]

example : docTree.pids.Nodup ∧ UniquePids (ppidMap docTree)
    ∧ Alive (lookOf docTree) ⟨10, 5, false, false⟩ := by
  refine ⟨by decide, by unfold UniquePids; decide, by unfold Alive; decide⟩

example : (children cfg ⟨10, 5, false, false⟩ false (lookOf docTree) (ppidMap docTree) (lookOf docTree)).2
      = .ok [11, 14, 15]
    ∧ (children cfg ⟨10, 5, false, false⟩ true (lookOf docTree) (ppidMap docTree) (lookOf docTree)).2
      = .ok [11, 14, 15, 12, 13]
    ∧ (parents cfg ⟨none⟩ docTree ⟨13, 8, false, false⟩).2
      = .ok [⟨12, 11, 7⟩, ⟨11, 10, 6⟩, ⟨10, 1, 5⟩, ⟨1, 0, 0⟩] := by
  decide

/-- "if process X disappears process Y won't be listed": X=12 vanishes after the snapshot -/
example : (children cfg ⟨10, 5, false, false⟩ true (lookOf docTree) (ppidMap docTree)
    (lookOf (docTree.filter fun r => r.pid != 12))).2 = .ok [11, 14, 15] := by
  decide

/-- the rank hypothesis of `C05_parents_to_root` holds for the docstring tree (rank = PID) -/
example : ∀ r ∈ docTree, ∀ q ∈ docTree, q.pid = r.ppid → isRoot docTree r.pid = false →
    q.start ≤ r.start → id q.pid < id r.pid := by
  decide

/-- a recycled caller: the object was built for (5, start 10), PID 5 now started at 15 -/
example : Recycled (lookOf [⟨1, 0, 1⟩, ⟨5, 1, 15⟩]) ⟨5, 10, false, false⟩ := ⟨15, by decide, by decide⟩

/-- the stat line hypotheses are met by a real-looking record with a hostile comm -/
example : Tok [83] ∧ (∀ t ∈ List.replicate 17 [48], Tok t) ∧ (∀ t ∈ List.replicate 30 [48], Tok t) := by
  have h : ∀ b : Nat, isWs b = false → b ≠ 41 → Tok [b] := by
    intro b h1 h2
    refine ⟨by simp, ?_, by simpa using h2.symm⟩
    intro c hc
    rw [List.mem_singleton] at hc
    rw [hc]; exact h1
  refine ⟨h 83 (by decide) (by decide), ?_, ?_⟩ <;>
  · intro t ht
    rw [List.eq_of_mem_replicate ht]
    exact h 48 (by decide) (by decide)

/-! ## Round 3

  ### (a) the rich model of `parent()` / `parents()` IS the plain one on constant readable tables
  (until this round only tested by the driver's flag `old_agrees`; now proved, for EVERY configuration) -/

/-- **C05_static_parent_refines.** On a table that stays the same during the call and whose stat files are
    all readable (zombies included), one `parent()` of the rich model (a world per look-up) equals `parent()`
    of the plain model: same result, same `_LOWEST_PID` afterwards, same flags on the object. -/
theorem C05_static_parent_refines (c : Cfg) (ps : Ps) (T : XTable) (hT : T.Readable) (me : Caller) (os : Oneshot)
    (hos : ∀ pp, os ≠ some (some pp)) :
    (parentX c ps (stepOfX T) me os).1 = (parent c ps T.plain me).1
      ∧ (parentX c ps (stepOfX T) me os).2.1 = (parent c ps T.plain me).2.1
      ∧ (parentX c ps (stepOfX T) me os).2.2.2 = XOut.ofOut (parent c ps T.plain me).2.2 :=
  parentX_static c ps hT me os hos

/-- **C05_static_parents_refines.** Same for `parents()`, with any fuel (in particular the fuel
    `parentsFuel` of the plain model, and the 4098 iterations the driver allows). -/
theorem C05_static_parents_refines (c : Cfg) (fuel : Nat) (ps : Ps) (T : XTable) (hT : T.Readable) (me : Caller)
    (os : Oneshot) (hos : ∀ pp, os ≠ some (some pp)) :
    (parentsX c fuel ps (fun _ => stepOfX T) me os).2 = XOut.ofOut (parentsLoop c T.plain fuel ps [me.pid] me []).2 :=
  (parentsLoopX_static c hT fuel 0 ps [me.pid] me os [] hos).2

/-- …hence every theorem about the plain model speaks about the rich one: on a constant readable
    table (running processes and zombies) the rich `parents()` returns the `Chain` of the table. -/
theorem C05_static_parents_chain (ps : Ps) (T : XTable) (hT : T.Readable) (me : Caller)
    (hfresh : ps.lowest = none ∨ ps.lowest = minPid? T.plain) (hr : me.reused = false)
    (hgone : me.gone = false) (hl : lookOf T.plain me.pid = some me.ctime) :
    ∃ l, (parentsX cfg (parentsFuel T.plain) ps (fun _ => stepOfX T) me none).2 = .ok l
      ∧ Chain T.plain [me.pid] me.pid me.ctime l := by
  obtain ⟨l, h1, h2⟩ := C05_parents_chain ps T.plain me hfresh hr hgone hl
  refine ⟨l, ?_, h2⟩
  rw [C05_static_parents_refines cfg _ ps T hT me none (by intro pp h; cases h)]
  have : (parentsLoop cfg T.plain (parentsFuel T.plain) ps [me.pid] me []).2 = .ok l := by
    simpa [parents] using h1
  rw [this]; rfl

/-- a plain table seen as an extended one: everything readable, and it is the same table -/
example (T : Table) : (Table.toX T).Readable ∧ (Table.toX T).plain = T := ⟨toX_readable T, toX_plain T⟩

/-! ### (b) what the property says where the specification used to be silent

  The statement quantifies over process TABLES (parent links, start times, processes vanishing); which
  stat files the reader may open is not part of it, and `AccessDenied` is the subject of C03. What the
  statement does cover, whatever is unreadable:
    * "all of these raise NoSuchProcess when the caller's own PID has been recycled" — also when the
      new owner's stat file, or anything else, cannot be read (`C05_dead_caller_NSP_X`,
      `C05_recycled_caller_NSP_X`, `C05_parents_dyn_dead_NSP`);
    * a value that IS returned is the right one: processes turning unreadable while `children()` walks
      can make it raise `AccessDenied(child)` (C03's matter) but never make it return a wrong set
      (`C05_children_value_exact`, `C05_children_outcomes`); `parent()` likewise (`C05_parent_dyn_sound`;
      for `parents()` this is `C05_parents_dyn_links`, which has no hypothesis on the worlds).
  Not covered (spec silent, model-only): WHICH exception an unreadable stat file on the path of
  `parent()`/`parents()` produces, and a caller whose own stat file is unreadable while it is still the
  same incarnation (as found: `C05_unreadable_caller_NSP`). -/

/-- **C05_dead_caller_NSP_X.** In the rich world: if the incarnation the object was built for does not
    visibly own its PID when the identity is checked (gone, another start time, stat unreadable), or the
    object is flagged, `children()` raises NoSuchProcess(pid) — for ANY listing, ANY set of unreadable or
    vanished processes at snapshot time and ANY look-up world. -/
theorem C05_dead_caller_NSP_X (me : Caller) (recursive : Bool) (L : List Nat) (w0 wl : XWorld)
    (h : (¬ ∃ pp, w0 me.pid = .ok pp me.ctime) ∨ me.gone = true ∨ me.reused = true) :
    (childrenX xcfg me recursive L w0 wl).2 = .nsp me.pid := by
  unfold childrenX
  simp [xcfg_good.2, cfg_good.childrenGuarded, cfg_good.goneRaises, raiseX_true_of_dead h]

/-- the row the table has for the caller's PID shows another start time — whatever its state: running,
    zombie, or with an unreadable stat file -/
def RecycledX (T : XTable) (me : Caller) : Prop :=
  ∃ r, List.find? (fun r => r.pid == me.pid) T = some r ∧ r.start ≠ me.ctime

theorem not_sameAt_of_recycledX {T : XTable} {me : Caller} (h : RecycledX T me) :
    ¬ ∃ pp, T.read me.pid = .ok pp me.ctime := by
  obtain ⟨r, hf, hne⟩ := h
  rintro ⟨pp, hpp⟩
  unfold XTable.read at hpp
  rw [hf] at hpp
  cases hst : r.st <;> simp [hst] at hpp
  · exact hne hpp.2
  · exact hne hpp.2

/-- **C05_recycled_caller_NSP_X** — the last clause of the statement at table level in the rich world: the
    caller's PID now belongs to a process with another start time, be that process running, a zombie or
    unreadable, and whatever else in the table is unreadable: `children()` raises NoSuchProcess(pid);
    so do `parent()` and `parents()` of a caller that is not the root, whatever the later look-ups show. -/
theorem C05_recycled_caller_NSP_X (me : Caller) (recursive : Bool) (T0 : XTable) (wl : XWorld)
    (h : RecycledX T0 me) :
    (childrenX xcfg me recursive T0.pids T0.read wl).2 = .nsp me.pid :=
  C05_dead_caller_NSP_X me recursive T0.pids T0.read wl (Or.inl (not_sameAt_of_recycledX h))

/-- **C05_parents_dyn_dead_NSP.** `parents()` of a caller that is dead at its first identity check (and not
    the root) raises NoSuchProcess(pid), whatever any world — readable or not — shows afterwards. -/
theorem C05_parents_dyn_dead_NSP (fuel : Nat) (ps : Ps) (W : Nat → PStep) (me : Caller) (os : Oneshot) (low : Nat)
    (hlow : lowestPidX ps (W 0).listing = (⟨some low⟩, some low)) (hos : ∀ pp, os ≠ some (some pp))
    (hr : me.reused = false) (hgone : me.gone = false) (hroot : me.pid ≠ low ∨ cfg.rootGuarded = true)
    (hdead : ¬ SameAt (W 0) me.pid me.ctime) :
    (parentsX cfg (fuel + 1) ps W me os).2 = .nsp me.pid := by
  rw [C05_parents_dyn_spec _ ps W me os low hlow hos hr hgone]
  unfold chainDyn
  rw [parentOfW_dead hroot hdead]

theorem C05_recycled_caller_NSP_X_parent (fuel : Nat) (ps : Ps) (W : Nat → PStep) (me : Caller) (os : Oneshot)
    (low : Nat) (T0 : XTable) (hlow : lowestPidX ps (W 0).listing = (⟨some low⟩, some low))
    (hos : ∀ pp, os ≠ some (some pp)) (hr : me.reused = false) (hgone : me.gone = false)
    (hroot : me.pid ≠ low ∨ cfg.rootGuarded = true) (hwi : (W 0).wi = T0.read) (h : RecycledX T0 me) :
    (parentX cfg ps (W 0) me os).2.2.2 = .nsp me.pid ∧ (parentsX cfg (fuel + 1) ps W me os).2 = .nsp me.pid := by
  have hdead : ¬ SameAt (W 0) me.pid me.ctime := by
    unfold SameAt; rw [hwi]; exact not_sameAt_of_recycledX h
  exact ⟨C05_parent_dyn_dead_NSP ps (W 0) me os low hlow hos hr hgone hroot hdead,
    C05_parents_dyn_dead_NSP fuel ps W me os low hlow hos hr hgone hroot hdead⟩

/-- **C05_children_value_exact.** NO hypothesis on the look-up world (processes may vanish, be recycled AND
    turn unreadable while the tree is walked): whenever `children()` / `children(recursive=True)` returns a
    value, it is exactly the `Child` / `Desc` set over the visible links, each once, never the caller. -/
theorem C05_children_value_exact (me : Caller) (L : List Nat) (w0 wl : XWorld) (hL : L.Nodup)
    (hr : me.reused = false) (hgone : me.gone = false) (ha : ∃ pp, w0 me.pid = .ok pp me.ctime) (l : List Nat) :
    ((childrenX xcfg me false L w0 wl).2 = .ok l →
        IsSetOf l (fun c => Child (linksOf L w0) (lookOfW wl) me.ctime me.pid c ∧ c ≠ me.pid))
    ∧ ((childrenX xcfg me true L w0 wl).2 = .ok l →
        IsSetOf l (fun c => Desc (linksOf L w0) (lookOfW wl) me.ctime me.pid c ∧ c ≠ me.pid)) := by
  have hst : StaysReadable L w0 (undeny wl) := fun c _ _ => undeny_ne_denied wl c
  constructor
  · intro h
    have h' := childrenX_undeny xcfg me false L w0 wl (by intro p hp; rw [h] at hp; cases hp)
    obtain ⟨l', h1, h2⟩ := C05_unreadable_left_out me L w0 (undeny wl) hL hr hgone ha hst
    rw [h1, h] at h'; cases h'
    rw [lookOfW_undeny] at h2
    exact h2
  · intro h
    have h' := childrenX_undeny xcfg me true L w0 wl (by intro p hp; rw [h] at hp; cases hp)
    obtain ⟨l', h1, h2⟩ := C05_unreadable_left_out_rec me L w0 (undeny wl) hL hr hgone ha hst
    rw [h1, h] at h'; cases h'
    rw [lookOfW_undeny] at h2
    exact h2

/-- **C05_children_outcomes.** …and these are the only two outcomes for a live caller: a value (exact, by the
    theorem above), or `AccessDenied(c)` for a PID `c` that is listed with a readable stat file at snapshot
    time and unreadable when it is examined. Never NoSuchProcess, never a bare error, never divergence. -/
theorem C05_children_outcomes (me : Caller) (recursive : Bool) (L : List Nat) (w0 wl : XWorld) (hL : L.Nodup)
    (hr : me.reused = false) (hgone : me.gone = false) (ha : ∃ pp, w0 me.pid = .ok pp me.ctime) :
    (∃ l, (childrenX xcfg me recursive L w0 wl).2 = .ok l)
    ∨ ∃ c, (childrenX xcfg me recursive L w0 wl).2 = .denied c ∧ wl c = .denied
        ∧ c ∈ L ∧ ∃ pp s, w0 c = .ok pp s := by
  by_cases hd : ∃ c, (childrenX xcfg me recursive L w0 wl).2 = .denied c
  · obtain ⟨c, hres⟩ := hd
    obtain ⟨h1, h2⟩ := childrenX_denied xcfg xcfg_good.1 me recursive L w0 wl c hres
    obtain ⟨e, he, rfl⟩ := List.mem_map.1 h1
    obtain ⟨hL', s, hs⟩ := mem_linksOf.1 (show (e.1, e.2) ∈ linksOf L w0 from he)
    exact Or.inr ⟨e.1, hres, h2, hL', e.2, s, hs⟩
  · left
    have h' := childrenX_undeny xcfg me recursive L w0 wl (fun p hp => hd ⟨p, hp⟩)
    have hst : StaysReadable L w0 (undeny wl) := fun c _ _ => undeny_ne_denied wl c
    cases recursive with
    | false =>
      obtain ⟨l, h1, _⟩ := C05_unreadable_left_out me L w0 (undeny wl) hL hr hgone ha hst
      exact ⟨l, by rw [← h', h1]⟩
    | true =>
      obtain ⟨l, h1, _⟩ := C05_unreadable_left_out_rec me L w0 (undeny wl) hL hr hgone ha hst
      exact ⟨l, by rw [← h', h1]⟩

/-- **C05_parent_dyn_sound.** One `parent()` in ANY three worlds (anything may be unreadable): a process that
    IS returned was the one named by the caller's ppid when looked up, not younger than the caller, the caller
    still being itself; `None` IS returned only for the root, or when the named PID is gone or belongs to a
    younger process. (Every other outcome is an exception: NoSuchProcess for a dead caller, AccessDenied.) -/
theorem C05_parent_dyn_sound (ps : Ps) (s : PStep) (me : Caller) (os : Oneshot) (low : Nat)
    (hlow : lowestPidX ps s.listing = (⟨some low⟩, some low)) (hos : ∀ pp, os ≠ some (some pp))
    (hr : me.reused = false) (hgone : me.gone = false) :
    (∀ q, (parentX cfg ps s me os).2.2.2 = .ok (some q) → SameAt s me.pid me.ctime ∧ ParentAt s me.pid me.ctime q)
    ∧ ((parentX cfg ps s me os).2.2.2 = .ok none →
        me.pid = low ∨ (SameAt s me.pid me.ctime ∧ ∃ pp st0, s.wo me.pid = .ok pp st0 ∧
          (s.wp pp = .gone ∨ ∃ gp st, s.wp pp = .ok gp st ∧ me.ctime < st))) := by
  rw [(parentX_spec cfg cfg_good ps s me os low hlow hos hr hgone).2]
  constructor
  · intro q h
    cases hp : parentOfW cfg.rootGuarded s low me.pid me.ctime with
    | none => rw [hp] at h; simp [PRes.toOut] at h
    | nsp p => rw [hp] at h; simp [PRes.toOut] at h
    | denied p => rw [hp] at h; simp [PRes.toOut] at h
    | some q' =>
      rw [hp] at h
      simp only [PRes.toOut, XOut.ok.injEq, Option.some.injEq] at h
      subst h
      exact parentOfW_some hp
  · intro h
    cases hp : parentOfW cfg.rootGuarded s low me.pid me.ctime with
    | none => exact parentOfW_none hp
    | nsp p => rw [hp] at h; simp [PRes.toOut] at h
    | denied p => rw [hp] at h; simp [PRes.toOut] at h
    | some q' => rw [hp] at h; simp [PRes.toOut] at h

/-! ### (c) oneshot: the stat memo filled by another method -/

/-- **C05_oneshot_statmemo_parent.** Inside `with p.oneshot():` after ANOTHER stat-based method has filled the
    memoised stat file in world `wc` (and `ppid()` itself has not been called yet): `parent()` is the process
    named by `ppid()` — which now answers from the memo: the ppid as it was in `wc` — looked up afresh in `wp`
    and tested against the caller's start time; and, unlike a cached `ppid()` (`C05_model_oneshot_cache_hit`),
    the identity check still runs on a fresh read (`wi`): a caller recycled inside the block gets
    NoSuchProcess even though the memo still shows the old incarnation. -/
theorem C05_oneshot_statmemo_parent (ps : Ps) (s : PStep) (wc : XWorld) (me : Caller) (low : Nat)
    (hlow : lowestPidX ps s.listing = (⟨some low⟩, some low)) (hr : me.reused = false) (hgone : me.gone = false) :
    (parentX cfg ps (s.withStatMemo wc) me (some none)).2.2.2
        = (parentOfW cfg.rootGuarded { s with wo := wc } low me.pid me.ctime).toOut
    ∧ (me.pid ≠ low ∨ cfg.rootGuarded = true → ¬ SameAt s me.pid me.ctime →
        (parentX cfg ps (s.withStatMemo wc) me (some none)).2.2.2 = .nsp me.pid) := by
  have hos : ∀ pp, (some none : Oneshot) ≠ some (some pp) := by intro pp h; cases h
  refine ⟨(parentX_spec cfg cfg_good ps (s.withStatMemo wc) me (some none) low hlow hos hr hgone).2, ?_⟩
  intro hroot hdead
  exact C05_parent_dyn_dead_NSP ps (s.withStatMemo wc) me (some none) low hlow hos hr hgone hroot hdead

/-- the memo shows parent 20; meanwhile 30 was re-parented to 1: `parent()` still answers 20 (the process
    named by `ppid()`); when that PID 20 now belongs to a younger process: None; when PID 30 is recycled inside the block the call raises instead -/
example : (parentX cfg ⟨none⟩ ((stepOfX w2dyn).withStatMemo (XTable.read w0dyn)) ⟨30, 9, false, false⟩ (some none)).2.2.2
      = .ok (some ⟨20, 1, 8⟩)
    ∧ (parentX cfg ⟨none⟩ ((stepOfX w1dyn).withStatMemo (XTable.read w0dyn)) ⟨30, 9, false, false⟩ (some none)).2.2.2
      = .ok none
    ∧ (parentX cfg ⟨none⟩ ((stepOfX [⟨1, 0, 1, .run⟩, ⟨30, 1, 77, .run⟩]).withStatMemo (XTable.read w0dyn))
        ⟨30, 9, false, false⟩ (some none)).2.2.2 = .nsp 30 := by
  refine ⟨by decide, by decide, by decide⟩

/-- the witnesses of (b): the new owner of the caller's PID 5 is unreadable, a zombie, or running — always
    NoSuchProcess(5); a child turning unreadable mid-walk gives AccessDenied(6) or, when it is not examined, the
    exact value -/
example : RecycledX [⟨1, 0, 1, .run⟩, ⟨5, 1, 15, .denied⟩, ⟨6, 5, 20, .run⟩] ⟨5, 10, false, false⟩
    ∧ (childrenX xcfg ⟨5, 10, false, false⟩ true (XTable.pids [⟨1, 0, 1, .run⟩, ⟨5, 1, 15, .denied⟩, ⟨6, 5, 20, .run⟩])
        (XTable.read [⟨1, 0, 1, .run⟩, ⟨5, 1, 15, .denied⟩, ⟨6, 5, 20, .run⟩])
        (XTable.read [⟨1, 0, 1, .run⟩, ⟨5, 1, 15, .denied⟩, ⟨6, 5, 20, .run⟩])).2 = .nsp 5
    ∧ (childrenX xcfg ⟨1, 1, false, false⟩ false tDeny0.pids tDeny0.read tDeny1.read).2 = .ok [5] := by
  refine ⟨⟨⟨5, 1, 15, .denied⟩, by decide, by decide⟩, by decide, by decide⟩

/-! ### (d) a process that exits between `pids()` and the read of its stat file in `ppid_map()` -/

/-- **C05_vanishing_needs_skip.** The listing still shows PID 6, its stat file is already gone when `ppid_map()`
    gets to it ("processes vanishing while the tree is walked", at the earliest possible moment). With the fact
    `ppidMapSkipsGone` (the `except` of `ppid_map()` lists FileNotFoundError and ProcessLookupError) the PID is
    left out — the general statement is `C05_unreadable_left_out[_rec]`, whose listing `L` and world `w0` are
    independent — and without it a bare `FileNotFoundError` escapes from `children()` of ANY process. -/
theorem C05_vanishing_needs_skip :
    (childrenX { xcfg with mapSkipsGone := false } ⟨1, 1, false, false⟩ false [1, 5, 6]
        (XTable.read [⟨1, 0, 1, .run⟩, ⟨5, 1, 10, .run⟩]) (XTable.read [⟨1, 0, 1, .run⟩, ⟨5, 1, 10, .run⟩])).2
      = .fileNotFound
    ∧ (childrenX xcfg ⟨1, 1, false, false⟩ true [1, 5, 6]
        (XTable.read [⟨1, 0, 1, .run⟩, ⟨5, 1, 10, .run⟩]) (XTable.read [⟨1, 0, 1, .run⟩, ⟨5, 1, 10, .run⟩])).2
      = .ok [5] := by
  refine ⟨by decide, by decide⟩

/-! ## Audit round (round 4)

  ### (a) "all of these raise NoSuchProcess when the caller's own PID has been recycled" — literally, root included

  `parent()` starts with its lowest-PID stop (`if self.pid == lowest_pid: return None`) and only then calls
  `ppid()`, which checks the identity. A caller whose PID has been recycled and now IS the lowest listed PID
  therefore got `None` / `[]` instead of NoSuchProcess: former finding **C05-recycled-lowest-pid**, repaired in
  /repo d7107b4 (fixes/C05-parent-root-recycled.diff): the stop calls `self._raise_if_pid_reused()` before it
  answers (fact `rootGuarded`, obligation `cfg_root_guarded`). The unguarded stop is kept as a what-if
  configuration (`asFoundCfg`). -/

/-- the last clause of the statement for `parent()`/`parents()`, WITHOUT the proviso "not the lowest PID" -/
def C05_recycled_caller_NSP_parent_Full (c : Cfg) : Prop :=
  ∀ (ps : Ps) (T : Table) (me : Caller), (ps.lowest = none ∨ ps.lowest = minPid? T) → Recycled (lookOf T) me →
    (parent c ps T me).2.2 = .nsp me.pid ∧ (parents c ps T me).2 = .nsp me.pid

/-- psutil before d7107b4 (what-if): every repair of this property except the identity check before the
    lowest-PID stop -/
def asFoundCfg : Cfg := { fixedCfg with rootGuarded := false }

/-- the object was built for (PID 2, start 10); PID 2 now belongs to a process started at 15 and is the lowest
    listed PID -/
def tRootRecycled : Table := [⟨2, 0, 15⟩, ⟨6, 2, 20⟩]

/-- **C05_recycled_lowest_pid_counterexample.** WHAT-IF (the code before d7107b4): with the unguarded stop the full
    statement is FALSE: on the 2-row witness `parent()` answers None and `parents()` `[]` for the recycled caller
    (while `children()` of the same object raises NoSuchProcess(2)); with the guarded stop — the code as it is —
    both raise. The witness is replayed on the real code on every run (corpus `recycled-lowest-pid`: now
    NoSuchProcess(2); on a tree with the fix reverted the check exits 1 on it). -/
theorem C05_recycled_lowest_pid_counterexample :
    Recycled (lookOf tRootRecycled) ⟨2, 10, false, false⟩
    ∧ (parent asFoundCfg ⟨none⟩ tRootRecycled ⟨2, 10, false, false⟩).2.2 = .ok none
    ∧ (parents asFoundCfg ⟨none⟩ tRootRecycled ⟨2, 10, false, false⟩).2 = .ok []
    ∧ (children asFoundCfg ⟨2, 10, false, false⟩ false (lookOf tRootRecycled) (ppidMap tRootRecycled)
        (lookOf tRootRecycled)).2 = .nsp 2
    ∧ (parent fixedCfg ⟨none⟩ tRootRecycled ⟨2, 10, false, false⟩).2.2 = .nsp 2
    ∧ (parents fixedCfg ⟨none⟩ tRootRecycled ⟨2, 10, false, false⟩).2 = .nsp 2
    ∧ ¬ C05_recycled_caller_NSP_parent_Full asFoundCfg := by
  have hrec : Recycled (lookOf tRootRecycled) ⟨2, 10, false, false⟩ := ⟨15, by decide, by decide⟩
  have hp : (parent asFoundCfg ⟨none⟩ tRootRecycled ⟨2, 10, false, false⟩).2.2 = .ok none := by decide
  refine ⟨hrec, hp, by decide, by decide, by decide, by decide, ?_⟩
  intro hf
  have := (hf ⟨none⟩ tRootRecycled ⟨2, 10, false, false⟩ (Or.inl rfl) hrec).1
  rw [hp] at this
  cases this

/-- WHAT-IF, for EVERY configuration: a lowest-PID stop without the identity check refutes the full statement
    (why the fact `rootGuarded` matters; `cfg` itself is guarded: `cfg_root_guarded`) -/
theorem C05_recycled_lowest_pid_unguarded (c : Cfg) (hl : c.lowestStop = true) (h : c.rootGuarded = false) :
    ¬ C05_recycled_caller_NSP_parent_Full c := by
  intro hf
  have hrec : Recycled (lookOf tRootRecycled) ⟨2, 10, false, false⟩ := ⟨15, by decide, by decide⟩
  have h1 := (hf ⟨none⟩ tRootRecycled ⟨2, 10, false, false⟩ (Or.inl rfl) hrec).1
  have h2 : (parent c ⟨none⟩ tRootRecycled ⟨2, 10, false, false⟩).2.2 = .ok none := by
    unfold parent
    simp [hl, h, lowestPid, minPid?, tRootRecycled, Table.pids]
  rw [h2] at h1
  cases h1

/-- **C05_recycled_caller_NSP_parent_repaired.** With the guarded stop the last clause of the statement holds at
    FULL strength for `parent()` and `parents()`: every recycled caller, the lowest PID included (the conditional
    form; `cfg_root_guarded` below discharges the hypothesis for the code as it is). -/
theorem C05_recycled_caller_NSP_parent_repaired (h : cfg.rootGuarded = true) :
    C05_recycled_caller_NSP_parent_Full cfg :=
  fun ps T me hfresh hrec => C05_recycled_caller_NSP_parent ps T me hfresh (Or.inr h) hrec

/-- obligation on the fact `rootGuarded` (landed as /repo d7107b4): the lowest-PID stop of `parent()` runs
    `self._raise_if_pid_reused()` before it answers None — breaks when the guard is dropped or moved -/
theorem cfg_root_guarded : cfg.rootGuarded = true := by decide

/-- **C05_recycled_caller_NSP_parent_full.** The code as it is: "all of these raise NoSuchProcess when the caller's
    own PID has been recycled" for `parent()` and `parents()` at FULL strength — every recycled caller, the lowest
    listed PID included, no proviso. -/
theorem C05_recycled_caller_NSP_parent_full : C05_recycled_caller_NSP_parent_Full cfg :=
  C05_recycled_caller_NSP_parent_repaired cfg_root_guarded

/-- the same in the richer world: with the guarded stop a caller that is dead at the identity check gets
    NoSuchProcess from `parent()` and `parents()` whatever its PID and whatever the worlds show -/
theorem C05_dead_caller_NSP_X_parent_repaired (h : cfg.rootGuarded = true) (fuel : Nat) (ps : Ps) (W : Nat → PStep)
    (me : Caller) (os : Oneshot) (low : Nat) (hlow : lowestPidX ps (W 0).listing = (⟨some low⟩, some low))
    (hos : ∀ pp, os ≠ some (some pp)) (hr : me.reused = false) (hgone : me.gone = false)
    (hdead : ¬ SameAt (W 0) me.pid me.ctime) :
    (parentX cfg ps (W 0) me os).2.2.2 = .nsp me.pid ∧ (parentsX cfg (fuel + 1) ps W me os).2 = .nsp me.pid :=
  ⟨C05_parent_dyn_dead_NSP ps (W 0) me os low hlow hos hr hgone (Or.inr h) hdead,
   C05_parents_dyn_dead_NSP fuel ps W me os low hlow hos hr hgone (Or.inr h) hdead⟩

/-- **C05_dead_caller_NSP_X_parent_full.** The code as it is, richer world: a caller dead at the identity check
    (exited, recycled, or its PID's new owner unreadable) gets NoSuchProcess from `parent()` and `parents()`
    WHATEVER its PID — the lowest listed one included — and whatever the worlds show. -/
theorem C05_dead_caller_NSP_X_parent_full (fuel : Nat) (ps : Ps) (W : Nat → PStep)
    (me : Caller) (os : Oneshot) (low : Nat) (hlow : lowestPidX ps (W 0).listing = (⟨some low⟩, some low))
    (hos : ∀ pp, os ≠ some (some pp)) (hr : me.reused = false) (hgone : me.gone = false)
    (hdead : ¬ SameAt (W 0) me.pid me.ctime) :
    (parentX cfg ps (W 0) me os).2.2.2 = .nsp me.pid ∧ (parentsX cfg (fuel + 1) ps W me os).2 = .nsp me.pid :=
  C05_dead_caller_NSP_X_parent_repaired cfg_root_guarded fuel ps W me os low hlow hos hr hgone hdead

/-! ### (a') the literal reading of `parent()` / `parents()`: no lowest-PID rule in the statement

  `parentOf`/`Chain`/`parentOfW`/`chainDyn` — what `C05_parent_spec`, `C05_parents_chain`, `C05_parents_dyn_spec`
  equate the code with — contain psutil's lowest-PID stop and are therefore CHARACTERISATIONS of the code. The
  statement itself ("the process named by ppid() unless that PID now belongs to a younger process") is
  `parentLit`/`ChainLit`/`parentLitW`/`chainLitDyn`. They agree exactly when the lowest listed PID shows no parent
  (`RootParentless`: init with ppid 0 — every table a kernel shows without hidepid); on the rest the code answers
  None where the statement names a process: known finding **C05-lowest-pid-parent** (no small safe repair: the stop
  is what keeps PID 0 from being its own parent on other platforms). -/

/-- **C05_parent_literal.** `parent()` is the literal `parentLit` for every live caller that is not the lowest
    listed PID, and for the lowest one too when it shows no parent. -/
theorem C05_parent_literal (ps : Ps) (T : Table) (me : Caller)
    (hfresh : ps.lowest = none ∨ ps.lowest = minPid? T) (hr : me.reused = false)
    (hgone : me.gone = false) (hl : lookOf T me.pid = some me.ctime)
    (hroot : isRoot T me.pid = false ∨ RootParentless T) :
    (parent cfg ps T me).2.2 = .ok (parentLit T me.pid me.ctime) := by
  rw [C05_parent_spec ps T me hfresh hr hgone hl]
  rcases hroot with h | h
  · rw [parentOf_eq_lit_of_not_root h]
  · rw [parentOf_eq_lit h hl]

/-- **C05_parents_literal.** On a table whose lowest PID shows no parent, `parents()` is the literal chain: `parentLit`
    iterated until there is no parent (or a PID repeats) — for ANY parent links otherwise. -/
theorem C05_parents_literal (ps : Ps) (T : Table) (me : Caller)
    (hfresh : ps.lowest = none ∨ ps.lowest = minPid? T) (hr : me.reused = false)
    (hgone : me.gone = false) (hl : lookOf T me.pid = some me.ctime) (hR : RootParentless T) :
    ∃ l, (parents cfg ps T me).2 = .ok l ∧ ChainLit T [me.pid] me.pid me.ctime l := by
  obtain ⟨l, h1, h2⟩ := C05_parents_chain ps T me hfresh hr hgone hl
  exact ⟨l, h1, chain_lit hR h2 hl⟩

/-- the driver's `chainLitList` is the literal chain -/
theorem C05_spec_chainLitList (T : Table) (pid ct : Nat) (l : List Row)
    (h : ChainLit T [pid] pid ct l) : chainLitList T (T.length + 1) [pid] pid ct = l := by
  have hlt : unseenCnt T.pids [pid] < T.length + 1 := by
    have := unseenCnt_le_length T.pids [pid]
    have hlen : T.pids.length = T.length := by simp [Table.pids]
    omega
  exact chainLit_unique (chainLitList_chain T _ _ _ _ hlt) h

/-- the statement without the proviso -/
def C05_parent_literal_Full (c : Cfg) : Prop :=
  ∀ (ps : Ps) (T : Table) (me : Caller), (ps.lowest = none ∨ ps.lowest = minPid? T) → me.reused = false →
    me.gone = false → lookOf T me.pid = some me.ctime → (parent c ps T me).2.2 = .ok (parentLit T me.pid me.ctime)

/-- PID 2 (started at 5) is the lowest listed PID; its parent 3 (started at 1) is listed and older — e.g. under
    hidepid=2, where the lowest VISIBLE PID is an ordinary process whose parent has a higher PID -/
def tRootHasParent : Table := [⟨2, 3, 5⟩, ⟨3, 0, 1⟩, ⟨7, 2, 9⟩]

/-- **C05_lowest_pid_parent_counterexample.** The statement names process 3 as the parent of 2; the code answers
    None (and cuts `parents()` of 7 at 2) — with or without the repair of (a). The rank/`RootParentless`
    hypotheses of the theorems above exclude exactly this. Replayed on the real code (corpus `lowest-pid-has-parent`). -/
theorem C05_lowest_pid_parent_counterexample :
    ¬ RootParentless tRootHasParent
    ∧ parentLit tRootHasParent 2 5 = some ⟨3, 0, 1⟩
    ∧ (parent asFoundCfg ⟨none⟩ tRootHasParent ⟨2, 5, false, false⟩).2.2 = .ok none
    ∧ (parent fixedCfg ⟨none⟩ tRootHasParent ⟨2, 5, false, false⟩).2.2 = .ok none
    ∧ (parents fixedCfg ⟨none⟩ tRootHasParent ⟨7, 9, false, false⟩).2 = .ok [⟨2, 3, 5⟩]
    ∧ chainLitList tRootHasParent 4 [7] 7 9 = [⟨2, 3, 5⟩, ⟨3, 0, 1⟩]
    ∧ ¬ C05_parent_literal_Full asFoundCfg ∧ ¬ C05_parent_literal_Full fixedCfg := by
  have h1 : (parent asFoundCfg ⟨none⟩ tRootHasParent ⟨2, 5, false, false⟩).2.2 = .ok none := by decide
  have h2 : (parent fixedCfg ⟨none⟩ tRootHasParent ⟨2, 5, false, false⟩).2.2 = .ok none := by decide
  refine ⟨?_, by decide, h1, h2, by decide, by decide, ?_, ?_⟩
  · intro hR
    have := hR 2 ⟨2, 3, 5⟩ (by decide) (by decide)
    revert this; decide
  · intro hf
    have := hf ⟨none⟩ tRootHasParent ⟨2, 5, false, false⟩ (Or.inl rfl) rfl rfl (by decide)
    rw [h1] at this; revert this; decide
  · intro hf
    have := hf ⟨none⟩ tRootHasParent ⟨2, 5, false, false⟩ (Or.inl rfl) rfl rfl (by decide)
    rw [h2] at this; revert this; decide

/-- `RootParentless` is what ordinary tables look like (init has ppid 0) -/
example : RootParentless docTree := by
  intro m r hm hf
  have : m = 1 := by
    have : minPid? docTree = some 1 := by decide
    rw [this] at hm; exact (Option.some.inj hm).symm
  subst this
  have : r = ⟨1, 0, 0⟩ := by
    have h : docTree.find 1 = some ⟨1, 0, 0⟩ := by decide
    rw [h] at hf; exact (Option.some.inj hf).symm
  subst this
  decide

/-- **C05_parent_dyn_literal.** One `parent()` in ANY three worlds is the literal `parentLitW` unless the caller is
    the lowest PID and that PID shows a parent (or, as found, is dead: (a)). -/
theorem C05_parent_dyn_literal (ps : Ps) (s : PStep) (me : Caller) (os : Oneshot) (low : Nat)
    (hlow : lowestPidX ps s.listing = (⟨some low⟩, some low)) (hos : ∀ pp, os ≠ some (some pp))
    (hr : me.reused = false) (hgone : me.gone = false)
    (hroot : me.pid = low → (SameAt s low me.ctime → parentLitW s low me.ctime = .none)
      ∧ (cfg.rootGuarded = false → SameAt s low me.ctime)) :
    (parentX cfg ps s me os).2.2.2 = (parentLitW s me.pid me.ctime).toOut := by
  rw [(parentX_spec cfg cfg_good ps s me os low hlow hos hr hgone).2,
    parentOfW_eq_lit cfg.rootGuarded s low me.pid me.ctime hroot]

/-- **C05_parents_dyn_literal** — COMPLETENESS of `parents()` while the table changes, against a specification
    that is not a copy of the loop's lowest-PID logic: for ANY sequence of worlds in which the lowest PID never
    shows a parent (and, as found, is still itself whenever the chain gets to it), `parents()` is `chainLitDyn`:
    the literal `parent()` iterated — it ends ONLY where the literal parent is None (no listed, not-younger
    parent), at a PID already on the chain, or with NoSuchProcess at an element that is no longer itself. In
    particular it does not end early: a `parents()` that returned a prefix of the chain would disagree. -/
theorem C05_parents_dyn_literal (fuel : Nat) (ps : Ps) (W : Nat → PStep) (me : Caller) (os : Oneshot) (low : Nat)
    (hlow : lowestPidX ps (W 0).listing = (⟨some low⟩, some low)) (hos : ∀ pp, os ≠ some (some pp))
    (hr : me.reused = false) (hgone : me.gone = false)
    (hR : ∀ i ct, SameAt (W i) low ct → parentLitW (W i) low ct = .none)
    (hA : cfg.rootGuarded = false → ∀ i gp st, (W i).wp low = .ok gp st → SameAt (W (i + 1)) low st)
    (h0 : cfg.rootGuarded = false → me.pid = low → SameAt (W 0) low me.ctime) :
    (parentsX cfg fuel ps W me os).2 = chainLitDyn W fuel 0 [me.pid] me.pid me.ctime [] := by
  rw [C05_parents_dyn_spec fuel ps W me os low hlow hos hr hgone]
  exact chainDyn_eq_lit cfg.rootGuarded W low hR hA fuel 0 [me.pid] me.pid me.ctime [] h0

/-- non-vacuity: the three example histories of `parents()` above satisfy the hypotheses (PID 1 has ppid 0, which
    is never listed), and the literal chain is what the code returns -/
example : chainLitDyn (fun _ => stepOfX w0dyn) 6 0 [30] 30 9 [] = .ok [⟨20, 10, 8⟩, ⟨10, 1, 5⟩, ⟨1, 0, 1⟩]
    ∧ chainLitDyn (fun i => if i = 0 then stepOfX w0dyn else stepOfX w1dyn) 6 0 [30] 30 9 [] = .nsp 20 := by
  refine ⟨by decide, by decide⟩

/-! ### (b) sequences of calls on one object

  Until this round every theorem spoke about ONE call on a fresh (or arbitrarily flagged) object. What a
  `psutil.Process` object carries from one call to the next is `Caller` (Model/C05Seq.lean) — provided POSIX
  `ppid()` has no per-object cache and `create_time()` is read once: obligation `ocfg_good`. -/

theorem ocfg_good : ocfg.ppidUncached = true ∧ ocfg.ctimeCached = true := ⟨by decide, by decide⟩

/-- **C05_seq_object_unchanged.** Any history of `is_running()` / `children()` / `parent()` / `parents()` calls, each on
    its own table, during which the incarnation the object was built for keeps its PID, leaves the object exactly
    as it was (flags clean, nothing cached): the hypotheses `me.reused = false`, `me.gone = false` of every
    exactness theorem above are PRESERVED, so those theorems speak about the n-th call as well as about the first —
    whatever the other processes did between the calls (re-parenting, exits, recycled PIDs). -/
theorem C05_seq_object_unchanged (ps : Ps) (me : Caller) (h : List Ev) (hr : me.reused = false)
    (hgone : me.gone = false) (hall : ∀ e ∈ h, Alive (lookOf e.table) me) :
    (afterCalls cfg (ps, me) h).2 = me :=
  afterCalls_alive cfg me hr hgone h ps hall

/-- …for instance: after any such history `children()` is still exactly the child set of the table of THAT call -/
theorem C05_seq_children_exact (ps : Ps) (me : Caller) (h : List Ev) (hr : me.reused = false)
    (hgone : me.gone = false) (hall : ∀ e ∈ h, Alive (lookOf e.table) me)
    (look0 : Look) (pm : PpidMap) (look : Look) (hu : UniquePids pm) (ha : Alive look0 me) :
    ∃ l, (children cfg (afterCalls cfg (ps, me) h).2 false look0 pm look).2 = .ok l
      ∧ IsSetOf l (fun c => Child pm look me.ctime me.pid c ∧ c ≠ me.pid) := by
  rw [C05_seq_object_unchanged ps me h hr hgone hall]
  exact C05_children_exact me look0 pm look hu hr hgone ha

/-- **C05_seq_flags_sound.** The flags are only ever set by a call that saw the incarnation dead: if, starting from a
    clean object, a history ends with `_gone` or `_pid_reused` set, then one of its calls ran on a table in which
    the object's incarnation did not own the PID. (The free booleans `me.gone`/`me.reused` of the single-call
    theorems are therefore never set for a process that has been alive all along.) -/
theorem C05_seq_flags_sound (ps : Ps) (me : Caller) (h : List Ev) (hr : me.reused = false) (hgone : me.gone = false)
    (hflag : (afterCalls cfg (ps, me) h).2.gone = true ∨ (afterCalls cfg (ps, me) h).2.reused = true) :
    ∃ e ∈ h, ¬ Alive (lookOf e.table) me := by
  apply Classical.byContradiction
  intro hno
  have hall : ∀ e ∈ h, Alive (lookOf e.table) me := by
    intro e he
    apply Classical.byContradiction
    intro hna
    exact hno ⟨e, he, hna⟩
  rw [C05_seq_object_unchanged ps me h hr hgone hall, hr, hgone] at hflag
  rcases hflag with h | h <;> cases h

/-- **C05_seq_dead_stays_dead.** Once `children()` (either mode) or `is_running()`… has run on a table in which the
    incarnation was gone or replaced, the object is flagged and EVERY later `children()` raises NoSuchProcess(pid),
    whatever the later tables show — even the same (pid, start time) again. -/
theorem C05_seq_dead_stays_dead (ps : Ps) (me : Caller) (T : Table) (r : Bool) (h2 : List Ev)
    (hr : me.reused = false) (hgone : me.gone = false) (hdead : ¬ Alive (lookOf T) me)
    (r' : Bool) (look0 : Look) (pm : PpidMap) (look : Look) :
    (children cfg (afterCalls cfg (afterCall cfg T (ps, me) (.children r)) h2).2 r' look0 pm look).2 = .nsp me.pid := by
  have hst : (afterCall cfg T (ps, me) (.children r)).2 = (raiseIfPidReused true (lookOf T) me).1 := by
    simp [afterCall, children_state, cfg_good.childrenGuarded, cfg_good.goneRaises]
  have hg : (afterCall cfg T (ps, me) (.children r)).2.gone = true := by
    rw [hst]; exact raise_dead_sets_gone true hr hgone hdead
  have hpid : (afterCall cfg T (ps, me) (.children r)).2.pid = me.pid := by
    rw [hst]; exact raise_pid true (lookOf T) me
  have hfix := afterCalls_flagged cfg (afterCall cfg T (ps, me) (.children r)).2 (Or.inl hg) h2
    (afterCall cfg T (ps, me) (.children r)).1
  rw [show (afterCall cfg T (ps, me) (.children r)) = ((afterCall cfg T (ps, me) (.children r)).1,
    (afterCall cfg T (ps, me) (.children r)).2) from rfl, hfix]
  rw [← hpid]
  exact C05_dead_caller_NSP _ r' look0 pm look (Or.inr (Or.inl hg))

/-- non-vacuity: two calls on one object while PID 5 lives (re-parented in between) leave it unchanged; a call on a
    table without its incarnation flags it, and a later table that shows (5, start 10) again does not revive it -/
example : (afterCalls cfg (⟨none⟩, ⟨5, 10, false, false⟩)
      [⟨[⟨1, 0, 1⟩, ⟨5, 1, 10⟩, ⟨6, 5, 20⟩], .parent⟩, ⟨[⟨1, 0, 1⟩, ⟨4, 1, 2⟩, ⟨5, 4, 10⟩], .children true⟩]).2
      = ⟨5, 10, false, false⟩
    ∧ (children cfg (afterCalls cfg (⟨none⟩, ⟨5, 10, false, false⟩) [⟨[⟨1, 0, 1⟩, ⟨6, 5, 20⟩], .children false⟩]).2
        false (lookOf [⟨1, 0, 1⟩, ⟨5, 1, 10⟩, ⟨6, 5, 20⟩]) (ppidMap [⟨1, 0, 1⟩, ⟨5, 1, 10⟩, ⟨6, 5, 20⟩])
        (lookOf [⟨1, 0, 1⟩, ⟨5, 1, 10⟩, ⟨6, 5, 20⟩])).2 = .nsp 5 := by
  refine ⟨by decide, by decide⟩

/-! ### (c) result ORDER

  Neither the statement nor the documentation promises an order for `children()` (docs/index.rst shows a
  "pseudo code example"; its `B, X, Y, C, D` is NOT what the code returns, see below), so the specification is a
  set. As a characterisation of the code — compared UNSORTED with the real result by the harness since this
  round — the order is: non-recursive = the order of `ppid_map()` (the listing); recursive = the walk's (children
  of a node together, last child expanded first). `parents()` is ordered by definition (nearest first: `Chain`). -/

/-- **C05_children_order_flat.** As a LIST the non-recursive result of a live caller is `childList`: the spec-side
    filter of the links in the order `ppid_map()` produced them. -/
theorem C05_children_order_flat (me : Caller) (look0 : Look) (pm : PpidMap) (look : Look)
    (hr : me.reused = false) (hgone : me.gone = false) (ha : Alive look0 me) :
    (children cfg me false look0 pm look).2 = .ok (childList pm look me.ctime me.pid) := by
  rw [children_flat_good cfg cfg_good me look0 pm look (raise_false true hr hgone ha)]
  congr 1
  unfold kids goodMap kidsOf childList
  rw [List.filter_map, List.filter_filter, List.filter_filter]
  congr 1
  apply List.filter_congr
  intro e _
  by_cases h1 : e.2 = me.pid
  · by_cases h2 : e.1 = me.pid
    · simp [h1, h2]
    · simp [h1, h2, Function.comp, accepted, childOk, Cmp.eval]
      cases look e.1 <;> simp [Bool.and_comm]
  · have h1' : (e.2 == me.pid) = false := by simpa using h1
    simp [h1']

/-- **C05_children_order_docstring.** On the tree of the docstring (A=10, B=11, X=12, Y=13, C=14, D=15) the code
    returns B, C, D, X, Y — not the `B, X, Y, C, D` of the pseudo-code example; as sets they are equal, which is
    all the property claims. -/
theorem C05_children_order_docstring :
    (children cfg ⟨10, 5, false, false⟩ true (lookOf docTree) (ppidMap docTree) (lookOf docTree)).2
      = .ok [11, 14, 15, 12, 13]
    ∧ [11, 14, 15, 12, 13] ≠ [11, 12, 13, 14, 15]
    ∧ ∀ x, x ∈ [11, 14, 15, 12, 13] ↔ x ∈ [11, 12, 13, 14, 15] := by
  refine ⟨by decide, by decide, ?_⟩
  intro x
  simp only [List.mem_cons, List.mem_nil_iff, or_false]
  omega

/-! ### (d) the guard `_raise_if_pid_reused()`: why deleting its `not` changes nothing C05 can see

  `if self._pid_reused or (not self.is_running() and self._pid_reused): raise …` followed by `if self._gone: raise …`.
  A callee mutation sweep deleted the `not` and the check stayed green. It is an equivalent mutant for this property:
  `is_running()` sets `_gone` whenever it sets `_pid_reused`, so the `_gone` test (fact `goneRaises`, fix 7deac49)
  raises NoSuchProcess(pid) on the very same first call. Without that test the mutant IS visible. -/

/-- the guard with the `not` deleted -/
def raiseIfPidReusedNoNot (goneRaises : Bool) (look : Look) (me : Caller) : Caller × Bool :=
  if me.reused then (me, true)
  else
    let r := isRunning look me
    if r.2 && r.1.reused then (r.1, true)
    else (r.1, goneRaises && r.1.gone)

/-- **C05_guard_not_redundant.** With the `_gone` test both guards leave the same object and raise in exactly the
    same cases — for every world and every object state; without it the first call on a recycled handle gets through. -/
theorem C05_guard_not_redundant (look : Look) (me : Caller) :
    raiseIfPidReusedNoNot true look me = raiseIfPidReused true look me := by
  unfold raiseIfPidReusedNoNot raiseIfPidReused isRunning
  cases hre : me.reused <;> cases hg : me.gone <;> simp [hre]
  cases look me.pid with
  | none => simp
  | some s => by_cases h : s = me.ctime <;> simp [h, hre]

theorem C05_guard_not_matters_without_gone_test :
    (raiseIfPidReused false (lookOf [⟨1, 0, 1⟩, ⟨5, 1, 15⟩]) ⟨5, 10, false, false⟩).2 = true
    ∧ (raiseIfPidReusedNoNot false (lookOf [⟨1, 0, 1⟩, ⟨5, 1, 15⟩]) ⟨5, 10, false, false⟩).2 = false := by
  refine ⟨by decide, by decide⟩

/-! ## Seeded round 5: the MAGNITUDE of a PID — the range gate of `Process(pid)`

  Every look-up the tree walkers make through a new `Process` object passes `Process._init()`'s range check
  (`cext.check_pid_range(pid)`: OverflowError → NoSuchProcess) before any file is read (Model/C05Range.lean). The
  statement quantifies over EVERY process table: the listed PIDs may lie anywhere in the kernel's range
  `[0, PID_MAX_LIMIT)` (Spec/C05Range.lean: 2^22 on 64-bit Linux). `rcfg` carries the three translator facts about the gate
  (`checkPidRangeLimit`, `checkPidRangeShapeKnown` from psutil/_psutil_common.c, `initRangeOnlyC` from `Process._init()`); the obligation
  `rcfg_good` says the gate refuses nothing below PID_MAX_LIMIT. Under it the gated walkers ARE the walkers of the
  earlier sections on every table of that range (`C05_range_*_refines`), so each clause of the statement holds for
  PIDs of any magnitude (`C05_range_children_exact`, `…_rec_exact`, `C05_range_parent_spec`, `C05_range_parents_chain`,
  `C05_range_listed_opens`); a gate with a smaller limit breaks every one of them (`C05_range_limit_necessary`,
  `C05_range_small_limit_counterexample`: seeded change C05-7). -/

/-- **rcfg_good** (proof obligation on the facts `checkPidRangeLimit`, `checkPidRangeShapeKnown`, `initRangeOnlyC`):
    `Process(pid)` refuses no PID the kernel can hand out. Breaks when the C helper starts refusing PIDs below 2^22, when it
    (or `Process._init()`) uses `pid` in a way the translator does not know, or when `_init()` grows a refusal of its own. -/
theorem rcfg_good : rcfg.Good := ⟨by decide, by decide, by decide⟩

/-- **C05_range_gate_transparent.** For ANY gate whose limit is not below PID_MAX_LIMIT, a world that shows processes
    only at PIDs the kernel can hand out looks the same through the gate. -/
theorem C05_range_gate_transparent (rc : RCfg) (hrc : pidMaxLimit ≤ rc.limit) :
    (∀ look, InRangeL pidMaxLimit look → ctorLook rc look = look)
      ∧ (∀ w, InRangeW pidMaxLimit w → ctorW rc w = w)
      ∧ (∀ s, InRangeS pidMaxLimit s → s.gated rc = s) :=
  ⟨fun _ h => ctorLook_eq (InRangeL.mono h hrc), fun _ h => ctorW_eq (InRangeW.mono h hrc), fun _ h => gated_eq (InRangeS.mono h hrc)⟩

/-- **C05_range_listed_opens.** Every listed process of a table in the kernel's PID range — whatever the magnitude of
    its PID — can be opened: `Process(pid)` succeeds and describes the listed incarnation. -/
theorem C05_range_listed_opens (T : Table) (hT : T.pids.Nodup) (hin : PidsInRange T) (r : Row) (hr : r ∈ T) :
    mkProcessR rcfg (lookOf T) r.pid = .ok ⟨r.pid, r.start, false, false⟩ := by
  rw [mkProcessR_eq (InRangeL.mono (inRangeL_lookOf hin) rcfg_good.limit)]
  unfold mkProcess
  rw [lookOf_listed hT hr]

/-- **C05_range_children_refines.** In worlds of the kernel's PID range the gated `children()` is `children()` of the
    earlier sections — plain model (any ppid map, any look-up world) and richer world alike, both modes. -/
theorem C05_range_children_refines (me : Caller) (recursive : Bool) :
    (∀ look0 pm look, InRangeL pidMaxLimit look0 → InRangeL pidMaxLimit look →
        childrenR rcfg cfg me recursive look0 pm look = children cfg me recursive look0 pm look)
      ∧ (∀ L w0 wl, InRangeW pidMaxLimit w0 → InRangeW pidMaxLimit wl →
        childrenXR rcfg xcfg me recursive L w0 wl = childrenX xcfg me recursive L w0 wl) :=
  ⟨fun _ pm _ h0 h => childrenR_eq (InRangeL.mono h0 rcfg_good.limit) (InRangeL.mono h rcfg_good.limit) cfg me recursive pm,
   fun L _ _ h0 h => childrenXR_eq (InRangeW.mono h0 rcfg_good.limit) (InRangeW.mono h rcfg_good.limit) xcfg me recursive L⟩

/-- **C05_range_parents_refines.** The same for `parent()` and `parents()`: any sequence of worlds of the kernel's PID
    range (ancestors exiting, recycled, re-parented between the steps), any oneshot state. -/
theorem C05_range_parents_refines (ps : Ps) (me : Caller) (os : Oneshot) :
    (∀ s, InRangeS pidMaxLimit s → parentXR rcfg cfg ps s me os = parentX cfg ps s me os)
      ∧ (∀ fuel W, (∀ i, InRangeS pidMaxLimit (W i)) → parentsXR rcfg cfg fuel ps W me os = parentsX cfg fuel ps W me os) :=
  ⟨fun _ h => parentXR_eq (InRangeS.mono h rcfg_good.limit) cfg ps me os,
   fun fuel _ h => parentsXR_eq (fun i => InRangeS.mono (h i) rcfg_good.limit) cfg fuel ps me os⟩

/-- **C05_range_children_exact.** On ANY process table whose PIDs lie anywhere in the kernel's range (unique, any
    parent links, any start times) `children()` — every child looked up through `Process(pid)` and its range check —
    is exactly the set of rows whose ppid is the caller and that did not start before it, each once, never the caller. -/
theorem C05_range_children_exact (T : Table) (hT : T.pids.Nodup) (hin : PidsInRange T) (me : Caller)
    (hr : me.reused = false) (hgone : me.gone = false) (ha : Alive (lookOf T) me) :
    ∃ l, (childrenR rcfg cfg me false (lookOf T) (ppidMap T) (lookOf T)).2 = .ok l
      ∧ IsSetOf l (fun c => ∃ r, ChildT T me.pid me.ctime r ∧ r.pid = c ∧ c ≠ me.pid) := by
  rw [(C05_range_children_refines me false).1 _ _ _ (inRangeL_lookOf hin) (inRangeL_lookOf hin)]
  exact C05_children_table T hT me hr hgone ha

/-- **C05_range_children_rec_exact.** …and `children(recursive=True)` exactly the processes reachable through parent
    links (`Desc`), each once, minus the caller — a child with a seven-digit PID carries its whole subtree. The look-up
    world `look` may differ from the table (processes vanishing while the tree is walked) as long as it stays in range. -/
theorem C05_range_children_rec_exact (T : Table) (hT : T.pids.Nodup) (hin : PidsInRange T) (look : Look)
    (hlook : InRangeL pidMaxLimit look) (me : Caller)
    (hr : me.reused = false) (hgone : me.gone = false) (ha : Alive (lookOf T) me) :
    ∃ l, (childrenR rcfg cfg me true (lookOf T) (ppidMap T) look).2 = .ok l
      ∧ IsSetOf l (fun c => Desc (ppidMap T) look me.ctime me.pid c ∧ c ≠ me.pid) := by
  rw [(C05_range_children_refines me true).1 _ _ _ (inRangeL_lookOf hin) hlook]
  exact C05_children_rec_exact me (lookOf T) (ppidMap T) look (uniquePids_ppidMap hT) hr hgone ha

/-- **C05_range_parent_spec.** `parent()` on a table of the kernel's PID range, the parent looked up through
    `Process(ppid)` and its range check: the process named by ppid() unless younger (psutil's reading `parentOf`). -/
theorem C05_range_parent_spec (ps : Ps) (T : Table) (hin : PidsInRange T) (me : Caller)
    (hfresh : ps.lowest = none ∨ ps.lowest = minPid? T) (hr : me.reused = false)
    (hgone : me.gone = false) (hl : lookOf T me.pid = some me.ctime) :
    (parentXR rcfg cfg ps (stepOfX (Table.toX T)) me none).2.2.2 = .ok (parentOf T me.pid me.ctime) := by
  rw [(C05_range_parents_refines ps me none).1 _ (inRangeS_stepOfX (toX_bound hin))]
  have h := (C05_static_parent_refines cfg ps (Table.toX T) (toX_readable T) me none (by intro pp h; cases h)).2.2
  rw [h, toX_plain, C05_parent_spec ps T me hfresh hr hgone hl]
  rfl

/-- **C05_range_parents_chain.** `parents()` likewise: the `Chain` of the table, whatever the magnitude of the PIDs on it. -/
theorem C05_range_parents_chain (ps : Ps) (T : Table) (hin : PidsInRange T) (me : Caller)
    (hfresh : ps.lowest = none ∨ ps.lowest = minPid? T) (hr : me.reused = false)
    (hgone : me.gone = false) (hl : lookOf T me.pid = some me.ctime) :
    ∃ l, (parentsXR rcfg cfg (parentsFuel T) ps (fun _ => stepOfX (Table.toX T)) me none).2 = .ok l
      ∧ Chain T [me.pid] me.pid me.ctime l := by
  rw [(C05_range_parents_refines ps me none).2 _ _ (fun _ => inRangeS_stepOfX (toX_bound hin))]
  have h := C05_static_parents_chain ps (Table.toX T) (toX_readable T) me (by rw [toX_plain]; exact hfresh) hr hgone
    (by rw [toX_plain]; exact hl)
  rw [toX_plain] at h
  exact h

/-- **C05_range_limit_necessary.** The obligation is sharp: ANY gate whose limit lies below PID_MAX_LIMIT refuses a
    process the kernel can show — a one-row table in range whose only process cannot be opened (`NoSuchProcess`). -/
theorem C05_range_limit_necessary (rc : RCfg) (h : rc.limit < pidMaxLimit) :
    ∃ T : Table, PidsInRange T ∧ T.pids.Nodup ∧ ∃ r ∈ T, mkProcessR rc (lookOf T) r.pid = .nsp r.pid := by
  refine ⟨[⟨rc.limit, 0, 0⟩], ?_, by simp [Table.pids], ⟨rc.limit, 0, 0⟩, List.mem_cons_self .., ?_⟩
  · intro r hr
    rw [List.mem_singleton] at hr
    subst hr
    exact h
  · exact mkProcessR_refused rc _ _ (Nat.le_refl _)

/-- the gate of seeded change C05-7: the C helper refuses every PID from 0x40000 = 262144 on -/
def smallGate : RCfg := ⟨262144, true, true⟩

/-- caller 1000 with children 1001 and 300000; 1500 hangs below 300000; 1600's parent is 300000 -/
def tBigPid : Table := [⟨1, 0, 1⟩, ⟨1000, 1, 10⟩, ⟨1001, 1000, 20⟩, ⟨300000, 1000, 23⟩, ⟨1500, 300000, 30⟩]

/-- **C05_range_small_limit_counterexample** (seeded C05-7). With the gate at 262144 the table `tBigPid` — all PIDs
    below PID_MAX_LIMIT — breaks three clauses at once: `children()` of 1000 loses the listed child 300000,
    `children(recursive=True)` loses it AND its subtree (1500, a small PID), `parent()` of 1500 answers None although its
    parent 300000 is listed and older, `parents()` of 1500 is empty; the gate of the current source (`rcfg`) gives the
    values of the statement. -/
theorem C05_range_small_limit_counterexample :
    PidsInRange tBigPid
      ∧ (childrenR smallGate cfg ⟨1000, 10, false, false⟩ false (lookOf tBigPid) (ppidMap tBigPid) (lookOf tBigPid)).2 = .ok [1001]
      ∧ (childrenR smallGate cfg ⟨1000, 10, false, false⟩ true (lookOf tBigPid) (ppidMap tBigPid) (lookOf tBigPid)).2 = .ok [1001]
      ∧ (parentXR smallGate cfg ⟨none⟩ (stepOfX (Table.toX tBigPid)) ⟨1500, 30, false, false⟩ none).2.2.2 = .ok none
      ∧ (parentsXR smallGate cfg 7 ⟨none⟩ (fun _ => stepOfX (Table.toX tBigPid)) ⟨1500, 30, false, false⟩ none).2 = .ok []
      ∧ mkProcessR smallGate (lookOf tBigPid) 300000 = .nsp 300000
      ∧ (childrenR rcfg cfg ⟨1000, 10, false, false⟩ false (lookOf tBigPid) (ppidMap tBigPid) (lookOf tBigPid)).2 = .ok [1001, 300000]
      ∧ (childrenR rcfg cfg ⟨1000, 10, false, false⟩ true (lookOf tBigPid) (ppidMap tBigPid) (lookOf tBigPid)).2
          = .ok [1001, 300000, 1500]
      ∧ (parentXR rcfg cfg ⟨none⟩ (stepOfX (Table.toX tBigPid)) ⟨1500, 30, false, false⟩ none).2.2.2 = .ok (some ⟨300000, 1000, 23⟩)
      ∧ (parentsXR rcfg cfg 7 ⟨none⟩ (fun _ => stepOfX (Table.toX tBigPid)) ⟨1500, 30, false, false⟩ none).2
          = .ok [⟨300000, 1000, 23⟩, ⟨1000, 1, 10⟩, ⟨1, 0, 1⟩] := by
  refine ⟨by show ∀ r ∈ tBigPid, r.pid < pidMaxLimit; decide, by decide, by decide, by decide, by decide, by decide, by decide, by decide, by decide, by decide⟩


end Psutil.C05
