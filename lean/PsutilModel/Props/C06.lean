/-
  Props/C06.lean — property theorems for C06: per-process kernel facts are exact, whatever
  bytes the process name contains. Only statements the property makes; helper lemmas live in
  Proofs/C06*.lean.

  `cfg` is built from Generated/C06.lean, which the translator rewrites from /repo's source on
  every run. `cfg_good` is the proof obligation that breaks when an index, a find/rfind
  choice, a regex key or its anchoring, or the open mode of the status file changes.
-/
import PsutilModel.Proofs.C06
import PsutilModel.Proofs.C06Status
import PsutilModel.Proofs.C06Ctx
import PsutilModel.Proofs.C06Witness
import PsutilModel.Proofs.C06Ext
import PsutilModel.Proofs.C06Name
import PsutilModel.Proofs.C06Hist
import Mathlib.Tactic.NormNum
import PsutilModel.Model.C06Gen
deriving instance DecidableEq for Except

namespace Psutil.C06
open Spec

theorem cfg_good : cfg.Good := by
  constructor <;> decide

/-- the facts about the code AROUND the parsers (`_psposix.get_terminal_map`, `_pslinux.boot_time`,
    `Process.create_time`, the loop of `Process.threads`, the public `Process.name`) -/
theorem xcfg_good : xcfg.Good := by
  refine { toGoodBase := ?_, tmapChecksChr := by decide, createBoot := by decide }
  constructor <;> decide

/-- the `S_ISCHR` test is in the code (fix 9df9f82) -/
theorem cfg_tmap_checks_chr : xcfg.tmapChecksChr = true := xcfg_good.tmapChecksChr

/-- create_time() says `bt = BOOT_TIME if BOOT_TIME is not None else boot_time()` (fix 29257b1): the translator
    reports exactly that shape — not `BOOT_TIME or boot_time()`, not a bare `boot_time()`, not anything it
    does not know -/
theorem cfg_create_boot_is_not_none : Gen.C06.createBoot = "isNotNone" ∧ xcfg.createBoot = .isNotNone :=
  ⟨by decide, xcfg_good.createBoot⟩

/-- The four status regexes, byte for byte, as the imported module compiled them:
    `(?m)^Uid:\t(\d+)\t(\d+)\t(\d+)`, `(?m)^Gid:…`, `(?m)^Threads:\t(\d+)`, `ctxt_switches:\t(\d+)`.
    ANY edit of a pattern (a relaxed separator such as `\s*`, a dropped anchor, another digit
    class) breaks this obligation even when the translator cannot put the new pattern into the
    structural form the model understands. -/
theorem cfg_status_patterns :
    Gen.C06.uidPatternSrc = [40, 63, 109, 41, 94] ++ keyUid ++ [58] ++ [92, 116, 40, 92, 100, 43, 41, 92, 116, 40, 92, 100, 43, 41, 92, 116, 40, 92, 100, 43, 41]
    ∧ Gen.C06.gidPatternSrc = [40, 63, 109, 41, 94] ++ keyGid ++ [58] ++ [92, 116, 40, 92, 100, 43, 41, 92, 116, 40, 92, 100, 43, 41, 92, 116, 40, 92, 100, 43, 41]
    ∧ Gen.C06.thrPatternSrc = [40, 63, 109, 41, 94] ++ keyThreads ++ [58] ++ [92, 116, 40, 92, 100, 43, 41]
    ∧ Gen.C06.ctxPatternSrc = ctxWord ++ [58] ++ [92, 116, 40, 92, 100, 43, 41] := by decide

/-- Anchors that are not literals of the model but DEFINING EXPRESSIONS in the source, pinned by their
    text: the tick rate is the system's (`CLOCK_TICKS = os.sysconf('SC_CLK_TCK')`, assigned exactly once
    at module level); an entry enters the terminal map under the single condition
    `stat.S_ISCHR(st.st_mode)` (so `… or stat.S_ISDIR(…)` breaks this); the public `name()` replaces the
    kernel name only under `len(bname) >= 15`, a non-empty cmdline and the prefix test, by
    `os.path.basename(cmdline[0])`; the four status regexes carry no flag besides `(?m)`. -/
theorem cfg_source_anchors :
    Gen.C06.clockTicksExpr = "os.sysconf('SC_CLK_TCK')"
    ∧ Gen.C06.tmapStoreGuards = ["stat.S_ISCHR(st.st_mode)"]
    ∧ Gen.C06.nameExtendGuards
        = ["POSIX and len(bname) >= 15", "cmdline", "os.fsencode(extended_name).startswith(bname)"]
    ∧ Gen.C06.nameExtendSource = "os.path.basename(cmdline[0])"
    ∧ Gen.C06.statusRegexExtraFlags = [0, 0, 0, 0] := by decide

/-! ## `/proc/<pid>/stat` -/

/-- `_parse_stat_file` inverts the kernel's renderer for EVERY comm byte string (spaces,
    any number of parentheses, newlines, non-UTF-8 bytes, any length), every state letter,
    unbounded counters, with or without the trailing fields. -/
theorem C06_stat_roundtrip (r : StatRec) (hwf : r.WF) :
    parseStat cfg (renderStat r) = .ok (rawView r) :=
  parseStat_render cfg cfg_good r hwf

/-- `name()` is the comm, byte for byte -/
theorem C06_name_exact (r : StatRec) (hwf : r.WF) :
    name cfg (renderStat r) = .ok (Spec.name r) := by
  simp [name, C06_stat_roundtrip r hwf, Except.map, rawView, Spec.name]

/-- `ppid()` -/
theorem C06_ppid_exact (r : StatRec) (hwf : r.WF) :
    ppid cfg (renderStat r) = .ok (Spec.ppid r) := by
  simp [ppid, C06_stat_roundtrip r hwf, bind, Except.bind, rawView, pyInt_renderDec, Spec.ppid]

/-- `cpu_num()` -/
theorem C06_cpu_num_exact (r : StatRec) (hwf : r.WF) :
    cpuNum cfg (renderStat r) = .ok (Spec.cpuNum r) := by
  simp [cpuNum, C06_stat_roundtrip r hwf, bind, Except.bind, rawView, pyInt_renderDec, Spec.cpuNum]

/-- `cpu_times()`: clock ticks divided by the tick rate, for every tick rate > 0 (at 0 the model, like
    the Python, raises ZeroDivisionError: `C06_zero_tick_rate_raises`). Exact RATIONALS: the doubles the
    code computes are within the rounding bound of `C06_tick_quotient_rounding_bound` of these. -/
theorem C06_cpu_times_exact (tck : Nat) (htck : 0 < tck) (r : StatRec) (hwf : r.WF) :
    cpuTimes cfg tck (renderStat r)
      = .ok ⟨(Spec.cpuTimes tck r).user, (Spec.cpuTimes tck r).system,
             (Spec.cpuTimes tck r).childrenUser, (Spec.cpuTimes tck r).childrenSystem,
             (Spec.cpuTimes tck r).iowait⟩ := by
  unfold cpuTimes
  rw [C06_stat_roundtrip r hwf]
  cases ht : r.tail with
  | none =>
    simp [bind, Except.bind, pure, Except.pure, rawView, pyFloat_renderDec, Spec.cpuTimes,
      blkioTicks, ht, pyDiv_pos _ tck htck]
  | some p =>
    obtain ⟨b, more⟩ := p
    simp [bind, Except.bind, pure, Except.pure, rawView, pyFloat_renderDec, Spec.cpuTimes,
      blkioTicks, ht, pyDiv_pos _ tck htck]

/-- old kernels (record ends before `delayacct_blkio_ticks`): everything else is still exact
    and `iowait` is 0 -/
theorem C06_old_kernel_iowait_zero (tck : Nat) (htck : 0 < tck) (r : StatRec) (hwf : r.WF) (hold : r.tail = none) :
    ∃ ct, cpuTimes cfg tck (renderStat r) = .ok ct ∧ ct.iowait = 0
      ∧ ct.user = (r.utime : Rat) / tck ∧ ct.system = (r.stime : Rat) / tck := by
  refine ⟨_, C06_cpu_times_exact tck htck r hwf, ?_, rfl, rfl⟩
  simp [Spec.cpuTimes, blkioTicks, hold, Rat.div_def]

/-- `create_time()`: start time in ticks over the tick rate, offset by the boot time -/
theorem C06_create_time_exact (tck : Nat) (htck : 0 < tck) (btime : Rat) (r : StatRec) (hwf : r.WF) :
    createTime cfg tck btime (renderStat r) = .ok (Spec.createTime tck btime r) := by
  unfold createTime
  rw [C06_stat_roundtrip r hwf]
  simp [bind, Except.bind, pure, Except.pure, rawView, pyFloat_renderDec, Spec.createTime,
    Rat.add_comm, pyDiv_pos _ tck htck]

/-- `terminal()` given the device map as a PARAMETER: only the parse of the tty_nr column is content
    here (model and specification look the number up in the same list); the statement about the map
    itself — what `get_terminal_map()` makes of /dev — is `C06_terminal_map_exact_code`. -/
theorem C06_terminal_exact (tmap : List (Int × Bytes)) (r : StatRec) (hwf : r.WF) :
    terminal cfg tmap (renderStat r) = .ok (Spec.terminal tmap r) := by
  unfold terminal
  rw [C06_stat_roundtrip r hwf]
  simp [bind, Except.bind, pure, Except.pure, rawView, pyInt_renderDec, Spec.terminal]

/-- `PROC_STATUSES` (as extracted from the source) is exactly the documented letter table -/
theorem C06_status_letter_map :
    cfg.statuses = Spec.documentedStatus.map (fun p => ([p.1], p.2)) := by decide

/-- `status()`: the documented constant for a documented letter, `"?"` otherwise — for every
    letter and every record around it -/
theorem C06_status_exact (r : StatRec) (hwf : r.WF) :
    status cfg (renderStat r) = .ok (.str (Spec.status r)) := by
  unfold status
  rw [C06_stat_roundtrip r hwf]
  have hlt : r.state < 128 := by
    have := hwf
    simp only [StatRec.WF, isLetter, Bool.and_eq_true, Bool.or_eq_true, decide_eq_true_eq] at this
    omega
  have hl : ∀ (tbl : List (Nat × String)) (s : Nat),
      (tbl.map (fun p => ([p.1], p.2))).lookup [s] = tbl.lookup s := by
    intro tbl s
    induction tbl with
    | nil => rfl
    | cons a as ih =>
      by_cases h : s = a.1
      · subst h; simp [List.lookup]
      · have h' : ([s] == [a.1]) = false := by simp [h]
        have h'' : (s == a.1) = false := by simp [h]
        simp [List.lookup, h', h'', ih]
  simp [Except.map, rawView, hlt, lookupStatus, C06_status_letter_map, hl, Spec.status]
  rfl

/-- The tick theorems carry `0 < tck` because they NEED it: with a tick rate of 0 every one of these
    getters raises ZeroDivisionError (as `float / 0` does in Python), it does not return 0. -/
theorem C06_zero_tick_rate_raises (r : StatRec) (hwf : r.WF) (b : Rat) :
    cpuTimes cfg 0 (renderStat r) = .error .zeroDivisionError
    ∧ createTime cfg 0 b (renderStat r) = .error .zeroDivisionError
    ∧ threads cfg 0 [(r.pid, renderStat r)] = .error .zeroDivisionError := by
  refine ⟨?_, ?_, ?_⟩
  · unfold cpuTimes
    rw [C06_stat_roundtrip r hwf]
    simp [bind, Except.bind, rawView, pyFloat_renderDec, pyDiv]
  · unfold createTime
    rw [C06_stat_roundtrip r hwf]
    simp [bind, Except.bind, rawView, pyFloat_renderDec, pyDiv]
  · unfold threads threadOne threadValues
    simp only [stripWs_renderStat r hwf, cfg_good.threadsUsesRfind, if_true, thread_values cfg cfg_good r hwf,
      cfg_good.tUtime, cfg_good.tStime]
    simp [statTokens, getField, bind, Except.bind, pyFloat_renderDec, pyDiv]

/-- FLOATS. The theorems above are about exact rationals; the code computes IEEE doubles:
    `float(token) / CLOCK_TICKS` = two correctly rounded operations (the conversion of the decimal
    token, relative error δ₁, and the division, δ₂). For ANY unit round-off `u` bounding both
    (binary64: `u = 2^-53`) the computed quotient is within `(2u + u²)` RELATIVE of the exact
    `ticks / tck` — e.g. 3.85 s at 2^64-1 ticks / 100, which is 2.1e-17 relative. The
    correspondence check uses exactly this bound (not a looser tolerance); that CPython's `float()`
    and `/` are correctly rounded is the explicit assumption. -/
theorem C06_tick_quotient_rounding_bound (ticks tck : Nat) (u d1 d2 : Rat) (h1 : |d1| ≤ u) (h2 : |d2| ≤ u) :
    |(ticks : Rat) * (1 + d1) / tck * (1 + d2) - (ticks : Rat) / tck|
      ≤ (2 * u + u * u) * ((ticks : Rat) / tck) :=
  tick_quotient_rounding ticks tck u d1 d2 h1 h2

/-- … and `create_time()` = `fl(fl(fl(start) / tck) + bt)`, `bt` a whole number of seconds below 2^53
    (exactly representable): three roundings, within `3u + 3u² + u³` relative of `start / tck + bt`. -/
theorem C06_create_time_rounding_bound (start tck : Nat) (b u d1 d2 d3 : Rat) (hb : 0 ≤ b)
    (h1 : |d1| ≤ u) (h2 : |d2| ≤ u) (h3 : |d3| ≤ u) :
    |((start : Rat) * (1 + d1) / tck * (1 + d2) + b) * (1 + d3) - Spec.createTime tck b ⟨0, [], 83, 0, 0, 0, 0, 0, 0, 0, 0, 0, 0, 0, 0, 0, 0, 0, 0, 0, 0, start, 0, 0, 0, 0, 0, 0, 0, 0, 0, 0, 0, 0, 0, 0, 0, 0, 0, 0, 0, none⟩|
      ≤ (3 * u + 3 * (u * u) + u * u * u) * ((start : Rat) / tck + b) := by
  have h := create_time_rounding start tck b u d1 d2 d3 hb h1 h2 h3
  simpa [Spec.createTime, add_comm] using h

/-! ## the public `Process.name()` -/

/-- The public `name()` on top of the platform `name()`: for every comm and every `argv[0]`
    (`none` = empty cmdline, AccessDenied or ZombieProcess from `cmdline()`) the result is the
    documented one — the comm itself, except that a 15-byte (possibly truncated) comm is replaced by
    the last path component of `argv[0]` when that component starts with it. The cmdline FILE is
    parsed by `cmdline()`, which belongs to C12; here `argv[0]` is given. -/
theorem C06_public_name_exact (r : StatRec) (hwf : r.WF) (arg0 : Option ExePath)
    (hp : ∀ p, arg0 = some p → p.WF) :
    (name cfg (renderStat r)).map (fun n => publicName xcfg n (arg0.map ExePath.render))
      = .ok (Spec.publicName r.comm arg0) := by
  rw [C06_name_exact r hwf]
  simp [Except.map, Spec.name, publicName_spec xcfg xcfg_good.toGoodBase r.comm arg0 hp]

/-- the kernel-name clause at the public level: a comm shorter than 15 bytes is returned byte for byte
    WHATEVER the command line is (any bytes as `argv[0]`, no well-formedness needed) -/
theorem C06_public_name_short_is_comm (r : StatRec) (hwf : r.WF) (hlen : r.comm.length < 15)
    (arg0 : Option Bytes) :
    (name cfg (renderStat r)).map (fun n => publicName xcfg n arg0) = .ok r.comm := by
  rw [C06_name_exact r hwf]
  have : ¬ (xcfg.nameExtendMin ≤ r.comm.length) := by
    rw [xcfg_good.nameExtendMin]; simp [commMax]; omega
  simp [Except.map, Spec.name, publicName, this]

/-- … and in every case the kernel name is a prefix of what the public `name()` returns -/
theorem C06_public_name_extends_comm (comm : Bytes) (arg0 : Option ExePath) :
    comm <+: Spec.publicName comm arg0 := by
  unfold Spec.publicName
  cases arg0 with
  | none => exact List.prefix_refl _
  | some p =>
    by_cases h : commMax ≤ comm.length ∧ comm <+: p.base
    · simp [h]
    · simp [h]

/-! ## `threads()` -/

/-- Full statement: every thread's record is read exactly, whatever each thread's name. -/
def ThreadsExact (c : Cfg) : Prop :=
  ∀ (tck : Nat), 0 < tck → ∀ (recs : List StatRec), (∀ r ∈ recs, r.WF) →
    threads c tck (recs.map fun r => (r.pid, renderStat r))
      = .ok (recs.map fun r => ⟨r.pid, (r.utime : Rat) / tck, (r.stime : Rat) / tck⟩)

theorem threads_exact_of_good (c : Cfg) (hg : c.Good) : ThreadsExact c := by
  intro tck htck recs hwf
  induction recs with
  | nil => rfl
  | cons r rs ih =>
    have ih' := ih (fun x hx => hwf x (by simp [hx]))
    simp only [List.map_cons, threads, threadOne_render c hg tck htck r (hwf r (by simp)), ih']
    rfl

/-- `threads()` for any number of threads, each with its own arbitrary name -/
theorem C06_threads_exact : ThreadsExact cfg := threads_exact_of_good cfg cfg_good

/-- the values agree with the promised per-thread view -/
theorem C06_threads_view (tck : Nat) (r : StatRec) :
    (⟨r.pid, (r.utime : Rat) / tck, (r.stime : Rat) / tck⟩ : ThreadOut)
      = ⟨(threadView tck r).id, (threadView tck r).userTime, (threadView tck r).systemTime⟩ := rfl

/-- the namedtuple layouts the correspondence check reads by name -/
theorem C06_tuple_fields :
    Gen.C06.pcputimesFields = ["user", "system", "children_user", "children_system", "iowait"]
    ∧ Gen.C06.pthreadFields = ["id", "user_time", "system_time"] := by decide

/-! ### lead L8: `threads()` with the FIRST `)` (the code before the fix) -/

/-- the model with `st.find(b')')`, every other fact as in the current source -/
def cfgThreadsFind : Cfg := { cfg with threadsUsesRfind := false }

/-- with the first `)`, `values[11]` is the `cmajflt` column ("0"), not utime ("300") -/
theorem witnessThread_misread :
    getField (threadValues cfgThreadsFind (renderStat witnessThread)) cfgThreadsFind.tUtime = .ok [48]
    ∧ getField (threadValues cfgThreadsFind (renderStat witnessThread)) cfgThreadsFind.tStime
        = .ok [51, 48, 48] := by
  rw [witnessThread_bytes]; decide

/-- `threads()` locating the FIRST `)` reports user_time 0.0 / system_time 3.0 for that thread
    instead of 3.0 / 4.0: the full statement is false of that code. -/
theorem C06_threads_first_paren_counterexample : ¬ ThreadsExact cfgThreadsFind := by
  intro h
  have h1 := h 100 (by decide) [witnessThread] (by intro r hr; simp at hr; subst hr; exact witnessThread_wf)
  have p0 : pyInt [48] = .ok 0 := by decide
  have p300 : pyInt [51, 48, 48] = .ok 300 := by decide
  simp only [List.map_cons, List.map_nil, threads, threadOne, witnessThread_misread.1,
    witnessThread_misread.2, pyFloat, p0, p300, bind, Except.bind, pure, Except.pure,
    Except.map, pyDiv_pos _ 100 (by decide), Except.ok.injEq, List.cons.injEq, ThreadOut.mk.injEq] at h1
  have h2 := h1.1.2.1
  simp only [witnessThread] at h2
  norm_num at h2

/-! ## `/proc/<pid>/status` -/

def UidsExact (c : Cfg) : Prop :=
  ∀ r : StatusRec, r.WF → uids c (renderStatus r) = .ok (Spec.uids r)
def GidsExact (c : Cfg) : Prop :=
  ∀ r : StatusRec, r.WF → gids c (renderStatus r) = .ok (Spec.gids r)
def NumThreadsExact (c : Cfg) : Prop :=
  ∀ r : StatusRec, r.WF → numThreads c (renderStatus r) = .ok (Spec.numThreads r)

/-- `uids()`, `gids()`, `num_threads()` return the numbers of the real `Uid:`, `Gid:`, `Threads:`
    lines for EVERY process name (any bytes, any length — the kernel's escaping of `\n` is what
    makes a line start unforgeable) and any set of other lines. -/
theorem C06_status_extract : UidsExact cfg ∧ GidsExact cfg ∧ NumThreadsExact cfg :=
  ⟨fun r h => uids_extract cfg cfg_good r h, fun r h => gids_extract cfg cfg_good r h,
   fun r h => numThreads_extract cfg cfg_good r h⟩

/-- `num_ctx_switches()`: the unanchored `ctxt_switches:\t(\d+)` finds exactly the voluntary and
    the nonvoluntary line, because `ctxt_switches:\t<digit>` (16 bytes, no backslash) fits in no
    name of at most 15 bytes, however the kernel escapes it. -/
theorem C06_ctx_switches_extract (r : StatusRec) (hctx : r.WFCtx) :
    numCtxSwitches cfg (renderStatus r) = .ok (Spec.numCtxSwitches r) :=
  numCtxSwitches_extract cfg cfg_good r hctx

/-! ### lead L18: the unanchored patterns (the code before the fix) -/

def cfgUidUnanchored : Cfg := { cfg with uidAnchored := false }
def cfgGidUnanchored : Cfg := { cfg with gidAnchored := false }
def cfgThrUnanchored : Cfg := { cfg with thrAnchored := false }

/-- a process of uid 1234 NAMED `Uid:\t0\t0\t0` is reported as uid (0, 0, 0) by the unanchored
    pattern: the full statement is false of that code -/
theorem C06_uids_unanchored_counterexample : ¬ UidsExact cfgUidUnanchored := by
  intro h
  have h1 := h (witnessStatus nameUid) (witnessStatus_wf _)
  have h2 : uids cfgUidUnanchored (renderStatus (witnessStatus nameUid)) = .ok (0, 0, 0) := by
    rw [witnessStatus_bytes]; decide
  rw [h2] at h1
  revert h1; decide

theorem C06_gids_unanchored_counterexample : ¬ GidsExact cfgGidUnanchored := by
  intro h
  have h1 := h (witnessStatus nameGid) (witnessStatus_wf _)
  have h2 : gids cfgGidUnanchored (renderStatus (witnessStatus nameGid)) = .ok (0, 0, 0) := by
    rw [witnessStatus_bytes]; decide
  rw [h2] at h1
  revert h1; decide

theorem C06_num_threads_unanchored_counterexample : ¬ NumThreadsExact cfgThrUnanchored := by
  intro h
  have h1 := h (witnessStatus nameThreads) (witnessStatus_wf _)
  have h2 : numThreads cfgThrUnanchored (renderStatus (witnessStatus nameThreads)) = .ok 99 := by
    rw [witnessStatus_bytes]; decide
  rw [h2] at h1
  revert h1; decide

/-- Anchoring alone would not be enough if the status file were read in TEXT mode: universal
    newlines turn a `\r` inside the name into a line start. `a\rUid:\t0\t0\t0` (14 bytes) then
    defeats `(?m)^Uid:`; the binary open mode (`statusBinary`, a translator fact) is part of
    `cfg_good` for this reason. -/
def cfgTextMode : Cfg := { cfg with statusBinary := false }

theorem C06_text_mode_counterexample : ¬ UidsExact cfgTextMode := by
  intro h
  have h1 := h (witnessStatus nameCrUid) (witnessStatus_wf _)
  have h2 : uids cfgTextMode (renderStatus (witnessStatus nameCrUid)) = .ok (0, 0, 0) := by
    rw [witnessStatus_bytes]; decide
  rw [h2] at h1
  revert h1; decide


/-! # The code around the parsers (Model/C06Ext.lean)

  `xcfg` is built from translator facts about `_psposix.get_terminal_map`, `_pslinux.boot_time`,
  `Process.create_time` and the loop of `Process.threads`. -/


/-! ## `terminal()` through the real `get_terminal_map()` -/

/-- the first `terminal()` call of the interpreter scans /dev; its answer and the map it leaves in
    the memo cache are correct for EVERY tty number — provided everything the globs match is a
    device node, or the code tests `S_ISCHR` -/
theorem terminal_first_call (x : XCfg) (hx : x.GoodBase) (listing : List (Bytes × NodeKind)) (r : StatRec)
    (hwf : r.WF) (hdev : x.tmapChecksChr = true ∨ AllDevices listing) :
    ∃ m, terminalCall cfg x none (osView listing) (renderStat r) = (.ok (m.lookup r.ttyNr), some m)
      ∧ ∀ nr, TerminalOk listing nr (m.lookup nr) := by
  obtain ⟨m, hm, hinv⟩ := tmap_inv x hx.tmapSkipsVanished listing [] [] hdev
    (by intro nr; simp [TerminalOk, IsTerminalOf, List.lookup])
  refine ⟨m, ?_, by simpa using hinv⟩
  unfold terminalCall
  rw [C06_stat_roundtrip r hwf]
  simp only [bind, Except.bind, rawView, pyInt_renderDec, hx.tmapMemoized, if_true, hm,
    lookup_tmapToInt]

/-- Full statement: the tty number is mapped to the path of the character device that has it,
    `None` exactly when no listed device has it — for every content of /dev. -/
def TerminalMapExact_Full (x : XCfg) : Prop :=
  ∀ (listing : List (Bytes × NodeKind)) (r : StatRec), r.WF →
    ∃ out c, terminalCall cfg x none (osView listing) (renderStat r) = (.ok out, c)
      ∧ TerminalOk listing r.ttyNr out

/-- `terminal()` over an abstract /dev: whatever the globs list (any order, entries that vanish
    before `os.stat`, several names for one device), the result is the path of a character device
    whose number is the record's tty_nr, and `None` iff there is none. Stated with the disjunctive
    hypothesis so that it also covers the configuration before 9df9f82 (no `S_ISCHR` test: then every
    matched path must be a device node, `AllDevices`); for the code as it is the left disjunct is a
    fact (`cfg_tmap_checks_chr`) and `C06_terminal_map_exact_code` has no hypothesis on /dev. -/
theorem C06_terminal_map_exact (listing : List (Bytes × NodeKind)) (r : StatRec) (hwf : r.WF)
    (hdev : xcfg.tmapChecksChr = true ∨ AllDevices listing) :
    ∃ out c, terminalCall cfg xcfg none (osView listing) (renderStat r) = (.ok out, c)
      ∧ TerminalOk listing r.ttyNr out := by
  obtain ⟨m, h1, h2⟩ := terminal_first_call xcfg xcfg_good.toGoodBase listing r hwf hdev
  exact ⟨_, _, h1, h2 r.ttyNr⟩

/-- a configuration with the `S_ISCHR` test meets the full statement -/
theorem C06_terminal_map_exact_repaired : TerminalMapExact_Full { xcfg with tmapChecksChr := true } := by
  intro listing r hwf
  have hg : ({ xcfg with tmapChecksChr := true } : XCfg).GoodBase := by constructor <;> decide
  obtain ⟨m, h1, h2⟩ := terminal_first_call _ hg listing r hwf (Or.inl rfl)
  exact ⟨_, _, h1, h2 r.ttyNr⟩

/-- THE CODE AS IT IS meets the full statement: for every content of /dev (non-device files
    included, any listing order, vanishing entries, aliases) and every record, the first
    `terminal()` call returns the path of a character device whose number is the tty_nr, `None`
    exactly when there is none. -/
theorem C06_terminal_map_exact_code : TerminalMapExact_Full xcfg := by
  intro listing r hwf
  exact C06_terminal_map_exact listing r hwf (Or.inl cfg_tmap_checks_chr)

/-- a process WITHOUT controlling terminal (tty_nr 0) -/
def witnessNoTty : StatRec := { witnessThread with ttyNr := 0 }
/-- a process on pts/0 (136:0 = 34816) -/
def witnessPts0 : StatRec := { witnessThread with ttyNr := 34816 }
/-- "/dev/ttyX" -/
def pathTtyX : Bytes := [47, 100, 101, 118, 47, 116, 116, 121, 88]
/-- "/dev/pts/0" -/
def pathPts0 : Bytes := [47, 100, 101, 118, 47, 112, 116, 115, 47, 48]

/-- Without the `S_ISCHR` test (the code before 9df9f82) the full statement is false: a REGULAR FILE
    `/dev/ttyX` (st_rdev 0) becomes the "terminal" of every process that has none (tty_nr 0). -/
theorem C06_terminal_nondevice_counterexample :
    ¬ TerminalMapExact_Full { xcfg with tmapChecksChr := false } := by
  intro h
  obtain ⟨out, c, h1, h2⟩ := h [(pathTtyX, NodeKind.other 0)] witnessNoTty witnessThread_wf
  have hcall : terminalCall cfg { xcfg with tmapChecksChr := false }
      none (osView [(pathTtyX, NodeKind.other 0)]) (renderStat witnessNoTty)
      = (.ok (some pathTtyX), some [(0, pathTtyX)]) := by
    unfold terminalCall
    rw [C06_stat_roundtrip witnessNoTty witnessThread_wf]
    simp only [bind, Except.bind, rawView, pyInt_renderDec]
    decide
  rw [hcall] at h1
  simp only [Prod.mk.injEq, Except.ok.injEq] at h1
  rw [← h1.1] at h2
  revert h2
  simp [TerminalOk, IsTerminalOf]

/-- `get_terminal_map` is memoised: once the map exists, `terminal()` answers from it whatever
    /dev looks like now -/
theorem C06_terminal_memoized (m : TMap) (now : List (Bytes × StatOut)) (r : StatRec) (hwf : r.WF) :
    terminalCall cfg xcfg (some m) now (renderStat r) = (.ok (m.lookup r.ttyNr), some m) := by
  unfold terminalCall
  rw [C06_stat_roundtrip r hwf]
  simp only [bind, Except.bind, rawView, pyInt_renderDec, xcfg_good.tmapMemoized, if_true,
    lookup_tmapToInt]

/-- HISTORIES (the property's statement for a long-lived interpreter): every later call is exact
    with respect to the /dev of the FIRST `terminal()` call of this interpreter -/
theorem C06_terminal_first_scan_wins (first now : List (Bytes × NodeKind)) (r0 r1 : StatRec)
    (hwf0 : r0.WF) (hwf1 : r1.WF) (hdev : xcfg.tmapChecksChr = true ∨ AllDevices first) :
    ∃ o0 m, terminalCall cfg xcfg none (osView first) (renderStat r0) = (.ok o0, some m)
      ∧ ∃ o1, terminalCall cfg xcfg (some m) (osView now) (renderStat r1) = (.ok o1, some m)
        ∧ TerminalOk first r1.ttyNr o1 := by
  obtain ⟨m, h1, h2⟩ := terminal_first_call xcfg xcfg_good.toGoodBase first r0 hwf0 hdev
  exact ⟨_, m, h1, _, C06_terminal_memoized m _ r1 hwf1, h2 r1.ttyNr⟩

/-- … and when /dev does not change between the calls, every call is exact for the /dev of its own
    moment: memoisation and re-scanning coincide -/
theorem C06_terminal_unchanged_dev_exact (dev : List (Bytes × NodeKind)) (r0 r1 : StatRec)
    (hwf0 : r0.WF) (hwf1 : r1.WF) :
    ∃ o0 m, terminalCall cfg xcfg none (osView dev) (renderStat r0) = (.ok o0, some m)
      ∧ TerminalOk dev r0.ttyNr o0
      ∧ ∃ o1, terminalCall cfg xcfg (some m) (osView dev) (renderStat r1) = (.ok o1, some m)
        ∧ TerminalOk dev r1.ttyNr o1 := by
  obtain ⟨m, h1, h2⟩ := terminal_first_call xcfg xcfg_good.toGoodBase dev r0 hwf0 (Or.inl cfg_tmap_checks_chr)
  exact ⟨_, m, h1, h2 r0.ttyNr, _, C06_terminal_memoized m _ r1 hwf1, h2 r1.ttyNr⟩

/-- A statement BEYOND the property's quantifier (the property speaks about records read against
    the machine's /dev as the interpreter first saw it): a later call would be exact for the /dev
    of its own moment even after /dev changed. Kept only to characterise the memoisation. -/
def TerminalCurrentTree_Full (x : XCfg) : Prop :=
  ∀ (first now : List (Bytes × NodeKind)) (r0 r1 : StatRec), r0.WF → r1.WF →
    AllDevices first → AllDevices now →
    ∀ o0 c0, terminalCall cfg x none (osView first) (renderStat r0) = (.ok o0, c0) →
      ∃ o1 c1, terminalCall cfg x c0 (osView now) (renderStat r1) = (.ok o1, c1)
        ∧ TerminalOk now r1.ttyNr o1

/-- CHARACTERISATION of `@memoize` on get_terminal_map, by design and not a defect against the
    property: a pty created after the first `terminal()` call of the interpreter is not seen until
    `get_terminal_map.cache_clear()` (first scan: empty /dev/pts; then /dev/pts/0 appears and a
    process runs on it → `None`). -/
theorem C06_terminal_stale_counterexample : ¬ TerminalCurrentTree_Full xcfg := by
  intro h
  have hw : witnessPts0.WF := witnessThread_wf
  have h0 : terminalCall cfg xcfg none (osView []) (renderStat witnessNoTty) = (.ok none, some []) := by
    unfold terminalCall
    rw [C06_stat_roundtrip witnessNoTty witnessThread_wf]
    simp only [bind, Except.bind, rawView, pyInt_renderDec]
    decide
  obtain ⟨o1, c1, h1, h2⟩ := h [] [(pathPts0, NodeKind.chr 34816)] witnessNoTty witnessPts0
    witnessThread_wf hw (by intro e he; simp at he) (by intro e he r; simp at he; subst he; simp) _ _ h0
  rw [C06_terminal_memoized [] _ witnessPts0 hw] at h1
  simp only [Prod.mk.injEq, Except.ok.injEq] at h1
  rw [← h1.1] at h2
  revert h2
  simp [TerminalOk, IsTerminalOf, List.lookup, witnessPts0]

/-! ## `create_time()` from the text of BOTH files -/

/-- `boot_time()` returns the number of the `btime` line of any /proc/stat -/
theorem C06_boot_time_exact (w : ProcStatW) (hwf : w.WF) :
    bootTime xcfg (renderProcStat w) = .ok (w.btime : Rat) :=
  bootTime_render xcfg xcfg_good.toGoodBase w hwf

/-- End to end: from the text of /proc/stat and of /proc/<pid>/stat, with no boot time cached yet,
    `create_time()` is `btime + starttime / CLK_TCK` as an exact rational, and BOOT_TIME is then
    pinned to that btime. -/
theorem C06_create_time_end_to_end (tck : Nat) (htck : 0 < tck) (w : ProcStatW) (hw : w.WF) (r : StatRec) (hwf : r.WF) :
    createTimeCall cfg xcfg tck none (renderProcStat w) (renderStat r)
      = (.ok (Spec.createTime tck (w.btime : Rat) r), some (w.btime : Rat)) := by
  unfold createTimeCall bootTimeCall
  rw [C06_stat_roundtrip r hwf, C06_boot_time_exact w hw]
  simp [bind, Except.bind, rawView, pyFloat_renderDec, Spec.createTime, Rat.add_comm, pyDiv_pos _ tck htck,
    Except.map, cachedBoot_none]

/-- Once BOOT_TIME is pinned — to ANY value, 0 included — `create_time()` uses it and does not look at
    /proc/stat at all: whatever that file contains now (a stepped clock, garbage, nothing), the result is
    the pinned boot time plus `starttime / CLK_TCK`, and the pin stays. -/
theorem C06_create_time_uses_pinned_boot_time (tck : Nat) (htck : 0 < tck) (b : Rat) (procStatNow : Bytes)
    (r : StatRec) (hwf : r.WF) :
    createTimeCall cfg xcfg tck (some b) procStatNow (renderStat r)
      = (.ok (Spec.createTime tck b r), some b) := by
  unfold createTimeCall
  rw [C06_stat_roundtrip r hwf]
  simp [bind, Except.bind, rawView, pyFloat_renderDec, Spec.createTime, Rat.add_comm,
    cachedBoot_isNotNone xcfg xcfg_good.createBoot, pyDiv_pos _ tck htck, Except.map]

/-- … spelled out for the pin that used to be mistaken for "nothing pinned": with BOOT_TIME = 0.0 the result
    is `starttime / CLK_TCK` exactly, whatever /proc/stat says now -/
theorem C06_create_time_zero_pin_is_used (tck : Nat) (htck : 0 < tck) (procStatNow : Bytes) (r : StatRec) (hwf : r.WF) :
    createTimeCall cfg xcfg tck (some 0) procStatNow (renderStat r)
      = (.ok ((r.starttime : Rat) / tck), some 0) := by
  rw [C06_create_time_uses_pinned_boot_time tck htck 0 procStatNow r hwf]
  simp [Spec.createTime]

/-- HISTORY of two `create_time()` calls in one interpreter (any two processes; /proc/stat at the second
    call is ANY byte string — rewritten after a stepped clock, truncated, garbage): the second call adds the
    btime the FIRST call read — 0 included — and the pin stays what the first call made it. -/
theorem C06_create_time_two_calls (tck : Nat) (htck : 0 < tck) (w1 : ProcStatW) (hw1 : w1.WF) (procStat2 : Bytes)
    (r1 r2 : StatRec) (h1 : r1.WF) (h2 : r2.WF) :
    createTimeCall cfg xcfg tck
        (createTimeCall cfg xcfg tck none (renderProcStat w1) (renderStat r1)).2
        procStat2 (renderStat r2)
      = (.ok (Spec.createTime tck (w1.btime : Rat) r2), some (w1.btime : Rat)) := by
  rw [C06_create_time_end_to_end tck htck w1 hw1 r1 h1]
  exact C06_create_time_uses_pinned_boot_time tck htck _ _ r2 h2

/-! ### histories of any length, `create_time()` and the public `boot_time()` interleaved -/

/-- one call that touches the BOOT_TIME pin, together with the world it runs in -/
inductive TimeOp
  | create (w : ProcStatW) (r : StatRec)   -- `Process(pid).create_time()` while /proc/stat reads `w`
  | boot (w : ProcStatW)                   -- `psutil.boot_time()` while /proc/stat reads `w`

def TimeOp.WF : TimeOp → Prop
  | .create w r => w.WF ∧ r.WF
  | .boot w => w.WF

/-- what a call needs once something is pinned: `create_time()` no longer depends on /proc/stat being readable -/
def TimeOp.WFLater : TimeOp → Prop
  | .create _ r => r.WF
  | .boot w => w.WF

def TimeOp.world : TimeOp → ProcStatW
  | .create w _ => w
  | .boot w => w

/-- one call under the configuration `x` of the code around the parsers -/
def runTimeOp (x : XCfg) (tck : Nat) (cache : Option Rat) : TimeOp → Res Rat × Option Rat
  | .create w r => createTimeCall cfg x tck cache (renderProcStat w) (renderStat r)
  | .boot w => bootTimeCall x cache (renderProcStat w)

/-- the calls of one interpreter, in order, threading the BOOT_TIME pin -/
def runTimeOps (x : XCfg) (tck : Nat) : Option Rat → List TimeOp → List (Res Rat) × Option Rat
  | c, [] => ([], c)
  | c, op :: ops =>
    ((runTimeOp x tck c op).1 :: (runTimeOps x tck (runTimeOp x tck c op).2 ops).1,
     (runTimeOps x tck (runTimeOp x tck c op).2 ops).2)

/-- What each call is PROMISED, given the boot time `pin` the interpreter pinned at its first call. Written from
    the property ("start time offset by boot time", the boot time being the one value the interpreter holds on
    to), not from the code: `create_time()` = pin + starttime / CLK_TCK whatever the pin is; the public
    `boot_time()` = the btime published at its own moment. -/
def TimeOp.promised (tck : Nat) (pin : Rat) : TimeOp → Rat
  | .create _ r => Spec.createTime tck pin r
  | .boot w => (w.btime : Rat)

theorem runTimeOps_pinned (tck : Nat) (htck : 0 < tck) (b : Rat) :
    ∀ ops : List TimeOp, (∀ o ∈ ops, o.WFLater) →
      runTimeOps xcfg tck (some b) ops = (ops.map fun o => .ok (o.promised tck b), some b) := by
  intro ops
  induction ops with
  | nil => intro _; rfl
  | cons o os ih =>
    intro hwf
    have ho : o.WFLater := hwf o (by simp)
    have hstep : runTimeOp xcfg tck (some b) o = (.ok (o.promised tck b), some b) := by
      cases o with
      | create w r =>
        simpa [runTimeOp, TimeOp.promised] using
          C06_create_time_uses_pinned_boot_time tck htck b (renderProcStat w) r ho
      | boot w =>
        simp [runTimeOp, TimeOp.promised, bootTimeCall, C06_boot_time_exact w ho]
    simp only [runTimeOps, hstep, ih (fun o h => hwf o (by simp [h])), List.map_cons]

/-- the full statement about histories, for a configuration `x` of the code: the first call of either kind
    pins BOOT_TIME to the btime it read, for good, and every call returns what it is promised under that pin -/
def TimeHistoryPinned_Full (x : XCfg) : Prop :=
  ∀ (tck : Nat), 0 < tck → ∀ (op0 : TimeOp) (ops : List TimeOp), op0.WF → (∀ o ∈ ops, o.WF) →
    runTimeOps x tck none (op0 :: ops)
      = ((op0 :: ops).map fun o => .ok (o.promised tck (op0.world.btime : Rat)), some (op0.world.btime : Rat))

/-- HISTORY of ANY length, `create_time()` calls (any processes) and public `boot_time()` calls
    interleaved, /proc/stat possibly different at every call (stepped clock): the first call of either
    kind pins BOOT_TIME to the btime it read — 0 included —, for good; every `create_time()` adds that pinned
    btime and needs nothing from /proc/stat; every `boot_time()` returns the btime published at its own
    moment (it always re-reads, and pins only when nothing is pinned). -/
theorem C06_time_call_history (tck : Nat) (htck : 0 < tck) (op0 : TimeOp) (ops : List TimeOp)
    (hwf0 : op0.WF) (hwf : ∀ o ∈ ops, o.WFLater) :
    runTimeOps xcfg tck none (op0 :: ops)
      = ((op0 :: ops).map fun o => .ok (o.promised tck (op0.world.btime : Rat)), some (op0.world.btime : Rat)) := by
  have hstep : runTimeOp xcfg tck none op0
      = (.ok (op0.promised tck (op0.world.btime : Rat)), some (op0.world.btime : Rat)) := by
    cases op0 with
    | create w r =>
      simp only [runTimeOp, TimeOp.promised, TimeOp.world]
      exact C06_create_time_end_to_end tck htck w hwf0.1 r hwf0.2
    | boot w =>
      simp [runTimeOp, TimeOp.promised, TimeOp.world, bootTimeCall, C06_boot_time_exact w hwf0]
  simp only [runTimeOps, hstep, runTimeOps_pinned tck htck _ ops hwf, List.map_cons]

/-- the code as it is satisfies the full statement -/
theorem C06_time_history_pinned_full : TimeHistoryPinned_Full xcfg := by
  intro tck htck op0 ops h0 hwf
  refine C06_time_call_history tck htck op0 ops h0 (fun o ho => ?_)
  have := hwf o ho
  cases o with
  | create w r => exact this.2
  | boot w => exact this

/-! ### WHAT IF: the tree before 29257b1, `bt = BOOT_TIME or boot_time()`

  The same model with the `or` setting, so that a tree without the repair still has a true description —
  and a proof that it does NOT keep the promise above. -/

/-- the configuration of the code as it is, except that create_time() tests BOOT_TIME for truthiness -/
def xcfgOr : XCfg := { xcfg with createBoot := .or }

theorem xcfgOr_base : xcfgOr.GoodBase := by
  constructor <;> decide

/-- under `or`, a non-zero pin is used exactly as in the code as it is -/
theorem C06_or_create_time_uses_nonzero_pin (tck : Nat) (htck : 0 < tck) (b : Rat) (hb : b ≠ 0) (procStatNow : Bytes)
    (r : StatRec) (hwf : r.WF) :
    createTimeCall cfg xcfgOr tck (some b) procStatNow (renderStat r)
      = (.ok (Spec.createTime tck b r), some b) := by
  unfold createTimeCall
  rw [C06_stat_roundtrip r hwf]
  simp [bind, Except.bind, rawView, pyFloat_renderDec, Spec.createTime, Rat.add_comm,
    cachedBoot_or_nonzero xcfgOr rfl b hb, pyDiv_pos _ tck htck, Except.map]

/-- under `or`, a pinned BOOT_TIME of 0.0 is falsy: /proc/stat IS read again and the btime it holds NOW is
    used; the pin stays 0.0 (`boot_time()` only pins when it is None) -/
theorem C06_create_time_zero_boot_time_rereads (tck : Nat) (htck : 0 < tck) (w : ProcStatW) (hw : w.WF) (r : StatRec)
    (hwf : r.WF) :
    createTimeCall cfg xcfgOr tck (some 0) (renderProcStat w) (renderStat r)
      = (.ok (Spec.createTime tck (w.btime : Rat) r), some 0) := by
  unfold createTimeCall bootTimeCall
  rw [C06_stat_roundtrip r hwf, bootTime_render xcfgOr xcfgOr_base w hw]
  simp [bind, Except.bind, rawView, pyFloat_renderDec, Spec.createTime, Rat.add_comm,
    cachedBoot_or_zero xcfgOr rfl, pyDiv_pos _ tck htck, Except.map]

/-- under `or`, the two-call history: the second call adds the btime the first call read, EXCEPT when that
    was 0, in which case it adds the btime published at its own moment -/
theorem C06_or_create_time_two_calls (tck : Nat) (htck : 0 < tck) (w1 w2 : ProcStatW) (hw1 : w1.WF) (hw2 : w2.WF)
    (r1 r2 : StatRec) (h1 : r1.WF) (h2 : r2.WF) :
    createTimeCall cfg xcfgOr tck
        (createTimeCall cfg xcfgOr tck none (renderProcStat w1) (renderStat r1)).2
        (renderProcStat w2) (renderStat r2)
      = (.ok (Spec.createTime tck (((if w1.btime = 0 then w2.btime else w1.btime) : Nat) : Rat) r2),
         some (w1.btime : Rat)) := by
  have hfirst : createTimeCall cfg xcfgOr tck none (renderProcStat w1) (renderStat r1)
      = (.ok (Spec.createTime tck (w1.btime : Rat) r1), some (w1.btime : Rat)) := by
    unfold createTimeCall bootTimeCall
    rw [C06_stat_roundtrip r1 h1, bootTime_render xcfgOr xcfgOr_base w1 hw1]
    simp [bind, Except.bind, rawView, pyFloat_renderDec, Spec.createTime, Rat.add_comm, pyDiv_pos _ tck htck,
      Except.map, cachedBoot_none]
  rw [hfirst]
  by_cases hz : w1.btime = 0
  · simp only [hz, if_true, Nat.cast_zero]
    exact C06_create_time_zero_boot_time_rereads tck htck w2 hw2 r2 h2
  · simp only [hz, if_false]
    exact C06_or_create_time_uses_nonzero_pin tck htck _ (by exact_mod_cast hz) _ r2 h2

/-- … and therefore the `or` tree BREAKS the promise: an interpreter whose first `boot_time()` read btime 0
    (pin 0.0), then the clock is stepped to btime 1: `create_time()` adds 1, not the pinned 0. -/
theorem C06_time_history_or_counterexample : ¬ TimeHistoryPinned_Full xcfgOr := by
  intro h
  have hw0 : ProcStatW.WF ⟨[], 0, []⟩ := by simp [ProcStatW.WF]
  have hw1 : ProcStatW.WF ⟨[], 1, []⟩ := by simp [ProcStatW.WF]
  have hr : witnessNoTty.WF := witnessThread_wf
  have := h 100 (by decide) (.boot ⟨[], 0, []⟩) [.create ⟨[], 1, []⟩ witnessNoTty] hw0
    (by intro o ho; simp at ho; subst ho; exact ⟨hw1, hr⟩)
  simp only [runTimeOps, runTimeOp, bootTimeCall, bootTime_render xcfgOr xcfgOr_base _ hw0, TimeOp.world,
    Nat.cast_zero, C06_create_time_zero_boot_time_rereads 100 (by decide) _ hw1 _ hr, List.map_cons, List.map_nil,
    TimeOp.promised, Prod.mk.injEq, List.cons.injEq, Except.ok.injEq, true_and, and_true] at this
  revert this
  simp [Spec.createTime]

/-! ## `threads()`: which threads, in which order -/

/-- `thread_ids.sort()` puts the directory entries in ascending order of their NAMES — the decimal
    tids compared as strings ("10" < "100" < "9"), whatever order `os.listdir` used -/
theorem C06_threads_order (listing : List Nat) : IsNameOrder listing (sortTids xcfg listing) := by
  have hs : sortTids xcfg listing = listing.mergeSort tidLE := by
    simp [sortTids, xcfg_good.threadsSorts]
  rw [hs]
  refine ⟨List.mergeSort_perm _ _, ?_⟩
  have := List.pairwise_mergeSort (le := tidLE)
    (fun a b c h1 h2 => lexLE_trans _ _ _ h1 h2) (fun a b => lexLE_total _ _) listing
  refine this.imp ?_
  intro a b hab
  rw [← lexLE_eq_strLE]; exact hab

/-- the same order stated without any executable comparison of ours: no two reported tids are out of
    lexicographic order (`List.Lex` on the code points of their decimal names) -/
theorem C06_threads_order_lex (listing : List Nat) :
    (sortTids xcfg listing).Perm listing
    ∧ (sortTids xcfg listing).Pairwise fun a b => ¬ List.Lex (· < ·) (renderDec b) (renderDec a) := by
  obtain ⟨h1, h2⟩ := C06_threads_order listing
  exact ⟨h1, h2.imp fun h => (strLE_iff_not_lex _ _).mp h⟩

/-- The VALUE of `threads()`: for every listing order, every set of threads that end while the
    directory is being read (`recs t = none`), every thread name and old-kernel record: the
    result is the per-thread view of exactly the threads that could be read, in name order —
    as long as the process itself is still there at the end of the scan. -/
theorem C06_threads_value (tck : Nat) (htck : 0 < tck) (listing : List Nat) (recs : Nat → Option StatRec)
    (hwf : ∀ t r, recs t = some r → r.WF ∧ r.pid = t) (alive : Bool)
    (hal : alive = true ∨ ∀ t ∈ listing, recs t ≠ none) :
    threadsCall cfg xcfg tck listing (fun t => fileOf (recs t)) alive
      = .ok ((Spec.threadsValue tck (sortTids xcfg listing) recs).map toOut) := by
  unfold threadsCall
  rw [scan_render cfg cfg_good xcfg xcfg_good.threadsSkipsVanished tck htck recs hwf]
  rcases hal with h | h
  · simp [h]
  · have hany : ((sortTids xcfg listing).any fun t => (recs t).isNone) = false := by
      rw [List.any_eq_false]
      intro t ht
      have ht' : t ∈ listing := (C06_threads_order listing).1.mem_iff.mp ht
      cases hr : recs t with
      | none => exact absurd hr (h t ht')
      | some _ => simp
    simp [hany, xcfg_good.threadsHitStartsFalse]

/-- … and when a thread vanished AND the process is gone at the end: NoSuchProcess, not a partial list -/
theorem C06_threads_gone (tck : Nat) (htck : 0 < tck) (listing : List Nat) (recs : Nat → Option StatRec)
    (hwf : ∀ t r, recs t = some r → r.WF ∧ r.pid = t) (t : Nat) (ht : t ∈ listing) (hv : recs t = none) :
    threadsCall cfg xcfg tck listing (fun t => fileOf (recs t)) false = .error .noSuchProcess := by
  unfold threadsCall
  rw [scan_render cfg cfg_good xcfg xcfg_good.threadsSkipsVanished tck htck recs hwf]
  have hany : ((sortTids xcfg listing).any fun t => (recs t).isNone) = true := by
    rw [List.any_eq_true]
    exact ⟨t, (C06_threads_order listing).1.mem_iff.mpr ht, by simp [hv]⟩
  simp [hany, xcfg_good.threadsChecksAlive]

/-- The same VALUE whatever the SIGNAL by which an ended thread shows (`sig t = false`:
    FileNotFoundError when `task/<tid>/stat` is opened; `sig t = true`: ProcessLookupError, i.e.
    ESRCH from `open` or from `read` of a file that was opened in time): both are skipped. -/
theorem C06_threads_value_any_signal (tck : Nat) (htck : 0 < tck) (listing : List Nat) (sig : Nat → Bool)
    (recs : Nat → Option StatRec) (hwf : ∀ t r, recs t = some r → r.WF ∧ r.pid = t) (alive : Bool)
    (hal : alive = true ∨ ∀ t ∈ listing, recs t ≠ none) :
    threadsCall cfg xcfg tck listing (fun t => fileOfS (sig t) (recs t)) alive
      = .ok ((Spec.threadsValue tck (sortTids xcfg listing) recs).map toOut) := by
  unfold threadsCall
  rw [scan_render_sig cfg cfg_good xcfg xcfg_good.threadsSkipsVanished xcfg_good.threadsSkipsEsrch tck htck sig
    recs hwf]
  rcases hal with h | h
  · simp [h]
  · have hany : ((sortTids xcfg listing).any fun t => (recs t).isNone) = false := by
      rw [List.any_eq_false]
      intro t ht
      have ht' : t ∈ listing := (C06_threads_order listing).1.mem_iff.mp ht
      cases hr : recs t with
      | none => exact absurd hr (h t ht')
      | some _ => simp
    simp [hany, xcfg_good.threadsHitStartsFalse]

/-- … and NoSuchProcess for either signal when the process is gone at the end -/
theorem C06_threads_gone_any_signal (tck : Nat) (htck : 0 < tck) (listing : List Nat) (sig : Nat → Bool)
    (recs : Nat → Option StatRec) (hwf : ∀ t r, recs t = some r → r.WF ∧ r.pid = t) (t : Nat)
    (ht : t ∈ listing) (hv : recs t = none) :
    threadsCall cfg xcfg tck listing (fun t => fileOfS (sig t) (recs t)) false = .error .noSuchProcess := by
  unfold threadsCall
  rw [scan_render_sig cfg cfg_good xcfg xcfg_good.threadsSkipsVanished xcfg_good.threadsSkipsEsrch tck htck sig
    recs hwf]
  have hany : ((sortTids xcfg listing).any fun t => (recs t).isNone) = true := by
    rw [List.any_eq_true]
    exact ⟨t, (C06_threads_order listing).1.mem_iff.mpr ht, by simp [hv]⟩
  simp [hany, xcfg_good.threadsChecksAlive]

/-- The liveness of the process is looked at ONLY after a thread vanished (`hit_enoent` starts as
    False): when every listed thread could be read, the per-thread views are returned even if the
    process is gone by the end of the scan. -/
theorem C06_threads_liveness_checked_only_after_vanish (tck : Nat) (htck : 0 < tck) (listing : List Nat)
    (recs : Nat → Option StatRec) (hwf : ∀ t r, recs t = some r → r.WF ∧ r.pid = t)
    (hall : ∀ t ∈ listing, recs t ≠ none) (alive : Bool) :
    threadsCall cfg xcfg tck listing (fun t => fileOf (recs t)) alive
      = .ok ((Spec.threadsValue tck (sortTids xcfg listing) recs).map toOut) :=
  C06_threads_value tck htck listing recs hwf alive (Or.inr hall)

/-- old kernels: the same thread cut down to a record that ends at `policy` (`tail := none`: no
    `delayacct_blkio_ticks` …) is read exactly like the full one — `threads()` only indexes columns
    11 and 12 after the name -/
theorem C06_threads_old_kernel (tck : Nat) (htck : 0 < tck) (r : StatRec) (hwf : r.WF) :
    threadsCall cfg xcfg tck [r.pid] (fun _ => fileOf (some { r with tail := none })) true
      = .ok [⟨r.pid, (r.utime : Rat) / tck, (r.stime : Rat) / tck⟩] := by
  have hwf' : ({ r with tail := none } : StatRec).WF := hwf
  have h := C06_threads_value tck htck [r.pid] (fun t => if t = r.pid then some { r with tail := none } else none)
    (by intro t r' h; split at h <;> simp at h; subst h; exact ⟨hwf', by simp_all⟩) true (Or.inl rfl)
  have hs : sortTids xcfg [r.pid] = [r.pid] := by simp [sortTids]
  have hf : threadsCall cfg xcfg tck [r.pid] (fun _ => fileOf (some { r with tail := none })) true
      = threadsCall cfg xcfg tck [r.pid] (fun t => fileOf (if t = r.pid then some { r with tail := none } else none)) true := by
    simp [threadsCall, hs]
  rw [hf, h, hs]
  simp [Spec.threadsValue, toOut, threadView]

/-! ## status tokens: exactly `\d+` -/

/-- A group of the status regexes accepts a non-empty, maximal run of ASCII digits after a tab and
    nothing else (no sign, blank, `0x`, `_`, non-ASCII digit); such a token always converts. Hence
    for EVERY byte string as status file `uids()`/`gids()`/`num_threads()` either return numbers or
    raise IndexError (no matching line) — never ValueError — and `num_ctx_switches()` additionally
    NotImplementedError (no match at all). -/
theorem C06_status_tokens_digits_only (file : Bytes) :
    ((∃ v, uids cfg file = .ok v) ∨ uids cfg file = .error .indexError)
    ∧ ((∃ v, gids cfg file = .ok v) ∨ gids cfg file = .error .indexError)
    ∧ ((∃ v, numThreads cfg file = .ok v) ∨ numThreads cfg file = .error .indexError)
    ∧ ((∃ v, numCtxSwitches cfg file = .ok v) ∨ numCtxSwitches cfg file = .error .indexError
        ∨ numCtxSwitches cfg file = .error .notImplementedError) := by
  have ids : ∀ (anch : Bool) (key data : Bytes),
      (∃ v, ids3 anch key Sep.tabOne data = .ok v) ∨ ids3 anch key Sep.tabOne data = .error .indexError := by
    intro anch key data
    unfold ids3
    rw [findAllS_tabOne]
    cases hf : findAll anch key 3 data with
    | nil => exact Or.inr rfl
    | cons gs rest =>
      obtain ⟨hl, hd⟩ := findAllGo_tokens anch key 3 data 0 true gs (by
        show gs ∈ findAll anch key 3 data; rw [hf]; simp)
      match gs, hl, hd with
      | [a, b, c], _, hd =>
        obtain ⟨na, ha⟩ := decOf_digits a (hd a (by simp)).1 (hd a (by simp)).2
        obtain ⟨nb, hb⟩ := decOf_digits b (hd b (by simp)).1 (hd b (by simp)).2
        obtain ⟨nc, hc⟩ := decOf_digits c (hd c (by simp)).1 (hd c (by simp)).2
        exact Or.inl ⟨(na, nb, nc), by simp [ha, hb, hc, bind, Except.bind, pure, Except.pure]⟩
  refine ⟨?_, ?_, ?_, ?_⟩
  · unfold uids; rw [cfg_good.uidSep]; exact ids _ _ _
  · unfold gids; rw [cfg_good.gidSep]; exact ids _ _ _
  · unfold numThreads
    rw [cfg_good.thrSep, findAllS_tabOne]
    cases hf : findAll cfg.thrAnchored cfg.thrKey 1 (readStatus cfg file) with
    | nil => exact Or.inr rfl
    | cons gs rest =>
      obtain ⟨hl, hd⟩ := findAllGo_tokens _ _ 1 _ 0 true gs (by
        show gs ∈ findAll cfg.thrAnchored cfg.thrKey 1 (readStatus cfg file); rw [hf]; simp)
      match gs, hl, hd with
      | [a], _, hd =>
        obtain ⟨na, ha⟩ := decOf_digits a (hd a (by simp)).1 (hd a (by simp)).2
        exact Or.inl ⟨na, by simp [ha]⟩
  · unfold numCtxSwitches
    rw [cfg_good.ctxSep, findAllS_tabOne]
    cases hf : findAll cfg.ctxAnchored cfg.ctxKey 1 (readStatus cfg file) with
    | nil => exact Or.inr (Or.inr rfl)
    | cons gs rest =>
      have hmem : ∀ g ∈ gs :: rest, g.length = 1 ∧ ∀ t ∈ g, t ≠ [] ∧ ∀ c ∈ t, isDigit c = true := by
        intro g hg
        exact findAllGo_tokens _ _ 1 _ 0 true g (by
          show g ∈ findAll cfg.ctxAnchored cfg.ctxKey 1 (readStatus cfg file); rw [hf]; exact hg)
      obtain ⟨hl, hd⟩ := hmem gs (by simp)
      match gs, hl, hd with
      | [a], _, hd =>
        cases rest with
        | nil => exact Or.inr (Or.inl rfl)
        | cons gs2 rest2 =>
          obtain ⟨hl2, hd2⟩ := hmem gs2 (by simp)
          match gs2, hl2, hd2 with
          | [b], _, hd2 =>
            obtain ⟨na, ha⟩ := decOf_digits a (hd a (by simp)).1 (hd a (by simp)).2
            obtain ⟨nb, hb⟩ := decOf_digits b (hd2 b (by simp)).1 (hd2 b (by simp)).2
            exact Or.inl ⟨(na, nb), by simp [ha, hb, bind, Except.bind, pure, Except.pure]⟩

/-- what a token must look like, on the match itself: `KEY` then `n` times (tab, non-empty maximal
    digit run); e.g. `Uid:\t-1`, `Uid:\t 1`, `Uid:\t0x1f` give no group -/
theorem C06_status_match_shape (key : Bytes) (n : Nat) (s : Bytes) (gs : List Bytes) (rest : Bytes)
    (h : matchAt key n s = some (gs, rest)) :
    gs.length = n ∧ (∀ g ∈ gs, g ≠ [] ∧ ∀ c ∈ g, isDigit c = true)
      ∧ (n ≠ 0 → ∀ c, rest.head? = some c → isDigit c = false) := by
  unfold matchAt at h
  cases hd : dropPrefix? key s with
  | none => simp [hd] at h
  | some r =>
    simp only [hd] at h
    obtain ⟨h1, h2, _, h4⟩ := matchGroups_tokens n r gs rest h
    exact ⟨h1, h2, h4⟩

example : matchAt [85, 105, 100, 58] 1 [85, 105, 100, 58, 9, 45, 49] = none := by decide   -- "Uid:\t-1"
example : matchAt [85, 105, 100, 58] 1 [85, 105, 100, 58, 9, 32, 49] = none := by decide   -- "Uid:\t 1"
example : matchAt [85, 105, 100, 58] 1 [85, 105, 100, 58, 9, 48, 120, 49] = some ([[48]], [120, 49]) := by
  decide                                                                                   -- "Uid:\t0x1" → "0"
/-- "10", "100", "9" is the order threads() reports tids 9, 10, 100 in -/
example : IsNameOrder [9, 10, 100] [10, 100, 9] := by
  have h9 : renderDec 9 = [57] := by simp [renderDec, renderRadix, renderRadixAux, decimal]
  have h10 : renderDec 10 = [49, 48] := by simp [renderDec, renderRadix, renderRadixAux, decimal]
  have h100 : renderDec 100 = [49, 48, 48] := by simp [renderDec, renderRadix, renderRadixAux, decimal]
  refine ⟨by decide, ?_⟩
  simp [h9, h10, h100, strLE]
/-- a /proc/stat with lines before and after `btime` meets `ProcStatW.WF` -/
example : (⟨[[99, 112, 117, 32, 49]], 1700000000, [[112, 114, 111, 99, 101, 115, 115, 101, 115, 32, 55]]⟩ : ProcStatW).WF := by
  refine ⟨by decide, by decide⟩
/-- a /dev listing with a vanished pty, two names for one device and a foreign device meets `AllDevices` -/
example : AllDevices [(pathPts0, NodeKind.vanished), (pathTtyX, NodeKind.chr 1025), (pathPts0, NodeKind.chr 1025)] := by
  intro e he r; simp at he; rcases he with h | h | h <;> subst h <;> simp


/-! ## histories on ONE `Process` object: `oneshot()` blocks left normally or by an exception (seeded round 5)

  The theorems above are about one parse of one file. Between the public getters and the parsers sits the
  caching machinery of `Process.oneshot()` / `memoize_when_activated` (Model/C06Hist.lean). The property speaks
  about every call: "report exactly what the kernel publishes" — so over a history in which the kernel keeps
  publishing new records, a getter called OUTSIDE every block must report the record published at that
  moment, whatever happened on the object before; in particular after a block was left by an EXCEPTION. -/

/-- the facts about `Process.oneshot()` (what it calls on entry, on a normal exit, on an exit by exception),
    about `_pslinux.Process.oneshot_enter/_exit` and about the decorated functions have the values the history
    theorem needs: entering while a block is open does nothing, entering activates both `_cache` slots, and
    leaving — normally AND when an exception propagates out of the block — ends with both slots deactivated -/
theorem hcfg_good : hcfg.Good := by
  constructor <;> decide

set_option maxRecDepth 20000 in
/-- the `_cache` slot itself, pinned by source text: `cache_activate` puts a FRESH dict into the slot,
    `cache_deactivate` deletes the slot, the wrapper runs the function undecorated when there is no slot (or the slot
    belongs to another thread) and otherwise looks the value up / stores it on a miss; `oneshot()` is a
    `contextlib.contextmanager` whose nested-entry branch is `if hasattr(self, '_cache'): yield` -/
theorem cfg_oneshot_anchors :
    Gen.C06.memoActivateSrc = ["proc._cache = (threading.get_ident(), {})"]
    ∧ Gen.C06.memoDeactivateSrc = ["try:\n    del proc._cache\nexcept AttributeError:\n    pass"]
    ∧ Gen.C06.memoWrapperSrc =
        ["try:\n    owner, cache = self._cache\nexcept AttributeError:\n    try:\n        return fun(self)\n    except Exception as err:\n        raise err from None",
         "if owner != threading.get_ident():\n    try:\n        return fun(self)\n    except Exception as err:\n        raise err from None",
         "try:\n    ret = cache[fun]\nexcept KeyError:\n    try:\n        ret = fun(self)\n    except Exception as err:\n        raise err from None\n    cache[fun] = ret",
         "return ret"]
    ∧ Gen.C06.oneshotIsContextManager = true
    ∧ Gen.C06.oneshotNestedTest = "hasattr(self, '_cache')"
    ∧ Gen.C06.oneshotNestedBody = ["yield"] := by decide

/-- a promised value as a model value -/
def outOf : OutV → Out
  | .bytes b => .bytes b
  | .int i => .int i
  | .str s => .st (.str s)
  | .cpu c => .cpu ⟨c.user, c.system, c.childrenUser, c.childrenSystem, c.iowait⟩
  | .obytes o => .obytes o
  | .ids t => .ids t
  | .nat n => .nat n
  | .pair p => .pair p

/-- the kernel files of a record -/
def renderWorld (r : ProcRec) : World := ⟨renderStat r.stat, renderStatus r.status⟩

/-- every getter, run with no cache anywhere on the files the kernel renders for a record, returns the
    promised value (the per-method theorems above, collected over the `Getter` vocabulary) -/
theorem C06_direct_exact (tck : Nat) (htck : 0 < tck) (tmap : List (Int × Bytes)) (g : Getter) (r : ProcRec)
    (hwf : r.WF) :
    direct ⟨cfg, tck, tmap⟩ g (renderWorld r) = .ok (outOf (viewV ⟨tck, tmap⟩ g r)) := by
  obtain ⟨hs, hst, hctx⟩ := hwf
  cases g with
  | name =>
    have : direct ⟨cfg, tck, tmap⟩ .name (renderWorld r) = (name cfg (renderStat r.stat)).map .bytes := by
      simp only [direct, Getter.usesStat, if_true, name, renderWorld]
      cases parseStat cfg (renderStat r.stat) <;> rfl
    rw [this, C06_name_exact r.stat hs]; rfl
  | ppid =>
    have : direct ⟨cfg, tck, tmap⟩ .ppid (renderWorld r) = (ppid cfg (renderStat r.stat)).map .int := by
      simp only [direct, Getter.usesStat, if_true, ppid, renderWorld]
      cases parseStat cfg (renderStat r.stat) <;> rfl
    rw [this, C06_ppid_exact r.stat hs]; rfl
  | status =>
    have : direct ⟨cfg, tck, tmap⟩ .status (renderWorld r) = (status cfg (renderStat r.stat)).map .st := by
      simp only [direct, Getter.usesStat, if_true, status, renderWorld]
      cases parseStat cfg (renderStat r.stat) <;> rfl
    rw [this, C06_status_exact r.stat hs]; rfl
  | cpuTimes =>
    have : direct ⟨cfg, tck, tmap⟩ .cpuTimes (renderWorld r) = (cpuTimes cfg tck (renderStat r.stat)).map .cpu := by
      simp only [direct, Getter.usesStat, if_true, cpuTimes, renderWorld]
      cases parseStat cfg (renderStat r.stat) <;> rfl
    rw [this, C06_cpu_times_exact tck htck r.stat hs]; rfl
  | cpuNum =>
    have : direct ⟨cfg, tck, tmap⟩ .cpuNum (renderWorld r) = (cpuNum cfg (renderStat r.stat)).map .int := by
      simp only [direct, Getter.usesStat, if_true, cpuNum, renderWorld]
      cases parseStat cfg (renderStat r.stat) <;> rfl
    rw [this, C06_cpu_num_exact r.stat hs]; rfl
  | terminal =>
    have : direct ⟨cfg, tck, tmap⟩ .terminal (renderWorld r) = (terminal cfg tmap (renderStat r.stat)).map .obytes := by
      simp only [direct, Getter.usesStat, if_true, terminal, renderWorld]
      cases parseStat cfg (renderStat r.stat) with
      | error x => rfl
      | ok v =>
        simp only [evalStat, bind, Except.bind]
        cases pyInt v.ttynr <;> rfl
    rw [this, C06_terminal_exact tmap r.stat hs]; rfl
  | uids =>
    have : direct ⟨cfg, tck, tmap⟩ .uids (renderWorld r) = (uids cfg (renderStatus r.status)).map .ids := rfl
    rw [this, C06_status_extract.1 r.status hst]; rfl
  | gids =>
    have : direct ⟨cfg, tck, tmap⟩ .gids (renderWorld r) = (gids cfg (renderStatus r.status)).map .ids := rfl
    rw [this, C06_status_extract.2.1 r.status hst]; rfl
  | numThreads =>
    have : direct ⟨cfg, tck, tmap⟩ .numThreads (renderWorld r) = (numThreads cfg (renderStatus r.status)).map .nat := rfl
    rw [this, C06_status_extract.2.2 r.status hst]; rfl
  | numCtxSwitches =>
    have : direct ⟨cfg, tck, tmap⟩ .numCtxSwitches (renderWorld r)
        = (numCtxSwitches cfg (renderStatus r.status)).map .pair := rfl
    rw [this, C06_ctx_switches_extract r.status hctx]; rfl

/-- "`o` is the exact report of getter `g` for the record `r`" -/
def ExactReport (tck : Nat) (tmap : List (Int × Bytes)) (g : Getter) (r : ProcRec) (o : Res Out) : Prop :=
  o = .ok (outOf (viewV ⟨tck, tmap⟩ g r))

/-- FULL statement over histories, for a configuration `h` of the caching code: for every tick rate, tty map,
    every first record and EVERY history (records published in between, getters, blocks entered, nested, left
    normally or by an exception), every observation is allowed by Spec/C06Hist.lean: outside every block the
    exact report for the record published at that moment; inside a block the exact report for a record
    published while the block was open -/
def HistoryExact_Full (h : HCfg) : Prop :=
  ∀ (tck : Nat), 0 < tck → ∀ (tmap : List (Int × Bytes)) (r0 : ProcRec) (evs : List (Ev ProcRec)),
    r0.WF → (∀ r ∈ published evs, r.WF) →
    Conforms (ExactReport tck tmap) ⟨r0, none⟩ evs
      (run h ⟨cfg, tck, tmap⟩ (HState.fresh (renderWorld r0)) (evs.map (Ev.map renderWorld)))

theorem history_exact_of_good (h : HCfg) (hg : h.Good) : HistoryExact_Full h := by
  intro tck htck tmap r0 evs hr0 hpub
  have hrun := run_conforms h hg ⟨cfg, tck, tmap⟩ (evs.map (Ev.map renderWorld))
    (HState.fresh (renderWorld r0)) ⟨renderWorld r0, none⟩ ⟨rfl, rfl, rfl, rfl⟩
  refine Conforms.map renderWorld ProcRec.WF (directView ⟨cfg, tck, tmap⟩) (ExactReport tck tmap) ?_ evs
    ⟨r0, none⟩ _ hr0 ?_ hpub hrun
  · intro g w o hw hv
    unfold directView at hv
    rw [hv]
    exact C06_direct_exact tck htck tmap g w hw
  · intro w hw
    simp only [candidates, List.mem_singleton] at hw
    rw [hw]; exact hr0

/-- THE CODE AS IT IS: every getter call of every history on one `Process` object is exact — in particular
    a getter called after a `oneshot()` block was left by an exception reports what the kernel publishes NOW -/
theorem C06_history_exact : HistoryExact_Full hcfg := history_exact_of_good hcfg hcfg_good

/-- the caching code with ONE difference: when an exception propagates out of the block the platform teardown
    `self._proc.oneshot_exit()` is not reached (it sits after the try/finally, in an `else:` clause, …); the
    front-end deactivations still run -/
def hcfgExcSkipsPlatform : HCfg := { hcfg with leaveExcActs := hcfg.leaveExcActs.filter (· != Act.plOff) }

/-- the process of `witnessThread` (named `a) b`) … -/
def witnessProc : ProcRec := ⟨witnessThread, witnessStatus nameUid⟩
/-- … after it renamed itself to `b` -/
def witnessProc2 : ProcRec := ⟨{ witnessThread with comm := [98] }, witnessStatus nameUid⟩

/-- the full history statement is FALSE of that code: `with p.oneshot(): p.name(); raise …`, then the process
    renames itself, then `p.name()` outside every block still reports the old name -/
theorem C06_history_exc_exit_counterexample : ¬ HistoryExact_Full hcfgExcSkipsPlatform := by
  intro h
  have hwf1 : witnessProc.WF :=
    ⟨witnessThread_wf, witnessStatus_wf _, by decide, by intro kv hk; simp [witnessProc, witnessStatus] at hk⟩
  have hwf2 : witnessProc2.WF :=
    ⟨by unfold StatRec.WF; decide, witnessStatus_wf _, by decide,
     by intro kv hk; simp [witnessProc2, witnessStatus] at hk⟩
  have hc := h 100 (by decide) [] witnessProc
    [.enter, .get .name, .leave true, .publish witnessProc2, .get .name] hwf1
    (by intro r hr; simp [published] at hr; subst hr; exact hwf2)
  have hrun := stale_after_exc_exit hcfgExcSkipsPlatform ⟨cfg, 100, []⟩ (renderWorld witnessProc)
    (renderWorld witnessProc2) (rawView witnessThread) (by decide) (by decide) (by decide) (by decide)
    (by decide) (C06_stat_roundtrip witnessThread witnessThread_wf)
  simp only [List.map_cons, List.map_nil, Ev.map] at hc
  rw [hrun] at hc
  simp only [Conforms, specStep, candidates, Option.map, List.mem_singleton, exists_eq_left, ExactReport] at hc
  have h2 := hc.2.1
  simp [viewV, outOf, Spec.name, witnessProc2, rawView, witnessThread] at h2

/-! ## the hypotheses are satisfiable (non-vacuity) -/

example : witnessThread.WF := witnessThread_wf
example : (witnessStatus nameUid).WF ∧ (witnessStatus nameUid).WFCtx :=
  ⟨witnessStatus_wf _, by decide, by intro kv h; simp [witnessStatus] at h⟩
/-- a status record with "other" lines meeting `OtherLine` and `NoCtxHit` -/
example : ∃ r : StatusRec, r.pre ≠ [] ∧ r.WF ∧ r.WFCtx := by
  refine ⟨{ witnessStatus nameUid with pre := [([80, 105, 100], [55])] }, by simp, ?_, by decide, ?_⟩
  · intro kv h
    simp [witnessStatus] at h
    subst h
    refine ⟨by decide, by decide, by decide, by decide, by decide, by decide⟩
  · intro kv h
    simp [witnessStatus] at h
    subst h
    exact noHit_of_no_x _ (by decide)
/-- the theorems apply to the hostile witnesses themselves -/
example : uids cfg (renderStatus (witnessStatus nameUid)) = .ok (1234, 1234, 1234) :=
  C06_status_extract.1 _ (witnessStatus_wf _)
example : threads cfg 100 [(7, renderStat witnessThread)] = .ok [⟨7, (300 : Nat) / (100 : Nat), (400 : Nat) / (100 : Nat)⟩] :=
  C06_threads_exact 100 (by decide) [witnessThread] (by intro r hr; simp at hr; subst hr; exact witnessThread_wf)

/-- the history theorem applies to the witness of its own refutation: for the code as it is, `name()` after the
    block was left by an exception and the process renamed itself is allowed only to report the NEW name -/
example : Conforms (ExactReport 100 []) ⟨witnessProc, none⟩
    [.enter, .get .name, .leave true, .publish witnessProc2, .get .name]
    (run hcfg ⟨cfg, 100, []⟩ (HState.fresh (renderWorld witnessProc))
      ([Ev.enter, .get .name, .leave true, .publish witnessProc2, .get .name].map (Ev.map renderWorld))) :=
  C06_history_exact 100 (by decide) [] witnessProc _
    ⟨witnessThread_wf, witnessStatus_wf _, by decide, by intro kv hk; simp [witnessProc, witnessStatus] at hk⟩
    (by
      intro r hr
      simp [published] at hr
      subst hr
      exact ⟨by unfold StatRec.WF; decide, witnessStatus_wf _, by decide,
        by intro kv hk; simp [witnessProc2, witnessStatus] at hk⟩)
/-- `Conforms` is not vacuous: outside a block a stale report is refused -/
example : ¬ Conforms (fun (_ : Getter) (w : Nat) (o : Nat) => o = w) ⟨1, none⟩
    [.enter, .get .name, .leave true, .publish 2, .get .name] [1, 1] := by
  simp [Conforms, specStep, candidates]
end Psutil.C06
