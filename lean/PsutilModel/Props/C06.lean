/-
  Props/C06.lean — property theorems for C06: per-process kernel facts are exact, whatever
  bytes the process name contains. Only statements the property makes; helper lemmas live in
  Proofs/C06*.lean.

  `cfg` is built from Generated/C06.lean, which the translator rewrites from /repo's source on
  every run. `cfg_good` is the proof obligation that breaks when an index, a find/rfind
  choice, a regex key or its anchoring, or the open mode of the status file changes.
-/
import PsutilModel.Proofs.C06
import PsutilModel.Proofs.C06Status
import PsutilModel.Model.C06Gen
namespace Psutil.C06
open Spec

theorem cfg_good : cfg.Good := by
  constructor <;> decide

/-! ## `/proc/<pid>/stat` -/

/-- `_parse_stat_file` inverts the kernel's renderer for EVERY comm byte string (spaces,
    any number of parentheses, newlines, non-UTF-8 bytes, any length), every state letter,
    unbounded counters, with or without the trailing fields. -/
theorem C06_stat_roundtrip (r : StatRec) (hwf : r.WF) :
    parseStat cfg (renderStat r) = .ok (rawView r) :=
  parseStat_render cfg cfg_good r hwf

/-- `name()` is the comm, byte for byte -/
theorem C06_name_exact (r : StatRec) (hwf : r.WF) :
    name cfg (renderStat r) = .ok (Spec.name r) := by
  simp [name, C06_stat_roundtrip r hwf, Except.map, rawView, Spec.name]

/-- `ppid()` -/
theorem C06_ppid_exact (r : StatRec) (hwf : r.WF) :
    ppid cfg (renderStat r) = .ok (Spec.ppid r) := by
  simp [ppid, C06_stat_roundtrip r hwf, bind, Except.bind, rawView, pyInt_renderDec, Spec.ppid]

/-- `cpu_num()` -/
theorem C06_cpu_num_exact (r : StatRec) (hwf : r.WF) :
    cpuNum cfg (renderStat r) = .ok (Spec.cpuNum r) := by
  simp [cpuNum, C06_stat_roundtrip r hwf, bind, Except.bind, rawView, pyInt_renderDec, Spec.cpuNum]

/-- `cpu_times()`: clock ticks divided by the tick rate, for every tick rate -/
theorem C06_cpu_times_exact (tck : Nat) (r : StatRec) (hwf : r.WF) :
    cpuTimes cfg tck (renderStat r)
      = .ok ⟨(Spec.cpuTimes tck r).user, (Spec.cpuTimes tck r).system,
             (Spec.cpuTimes tck r).childrenUser, (Spec.cpuTimes tck r).childrenSystem,
             (Spec.cpuTimes tck r).iowait⟩ := by
  unfold cpuTimes
  rw [C06_stat_roundtrip r hwf]
  cases ht : r.tail with
  | none =>
    simp [bind, Except.bind, pure, Except.pure, rawView, pyFloat_renderDec, Spec.cpuTimes,
      blkioTicks, ht]
  | some p =>
    obtain ⟨b, more⟩ := p
    simp [bind, Except.bind, pure, Except.pure, rawView, pyFloat_renderDec, Spec.cpuTimes,
      blkioTicks, ht]

/-- old kernels (record ends before `delayacct_blkio_ticks`): everything else is still exact
    and `iowait` is 0 -/
theorem C06_old_kernel_iowait_zero (tck : Nat) (r : StatRec) (hwf : r.WF) (hold : r.tail = none) :
    ∃ ct, cpuTimes cfg tck (renderStat r) = .ok ct ∧ ct.iowait = 0
      ∧ ct.user = (r.utime : Rat) / tck ∧ ct.system = (r.stime : Rat) / tck := by
  refine ⟨_, C06_cpu_times_exact tck r hwf, ?_, rfl, rfl⟩
  simp [Spec.cpuTimes, blkioTicks, hold, Rat.div_def]

/-- `create_time()`: start time in ticks over the tick rate, offset by the boot time -/
theorem C06_create_time_exact (tck : Nat) (btime : Rat) (r : StatRec) (hwf : r.WF) :
    createTime cfg tck btime (renderStat r) = .ok (Spec.createTime tck btime r) := by
  unfold createTime
  rw [C06_stat_roundtrip r hwf]
  simp [bind, Except.bind, pure, Except.pure, rawView, pyFloat_renderDec, Spec.createTime,
    Rat.add_comm]

/-- `terminal()`: the tty number looked up in the device map -/
theorem C06_terminal_exact (tmap : List (Int × Bytes)) (r : StatRec) (hwf : r.WF) :
    terminal cfg tmap (renderStat r) = .ok (Spec.terminal tmap r) := by
  unfold terminal
  rw [C06_stat_roundtrip r hwf]
  simp [bind, Except.bind, pure, Except.pure, rawView, pyInt_renderDec, Spec.terminal]

/-- `PROC_STATUSES` (as extracted from the source) is exactly the documented letter table -/
theorem C06_status_letter_map :
    cfg.statuses = Spec.documentedStatus.map (fun p => ([p.1], p.2)) := by decide

/-- `status()`: the documented constant for a documented letter, `"?"` otherwise — for every
    letter and every record around it -/
theorem C06_status_exact (r : StatRec) (hwf : r.WF) :
    status cfg (renderStat r) = .ok (.str (Spec.status r)) := by
  unfold status
  rw [C06_stat_roundtrip r hwf]
  have hlt : r.state < 128 := by
    have := hwf
    simp only [StatRec.WF, isLetter, Bool.and_eq_true, Bool.or_eq_true, decide_eq_true_eq] at this
    omega
  have hl : ∀ (tbl : List (Nat × String)) (s : Nat),
      (tbl.map (fun p => ([p.1], p.2))).lookup [s] = tbl.lookup s := by
    intro tbl s
    induction tbl with
    | nil => rfl
    | cons a as ih =>
      by_cases h : s = a.1
      · subst h; simp [List.lookup]
      · have h' : ([s] == [a.1]) = false := by simp [h]
        have h'' : (s == a.1) = false := by simp [h]
        simp [List.lookup, h', h'', ih]
  simp [Except.map, rawView, hlt, lookupStatus, C06_status_letter_map, hl, Spec.status]
  rfl

/-! ## `threads()` -/

/-- Full statement: every thread's record is read exactly, whatever each thread's name. -/
def ThreadsExact (c : Cfg) : Prop :=
  ∀ (tck : Nat) (recs : List StatRec), (∀ r ∈ recs, r.WF) →
    threads c tck (recs.map fun r => (r.pid, renderStat r))
      = .ok (recs.map fun r => ⟨r.pid, (r.utime : Rat) / tck, (r.stime : Rat) / tck⟩)

theorem threads_exact_of_good (c : Cfg) (hg : c.Good) : ThreadsExact c := by
  intro tck recs hwf
  induction recs with
  | nil => rfl
  | cons r rs ih =>
    have ih' := ih (fun x hx => hwf x (by simp [hx]))
    simp only [List.map_cons, threads, threadOne_render c hg tck r (hwf r (by simp)), ih']
    rfl

/-- `threads()` for any number of threads, each with its own arbitrary name -/
theorem C06_threads_exact : ThreadsExact cfg := threads_exact_of_good cfg cfg_good

/-- the values agree with the promised per-thread view -/
theorem C06_threads_view (tck : Nat) (r : StatRec) :
    (⟨r.pid, (r.utime : Rat) / tck, (r.stime : Rat) / tck⟩ : ThreadOut)
      = ⟨(threadView tck r).id, (threadView tck r).userTime, (threadView tck r).systemTime⟩ := rfl

end Psutil.C06
