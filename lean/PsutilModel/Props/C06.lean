/-
  Props/C06.lean — property theorems for C06: per-process kernel facts are exact, whatever
  bytes the process name contains. Only statements the property makes; helper lemmas live in
  Proofs/C06*.lean.

  `cfg` is built from Generated/C06.lean, which the translator rewrites from /repo's source on
  every run. `cfg_good` is the proof obligation that breaks when an index, a find/rfind
  choice, a regex key or its anchoring, or the open mode of the status file changes.
-/
import PsutilModel.Proofs.C06
import PsutilModel.Proofs.C06Status
import PsutilModel.Proofs.C06Ctx
import PsutilModel.Proofs.C06Witness
import Mathlib.Tactic.NormNum
import PsutilModel.Model.C06Gen
deriving instance DecidableEq for Except

namespace Psutil.C06
open Spec

theorem cfg_good : cfg.Good := by
  constructor <;> decide

/-! ## `/proc/<pid>/stat` -/

/-- `_parse_stat_file` inverts the kernel's renderer for EVERY comm byte string (spaces,
    any number of parentheses, newlines, non-UTF-8 bytes, any length), every state letter,
    unbounded counters, with or without the trailing fields. -/
theorem C06_stat_roundtrip (r : StatRec) (hwf : r.WF) :
    parseStat cfg (renderStat r) = .ok (rawView r) :=
  parseStat_render cfg cfg_good r hwf

/-- `name()` is the comm, byte for byte -/
theorem C06_name_exact (r : StatRec) (hwf : r.WF) :
    name cfg (renderStat r) = .ok (Spec.name r) := by
  simp [name, C06_stat_roundtrip r hwf, Except.map, rawView, Spec.name]

/-- `ppid()` -/
theorem C06_ppid_exact (r : StatRec) (hwf : r.WF) :
    ppid cfg (renderStat r) = .ok (Spec.ppid r) := by
  simp [ppid, C06_stat_roundtrip r hwf, bind, Except.bind, rawView, pyInt_renderDec, Spec.ppid]

/-- `cpu_num()` -/
theorem C06_cpu_num_exact (r : StatRec) (hwf : r.WF) :
    cpuNum cfg (renderStat r) = .ok (Spec.cpuNum r) := by
  simp [cpuNum, C06_stat_roundtrip r hwf, bind, Except.bind, rawView, pyInt_renderDec, Spec.cpuNum]

/-- `cpu_times()`: clock ticks divided by the tick rate, for every tick rate -/
theorem C06_cpu_times_exact (tck : Nat) (r : StatRec) (hwf : r.WF) :
    cpuTimes cfg tck (renderStat r)
      = .ok ⟨(Spec.cpuTimes tck r).user, (Spec.cpuTimes tck r).system,
             (Spec.cpuTimes tck r).childrenUser, (Spec.cpuTimes tck r).childrenSystem,
             (Spec.cpuTimes tck r).iowait⟩ := by
  unfold cpuTimes
  rw [C06_stat_roundtrip r hwf]
  cases ht : r.tail with
  | none =>
    simp [bind, Except.bind, pure, Except.pure, rawView, pyFloat_renderDec, Spec.cpuTimes,
      blkioTicks, ht]
  | some p =>
    obtain ⟨b, more⟩ := p
    simp [bind, Except.bind, pure, Except.pure, rawView, pyFloat_renderDec, Spec.cpuTimes,
      blkioTicks, ht]

/-- old kernels (record ends before `delayacct_blkio_ticks`): everything else is still exact
    and `iowait` is 0 -/
theorem C06_old_kernel_iowait_zero (tck : Nat) (r : StatRec) (hwf : r.WF) (hold : r.tail = none) :
    ∃ ct, cpuTimes cfg tck (renderStat r) = .ok ct ∧ ct.iowait = 0
      ∧ ct.user = (r.utime : Rat) / tck ∧ ct.system = (r.stime : Rat) / tck := by
  refine ⟨_, C06_cpu_times_exact tck r hwf, ?_, rfl, rfl⟩
  simp [Spec.cpuTimes, blkioTicks, hold, Rat.div_def]

/-- `create_time()`: start time in ticks over the tick rate, offset by the boot time -/
theorem C06_create_time_exact (tck : Nat) (btime : Rat) (r : StatRec) (hwf : r.WF) :
    createTime cfg tck btime (renderStat r) = .ok (Spec.createTime tck btime r) := by
  unfold createTime
  rw [C06_stat_roundtrip r hwf]
  simp [bind, Except.bind, pure, Except.pure, rawView, pyFloat_renderDec, Spec.createTime,
    Rat.add_comm]

/-- `terminal()`: the tty number looked up in the device map -/
theorem C06_terminal_exact (tmap : List (Int × Bytes)) (r : StatRec) (hwf : r.WF) :
    terminal cfg tmap (renderStat r) = .ok (Spec.terminal tmap r) := by
  unfold terminal
  rw [C06_stat_roundtrip r hwf]
  simp [bind, Except.bind, pure, Except.pure, rawView, pyInt_renderDec, Spec.terminal]

/-- `PROC_STATUSES` (as extracted from the source) is exactly the documented letter table -/
theorem C06_status_letter_map :
    cfg.statuses = Spec.documentedStatus.map (fun p => ([p.1], p.2)) := by decide

/-- `status()`: the documented constant for a documented letter, `"?"` otherwise — for every
    letter and every record around it -/
theorem C06_status_exact (r : StatRec) (hwf : r.WF) :
    status cfg (renderStat r) = .ok (.str (Spec.status r)) := by
  unfold status
  rw [C06_stat_roundtrip r hwf]
  have hlt : r.state < 128 := by
    have := hwf
    simp only [StatRec.WF, isLetter, Bool.and_eq_true, Bool.or_eq_true, decide_eq_true_eq] at this
    omega
  have hl : ∀ (tbl : List (Nat × String)) (s : Nat),
      (tbl.map (fun p => ([p.1], p.2))).lookup [s] = tbl.lookup s := by
    intro tbl s
    induction tbl with
    | nil => rfl
    | cons a as ih =>
      by_cases h : s = a.1
      · subst h; simp [List.lookup]
      · have h' : ([s] == [a.1]) = false := by simp [h]
        have h'' : (s == a.1) = false := by simp [h]
        simp [List.lookup, h', h'', ih]
  simp [Except.map, rawView, hlt, lookupStatus, C06_status_letter_map, hl, Spec.status]
  rfl

/-! ## `threads()` -/

/-- Full statement: every thread's record is read exactly, whatever each thread's name. -/
def ThreadsExact (c : Cfg) : Prop :=
  ∀ (tck : Nat) (recs : List StatRec), (∀ r ∈ recs, r.WF) →
    threads c tck (recs.map fun r => (r.pid, renderStat r))
      = .ok (recs.map fun r => ⟨r.pid, (r.utime : Rat) / tck, (r.stime : Rat) / tck⟩)

theorem threads_exact_of_good (c : Cfg) (hg : c.Good) : ThreadsExact c := by
  intro tck recs hwf
  induction recs with
  | nil => rfl
  | cons r rs ih =>
    have ih' := ih (fun x hx => hwf x (by simp [hx]))
    simp only [List.map_cons, threads, threadOne_render c hg tck r (hwf r (by simp)), ih']
    rfl

/-- `threads()` for any number of threads, each with its own arbitrary name -/
theorem C06_threads_exact : ThreadsExact cfg := threads_exact_of_good cfg cfg_good

/-- the values agree with the promised per-thread view -/
theorem C06_threads_view (tck : Nat) (r : StatRec) :
    (⟨r.pid, (r.utime : Rat) / tck, (r.stime : Rat) / tck⟩ : ThreadOut)
      = ⟨(threadView tck r).id, (threadView tck r).userTime, (threadView tck r).systemTime⟩ := rfl

/-- the namedtuple layouts the correspondence check reads by name -/
theorem C06_tuple_fields :
    Gen.C06.pcputimesFields = ["user", "system", "children_user", "children_system", "iowait"]
    ∧ Gen.C06.pthreadFields = ["id", "user_time", "system_time"] := by decide

/-! ### lead L8: `threads()` with the FIRST `)` (the code before the fix) -/

/-- the model with `st.find(b')')`, every other fact as in the current source -/
def cfgThreadsFind : Cfg := { cfg with threadsUsesRfind := false }

/-- with the first `)`, `values[11]` is the `cmajflt` column ("0"), not utime ("300") -/
theorem witnessThread_misread :
    getField (threadValues cfgThreadsFind (renderStat witnessThread)) cfgThreadsFind.tUtime = .ok [48]
    ∧ getField (threadValues cfgThreadsFind (renderStat witnessThread)) cfgThreadsFind.tStime
        = .ok [51, 48, 48] := by
  rw [witnessThread_bytes]; decide

/-- `threads()` locating the FIRST `)` reports user_time 0.0 / system_time 3.0 for that thread
    instead of 3.0 / 4.0: the full statement is false of that code. -/
theorem C06_threads_first_paren_counterexample : ¬ ThreadsExact cfgThreadsFind := by
  intro h
  have h1 := h 100 [witnessThread] (by intro r hr; simp at hr; subst hr; exact witnessThread_wf)
  have p0 : pyInt [48] = .ok 0 := by decide
  have p300 : pyInt [51, 48, 48] = .ok 300 := by decide
  simp only [List.map_cons, List.map_nil, threads, threadOne, witnessThread_misread.1,
    witnessThread_misread.2, pyFloat, p0, p300, bind, Except.bind, pure, Except.pure,
    Except.map, Except.ok.injEq, List.cons.injEq, ThreadOut.mk.injEq] at h1
  have h2 := h1.1.2.1
  simp only [witnessThread] at h2
  norm_num at h2

/-! ## `/proc/<pid>/status` -/

def UidsExact (c : Cfg) : Prop :=
  ∀ r : StatusRec, r.WF → uids c (renderStatus r) = .ok (Spec.uids r)
def GidsExact (c : Cfg) : Prop :=
  ∀ r : StatusRec, r.WF → gids c (renderStatus r) = .ok (Spec.gids r)
def NumThreadsExact (c : Cfg) : Prop :=
  ∀ r : StatusRec, r.WF → numThreads c (renderStatus r) = .ok (Spec.numThreads r)

/-- `uids()`, `gids()`, `num_threads()` return the numbers of the real `Uid:`, `Gid:`, `Threads:`
    lines for EVERY process name (any bytes, any length — the kernel's escaping of `\n` is what
    makes a line start unforgeable) and any set of other lines. -/
theorem C06_status_extract : UidsExact cfg ∧ GidsExact cfg ∧ NumThreadsExact cfg :=
  ⟨fun r h => uids_extract cfg cfg_good r h, fun r h => gids_extract cfg cfg_good r h,
   fun r h => numThreads_extract cfg cfg_good r h⟩

/-- `num_ctx_switches()`: the unanchored `ctxt_switches:\t(\d+)` finds exactly the voluntary and
    the nonvoluntary line, because `ctxt_switches:\t<digit>` (16 bytes, no backslash) fits in no
    name of at most 15 bytes, however the kernel escapes it. -/
theorem C06_ctx_switches_extract (r : StatusRec) (_hwf : r.WF) (hctx : r.WFCtx) :
    numCtxSwitches cfg (renderStatus r) = .ok (Spec.numCtxSwitches r) :=
  numCtxSwitches_extract cfg cfg_good r hctx

/-! ### lead L18: the unanchored patterns (the code before the fix) -/

def cfgUidUnanchored : Cfg := { cfg with uidAnchored := false }
def cfgGidUnanchored : Cfg := { cfg with gidAnchored := false }
def cfgThrUnanchored : Cfg := { cfg with thrAnchored := false }

/-- a process of uid 1234 NAMED `Uid:\t0\t0\t0` is reported as uid (0, 0, 0) by the unanchored
    pattern: the full statement is false of that code -/
theorem C06_uids_unanchored_counterexample : ¬ UidsExact cfgUidUnanchored := by
  intro h
  have h1 := h (witnessStatus nameUid) (witnessStatus_wf _)
  have h2 : uids cfgUidUnanchored (renderStatus (witnessStatus nameUid)) = .ok (0, 0, 0) := by
    rw [witnessStatus_bytes]; decide
  rw [h2] at h1
  revert h1; decide

theorem C06_gids_unanchored_counterexample : ¬ GidsExact cfgGidUnanchored := by
  intro h
  have h1 := h (witnessStatus nameGid) (witnessStatus_wf _)
  have h2 : gids cfgGidUnanchored (renderStatus (witnessStatus nameGid)) = .ok (0, 0, 0) := by
    rw [witnessStatus_bytes]; decide
  rw [h2] at h1
  revert h1; decide

theorem C06_num_threads_unanchored_counterexample : ¬ NumThreadsExact cfgThrUnanchored := by
  intro h
  have h1 := h (witnessStatus nameThreads) (witnessStatus_wf _)
  have h2 : numThreads cfgThrUnanchored (renderStatus (witnessStatus nameThreads)) = .ok 99 := by
    rw [witnessStatus_bytes]; decide
  rw [h2] at h1
  revert h1; decide

/-- Anchoring alone would not be enough if the status file were read in TEXT mode: universal
    newlines turn a `\r` inside the name into a line start. `a\rUid:\t0\t0\t0` (14 bytes) then
    defeats `(?m)^Uid:`; the binary open mode (`statusBinary`, a translator fact) is part of
    `cfg_good` for this reason. -/
def cfgTextMode : Cfg := { cfg with statusBinary := false }

theorem C06_text_mode_counterexample : ¬ UidsExact cfgTextMode := by
  intro h
  have h1 := h (witnessStatus nameCrUid) (witnessStatus_wf _)
  have h2 : uids cfgTextMode (renderStatus (witnessStatus nameCrUid)) = .ok (0, 0, 0) := by
    rw [witnessStatus_bytes]; decide
  rw [h2] at h1
  revert h1; decide

/-! ## the hypotheses are satisfiable (non-vacuity) -/

example : witnessThread.WF := witnessThread_wf
example : (witnessStatus nameUid).WF ∧ (witnessStatus nameUid).WFCtx :=
  ⟨witnessStatus_wf _, by decide, by intro kv h; simp [witnessStatus] at h⟩
/-- a status record with "other" lines meeting `OtherLine` and `NoCtxHit` -/
example : ∃ r : StatusRec, r.pre ≠ [] ∧ r.WF ∧ r.WFCtx := by
  refine ⟨{ witnessStatus nameUid with pre := [([80, 105, 100], [55])] }, by simp, ?_, by decide, ?_⟩
  · intro kv h
    simp [witnessStatus] at h
    subst h
    refine ⟨by decide, by decide, by decide, by decide, by decide, by decide⟩
  · intro kv h
    simp [witnessStatus] at h
    subst h
    exact noHit_of_no_x _ (by decide)
/-- the theorems apply to the hostile witnesses themselves -/
example : uids cfg (renderStatus (witnessStatus nameUid)) = .ok (1234, 1234, 1234) :=
  C06_status_extract.1 _ (witnessStatus_wf _)
example : threads cfg 100 [(7, renderStat witnessThread)] = .ok [⟨7, (300 : Nat) / (100 : Nat), (400 : Nat) / (100 : Nat)⟩] :=
  C06_threads_exact 100 [witnessThread] (by intro r hr; simp at hr; subst hr; exact witnessThread_wf)

end Psutil.C06
