/-
  Props/C16.lean — property theorems for C16 (oneshot()/as_dict() change speed, never answers;
  safe across threads). Helper lemmas: Proofs/C16Seq.lean (sequential refinement) and
  Proofs/C16Conc.lean (invariant of the small-step model).

  `cfg`, `ccfgFront`, `ccfgProc` are built from Generated/C16.lean, which the translator rewrites
  from /repo's source on every run. `cfg_good` / `ccfg_good` are the proof obligations that break
  when a decorator is dropped, an activate/deactivate list changes, the nesting test or the
  `finally` disappears, as_dict's validation or exception policy changes, or the wrapper's
  case-3 store goes back to re-loading `self._cache`.
-/
import PsutilModel.Proofs.C16Seq
import PsutilModel.Proofs.C16Conc
import PsutilModel.Proofs.C16Lock
import PsutilModel.Proofs.C16Conc2
import PsutilModel.Proofs.C16Nest
import PsutilModel.Proofs.C16Owner
import PsutilModel.Proofs.C16Locks
import PsutilModel.Proofs.C16Reads
import PsutilModel.Model.C16Gen
import PsutilModel.Proofs.C16Rec
import PsutilModel.Model.C16RecGen
import PsutilModel.Proofs.C16Act
import PsutilModel.Model.C16ActGen
namespace Psutil.C16
open Spec

/- =========================================================================================
   Part 1 — sequential histories
   ========================================================================================= -/

theorem cfg_good : cfg.Good := by decide

/-- every row of the translator's method table was understood (no unknown file / memo function) -/
theorem cfg_meths_complete : cfg.meths.length = Gen.C16.meths.length := by decide

/-- no token of any translator list was dropped by the parsers of Model/C16Gen.lean (an unknown file, memo function or
    exception class would silently disappear from `cfg` otherwise) -/
theorem cfg_lists_complete :
    cfg.memoProc.length = Gen.C16.memoProc.length ∧ cfg.memoFront.length = Gen.C16.memoFront.length ∧
    cfg.frontActivate.length = Gen.C16.frontActivate.length ∧
    cfg.frontDeactivate.length = Gen.C16.frontDeactivate.length ∧
    cfg.procActivate.length = Gen.C16.procActivate.length ∧
    cfg.procDeactivate.length = Gen.C16.procDeactivate.length ∧
    cfg.adCatches.length = Gen.C16.adCatches.length ∧
    Gen.C16.methAlt.all (fun r => (cfg.meths.find? (fun m => m.name == r.1)).any (fun m => m.alt.isSome)) = true := by
  decide

/-- **the method table agrees with the documentation** (docs/index.rst, table of `oneshot()`, column Linux —
    `Spec.docGroups`, written from the docs): every modelled method the docs put into the stat / status / smaps group
    reads that record FIRST (through the cached helper: `cfg_good.memoProc`), and a method that tries another file
    first falls back to the documented one. Pins the per-method `srcs` of the translator's table, which model and
    specification share. -/
theorem cfg_doc_groups :
    docGroups.all (fun g => g.2.all (fun n =>
      match cfg.meths.find? (fun m => m.name == n) with
      | some m => m.srcs.head? == some g.1
      | none => true)) = true ∧
    (docGroups.flatMap (·.2)).filter (fun n => (cfg.meths.find? (fun m => m.name == n)).isSome) =
      ["cpu_num", "cpu_times", "name", "ppid", "gids", "num_ctx_switches", "num_threads", "uids", "username",
       "memory_full_info", "memory_maps"] := by decide

/-- **value at first read.** For EVERY history (enter, exit normally or by exception, nested
    blocks, calls, content changes, EACCES, zombie, gone, as_dict anywhere) the transcription of
    memoize_when_activated/oneshot/as_dict answers exactly what the specification answers, where
    the specification freezes, per outermost block, the content delivered by the first
    successful read of each block-cached source (and the first result of the four cached front-end
    methods) and reads everything else from the world at the instant of the call. Read counts
    agree as well. -/
theorem C16_value_at_first_read (ops : List Op) :
    outs cfg Sys.init ops = outsS cfg SSt.init World.init ops ∧
    (runAll cfg Sys.init ops).st.reads = (runS cfg SSt.init World.init ops).1.reads :=
  ⟨refines cfg cfg_good ops, refines_reads cfg cfg_good ops⟩

/-- in the specification a frozen content is never overwritten while the block stays open … -/
theorem C16_frozen_never_overwritten (ops : List Op) (d : Nat) (hd : 1 ≤ d) (ss : SSt) (w : World)
    (s : Src) (c0 : Content) (hdep : ss.depth = d) (hf : ss.frozenSrc s = some c0)
    (hin : staysIn d ops = true) : (runS cfg ss w ops).1.frozenSrc s = some c0 :=
  frozen_stable cfg ops d hd ss w s c0 hdep hf hin

/-- … and it is the world's content at the very read that froze it (a failed read freezes nothing) -/
theorem C16_frozen_is_first_read (ss : SSt) (w : World) (x s : Src) (c0 : Content)
    (h0 : ss.frozenSrc s = none) (h1 : (readSrc ss w x).1.frozenSrc s = some c0) :
    x = s ∧ w.read s = .ok c0 ∧ (readSrc ss w x).2 = .ok c0 :=
  frozen_from_world ss w x s c0 h0 h1

/-- no AttributeError ever escapes `oneshot().__exit__` (the repeated `del` is swallowed) -/
theorem C16_exit_never_raises (ops : List Op) : ∀ o ∈ outs cfg Sys.init ops, o ≠ Out.attributeError :=
  no_attributeError cfg cfg_good ops

/-- **read at most once.** Inside one outermost block — whatever happens in it: nested blocks,
    as_dict, content changes, failing reads, zombie/gone transitions — each of stat, status and
    smaps is successfully read by the object's read routines at most once. -/
theorem C16_read_at_most_once (pre blk : List Op) (s : Src) (hs : blockCached s = true)
    (hout : (runAll cfg Sys.init pre).st.stack = []) (hin : staysIn 1 blk = true) :
    (runAll cfg Sys.init (pre ++ Op.enter :: blk)).st.reads s ≤ (runAll cfg Sys.init pre).st.reads s + 1 :=
  read_at_most_once cfg cfg_good pre blk s hs hout hin

example : staysIn 1 [.call 0, .enter, .setVer .stat 9, .call 1, .exit true, .call 0] = true := by decide
example : blockCached .stat = true ∧ blockCached .status = true ∧ blockCached .smaps = true := by decide

/-- the literal, file-level reading ("/proc/<pid>/stat is OPENED at most once per block") -/
def C16_stat_opened_at_most_once_Literal : Prop :=
  ∀ (pre blk : List Op), (runAll cfg Sys.init pre).st.stack = [] → staysIn 1 blk = true →
    let a := (runAll cfg Sys.init pre).st
    let b := (runAll cfg Sys.init (pre ++ Op.enter :: blk)).st
    (b.reads .stat + b.probes) ≤ (a.reads .stat + a.probes) + 1

/-- … is false of the code: probes that must be fresh bypass the cache. `with p.oneshot():
    p.name(); p.ppid()` opens stat twice (ppid()'s PID-reuse check builds a fresh Process(pid)). -/
theorem C16_probes_bypass_cache : ¬ C16_stat_opened_at_most_once_Literal := by
  intro h
  have := h [] [.call 0, .call 1] rfl (by decide)
  revert this
  decide

/-- the rows of the generated method table that read `stat` past the cache: `ppid()` re-validates the
    PID (`_raise_if_pid_reused()` → `is_running()` → fresh `Process(pid)`), `memory_maps()` and
    `cmdline()` call `_is_zombie()` when their file came back empty -/
theorem C16_probing_methods :
    (cfg.meths.filter (fun m => m.guard)).map (·.name) = ["ppid"] ∧
    (cfg.meths.filter (fun m => m.zprobe)).map (·.name) = ["memory_maps", "cmdline"] := by decide

/-- **what is read once and what is re-read** (exact region of finding C16-probe-rereads-stat).
    (1) The CACHED READ ROUTINES (`_parse_stat_file`, `_read_status_file`, `_read_smaps_file`) run at
        most once per outermost block, whatever happens in it.
    (2) A block in which no identity-probing / zombie-probing method is called (directly or through
        as_dict) opens `stat` at most once in total: outside the region the literal file-level
        statement holds.
    (3) What IS re-read: a call whose front-end method re-validates the PID performs exactly one
        fresh `stat` read per computation while the process directory exists (never through the
        cache — C01 needs that read to be fresh: a cached answer is what let signals reach a
        recycled PID in seeded change C01-1), plus at most one `_is_zombie()` read for the methods
        that check for a zombie; nothing else probes.
    (4) A front-end cache hit (second `ppid()` in a block) reads and probes nothing. -/
theorem C16_reads_characterised :
    (∀ (pre blk : List Op) (s : Src), blockCached s = true → (runAll cfg Sys.init pre).st.stack = [] →
      staysIn 1 blk = true →
      (runAll cfg Sys.init (pre ++ Op.enter :: blk)).st.reads s ≤ (runAll cfg Sys.init pre).st.reads s + 1) ∧
    (∀ (pre blk : List Op), (pre ++ Op.enter :: blk).all (cleanOp cfg) = true →
      (runAll cfg Sys.init pre).st.stack = [] → staysIn 1 blk = true →
      let a := (runAll cfg Sys.init pre).st
      let b := (runAll cfg Sys.init (pre ++ Op.enter :: blk)).st
      b.probes = 0 ∧ (b.reads .stat + b.probes) ≤ (a.reads .stat + a.probes) + 1) ∧
    (∀ (m : Meth) (st : St) (w : World),
      (frontGuarded cfg m st w).1.probes ≤ st.probes + (if guardRuns m w then 1 else 0) + (if m.zprobe then 1 else 0) ∧
      (m.guard = true → m.zprobe = false → w.st ≠ PState.gone → (frontGuarded cfg m st w).1.probes = st.probes + 1) ∧
      (m.guard = false → m.zprobe = false → (call cfg m st w).1.probes = st.probes)) ∧
    (∀ (m : Meth) (st : St) (w : World) (f : FFun) (d : List (FFun × Val)) (v : Val), m.front = some f →
      st.cache = some d → d.lookup f = some v → call cfg m st w = (st, .ok v)) := by
  refine ⟨fun pre blk s hs hout hin => read_at_most_once cfg cfg_good pre blk s hs hout hin,
    fun pre blk hcl hout hin => ?_, fun m st w => ⟨(frontGuarded_probes cfg m st w).1, fun hg hz hw => ?_,
      fun hg hz => call_probes_clean cfg m st w hg hz⟩,
    fun m st w f d v hf hc hl => call_hit_noop cfg m st w f d v hf (cfg_good.mf f) hc hl⟩
  · have hp1 : (runAll cfg Sys.init (pre ++ Op.enter :: blk)).st.probes = 0 :=
      runAll_probes_clean cfg cfg_good.vfirst _ Sys.init hcl
    have hpre : pre.all (cleanOp cfg) = true := by
      simp only [List.all_append, Bool.and_eq_true] at hcl; exact hcl.1
    have hp0 : (runAll cfg Sys.init pre).st.probes = 0 := runAll_probes_clean cfg cfg_good.vfirst _ Sys.init hpre
    have hr := read_at_most_once cfg cfg_good pre blk .stat rfl hout hin
    simp only
    rw [hp1, hp0]
    exact ⟨rfl, by omega⟩
  · have hb := frontGuarded_probes cfg m st w
    have hgr : guardRuns m w = true := by
      unfold guardRuns; cases hws : w.st <;> simp_all
    have hgone : (m.goneCheck && w.st == PState.gone) = false := by
      cases hws : w.st <;> simp_all
    rw [hgr, hz, hgone] at hb
    simp only [if_true, Bool.false_eq_true, if_false, Nat.add_zero] at hb
    omega

example : cleanOp cfg (.call 0) = true ∧ cleanOp cfg (.call 1) = false := by decide

/- ---- two recorded deviations from the LITERAL wording of clause 1 ("every method returns what it would return … at the
   moment its underlying source was first read in that block"). `C16_value_at_first_read` is proved against a
   specification that shares the method table with the model and freezes exactly the three records the property names
   (+ the four front-end results oneshot()'s comments name); it therefore cannot see the two cases below, which are
   stated here against the wording itself and refuted on the code as it is. ---- -/

/-- the value of a successful call -/
def okVal : Out → Option Val
  | .ret (.ok v) => some v
  | _ => none

/-- literal clause 1 for the two methods that share /proc/<pid>/statm: inside one block memory_full_info() (row 10)
    reports, for statm, the content memory_info() (row 9) was given earlier in that block -/
def C16_statm_one_content_per_block_Full : Prop :=
  ∀ (blk : List Op) (i j : Nat) (v1 v2 : Val), staysIn 1 blk = true → i < j →
    blk[i]? = some (.call 9) → blk[j]? = some (.call 10) →
    ((outs cfg Sys.init (.enter :: blk))[i + 1]?).bind okVal = some v1 →
    ((outs cfg Sys.init (.enter :: blk))[j + 1]?).bind okVal = some v2 → v2.getLast? = v1.head?

/-- … is false of the code (finding C16-statm-reread-in-block): the platform memory_full_info() calls the PLATFORM
    memory_info(), which is not memoised (only the front-end memory_info() is), so statm is read again and a change
    in between shows: `with p.oneshot(): p.memory_info(); <statm changes>; p.memory_full_info()`. statm is not one
    of the three records the property lists for "read at most once"; only the value clause is concerned. -/
theorem C16_statm_reread_in_block : ¬ C16_statm_one_content_per_block_Full := by
  intro h
  have := h [.call 9, .setVer .statm 2, .call 10] 0 2 [.data 1] [.data 1, .data 2] (by decide) (by decide) rfl rfl
    (by decide) (by decide)
  revert this
  decide

example : (cfg.meths[9]?).map (·.name) = some "memory_info" ∧ (cfg.meths[10]?).map (·.name) = some "memory_full_info" ∧
    (cfg.meths[0]?).map (·.name) = some "name" ∧ (cfg.meths[1]?).map (·.name) = some "ppid" := by decide

/-- literal clause 1 for a guarded method: once name() (row 0) has read `stat` in a block, ppid() (row 1, same record)
    answers from that first read for the rest of the block -/
def C16_guarded_answers_from_first_read_Full : Prop :=
  ∀ (blk : List Op) (i j : Nat) (v1 : Val), staysIn 1 blk = true → i < j →
    blk[i]? = some (.call 0) → blk[j]? = some (.call 1) →
    ((outs cfg Sys.init (.enter :: blk))[i + 1]?).bind okVal = some v1 →
    ((outs cfg Sys.init (.enter :: blk))[j + 1]?).bind okVal = some v1

/-- … is false of the code, by design (finding C16-guard-reports-gone-now): ppid() first re-validates the PID
    (`_raise_if_pid_reused()`), and since C01's fix that guard raises NoSuchProcess for a process `is_running()` has
    seen gone — a truthful answer about NOW instead of the block's frozen `stat`. (A front-end cache HIT — ppid() called
    before the process went — still answers from the first read: `C16_reads_characterised` (4).) -/
theorem C16_guard_reports_gone_now : ¬ C16_guarded_answers_from_first_read_Full := by
  intro h
  have := h [.call 0, .setState .gone, .call 1] 0 2 [.data 1] (by decide) (by decide) rfl rfl (by decide)
  revert this
  decide

/-- the translator fact behind it is pinned: the guard refuses a process seen gone (C01's landed fix) -/
theorem cfg_guard_raises_when_gone : Gen.C16.guardRaisesWhenGone = true := by decide

/-- **smaps_rollup and its fallback** (`Meth.alt`/`Meth.eff`): memory_full_info() reads smaps_rollup and statm where the
    kernel offers the file for a live process, smaps (through the cached helper) and statm otherwise; no other
    modelled method has a tried-first file. Both worlds are histories of the model (`Op.setAbsent`), so every
    sequential theorem covers both. -/
theorem cfg_rollup_paths :
    (cfg.meths.filter (fun m => m.alt.isSome)).map (fun m => (m.name, m.alt, m.srcs)) =
      [("memory_full_info", some Src.rollup, [Src.smaps, Src.statm])] ∧
    (∀ m ∈ cfg.meths, ∀ w : World, w.absent .rollup = true → m.eff w = m.srcs) ∧
    (∀ w : World, w.absent .rollup = false → w.st = .alive →
      (cfg.meths[10]?).map (fun m => m.eff w) = some [Src.rollup, Src.statm]) := by
  refine ⟨by decide, ?_, ?_⟩
  · intro m hm w hw
    have hall : cfg.meths.all (fun m => m.alt == none || m.alt == some Src.rollup) = true := by decide
    have := List.all_eq_true.mp hall m hm
    unfold Meth.eff
    cases ha : m.alt with
    | none => rfl
    | some a =>
      rw [ha] at this
      have : a = Src.rollup := by simpa using this
      subst this
      simp [hw]
  · intro w hw hst
    have : (cfg.meths[10]?) = some ⟨"memory_full_info", none, false, false, [.smaps, .statm], false, some .rollup⟩ := by decide
    rw [this]
    simp [Meth.eff, hw, hst]

example : okVal ((outs cfg Sys.init [.call 10, .setAbsent .rollup true, .call 10, .setVer .rollup 7, .call 10])[0]?.getD .unit) =
    some [.data 1, .data 1] := by decide

/-- **fresh after exit.** Outside every block a call's result depends on the current world only
    (`bodyG` = the method computed from scratch on a fresh specification state) … -/
theorem C16_fresh_after_exit (ops : List Op) (m : Meth)
    (hout : (runAll cfg Sys.init ops).st.stack = []) :
    (call cfg m (runAll cfg Sys.init ops).st (runAll cfg Sys.init ops).w).2 =
      (bodyG m SSt.init (runAll cfg Sys.init ops).w).2 :=
  fresh_after_exit cfg cfg_good ops m hout

/-- … because leaving the outermost level drops both caches, normally (`b = false`) and by an
    exception propagating out of the body (`b = true`) alike. -/
theorem C16_fresh_after_exit_both_ways (ops : List Op) (b : Bool)
    (h1 : (runAll cfg Sys.init ops).st.stack = [true]) :
    let st' := (exit cfg (runAll cfg Sys.init ops).st b).1
    st'.cache = none ∧ st'.pcache = none ∧ st'.stack = [] :=
  exit_outermost_clears cfg cfg_good ops b h1

example : (runAll cfg Sys.init [.enter, .call 0]).st.stack = [true] := by decide

/-- **nesting changes nothing.** Entering and leaving a nested block leaves caches, stack and
    counters exactly as they were. -/
theorem C16_nested_noop (ops : List Op) (b : Bool) (hin : (runAll cfg Sys.init ops).st.stack ≠ []) :
    exit cfg (enter cfg (runAll cfg Sys.init ops).st) b = ((runAll cfg Sys.init ops).st, true) :=
  nested_noop cfg cfg_good ops b hin

/-- **as_dict validates first.** A non-collection → TypeError, an unknown name → ValueError, and
    the state (caches, read counters, probe counter) is untouched: nothing was queried. -/
theorem C16_as_dict_validates_first (a : AsDictArg) (st : St) (w : World) :
    (a.kind = .nonCollection → asDict cfg a st w = (st, .typeError)) ∧
    (a.kind = .names → invalidNames cfg a = true → asDict cfg a st w = (st, .valueError)) :=
  ⟨asDict_typeError cfg cfg_good a st w, asDict_valueError cfg cfg_good a st w⟩

/-- **as_dict keys.** Explicit request: exactly the requested names. `None` or an empty
    collection: the valid names, all of them unless one raised NotImplementedError. -/
theorem C16_as_dict_keys (a : AsDictArg) (st st' : St) (w : World) (kvs : List (String × DVal))
    (h : asDict cfg a st w = (st', .dict kvs)) :
    (a.kind = .names → a.attrs ≠ [] → kvs.map Prod.fst = a.attrs) ∧
    ((a.kind = .none ∨ a.attrs = []) → a.kind ≠ .nonCollection →
        (kvs.map Prod.fst).Sublist a.allOrder ∧
        ((∀ n ∈ a.allOrder, a.env.lookup n ≠ some .notimpl) → kvs.map Prod.fst = a.allOrder)) :=
  ⟨fun hk hne => asDict_keys_explicit cfg cfg_good a st w st' kvs hk hne h,
   fun himp hnc => ⟨asDict_keys_all cfg cfg_good a st w st' kvs himp hnc h,
                    fun hni => asDict_keys_all_eq cfg cfg_good a st w st' kvs himp hnc h hni⟩⟩

/-- **as_dict policy, the "never escape" half only** (the full per-name policy is `C16_as_dict_per_name_policy`).
    AccessDenied and ZombieProcess never come out of as_dict (they become
    ad_value; the full per-name policy — NoSuchProcess propagates, NotImplementedError skipped
    unless asked for — is the specification's `loopS`, which `C16_value_at_first_read` shows the
    code follows), and no modelled method raises NotImplementedError. -/
theorem C16_as_dict_policy (a : AsDictArg) (st : St) (w : World) :
    (asDict cfg a st w).2 ≠ .raised .accessDenied ∧ (asDict cfg a st w).2 ≠ .raised .zombieProcess :=
  asDict_never_accessDenied cfg cfg_good a st w

/-- what counts as a collection for as_dict: exactly the four types the harness maps to kind
    `names` (list, tuple, set, frozenset); str, bytes, dict, dict views, range, deque, generators
    and everything else are kind `nonCollection` (TypeError) -/
theorem cfg_collection_types : Gen.C16.collectionTypes = ["list", "tuple", "set", "frozenset"] := by decide

/-- **which names as_dict() may call** (obligation on `_as_dict_attrnames`): the set is dir(Process) minus the
    underscore names minus the exclusion set in the source (runtime dump = static extraction), it contains none of
    the attributes that are not read-only getters (`Spec.notGetters`, written from the documentation: as_dict() never
    calls kill(), wait(), …), it is what the model validates against, and the loop runs inside `with self.oneshot()`. -/
theorem cfg_valid_names :
    Gen.C16.validNames = Gen.C16.publicAttrs.filter (fun n => !Gen.C16.asDictExcluded.contains n) ∧
    notGetters.all (fun n => !Gen.C16.validNames.contains n) = true ∧
    notGetters.all (fun n => Gen.C16.asDictExcluded.contains n || !Gen.C16.publicAttrs.contains n) = true ∧
    cfg.validNames = Gen.C16.validNames ∧ Gen.C16.asDictUsesOneshot = true := by decide

/-- **as_dict, per-name policy (one loop iteration, any position, any accumulated prefix).** A value
    is kept under its name; AccessDenied and ZombieProcess become ad_value under that name and the
    loop goes on; NoSuchProcess propagates at once; NotImplementedError propagates when names were
    explicitly requested and otherwise drops just that name. -/
theorem C16_as_dict_per_name_policy (env : List (String × EnvOut)) (ex : Bool) (w : World) (st : St)
    (n : String) (rest : List String) (acc : List (String × DVal)) :
    asDictLoop cfg env ex w st (n :: rest) acc =
      match evalName cfg env st w n with
      | (st1, .ok v) => asDictLoop cfg env ex w st1 rest ((n, v) :: acc)
      | (st1, .error .accessDenied) => asDictLoop cfg env ex w st1 rest ((n, .adValue) :: acc)
      | (st1, .error .zombieProcess) => asDictLoop cfg env ex w st1 rest ((n, .adValue) :: acc)
      | (st1, .error .noSuchProcess) => (st1, .raised .noSuchProcess)
      | (st1, .error .notImplemented) =>
        if ex then (st1, .raised .notImplemented) else asDictLoop cfg env ex w st1 rest acc := by
  have hA : cfg.adCatches = [.accessDenied, .zombieProcess] := by decide
  have hN : cfg.notImplSkips = true := by decide
  rw [asDictLoop]
  rcases evalName cfg env st w n with ⟨st1, r⟩
  cases r with
  | ok v => rfl
  | error e => cases e <;> cases ex <;> simp [hA, hN]

/- =========================================================================================
   Part 2 — threads: all interleavings of the small-step model
   ========================================================================================= -/
end Psutil.C16

namespace Psutil.C16.Conc

/-- what the theorems need of the extracted facts -/
def CCfg.Good (c : CCfg) : Prop :=
  c.delGuard = true ∧ c.storeGuard = true ∧ c.storeReloads = false ∧ 1 ≤ c.nAct ∧ 1 ≤ c.nDeact

instance (c : CCfg) : Decidable c.Good := by unfold CCfg.Good; infer_instance

theorem ccfg_good : ccfgFront.Good ∧ ccfgProc.Good := by decide

/-- **no spurious error.** In every state reachable under ANY interleaving of any number of
    threads (plain callers, block owners contending for the lock) and any world changes, no
    thread has let an AttributeError/KeyError escape. -/
theorem C16_no_spurious_error (c : CCfg) (hd : c.delGuard = true)
    (hs : c.storeReloads = false ∨ c.storeGuard = true) {s : St} (h : Reach c s) (tid : Nat) :
    (s.thr tid).pc ≠ .err := by
  intro he
  have := (reach_inv h).1.thr tid
  rw [he] at this
  simp only [TInv] at this
  cases this with
  | inl h1 => rw [hd] at h1; cases h1
  | inr h2 =>
    cases hs with
    | inl h3 => rw [h3] at h2; cases h2.1
    | inr h3 => rw [h3] at h2; cases h2.2

theorem C16_no_spurious_error_front {s : St} (h : Reach ccfgFront s) (tid : Nat) : (s.thr tid).pc ≠ .err :=
  C16_no_spurious_error _ ccfg_good.1.1 (Or.inr ccfg_good.1.2.1) h tid

theorem C16_no_spurious_error_proc {s : St} (h : Reach ccfgProc s) (tid : Nat) : (s.thr tid).pc ≠ .err :=
  C16_no_spurious_error _ ccfg_good.2.1 (Or.inr ccfg_good.2.2.1) h tid

/-- **lock protocol.** Under every interleaving: while the lock is free the `_cache` attribute is
    absent; at most one thread is inside a block; and the "already inside" branch of the
    `hasattr(self, "_cache")` nesting test is never taken by a (non-nested) enter — no thread ever
    mistakes another thread's cache for its own enclosing block. -/
theorem C16_lock_protocol (c : CCfg) (hnd : 1 ≤ c.nDeact) {s : St} (h : Reach c s) :
    (s.lock = none → s.attr = none) ∧
    (∀ i j, (s.thr i).mode ≠ .out → (s.thr j).mode ≠ .out → i = j) ∧
    (∀ i, (s.thr i).mode ≠ .inNoop) := by
  have hI := reach_linv hnd h
  refine ⟨hI.free, fun i j hi hj => ?_, hI.noNoop⟩
  have h1 := hI.own i (by simp [ownerish, hi])
  have h2 := hI.own j (by simp [ownerish, hj])
  rw [h1] at h2
  exact Option.some.inj h2

theorem C16_lock_protocol_front {s : St} (h : Reach ccfgFront s) : s.lock = none → s.attr = none :=
  (C16_lock_protocol _ ccfg_good.1.2.2.2.2 h).1

theorem C16_lock_protocol_proc {s : St} (h : Reach ccfgProc s) : s.lock = none → s.attr = none :=
  (C16_lock_protocol _ ccfg_good.2.2.2.2.2 h).1

/-- the pre-#1948 wrapper (store not guarded): a plain call racing with a block exit lets an
    AttributeError escape -/
def cfgNoGuard : CCfg := ⟨3, 3, true, false, true, false⟩
def stp (t : Nat) : Action := .thr t .step
def blockIn (t : Nat) : List Action := [.thr t .acquire, stp t, stp t, stp t, stp t, stp t]
def blockOut (t : Nat) : List Action := [.thr t .beginExit, stp t, stp t, stp t, stp t, stp t]
def raceActs : List Action := blockIn 0 ++ [.thr 1 (.call 0), stp 1, stp 1, stp 1] ++ blockOut 0 ++ [stp 1]

theorem C16_issue1948_needs_guard : ∃ s, Reach cfgNoGuard s ∧ (s.thr 1).pc = .err :=
  ⟨runD cfgNoGuard St.init raceActs, reach_runD raceActs Reach.init, by decide⟩

/-- **valid at some moment (interval form).** When a call returns, the value is what its source
    held at an instant `t ≤ now` with either `t` inside the call (`cs ≤ t`: it was computed during
    the call) or the value came out of a dict that was the object's `_cache` at an instant `t0` of
    the call and `t` is not older than that dict, i.e. than the activation of the block whose
    cache served it. Holds under every interleaving, for any number of threads and calls. -/
theorem C16_value_valid_at_some_moment (c : CCfg) (hr : c.storeReloads = false) {s : St}
    (h : Reach c s) (tid f cs : Nat) (e : Entry) (how : How) (hpc : (s.thr tid).pc = .ret f cs e how) :
    IntervalForm s f cs e how := by
  have hT := (reach_inv h).1.thr tid
  rw [hpc] at hT
  simp only [TInv] at hT
  obtain ⟨⟨h1, h2⟩, h3⟩ := hT
  refine ⟨e.tr, h1, h2, ?_⟩
  cases how with
  | computed => exact Or.inl h3
  | hit d t0 =>
    obtain ⟨a, b, _, d', e'⟩ := h3
    exact Or.inr ⟨d, t0, rfl, a, b, d', e' hr⟩

theorem C16_value_valid_front {s : St} (h : Reach ccfgFront s) (tid f cs : Nat) (e : Entry) (how : How)
    (hpc : (s.thr tid).pc = .ret f cs e how) : IntervalForm s f cs e how :=
  C16_value_valid_at_some_moment _ ccfg_good.1.2.2.1 h tid f cs e how hpc

theorem C16_value_valid_proc {s : St} (h : Reach ccfgProc s) (tid f cs : Nat) (e : Entry) (how : How)
    (hpc : (s.thr tid).pc = .ret f cs e how) : IntervalForm s f cs e how :=
  C16_value_valid_at_some_moment _ ccfg_good.2.2.2.1 h tid f cs e how hpc

/-- whatever the wrapper's shape: a returned value is a content the source really had, not
    later than the return, and a value computed by the call itself was read during the call -/
theorem C16_value_valid_weak (c : CCfg) {s : St} (h : Reach c s) (tid f cs : Nat) (e : Entry) (how : How)
    (hpc : (s.thr tid).pc = .ret f cs e how) :
    ∃ t, t ≤ s.now ∧ s.hist t f = e.val ∧ (how = .computed → cs ≤ t) := by
  have hT := (reach_inv h).1.thr tid
  rw [hpc] at hT
  simp only [TInv] at hT
  obtain ⟨⟨h1, h2⟩, h3⟩ := hT
  refine ⟨e.tr, h1, h2, fun hc => ?_⟩
  subst hc
  exact h3

/-- the wrapper before the repair (case-3 store through a re-loaded `self._cache`) and after -/
def cfgReload : CCfg := ⟨3, 3, true, true, true, false⟩
def cfgFixed : CCfg := ⟨3, 3, false, true, true, false⟩

/-- thread 1's call straddles two blocks of thread 0: it looks up block 1's dict, reads, and
    stores into block 2's dict; thread 0 then hits that value inside block 2 -/
def staleActs : List Action :=
  blockIn 0 ++ [.thr 1 (.call 0), stp 1, stp 1, stp 1] ++ blockOut 0 ++ [.setVer 0 7] ++ blockIn 0 ++
  [stp 1, stp 1, stp 1, .thr 0 (.call 0), stp 0, stp 0]

/-- the interval form as a statement about a configuration -/
def C16_IntervalStatement (c : CCfg) : Prop :=
  ∀ (s : St) (tid f cs : Nat) (e : Entry) (how : How), Reach c s →
    (s.thr tid).pc = .ret f cs e how → IntervalForm s f cs e how

/-- with the re-loading store the interval form FAILS: inside its second block thread 0 is
    handed a content that `stat` had only before that block was entered -/
theorem C16_interval_needs_same_dict_store : ¬ C16_IntervalStatement cfgReload := by
  intro h
  have h1 := h (runD cfgReload St.init staleActs) 0 0 26 ⟨0, 9⟩ (.hit 5 27)
    (reach_runD staleActs Reach.init) (by decide)
  have h2 := intervalOK_of h1
  revert h2
  decide

/-- after the repair the same schedule is harmless (thread 0 reads afresh) -/
example : ((runD cfgFixed St.init staleActs).thr 0).pc = .w2 0 25 (some (5, 26)) := by decide

/-- the literal cross-thread clause: valid at some moment of the call itself -/
def C16_value_valid_Literal (c : CCfg) : Prop :=
  ∀ (s : St) (tid f cs : Nat) (e : Entry) (how : How), Reach c s →
    (s.thr tid).pc = .ret f cs e how → LiteralForm s f cs e

/-- thread 0 caches content 5 inside its block; the content changes; thread 1 starts a call and
    hits the cached 5 -/
def hitActs : List Action :=
  blockIn 0 ++ [.setVer 0 5, .thr 0 (.call 0), stp 0, stp 0, stp 0, stp 0, stp 0, .setVer 0 6,
                .thr 1 (.call 0), stp 1, stp 1]

/-- the literal form is false of oneshot's design (the cache is shared between threads), before
    and after the repair: a plain call that HITS returns what the source held when the block
    owner read it, possibly before the plain call began -/
theorem C16_literal_counterexample : ¬ C16_value_valid_Literal cfgFixed ∧ ¬ C16_value_valid_Literal cfgReload := by
  constructor
  · intro h
    have h1 := h (runD cfgFixed St.init hitActs) 1 0 14 ⟨5, 10⟩ (.hit 2 15)
      (reach_runD hitActs Reach.init) (by decide)
    have h2 := literalOK_of h1
    revert h2
    decide
  · intro h
    have h1 := h (runD cfgReload St.init hitActs) 1 0 14 ⟨5, 10⟩ (.hit 2 15)
      (reach_runD hitActs Reach.init) (by decide)
    have h2 := literalOK_of h1
    revert h2
    decide

/-- the hypotheses of the interval theorem are satisfiable by a HIT through another thread's cache
    (repaired wrapper), and the interval form then really uses its second disjunct -/
example : ((runD cfgFixed St.init hitActs).thr 1).pc = .ret 0 14 ⟨5, 10⟩ (.hit 2 15) ∧
    intervalOK (runD cfgFixed St.init hitActs) 0 14 ⟨5, 10⟩ (.hit 2 15) = true ∧
    literalOK (runD cfgFixed St.init hitActs) 0 14 ⟨5, 10⟩ = false := by decide

/-- full-strength reading of "value at the first read in that block" under threads: as long as a
    thread stays inside its block, two of its calls of the same function return the same entry -/
def C16_owner_first_read_stable_Full (c : CCfg) : Prop :=
  ∀ (as1 as2 : List Action) (t f cs1 cs2 : Nat) (e1 e2 : Entry) (h1 h2 : How),
    ((runD c St.init as1).thr t) = ⟨.ret f cs1 e1 h1, .inReal⟩ →
    ((runD c (runD c St.init as1) as2).thr t) = ⟨.ret f cs2 e2 h2, .inReal⟩ →
    (.thr t .beginExit) ∉ as2 → e1 = e2

/-- thread 1's plain call misses in thread 0's block dict, thread 0 reads (5) and caches, the
    content changes, thread 1 reads (9) and stores into the SAME dict; thread 0's next call in
    the same block returns 9 -/
def replaceActs1 : List Action :=
  blockIn 0 ++ [.thr 1 (.call 0), stp 1, stp 1, .setVer 0 5, .thr 0 (.call 0), stp 0, stp 0, stp 0, stp 0]
def replaceActs2 : List Action :=
  [.setVer 0 9, stp 1, stp 1, stp 0, .thr 0 (.call 0), stp 0, stp 0]

/-- … is false of the wrapper: it takes no lock, so a
    plain caller that missed before the owner stored overwrites the owner's entry with a LATER
    read. Both values were read inside the block (`C16_value_valid_at_some_moment`), but the
    owner does not keep its first one and the source is read twice during the block
    (finding C16-owner-entry-overwritten). -/
theorem C16_owner_first_read_counterexample : ¬ C16_owner_first_read_stable_Full cfgFixed := by
  intro h
  have := h replaceActs1 replaceActs2 0 0 10 19 ⟨5, 13⟩ ⟨9, 16⟩ .computed (.hit 2 20) (by decide) (by decide) (by decide)
  revert this; decide

/-- for a call that MISSES (computes), the literal form does hold, under every interleaving -/
theorem C16_value_valid_literal_for_misses (c : CCfg) {s : St} (h : Reach c s) (tid f cs : Nat) (e : Entry)
    (hpc : (s.thr tid).pc = .ret f cs e .computed) : LiteralForm s f cs e := by
  obtain ⟨t, h1, h2, h3⟩ := C16_value_valid_weak c h tid f cs e .computed hpc
  exact ⟨t, h3 rfl, h1, h2⟩

end Psutil.C16.Conc

/- =========================================================================================
   Part 3 — threads, TWO cache levels: a front-end memoised method (cpu_times, ppid, uids) whose
   platform helper is itself memoised; front-end `_cache` and `_proc._cache` activated and
   deactivated in the order oneshot() does it (translator facts actOrder / deactOrder)
   ========================================================================================= -/
namespace Psutil.C16.Conc2
open Psutil.C16

/-- what the two-level theorems need of the extracted facts: both levels are deactivated on exit,
    cache_deactivate swallows AttributeError, the wrapper stores into the dict it looked up (the
    shape the model transcribes), `Process._lock` is an RLock (the model's re-entrant acquire), the
    front-end cache is activated at all (what the nesting test looks at), every front-end memoised
    method's source was resolved, and no order token was dropped -/
def Good2 : Prop :=
  ccfg2.Covers ∧ ccfg2.delGuard = true ∧ Gen.C16.storeReloads = false ∧
  Gen.C16.lockReentrant = true ∧ Lvl.front ∈ ccfg2.actSeq ∧
  (List.range ffunNames.length).all (fun f => (fsrcOpt f).isSome) = true ∧
  Gen.C16.memoFront = ffunNames ∧
  ccfg2.actSeq.length = Gen.C16.frontActivate.length + Gen.C16.procActivate.length ∧
  ccfg2.deactSeq.length = Gen.C16.frontDeactivate.length + Gen.C16.procDeactivate.length

instance : Decidable Good2 := by unfold Good2 CCfg2.Covers; infer_instance

theorem ccfg2_good : Good2 := by decide

/-- **no spurious error, two levels.** Under ANY interleaving of any number of threads calling
    methods that go through the front-end cache, the platform cache, both or none, and threads
    entering/leaving oneshot(), no AttributeError escapes `oneshot().__exit__` (and the wrappers
    have no other way to fail: they store into the dict they looked up). -/
theorem C16_no_spurious_error_two_level (c : CCfg2) (hc : c.Covers) (hd : c.delGuard = true) {s : St}
    (h : Reach c s) (tid : Nat) : (s.thr tid).ph ≠ .oerr := by
  intro he
  have hI := (reach_inv hc h).l
  have hl := hI.own tid (by rw [he]; simp)
  have := hI.owner tid hl
  rw [he, hd] at this
  cases this

theorem C16_no_spurious_error_two_level_current {s : St} (h : Reach ccfg2 s) (tid : Nat) :
    (s.thr tid).ph ≠ .oerr :=
  C16_no_spurious_error_two_level _ ccfg2_good.1 ccfg2_good.2.1 h tid

/-- **valid at some moment, two levels (interval form).** When a call returns, its value is what
    its source held at an instant `t ≤ now` with either `t` inside the call, or the value came out of
    a dict — the front-end `_cache` or the platform `_cache` — that existed at an instant `t0` of
    the call, and `t` is not older than the instant at which the block that created that dict took
    the lock. In particular a value that travelled platform dict → front-end dict (stored by
    another thread) is never older than the block whose front-end cache served it. -/
theorem C16_value_valid_at_some_moment_two_level (c : CCfg2) (hc : c.Covers) {s : St} (h : Reach c s)
    (tid g cs : Nat) (e : Entry) (how : How) (hpc : (s.thr tid).pc = .ret g cs e how) :
    IntervalForm s g cs e how := by
  have hD := (reach_inv hc h).d
  have hT := hD.thr tid
  rw [hpc] at hT
  obtain ⟨⟨h1, h2⟩, h3⟩ := hT
  refine ⟨e.tr, h1, h2, ?_⟩
  cases how with
  | computed => exact Or.inl h3
  | hitP d t0 =>
    obtain ⟨⟨a, b, c', d'⟩, e'⟩ := h3
    exact Or.inr ⟨d, t0, Or.inl rfl, a, b, d', (hD.dicts d c').2.1, e'⟩
  | hitF d t0 =>
    obtain ⟨⟨a, b, c', d'⟩, e'⟩ := h3
    exact Or.inr ⟨d, t0, Or.inr rfl, a, b, d', (hD.dicts d c').2.1, e'⟩

theorem C16_value_valid_two_level_current {s : St} (h : Reach ccfg2 s) (tid g cs : Nat) (e : Entry) (how : How)
    (hpc : (s.thr tid).pc = .ret g cs e how) : IntervalForm s g cs e how :=
  C16_value_valid_at_some_moment_two_level _ ccfg2_good.1 h tid g cs e how hpc

/-- a call that computes (misses or finds no cache at both levels) satisfies the literal clause -/
theorem C16_value_valid_literal_for_misses_two_level (c : CCfg2) (hc : c.Covers) {s : St} (h : Reach c s)
    (tid g cs : Nat) (e : Entry) (hpc : (s.thr tid).pc = .ret g cs e .computed) : LiteralForm s g cs e := by
  have hT := (reach_inv hc h).d.thr tid
  rw [hpc] at hT
  obtain ⟨⟨h1, h2⟩, h3⟩ := hT
  exact ⟨e.tr, h3, h1, h2⟩

/-- **lock protocol, two levels, re-entrant lock.** While the lock is free BOTH `_cache` attributes are
    absent; at most one thread is inside (or entering/leaving) a block at any depth; the "already
    inside" branch of the nesting test is taken only by a thread that really has an enclosing block
    of its own (never because of another thread's cache); and whenever an attribute is present its
    dict was created under the current (outermost) lock acquisition. -/
theorem C16_lock_protocol_two_level (c : CCfg2) (hc : c.Covers) {s : St} (h : Reach c s) :
    (s.lock = none → s.attrF = none ∧ s.attrP = none) ∧
    (∀ i j, (s.thr i).ph ≠ .out → (s.thr j).ph ≠ .out → i = j) ∧
    (∀ i, (s.thr i).ph = .inNoop → (s.thr i).stack ≠ []) ∧
    (∀ d, (s.attrF = some d ∨ s.attrP = some d) → s.ep d = s.bstart) := by
  have hI := reach_inv hc h
  refine ⟨hI.l.free, fun i j hi hj => ?_, fun i hi => ?_, fun d hd => ?_⟩
  · have h1 := hI.l.own i hi
    have h2 := hI.l.own j hj
    rw [h1] at h2
    exact Option.some.inj h2
  · have hl := hI.l.own i (by rw [hi]; simp)
    have := hI.l.owner i hl
    rw [hi] at this
    exact this
  · cases hd with
    | inl hd => exact (hI.d.attrF d hd).2
    | inr hd => exact (hI.d.attrP d hd).2

def stp (t : Nat) : Action := .thr t .step
def steps (t n : Nat) : List Action := List.replicate n (stp t)
/-- the generated configuration with today's order spelled out and the cache shared between threads (the
    witnesses below name concrete dict ids and instants and show what sharing allows; the theorems above
    hold for any order and for both settings of `ownerOnly`) -/
def cfgAsIs : CCfg2 :=
  { ccfg2 with actSeq := [.front, .front, .front, .front, .proc, .proc, .proc],
               deactSeq := [.front, .front, .front, .front, .proc, .proc, .proc],
               ownerOnly := false }
/-- enter: acquire, test, 4 + 3 activations, `act []` -/
def blockIn (t : Nat) : List Action := .thr t .acquire :: steps t 9
/-- thread 1's cpu_times() misses the front-end dict, HITS the platform dict filled by thread 0's
    name(), stores the value into the front-end dict; thread 0's cpu_times() then hits it there -/
def crossActs : List Action :=
  blockIn 0 ++ [.setVer 0 5, .thr 0 (.call none 0)] ++ steps 0 5 ++ [.setVer 0 6, .thr 1 (.call (some 0) 0)] ++
  steps 1 5 ++ [.thr 0 (.call (some 0) 0)] ++ steps 0 2

/-- the hypotheses are satisfiable and both hit kinds occur: thread 1 returns a platform-level hit
    (literal form false: read before its call began — finding C16-xthread-hit-predates-call), thread 0 a
    front-end hit of the value thread 1 carried over from the platform dict -/
example : ((runD cfgAsIs St.init crossActs).thr 0).pc = .ret 0 24 ⟨5, 14⟩ (.hitF 3 25) ∧
    ((runD cfgAsIs St.init crossActs).thr 1).pc = .ret 0 18 ⟨5, 14⟩ (.hitP 6 21) ∧
    intervalOK (runD cfgAsIs St.init crossActs) 0 18 ⟨5, 14⟩ (.hitP 6 21) = true ∧
    literalOK (runD cfgAsIs St.init crossActs) 0 18 ⟨5, 14⟩ = false := by decide

/-- were `_proc.oneshot_exit()` missing from the deactivations, the lock protocol would fail: after
    the block the platform cache is still there (and the next block would serve stale stat) -/
def cfgNoProcExit : CCfg2 := { cfgAsIs with deactSeq := [.front, .front, .front, .front] }

theorem C16_two_level_needs_both_deactivations :
    ∃ s, Reach cfgNoProcExit s ∧ s.lock = none ∧ s.attrP ≠ none :=
  ⟨runD cfgNoProcExit St.init (blockIn 0 ++ .thr 0 .beginExit :: steps 0 6), reach_runD _ Reach.init, by decide⟩

/- ---- would `cache.setdefault(fun, ret)` (first store wins, `ret` not rebound) repair finding
   C16-owner-entry-overwritten? No. -/

/-- full-strength statement, two levels: as long as a thread stays inside its block, two returns of
    ONE method (front-end memo function `ff`, source `g`) give the same entry -/
def C16_owner_first_read_stable_two_level_Full (c : CCfg2) : Prop :=
  ∀ (as1 as2 : List Action) (t g cs1 cs2 : Nat) (ff : Option Nat) (e1 e2 : Entry) (h1 h2 : How),
    (as1 ++ as2).all (fun a => match a with
      | .thr t' (.call ff' g') => t' != t || (ff' == ff && g' == g)
      | _ => true) = true →
    ((runD c St.init as1).thr t) = ⟨.inBlock, .ret g cs1 e1 h1, []⟩ →
    ((runD c (runD c St.init as1) as2).thr t) = ⟨.inBlock, .ret g cs2 e2 h2, []⟩ →
    (.thr t .beginExit) ∉ as2 → e1 = e2

/-- the what-if wrapper: `cache.setdefault(fun, ret)` without rebinding `ret` -/
def cfgKeep : CCfg2 := { cfgAsIs with storeKeep := true }

/-- owner (thread 0) misses in its block's platform dict; thread 1's plain name() misses too, reads 5
    and stores FIRST; the content changes; the owner reads 9, its setdefault is a no-op, it returns
    its own 9; its next name() in the same block hits thread 1's 5 — an OLDER content than the one
    it was just given -/
def keepActs1 : List Action :=
  blockIn 0 ++ [.thr 0 (.call none 0), stp 0, stp 0, .setVer 0 5, .thr 1 (.call none 0)] ++ steps 1 4 ++
  [.setVer 0 9, stp 0, stp 0]
def keepActs2 : List Action := [stp 0, .thr 0 (.call none 0), stp 0, stp 0]

/-- first-store-wins WITHOUT rebinding does not make the owner's answers stable (and can hand it
    9 then 5, i.e. go back in time, which the plain store cannot); all other two-level theorems
    hold for it as they hold for every configuration. Rebinding (`ret = cache.setdefault(fun, ret)`)
    would, but then a plain caller that COMPUTED returns another thread's read, possibly made
    before its call began: the literal-for-misses theorems become false. -/
theorem C16_setdefault_keep_does_not_repair : ¬ C16_owner_first_read_stable_two_level_Full cfgKeep := by
  intro h
  have := h keepActs1 keepActs2 0 0 10 23 none ⟨9, 20⟩ ⟨5, 17⟩ .computed (.hitP 6 24) (by decide) (by decide)
    (by decide) (by decide)
  revert this; decide

/-- on the same schedule today's plain store gives the owner 9 twice -/
example : ((runD cfgAsIs (runD cfgAsIs St.init keepActs1) keepActs2).thr 0).pc = .ret 0 23 ⟨9, 20⟩ (.hitP 6 24) := by decide

/- ---- nested blocks, as_dict() from several threads, the re-entrant lock ---- -/

/-- **no deadlock on one object.** The thread that holds `self._lock` (inside `with p.oneshot()` at any
    nesting depth, inside `p.as_dict()`, or inside oneshot()'s own enter/exit code) always has an enabled
    action of its own that brings it strictly closer to releasing the lock: it never waits. So a thread
    blocked in `acquire` — `as_dict()` called while ANOTHER thread's block is open, or two threads
    calling `as_dict()` on the same (shared, e.g. process_iter()'s cached) Process object — waits for
    a thread that can always finish by itself. -/
theorem C16_no_deadlock_two_level (c : CCfg2) (hc : c.Covers) (hd : c.delGuard = true) {s : St} (h : Reach c s)
    (i : Nat) (hl : s.lock = some i) :
    (∃ ch s1, Leaving ch ∧ tstep c s i ch = some s1 ∧ thM c (s1.thr i) < thM c (s.thr i) ∧
      (s1.lock = some i ∨ s1.lock = none)) ∧
    (∃ as : List Action, (∀ a ∈ as, ∃ ch, a = .thr i ch ∧ Leaving ch) ∧ as.length ≤ thM c (s.thr i) ∧
      (runD c s as).lock = none) :=
  ⟨owner_progress hc hd h i hl, owner_can_release hc hd _ h i hl (Nat.le_refl _)⟩

theorem C16_no_deadlock_two_level_current {s : St} (h : Reach ccfg2 s) (i : Nat) (hl : s.lock = some i) :
    ∃ as : List Action, (∀ a ∈ as, ∃ ch, a = .thr i ch ∧ Leaving ch) ∧ (runD ccfg2 s as).lock = none := by
  obtain ⟨as, h1, _, h3⟩ := (C16_no_deadlock_two_level _ ccfg2_good.1 ccfg2_good.2.1 h i hl).2
  exact ⟨as, h1, h3⟩

/-- … and nobody can push the holder back: a step of another thread or a change of the world leaves
    the holder's own state (hence its distance `thM` to the release) untouched -/
theorem C16_holder_undisturbed (c : CCfg2) {s s' : St} (i : Nat) (a : Action) (hs : step c s a = some s')
    (ha : ∀ ch, a ≠ .thr i ch) : s'.thr i = s.thr i :=
  other_keeps_thread i a hs ha

/-- **nesting changes nothing, under threads.** When oneshot() activates the front-end cache at all
    (obligation `ccfg2_good`: `Lvl.front ∈ actSeq`), then under every interleaving a thread that has re-entered
    the lock (nested `with p.oneshot()`, `p.as_dict()` inside its block, at any depth) is always on the "already
    inside" path: it is testing, inside the no-op level, or leaving it — never activating or deactivating a cache —
    the front-end cache of its outermost block is there all the time, and only the outermost level of its stack is
    an activating one. (Only `act`/`deact` steps touch the attributes, so a nested level leaves both caches, their
    dicts and the lock exactly as they were.) -/
theorem C16_nested_noop_two_level (c : CCfg2) (hc : c.Covers) (hF : Lvl.front ∈ c.actSeq) {s : St} (h : Reach c s)
    (i : Nat) (hn : (s.thr i).stack ≠ []) :
    s.attrF ≠ none ∧ s.lock = some i ∧
    ((s.thr i).ph = .test ∨ (s.thr i).ph = .inNoop ∨ (s.thr i).ph = .release) ∧
    shapeOK (s.thr i).stack := by
  have hN := reach_ninv hc hF h
  have hok := hN.ok i
  have hL := (reach_inv hc h).l
  cases hph : (s.thr i).ph with
  | out => rw [hph] at hok; exact absurd hok hn
  | act r => rw [hph] at hok; exact absurd hok.1 hn
  | inBlock => rw [hph] at hok; exact absurd hok.1 hn
  | deact r => rw [hph] at hok; exact absurd hok hn
  | test => rw [hph] at hok; exact ⟨hok hn, hL.own i (by rw [hph]; simp), Or.inl rfl, hN.shape i⟩
  | inNoop => rw [hph] at hok; exact ⟨hok, hL.own i (by rw [hph]; simp), Or.inr (Or.inl rfl), hN.shape i⟩
  | release => rw [hph] at hok; exact ⟨hok hn, hL.own i (by rw [hph]; simp), Or.inr (Or.inr rfl), hN.shape i⟩
  | oerr => rw [hph] at hok; exact absurd hok hn

theorem C16_nested_noop_two_level_current {s : St} (h : Reach ccfg2 s) (i : Nat) (hn : (s.thr i).stack ≠ []) :
    s.attrF ≠ none ∧ s.lock = some i :=
  let r := C16_nested_noop_two_level _ ccfg2_good.1 ccfg2_good.2.2.2.2.1 h i hn
  ⟨r.1, r.2.1⟩

/-- a second thread's as_dict() while thread 0's block is open: its `acquire` is disabled (it waits) -/
example : step cfgAsIs (runD cfgAsIs St.init (blockIn 0)) (.thr 1 .acquire) = none := by decide

/-- thread 0: `with p.oneshot(): p.name(); p.as_dict(["name"])` — the nested level takes the
    "already inside" branch (`inNoop`), its name() is served from the outer block's platform dict, and
    leaving the nested level keeps both caches and the lock -/
def nestedActs : List Action :=
  blockIn 0 ++ [.setVer 0 5, .thr 0 (.call none 0)] ++ steps 0 5 ++
  [.setVer 0 6, .thr 0 .acquire, stp 0, .thr 0 (.call none 0)] ++ steps 0 2

example : (runD cfgAsIs St.init nestedActs).thr 0 = ⟨.inNoop, .ret 0 20 ⟨5, 14⟩ (.hitP 6 21), [true]⟩ := by decide

example : let s := runD cfgAsIs St.init (nestedActs ++ [stp 0, .thr 0 .beginExit, stp 0])
    s.thr 0 = ⟨.inBlock, .idle, []⟩ ∧ s.lock = some 0 ∧ s.attrF = some 3 ∧ s.attrP = some 6 := by decide

/- ---- `cacheOwnerOnly` (fix 447541f, LANDED; was fixes/C16-cache-owner-only.diff): cache_activate tags the dict with the
   activating thread, the wrapper consults / fills the cache only when called by that thread. Fact `cacheOwnerOnly`
   (true for the code as it is: `cfg_cache_owner_only`, `cfg_owner_test`) → `CCfg2.ownerOnly`. All theorems above hold for
   both settings; with `ownerOnly = true` the two former findings are theorems at FULL strength. `cfgAsIs` below is the
   PRE-fix shared cache (`ownerOnly := false`), kept for the counterexamples. ---- -/

/-- the literal cross-thread clause of the property: a value returned to a PLAIN caller (a thread that is
    not inside a oneshot() block of its own) was the content of its source at a moment of the call itself -/
def C16_value_valid_Literal_two_level (c : CCfg2) : Prop :=
  ∀ (s : St) (tid g cs : Nat) (e : Entry) (how : How), Reach c s →
    (s.thr tid).pc = .ret g cs e how → (s.thr tid).ph = .out → LiteralForm s g cs e

/-- … false while the block's dict is shared with plain callers (finding C16-xthread-hit-predates-call;
    witness crossActs: thread 1, outside any block, is handed what thread 0 read before thread 1's call began) -/
theorem C16_literal_two_level_counterexample : ¬ C16_value_valid_Literal_two_level cfgAsIs := by
  intro h
  have h1 := h (runD cfgAsIs St.init crossActs) 1 0 18 ⟨5, 14⟩ (.hitP 6 21) (reach_runD crossActs Reach.init)
    (by decide) (by decide)
  have h2 := literalOK_of h1
  revert h2
  decide

/-- with the owner-only wrapper a plain caller never hits: it always computes … -/
theorem C16_plain_caller_computes_owner_only (c : CCfg2) (ho : c.ownerOnly = true) (hc : c.Covers) {s : St}
    (h : Reach c s) (tid g cs : Nat) (e : Entry) (how : How) (hpc : (s.thr tid).pc = .ret g cs e how)
    (hout : (s.thr tid).ph = .out) : how = .computed := by
  have hT := (reach_oinv ho hc h).thr tid
  rw [hpc] at hT
  cases how with
  | computed => rfl
  | hitP d t0 => exact absurd hout hT.2.2
  | hitF d t0 => exact absurd hout hT.2.2

/-- … so the literal cross-thread clause holds at FULL strength, under every interleaving of any number of
    threads, nested blocks and as_dict() calls included -/
theorem C16_value_valid_Literal_two_level_owner_only (c : CCfg2) (ho : c.ownerOnly = true) (hc : c.Covers) :
    C16_value_valid_Literal_two_level c := by
  intro s tid g cs e how h hpc hout
  have := C16_plain_caller_computes_owner_only c ho hc h tid g cs e how hpc hout
  subst this
  exact C16_value_valid_literal_for_misses_two_level c hc h tid g cs e hpc

/-- a hit is only ever served to the thread that created the dict, inside a block of its own -/
theorem C16_hits_only_for_the_block_owner_owner_only (c : CCfg2) (ho : c.ownerOnly = true) (hc : c.Covers) {s : St}
    (h : Reach c s) (tid g cs d t0 : Nat) (e : Entry)
    (hpc : (s.thr tid).pc = .ret g cs e (.hitP d t0) ∨ (s.thr tid).pc = .ret g cs e (.hitF d t0)) :
    s.creator d = tid ∧ (s.thr tid).ph ≠ .out := by
  have hT := (reach_oinv ho hc h).thr tid
  cases hpc with
  | inl hpc => rw [hpc] at hT; exact ⟨hT.1, hT.2.2⟩
  | inr hpc => rw [hpc] at hT; exact ⟨hT.1, hT.2.2⟩

/-- **the owner's first read is stable** (full strength of "the value at the first read in that block" under
    threads): with the owner-only wrapper an entry of a dict, once written, is never replaced — by no step of
    any thread, under any interleaving, for as long as the dict exists -/
theorem C16_entries_write_once_owner_only (c : CCfg2) (ho : c.ownerOnly = true) (hc : c.Covers) {s : St} (h : Reach c s)
    (as : List Action) (d : Nat) (k : Key) (e : Entry) (he : s.ents d k = some e) : (runD c s as).ents d k = some e :=
  runD_ents_keep ho hc as h d k e he

/-- for the generated configuration the two full-strength statements follow from the single fact
    `cacheOwnerOnly = true` (discharged by the obligation `cfg_cache_owner_only` in `C16_cross_thread_full_strength`) -/
theorem C16_full_strength_if_cache_owner_only (ho : Gen.C16.cacheOwnerOnly = true) :
    C16_value_valid_Literal_two_level ccfg2 ∧
    (∀ (s : St), Reach ccfg2 s → ∀ (as : List Action) (d : Nat) (k : Key) (e : Entry),
      s.ents d k = some e → (runD ccfg2 s as).ents d k = some e) :=
  ⟨C16_value_valid_Literal_two_level_owner_only ccfg2 ho ccfg2_good.1,
   fun _ h as d k e he => C16_entries_write_once_owner_only ccfg2 ho ccfg2_good.1 h as d k e he⟩

/-- proof obligation on the translator's fact (fix 447541f landed): `cache_activate` records the activating
    thread and the wrapper consults the cache only when called by that thread; a return to the shared cache
    breaks this theorem -/
theorem cfg_cache_owner_only : Gen.C16.cacheOwnerOnly = true := by decide

/-- … and WHERE the wrapper tests the owner: as a statement of its own body between the unpacking attribute load and
    the `cache[fun]` lookup (the models bypass at the load, f0 / p0 / w0: a foreign thread never even looks up). A test
    that only guards the store ("after-lookup": foreign threads would get hits again) breaks this theorem. The tagged
    pair and the unpacking go together, and both lookup failures (no attribute, no entry) are handled. -/
theorem cfg_owner_test :
    Gen.C16.ownerTest = "before-lookup" ∧ Gen.C16.ownerShapeConsistent = true ∧
    Gen.C16.lookupHandles = ["AttributeError", "KeyError"] := by decide

/-- **C16_cross_thread_full_strength.** For the code as it is now: the LITERAL cross-thread clause for PLAIN callers
    (threads outside any oneshot() block of their own — the threads the property's last sentence speaks about: every value
    returned to one of them was the source's content at a moment of that very call, for every interleaving of any number
    of threads over both cache levels; a block owner's in-block values are covered by the interval theorem
    `C16_value_valid_at_some_moment_two_level`), and the stability of the block owner's first read at the level of
    cache ENTRIES (an entry, once written, is never replaced; the return-level statement
    `C16_owner_first_read_stable_two_level_Full` is refuted for the pre-fix wrapper shapes only and NOT derived here
    for `ccfg2` — it would follow from write-once + "a hit returns the entry", which is not stated as a theorem). -/
theorem C16_cross_thread_full_strength :
    C16_value_valid_Literal_two_level ccfg2 ∧
    (∀ (s : St), Reach ccfg2 s → ∀ (as : List Action) (d : Nat) (k : Key) (e : Entry),
      s.ents d k = some e → (runD ccfg2 s as).ents d k = some e) :=
  C16_full_strength_if_cache_owner_only cfg_cache_owner_only

/-- the repaired wrapper on the witness schedules of the two findings -/
def cfgOwner : CCfg2 := { cfgAsIs with ownerOnly := true }

/-- the crossActs schedule up to thread 1's return: the plain caller bypasses both dicts of thread 0's block and
    reads for itself (6, during its call) -/
def crossActsO : List Action :=
  blockIn 0 ++ [.setVer 0 5, .thr 0 (.call none 0)] ++ steps 0 5 ++ [.setVer 0 6, .thr 1 (.call (some 0) 0)] ++ steps 1 3

example : (runD cfgOwner St.init crossActsO).thr 1 = ⟨.out, .ret 0 18 ⟨6, 21⟩ .computed, []⟩ ∧
    literalOK (runD cfgOwner St.init crossActsO) 0 18 ⟨6, 21⟩ = true := by decide

/-- the overwrite schedule on the platform dict (two-level analogue of replaceActs1/2): thread 1 starts name()
    before the owner stores, reads later (9) — with the shared cache it overwrites the owner's 5 … -/
def overwriteActs : List Action :=
  blockIn 0 ++ [.thr 1 (.call none 0), stp 1, stp 1, .setVer 0 5, .thr 0 (.call none 0)] ++ steps 0 5 ++
  [.setVer 0 9] ++ steps 1 3 ++ [.thr 0 (.call none 0)] ++ steps 0 2

example : ((runD cfgAsIs St.init overwriteActs).thr 0).pc = .ret 0 24 ⟨9, 21⟩ (.hitP 6 25) := by decide
/-- … with the owner-only wrapper the owner still gets its first read -/
example : ((runD cfgOwner St.init overwriteActs).thr 0).pc = .ret 0 22 ⟨5, 17⟩ (.hitP 6 23) := by decide

end Psutil.C16.Conc2

/- =========================================================================================
   Part 4 — several Process objects: process_iter(attrs=…) / as_dict() from several threads on
   SHARED objects
   ========================================================================================= -/
namespace Psutil.C16.Locks

/-- obligation (translator facts `oneshotCallers`, `oneshotOnSelfOnly`): inside the library a oneshot() block is
    entered by as_dict() and __str__ only, always on `self` — so no library code path takes the lock of a
    second Process object while it holds one (process_iter(attrs) calls as_dict() object after object) -/
theorem cfg_lock_order : Gen.C16.oneshotCallers = ["__str__", "as_dict"] ∧ Gen.C16.oneshotOnSelfOnly = true := by
  decide

/-- **no deadlock across objects.** Any number of threads, each visiting any objects in ANY order of its own
    (two threads iterating process_iter(attrs=…) over the same cached Process objects, in the same or in
    opposite orders, plus threads calling as_dict() on single objects), each holding at most one object's lock at
    a time: in every reachable state in which some thread has not finished, some thread can move. (A thread inside
    its session can always finish it: `C16_no_deadlock_two_level`.) -/
theorem C16_no_deadlock_across_objects (prog : Nat → List Nat) {s : St} (h : Reach prog s) (t : Nat)
    (hu : ¬ Finished s t) : ∃ s', Step s s' := by
  have hI := reach_inv h
  cases Classical.em (∃ t' o, s.cur t' = some o) with
  | inl hx =>
    obtain ⟨t', o, hc⟩ := hx
    exact ⟨_, Step.release t' o hc⟩
  | inr hx =>
    have hcur : s.cur t = none := by
      cases hc : s.cur t with
      | none => rfl
      | some o => exact absurd ⟨t, o, hc⟩ hx
    cases hp : s.prog t with
    | nil => exact absurd ⟨hcur, hp⟩ hu
    | cons o rest =>
      have hh : s.held o = none := by
        cases hh : s.held o with
        | none => rfl
        | some t'' => exact absurd ⟨t'', o, hI o t'' hh⟩ hx
      exact ⟨_, Step.acquire t o rest hcur hp hh⟩

/-- non-vacuity: two threads visiting objects 7 and 9 in OPPOSITE orders; thread 0 holds 7, thread 1 holds 9:
    reachable, nobody waits for anybody (each will release before taking the other object) -/
example : ∃ s, Reach (fun t => if t = 0 then [7, 9] else if t = 1 then [9, 7] else []) s ∧
    s.cur 0 = some 7 ∧ s.cur 1 = some 9 :=
  ⟨_, Reach.step (Reach.step Reach.init (Step.acquire 0 7 [9] rfl rfl rfl)) (Step.acquire 1 9 [7] rfl rfl rfl), rfl, rfl⟩

end Psutil.C16.Locks

/- =========================================================================================
   Part 5 — records are objects: the dict a memoised helper returns is shared by every consumer of the block
   (Model/C16Rec.lean, Spec/C16Rec.lean, Proofs/C16Rec.lean). Kernel records with an independent value in every
   position, every public route to the record (with and without the front-end memoisation), every order of calls.
   ========================================================================================= -/
namespace Psutil.C16.Rec
open RSpec

/-- obligation on the translator's facts (`helperReturns`, `statParse`, `recConsumers`, `recRoutes`): every row was
    understood, the only mutable object handed out by a memoised helper is the dict of `stat`, every public route ends
    in a described platform method, and no platform method changes the dict it is handed (no pop / del / item store /
    clear, nothing the translator cannot name) -/
theorem rcfg_good : rcfgGood = true := by decide

theorem rcfg_pure : rcfg.Pure := by
  intro x hx u hu
  have h := rcfg_good
  simp only [rcfgGood, Bool.and_eq_true] at h
  exact List.all_eq_true.mp (List.all_eq_true.mp h.2 x hx) u hu

/-- Clause 1 at the level of record fields, for EVERY history (enter, exit normally or by exception, nested blocks,
    any public route in any order, the kernel publishing new records of any content and length) and ANY configuration
    whose consumers leave the record as it was: inside a block every method returns what it would return outside the
    block on the record that was current when the source was first read in that block, whatever other methods ran
    before it; after the outermost exit the answers are fresh. -/
theorem C16_record_answers_at_first_read (c : RCfg) (hp : c.Pure) (l0 : Line) (ops : List Op)
    (h0 : lineOK c l0) (hops : ∀ op ∈ ops, opOK c op) :
    outs c ⟨St.init, l0⟩ ops = outsR c ⟨SSt.init, l0⟩ ops :=
  outs_eq c hp ops St.init SSt.init l0 (rel_init c) h0 hops

/-- … for the code as it is -/
theorem C16_record_answers_at_first_read_current (l0 : Line) (ops : List Op)
    (h0 : lineOK rcfg l0) (hops : ∀ op ∈ ops, opOK rcfg op) :
    outs rcfg ⟨St.init, l0⟩ ops = outsR rcfg ⟨SSt.init, l0⟩ ops :=
  C16_record_answers_at_first_read rcfg rcfg_pure l0 ops h0 hops

/-- spelled out for two calls: in a block, method B called after ANY method A answers exactly what B answers outside
    the block on the same kernel record (A = cpu_percent, B = cpu_times is the pair that reaches one platform method
    twice) -/
theorem C16_record_call_after_any_call (l : Line) (hl : lineOK rcfg l) (i j : Nat) (ri rj : Route)
    (hi : rcfg.routes[i]? = some ri) (hj : rcfg.routes[j]? = some rj) :
    outs rcfg ⟨St.init, l⟩ [.enter, .call i, .call j]
      = [.unit, .ret (outside rcfg ri l), .ret (outside rcfg rj l)] := by
  rw [C16_record_answers_at_first_read_current l _ hl (by
    intro op hop
    simp only [List.mem_cons, List.not_mem_nil, or_false] at hop
    rcases hop with rfl | rfl | rfl <;> trivial)]
  simp [outsR, stepS, callS, enterS, SSt.init, hi, hj]

/-- the full statement for a configuration -/
def C16_record_Statement (c : RCfg) : Prop :=
  ∀ (l0 : Line) (ops : List Op), lineOK c l0 → (∀ op ∈ ops, opOK c op) →
    outs c ⟨St.init, l0⟩ ops = outsR c ⟨SSt.init, l0⟩ ops

/-- what-if configurations: one consumer takes a key out of the dict it is handed (`values.pop(k, 0)`), or overwrites
    an entry in place -/
def cfgPop : RCfg :=
  { fields := [⟨"utime", 1, .fail⟩, ⟨"blkio_ticks", 2, .dflt 0⟩]
    consumers := [⟨"cpu_times", [.read "utime", .takeOr "blkio_ticks" 0]⟩]
    routes := [⟨"cpu_percent", "cpu_times", false⟩, ⟨"cpu_times", "cpu_times", true⟩] }

def cfgPut : RCfg := { cfgPop with consumers := [⟨"cpu_times", [.read "utime", .read "blkio_ticks", .put "utime" 0]⟩] }

/-- a consumer that mutates the shared dict breaks the clause: `enter; cpu_percent(); cpu_times()` on a record
    with a non-zero delayacct_blkio_ticks reports iowait 0 (pop), resp. utime 0 (in-place store) -/
theorem C16_record_mutating_consumer_counterexample :
    ¬ C16_record_Statement cfgPop ∧ ¬ C16_record_Statement cfgPut := by
  have hops : ∀ (c : RCfg), ∀ op ∈ [Op.enter, Op.call 0, Op.call 1], opOK c op := by
    intro c op hop
    simp only [List.mem_cons, List.not_mem_nil, or_false] at hop
    rcases hop with rfl | rfl | rfl <;> trivial
  constructor
  · intro h
    have := h [7, 5, 9] [.enter, .call 0, .call 1] (by decide) (hops _)
    revert this
    decide
  · intro h
    have := h [7, 5, 9] [.enter, .call 0, .call 1] (by decide) (hops _)
    revert this
    decide

/-- non-vacuity: on the generated configuration a full-length kernel record parses -/
example : lineOK rcfg (List.range 53) := by decide

/-- today's shape of the two routes to `_proc.cpu_times()` (read-only consumer), written out by hand -/
def cfgAsIs : RCfg := { cfgPop with consumers := [⟨"cpu_times", [.read "utime", .read "blkio_ticks"]⟩] }

/-- non-vacuity: cpu_percent() then cpu_times() in one block report the record first read in the block (iowait 9), also
    after the kernel published a new record; after the exit by exception the answer is fresh -/
example : outs cfgAsIs ⟨St.init, [7, 5, 9]⟩
      [.enter, .call 0, .call 1, .setLine [1, 2, 3], .call 1, .call 0, .exit true, .call 1]
    = [.unit, .ret (.ok [("utime", 5), ("blkio_ticks", 9)]), .ret (.ok [("utime", 5), ("blkio_ticks", 9)]), .unit,
       .ret (.ok [("utime", 5), ("blkio_ticks", 9)]), .ret (.ok [("utime", 5), ("blkio_ticks", 9)]), .unit,
       .ret (.ok [("utime", 2), ("blkio_ticks", 3)])] := by decide

/-- … and with the popping consumer the second answer of the block has lost its iowait -/
example : outs cfgPop ⟨St.init, [7, 5, 9]⟩ [.enter, .call 0, .call 1]
    = [.unit, .ret (.ok [("utime", 5), ("blkio_ticks", 9)]), .ret (.ok [("utime", 5), ("blkio_ticks", 0)])] := by decide

end Psutil.C16.Rec

/- =========================================================================================
   Part 6 — calls of any shape inside a block (Model/C16Act.lean, Spec/C16Act.lean, Proofs/C16Act.lean): methods
   with arguments, methods that BLOCK (the kernel records move on while the call sleeps), methods asking several
   sources, and cache (de)activation issued from a method's own code instead of oneshot()'s entry / exit.
   ========================================================================================= -/
namespace Psutil.C16.Act

/-- obligation on the translator's fact `cacheOpSites`: every place of the three modules that touches a `_cache`
    attribute or calls cache_activate / cache_deactivate / oneshot_enter / oneshot_exit lies in the decorator, in
    oneshot() or in the platform's oneshot_enter / oneshot_exit (a bare presence test may be anywhere); every site
    was understood; oneshot() (de)activates both levels -/
theorem acfg_good : acfgGood = true := by decide

/-- hence no public method's code performs a cache operation of its own: its model body is exactly the questions
    and blocking points it was given -/
theorem C16_no_method_touches_the_caches (fn : String) (b : Body) : bodyOf fn b = b := by
  have h : Gen.C16.cacheOpSites.all siteOk = true := by
    have := acfg_good
    simp only [acfgGood, Bool.and_eq_true] at this
    exact this.1.1.1.1.1
  have hs : strayOps fn = [] := by
    unfold strayOps
    have : Gen.C16.cacheOpSites.filter (fun x => x.1 == fn && !siteOk x) = [] := by
      rw [List.filter_eq_nil_iff]
      intro x hx
      have := List.all_eq_true.mp h x hx
      simp [this]
    rw [this]; rfl
  simp [bodyOf, hs]

/-- the value clause for calls of ANY shape: every history of enter / exit / nested levels / kernel changes / calls
    whose body asks any sources in any order, through the front-end memoisation or around it, and blocks any number
    of times while the records change — as long as no body (de)activates a cache itself — answers every question
    with the content at the first question about that source in the open outermost block (outside: now) -/
theorem C16_any_call_shape_answers_at_first_read (w : World) (h : List Op) (hc : h.all Op.clean = true) :
    outs (St.init w) h = ASpec.outsS (ASpec.SSt.init w) h :=
  (run_rel h _ _ hc (rel_init w)).1

/-- the read clause for calls of any shape: while a block is open each cached source has been read at most once
    since the block was entered, whatever was called in between -/
theorem C16_any_call_shape_reads_at_most_once (w : World) (h : List Op) (hc : h.all Op.clean = true)
    (hd : 0 < (ASpec.runS (ASpec.SSt.init w) h).1.depth) (s : Src) : (run (St.init w) h).1.reads s ≤ 1 :=
  rel_reads (run_rel h _ _ hc (rel_init w)).2 hd s

/-- the same for the code as it is: bodies built by `bodyOf` for any function name of the source -/
theorem C16_any_call_shape_current (w : World) (h : List (Option (String × Body × List World) × Op))
    (hwf : ∀ x ∈ h, match x.1 with | some (fn, b, ws) => x.2 = .call (bodyOf fn b) ws ∧ Body.clean b = true | none => x.2.clean = true) :
    outs (St.init w) (h.map (·.2)) = ASpec.outsS (ASpec.SSt.init w) (h.map (·.2)) := by
  apply C16_any_call_shape_answers_at_first_read
  rw [List.all_eq_true]
  intro o ho
  obtain ⟨x, hx, rfl⟩ := List.mem_map.mp ho
  have := hwf x hx
  cases h1 : x.1 with
  | none => simpa [h1] using this
  | some t =>
    obtain ⟨fn, b, ws⟩ := t
    simp [h1] at this
    rw [this.1, C16_no_method_touches_the_caches]
    simpa [Op.clean] using this.2

def wK (k : Nat) : World := fun _ => k

/-- a blocking call that restarts the platform cache between its two samples (what a body with `cop` steps means):
    the block answers `status` from two different snapshots and reads it twice — the clean-body hypothesis is needed -/
theorem C16_cache_restart_in_a_call_counterexample :
    let h : List Op := [.enter, .call [.get .status false] [],
      .call [.get .stat false, .tick, .cop .plat false, .cop .plat true, .get .stat false] [wK 2],
      .call [.get .status false] []]
    outs (St.init (wK 1)) h = [[], [1], [1, 2], [2]] ∧ ASpec.outsS (ASpec.SSt.init (wK 1)) h = [[], [1], [1, 1], [1]] ∧
      (run (St.init (wK 1)) h).1.reads .status = 2 := by decide

/-- non-vacuity: a blocking call in a block, records changing while it sleeps; both samples and the later call are
    served from the first read -/
example : outs (St.init (wK 1)) [.enter, .call [.get .stat true, .tick, .get .stat false] [wK 2], .call [.get .stat false] [],
    .exit, .call [.get .stat true] []] = [[], [1, 1], [1], [], [2]] := by decide

end Psutil.C16.Act
