/- Props/C16.lean — placeholder while the proofs are being assembled. -/
import PsutilModel.Model.C16Gen
namespace Psutil.C16

theorem cfg_meths_complete : cfg.meths.length = Gen.C16.meths.length := by decide

end Psutil.C16
