/-
  Props/C01.lean — property theorems for C01: signals and setters never reach a recycled PID or a
  process group.  Helper lemmas live in Proofs/C01*.lean.

  `cfg` is built from Generated/C01.lean, which the translator rewrites from /repo's source on every
  run; `cfg_good` is the proof obligation that breaks when a guard is dropped or moved behind the OS
  call, when `_raise_if_pid_reused` stops testing `_gone` (lead L1), when `boot_time()` rewrites
  `BOOT_TIME` (lead L2), when the pid-0 / negative-pid refusals go away, or when a method is wired to
  another signal.

  ATOMICITY (every theorem of this file): kernel events happen BETWEEN psutil calls, never inside one.  The window
  between the guard (`_raise_if_pid_reused`) and `os.kill` / the setter's native call — inherent without pidfd —
  is outside the model and outside the correspondence; nothing here bounds what a PID recycling inside that
  window does (fact `windowCalls` pins which calls `_send_signal` makes inside it).
  ONE INCARNATION PER TICK: `HistOK` / `HistOKb` exclude `spawnSameTick` (psutil's documented assumption);
  `C01_same_tick_counterexample` shows the claim is false without it.
  BOOT TIME: no hypothesis.  The initial published boot time `b0` is ANY number and clock steps go to ANY value, 0
  included: `create_time()` tests `BOOT_TIME is not None` (obligation `cfg_none_test`, /repo 29257b1 =
  fixes/C02-boottime-zero.diff), so `HistOK true` / `HistOKb true` / `BtOK true b` restrict nothing there.  For a
  configuration that tests truthiness (`BOOT_TIME or boot_time()`, the source before 29257b1) "never 0" is needed:
  `C01_btime0_counterexample` (what-if theorem).

  Histories: any list of kernel events (spawn / exit / reap / tick / clock step / **permission change**: from now
  on the kernel refuses kill / setpriority / ioprio_set / sched_setaffinity / prlimit on a PID with EPERM or EACCES,
  or allows them again) and psutil calls
  (Process(pid), is_running, signals, setters, ppid, boot_time, create_time, ==, hash, process_iter,
  oneshot() entry/exit, str) — the hypothesis is that
  `/proc/pid/stat` can always be opened (`HistOK true` = no `hide p true`, no `spawnSameTick`;
  what happens otherwise is characterised at the end of the file, and the HEADLINE theorem
  `C01_known_start_no_wrong_owner` holds without the readability hypothesis).  The effect log holds every OS call psutil
  made, carried out or refused by the kernel (`Eff.res`).  The object list of a state holds the objects built by `Process(pid)` AND those built and
  yielded by `process_iter()` (Props/C02.lean: `C02_iter_ghost_meaning`, `C02_iter_handles_valid`), so
  "object i" below ranges over both kinds.
-/
import PsutilModel.Proofs.C01Args
import PsutilModel.Proofs.C01Hid
import PsutilModel.Proofs.C01Rdb
import PsutilModel.Proofs.C01Pid0
import PsutilModel.Proofs.C01Stat
import PsutilModel.Spec.C01Stat
import PsutilModel.Proofs.C01Kill
import PsutilModel.Model.C01KillGen
import PsutilModel.Model.C01Gen
namespace Psutil.C01
open Spec

/-! ## Obligations on the translator's facts -/

/-- the guard flags of the five signal methods and the four setters (NOT `ppid`: a query, harmless for C01), both
    fix flags, the three refusals (PID 0 in `_send_signal`, PID 0 in `_pslinux.Process.rlimit`, negative PID in
    `_init`), the signal numbers and the full affinity mask are as the proofs need -/
theorem cfg_good : cfg.Good := by
  refine ⟨⟨?_, ?_⟩, ?_, ?_, ?_, ?_, ?_, ?_, ?_, ?_, ?_, ?_, ?_, ?_, ?_, ?_⟩ <;> decide

/-- **cfg_none_test** (obligation, in force since /repo 29257b1 = fixes/C02-boottime-zero.diff): `create_time()` decides
    "there is a cached boot time" by `BOOT_TIME is not None` (fact `createBoot = "isNotNone"`), not by truthiness.  Every
    history theorem below rests on it: it is what lets them hold for EVERY boot time, 0 included, and every clock step.
    It stops building when the test goes back to `BOOT_TIME or boot_time()`; what is false then is
    `C01_btime0_counterexample`. -/
theorem cfg_none_test : cfg.createNoneTest = true := by decide

/-- the check-then-kill window of `_send_signal` holds no call: between `self._raise_if_pid_reused()` and `os.kill`
    only attribute loads happen (and the PID-0 refusal).  The window itself is outside every theorem (ATOMICITY); this
    obligation breaks when an edit widens it (a `/proc` scan, `self.name()`, … between guard and kill). -/
theorem cfg_window : Gen.C01.windowCalls = [] := by decide

/-- every platform setter hands `self.pid` to its native entry point, at exactly one call site (two for `rlimit`: the
    get and the set form) — a retry, a second call with other values or another PID expression breaks this -/
theorem cfg_native_pid :
    Gen.C01.nativePidArgs = [("nice_set", ["self.pid"]), ("ionice_set", ["self.pid"]),
      ("cpu_affinity_set", ["self.pid"]), ("rlimit", ["self.pid", "self.pid"])] := by decide

/-- the identity tuple is written by `Process._init` only: no other function of the package stores to an attribute
    named `_ident` (assignment of any form, `setattr`, `__dict__`).  The model's objects keep `PObj.ident` for life
    (`Same.ident`, Proofs/C01Hid.lean: no method changes it); this obligation breaks when some call — `create_time()`,
    `is_running()`, `__eq__`, anything — starts to "complete" or refresh an object's identity after construction, which
    would let a `(pid, None)` object adopt whoever holds the PID then. -/
theorem cfg_ident_writers : Gen.C01.identWriters = ["__init__.py:Process._init"] := by decide

/-- **C01_all_guarded** (restates part of `cfg_good` in the property's own words; no extra strength). Every signal method and every setter named by the property calls
    `_raise_if_pid_reused()` before its OS effect. -/
theorem C01_all_guarded :
    ∀ m ∈ ["send_signal", "suspend", "resume", "terminate", "kill", "nice", "ionice", "rlimit", "cpu_affinity"],
      m ∈ Gen.C01.guardedMethods := by decide

/-- **signalMap_correct** (restates part of `cfg_good`). suspend→SIGSTOP, resume→SIGCONT, terminate→SIGTERM, kill→SIGKILL. -/
theorem signalMap_correct :
    Gen.C01.signalMap = [("suspend", SIGSTOP), ("resume", SIGCONT), ("terminate", SIGTERM), ("kill", SIGKILL)] := by
  decide

/-! ## Safety over all histories -/

/-- **C01_no_wrong_owner.** After any history, every effect in the log (every `os.kill`, `setpriority`,
    `ioprio_set`, `sched_setaffinity`, `prlimit` psutil ever issued) was delivered while the PID was
    owned by the very incarnation the asking object was built for, under exactly the object's PID,
    and — for signals — to a PID > 0. -/
theorem C01_no_wrong_owner (b0 : Nat) (h : List Ev) (hh : HistOK true h) :
    ∀ e ∈ (run cfg (St.init b0) h).log, EffOK (run cfg (St.init b0) h).ps.objs e :=
  run_log cfg_good h _ (HistOK.of_none_test cfg_none_test hh) (init_inv _ (BtOK.of_none_test cfg_none_test b0)) (fun e he => by simp [St.init] at he)

/-- **C01_never_group.** No signal is ever sent to PID 0 or a negative PID — after ANY history, unreadable stat
    files included (`HistOKb`; corollary of `C01_known_start_no_wrong_owner`).  Scope: the `os.kill` calls of the five
    `Process` signal methods (the only calls that add a `.kill` entry to the model's log); the `kill(pid, 0)` existence
    probe of `psutil.pid_exists()` / `Process.wait()` is C04's subject, `psutil.Popen` is outside the model. -/
theorem C01_never_group (b0 : Nat) (h : List Ev) (hh : HistOKb true h) :
    ∀ e ∈ (run cfg (St.init b0) h).log, e.kind = .kill → 0 < e.pid := fun e he hk => by
  obtain ⟨_, _, _, hpos, _⟩ := run_log2 cfg_good h _ (HistOKb.of_none_test cfg_none_test hh) (init_inv2 _ (BtOK.of_none_test cfg_none_test b0)) (fun e he => by simp [St.init] at he) e he
  exact hpos hk

/-- **C01_no_pid0_effect.** After any history that spawns no PID 0 (Linux lists none), NO OS call of any kind —
    signal or setter, carried out or refused — was made with a PID ≤ 0, on top of `EffOK` (right incarnation, the
    object's own PID).  For setpriority / ioprio_set / sched_setaffinity / prlimit PID 0 would mean "the calling
    process". -/
theorem C01_no_pid0_effect (b0 : Nat) (h : List Ev) (hh : HistOK true h)
    (hz : HistNoPid0 h) :
    ∀ e ∈ (run cfg (St.init b0) h).log, EffOKStrict (run cfg (St.init b0) h).ps.objs e := fun e he => by
  have hok := C01_no_wrong_owner b0 h hh e he
  have hnz := run_nozero cfg_good.toBootGood h _ (HistOK.of_none_test cfg_none_test hh) hz (init_inv _ (BtOK.of_none_test cfg_none_test b0)) (init_nozero b0)
  refine ⟨hok, ?_⟩
  obtain ⟨o, ho, hp, _, _⟩ := hok
  have := hnz.objs o (List.mem_of_getElem? ho)
  rw [hp]; omega

/-- **C01_rlimit_refuses_zero.** `_pslinux.Process.rlimit` refuses PID 0 itself ("can't use prlimit() against PID 0
    process"): in ANY state a PID-0 object never adds to the log through `rlimit` (consumes `cfg_good.rlimitPid0Refused`). -/
theorem C01_rlimit_refuses_zero (s : St) (i : Nat) (o : PObj) (args : List Int)
    (ho : s.ps.objs[i]? = some o) (h0 : o.pid = 0) :
    (step cfg s (.c (.setter i .rlimit args))).1.log = s.log := by
  rw [step_method cfg s (call := .setter i .rlimit args) rfl ho rfl]
  cases heff : (setterM cfg s.kern s.ps o .rlimit args).eff with
  | none => rfl
  | some e =>
    obtain ⟨_, a, _, ha, _, _⟩ := setterM_eff_shape _ _ _ _ _ _ heff
    cases args with
    | nil => simp [setterArgs] at ha
    | cons r lim => simp [setterArgs, h0, cfg_good.rlimitPid0Refused] at ha

/-- **C01_owner_meaning.** What the specification calls the owner of an effect (`Eff.owner`, compared with the asking
    object's `ghost` by `EffOK`) is the start of the incarnation that holds, in the kernel's table at the instant of
    the call, the very PID that was handed to the OS — in any state, for any call. -/
theorem C01_owner_meaning (s : St) (call : Call) (e : Eff)
    (h : (step cfg s (.c call)).1.log = e :: s.log) :
    ∃ p : Nat, e.pid = (p : Int) ∧ e.owner = s.kern.owner p ∧ e.owner ≠ none := by
  cases htg : call.target with
  | none =>
    rw [(step_no_target cfg s htg).1] at h
    exact absurd (congrArg List.length h) (by simp)
  | some i =>
    cases ho : s.ps.objs[i]? with
    | none =>
      rw [step_bad_index cfg s htg ho] at h
      exact absurd (congrArg List.length h) (by simp)
    | some o =>
      obtain ⟨r, hm⟩ := method_some cfg s.kern s.ps o htg
      rw [step_method cfg s htg ho hm] at h
      cases heff : r.eff with
      | none => rw [heff] at h; exact absurd (congrArg List.length h) (by simp [pushEff])
      | some t =>
        rw [heff] at h
        simp only [pushEff, List.cons.injEq] at h
        obtain ⟨rfl, _⟩ := h
        cases hec : isEffectCall call with
        | false => rw [method_eff_none hm hec] at heff; cases heff
        | true =>
          cases call <;> simp [isEffectCall] at hec <;>
            simp only [method, Option.some.injEq] at hm <;> subst hm
          · obtain ⟨x, hf, rfl, _, _⟩ := signalM_eff_shape _ _ _ _ _ heff
            exact ⟨o.pid, rfl, by simp [Kernel.owner, hf], by simp⟩
          · obtain ⟨x, a, hf, _, rfl, _⟩ := setterM_eff_shape _ _ _ _ _ _ heff
            exact ⟨o.pid, rfl, by simp [Kernel.owner, hf], by simp⟩

/-- a negative PID is refused at construction, in any state -/
theorem C01_init_rejects_negative (s : St) (pid : Int) (h : pid < 0) :
    step cfg s (.c (.newObj pid)) = (s, .exc .valueError) := by
  simp [step, h, cfg_good.negRejected]

/-- a PID-0 object (wherever it came from) never gets a signal through, in any state -/
theorem C01_sendSignal_refuses_zero (s : St) (i : Nat) (o : PObj) (m : SigMethod)
    (ho : s.ps.objs[i]? = some o) (h0 : o.pid = 0) :
    (step cfg s (.c (.signal i m))).1.log = s.log := by
  rw [step_method cfg s (call := .signal i m) rfl ho rfl]
  cases heff : (signalM cfg s.kern s.ps o m).eff with
  | none => rfl
  | some e =>
    obtain ⟨_, _, _, _, hz⟩ := signalM_eff_shape _ _ _ _ _ heff
    simp [h0, cfg_good.pid0Refused] at hz

/-- **C01_exact_args.** In *any* state, a call adds at most one effect; it is attributed to the object the
    call was made on, carries exactly that object's PID, and exactly the signal / values asked for
    (`ArgOK`: the documented signal of suspend/resume/terminate/kill, the number given to send_signal,
    the nice value, (ioclass, value or 0), (resource, soft, hard), the set of CPUs — for the empty sequence
    every CPU a `cpu_set_t` holds, 0 … CPU_SETSIZE-1). -/
theorem C01_exact_args (s : St) (call : Call) :
    (step cfg s (.c call)).1.log = s.log ∨
    ∃ e i o, (step cfg s (.c call)).1.log = e :: s.log ∧ call.target = some i ∧ s.ps.objs[i]? = some o
      ∧ e.obj = i ∧ e.pid = (o.pid : Int) ∧ ArgOK call e.kind e.arg := by
  cases htg : call.target with
  | none => exact Or.inl (step_no_target cfg s htg).1
  | some i =>
    cases ho : s.ps.objs[i]? with
    | none => rw [step_bad_index cfg s htg ho]; exact Or.inl rfl
    | some o =>
      obtain ⟨r, hm⟩ := method_some cfg s.kern s.ps o htg
      rw [step_method cfg s htg ho hm]
      cases heff : r.eff with
      | none => exact Or.inl rfl
      | some t =>
        refine Or.inr ⟨⟨t.1, i, t.2.1, t.2.2.1, t.2.2.2.1, t.2.2.2.2⟩, i, o, rfl, rfl, ho, rfl, ?_⟩
        cases hec : isEffectCall call with
        | false => rw [method_eff_none hm hec] at heff; cases heff
        | true =>
          cases call <;> simp [isEffectCall] at hec <;>
            simp only [method, Option.some.injEq] at hm <;> subst hm
          · obtain ⟨x, _, rfl, _, _⟩ := signalM_eff_shape _ _ _ _ _ heff
            simp [ArgOK, sigOf_good cfg_good]
          · obtain ⟨x, a, _, ha, rfl, _⟩ := setterM_eff_shape _ _ _ _ _ _ heff
            simp only [Call.target, Option.some.injEq] at htg
            exact ⟨rfl, setterArgs_argOK _ cfg_good.affinityAll _ _ _ _ _ ha⟩

/-- **C01_recycled_raises_NSP.** After any history: when the incarnation an object was built for is no
    longer in the process table (it ended; its PID may be free, or live again under another process, or
    held by a zombie of another process; is_running() may or may not have been asked in between), every
    signal method and every setter raises NoSuchProcess(pid) and nothing reaches the OS. -/
theorem C01_recycled_raises_NSP (b0 : Nat) (h : List Ev) (hh : HistOK true h) (call : Call)
    (i : Nat) (o : PObj) (htg : call.target = some i) (hec : isEffectCall call = true)
    (ho : (run cfg (St.init b0) h).ps.objs[i]? = some o)
    (hgone : ¬ Listed (run cfg (St.init b0) h).kern o) :
    (step cfg (run cfg (St.init b0) h) (.c call)).2 = .exc (.noSuchProcess o.pid)
      ∧ (step cfg (run cfg (St.init b0) h) (.c call)).1.log = (run cfg (St.init b0) h).log := by
  have hinv := run_inv cfg_good.toBootGood h _ (HistOK.of_none_test cfg_none_test hh) (init_inv cfg.clk (BtOK.of_none_test cfg_none_test b0))
  generalize run cfg (St.init b0) h = s at *
  obtain ⟨B, hB, hok⟩ := hinv.ps.objs o (List.mem_of_getElem? ho)
  obtain ⟨r, hm⟩ := method_some cfg s.kern s.ps o htg
  have hdead : s.kern.owner o.pid ≠ some o.ghost := fun e => hgone ((listed_iff_owner hinv.kern o).2 e)
  obtain ⟨he, hout⟩ := method_refuses cfg_good hB (hinv.ps.boot_nz B hB) hok hm hec hdead
  rw [step_method cfg s htg ho hm]
  simp [he, hout, pushEff]

/-- **C01_live_signal_delivered.** The guard refuses nothing it should not: after any history (permission
    changes included), a signal method on an object whose own incarnation still holds the PID (> 0) makes
    exactly one `os.kill(pid, sig)`, addressed to that incarnation, and reports what the kernel answered:
    it returns normally when the kernel carried the signal out (`refusal = none`), and raises
    AccessDenied(pid) when the kernel refused with EPERM / EACCES (the logged attempt carries that errno:
    nothing happened to the process, nothing else was tried). -/
theorem C01_live_signal_delivered (b0 : Nat) (h : List Ev) (hh : HistOK true h)
    (i : Nat) (o : PObj) (m : SigMethod)
    (ho : (run cfg (St.init b0) h).ps.objs[i]? = some o)
    (hlive : Listed (run cfg (St.init b0) h).kern o) (hpid : o.pid ≠ 0) :
    (step cfg (run cfg (St.init b0) h) (.c (.signal i m))).2
        = outOf o.pid ((run cfg (St.init b0) h).kern.refusal o.pid)
      ∧ (step cfg (run cfg (St.init b0) h) (.c (.signal i m))).1.log
          = ⟨.kill, i, o.pid, [(sigNumber m : Int)], some o.ghost, (run cfg (St.init b0) h).kern.refusal o.pid⟩
              :: (run cfg (St.init b0) h).log := by
  have hinv := run_inv cfg_good.toBootGood h _ (HistOK.of_none_test cfg_none_test hh) (init_inv cfg.clk (BtOK.of_none_test cfg_none_test b0))
  generalize run cfg (St.init b0) h = s at *
  obtain ⟨B, hB, hok⟩ := hinv.ps.objs o (List.mem_of_getElem? ho)
  have halive := (listed_iff_owner hinv.kern o).1 hlive
  have hgf := (guarded_false_iff cfg_good.toBootGood cfg_good.goneRaises hB (hinv.ps.boot_nz B hB) hok).2 halive
  rw [step_method cfg s (call := .signal i m) rfl ho rfl, signalM_eq]
  rw [cfg_good.guardSignal, hgf]
  simp only [Kernel.owner] at halive
  cases hf : s.kern.find o.pid with
  | none => simp [hf] at halive
  | some x =>
    simp only [hf, Option.map_some, Option.some.injEq] at halive
    simp [hpid, pushEff, sigOf_good cfg_good, halive]

/-- the same for setters: on a live incarnation, accepted values are handed to the OS exactly once, for it;
    the call returns normally when the kernel applied them and raises AccessDenied(pid) when it refused -/
theorem C01_live_setter_applied (b0 : Nat) (h : List Ev) (hh : HistOK true h)
    (i : Nat) (o : PObj) (kind : SetKind) (args a : List Int)
    (ho : (run cfg (St.init b0) h).ps.objs[i]? = some o)
    (hlive : Listed (run cfg (St.init b0) h).kern o) (hargs : setterArgs cfg o.pid kind args = some a) :
    (step cfg (run cfg (St.init b0) h) (.c (.setter i kind args))).2
        = outOf o.pid ((run cfg (St.init b0) h).kern.refusal o.pid)
      ∧ (step cfg (run cfg (St.init b0) h) (.c (.setter i kind args))).1.log
          = ⟨.set kind, i, o.pid, a, some o.ghost, (run cfg (St.init b0) h).kern.refusal o.pid⟩
              :: (run cfg (St.init b0) h).log := by
  have hinv := run_inv cfg_good.toBootGood h _ (HistOK.of_none_test cfg_none_test hh) (init_inv cfg.clk (BtOK.of_none_test cfg_none_test b0))
  generalize run cfg (St.init b0) h = s at *
  obtain ⟨B, hB, hok⟩ := hinv.ps.objs o (List.mem_of_getElem? ho)
  have halive := (listed_iff_owner hinv.kern o).1 hlive
  have hgf := (guarded_false_iff cfg_good.toBootGood cfg_good.goneRaises hB (hinv.ps.boot_nz B hB) hok).2 halive
  rw [step_method cfg s (call := .setter i kind args) rfl ho rfl, setterM_eq]
  rw [guardOf_good cfg_good, hgf, hargs]
  simp only [Kernel.owner] at halive
  cases hf : s.kern.find o.pid with
  | none => simp [hf] at halive
  | some x =>
    simp only [hf, Option.map_some, Option.some.injEq] at halive
    simp [pushEff, halive]

/-- **C01_outcome_truthful.** In *any* state, for a signal method or a setter on an existing object: the
    call returns normally exactly when one OS call was made and the kernel carried it out; an OS call the
    kernel refused (EPERM / EACCES) is reported as AccessDenied(pid) — never as success, never retried
    (`C01_exact_args`: at most one entry) — and every other outcome is an exception with nothing handed
    to the OS at all. -/
theorem C01_outcome_truthful (s : St) (call : Call) (i : Nat) (o : PObj)
    (htg : call.target = some i) (hec : isEffectCall call = true) (ho : s.ps.objs[i]? = some o) :
    ((step cfg s (.c call)).1.log = s.log ∧ ∃ ex, (step cfg s (.c call)).2 = .exc ex)
    ∨ (∃ e, (step cfg s (.c call)).1.log = e :: s.log ∧ e.res = s.kern.refusal o.pid
        ∧ (e.res = none → (step cfg s (.c call)).2 = .unit)
        ∧ (e.res ≠ none → (step cfg s (.c call)).2 = .exc (.accessDenied o.pid))) := by
  obtain ⟨r, hm⟩ := method_some cfg s.kern s.ps o htg
  rw [step_method cfg s htg ho hm]
  have key : (r.eff = none ∧ ∃ ex, r.out = .exc ex)
      ∨ (∃ t, r.eff = some t ∧ t.2.2.2.2 = s.kern.refusal o.pid ∧ r.out = outOf o.pid (s.kern.refusal o.pid)) := by
    cases call <;> simp [isEffectCall] at hec <;>
      simp only [method, Option.some.injEq] at hm <;> subst hm
    · exact signalM_out_shape _ _ _ _ _
    · exact setterM_out_shape _ _ _ _ _ _
  rcases key with ⟨he, ex, hout⟩ | ⟨t, he, hres, hout⟩
  · exact Or.inl ⟨by simp [he, pushEff], ex, hout⟩
  · refine Or.inr ⟨⟨t.1, i, t.2.1, t.2.2.1, t.2.2.2.1, t.2.2.2.2⟩, by simp [he, pushEff], hres, ?_, ?_⟩
    · intro hn
      simp only at hn
      rw [hout, ← hres, hn]; rfl
    · intro hn
      simp only at hn
      rw [hout, ← hres]
      cases hr : t.2.2.2.2 with
      | none => exact absurd hr hn
      | some e => rfl

/-! ## Non-vacuity -/

/-- a configuration with every guard in place, independent of the translator -/
def goodCfg : Cfg :=
  { clk := 100, goneRaises := true, bootWriteOnce := true, createUsesCache := true, createNoneTest := true,
    guardSignal := true, guardNice := true, guardIonice := true, guardRlimit := true,
    guardAffinity := true, guardPpid := true, pid0Refused := true, negRejected := true,
    rlimitPid0Refused := true, sigStop := 19, sigCont := 18, sigTerm := 15, sigKill := 9,
    ioNoValue := [0, 3], affinityAll := 1024 }

example : goodCfg.Good := by
  refine ⟨⟨?_, ?_⟩, ?_, ?_, ?_, ?_, ?_, ?_, ?_, ?_, ?_, ?_, ?_, ?_, ?_, ?_⟩ <;> decide

/-- lead L1 as a history: PID 7 ends and is reaped, is_running() notices (`_gone`), PID 7 is taken by
    another process, then kill() -/
def witnessL1 : List Ev :=
  [.k (.spawn 7), .c (.newObj 7), .k (.reap 7), .c (.isRunning 0), .k (.spawn 7), .c (.signal 0 .kill)]

/-- lead L2 turned against C01: after the PID is recycled, a clock step + boot_time() makes the *new*
    owner's create time equal the old one's -/
def witnessCoincidence : List Ev :=
  [.k (.spawn 7), .c (.newObj 7), .k (.reap 7), .k (.tick 99), .k (.spawn 7), .k (.setBtime 999),
   .c .bootTime, .c (.signal 0 .kill)]

example : HistOK true witnessL1 ∧ HistOK true witnessCoincidence ∧ HistNoPid0 witnessL1 := by decide

/-- with the extracted configuration both witnesses end in NoSuchProcess(7) and an empty log, and the
    hypotheses of `C01_recycled_raises_NSP` are met by a non-trivial state (PID recycled) -/
example :
    (run cfg (St.init 1000) witnessL1).log = []
    ∧ (step cfg (run cfg (St.init 1000) (witnessL1.take 5)) (.c (.signal 0 .kill))).2 = .exc (.noSuchProcess 7)
    ∧ (run cfg (St.init 1000) witnessCoincidence).log = []
    ∧ (run cfg (St.init 1000) (witnessL1.take 5)).kern.owner 7 = some 1 := by decide

/-- a live process does get its signal, and a setter its values -/
example :
    (run cfg (St.init 1000) [.k (.spawn 7), .c (.newObj 7), .k (.setBtime 5), .c .bootTime,
        .c (.signal 0 .suspend), .c (.setter 0 .affinity [3, 1, 3])]).log
      = [⟨.set .affinity, 0, 7, [1, 3], some 0, none⟩, ⟨.kill, 0, 7, [19], some 0, none⟩] := by decide

/-- permission inputs: the kernel refuses PID 7 with EPERM — terminate() makes one attempt on the object's own
    incarnation and raises AccessDenied(7), no sticky flag is set (is_running() still True); a recycled PID is
    refused by the guard before the kernel is even asked (NoSuchProcess, no attempt), whatever the permissions;
    once the kernel allows PID 7 again a new object gets its SIGKILL through -/
example :
    (step cfg (run cfg (St.init 1000) [.k (.spawn 7), .c (.newObj 7), .k (.perm 7 (some .eperm))])
        (.c (.signal 0 .terminate))).2 = .exc (.accessDenied 7)
    ∧ (step cfg (run cfg (St.init 1000) [.k (.spawn 7), .c (.newObj 7), .k (.perm 7 (some .eperm)),
        .c (.signal 0 .terminate)]) (.c (.isRunning 0))).2 = .bool true
    ∧ (run cfg (St.init 1000) [.k (.spawn 7), .c (.newObj 7), .k (.perm 7 (some .eperm)), .c (.signal 0 .terminate),
        .c (.setter 0 .nice [5]), .k (.reap 7), .k (.spawn 7), .c (.signal 0 .kill), .k (.perm 7 none),
        .c (.signal 0 .kill), .c (.newObj 7), .c (.signal 1 .kill)]).log
      = [⟨.kill, 1, 7, [9], some 1, none⟩, ⟨.set .nice, 0, 7, [5], some 0, some .eperm⟩,
         ⟨.kill, 0, 7, [15], some 0, some .eperm⟩] := by decide

/-- handles from `process_iter()`: the first sweep yields handle 0 on PID 7; the PID is recycled; the second
    sweep yields the *cached* handle 0 again (nobody asked `is_running()`: psutil cannot know), a kill
    through it is refused with NoSuchProcess(7) and reaches nobody; the sweep after that evicts the entry,
    the next one hands out handle 1 on the new owner, through which SIGTERM is delivered to incarnation 1 -/
example :
    (step cfg (run cfg (St.init 1000) [.k (.spawn 7), .c .processIter, .k (.reap 7), .k (.spawn 7)])
        (.c .processIter)).2 = .procs [(7, 0)]
    ∧ (step cfg (run cfg (St.init 1000) [.k (.spawn 7), .c .processIter, .k (.reap 7), .k (.spawn 7), .c .processIter])
        (.c (.signal 0 .kill))).2 = .exc (.noSuchProcess 7)
    ∧ (run cfg (St.init 1000) [.k (.spawn 7), .c .processIter, .k (.reap 7), .k (.spawn 7), .c .processIter,
        .c (.signal 0 .kill), .c .processIter, .c .processIter, .c (.oneshot 1 true), .c (.signal 1 .terminate)]).log
      = [⟨.kill, 1, 7, [15], some 1, none⟩] := by decide

/-! ## Why the two fix flags matter: the full statements are false without them -/

/-- `_raise_if_pid_reused` as in psutil ≤ 7.0.0 (no `_gone` test) -/
def cfgNoGoneTest : Cfg := { goodCfg with goneRaises := false }

/-- `boot_time()` as in psutil ≤ 7.0.0 (rewrites BOOT_TIME on every call) -/
def cfgBootRewrite : Cfg := { goodCfg with bootWriteOnce := false }

/-- the full statement of `C01_no_wrong_owner`, for an arbitrary configuration -/
def NoWrongOwner_Full (c : Cfg) : Prop :=
  ∀ (b0 : Nat), BtOK c.createNoneTest b0 → ∀ (h : List Ev), HistOK c.createNoneTest h →
    ∀ e ∈ (run c (St.init b0) h).log, EffOK (run c (St.init b0) h).ps.objs e

/-- **Lead L1 (proved).** Without the `_gone` test, `witnessL1` delivers SIGKILL to incarnation 1 of PID 7
    through an object built for incarnation 0: kill() returns normally. -/
theorem C01_gone_counterexample : ¬ NoWrongOwner_Full cfgNoGoneTest := by
  intro H
  have hlog : (run cfgNoGoneTest (St.init 1000) witnessL1).log = [⟨.kill, 0, 7, [9], some 1, none⟩] := by decide
  have hobj : (run cfgNoGoneTest (St.init 1000) witnessL1).ps.objs[0]? = some ⟨7, some 100000, some 100000, true, false, 0⟩ := by
    decide
  obtain ⟨o, ho, _, hw, _⟩ := H 1000 (by decide) witnessL1 (by decide) ⟨.kill, 0, 7, [9], some 1, none⟩
    (by rw [hlog]; exact List.mem_cons_self)
  simp only at ho hw
  rw [hobj] at ho
  cases ho
  exact absurd hw (by decide)

/-- the last call of `witnessL1` returns normally in that configuration -/
theorem C01_gone_counterexample_returns :
    (step cfgNoGoneTest (run cfgNoGoneTest (St.init 1000) (witnessL1.take 5)) (.c (.signal 0 .kill))).2 = .unit := by
  decide

/-- **Lead L2 against C01 (proved).** With a `boot_time()` that rewrites BOOT_TIME, a clock step can make
    the recycled PID's new owner indistinguishable: `witnessCoincidence` kills incarnation 100. -/
theorem C01_bootrewrite_counterexample : ¬ NoWrongOwner_Full cfgBootRewrite := by
  intro H
  have hlog : (run cfgBootRewrite (St.init 1000) witnessCoincidence).log = [⟨.kill, 0, 7, [9], some 100, none⟩] := by
    decide
  have hobj : (run cfgBootRewrite (St.init 1000) witnessCoincidence).ps.objs[0]?
      = some ⟨7, some 100000, some 100000, false, false, 0⟩ := by decide
  obtain ⟨o, ho, _, hw, _⟩ := H 1000 (by decide) witnessCoincidence (by decide) ⟨.kill, 0, 7, [9], some 100, none⟩
    (by rw [hlog]; exact List.mem_cons_self)
  simp only at ho hw
  rw [hobj] at ho
  cases ho
  exact absurd hw (by decide)

/-- `NoWrongOwner_Full` IS the statement proved for the extracted configuration -/
theorem C01_no_wrong_owner_full : NoWrongOwner_Full cfg :=
  fun b0 _ h hh => C01_no_wrong_owner b0 h (cfg_none_test ▸ hh)

/-! ## A published boot time of 0 — WHAT-IF (the source before /repo 29257b1; former finding `C02-boottime-zero`)

With `bt = BOOT_TIME or boot_time()` a cached boot time of 0.0 (a board without RTC boots at the epoch) is falsy: every
later `create_time()` follows the LIVE boot time, so after a clock step the reuse guard sees a "different process" under
the PID of a handle whose process is alive, and refuses.  Safety (`C01_no_wrong_owner`) is not affected — nothing is
ever delivered to a wrong process — but the clause "the guard refuses nothing it should not"
(`C01_live_signal_delivered`) is false there.  The checked source tests `BOOT_TIME is not None` (`cfg_none_test`) and
the clause holds for it for every boot time (`C01_live_signal_delivered_full`). -/

/-- the first half of `C01_live_signal_delivered` for an arbitrary configuration, NO hypothesis on the boot time -/
def LiveSignalDelivered_AnyBoot_Full (c : Cfg) : Prop :=
  ∀ (b0 : Nat) (h : List Ev), HistOK true h → ∀ (i : Nat) (o : PObj) (m : SigMethod),
    (run c (St.init b0) h).ps.objs[i]? = some o → Listed (run c (St.init b0) h).kern o → o.pid ≠ 0 →
    (step c (run c (St.init b0) h) (.c (.signal i m))).2 = outOf o.pid ((run c (St.init b0) h).kern.refusal o.pid)

/-- every guard in place, but `create_time()` tests the cached boot time by truthiness (psutil before /repo 29257b1) -/
def cfgTruthy : Cfg := { goodCfg with createNoneTest := false }

/-- a board that boots at the epoch: `Process(7)` captures `BOOT_TIME = 0.0`; NTP steps the clock (published btime 5) -/
def witnessBtime0 : List Ev := [.k (.spawn 7), .c (.newObj 7), .k (.setBtime 5)]

/-- **C01_btime0_counterexample** (WHAT-IF, not the checked source).  With the truthiness test, after `witnessBtime0`
    from a published boot time of 0, `terminate()` on the handle of the LIVE process 7 raises NoSuchProcess(7): the
    guard's fresh `Process(7)` is stamped with the live boot time 5, the handle with the cached 0. -/
theorem C01_btime0_counterexample :
    ¬ LiveSignalDelivered_AnyBoot_Full cfgTruthy
    ∧ (step cfgTruthy (run cfgTruthy (St.init 0) witnessBtime0) (.c (.signal 0 .terminate))).2 = .exc (.noSuchProcess 7) := by
  have h0 : (run cfgTruthy (St.init 0) witnessBtime0).ps.objs[0]? = some ⟨7, some 0, some 0, false, false, 0⟩ := by
    decide
  refine ⟨fun H => ?_, by decide⟩
  have := H 0 witnessBtime0 (by decide) 0 _ .terminate h0 (by rw [← listedB_iff]; decide) (by decide)
  revert this; decide

/-- the clause holds for the configuration extracted from the checked source, for every boot time -/
theorem C01_live_signal_delivered_full : LiveSignalDelivered_AnyBoot_Full cfg :=
  fun b0 h hh i o m ho hl hp => (C01_live_signal_delivered b0 h hh i o m ho hl hp).1

/-- with the extracted configuration the same history ends in a delivered SIGTERM -/
example :
    (run cfg (St.init 0) (witnessBtime0 ++ [.c (.signal 0 .terminate)])).log = [⟨.kill, 0, 7, [15], some 0, none⟩] := by
  decide

/-! ## One incarnation per clock tick — the hypothesis made explicit (CHARACTERISATION, psutil documents it)

psutil identifies a process by `(pid, create_time)`; the kernel publishes the start in clock ticks (field 22 of
/proc/pid/stat).  Two incarnations of one PID created within the same tick are indistinguishable to it — "a PID is
not recycled within one clock tick" is the assumption the upstream docs state.  In the model `spawn` stamps each new
incarnation with a fresh tick; `spawnSameTick` is the event that violates the assumption (new incarnation, own
`start`, but the stat file repeats the previous stamp).  Every theorem's `HistOK` / `HistOKb` excludes it; the
statement below — `C01_no_wrong_owner` with that event allowed — is false. -/

/-- `e.OK`, but same-tick spawns are allowed -/
def Ev.OKst (ev : Ev) (nt : Bool) : Prop :=
  match ev with
  | .k (.spawnSameTick _) => True
  | e => e.OK nt

instance (nt : Bool) : DecidablePred (Ev.OKst · nt) := fun e => by
  cases e with
  | c _ => simp only [Ev.OKst]; infer_instance
  | k ke => cases ke <;> simp only [Ev.OKst] <;> infer_instance

def NoWrongOwner_SameTick_Full (c : Cfg) : Prop :=
  ∀ (b0 : Nat), BtOK c.createNoneTest b0 → ∀ (h : List Ev), (∀ e ∈ h, e.OKst c.createNoneTest) →
    ∀ e ∈ (run c (St.init b0) h).log, EffOK (run c (St.init b0) h).ps.objs e

/-- PID 7 ends, is reaped and is taken again within the same clock tick; kill() through the old object -/
def witnessSameTick : List Ev :=
  [.k (.spawn 7), .c (.newObj 7), .k (.reap 7), .k (.spawnSameTick 7), .c (.signal 0 .kill)]

/-- **C01_same_tick_counterexample** (characterisation of a documented assumption, not a finding).  With the extracted
    configuration, `witnessSameTick` delivers SIGKILL to incarnation 1 of PID 7 through an object built for
    incarnation 0: both show the same start stamp, the guard cannot tell them apart. -/
theorem C01_same_tick_counterexample : ¬ NoWrongOwner_SameTick_Full cfg := by
  intro H
  have hlog : (run cfg (St.init 1000) witnessSameTick).log = [⟨.kill, 0, 7, [9], some 1, none⟩] := by decide
  have hobj : (run cfg (St.init 1000) witnessSameTick).ps.objs[0]?
      = some ⟨7, some (0 + cfg.clk * 1000), some (0 + cfg.clk * 1000), false, false, 0⟩ := by decide
  obtain ⟨o, ho, _, hw, _⟩ := H 1000 (by decide) witnessSameTick (by decide) ⟨.kill, 0, 7, [9], some 1, none⟩
    (by rw [hlog]; exact List.mem_cons_self)
  simp only at ho hw
  rw [hobj] at ho
  cases ho
  exact absurd hw (by decide)

/-! ## PID 0 and the setters — CHARACTERISATION (unreachable on Linux: no PID 0 is ever listed)

`_send_signal` and `_pslinux.Process.rlimit` refuse PID 0 themselves (`C01_sendSignal_refuses_zero`,
`C01_rlimit_refuses_zero`: any state).  `nice_set`, `ionice_set`, `cpu_affinity_set` do not: through a PID-0 object
they would call `setpriority(PRIO_PROCESS, 0, …)`, `ioprio_set(IOPRIO_WHO_PROCESS, 0, …)`, `sched_setaffinity(0, …)` —
which act on the CALLER.  `C01_no_pid0_effect` therefore carries `HistNoPid0`; without it the statement is false.
`Process(0)` cannot be built on Linux (`/proc/0` does not exist: NoSuchProcess; "PID 0 is not supported on Linux",
_pslinux.py), so this is not a defect against C01 as stated. -/

def NoPid0Effect_AnyPid_Full (c : Cfg) : Prop :=
  ∀ (b0 : Nat), BtOK c.createNoneTest b0 → ∀ (h : List Ev), HistOK c.createNoneTest h →
    ∀ e ∈ (run c (St.init b0) h).log, EffOKStrict (run c (St.init b0) h).ps.objs e

/-- a (fictitious) listed PID 0, an object on it, `nice(5)`, `ionice(2, 1)`, `cpu_affinity([1])` -/
def witnessPid0 : List Ev :=
  [.k (.spawn 0), .c (.newObj 0), .c (.setter 0 .nice [5]), .c (.setter 0 .ionice [2, 1]), .c (.setter 0 .affinity [1]),
   .c (.setter 0 .rlimit [7, 1, 1]), .c (.signal 0 .kill)]

/-- **C01_pid0_setter_counterexample** (characterisation).  If a PID 0 were listed, the three setters without a PID-0
    refusal would hand PID 0 to the OS (= the calling process); `rlimit` and the signal do not. -/
theorem C01_pid0_setter_counterexample :
    ¬ NoPid0Effect_AnyPid_Full cfg
    ∧ (run cfg (St.init 1000) witnessPid0).log
        = [⟨.set .affinity, 0, 0, [1], some 0, none⟩, ⟨.set .ionice, 0, 0, [2, 1], some 0, none⟩,
           ⟨.set .nice, 0, 0, [5], some 0, none⟩] := by
  have hlog : (run cfg (St.init 1000) witnessPid0).log
        = [⟨.set .affinity, 0, 0, [1], some 0, none⟩, ⟨.set .ionice, 0, 0, [2, 1], some 0, none⟩,
           ⟨.set .nice, 0, 0, [5], some 0, none⟩] := by decide
  refine ⟨fun H => ?_, hlog⟩
  have := (H 1000 (by decide) witnessPid0 (by decide) ⟨.set .nice, 0, 0, [5], some 0, none⟩ (by rw [hlog]; simp)).2
  exact absurd this (by decide)

/-! ## `(pid, None)` identities — CHARACTERISATION outside the property's quantifier

C01 quantifies over histories of process creation, exit, reaping and PID reuse with psutil calls in between
(`HistOK`: every theorem above).  It does not speak about `/proc/pid/stat` becoming unreadable (hidepid
mounts, LSMs): then `Process._init` swallows AccessDenied and keeps `_ident = (pid, None)` (Model: `mkObj`,
`Kernel.hidden`; Props/C02.lean: `C02_unknown_start_meaning`), and the reuse guard compares `None` with
`None`.  The statement below — `C01_no_wrong_owner` for histories in which stat files may be hidden — is
false; its witness is replayed on the real code by the check (corpus `unknown-start-recycled`). -/

/-- `C01_no_wrong_owner` with `HistOKb` (stat files may be hidden; still no same-tick recycling) in place of `HistOK` -/
def NoWrongOwner_AnyReadability_Full (c : Cfg) : Prop :=
  ∀ (b0 : Nat), BtOK c.createNoneTest b0 → ∀ (h : List Ev), HistOKb c.createNoneTest h →
    ∀ e ∈ (run c (St.init b0) h).log, EffOK (run c (St.init b0) h).ps.objs e

/-- PID 7's stat is unreadable when the object is built (`_ident = (7, None)`); the process ends, PID 7 is taken
    by another process whose stat is unreadable too; kill() -/
def witnessUnknownStart : List Ev :=
  [.k (.spawn 7), .k (.hide 7 true), .c (.newObj 7), .k (.reap 7), .k (.spawn 7), .c (.signal 0 .kill)]

/-- **C01_unknown_start_counterexample** (characterisation, not a defect against C01 as stated).  With the
    configuration extracted from the source: an object whose start time could not be read passes the reuse
    guard whenever the current holder of the PID is unreadable as well — `witnessUnknownStart` delivers SIGKILL
    to incarnation 1 through an object built for incarnation 0, and kill() returns normally. -/
theorem C01_unknown_start_counterexample : ¬ NoWrongOwner_AnyReadability_Full cfg := by
  intro H
  have hlog : (run cfg (St.init 1000) witnessUnknownStart).log = [⟨.kill, 0, 7, [9], some 1, none⟩] := by decide
  have hobj : (run cfg (St.init 1000) witnessUnknownStart).ps.objs[0]? = some ⟨7, none, none, false, false, 0⟩ := by
    decide
  obtain ⟨o, ho, _, hw, _⟩ := H 1000 (by decide) witnessUnknownStart (by decide) ⟨.kill, 0, 7, [9], some 1, none⟩
    (by rw [hlog]; exact List.mem_cons_self)
  simp only at ho hw
  rw [hobj] at ho
  cases ho
  exact absurd hw (by decide)

/-- **C01_known_start_no_wrong_owner.** What does survive unreadable stat files.  After ANY history — `hide`
    events included, from any boot time, with any clock steps — every OS call in the log (carried out or
    refused) was made by an existing object under exactly that object's PID, a signal never went to PID ≤ 0, and
    whenever the asking object's start time is known (`_ident = (pid, t)`: its stat file was readable when it
    was built) the PID was held at that instant by the very incarnation the object was built for.  So the
    counterexample above needs an object with `_ident = (pid, None)`; an object with a known start is at worst
    refused too eagerly (NoSuchProcess while its stat file is hidden: `C02_unknown_start_counterexample`). -/
theorem C01_known_start_no_wrong_owner (b0 : Nat) (h : List Ev) (hh : HistOKb true h) :
    ∀ e ∈ (run cfg (St.init b0) h).log,
      ∃ o, (run cfg (St.init b0) h).ps.objs[e.obj]? = some o ∧ e.pid = (o.pid : Int)
        ∧ (e.kind = .kill → 0 < e.pid) ∧ (o.ident ≠ none → e.owner = some o.ghost) :=
  run_log2 cfg_good h _ (HistOKb.of_none_test cfg_none_test hh) (init_inv2 _ (BtOK.of_none_test cfg_none_test b0)) (fun e he => by simp [St.init] at he)

/-- **C01_recycled_raises_NSP_readable.**  The recycling clause of the property over the wider class of histories in
    which stat files may be unreadable at ANY point (`HistOKb`: `hide` events anywhere — in particular while a
    `Process` object is being built, which leaves it with `_ident = (pid, None)`), for EVERY object, with ANY calls in
    between (`create_time()`, `is_running()`, `process_iter()`, …): when the incarnation the object was built for has
    left the process table and `/proc/pid/stat` of the PID opens at the moment of the call (the PID is free, or its
    new holder's stat file is readable — `StatOpens`), every signal method and every setter raises NoSuchProcess(pid)
    and nothing is handed to the OS.  So an object never "adopts" a later holder of its PID: the only way past the
    guard for a stale object is `C01_unknown_start_counterexample` (start unknown AND the new holder unreadable
    at that very moment).  Consumes `cfg_good`; the model's "`_ident` is written at construction only" is
    `cfg_ident_writers`. -/
theorem C01_recycled_raises_NSP_readable (b0 : Nat) (h : List Ev)
    (hh : HistOKb true h) (call : Call)
    (i : Nat) (o : PObj) (htg : call.target = some i) (hec : isEffectCall call = true)
    (ho : (run cfg (St.init b0) h).ps.objs[i]? = some o)
    (hgone : ¬ Listed (run cfg (St.init b0) h).kern o)
    (hread : StatOpens (run cfg (St.init b0) h).kern o.pid) :
    (step cfg (run cfg (St.init b0) h) (.c call)).2 = .exc (.noSuchProcess o.pid)
      ∧ (step cfg (run cfg (St.init b0) h) (.c call)).1.log = (run cfg (St.init b0) h).log := by
  have hinv := run_inv2 cfg_good.toBootGood h _ (HistOKb.of_none_test cfg_none_test hh) (init_inv2 cfg.clk (BtOK.of_none_test cfg_none_test b0))
  generalize run cfg (St.init b0) h = s at *
  obtain ⟨r, hm⟩ := method_some cfg s.kern s.ps o htg
  obtain ⟨he, hout⟩ := method_refuses_readable cfg_good hinv.kern.stamp hinv.ps.boot_nz
    (hinv.ps.objs o (List.mem_of_getElem? ho)) hm hec hgone hread
  rw [step_method cfg s htg ho hm]
  simp [he, hout, pushEff]

/-- **C01_effect_readable_right_owner.**  The same clause read off the effects: after ANY history (`HistOKb`), whenever
    a call does hand something to the OS while the PID's stat file opens, the PID is held by the very incarnation the
    asking object was built for (`Eff.owner` = the object's ghost) — known start or not. -/
theorem C01_effect_readable_right_owner (b0 : Nat) (h : List Ev)
    (hh : HistOKb true h) (call : Call) (i : Nat) (o : PObj) (e : Eff)
    (htg : call.target = some i) (ho : (run cfg (St.init b0) h).ps.objs[i]? = some o)
    (hread : StatOpens (run cfg (St.init b0) h).kern o.pid)
    (hlog : (step cfg (run cfg (St.init b0) h) (.c call)).1.log = e :: (run cfg (St.init b0) h).log) :
    e.owner = some o.ghost ∧ e.pid = (o.pid : Int) ∧ Listed (run cfg (St.init b0) h).kern o := by
  have hinv := run_inv2 cfg_good.toBootGood h _ (HistOKb.of_none_test cfg_none_test hh) (init_inv2 cfg.clk (BtOK.of_none_test cfg_none_test b0))
  have hlisted : Listed (run cfg (St.init b0) h).kern o := Classical.byContradiction fun hgone => by
    cases hec : isEffectCall call with
    | true =>
      have := (C01_recycled_raises_NSP_readable b0 h hh call i o htg hec ho hgone hread).2
      rw [this] at hlog
      exact absurd (congrArg List.length hlog) (by simp)
    | false =>
      generalize run cfg (St.init b0) h = s at *
      obtain ⟨r, hm⟩ := method_some cfg s.kern s.ps o htg
      rw [step_method cfg s htg ho hm, method_eff_none hm hec] at hlog
      exact absurd (congrArg List.length hlog) (by simp [pushEff])
  generalize run cfg (St.init b0) h = s at *
  obtain ⟨p, hp, hown, _⟩ := C01_owner_meaning s call e hlog
  rcases C01_exact_args s call with hsame | ⟨e', i', o', hl', htg', ho', _, hpid', _⟩
  · rw [hsame] at hlog
    exact absurd (congrArg List.length hlog) (by simp)
  · rw [htg] at htg'; cases htg'
    rw [ho] at ho'; cases ho'
    rw [hlog] at hl'
    simp only [List.cons.injEq, and_true] at hl'
    subst hl'
    have hpo : p = o.pid := by rw [hp] at hpid'; exact_mod_cast hpid'
    subst hpo
    obtain ⟨x, hx, hxp, hxs⟩ := hlisted
    have hown' : s.kern.owner o.pid = some o.ghost := by
      have hk := hinv.kern
      have hsome : (s.kern.procs.find? (·.pid == o.pid)).isSome := by
        rw [List.find?_isSome]; exact ⟨x, hx, by simp [hxp]⟩
      obtain ⟨y, hy⟩ := Option.isSome_iff_exists.1 hsome
      have hyp : y.pid = o.pid := by simpa using List.find?_some hy
      have : y = x := mem_eq_of_nodup_pid hk.uniq (List.mem_of_find?_eq_some hy) hx (hyp.trans hxp.symm)
      simp [Kernel.owner, Kernel.find, hy, this, hxs]
    exact ⟨hown.trans hown', hpid', ⟨x, hx, hxp, hxs⟩⟩

/-- the seeded history of this clause (non-vacuity): PID 7's stat is unreadable while the object is built, the process
    is reaped, PID 7 goes to another process whose stat IS readable, `create_time()` is asked (it answers with the NEW
    holder's start — memoised in `_create_time`, `_ident` stays `(7, None)`), then kill(): NoSuchProcess(7), nothing
    delivered; the hypotheses of `C01_recycled_raises_NSP_readable` hold in that state -/
example :
    let h : List Ev := [.k (.spawn 7), .k (.hide 7 true), .c (.newObj 7), .k (.reap 7), .k (.spawn 7),
                        .k (.hide 7 false), .c (.createTime 0)]
    HistOKb true h
    ∧ (step cfg (run cfg (St.init 1000) (h.take 6)) (.c (.createTime 0))).2 = .nat (1 + cfg.clk * 1000)
    ∧ (run cfg (St.init 1000) h).ps.objs[0]? = some ⟨7, none, some (1 + cfg.clk * 1000), false, false, 0⟩
    ∧ statOpensB (run cfg (St.init 1000) h).kern 7 = true ∧ listedB (run cfg (St.init 1000) h).kern ⟨7, none, none, false, false, 0⟩ = false
    ∧ (step cfg (run cfg (St.init 1000) h) (.c (.signal 0 .kill))).2 = .exc (.noSuchProcess 7)
    ∧ (step cfg (run cfg (St.init 1000) h) (.c (.signal 0 .kill))).1.log = []
    ∧ (step cfg (run cfg (St.init 1000) h) (.c (.setter 0 .nice [5]))).2 = .exc (.noSuchProcess 7) := by decide

/-- as soon as the new holder's stat can be read the same call is refused: the fresh `(7, t)` differs from
    `(7, None)` -/
example :
    (step cfg (run cfg (St.init 1000) [.k (.spawn 7), .k (.hide 7 true), .c (.newObj 7), .k (.reap 7),
        .k (.spawn 7), .k (.hide 7 false)]) (.c (.signal 0 .kill))).2 = .exc (.noSuchProcess 7) := by decide

/-! ## The bytes of `/proc/<pid>/stat` — command names and the other fields as a dimension of the histories

The identity `(pid, create_time)` that the reuse guard compares is PARSED from the line the kernel publishes:
`pid (comm) state ppid … starttime …` (proc(5)).  `comm` is chosen by the process itself (`prctl(PR_SET_NAME)`, the
executable's name): any bytes — spaces, parentheses, `) `, newlines, text that looks like the rest of a stat line.
Every theorem above takes what psutil sees of an incarnation as a number (`Inst.stamp`).  Here the simulated kernel
keeps, per incarnation, its comm and the other fields (Model/C01Stat.lean: `InstB`, `statLine`), a history says at each
spawn what the new incarnation shows and may REWRITE the line of a living process (`KEvB.rewrite`), and psutil runs
on the kernel as its reader makes it out of those bytes (`readStat` with the extracted shape `scfg`, `view`, `stepB`).
The specification does not look at the bytes (Spec/C01Stat.lean: `ListedB`, `StB.toSt`).
Hypothesis `HistWF`: the lines are in the kernel's format (a state letter, 17 numbers between ppid and starttime, at
least 17 after it).  NO hypothesis on any comm. -/

/-- **scfg_good** (obligation on the translator's facts `statSearch`, `statNeedle`, `statSkip`, `statSplit`,
    `statCtimeIdx`, `statStatusIdx`, `createReads` — extracted by following the data flow of `_parse_stat_file`, helper
    functions inlined): the end of the name is the LAST `)` of the file, the fields are what follows two bytes further,
    split at runs of whitespace, field 19 is stored as 'create_time' and field 0 as 'status', and `create_time()` is
    `float(<stat record>['create_time']) / CLOCK_TICKS` + boot time.  Stops building when the name is delimited any
    other way (first `)`, first `) `, a fixed width, a regular expression …), when another field is taken, or when the
    shape is no longer recognised. -/
theorem scfg_good :
    scfgRaw.Good ∧ Gen.C01.statSearch = "rfind" ∧ Gen.C01.statSplit = "ws"
      ∧ Gen.C01.createReads = "float(create_time)/CLOCK_TICKS" ∧ scfg = scfgRaw := by
  refine ⟨?_, ?_, ?_, ?_, ?_⟩ <;> decide

theorem scfg_is_good : scfg.Good := scfg_good.2.2.2.2 ▸ scfg_good.1

/-- **C01_stat_identity_any_comm.** Whatever bytes an incarnation shows as its command name (`x.comm`: unconstrained),
    whatever its other fields, psutil's reader recovers from its stat line exactly the kernel's starttime and whether
    it is a zombie — the two things the identity machine sees of it. -/
theorem C01_stat_identity_any_comm (x : InstB) (hwf : x.aux.WF) :
    readStat scfg (statLine x) = .ok x.stamp x.zombie := readStat_statLine scfg_is_good x hwf

/-- **C01_stat_bytes_refine.** Every byte-level history (any comm at every spawn, lines rewritten while processes
    live) runs exactly as the history of Model/C01.lean it stands for, and in the state it reaches every psutil call
    has the outcome, the effects and the objects of that model's call on the kernel's own table. -/
theorem C01_stat_bytes_refine (b0 : Nat) (h : List EvB) (hwf : HistWF h) :
    (runB scfg cfg (StB.init b0) h).toSt = run cfg (St.init b0) (h.map EvB.erase)
    ∧ ∀ call, (stepB scfg cfg (runB scfg cfg (StB.init b0) h) (.c call)).2
          = some (step cfg (runB scfg cfg (StB.init b0) h).toSt (.c call)).2
        ∧ (stepB scfg cfg (runB scfg cfg (StB.init b0) h) (.c call)).1.toSt
          = (step cfg (runB scfg cfg (StB.init b0) h).toSt (.c call)).1 := by
  obtain ⟨h1, h2⟩ := runB_toSt scfg_is_good cfg h (StB.init b0) (init_wf b0) hwf
  refine ⟨h1, fun call => ?_⟩
  obtain ⟨a, b, _⟩ := stepB_good scfg_is_good cfg _ h2 call
  exact ⟨a, b⟩

/-- **C01_recycled_raises_NSP_any_stat_bytes.** The recycling clause over the byte dimension: after ANY history in
    which every incarnation shows any command name and any other fields (the first holder of the PID and the later
    ones alike: the same name, names of the same shape, names containing `) `, names that spell out a whole fake
    stat tail), when the incarnation an object was built for has left the process table, every signal method and
    every setter raises NoSuchProcess(pid) and nothing is handed to the OS. -/
theorem C01_recycled_raises_NSP_any_stat_bytes (b0 : Nat) (h : List EvB) (hwf : HistWF h)
    (hh : HistOK true (h.map EvB.erase)) (call : Call)
    (i : Nat) (o : PObj) (htg : call.target = some i) (hec : isEffectCall call = true)
    (ho : (runB scfg cfg (StB.init b0) h).ps.objs[i]? = some o)
    (hgone : ¬ ListedB (runB scfg cfg (StB.init b0) h).kern o) :
    (stepB scfg cfg (runB scfg cfg (StB.init b0) h) (.c call)).2 = some (.exc (.noSuchProcess o.pid))
      ∧ (stepB scfg cfg (runB scfg cfg (StB.init b0) h) (.c call)).1.log = (runB scfg cfg (StB.init b0) h).log := by
  obtain ⟨hrun, hcall⟩ := C01_stat_bytes_refine b0 h hwf
  obtain ⟨hout, hst⟩ := hcall call
  have ho' : (run cfg (St.init b0) (h.map EvB.erase)).ps.objs[i]? = some o := by rw [← hrun]; exact ho
  have hgone' : ¬ Listed (run cfg (St.init b0) (h.map EvB.erase)).kern o := by
    rw [← hrun]; exact fun hl => hgone ((listedB_forget _ o).2 hl)
  obtain ⟨h1, h2⟩ := C01_recycled_raises_NSP b0 (h.map EvB.erase) hh call i o htg hec ho' hgone'
  rw [← hrun] at h1 h2
  refine ⟨by rw [hout, h1], ?_⟩
  have := congrArg St.log hst
  rw [h2] at this
  exact this

/-- **C01_no_wrong_owner_any_stat_bytes.** After any such history every OS call psutil ever made reached the very
    incarnation the asking object was built for, under exactly the object's PID, and no signal went to a PID ≤ 0. -/
theorem C01_no_wrong_owner_any_stat_bytes (b0 : Nat) (h : List EvB) (hwf : HistWF h)
    (hh : HistOK true (h.map EvB.erase)) :
    ∀ e ∈ (runB scfg cfg (StB.init b0) h).log, EffOK (runB scfg cfg (StB.init b0) h).ps.objs e := by
  have hrun := (C01_stat_bytes_refine b0 h hwf).1
  have := C01_no_wrong_owner b0 (h.map EvB.erase) hh
  rw [← hrun] at this
  exact this

/-- **C01_live_signal_delivered_any_stat_bytes.** The guard refuses nothing it should not, whatever the names: a
    signal method on an object whose own incarnation still holds the PID (> 0) — however often that process has
    renamed itself or its counters have moved since the object was built — makes exactly one `os.kill(pid, sig)`. -/
theorem C01_live_signal_delivered_any_stat_bytes (b0 : Nat) (h : List EvB) (hwf : HistWF h)
    (hh : HistOK true (h.map EvB.erase)) (i : Nat) (o : PObj) (m : SigMethod)
    (ho : (runB scfg cfg (StB.init b0) h).ps.objs[i]? = some o)
    (hlive : ListedB (runB scfg cfg (StB.init b0) h).kern o) (hpid : o.pid ≠ 0) :
    (stepB scfg cfg (runB scfg cfg (StB.init b0) h) (.c (.signal i m))).2
        = some (outOf o.pid ((runB scfg cfg (StB.init b0) h).kern.forget.refusal o.pid))
      ∧ (stepB scfg cfg (runB scfg cfg (StB.init b0) h) (.c (.signal i m))).1.log
          = ⟨.kill, i, o.pid, [(sigNumber m : Int)], some o.ghost, (runB scfg cfg (StB.init b0) h).kern.forget.refusal o.pid⟩
              :: (runB scfg cfg (StB.init b0) h).log := by
  obtain ⟨hrun, hcall⟩ := C01_stat_bytes_refine b0 h hwf
  obtain ⟨hout, hst⟩ := hcall (.signal i m)
  have ho' : (run cfg (St.init b0) (h.map EvB.erase)).ps.objs[i]? = some o := by rw [← hrun]; exact ho
  have hlive' : Listed (run cfg (St.init b0) (h.map EvB.erase)).kern o := by
    rw [← hrun]; exact (listedB_forget _ o).1 hlive
  obtain ⟨h1, h2⟩ := C01_live_signal_delivered b0 (h.map EvB.erase) hh i o m ho' hlive' hpid
  rw [← hrun] at h1 h2
  refine ⟨by rw [hout, h1]; rfl, ?_⟩
  have := congrArg St.log hst
  rw [h2] at this
  exact this

/-! ### WHAT-IF: a reader that stops at the first `) ` (the shape of seeded change C01-6) -/

/-- `C01_no_wrong_owner_any_stat_bytes` for an arbitrary reader -/
def NoWrongOwner_AnyStatBytes_Full (sc : StatCfg) (c : Cfg) : Prop :=
  ∀ (b0 : Nat) (h : List EvB), HistWF h → HistOK c.createNoneTest (h.map EvB.erase) →
    ∀ e ∈ (runB sc c (StB.init b0) h).log, EffOK (runB sc c (StB.init b0) h).ps.objs e

/-- `rpar = data.find(b') ')`: the name ends at the FIRST closing parenthesis that is followed by a space -/
def scfgFirstRparSp : StatCfg := ⟨.find, [41, 32], 2, 19, 0⟩

/-- a line with zeros in every other field -/
def auxZero : Aux := ⟨83, 1, List.replicate 17 0, List.replicate 30 0⟩

/-- PID 7 belongs to a process called `a) b`; an object is built; the process is reaped; PID 7 goes to a process
    called `c) d`; kill() through the old object -/
def witnessRparSp : List EvB :=
  [.k (.spawn 7 [97, 41, 32, 98] auxZero), .c (.newObj 7), .k (.reap 7), .k (.spawn 7 [99, 41, 32, 100] auxZero),
   .c (.signal 0 .kill)]

example : HistWF witnessRparSp ∧ HistOK true (witnessRparSp.map EvB.erase) := by decide

/-- with the extracted reader the last call of the witness is refused and nothing is delivered (the hypotheses of
    `C01_recycled_raises_NSP_any_stat_bytes` are met by a state in which the PID is recycled by a `c) d`) -/
example : (stepB scfg cfg (runB scfg cfg (StB.init 1000) (witnessRparSp.take 4)) (.c (.signal 0 .kill))).2
      = some (.exc (.noSuchProcess 7))
    ∧ (runB scfg cfg (StB.init 1000) witnessRparSp).toSt.log = [] := by
  have h4 := (C01_stat_bytes_refine 1000 (witnessRparSp.take 4) (by decide)).1
  have h5 := (C01_stat_bytes_refine 1000 witnessRparSp (by decide)).1
  refine ⟨(C01_recycled_raises_NSP_any_stat_bytes 1000 (witnessRparSp.take 4) (by decide) (by decide) (.signal 0 .kill) 0
      ⟨7, some (0 + cfg.clk * 1000), some (0 + cfg.clk * 1000), false, false, 0⟩ rfl rfl ?_ ?_).1, ?_⟩
  · show (runB scfg cfg (StB.init 1000) (witnessRparSp.take 4)).toSt.ps.objs[0]? = _
    rw [h4]; decide
  · intro hl
    have := (listedB_forget _ _).1 hl
    change Listed (runB scfg cfg (StB.init 1000) (witnessRparSp.take 4)).toSt.kern _ at this
    rw [h4, ← listedB_iff] at this
    revert this; decide
  · rw [h5]; decide

/-- the two holders of PID 7 in `witnessRparSp`: different processes (start 0 and start 1) -/
def holderA : InstB := ⟨7, 0, false, 0, [97, 41, 32, 98], auxZero⟩
def holderC : InstB := ⟨7, 1, false, 1, [99, 41, 32, 100], auxZero⟩

/-- **C01_first_rpar_space_counterexample** (WHAT-IF, the shape of seeded change C01-6; not the checked source).  A
    reader that ends the name at the first `) ` takes field 21 (itrealvalue) for the start time of a process called
    `a) b`: the two holders of PID 7 — different processes, different starttimes — read as the same `(stamp, state)`,
    so the reuse guard cannot tell them apart; the extracted reader tells them apart
    (`C01_stat_identity_any_comm`).  The full statement `NoWrongOwner_AnyStatBytes_Full scfgFirstRparSp cfg` fails on
    `witnessRparSp`; that history is replayed on the real code by the check (corpus `stat-bytes`, family
    `stat_bytes`, sweep `exhaustive_stat`). -/
theorem C01_first_rpar_space_counterexample :
    readStat scfgFirstRparSp (statLine holderA) = readStat scfgFirstRparSp (statLine holderC)
    ∧ readStat scfgFirstRparSp (statLine holderA) = .ok 0 false
    ∧ readStat scfg (statLine holderA) ≠ readStat scfg (statLine holderC) := by
  have hA : statLine holderA = [55, 32, 40, 97, 41, 32, 98, 41, 32, 83, 32, 49] ++ (List.replicate 17 [32, 48]).flatten
      ++ [32, 48] ++ (List.replicate 30 [32, 48]).flatten ++ [10] := by
    simp [statLine, statTail, holderA, auxZero, stateTok, renderDec_small, renderInt, joinWith]
  have hC : statLine holderC = [55, 32, 40, 99, 41, 32, 100, 41, 32, 83, 32, 49] ++ (List.replicate 17 [32, 48]).flatten
      ++ [32, 49] ++ (List.replicate 30 [32, 48]).flatten ++ [10] := by
    simp [statLine, statTail, holderC, auxZero, stateTok, renderDec_small, renderInt, joinWith]
  refine ⟨?_, ?_, ?_⟩
  · rw [hA, hC]; decide
  · rw [hA]; decide
  · rw [C01_stat_identity_any_comm holderA (by decide), C01_stat_identity_any_comm holderC (by decide)]
    decide

/-! ## The pid argument of EVERY kill(2) (seeded round C01-8)

"No psutil call ever signals PID 0 or a negative PID (which the OS would treat as a whole process group)" — for the
calls that take a caller-chosen integer (`psutil.pid_exists(n)`, reached from wherever a PID is probed) and for every
other `os.kill` call site of the package, signal 0 included: kill(2) addresses the same targets whatever the signal.
Model: the call graph of Model/C01Kill.lean as extracted (`killSites`, `killRoots`); spec: Spec/C01Kill.lean. -/

open Kill in
/-- **kcfg_good** (obligation on the extracted call graph `Gen.C01.killSites` / `killRoots`).  Every site hands on the
    function's own PID; no call chain is longer than the fuel of the walk; and from every public entry point, for every
    sign class its PID can take (any integer for a caller-chosen argument; zero or positive for the PID of a Process
    object, whose constructor refuses negative numbers), an `os.kill` call site is reached for POSITIVE PIDs only.
    Breaks when a guard in front of a probe / signal path is removed, weakened, or moved behind the call. -/
theorem kcfg_good : Kill.goodB Kill.kcfg = true := by decide

open Kill in
/-- **C01_no_group_kill_any_entry**.  For EVERY integer `p` (negative, zero, positive, any size) handed to ANY public
    entry point of the package's kill(2) call graph — for the methods of a Process object: every `p` the constructor
    lets through —, every kill(2) the call issues has a positive pid argument: no process group, not "every process",
    whatever the signal number (the existence probe `os.kill(pid, 0)` included). -/
theorem C01_no_group_kill_any_entry (r : String × List Kill.Cls) (hr : r ∈ Kill.kcfg.roots) (p : Int)
    (hp : Kill.clsOf p ∈ r.2) :
    Kill.NoGroupKill (Kill.killsOf Kill.kcfg (Kill.fuel Kill.kcfg) r.1 p) :=
  Kill.noGroupKill_of_good kcfg_good hr p hp

/-- **C01_pid_exists_never_probes_group**.  `psutil.pid_exists(p)` for every integer `p`: the only kill(2) it can
    issue is the probe of the positive PID `p` itself — nothing for `p ≤ 0`. -/
theorem C01_pid_exists_never_probes_group (p : Int) :
    Kill.NoGroupKill (Kill.killsOf Kill.kcfg (Kill.fuel Kill.kcfg) "__init__.py:pid_exists" p)
      ∧ (p ≤ 0 → Kill.killsOf Kill.kcfg (Kill.fuel Kill.kcfg) "__init__.py:pid_exists" p = []) := by
  have hroot : (("__init__.py:pid_exists", Kill.Cls.all) : String × List Kill.Cls) ∈ Kill.kcfg.roots := by decide
  refine ⟨C01_no_group_kill_any_entry _ hroot p (Kill.clsOf_mem_all p), ?_⟩
  intro hp
  match hk : Kill.killsOf Kill.kcfg (Kill.fuel Kill.kcfg) "__init__.py:pid_exists" p with
  | [] => rfl
  | k :: _ =>
    have hmem : k ∈ Kill.killsOf Kill.kcfg (Kill.fuel Kill.kcfg) "__init__.py:pid_exists" p := by simp [hk]
    have h1 := (Kill.killsOf_sound _ _ _ _ _ hmem).1
    have h2 := C01_no_group_kill_any_entry _ hroot p (Kill.clsOf_mem_all p) k hmem
    omega

/-- the clause is not vacuous: a positive PID IS probed (once), and the signal path of an object is an entry point -/
example : Kill.killsOf Kill.kcfg (Kill.fuel Kill.kcfg) "__init__.py:pid_exists" 7 = [7] := by decide
example : Kill.killsOf Kill.kcfg (Kill.fuel Kill.kcfg) "__init__.py:Process._send_signal" 7 = [7] := by decide
example : Kill.killsOf Kill.kcfg (Kill.fuel Kill.kcfg) "__init__.py:Process._send_signal" 0 = [] := by decide

/-- WHAT-IF: the same graph with the public probe's guard behind the call (the site is reached for every class) -/
def Kill.kcfgProbeFirst : Kill.KCfg :=
  { Kill.kcfg with sites := Kill.kcfg.sites.map fun s =>
      if s.fn == "__init__.py:pid_exists" then { s with reach := Kill.Cls.all } else s }

/-- full statement for an arbitrary call graph: what `C01_no_group_kill_any_entry` says of `kcfg` -/
def NoGroupKill_AnyEntry_Full (c : Kill.KCfg) : Prop :=
  ∀ r ∈ c.roots, ∀ p : Int, Kill.clsOf p ∈ r.2 → Kill.NoGroupKill (Kill.killsOf c (Kill.fuel c) r.1 p)

/-- **C01_probe_before_guard_counterexample** (WHAT-IF).  With the sign test of `psutil.pid_exists` evaluated after
    the platform probe, `pid_exists(-1)` issues kill(-1, 0) — every process the caller may signal — and
    `pid_exists(-7)` probes process group 7; the obligation fails and the full statement is refuted. -/
theorem C01_probe_before_guard_counterexample :
    Kill.killsOf Kill.kcfgProbeFirst (Kill.fuel Kill.kcfgProbeFirst) "__init__.py:pid_exists" (-1) = [-1]
    ∧ Kill.killsOf Kill.kcfgProbeFirst (Kill.fuel Kill.kcfgProbeFirst) "__init__.py:pid_exists" (-7) = [-7]
    ∧ Kill.goodB Kill.kcfgProbeFirst = false
    ∧ ¬ NoGroupKill_AnyEntry_Full Kill.kcfgProbeFirst := by
  refine ⟨by decide, by decide, by decide, ?_⟩
  intro h
  have := h ("__init__.py:pid_exists", Kill.Cls.all) (by decide) (-1) (by decide) (-1) (by decide)
  omega


end Psutil.C01
