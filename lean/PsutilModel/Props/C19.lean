/-
  Props/C19.lean — property theorems for C19 (sensors, battery, CPU frequency/count, boot time).
  Only statements the property makes; helper lemmas live in Proofs/C19*.lean.

  `cfg` is built from Generated/C19.lean, which the translator rewrites from /repo's source on
  every run; `cfg_good` is the proof obligation that breaks when the source narrows an `except`
  clause of the walkers, moves the `/1000` conversions (back) into the trip-point loop, tests
  thresholds by truthiness, or changes a constant / enum value; `cfg_names` the one for file names,
  keys, glob patterns and line tests (generated strings = the model's byte constants); `cfg_cat` for
  `_common.cat`'s handler; `cfg_boot_fresh` for `return ret` in boot_time().
  NOT obligations (the model follows the fact, the specification is silent): ValueError caught in
  sensors_fans, the coretemp platform glob, which `cpuN/online` file is probed, batteryNoDirNone
  (finding C19-battery-no-power-supply-dir while false).
  Theorems whose docstring starts with SPEC-ONLY / CHARACTERISATION say so on purpose.
-/
import PsutilModel.Proofs.C19
import PsutilModel.Proofs.C19Battery
import PsutilModel.Proofs.C19Cpu
import PsutilModel.Proofs.C19Text
import PsutilModel.Proofs.C19Cores
import PsutilModel.Proofs.C19Ext
import PsutilModel.Proofs.C19Dir
import PsutilModel.Proofs.C19Num
import PsutilModel.Proofs.C19Boot
import PsutilModel.Model.C19Gen
namespace Psutil.C19
open Spec

theorem cfg_good : cfg.Good := by constructor <;> decide

/-- the file names / keys / glob patterns / line tests the model hard-codes are the ones the source
    uses, and the generated strings are the model's own byte constants -/
theorem cfg_names : namesAsModelled = true := by decide

/-- `_common.cat` / `bcat` turn every OSError — from `open()` or from `read()` — into the fallback:
    the model's single `unreadable` file state stands on this -/
theorem cfg_cat : catAsModelled = true := by decide

/-! ## temperatures -/

/-- **The call never fails**, whatever the tree (any number of chips and sensors, either nesting,
    any subset of the files absent or unreadable, any bytes in them, any zones with any trip points
    in any order, any coretemp platform files). -/
theorem C19_temperatures_never_fail (t : TempTree) : ∃ rows, sensorsTemperatures cfg t = .ok rows := by
  have hg := cfg_good
  unfold sensorsTemperatures
  simp only [tempBases_eq, hwmon_collect' cfg hg, List.contains_eq_mem, hg.tempOs, decide_true,
    not_true_eq_false, and_false, if_false]
  by_cases hfb : (hwmonSensors t.chips).isEmpty = true ∧ t.coretempFiles = 0
  · simp only [hfb, and_self, if_true]
    obtain ⟨rows, h, _⟩ := collect_zones cfg hg t.zones
    exact ⟨rows, h⟩
  · simp only [hfb, if_false]
    exact ⟨_, rfl⟩

/-- **Refinement.** For EVERY tree on which the specification speaks (it says nothing about the
    `/sys/devices/platform/coretemp.*` glob: that one matches nothing, or hwmon lists a sensor
    anyway) the rows returned are, one for one, the rows of the declarative view: hwmon sensors
    whose reading and chip name are readable numbers/text — all others left out —, thermal zones
    only when hwmon lists no temperature file at all. -/
theorem C19_temperatures_refine (t : TempTree)
    (hct : t.coretempFiles = 0 ∨ (hwmonSensors t.chips).isEmpty = false) :
    ∃ rows, sensorsTemperatures cfg t = .ok rows ∧ List.Forall₂ AgreesRaw rows (temperatures t) := by
  have hg := cfg_good
  unfold sensorsTemperatures temperatures
  simp only [tempBases_eq, hwmon_collect' cfg hg, List.contains_eq_mem, hg.tempOs, decide_true,
    not_true_eq_false, and_false, if_false]
  by_cases he : (hwmonSensors t.chips).isEmpty = true
  · have hc : t.coretempFiles = 0 := by
      rcases hct with h | h
      · exact h
      · rw [he] at h; cases h
    simp only [he, hc, and_self, if_true]
    exact collect_zones cfg hg t.zones
  · have hfb : ¬ ((hwmonSensors t.chips).isEmpty = true ∧ t.coretempFiles = 0) := fun h => he h.1
    simp only [hfb, he, if_false]
    exact ⟨_, rfl, forall2_filterMap_toRaw _⟩

/-- **A listed hwmon sensor whose reading is missing, unreadable or not a number (or whose chip has
    no readable name) is skipped and does not fail the call** — for every tree in which hwmon lists
    a temperature file (or the coretemp glob matches): the result is exactly the rows of the
    per-sensor view, the others left out. (That NO tree fails is `C19_temperatures_never_fail`.) -/
theorem C19_missing_reading_skipped (t : TempTree)
    (h : (hwmonSensors t.chips).isEmpty = false ∨ t.coretempFiles ≠ 0) :
    sensorsTemperatures cfg t
      = .ok ((hwmonSensors t.chips).filterMap fun cs => (hwmonRow cs.1 cs.2).map Row.toRaw) := by
  have hg := cfg_good
  unfold sensorsTemperatures
  simp only [tempBases_eq, hwmon_collect' cfg hg, List.contains_eq_mem, hg.tempOs, decide_true,
    not_true_eq_false, and_false, if_false]
  have : ¬ ((hwmonSensors t.chips).isEmpty = true ∧ t.coretempFiles = 0) := by
    rintro ⟨h1, h2⟩
    cases h with
    | inl h => rw [h1] at h; cases h
    | inr h => exact h h2
  simp only [this, if_false]

/-- CHARACTERISATION of the code as it is, not a promise of the property: the coretemp platform
    glob yields no row (its entries are file names that are then read as `<file>_input`), but a
    match SUPPRESSES the thermal-zone fallback: hwmon lists nothing, coretemp matches → `{}`
    whatever the zones. The specification is silent on such trees (a maintainer reviving or
    removing that glob changes nothing the theorems promise). -/
theorem C19_coretemp_as_found (t : TempTree) (h1 : (hwmonSensors t.chips).isEmpty = true)
    (h2 : t.coretempFiles ≠ 0) : sensorsTemperatures cfg t = .ok [] := by
  rw [C19_missing_reading_skipped t (Or.inr h2)]
  have : hwmonSensors t.chips = [] := by simpa using h1
  rw [this]; rfl

/-- SPEC-ONLY (documents the specification's own definitions; no model / `cfg` term: does not by itself constrain psutil). which sensors are reported: reading readable AND numeric AND chip name readable -/
theorem C19_reported_iff (c : Chip) (s : Sensor) :
    (hwmonRow c s).isSome ↔ (∃ b v nm, s.input = .content b ∧ pyFloat? b = some v ∧ c.name = .content nm) := by
  unfold hwmonRow fileNum
  cases hi : s.input <;> cases hn : c.name <;> simp [FileState.readOpt]
  rename_i b nm
  cases hf : pyFloat? b <;> simp

/-- **Scaling.** Kernel millidegrees `%d\n` become degrees: current = n/1000, high = max/1000,
    critical = crit/1000; label and unit name are the stripped texts. -/
theorem C19_temp_scaling (c : Chip) (s : Sensor) (n mx cr : Int) (nm lb : Bytes)
    (hi : s.input = .content (kernelInt n)) (hm : s.max = .content (kernelInt mx))
    (hc : s.crit = .content (kernelInt cr)) (hn : c.name = .content nm) (hl : s.label = .content lb) :
    readTemp cfg c s = .ok (some { unit := stripWs nm, label := stripWs lb, current := (n : Rat) / 1000
                                   high := some ((mx : Rat) / 1000), crit := some ((cr : Rat) / 1000) }) := by
  rw [readTemp_eq cfg cfg_good]
  simp [hwmonRow, fileNum, fileText, FileState.readOpt, hi, hm, hc, hn, hl, pyFloat_renderInt_strip,
    Row.toRaw, perMille]

/-- a threshold file that is absent, unreadable or not a number gives `None`, not a failure -/
theorem C19_threshold_nonnumeric_none (c : Chip) (s : Sensor) (r : TempRaw)
    (h : readTemp cfg c s = .ok (some r)) (hm : fileNum s.max = none) : r.high = none := by
  rw [readTemp_eq cfg cfg_good] at h
  unfold hwmonRow at h
  split at h
  · simp only [Option.map_some, Except.ok.injEq, Option.some.injEq] at h
    subst h
    simp [Row.toRaw, hm]
  · simp at h

/-- **Fallback only when hwmon has nothing.** As soon as one `temp*_*` file is listed under
    /sys/class/hwmon (in either nesting), the thermal zones play no role at all. -/
theorem C19_zones_ignored_when_hwmon_lists (t : TempTree) (zs : List Zone)
    (h : (hwmonSensors t.chips).isEmpty = false) :
    sensorsTemperatures cfg { t with zones := zs } = sensorsTemperatures cfg t := by
  rw [C19_missing_reading_skipped t (Or.inl h)]
  exact C19_missing_reading_skipped { t with zones := zs } (Or.inl h)

/-- …and with no listed hwmon temperature file the rows are those of the zones. -/
theorem C19_fallback_to_zones (t : TempTree) (h : (hwmonSensors t.chips).isEmpty = true)
    (hc : t.coretempFiles = 0) :
    ∃ rows, sensorsTemperatures cfg t = .ok rows ∧ List.Forall₂ AgreesRaw rows (t.zones.filterMap zoneRow) := by
  have := C19_temperatures_refine t (Or.inl hc)
  unfold temperatures at this
  simpa only [h, if_true] using this

/-- **Zone thresholds, every iteration order.** `trips'` is ANY permutation of the trip points
    (Python iterates a `set`, whose order depends on the hash seed): when the zone has at most one
    `high` / `critical` trip point, high/critical is that trip point's temperature / 1000 (None
    when there is none or its file is unreadable / not a number). -/
theorem C19_zone_thresholds (trips trips' : List Trip) (hp : trips'.Perm trips) :
    (∀ v, zoneThresh bHigh trips = some v → (zoneThr cfg (trips'.filter (·.listed))).1 = v) ∧
    (∀ v, zoneThresh bCritical trips = some v → (zoneThr cfg (trips'.filter (·.listed))).2 = v) := by
  have hg := cfg_good
  have hp' : (trips'.filter (·.listed)).Perm (trips.filter (·.listed)) := hp.filter _
  refine ⟨fun v hv => ?_, fun v hv => ?_⟩
  · simp only [zoneThr, hg.conv, Bool.false_eq_true, if_false]
    exact zoneThrOutside_high cfg hg trips _ hp' v hv
  · simp only [zoneThr, hg.conv, Bool.false_eq_true, if_false]
    exact zoneThrOutside_crit cfg hg trips _ hp' v hv

/-- SPEC-ONLY (documents the specification's own definitions; no model / `cfg` term: does not by itself constrain psutil). the specification itself does not depend on the order either -/
theorem C19_zone_spec_order_free (kind : Bytes) (trips trips' : List Trip) (hp : trips'.Perm trips)
    (v : Option Rat) (h : zoneThresh kind trips = some v) : zoneThresh kind trips' = some v := by
  unfold zoneThresh at h ⊢
  have hp' : (tripsOfType kind trips').Perm (tripsOfType kind trips) := hp.filter _
  cases hl : tripsOfType kind trips with
  | nil => rw [hl] at hp' h; rw [List.Perm.eq_nil hp']; exact h
  | cons t rest =>
    cases rest with
    | nil => rw [hl] at hp' h; rw [List.perm_singleton.mp hp']; exact h
    | cons u us => rw [hl] at h; cases h

/-- the code as found (lead L16): conversions INSIDE the trip-point loop -/
def cfgLoopInside : Cfg := { cfg with zoneConvInsideLoop := true }

def l16Trips : List Trip :=
  [ { typ := .content [99, 114, 105, 116, 105, 99, 97, 108, 10]            -- "critical\n"
      temp := .content [49, 48, 53, 48, 48, 48, 10], hyst := false },     -- "105000\n"
    { typ := .content [112, 97, 115, 115, 105, 118, 101, 10]               -- "passive\n"
      temp := .content [57, 53, 48, 48, 48, 10], hyst := false } ]        -- "95000\n"

/-- Full statement for an arbitrary configuration -/
def ZoneThresholdsOrderFree (c : Cfg) : Prop :=
  ∀ trips trips' : List Trip, trips'.Perm trips →
    ∀ v, zoneThresh bCritical trips = some v → (zoneThr c (trips'.filter (·.listed))).2 = v

/-- the full statement holds for the source as it is (conversions after the loop) -/
theorem C19_zone_thresholds_full : ZoneThresholdsOrderFree cfg :=
  fun trips trips' hp v hv => (C19_zone_thresholds trips trips' hp).2 v hv

theorem pyFloat_105000 : pyFloat? [49, 48, 53, 48, 48, 48, 10] = some 105000 := by
  have h1 : stripWs [49, 48, 53, 48, 48, 48, 10] = [49, 48, 53, 48, 48, 48] := by decide
  have h2 : splitOn 46 [49, 48, 53, 48, 48, 48] = [[49, 48, 53, 48, 48, 48]] := by decide
  have h3 : parseDec? [49, 48, 53, 48, 48, 48] = some 105000 := by decide
  simp [pyFloat?, pyFloatU?, h1, h2, h3]

/-- **Counterexample (L16).** With the conversions inside the loop, a zone whose trip points are
    visited in the order critical(105000), passive reports critical = 0.105 instead of 105: the
    threshold found first is divided by 1000 again for the later trip point. -/
theorem C19_zone_thresholds_counterexample : ¬ ZoneThresholdsOrderFree cfgLoopInside := by
  intro h
  have hspec : zoneThresh bCritical l16Trips = some (some 105) := by
    have e : tripsOfType bCritical l16Trips = [l16Trips[0]] := by decide
    unfold zoneThresh
    rw [e]
    simp [l16Trips, fileNum, FileState.readOpt, pyFloat_105000, perMille]
    norm_num
  have := h l16Trips l16Trips (List.Perm.refl _) _ hspec
  have hl : l16Trips.filter (·.listed) = l16Trips := by decide
  rw [hl] at this
  have t0 : tripType l16Trips[0] = bCritical := by decide
  have t1c : tripType l16Trips[1] ≠ bCritical := by decide
  have t1h : tripType l16Trips[1] ≠ bHigh := by decide
  have hm : cfgLoopInside.milli = 1000 := by decide
  simp only [zoneThr, cfgLoopInside, if_true, zoneThrInside] at this
  simp only [l16Trips, List.foldl_cons, List.foldl_nil] at this
  simp only [l16Trips, List.getElem_cons_zero, List.getElem_cons_succ] at t0 t1c t1h
  simp [tripAssign, t0, t1c, t1h, Thr.ofNum, Thr.ofRead, Thr.conv, FileState.readOpt, pyFloat_105000] at this
  rw [show (cfg.milli : Rat) = 1000 from by have := cfg_good.milli; rw [this]; norm_num] at this
  norm_num at this

/-! ## front end -/

/-- **Front-end refinement**: Fahrenheit conversion and back-fill, for every tree. -/
theorem C19_front_refines (fahrenheit : Bool) (t : TempTree)
    (hct : t.coretempFiles = 0 ∨ (hwmonSensors t.chips).isEmpty = false) :
    ∃ rows, sensorsTemperaturesFront cfg fahrenheit t = .ok rows ∧
      List.Forall₂ AgreesOut rows (temperaturesFront fahrenheit t) := by
  obtain ⟨rows, h1, h2⟩ := C19_temperatures_refine t hct
  refine ⟨rows.map (frontTemp cfg fahrenheit), ?_, forall2_front cfg cfg_good fahrenheit rows _ h2⟩
  simp [sensorsTemperaturesFront, h1]

/-- **Fahrenheit = C·9/5 + 32** on all three numbers. -/
theorem C19_fahrenheit (r : TempRaw) (h c : Rat) (hh : r.high = some h) (hc : r.crit = some c) :
    frontTemp cfg true r = { unit := r.unit, label := r.label, current := r.current * 9 / 5 + 32
                             high := some (h * 9 / 5 + 32), crit := some (c * 9 / 5 + 32) } := by
  have hg := cfg_good
  simp [frontTemp, present_eq cfg hg, hh, hc, convertF_eq cfg hg, toFahrenheit]

/-- Celsius is passed through unchanged -/
theorem C19_celsius (r : TempRaw) (h c : Rat) (hh : r.high = some h) (hc : r.crit = some c) :
    frontTemp cfg false r = { unit := r.unit, label := r.label, current := r.current
                              high := some h, crit := some c } := by
  have hg := cfg_good
  simp [frontTemp, present_eq cfg hg, hh, hc, convertF_eq cfg hg]

/-- **Back-fill**: a MISSING high is filled from critical and vice versa; present values are kept
    (also a threshold of exactly 0), two missing stay missing. -/
theorem C19_backfill (f : Bool) (r : TempRaw) :
    let o := frontTemp cfg f r
    let cv := fun q => convertF cfg f q
    (∀ h, r.high = some h → o.high = some (cv h)) ∧
    (∀ c, r.crit = some c → o.crit = some (cv c)) ∧
    (∀ c, r.high = none → r.crit = some c → o.high = some (cv c)) ∧
    (∀ h, r.crit = none → r.high = some h → o.crit = some (cv h)) ∧
    (r.high = none → r.crit = none → o.high = none ∧ o.crit = none) := by
  have hg := cfg_good
  cases hh : r.high <;> cases hc : r.crit <;> simp [frontTemp, present_eq cfg hg, hh, hc]

/-- the front end as found: thresholds tested by truthiness -/
def cfgTruthiness : Cfg := { cfg with backfillTruthiness := true }

def BackfillKeepsPresent (c : Cfg) : Prop :=
  ∀ (f : Bool) (r : TempRaw) (h : Rat), r.high = some h → (frontTemp c f r).high = some (convertF c f h)

/-- the full statement holds for the source as it is (`is None` tests) -/
theorem C19_backfill_full : BackfillKeepsPresent cfg :=
  fun f r h hh => (C19_backfill f r).1 h hh

/-- **Counterexample.** With `if critical and not high`, a high threshold of exactly 0 °C is
    overwritten by the critical one (max = 0, crit = 84000 → high = 84.0). -/
theorem C19_backfill_counterexample : ¬ BackfillKeepsPresent cfgTruthiness := by
  intro h
  have := h false { unit := [], label := [], current := 35, high := some 0, crit := some 84 } 0 rfl
  simp [frontTemp, present, cfgTruthiness, convertF] at this

/-- no sensors at all → `{}` -/
theorem C19_none_when_absent_temps (t : TempTree) (h1 : (hwmonSensors t.chips).isEmpty = true)
    (h2 : t.coretempFiles = 0) (h3 : t.zones = []) : sensorsTemperatures cfg t = .ok [] := by
  obtain ⟨rows, hr, hf⟩ := C19_fallback_to_zones t h1 h2
  rw [h3] at hf
  cases hf
  exact hr

/-- **Fallback iff hwmon lists nothing.** The thermal zones have an influence on the result (some
    choice of zones changes it) exactly when /sys/class/hwmon lists no `temp*_*` file in either
    nesting and the coretemp platform glob matches nothing. -/
theorem C19_fallback_iff (t : TempTree) :
    (∀ zs, sensorsTemperatures cfg { t with zones := zs } = sensorsTemperatures cfg t)
      ↔ ((hwmonSensors t.chips).isEmpty = false ∨ t.coretempFiles ≠ 0) := by
  constructor
  · intro h
    by_cases h1 : (hwmonSensors t.chips).isEmpty = false
    · exact Or.inl h1
    · by_cases h2 : t.coretempFiles = 0
      · exfalso
        have h1' : (hwmonSensors t.chips).isEmpty = true := by simpa using h1
        have e0 := C19_none_when_absent_temps { t with zones := [] } h1' h2 rfl
        obtain ⟨rows, hr, hf⟩ := C19_fallback_to_zones { t with zones := [goodZone] } h1' h2
        obtain ⟨w, hw⟩ := goodZone_row
        simp only [List.filterMap_cons, hw, List.filterMap_nil] at hf
        rw [h [], ← h [goodZone], hr] at e0
        cases hf with
        | cons _ _ => cases e0
      · exact Or.inr h2
  · intro h zs
    rw [C19_missing_reading_skipped t h]
    exact C19_missing_reading_skipped { t with zones := zs } h

/-- non-vacuity: a tree with one chip, one readable sensor and a junk sensor; a zone set that meets
    the hypothesis of `C19_zone_thresholds` -/
example : ∃ c s, (hwmonRow c s).isSome ∧ ∃ s', s'.listed = true ∧ hwmonRow c s' = none :=
  ⟨{ nested := false, name := .content [110, 10], temps := [], fans := [] },
   { input := .content (kernelInt 45000), label := .absent, max := .absent, crit := .absent, other := false },
   by rw [C19_reported_iff]; exact ⟨_, _, _, rfl, pyFloat_renderInt_strip 45000, rfl⟩,
   { input := .unreadable, label := .absent, max := .absent, crit := .absent, other := false },
   by decide, by decide⟩

example : ∃ v, zoneThresh bCritical l16Trips = some v := ⟨_, by
  have e : tripsOfType bCritical l16Trips = [l16Trips[0]] := by decide
  unfold zoneThresh; rw [e]⟩

/-! ## fans -/

/-- **Fans.** RPM as an integer, label optional, a fan whose reading is missing or unreadable is
    skipped; the `device/` level is consulted only when no direct fan file exists. (The property is
    silent — and the code raises — when a reading is readable but not an integer, or the chip name
    of a readable fan cannot be read.) -/
theorem C19_fans_refine (chips : List Chip) (l : List FanOut) (h : fans chips = some l) :
    sensorsFans cfg chips = .ok l := fans_refine cfg cfg_good chips l h

/-- **Per fan.** Whenever the call returns, its rows are exactly the rows of the fans the property
    determines (reading missing / unreadable → left out; integer reading under a readable chip name
    → reported), in listing order — whatever OTHER fans are listed (a junk reading elsewhere, if the
    code skips it, takes nothing away from this statement). -/
theorem C19_fans_rows_when_returns (chips : List Chip) (l : List FanOut) (h : sensorsFans cfg chips = .ok l) :
    l = fanRowsDetermined chips := by
  rw [sensorsFans_eq] at h
  exact collect_ok_inv _ (fun cf => (fanRow cf.1 cf.2).join) _
    (fun cf _ r hr => readFan_ok_join cfg cfg_good cf.1 cf.2 r hr) l h

/-- **A missing or unreadable reading never fails the call**: `sensors_fans()` can raise only when
    some LISTED fan is one the property is silent about (readable non-integer reading, or a readable
    reading under an unreadable chip name). -/
theorem C19_fans_error_only_on_silent_fan (chips : List Chip) (e : Exc) (h : sensorsFans cfg chips = .error e) :
    ∃ cf ∈ fanListed chips, fanRow cf.1 cf.2 = none := by
  rw [sensorsFans_eq] at h
  obtain ⟨cf, hm, he⟩ := collect_error _ _ e h
  exact ⟨cf, hm, readFan_error_silent cfg cfg_good cf.1 cf.2 e he⟩

/-- CHARACTERISATION of the code while its `try` around the reading does not catch ValueError (the
    case today; NOT an obligation — catching it as the temperature walker does is a legitimate
    hardening): the call raises exactly when such a fan is listed. -/
theorem C19_fans_raise_iff_as_found (hv : Exc.valueError ∉ cfg.fanCaught) (chips : List Chip) :
    (∃ e, sensorsFans cfg chips = .error e) ↔ ∃ cf ∈ fanListed chips, fanRow cf.1 cf.2 = none := by
  constructor
  · rintro ⟨e, h⟩; exact C19_fans_error_only_on_silent_fan chips e h
  · rintro ⟨cf, hm, hr⟩
    rw [sensorsFans_eq]
    exact collect_fails _ _ ⟨cf, hm, readFan_fails cfg hv cf.1 cf.2 hr⟩

/-- no fan file listed at either level → `{}` -/
theorem C19_none_when_absent_fans (chips : List Chip) (h : fanListed chips = []) : sensorsFans cfg chips = .ok [] := by
  apply C19_fans_refine
  simp [fans, h, allSome]

/-- non-vacuity of `C19_fans_refine` / `C19_fans_rows_when_returns`: one chip, a fan at 1200 RPM and a
    fan whose reading cannot be read; and a chip on which the property is silent (junk reading) -/
def exFanChip (junk : Bool) : Chip :=
  { nested := false, name := .content [110, 10], temps := []
    fans := [ { input := .content [49, 50, 48, 48, 10], label := .absent, other := false },   -- "1200\n"
              { input := if junk then .content [120, 10] else .unreadable, label := .absent, other := false } ] }

example : fans [exFanChip false] = some [{ unit := [110], label := [], current := 1200 }] ∧
    fans [exFanChip true] = none ∧
    fanRowsDetermined [exFanChip true] = [{ unit := [110], label := [], current := 1200 }] := by decide

/-! ## battery -/

/-- **Refinement.** Whenever the specification determines the answer (every consulted file is
    absent, unreadable or holds an integer), `sensors_battery()` returns exactly it: the battery
    with the lexicographically smallest name among those called `BAT*` / `*battery*`, the first
    readable of each pair of alternative files, percent, plugged and seconds left as stated; `None`
    when no power supply is a battery. The hypothesis `hdir` is there for the code AS FOUND only
    (finding `C19-battery-no-power-supply-dir`): it falls away once the source answers a missing
    `/sys/class/power_supply` with None (`C19_battery_refines_full_repaired`). -/
theorem C19_battery_refines (p : PowerTree) (v : Option BatOut)
    (hdir : cfg.noDirNone = true ∨ p.dirExists = true) (h : battery p = some v) :
    sensorsBattery cfg p = .ok v := battery_refines cfg cfg_good p v hdir h

/-- the full-strength statement, for an arbitrary configuration: NO hypothesis on the class directory -/
def C19_battery_refines_Full (c : Cfg) : Prop :=
  ∀ (p : PowerTree) (v : Option BatOut), battery p = some v → sensorsBattery c p = .ok v

/-- the source with the proposed repair (fixes/C19-battery-no-power-supply-dir.diff): fact `batteryNoDirNone` = true -/
def cfgNoDirNone : Cfg := { cfg with noDirNone := true }
/-- the source as found: `os.listdir(POWER_SUPPLY_PATH)` unguarded -/
def cfgNoDirRaises : Cfg := { cfg with noDirNone := false }

theorem cfgNoDirNone_good : cfgNoDirNone.Good := by constructor <;> decide

/-- **Full strength for the repaired source**: every tree, class directory present or not. -/
theorem C19_battery_refines_full_repaired : C19_battery_refines_Full cfgNoDirNone :=
  fun p v h => battery_refines cfgNoDirNone cfgNoDirNone_good p v (Or.inl rfl) h

/-- **No battery → None, the class directory included** (repaired source): a kernel without
    `/sys/class/power_supply` exposes no battery. -/
theorem C19_none_when_no_power_supply_class_repaired (ss : List Supply) :
    sensorsBattery cfgNoDirNone { dirExists := false, supplies := ss } = .ok none :=
  C19_battery_refines_full_repaired _ _ (by simp [battery])

/-- **Counterexample for the source as found** (finding `C19-battery-no-power-supply-dir`): without
    `/sys/class/power_supply` the statement says None, `sensors_battery()` raises
    FileNotFoundError (an OSError) out of `os.listdir`. -/
theorem C19_battery_no_dir_counterexample : ¬ C19_battery_refines_Full cfgNoDirRaises := by
  intro h
  have := h { dirExists := false, supplies := [] } none (by decide)
  simp [sensorsBattery, cfgNoDirRaises] at this

/-- …and that is what the generated configuration does while the fact `batteryNoDirNone` is false -/
theorem C19_battery_no_dir_as_found (ss : List Supply) (h : cfg.noDirNone = false) :
    sensorsBattery cfg { dirExists := false, supplies := ss } = .error .osError := by
  simp [sensorsBattery, h]

/- fixes/C19-battery-no-power-supply-dir.diff has landed as /repo 0e1a768 (fact batteryNoDirNone = true):
   obligation + the full statement for the code as it is -/
theorem cfg_battery_no_dir : cfg.noDirNone = true := by decide
theorem C19_battery_refines_full : C19_battery_refines_Full cfg :=
  fun p v h => battery_refines cfg cfg_good p v (Or.inl cfg_battery_no_dir) h

/-- no battery among the power supplies → None -/
theorem C19_none_when_absent_battery (p : PowerTree) (hd : p.dirExists = true)
    (h : ∀ s ∈ p.supplies, isBatteryName s.name = false) : sensorsBattery cfg p = .ok none := by
  apply C19_battery_refines _ _ (Or.inr hd)
  unfold battery
  have : firstBattery p.supplies = none := by
    unfold firstBattery
    have : p.supplies.filter (fun s => isBatteryName s.name) = [] := by
      rw [List.filter_eq_nil_iff]; intro s hs; simp [h s hs]
    simp [this]
  simp [hd, this]

/-- SPEC-ONLY (documents the specification's own definitions; no model / `cfg` term: does not by itself constrain psutil). **first battery = lexicographic minimum of the battery names** -/
theorem C19_first_battery (ss : List Supply) (b : Supply) (h : firstBattery ss = some b) :
    b ∈ ss ∧ isBatteryName b.name = true ∧ ∀ b' ∈ ss, isBatteryName b'.name = true → lexLe b.name b'.name = true := by
  unfold firstBattery at h
  have h1 := List.mem_of_find?_eq_some h
  have h2 := List.find?_some h
  rw [List.mem_filter] at h1
  refine ⟨h1.1, h1.2, fun b' hb' hn => ?_⟩
  rw [List.all_eq_true] at h2
  exact h2 b' (List.mem_filter.mpr ⟨hb', hn⟩)

/-- **percent = now/full·100**, 0 when full = 0 -/
theorem C19_percent (b : Supply) (now full : Int) :
    batPercent cfg b (some (.int now)) (some (.int full))
      = .ok (some (if full = 0 then 0 else 100 * (now : Rat) / (full : Rat))) := by
  have hg := cfg_good
  unfold batPercent
  rw [hg.pct]
  by_cases h : full = 0 <;> simp [h]

/-- …the `capacity` file when either figure is missing; no capacity → None -/
theorem C19_percent_capacity (b : Supply) (now : Option MVal) (cp : Int)
    (hc : b.capacity = .content (kernelInt cp)) :
    batPercent cfg b now none = .ok (if cp = -1 then none else some (cp : Rat)) ∧
    (∀ b' : Supply, b'.capacity.readOpt = none → batPercent cfg b' now none = .ok none) := by
  constructor
  · unfold batPercent batCapacity
    cases now <;> by_cases h : cp = -1 <;> simp [hc, FileState.readOpt, pyInt_kernelInt, h]
  · intro b' hb'
    unfold batPercent batCapacity
    cases now <;> simp [hb']

/-- **plugged**: mains adapter `online` (AC0, else AC) = 1, else the status text -/
theorem C19_plugged (ss : List Supply) (b : Supply) : batPlugged cfg ss b = pluggedOf ss b :=
  (plugged_eq cfg cfg_good ss b).symm

/-- **secsleft**: plugged → UNLIMITED; else now/power·3600 truncated; power = 0 → UNKNOWN; else
    time_to_empty·60 (negative → UNKNOWN); else UNKNOWN -/
theorem C19_secsleft (pl : Option Bool) (now pw tte : Option Int) :
    batSecsleft cfg pl (now.map .int) (pw.map .int) (tte.map .int) = .ok (secsleftOf pl now pw tte) := by
  have h := secsleft_eq cfg cfg_good pl (now.map .int) (pw.map .int) (tte.map .int)
    (by cases now <;> simp [mvOf]) (by cases pw <;> simp [mvOf]) (by cases tte <;> simp [mvOf])
  rw [h]
  cases now <;> cases pw <;> cases tte <;> simp [mvOf]

/-- SPEC-ONLY (documents the specification's own definitions; no model / `cfg` term: does not by itself constrain psutil). -/
theorem C19_secsleft_rules (n p m : Int) (hp : p ≠ 0) :
    secsleftOf (some true) (some n) (some p) (some m) = -2 ∧
    secsleftOf (some false) (some n) (some p) (some m) = truncRat ((n : Rat) / (p : Rat) * 3600) ∧
    secsleftOf none (some n) (some 0) (some m) = -1 ∧
    secsleftOf none none (some p) (some m) = (if m * 60 < 0 then -1 else m * 60) ∧
    secsleftOf none (some n) none none = -1 := by
  simp [secsleftOf, hp]

/-- alternative file names: the first readable one wins, as an integer -/
theorem C19_alternatives (a b : FileState) : mvOf (multiBcat [a, b]) = altInt a b := mvOf_multi2 a b

/-- **alternative file names, clause by clause** (`energy_now`|`charge_now`, `power_now`|`current_now`,
    `energy_full`|`charge_full`, `AC0/online`|`AC/online`; the order is a translator fact checked by
    `cfg_good`): a readable first file wins whatever the second holds; an absent/unreadable first
    file gives the second; both absent/unreadable → no value -/
theorem C19_alternatives_rules (x y : Int) (f g : FileState) (hf : f.readOpt = none) :
    mvOf (multiBcat [.content (kernelInt x), g]) = some (some x) ∧
    mvOf (multiBcat [f, .content (kernelInt y)]) = some (some y) ∧
    (g.readOpt = none → multiBcat [f, g] = none) := by
  refine ⟨?_, ?_, ?_⟩
  · rw [mvOf_multi2, altInt_first]
  · rw [mvOf_multi2, altInt_second f hf]; simp [fileInt, FileState.readOpt, pyInt_kernelInt]
  · intro hg; simp [multiBcat, hf, hg]

/-- **plugged, clause by clause**: `AC0/online` when readable (1 = on mains), else `AC/online`,
    else the battery's status text (`discharging` → False, `charging`/`full` → True, anything else
    or no status → None) -/
theorem C19_plugged_rules (ss : List Supply) (b : Supply) :
    (∀ v, onlineOf ss bAC0 = .content (kernelInt v) → batPlugged cfg ss b = some (v == 1)) ∧
    (∀ v, (onlineOf ss bAC0).readOpt = none → onlineOf ss bAC = .content (kernelInt v) →
        batPlugged cfg ss b = some (v == 1)) ∧
    ((onlineOf ss bAC0).readOpt = none → (onlineOf ss bAC).readOpt = none →
        batPlugged cfg ss b =
          (let st := lower (fileText b.status)
           if st = bDischarging then some false else if st = bCharging ∨ st = bFull then some true else none)) := by
  refine ⟨?_, ?_, ?_⟩
  · intro v ho
    rw [C19_plugged]
    simp [pluggedOf, acOnline_eq, ho, altInt_first]
  · intro v h0 ho
    rw [C19_plugged]
    simp only [pluggedOf, acOnline_eq, altInt_second _ h0, ho]
    simp [fileInt, FileState.readOpt, pyInt_kernelInt]
  · intro h0 h1
    rw [C19_plugged]
    simp only [pluggedOf, acOnline_eq, altInt_second _ h0, fileInt, h1, Option.map_none]

/-- **end to end**: first battery with readable integer now / full / power figures (under either
    file name), no `time_to_empty_now`, and no mains-adapter `online` file holding something else
    than an integer: percent = now/full·100 (0 when full = 0); seconds left =
    UNLIMITED (-2) on mains, UNKNOWN (-1) when power = 0, else now/power·3600 truncated -/
theorem C19_battery_kernel (p : PowerTree) (b : Supply) (n f pw : Int) (hd : p.dirExists = true)
    (hb : firstBattery p.supplies = some b)
    (h1 : altInt b.energyNow b.chargeNow = some (some n))
    (h2 : altInt b.energyFull b.chargeFull = some (some f))
    (h3 : altInt b.powerNow b.currentNow = some (some pw))
    (h4 : b.timeToEmpty.readOpt = none) (hac : acOnline p.supplies ≠ some none) :
    sensorsBattery cfg p = .ok (some
      { percent := if f = 0 then 0 else 100 * (n : Rat) / (f : Rat)
        secsleft := if pluggedOf p.supplies b = some true then -2
                    else if pw = 0 then -1 else truncRat ((n : Rat) / (pw : Rat) * 3600)
        plugged := pluggedOf p.supplies b }) := by
  apply C19_battery_refines _ _ (Or.inr hd)
  simp [battery, hd, hb, h1, h2, h3, fileInt, h4, percentOf, secsleftOf, hac]


/-- non-vacuity of `C19_battery_kernel` / `C19_plugged_rules`: a discharging BAT0 next to an AC0 adapter -/
def exBat : Supply :=
  { name := [66, 65, 84, 48], energyNow := .content (kernelInt 30000), chargeNow := .absent
    powerNow := .absent, currentNow := .content (kernelInt 15000), energyFull := .content (kernelInt 60000)
    chargeFull := .unreadable, timeToEmpty := .absent, capacity := .absent
    status := .content [68, 105, 115, 99, 104, 97, 114, 103, 105, 110, 103, 10], online := .absent }

def exAC0 (v : Int) : Supply :=
  { exBat with name := bAC0, online := .content (kernelInt v) }

example : firstBattery [exAC0 0, exBat] = some exBat ∧
    altInt exBat.energyNow exBat.chargeNow = some (some 30000) ∧
    altInt exBat.energyFull exBat.chargeFull = some (some 60000) ∧
    altInt exBat.powerNow exBat.currentNow = some (some 15000) ∧
    onlineOf [exAC0 0, exBat] bAC0 = .content (kernelInt 0) ∧
    (onlineOf [exBat] bAC0).readOpt = none ∧ (onlineOf [exBat] bAC).readOpt = none ∧
    lower (fileText exBat.status) = bDischarging :=
  ⟨rfl, altInt_first _ _, altInt_first _ _, by rw [altInt_second _ rfl]; exact altInt_first _ .absent,
   rfl, rfl, rfl, by decide⟩

example : ∃ p v, battery p = some v := ⟨{ dirExists := true, supplies := [] }, none, by decide⟩

/-! ## cpu_freq -/

/-- **kHz → MHz** for every policy directory; the /proc/cpuinfo value is preferred when there is
    one per policy; a policy with no frequency file at all whose CPU is offline gives zeros. -/
theorem C19_cpu_freq_scaling (online : List (Nat × FileState)) (i : Nat) (info : Option Rat) (p : Policy)
    (fr : Freq) (h : policyRow p info (offline online i) = some fr) :
    policyFreq cfg online i info p = .ok fr := policyFreq_refines cfg cfg_good online i info p fr h

/-- kernel-format files: current/min/max = value/1000 -/
theorem C19_cpu_freq_khz (p : Policy) (cur mn mx : Int) (online : List (Nat × FileState)) (i : Nat)
    (h1 : p.scalingCur = .content (kernelInt cur)) (h2 : p.scalingMin = .content (kernelInt mn))
    (h3 : p.scalingMax = .content (kernelInt mx)) :
    policyFreq cfg online i none p = .ok ⟨(cur : Rat) / 1000, (mn : Rat) / 1000, (mx : Rat) / 1000⟩ := by
  apply C19_cpu_freq_scaling
  simp [policyRow, curOf, fileInt, FileState.readOpt, h1, h2, h3, pyInt_kernelInt, perMille]

/-- the whole platform list (both module variants), given the MHz values read from /proc/cpuinfo -/
theorem C19_cpu_freq_refines (variant : Bool) (blocks : List CpuBlock) (t : FreqTree)
    (hci : cpuinfoFreqs t.cpuinfo = .ok (blocks.map blockMhz)) (l : List Freq)
    (h : freqList variant blocks t = some l) : cpuFreqPlat cfg variant t = .ok l :=
  cpuFreqPlat_refines cfg cfg_good variant blocks t hci l h

/-- /proc/cpuinfo as the kernel prints it (`cpu MHz : %u.%03u` per processor block) is read back
    exactly: one MHz value per block -/
theorem C19_cpuinfo_freqs (blocks : List CpuBlock) (h : ∀ b ∈ blocks, b.mhzMilli < 1000) :
    cpuinfoFreqs (.content (renderCpuinfo blocks)) = .ok (blocks.map blockMhz) := by
  simp only [cpuinfoFreqs, FileState.read, linesOf_renderCpuinfo, cpuinfoFreqLines_blocks blocks h]

/-- end to end for a kernel-format cpuinfo: both module variants return the specified list
    (cpuinfo variant: `(MHz, 0, 0)` per processor; sysfs variant: kHz files / 1000, cpuinfo value
    preferred when the counts match, offline CPU → zeros) -/
theorem C19_cpu_freq_end_to_end (variant percpu : Bool) (blocks : List CpuBlock) (t : FreqTree)
    (hb : ∀ b ∈ blocks, b.mhzMilli < 1000) (hci : t.cpuinfo = .content (renderCpuinfo blocks))
    (l : List Freq) (h : freqList variant blocks t = some l) :
    cpuFreq cfg variant percpu t = .ok (freqFront percpu l) := by
  have h1 := C19_cpu_freq_refines variant blocks t (by rw [hci]; exact C19_cpuinfo_freqs blocks hb) l h
  simp [cpuFreq, h1, cpuFreqFront_eq]

/-- non-vacuity of `C19_cpu_freq_refines` / `_end_to_end` for the sysfs variant: one policy with the three
    kHz files (1000000 / 500000 / 2000000), and a policy without any frequency file whose CPU is offline -/
example : (freqList true []
    { cpuinfo := .content [], perCpu := [], online := [(1, .content [48, 10])]
      policies := [ { n := 0, scalingCur := .content [49, 48, 48, 48, 48, 48, 48, 10], cpuinfoCur := .absent
                      scalingMax := .content [50, 48, 48, 48, 48, 48, 48, 10]
                      scalingMin := .content [53, 48, 48, 48, 48, 48, 10] },
                    { n := 1, scalingCur := .absent, cpuinfoCur := .absent, scalingMax := .absent
                      scalingMin := .absent } ] }).isSome = true := by decide

/-- **percpu=False: the arithmetic mean of each column; no CPU → None; one CPU → that entry.** -/
theorem C19_cpu_freq_mean (percpu : Bool) (l : List Freq) : cpuFreqFront percpu l = freqFront percpu l :=
  cpuFreqFront_eq percpu l

theorem C19_cpu_freq_none : cpuFreqFront false [] = .none := rfl

theorem C19_cpu_freq_one (f : Freq) : cpuFreqFront false [f] = .one f := rfl

/-! ## cpu_count, cpu_stats, boot_time -/

/-- `os.sysconf` answers → that number (None when < 1) -/
theorem C19_cpu_count_sysconf (t : CountTree) (n : Int) (h : t.sysconf = some n) :
    cpuCount true t = .ok (countOut n) := by
  simp only [cpuCount, cpuCountLogicalPlat, h, if_true, countOut]
  split <;> rfl

/-- sysconf fails → the number of `processor` blocks of a kernel-format /proc/cpuinfo -/
theorem C19_cpu_count_cpuinfo (t : CountTree) (blocks : List CpuBlock) (h1 : t.sysconf = none)
    (h2 : t.cpuinfo = .content (renderCpuinfo blocks)) (h3 : blocks ≠ []) :
    cpuCount true t = .ok (some blocks.length) := by
  have hl : blocks.length ≠ 0 := by cases blocks <;> simp_all
  simp only [cpuCount, cpuCountLogicalPlat, h1, h2, FileState.read, if_true, linesOf_renderCpuinfo,
    count_processor_blocks, ne_eq, hl, not_false_eq_true]
  have : ¬ ((blocks.length : Int) < 1) := by omega
  simp [this]

/-- last resort: the `cpuN` rows of a kernel-format /proc/stat (cpuinfo without `processor` lines) -/
theorem C19_cpu_count_stat_rows (t : CountTree) (r : StatRec) (ci : Bytes) (h1 : t.sysconf = none)
    (h2 : t.cpuinfo = .content ci) (h3 : countWhere (fun l => kProcessor.isPrefixOf (lower l)) (linesOf ci) = 0)
    (h4 : t.stat = .content (renderStat r)) : cpuCount true t = .ok (countOut r.cpus.length) := by
  simp only [cpuCount, cpuCountLogicalPlat, h1, h2, h3, h4, FileState.read, if_true, renderStat,
    linesOf_unlines _ (statLines_no_nl r), count_stat_rows, ne_eq, not_true_eq_false, if_false, countOut]
  cases hz : r.cpus.length with
  | zero => simp
  | succ k => simp; split <;> rfl

/-- **Physical cores, refinement.** Whenever the specification determines the answer (every listed
    topology file is readable; /proc/cpuinfo in kernel format when there is no topology file),
    `cpu_count(logical=False)` returns exactly it. -/
theorem C19_cpu_count_cores_refines (t : CountTree) (blocks : List CpuBlock) (v : Option Int)
    (hci : topologyFiles t = [] → t.cpuinfo = .content (renderCpuinfo blocks))
    (h : countCores t blocks = some v) : cpuCount false t = .ok v :=
  cpuCountCores_refines t blocks v hci h

/-- **Topology files, either source**: any number of CPU directories with readable
    `core_cpus_list` files (or, when the kernel has none under that name, `thread_siblings_list`):
    the result is the number of DISTINCT (stripped) lists — never None, never the cpuinfo fallback. -/
theorem C19_cpu_count_cores_topology (t : CountTree)
    (hall : (topologyFiles t).all (fun f => f.readOpt.isSome) = true) (hne : topologyFiles t ≠ []) :
    cpuCount false t = .ok (some (distinctCount ((topologyFiles t).map fileText) : Int)) ∧
    (t.coreCpus ≠ [] → topologyFiles t = t.coreCpus) ∧ (t.coreCpus = [] → topologyFiles t = t.siblings) := by
  refine ⟨?_, ?_, ?_⟩
  · apply cpuCountCores_refines t [] _ (fun h => absurd h hne)
    have hd : distinctCount ((topologyFiles t).map fileText) ≠ 0 := by
      intro h
      have := (distinctCount_eq_zero _).mp h
      exact hne (by simpa using this)
    simp only [countCores, hall, if_true, ne_eq, hd, not_false_eq_true, countOut]
    have : ¬ ((distinctCount ((topologyFiles t).map fileText) : Int) < 1) := by omega
    simp [this]
  · intro h; cases hc : t.coreCpus with
    | nil => exact absurd hc h
    | cons a as => simp [topologyFiles, hc]
  · intro h; simp [topologyFiles, h]

/-- **Kernel-format topology**: for ANY assignment `coreOf` of n ≥ 1 logical CPUs to cores, with
    the sibling list of every CPU printed in the kernel's cpulist format (`0-1`, `0,4`, `2-3,6-7` …)
    under the new or the deprecated file name, the result is the number of distinct cores. -/
theorem C19_cpu_count_cores_kernel (coreOf : List Nat) (hne : coreOf ≠ []) (t : CountTree)
    (h : t.coreCpus = kernelTopology cpuList coreOf ∨
         (t.coreCpus = [] ∧ t.siblings = kernelTopology cpuList coreOf)) :
    cpuCount false t = .ok (some (distinctCount coreOf : Int)) := by
  have hk : kernelTopology cpuList coreOf ≠ [] := by
    cases coreOf with
    | nil => exact absurd rfl hne
    | cons c cs => simp [kernelTopology]
  have hfiles : topologyFiles t = kernelTopology cpuList coreOf := by
    rcases h with h | ⟨h1, h2⟩
    · unfold topologyFiles
      rw [h]
      cases hc : kernelTopology cpuList coreOf with
      | nil => exact absurd hc hk
      | cons a as => simp
    · simp [topologyFiles, h1, h2]
  have := (C19_cpu_count_cores_topology t (by rw [hfiles]; exact kernelTopology_readable _ _)
    (by rw [hfiles]; exact hk)).1
  rw [this, hfiles, kernelTopology_distinct cpuList cpuList_noWs cpuList_inj]

/-- **Fallback**: no topology file at all → the packages of a kernel-format /proc/cpuinfo: the sum
    over the distinct `physical id`s of that package's `cpu cores` (any number of blocks/packages);
    None when that is 0 -/
theorem C19_cpu_count_cores_cpuinfo (t : CountTree) (blocks : List CpuBlock) (h1 : t.coreCpus = [])
    (h2 : t.siblings = []) (h3 : t.cpuinfo = .content (renderCpuinfo blocks)) :
    cpuCount false t = .ok (countOut (coresOf blocks)) := by
  apply cpuCountCores_refines t blocks _ (fun _ => h3)
  simp [countCores, topologyFiles, h1, h2, distinctCount]

/-- no topology file and no package information → None -/
theorem C19_cpu_count_cores_none (t : CountTree) (blocks : List CpuBlock) (h1 : t.coreCpus = [])
    (h2 : t.siblings = []) (h3 : t.cpuinfo = .content (renderCpuinfo blocks)) (h0 : coresOf blocks = 0) :
    cpuCount false t = .ok none := by
  rw [C19_cpu_count_cores_cpuinfo t blocks h1 h2 h3, h0]
  rfl

/-- SPEC-ONLY (documents the specification's own definitions; no model / `cfg` term: does not by itself constrain psutil). the specification's package sum, spelled out: when every block of package p shows
    `cpu cores : c p` (what the kernel prints), it is Σ over the distinct physical ids of `c p` -/
theorem C19_cores_packages (blocks : List CpuBlock) (c : Nat → Nat)
    (h : ∀ b ∈ blocks, b.cores = c b.physicalId) :
    coresOf blocks = (((blocks.map (·.physicalId)).eraseDups).map fun p => (c p : Int)).foldl (· + ·) 0 := by
  unfold coresOf
  simp only []
  congr 1
  apply List.map_congr_left
  intro p hp
  have hp' : p ∈ blocks.map (·.physicalId) := List.mem_eraseDups.mp hp
  obtain ⟨b0, hb0, hb0p⟩ := List.mem_map.mp hp'
  cases hl : (blocks.filter (·.physicalId == p)).getLast? with
  | none =>
    rw [List.getLast?_eq_none_iff] at hl
    have : b0 ∈ blocks.filter (·.physicalId == p) := List.mem_filter.mpr ⟨hb0, by simp [hb0p]⟩
    rw [hl] at this
    cases this
  | some b =>
    have hb := List.mem_of_getLast? hl
    rw [List.mem_filter] at hb
    have hbp : b.physicalId = p := by simpa using hb.2
    simp [h b hb.1, hbp]

example : coresOf [⟨0, 2400, 0, 0, 2⟩, ⟨1, 2400, 0, 1, 2⟩, ⟨2, 2400, 0, 0, 2⟩, ⟨3, 2400, 0, 1, 2⟩] = 4 := by decide
example : distinctCount [0, 0, 1, 1, 5] = 3 ∧ (kernelTopology cpuList [0, 1, 0, 1]).length = 4 := by decide

/-- **Logical CPUs, all three sources in one statement**, on kernel-format text of both files:
    sysconf, else the `processor` blocks of /proc/cpuinfo, else the `cpuN` rows of /proc/stat;
    None when the count is not at least 1 -/
theorem C19_cpu_count_logical_refines (t : CountTree) (blocks : List CpuBlock) (r : StatRec)
    (h2 : t.cpuinfo = .content (renderCpuinfo blocks)) (h4 : t.stat = .content (renderStat r)) :
    cpuCount true t = .ok (countLogical t.sysconf blocks r) := by
  cases hs : t.sysconf with
  | some n => simpa [countLogical] using C19_cpu_count_sysconf t n hs
  | none =>
    cases hb : blocks with
    | nil =>
      subst hb
      have h3 : countWhere (fun l => kProcessor.isPrefixOf (lower l)) (linesOf (renderCpuinfo [])) = 0 := by
        rw [linesOf_renderCpuinfo]; rfl
      simpa [countLogical] using C19_cpu_count_stat_rows t r _ hs h2 h3 h4
    | cons b bs =>
      rw [hb] at h2
      have := C19_cpu_count_cpuinfo t (b :: bs) hs h2 (by simp)
      rw [this]
      simp [countLogical, countOut]

/-- **cpu_stats**: ctxt, first number of `intr`, first number of `softirq` of a kernel-format /proc/stat -/
theorem C19_cpu_stats (r : StatRec) :
    cpuStats (.content (renderStat r)) = .ok ⟨some r.ctxt, some r.intr, some r.softirq⟩ := cpuStats_render r

/-- **boot_time**: the `btime` line -/
theorem C19_boot_time (r : StatRec) : bootTime (.content (renderStat r)) = .ok (r.btime : Rat) := bootTime_render r

/-- obligation: `boot_time()` returns the value it has just read (`return ret`), not the module global -/
theorem cfg_boot_fresh : bootReturnsFresh = true := by decide

/-- the statement over HISTORIES of calls, for either shape of the function -/
def C19_boot_time_history_Full (fresh : Bool) : Prop :=
  ∀ (g : Option Rat) (rs : List StatRec),
    bootTimeRun fresh g (rs.map fun r => .content (renderStat r)) = rs.map fun r => .ok (r.btime : Rat)

theorem bootTimeRun_fresh (g : Option Rat) (ss : List FileState) : bootTimeRun true g ss = ss.map bootTime := by
  induction ss generalizing g with
  | nil => rfl
  | cons s ss ih =>
    simp only [bootTimeRun, List.map_cons, ih]
    congr 1
    unfold bootTimeCall
    cases bootTime s <;> rfl

/-- **boot_time() is not cached**: over any history of calls — whatever the module global `BOOT_TIME`
    holds, e.g. after the clock was stepped and the kernel's `btime` moved — every call reports the
    `btime` line of the /proc/stat of ITS moment. -/
theorem C19_boot_time_not_cached : C19_boot_time_history_Full bootReturnsFresh := by
  intro g rs
  rw [cfg_boot_fresh, bootTimeRun_fresh, List.map_map]
  apply List.map_congr_left
  intro r _
  exact bootTime_render r

def exStat1010 : StatRec :=
  { cpuTotal := [], cpus := [], intr := 0, intrRest := [], ctxt := 0, btime := 1010
    processes := 0, softirq := 0, softirqRest := [] }

/-- …which a function that served the remembered value (`return BOOT_TIME`) would violate: global
    1000, the file says 1010 → 1000 -/
theorem C19_boot_time_cached_counterexample : ¬ C19_boot_time_history_Full false := by
  intro h
  have := h (some 1000) [exStat1010]
  simp [bootTimeRun, bootTimeCall, bootTime_render, exStat1010] at this

/-- the module global keeps the FIRST value read (Process.create_time() identifies processes by it) -/
theorem C19_boot_time_global_kept (x : Rat) (ss : List FileState) : bootTimeGlobal (some x) ss = some x := by
  induction ss with
  | nil => rfl
  | cons s ss ih =>
    unfold bootTimeGlobal bootTimeCall
    cases bootTime s <;> simpa using ih

/-! ### histories around the module global BOOT_TIME (seeded round 5; Model/C19Boot.lean, Spec/C19Boot.lean)

  One interpreter, BOOT_TIME unset at the start; at every moment the kernel's /proc/stat is what it is THEN
  (the clock may have been stepped by any amount, one second included) and one of `psutil.boot_time()`,
  `Process.create_time()` (reads the global, sets it through boot_time() when unset), `psutil.cpu_stats()` is called. -/

/-- obligation: BOOT_TIME is named only where the history model says (tested and written once in `boot_time()`, read
    twice in `Process.create_time()`), the front end `psutil.boot_time()` is a plain delegation, `create_time()` is
    `ctime / CLOCK_TICKS + (BOOT_TIME if BOOT_TIME is not None else boot_time())` -/
theorem cfg_boot_hist : bootHistAsModelled = true := by decide

/-- the statement, for a return rule of `boot_time()`: from a fresh interpreter, over EVERY history of calls and EVERY
    sequence of kernel records, each `boot_time()` hands back the `btime` of its own moment and each `cpu_stats()`
    the counters of its own moment — whatever was called before (`create_time()` included) and whatever `btime`
    was before (the same, one second off, two, anything) -/
def C19_boot_history_Full (rule : BootRule) : Prop :=
  ∀ (ticks : Nat) (ks : List KStep), HistoryMirrors (histRun rule ticks none (ks.map KStep.toH)) ks

theorem bootRule_fresh : bootRule = ruleFresh := by
  unfold bootRule
  rw [cfg_boot_fresh]
  rfl

/-- **boot_time() mirrors the kernel's btime at the time of the call** — over every history of boot_time() /
    Process.create_time() / cpu_stats() calls and every movement of `btime` in between, for the code as it is -/
theorem C19_boot_time_mirrors_every_history : C19_boot_history_Full bootRule := by
  intro ticks ks
  rw [bootRule_fresh]
  exact histRun_mirrors_of_rule ruleFresh (fun _ _ => rfl) ticks none ks

/-- …also when the history starts with the global already holding some earlier `btime` -/
theorem C19_boot_time_mirrors_from_any_global (ticks : Nat) (g : Option Nat) (ks : List KStep) :
    HistoryMirrors (histRun bootRule ticks (natG g) (ks.map KStep.toH)) ks := by
  rw [bootRule_fresh]
  exact histRun_mirrors_of_rule ruleFresh (fun _ _ => rfl) ticks g ks

/-- WHICH return rules keep the promise: exactly those that hand back the value just read for every pair
    (remembered boot time or none, value read) — a rule that deviates on ONE pair `(a, v)` is refuted by the
    two-call history `btime = a`, then `btime = v` (this is the dimension the generator family `boot_hist` spans:
    pairs of remembered and fresh values, the close ones included) -/
theorem C19_boot_time_rule_iff (rule : BootRule) :
    C19_boot_history_Full rule ↔ ∀ (g : Option Nat) (v : Nat), rule (natG g) (v : Rat) = (v : Rat) := by
  constructor
  · intro h g v
    exact rule_of_histRun_mirrors rule (h 100) g v
  · intro h ticks ks
    exact histRun_mirrors_of_rule rule h ticks none ks

/-- a "fluctuation tolerance" (serve the remembered value while the fresh one is within `tol` seconds of it) keeps the
    promise iff it is shorter than the kernel's resolution of one second, i.e. iff it never applies -/
theorem C19_boot_time_tolerance_iff (tol : Rat) : C19_boot_history_Full (ruleWithin tol) ↔ tol < 1 := by
  rw [C19_boot_time_rule_iff]
  constructor
  · intro h
    by_contra hn
    have h1 := h (some 0) 1
    rw [show ((1 : Nat) : Rat) = ((0 + 1 : Nat) : Rat) from rfl, ruleWithin_ge_one tol (not_lt.mp hn) 0] at h1
    norm_num at h1
  · intro ht g v
    exact ruleWithin_lt_one tol ht g v

/-- the one-second rule (what Windows does) is refuted -/
theorem C19_boot_time_one_second_counterexample : ¬ C19_boot_history_Full (ruleWithin 1) := by
  rw [C19_boot_time_tolerance_iff]
  norm_num

/-- …concretely, with `Process.create_time()` as the call that makes psutil remember the boot time: btime 1000,
    create_time(); the clock is stepped by one second; boot_time() says 1000, the kernel 1001 -/
theorem C19_create_time_then_one_second_counterexample :
    ¬ HistoryMirrors
        (histRun (ruleWithin 1) 100 none ([⟨recOf 1000, .createTime 5⟩, ⟨recOf 1001, .bootTime⟩].map KStep.toH))
        [⟨recOf 1000, .createTime 5⟩, ⟨recOf 1001, .bootTime⟩] := by
  intro h
  have hb := h.2.1
  have hg := histStep_global (ruleWithin 1) 100 none ⟨recOf 1000, .createTime 5⟩
  simp only [natG] at hg
  rw [answers_boot _ _ rfl, hg, histStep_out_boot (ruleWithin 1) 100 _ ⟨recOf 1001, .bootTime⟩ rfl] at hb
  simp only [stepG, recOf, natG, ruleWithin] at hb
  norm_num at hb

/-- the pure cache (`return BOOT_TIME`) is refuted as well -/
theorem C19_boot_time_cached_rule_counterexample : ¬ C19_boot_history_Full ruleCached := by
  rw [C19_boot_time_rule_iff]
  intro h
  have h1 := h (some 0) 1
  simp [ruleCached, natG] at h1

/-- **create_time() does not follow clock updates**: over every history (any files, readable or not), ONE boot time
    explains every successful create_time(): `start / CLOCK_TICKS + x` with the same `x` -/
theorem C19_create_time_stable (ticks : Nat) (ss : List HStep) :
    StableCreate ticks (histRun bootRule ticks none ss) ss := by
  rw [bootRule_fresh]
  exact stable_from_none ticks ss

/-- the keys the kernel-side renderer of /proc/stat prints with and the parser looks for, spelled out
    (`cfg_names` ties the SOURCE's strings to the same constants) -/
theorem C19_stat_keys_literal :
    kCtxt = "ctxt".toList.map (·.toNat) ∧ kIntr = "intr".toList.map (·.toNat) ∧
    kSoftirq = "softirq".toList.map (·.toNat) ∧ kBtime = "btime".toList.map (·.toNat) ∧
    kCpu = "cpu".toList.map (·.toNat) ∧ kProcessor = "processor".toList.map (·.toNat) := by decide

/-! ## round 2: the directories at file-name level -/

/-- **Every trip point is considered, whatever its index.** If the zone directory lists ANY file
    `trip_point_<n>_<…>` (n printed by the kernel with `%d`: any number of digits), then
    `trip_point_<n>` is an element of the set the walker iterates over, and the two files it reads
    for that element are `trip_point_<n>_type` and `trip_point_<n>_temp`. -/
theorem C19_zone_all_trip_points (d : Dir) (n : Nat) (s : Bytes)
    (h : tripPointName n ++ 95 :: s ∈ d.names) :
    tripPointName n ∈ tripNames d ∧
    tripOfName d (tripPointName n)
      = { typ := d.file (tripFile n bSufType), temp := d.file (tripFile n bSufTemp), hyst := true } := by
  refine ⟨?_, rfl⟩
  unfold tripNames tripFiles
  rw [List.mem_map]
  exact ⟨_, List.mem_filter.mpr ⟨h, tripFile_prefix n (95 :: s)⟩, tripName_tripFile n s⟩

/-- …and nothing else is: on a directory whose `trip_point*` files carry the kernel's names, the
    set is exactly `{trip_point_<n> | n an index present}` — any iteration order of it is a
    permutation of the kernel's trip points. -/
theorem C19_zone_trip_set (d : Dir) (hk : KernelNamed d) (order : List Bytes)
    (ho : isSetOrder order (tripNames d) = true) :
    order.Perm ((tripIdxs d).map tripPointName) ∧ (zoneOfDir d order).trips.Perm (kernelZone d).trips :=
  ⟨setOrder_perm d hk order ho, zoneOfDir_trips_perm d hk order ho⟩

/-- SPEC-ONLY (documents the specification's own definitions; no model / `cfg` term: does not by itself constrain psutil). the kernel's three file names of trip point `n` are recognised as belonging to `n`, and only they -/
theorem C19_trip_index (n : Nat) :
    (∀ suf ∈ kernelSuffixes, tripIndex? (tripFile n suf) = some n) ∧
    (∀ name, tripIndex? name = some n → ∃ suf ∈ kernelSuffixes, name = tripFile n suf) :=
  ⟨tripIndex_tripFile n, fun name h => tripIndex_sound name n h⟩

/-- **Zone row from the directory listing**: for every directory with kernel-named trip-point
    files and EVERY iteration order of the set of derived names, the walker's row for the zone is
    the row of the kernel's description (current = temp/1000, unit = type, high/critical = THE
    `high`/`critical` trip point's temperature / 1000 — trip points with index ≥ 10 included). -/
theorem C19_zone_dir_refines (d : Dir) (hk : KernelNamed d) (order : List Bytes)
    (ho : isSetOrder order (tripNames d) = true) :
    match zoneRow (kernelZone d) with
    | none => readZone cfg (zoneOfDir d order) = .ok none
    | some w => ∃ r, readZone cfg (zoneOfDir d order) = .ok (some r) ∧ AgreesRaw r w :=
  readZone_agrees_perm cfg cfg_good (kernelZone d) (zoneOfDir d order) rfl rfl (zoneOfDir_trips_perm d hk order ho)

/-- **end to end**: the critical trip point has index `n` (ANY n) and kernel-format files →
    critical = its temperature / 1000 -/
theorem C19_zone_dir_critical (d : Dir) (hk : KernelNamed d) (order : List Bytes)
    (ho : isSetOrder order (tripNames d) = true) (n : Nat) (cur t : Int) (nm : Bytes)
    (hT : d.file bNameTemp = .content (kernelInt cur)) (hN : d.file bNameType = .content nm)
    (hidx : (tripIdxs d).filter (fun m => fileText (d.file (tripFile m bSufType)) == bCritical) = [n])
    (htemp : d.file (tripFile n bSufTemp) = .content (kernelInt t)) :
    ∃ r, readZone cfg (zoneOfDir d order) = .ok (some r) ∧ r.current = (cur : Rat) / 1000 ∧
      r.crit = some ((t : Rat) / 1000) ∧ r.unit = stripWs nm := by
  have h := C19_zone_dir_refines d hk order ho
  have hz : zoneRow (kernelZone d) = some
      { unit := stripWs nm, label := [], current := perMille (cur : Rat)
        high := zoneThresh bHigh (kernelZone d).trips, crit := some (some (perMille (t : Rat))) } := by
    unfold zoneRow
    have e1 : (kernelZone d).temp = .content (kernelInt cur) := hT
    have e2 : (kernelZone d).typ = .content nm := hN
    have e3 : zoneThresh bCritical (kernelZone d).trips = some (some (perMille (t : Rat))) := by
      unfold zoneThresh
      show (match tripsOfType bCritical ((tripIdxs d).map (dirTrip d)) with
        | [] => some none | [t] => some ((fileNum t.temp).map perMille) | _ => none) = _
      rw [tripsOfType_dirTrip, hidx]
      simp [dirTrip, htemp, fileNum, FileState.readOpt, pyFloat_renderInt_strip]
    rw [e1, e2, e3]
    simp [fileNum, FileState.readOpt, pyFloat_renderInt_strip]
  rw [hz] at h
  obtain ⟨r, hr, ha⟩ := h
  refine ⟨r, hr, ?_, ?_, ?_⟩
  · rw [ha.current]; rfl
  · exact ha.crit _ rfl
  · exact ha.unit

/-- hwmon: **every sensor / fan index is considered**: a listed file `temp<n>_<…>` (`fan<n>_<…>`)
    puts the base `temp<n>` into the set of bases, and the files read for it are `temp<n>_input`,
    `_label`, `_max`, `_crit` -/
theorem C19_hwmon_all_sensor_indices (pre : Bytes) (hpre : 95 ∉ pre) (d : Dir) (n : Nat) (s : Bytes)
    (h : attrBase pre n ++ 95 :: s ∈ d.names) :
    attrBase pre n ∈ sensorBases pre d ∧
    (sensorOfBase d (attrBase pre n)).input = d.file (attrBase pre n ++ bSufInput) ∧
    (∀ m, attrBase pre n = attrBase pre m → n = m) :=
  ⟨mem_sensorBases pre hpre d n s h, rfl, fun m e => renderDec_inj n m (List.append_cancel_left e)⟩

/-- non-vacuity: a zone directory whose only trip point has index 12 (critical, 105000) -/
def exZoneDir : Dir :=
  [ (bNameTemp, some (kernelInt 30000)), (bNameType, some [120, 10]),
    (tripFile 12 bSufType, some [99, 114, 105, 116, 105, 99, 97, 108, 10]),
    (tripFile 12 bSufTemp, some (kernelInt 105000)) ]

example : KernelNamed exZoneDir ∧ tripIdxs exZoneDir = [12] ∧
    isSetOrder [tripPointName 12] (tripNames exZoneDir) = true := by
  have hf : tripFiles exZoneDir = [tripFile 12 bSufType, tripFile 12 bSufTemp] := by
    have h1 : bTripPoint.isPrefixOf bNameTemp = false := by decide
    have h2 : bTripPoint.isPrefixOf bNameType = false := by decide
    simp [tripFiles, Dir.names, exZoneDir, List.filter, h1, h2, tripFile_prefix]
  have hs1 : bSufType ∈ kernelSuffixes := by decide
  have hs2 : bSufTemp ∈ kernelSuffixes := by decide
  refine ⟨?_, ?_, ?_⟩
  · intro name hn
    rw [hf] at hn
    simp only [List.mem_cons, List.not_mem_nil, or_false] at hn
    rcases hn with rfl | rfl
    · rw [tripIndex_tripFile 12 _ hs1]; rfl
    · rw [tripIndex_tripFile 12 _ hs2]; rfl
  · unfold tripIdxs
    rw [hf]
    simp [List.filterMap, tripIndex_tripFile 12 _ hs1, tripIndex_tripFile 12 _ hs2]
    decide
  · unfold tripNames
    rw [hf]
    simp [isSetOrder, tripName_kernel 12 _ hs1, tripName_kernel 12 _ hs2]

/-! ## round 2: battery selection, blanks, negative figures -/

/-- **Which power supplies count as a battery**: the name starts with `BAT` (case-sensitive) or
    contains `battery` in any case. Nothing else is looked at (not the `type`, not the `scope` file):
    a HID device battery (`hidpp_battery_0`) qualifies, `CMB0` or `bat0` do not. -/
theorem C19_battery_name_rule (n : Bytes) :
    isBattery cfg n = (bBAT.isPrefixOf n || isInfix bBattery (lower n)) := isBattery_eq cfg cfg_good n

/-- SPEC-ONLY (documents the specification's own definitions; no model / `cfg` term: does not by itself constrain psutil). -/
theorem C19_battery_name_examples :
    isBatteryName [66, 65, 84, 49] = true ∧                                                    -- BAT1
    isBatteryName [104, 105, 100, 112, 112, 95, 98, 97, 116, 116, 101, 114, 121, 95, 48] = true ∧  -- hidpp_battery_0
    isBatteryName [67, 77, 66, 48, 45, 98, 97, 116, 116, 101, 114, 121] = true ∧                -- CMB0-battery
    isBatteryName [109, 97, 105, 110, 45, 66, 97, 116, 116, 101, 114, 121] = true ∧             -- main-Battery
    isBatteryName [67, 77, 66, 48] = false ∧                                                   -- CMB0
    isBatteryName [98, 97, 116, 48] = false ∧                                                  -- bat0
    isBatteryName [65, 67, 48] = false ∧                                                       -- AC0
    lexLe [66, 65, 84, 49] [104, 105, 100, 112, 112, 95, 98, 97, 116, 116, 101, 114, 121, 95, 48] = true ∧
    lexLe [66, 65, 84, 48] [66, 65, 84, 49] = true ∧
    lexLe [67, 77, 66, 48, 45, 98, 97, 116, 116, 101, 114, 121] [98, 97, 116, 116, 101, 114, 121] = true := by decide

/-- **The battery the code reads = the lexicographic minimum among the names matching the rule**:
    `min(bats)` is a member of the matching names, below every one of them (byte order), and the
    directory opened for it is the specification's first battery. -/
theorem C19_battery_selection (ss : List Supply) (n : Bytes) (ns : List Bytes)
    (h : (ss.map (·.name)).filter (isBattery cfg) = n :: ns) :
    lexMin n ns ∈ n :: ns ∧ (∀ y ∈ n :: ns, lexLe (lexMin n ns) y = true) ∧
    findSupply ss (lexMin n ns) = firstBattery ss :=
  ⟨lexMin_mem n ns, lexMin_le n ns, first_battery cfg cfg_good ss n ns h⟩

/-- SPEC-ONLY (documents the specification's own definitions; no model / `cfg` term: does not by itself constrain psutil). a matching name exists ⇒ a first battery exists (never None for want of a minimum), and the
    minimum is unique up to the name -/
theorem C19_first_battery_exists_unique (ss : List Supply) (h : ∃ s ∈ ss, isBatteryName s.name = true) :
    ∃ b, firstBattery ss = some b ∧
      ∀ b' ∈ ss, isBatteryName b'.name = true →
        (∀ x ∈ ss, isBatteryName x.name = true → lexLe b'.name x.name = true) → b'.name = b.name := by
  obtain ⟨b, hb⟩ := firstBattery_exists ss h
  refine ⟨b, hb, fun b' hb' hn hmin => ?_⟩
  obtain ⟨h1, h2, h3⟩ := C19_first_battery ss b hb
  exact lexLe_antisymm _ _ (hmin b h1 h2) (h3 b' hb' hn)

/-- **Blanks and newlines around a number or a text are not seen**: `int()`, `float()` and
    `.strip()` give the same for `"  42 \n\n"` as for `"42"` (files of fans, batteries, sensors). -/
theorem C19_whitespace_insensitive (pre s post : Bytes) (h1 : AllWs pre) (h2 : AllWs post) :
    pyInt? (pre ++ s ++ post) = pyInt? s ∧ pyFloat? (pre ++ s ++ post) = pyFloat? s ∧
    stripWs (pre ++ s ++ post) = stripWs s :=
  ⟨pyInt_pad pre s post h1 h2, pyFloat_pad pre s post h1 h2, stripWs_pad pre s post h1 h2⟩

/-- a kernel integer with any blanks around it reads back exactly, negative ones included -/
theorem C19_kernel_value_padded (pre post : Bytes) (h1 : AllWs pre) (h2 : AllWs post) (i : Int) :
    pyInt? (pre ++ renderInt i ++ post) = some i ∧ pyFloat? (pre ++ renderInt i ++ post) = some (i : Rat) := by
  have hnl : AllWs [10] := by intro c hc; simp at hc; subst hc; decide
  have e1 : pyInt? (renderInt i) = some i := by
    have := pyInt_pad [] (renderInt i) [10] (by intro c hc; cases hc) hnl
    rw [← this]; exact pyInt_kernelInt i
  have e2 : pyFloat? (renderInt i) = some (i : Rat) := by
    have := pyFloat_pad [] (renderInt i) [10] (by intro c hc; cases hc) hnl
    rw [← this]; exact pyFloat_renderInt_strip i
  exact ⟨by rw [pyInt_pad pre _ post h1 h2, e1], by rw [pyFloat_pad pre _ post h1 h2, e2]⟩

/-- every battery figure (`multi_bcat` over the alternatives), and the views the specification
    takes of a file, are unchanged when the files are padded with blanks/newlines -/
theorem C19_battery_reads_whitespace (pre post : Bytes) (h1 : AllWs pre) (h2 : AllWs post) :
    (∀ fs, multiBcat (fs.map (pad pre post)) = multiBcat fs) ∧
    (∀ f, fileInt (pad pre post f) = fileInt f) ∧ (∀ f, fileNum (pad pre post f) = fileNum f) ∧
    (∀ f, fileText (pad pre post f) = fileText f) :=
  ⟨multiBcat_pad pre post h1 h2, fileInt_pad pre post h1 h2, fileNum_pad pre post h1 h2, fileText_pad pre post h1 h2⟩

/-- a fan row is unchanged when reading, label and chip name are padded -/
theorem C19_fans_whitespace (pre post : Bytes) (h1 : AllWs pre) (h2 : AllWs post) (c : Chip) (f : Fan) :
    readFan cfg { c with name := pad pre post c.name }
      { f with input := pad pre post f.input, label := pad pre post f.label } = readFan cfg c f := by
  have e1 : ∀ b, pyInt? (pre ++ (b ++ post)) = pyInt? b := fun b => by
    rw [← List.append_assoc]; exact pyInt_pad pre b post h1 h2
  have e2 : ∀ b, stripWs (pre ++ (b ++ post)) = stripWs b := fun b => by
    rw [← List.append_assoc]; exact stripWs_pad pre b post h1 h2
  unfold readFan
  cases hi : f.input <;> cases hn : c.name <;> cases hl : f.label <;>
    simp [pad, FileState.read, FileState.readOpt, e1, e2]

/-- SPEC-ONLY (documents the specification's own definitions; no model / `cfg` term: does not by itself constrain psutil). **Negative figures** (the power_supply ABI prints a discharging `current_now` as a NEGATIVE
    number on some drivers): the formula is applied as it stands, so with now ≥ 0 and power < 0 the
    seconds left are ≤ 0; with power > 0 they are ≥ 0 and can never be mistaken for the two
    sentinels. CHARACTERISATION, deliberately not a finding: the statement DEFINES seconds left as
    `now/power*3600` (no `abs`), and that is what the code computes; see notes/C19.md (integrator decision b). -/
theorem C19_secsleft_sign (n p : Int) (tte : Option Int) (hn : 0 ≤ n) (pl : Option Bool) (hpl : pl ≠ some true) :
    (p < 0 → secsleftOf pl (some n) (some p) tte ≤ 0) ∧ (0 < p → 0 ≤ secsleftOf pl (some n) (some p) tte) := by
  constructor
  · intro hp
    have hp0 : p ≠ 0 := by omega
    simp only [secsleftOf, hpl, if_false, hp0]
    apply truncRat_nonpos
    have : (n : Rat) / (p : Rat) ≤ 0 := div_nonpos_of_nonneg_of_nonpos (by exact_mod_cast hn) (by exact_mod_cast hp.le)
    exact mul_nonpos_of_nonpos_of_nonneg this (by norm_num)
  · intro hp
    have hp0 : p ≠ 0 := by omega
    simp only [secsleftOf, hpl, if_false, hp0]
    apply truncRat_nonneg
    have : 0 ≤ (n : Rat) / (p : Rat) := div_nonneg (by exact_mod_cast hn) (by exact_mod_cast hp.le)
    exact mul_nonneg this (by norm_num)

/-- SPEC-ONLY (documents the specification's own definitions; no model / `cfg` term: does not by itself constrain psutil). …and a negative power figure CAN produce exactly the sentinel values: 1 µWh at −3600 µW gives
    −1 (= POWER_TIME_UNKNOWN), 2 µWh gives −2 (= POWER_TIME_UNLIMITED) -/
theorem C19_secsleft_negative_collides :
    secsleftOf (some false) (some 1) (some (-3600)) none = -1 ∧
    secsleftOf (some false) (some 2) (some (-3600)) none = -2 := by
  have t (k : Int) (hk : 0 < k) : truncRat (-(k : Rat)) = -k := by
    unfold truncRat
    have : ¬ (0 : Rat) ≤ -(k : Rat) := by
      have : (0 : Rat) < (k : Rat) := by exact_mod_cast hk
      linarith
    simp only [this, if_false, neg_neg, Rat.floor_intCast]
  constructor
  · have e : ((1 : Int) : Rat) / ((-3600 : Int) : Rat) * 3600 = -((1 : Int) : Rat) := by norm_num
    simp only [secsleftOf]
    rw [if_neg (by decide), if_neg (by decide), e, t 1 (by decide)]
  · have e : ((2 : Int) : Rat) / ((-3600 : Int) : Rat) * 3600 = -((2 : Int) : Rat) := by norm_num
    simp only [secsleftOf]
    rw [if_neg (by decide), if_neg (by decide), e, t 2 (by decide)]

end Psutil.C19
