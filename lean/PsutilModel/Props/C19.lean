/-
  Props/C19.lean — property theorems for C19 (sensors, battery, CPU frequency/count, boot time).
  Only statements the property makes; helper lemmas live in Proofs/C19*.lean.

  `cfg` is built from Generated/C19.lean, which the translator rewrites from /repo's source on
  every run; `cfg_good` is the proof obligation that breaks when the source narrows an `except`
  clause of the walkers, moves the `/1000` conversions (back) into the trip-point loop, tests
  thresholds by truthiness, or changes a constant / file name / enum value.
-/
import PsutilModel.Proofs.C19
import PsutilModel.Proofs.C19Battery
import PsutilModel.Proofs.C19Cpu
import PsutilModel.Model.C19Gen
namespace Psutil.C19
open Spec

theorem cfg_good : cfg.Good := by constructor <;> decide

/-- the file names / keys the model hard-codes are the ones the source uses -/
theorem cfg_names : namesAsModelled = true := by decide

/-! ## temperatures -/

/-- **Refinement.** For EVERY tree (any number of chips and sensors, either nesting, any subset
    of the files absent or unreadable, any bytes in them, any zones with any trip points in any
    order) the platform function returns normally, and its rows are, one for one, the rows of the
    declarative view: hwmon sensors whose reading and chip name are readable numbers/text —
    all others left out —, thermal zones only when hwmon lists no temperature file at all. -/
theorem C19_temperatures_refine (t : TempTree) :
    ∃ rows, sensorsTemperatures cfg t = .ok rows ∧ List.Forall₂ AgreesRaw rows (temperatures t) := by
  have hg := cfg_good
  unfold sensorsTemperatures temperatures
  simp only [tempBases_eq, hwmon_collect' cfg hg, List.contains_eq_mem, hg.tempOs, decide_true,
    not_true_eq_false, and_false, if_false]
  by_cases hfb : (hwmonSensors t.chips).isEmpty = true ∧ t.coretempFiles = 0
  · simp only [hfb, and_self, if_true]
    exact collect_zones cfg hg t.zones
  · simp only [hfb, if_false]
    exact ⟨_, rfl, forall2_filterMap_toRaw _⟩

/-- **A sensor whose reading is missing, unreadable or not a number (or whose chip has no readable
    name) is skipped and never fails the call** — for every tree; exactly those are left out. -/
theorem C19_missing_reading_skipped_never_fails (t : TempTree)
    (h : (hwmonSensors t.chips).isEmpty = false ∨ t.coretempFiles ≠ 0) :
    sensorsTemperatures cfg t
      = .ok ((hwmonSensors t.chips).filterMap fun cs => (hwmonRow cs.1 cs.2).map Row.toRaw) := by
  have hg := cfg_good
  unfold sensorsTemperatures
  simp only [tempBases_eq, hwmon_collect' cfg hg, List.contains_eq_mem, hg.tempOs, decide_true,
    not_true_eq_false, and_false, if_false]
  have : ¬ ((hwmonSensors t.chips).isEmpty = true ∧ t.coretempFiles = 0) := by
    rintro ⟨h1, h2⟩
    cases h with
    | inl h => rw [h1] at h; cases h
    | inr h => exact h h2
  simp only [this, if_false]

/-- which sensors are reported: reading readable AND numeric AND chip name readable -/
theorem C19_reported_iff (c : Chip) (s : Sensor) :
    (hwmonRow c s).isSome ↔ (∃ b v nm, s.input = .content b ∧ pyFloat? b = some v ∧ c.name = .content nm) := by
  unfold hwmonRow fileNum
  cases hi : s.input <;> cases hn : c.name <;> simp [FileState.readOpt]
  rename_i b nm
  cases hf : pyFloat? b <;> simp

/-- **Scaling.** Kernel millidegrees `%d\n` become degrees: current = n/1000, high = max/1000,
    critical = crit/1000; label and unit name are the stripped texts. -/
theorem C19_temp_scaling (c : Chip) (s : Sensor) (n mx cr : Int) (nm lb : Bytes)
    (hi : s.input = .content (kernelInt n)) (hm : s.max = .content (kernelInt mx))
    (hc : s.crit = .content (kernelInt cr)) (hn : c.name = .content nm) (hl : s.label = .content lb) :
    readTemp cfg c s = .ok (some { unit := stripWs nm, label := stripWs lb, current := (n : Rat) / 1000
                                   high := some ((mx : Rat) / 1000), crit := some ((cr : Rat) / 1000) }) := by
  rw [readTemp_eq cfg cfg_good]
  simp [hwmonRow, fileNum, fileText, FileState.readOpt, hi, hm, hc, hn, hl, pyFloat_renderInt_strip,
    Row.toRaw, perMille]

/-- a threshold file that is absent, unreadable or not a number gives `None`, not a failure -/
theorem C19_threshold_nonnumeric_none (c : Chip) (s : Sensor) (r : TempRaw)
    (h : readTemp cfg c s = .ok (some r)) (hm : fileNum s.max = none) : r.high = none := by
  rw [readTemp_eq cfg cfg_good] at h
  unfold hwmonRow at h
  split at h
  · simp only [Option.map_some, Except.ok.injEq, Option.some.injEq] at h
    subst h
    simp [Row.toRaw, hm]
  · simp at h

/-- **Fallback only when hwmon has nothing.** As soon as one `temp*_*` file is listed under
    /sys/class/hwmon (in either nesting), the thermal zones play no role at all. -/
theorem C19_zones_ignored_when_hwmon_lists (t : TempTree) (zs : List Zone)
    (h : (hwmonSensors t.chips).isEmpty = false) :
    sensorsTemperatures cfg { t with zones := zs } = sensorsTemperatures cfg t := by
  rw [C19_missing_reading_skipped_never_fails t (Or.inl h)]
  exact C19_missing_reading_skipped_never_fails { t with zones := zs } (Or.inl h)

/-- …and with no listed hwmon temperature file the rows are those of the zones. -/
theorem C19_fallback_to_zones (t : TempTree) (h : (hwmonSensors t.chips).isEmpty = true)
    (hc : t.coretempFiles = 0) :
    ∃ rows, sensorsTemperatures cfg t = .ok rows ∧ List.Forall₂ AgreesRaw rows (t.zones.filterMap zoneRow) := by
  have := C19_temperatures_refine t
  unfold temperatures at this
  simpa only [h, hc, and_self, if_true] using this

/-- **Zone thresholds, every iteration order.** `trips'` is ANY permutation of the trip points
    (Python iterates a `set`, whose order depends on the hash seed): when the zone has at most one
    `high` / `critical` trip point, high/critical is that trip point's temperature / 1000 (None
    when there is none or its file is unreadable / not a number). -/
theorem C19_zone_thresholds (trips trips' : List Trip) (hp : trips'.Perm trips) :
    (∀ v, zoneThresh bHigh trips = some v → (zoneThr cfg (trips'.filter (·.listed))).1 = v) ∧
    (∀ v, zoneThresh bCritical trips = some v → (zoneThr cfg (trips'.filter (·.listed))).2 = v) := by
  have hg := cfg_good
  have hp' : (trips'.filter (·.listed)).Perm (trips.filter (·.listed)) := hp.filter _
  refine ⟨fun v hv => ?_, fun v hv => ?_⟩
  · simp only [zoneThr, hg.conv, Bool.false_eq_true, if_false]
    exact zoneThrOutside_high cfg hg trips _ hp' v hv
  · simp only [zoneThr, hg.conv, Bool.false_eq_true, if_false]
    exact zoneThrOutside_crit cfg hg trips _ hp' v hv

/-- the specification itself does not depend on the order either -/
theorem C19_zone_spec_order_free (kind : Bytes) (trips trips' : List Trip) (hp : trips'.Perm trips)
    (v : Option Rat) (h : zoneThresh kind trips = some v) : zoneThresh kind trips' = some v := by
  unfold zoneThresh at h ⊢
  have hp' : (tripsOfType kind trips').Perm (tripsOfType kind trips) := hp.filter _
  cases hl : tripsOfType kind trips with
  | nil => rw [hl] at hp' h; rw [List.Perm.eq_nil hp']; exact h
  | cons t rest =>
    cases rest with
    | nil => rw [hl] at hp' h; rw [List.perm_singleton.mp hp']; exact h
    | cons u us => rw [hl] at h; cases h

/-- the code as found (lead L16): conversions INSIDE the trip-point loop -/
def cfgLoopInside : Cfg := { cfg with zoneConvInsideLoop := true }

def l16Trips : List Trip :=
  [ { typ := .content [99, 114, 105, 116, 105, 99, 97, 108, 10]            -- "critical\n"
      temp := .content [49, 48, 53, 48, 48, 48, 10], hyst := false },     -- "105000\n"
    { typ := .content [112, 97, 115, 115, 105, 118, 101, 10]               -- "passive\n"
      temp := .content [57, 53, 48, 48, 48, 10], hyst := false } ]        -- "95000\n"

/-- Full statement for an arbitrary configuration -/
def ZoneThresholdsOrderFree (c : Cfg) : Prop :=
  ∀ trips trips' : List Trip, trips'.Perm trips →
    ∀ v, zoneThresh bCritical trips = some v → (zoneThr c (trips'.filter (·.listed))).2 = v

theorem pyFloat_105000 : pyFloat? [49, 48, 53, 48, 48, 48, 10] = some 105000 := by
  have h1 : stripWs [49, 48, 53, 48, 48, 48, 10] = [49, 48, 53, 48, 48, 48] := by decide
  have h2 : splitOn 46 [49, 48, 53, 48, 48, 48] = [[49, 48, 53, 48, 48, 48]] := by decide
  have h3 : parseDec? [49, 48, 53, 48, 48, 48] = some 105000 := by decide
  simp [pyFloat?, pyFloatU?, h1, h2, h3]

/-- **Counterexample (L16).** With the conversions inside the loop, a zone whose trip points are
    visited in the order critical(105000), passive reports critical = 0.105 instead of 105: the
    threshold found first is divided by 1000 again for the later trip point. -/
theorem C19_zone_thresholds_counterexample : ¬ ZoneThresholdsOrderFree cfgLoopInside := by
  intro h
  have hspec : zoneThresh bCritical l16Trips = some (some 105) := by
    have e : tripsOfType bCritical l16Trips = [l16Trips[0]] := by decide
    unfold zoneThresh
    rw [e]
    simp [l16Trips, fileNum, FileState.readOpt, pyFloat_105000, perMille]
    norm_num
  have := h l16Trips l16Trips (List.Perm.refl _) _ hspec
  have hl : l16Trips.filter (·.listed) = l16Trips := by decide
  rw [hl] at this
  have t0 : tripType l16Trips[0] = bCritical := by decide
  have t1c : tripType l16Trips[1] ≠ bCritical := by decide
  have t1h : tripType l16Trips[1] ≠ bHigh := by decide
  have hm : cfgLoopInside.milli = 1000 := by decide
  simp only [zoneThr, cfgLoopInside, if_true, zoneThrInside] at this
  simp only [l16Trips, List.foldl_cons, List.foldl_nil] at this
  simp only [l16Trips, List.getElem_cons_zero, List.getElem_cons_succ] at t0 t1c t1h
  simp [tripAssign, t0, t1c, t1h, Thr.ofNum, Thr.ofRead, Thr.conv, FileState.readOpt, pyFloat_105000] at this
  rw [show (cfg.milli : Rat) = 1000 from by have := cfg_good.milli; rw [this]; norm_num] at this
  norm_num at this

/-! ## front end -/

/-- **Front-end refinement**: Fahrenheit conversion and back-fill, for every tree. -/
theorem C19_front_refines (fahrenheit : Bool) (t : TempTree) :
    ∃ rows, sensorsTemperaturesFront cfg fahrenheit t = .ok rows ∧
      List.Forall₂ AgreesOut rows (temperaturesFront fahrenheit t) := by
  obtain ⟨rows, h1, h2⟩ := C19_temperatures_refine t
  refine ⟨rows.map (frontTemp cfg fahrenheit), ?_, forall2_front cfg cfg_good fahrenheit rows _ h2⟩
  simp [sensorsTemperaturesFront, h1]

/-- **Fahrenheit = C·9/5 + 32** on all three numbers. -/
theorem C19_fahrenheit (r : TempRaw) (h c : Rat) (hh : r.high = some h) (hc : r.crit = some c) :
    frontTemp cfg true r = { unit := r.unit, label := r.label, current := r.current * 9 / 5 + 32
                             high := some (h * 9 / 5 + 32), crit := some (c * 9 / 5 + 32) } := by
  have hg := cfg_good
  simp [frontTemp, present_eq cfg hg, hh, hc, convertF_eq cfg hg, toFahrenheit]

/-- Celsius is passed through unchanged -/
theorem C19_celsius (r : TempRaw) (h c : Rat) (hh : r.high = some h) (hc : r.crit = some c) :
    frontTemp cfg false r = { unit := r.unit, label := r.label, current := r.current
                              high := some h, crit := some c } := by
  have hg := cfg_good
  simp [frontTemp, present_eq cfg hg, hh, hc, convertF_eq cfg hg]

/-- **Back-fill**: a MISSING high is filled from critical and vice versa; present values are kept
    (also a threshold of exactly 0), two missing stay missing. -/
theorem C19_backfill (f : Bool) (r : TempRaw) :
    let o := frontTemp cfg f r
    let cv := fun q => convertF cfg f q
    (∀ h, r.high = some h → o.high = some (cv h)) ∧
    (∀ c, r.crit = some c → o.crit = some (cv c)) ∧
    (∀ c, r.high = none → r.crit = some c → o.high = some (cv c)) ∧
    (∀ h, r.crit = none → r.high = some h → o.crit = some (cv h)) ∧
    (r.high = none → r.crit = none → o.high = none ∧ o.crit = none) := by
  have hg := cfg_good
  cases hh : r.high <;> cases hc : r.crit <;> simp [frontTemp, present_eq cfg hg, hh, hc]

/-- the front end as found: thresholds tested by truthiness -/
def cfgTruthiness : Cfg := { cfg with backfillTruthiness := true }

def BackfillKeepsPresent (c : Cfg) : Prop :=
  ∀ (f : Bool) (r : TempRaw) (h : Rat), r.high = some h → (frontTemp c f r).high = some (convertF c f h)

/-- **Counterexample.** With `if critical and not high`, a high threshold of exactly 0 °C is
    overwritten by the critical one (max = 0, crit = 84000 → high = 84.0). -/
theorem C19_backfill_counterexample : ¬ BackfillKeepsPresent cfgTruthiness := by
  intro h
  have := h false { unit := [], label := [], current := 35, high := some 0, crit := some 84 } 0 rfl
  simp [frontTemp, present, cfgTruthiness, convertF] at this

/-- no sensors at all → `{}` -/
theorem C19_none_when_absent_temps (t : TempTree) (h1 : (hwmonSensors t.chips).isEmpty = true)
    (h2 : t.coretempFiles = 0) (h3 : t.zones = []) : sensorsTemperatures cfg t = .ok [] := by
  obtain ⟨rows, hr, hf⟩ := C19_fallback_to_zones t h1 h2
  rw [h3] at hf
  cases hf
  exact hr

/-- non-vacuity: a tree with one chip, one readable sensor and a junk sensor; a zone set that meets
    the hypothesis of `C19_zone_thresholds` -/
example : ∃ c s, (hwmonRow c s).isSome ∧ ∃ s', s'.listed = true ∧ hwmonRow c s' = none :=
  ⟨{ nested := false, name := .content [110, 10], temps := [], fans := [] },
   { input := .content (kernelInt 45000), label := .absent, max := .absent, crit := .absent, other := false },
   by rw [C19_reported_iff]; exact ⟨_, _, _, rfl, pyFloat_renderInt_strip 45000, rfl⟩,
   { input := .unreadable, label := .absent, max := .absent, crit := .absent, other := false },
   by decide, by decide⟩

example : ∃ v, zoneThresh bCritical l16Trips = some v := ⟨_, by
  have e : tripsOfType bCritical l16Trips = [l16Trips[0]] := by decide
  unfold zoneThresh; rw [e]⟩

end Psutil.C19
