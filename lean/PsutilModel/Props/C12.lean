import PsutilModel.Model.C12Gen
import PsutilModel.Spec.C12
namespace Psutil.C12

theorem placeholder : cfg.nameMinLen = 15 := by decide

end Psutil.C12
