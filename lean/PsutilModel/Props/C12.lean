/-
  Props/C12.lean — property theorems for C12 (cmdline / environ / exe / cwd / extended name()).
  Only statements the property makes; helper lemmas live in Proofs/C12*.lean.

  `cfg` is built from Generated/C12.lean, which the translator rewrites from /repo's source on
  every run. Proof obligations fed by it (each breaks when the source changes what it pins):
    * `cfg_good` — the 6 separator literals of cmdline() and its "exactly one trailing separator is removed"
      shape, the 2 literals of parse_environ_block, readlink's NUL / ` (deleted)` / cut length, the 15 of
      `name()`, the kind of string `name()` tests (bytes vs code points), the newline mode of `open_text`, and
      the four exception tables read from the `except` clauses of name()/exe() (`cfg_except_clauses`);
    * `cfg_exists_strict` — the `except` clauses of `path_exists_strict` around `os.stat` (every failure but
      PermissionError answers False) and that it is the helper `readlink()` asks about the ` (deleted)` name;
    * `cfg_block_cached_sources` — which methods a oneshot() block caches (none of C12's);
    * `cfg_gone_test` — `wrap_exceptions` tests `/proc/<pid>/stat` (#2418) and asks the zombie test first;
    * `cfg_zombie_parser` — `_is_zombie`'s own parser: byte 2 after the LAST `)`, compared with `Z`;
    * `cfg_text_decoding` — `open_text` decodes with the file-system encoding and error handler.
  Every theorem below is then about the code's own configuration.

  Kinds of statement in this file (see also the header of Spec/C12.lean):
    SPEC   model = byte-level specification written from the statement (cmdline/environ/link/name rules,
           round-trips through the kernel's renderers, histories);
    CHAR   characterisation of the code where the statement does not decide (padded titles, cut files, the
           exception arms of exe()/name()/cwd(), `C12_link_withheld_unknown_liveness`) — said so in the docstring;
    INV    branch-free invariants about the WORLD only (`C12_exe_result_invariant`, …);
    MODEL  facts about the model alone, whose weight is the correspondence (`C12_exe_cached`,
           `C12_zombie_identity`, `C12_oneshot_same_answers`) — said so in the docstring.
-/
import PsutilModel.Proofs.C12Front
import PsutilModel.Proofs.C12Round3
import PsutilModel.Proofs.C12Shapes
import PsutilModel.Proofs.C12AsFound
import PsutilModel.Proofs.C12Stat
import PsutilModel.Model.C12Gen
namespace Psutil.C12
open Spec

/-- the configuration extracted from the source is the documented one -/
theorem cfg_good : cfg = good := by decide

/-- **cfg_except_clauses.** The `except` clauses of the front end, read as Python reads them (first clause
    naming a class of the exception, subclasses included): `name()` keeps the kernel's name exactly when
    `cmdline()` raises ZombieProcess or AccessDenied; `exe()` tries the guess exactly on a native
    AccessDenied, swallows exactly an AccessDenied of the guess, and `guess_it` re-raises exactly an
    AccessDenied fallback. (Part of `cfg_good`, stated separately so that a reordered or widened clause
    points here.) -/
theorem cfg_except_clauses :
    handledWith Gen.C12.nameCmdlineClauses "pass" = [.zombieProcess, .accessDenied]
    ∧ handledWith Gen.C12.exeNativeClauses "guess" = [.accessDenied]
    ∧ handledWith Gen.C12.exeGuessClauses "pass" = [.accessDenied]
    ∧ allExc.filter (catches Gen.C12.guessReraiseClass) = [.accessDenied] := by decide

/-- **cfg_block_cached_sources.** What a `oneshot()` block may answer from its cache, as the translator finds it
    in the source (the `@memoize_when_activated` methods and what `oneshot_enter` / `Process.oneshot` activate):
    none of the methods whose answers this property is about — `cmdline`, `environ`, `exe`, `cwd`, `name`,
    `terminal`, `username`, the helpers `_readlink`, `_is_zombie`, `_raise_if_zombie` — is block-cached, on either
    layer; the two sources the model's `Block` holds (`_parse_stat_file`: name + tty_nr; `_read_status_file` and
    the front end's `uids`: real uid) are memoised AND activated. This is the assumption under which
    `C12_oneshot_same_answers` describes the real code ("everything else reads as it does NOW"). -/
theorem cfg_block_cached_sources :
    (∀ m ∈ ["cmdline", "environ", "exe", "cwd", "name", "terminal", "_readlink", "_is_zombie", "_raise_if_zombie"],
        m ∉ Gen.C12.linuxMemoized ∧ m ∉ Gen.C12.linuxOneshotEnter)
    ∧ (∀ m ∈ ["cmdline", "environ", "exe", "cwd", "name", "terminal", "username"],
        m ∉ Gen.C12.frontMemoized ∧ m ∉ Gen.C12.frontOneshotActivates)
    ∧ (∀ m ∈ ["_parse_stat_file", "_read_status_file"],
        m ∈ Gen.C12.linuxMemoized ∧ m ∈ Gen.C12.linuxOneshotEnter)
    ∧ "uids" ∈ Gen.C12.frontMemoized ∧ "uids" ∈ Gen.C12.frontOneshotActivates := by decide

/-- **cfg_gone_test.** `wrap_exceptions` tells "the process is gone" (NoSuchProcess instead of a bare
    FileNotFoundError) by testing `/proc/<pid>/stat` — not the directory, which outlives its files (#2418) —
    and consults the zombie test first, for ESRCH as well as for ENOENT. The model's `wrap` is written for
    exactly this shape (`statThere`, `C12_vanishing_process`). -/
theorem cfg_gone_test :
    Gen.C12.wrapGoneTest = "/stat"
    ∧ Gen.C12.wrapZombieFirst = ["FileNotFoundError", "ProcessLookupError"] := by decide

/-- **cfg_zombie_parser.** `_is_zombie` reads the state letter with its own parser of `stat`: the byte at
    offset 2 after the LAST `)` (a name may contain `)` followed by anything), compared with `Z`. The model's
    `zombie` flag means exactly that byte (correspondence: `exh-paren`, family `paren_comm`). -/
theorem cfg_zombie_parser :
    Gen.C12.isZombieLastParen = true ∧ Gen.C12.isZombieStateWindow = (2, 3)
    ∧ Gen.C12.isZombieLetter = [90] := by decide

/-- **cfg_text_decoding.** `open_text` decodes the procfs files with the FILE-SYSTEM encoding and its error
    handler (`sys.getfilesystemencoding()` / `sys.getfilesystemencodeerrors()`: UTF-8 + surrogateescape under the
    pinned PYTHONUTF8=1, the pair `os.fsencode`/`os.fsdecode` use) — the assumption under which the model may
    work on BYTES (trusted: "str↔bytes is a bijection"). A literal encoding, the locale's preferred encoding or
    another error handler would be indistinguishable under the pinned configuration (or lossy: `replace`), so the
    "arbitrary non-UTF-8 bytes" half of the quantifier rests on this obligation. -/
theorem cfg_text_decoding :
    Gen.C12.openTextEncoding = "sys.getfilesystemencoding()"
    ∧ Gen.C12.openTextErrors = "sys.getfilesystemencodeerrors()" := by decide

/-- **C12_except_clause_order_matters.** Why the clauses are facts and not only their union: with
    `except NoSuchProcess: raise` placed BEFORE `except (AccessDenied, ZombieProcess): pass` (ZombieProcess is
    a NoSuchProcess) a zombie with a 15-byte name loses its name — the obligation above fails for that clause
    list, and so does the property, on a concrete world. -/
theorem C12_except_clause_order_matters :
    let reordered : Clauses := [(["NoSuchProcess"], "raise"), (["AccessDenied", "ZombieProcess"], "pass")]
    let w : World :=
      { dirExists := true, zombie := true, comm := [102,105,102,116,101,101,110,45,98,121,116,101,115,45,122],
        cmdline := .data [], environ := .data [], exe := .err .enoent, cwd := .err .enoent,
        fs := fun _ => .absent }
    handledWith reordered "pass" = [.accessDenied]
    ∧ name { good with nameSwallows := handledWith reordered "pass" } w = .error .zombieProcess
    ∧ Spec.name w = some (.ok w.comm)
    ∧ name good w = .ok w.comm := by decide

/-! ## cmdline() -/

/-- **C12_cmdline_spec.** For every content of `/proc/<pid>/cmdline` and either kind of
    process, `cmdline()` is the documented reading: empty → `[]` (live) / ZombieProcess
    (zombie); NUL-terminated → the NUL-separated arguments with empty ones preserved, unless
    it is a single piece containing a space, which is split on spaces; not NUL-terminated →
    split on spaces after ignoring one trailing space. -/
theorem C12_cmdline_spec (w : World) (d : Bytes) (hd : w.dirExists = true)
    (hc : w.cmdline = .data d) : cmdline cfg w = Spec.cmdlineOf (Spec.zombie w) d := by
  rw [cfg_good]; exact cmdline_data w d hd hc

/-- **C12_cmdline_zombie.** The empty cmdline of a zombie is reported as ZombieProcess, the
    empty cmdline of a live process as `[]`. -/
theorem C12_cmdline_zombie (w : World) (hd : w.dirExists = true) (hc : w.cmdline = .data []) :
    cmdline cfg w = if Spec.zombie w then .error .zombieProcess else .ok [] := by
  rw [C12_cmdline_spec w [] hd hc]; rfl

/-- **C12_cmdline_roundtrip.** Whatever argument vector the kernel lays out (any number of
    arguments ≥ 1, empty arguments anywhere including last, spaces, any bytes but NUL),
    `cmdline()` returns exactly that vector — provided it has at least two arguments or its
    only argument contains no space. -/
theorem C12_cmdline_roundtrip (w : World) (argv : List Bytes) (hd : w.dirExists = true)
    (hc : w.cmdline = .data (renderArgv argv)) (hne : argv ≠ []) (hnul : ∀ a ∈ argv, 0 ∉ a)
    (hsp : 2 ≤ argv.length ∨ ∀ a ∈ argv, 32 ∉ a) : cmdline cfg w = .ok argv := by
  rw [C12_cmdline_spec w _ hd hc]
  have hne' : renderArgv argv ≠ [] := by
    cases argv with
    | nil => exact absurd rfl hne
    | cons a as => simp [renderArgv]
  simp [Spec.cmdlineOf, hne', args_renderArgv argv hne hnul hsp]

/-- the round-trip without the hypothesis on a single space-containing argument -/
def C12_cmdline_roundtrip_Full : Prop :=
  ∀ (w : World) (argv : List Bytes), w.dirExists = true → w.cmdline = .data (renderArgv argv) →
    argv ≠ [] → (∀ a ∈ argv, 0 ∉ a) → cmdline cfg w = .ok argv

/-- … is false, and cannot be repaired: the bytes of `["a b"]` are those of the rewritten
    title `a b` + NUL, which the property wants split (stated limit, not a defect). -/
theorem C12_cmdline_single_space_arg_ambiguous : ¬ C12_cmdline_roundtrip_Full := by
  intro h
  have := h { dirExists := true, zombie := false, comm := [], cmdline := .data [97, 32, 98, 0],
              environ := .data [], exe := .err .enoent, cwd := .err .enoent, fs := fun _ => .absent }
    [[97, 32, 98]] rfl rfl (by decide) (by decide)
  revert this
  decide

/-- **C12_cmdline_title_rule.** A title rewritten without NUL bytes is split on spaces, one
    trailing space ignored; if it is NUL-terminated, the same after dropping that NUL. -/
theorem C12_cmdline_title_rule (w : World) (t : Bytes) (hd : w.dirExists = true) (hne : t ≠ [])
    (hnul : 0 ∉ t) :
    (w.cmdline = .data t →
      cmdline cfg w = .ok (fields 32 (if t.getLast? = some 32 then t.dropLast else t)))
    ∧ (w.cmdline = .data (t ++ [0]) → 32 ∈ t → cmdline cfg w = .ok (fields 32 t)) := by
  constructor
  · intro hc
    rw [C12_cmdline_spec w t hd hc]
    have h0 : t.getLast? ≠ some 0 := fun h => hnul (List.mem_of_getLast? h)
    simp [Spec.cmdlineOf, hne, args, h0]
  · intro hc h32
    rw [C12_cmdline_spec w _ hd hc]
    simp [Spec.cmdlineOf, args, hnul, h32]

/-! ### files left behind by a rewritten title (setproctitle) and files cut by the kernel -/

/-- **C12_cmdline_title_leftover.** A process that wrote a title `t` over the start of its argument area
    leaves `t NUL leftover… NUL`: the leftover bytes are returned as further arguments (`fields 0 r`), and
    the title is NOT split on spaces, whatever it contains — the space rule is for a single piece only. -/
theorem C12_cmdline_title_leftover (w : World) (t r : Bytes) (hd : w.dirExists = true) (ht : 0 ∉ t)
    (hc : w.cmdline = .data (t ++ 0 :: (r ++ [0]))) : cmdline cfg w = .ok (t :: fields 0 r) := by
  rw [C12_cmdline_spec w _ hd hc]
  simp [Spec.cmdlineOf, args_title_leftover t r ht]

/-- **C12_cmdline_padded_title.** nginx / sshd / postgres pad the rest of the area with NULs: a title
    followed by `k + 2` NULs comes back as the title (unsplit) followed by `k + 1` EMPTY strings; followed by
    exactly one NUL it is one argument, split on spaces if it contains one. -/
theorem C12_cmdline_padded_title (w : World) (t : Bytes) (hd : w.dirExists = true) (ht : 0 ∉ t) :
    (∀ k, w.cmdline = .data (t ++ List.replicate (k + 2) 0) →
        cmdline cfg w = .ok (t :: List.replicate (k + 1) []))
    ∧ (w.cmdline = .data (t ++ [0]) →
        cmdline cfg w = .ok (if 32 ∈ t then fields 32 t else [t])) := by
  constructor
  · intro k hc
    have e : t ++ List.replicate (k + 2) 0 = t ++ 0 :: (List.replicate k 0 ++ [0]) := by
      rw [← List.replicate_succ', List.replicate_succ]
    rw [e] at hc
    rw [C12_cmdline_title_leftover w t _ hd ht hc, fields0_replicate]
  · intro hc
    rw [C12_cmdline_spec w _ hd hc]
    by_cases h32 : 32 ∈ t <;> simp [Spec.cmdlineOf, args, ht, h32]

/-- **C12_padded_title_is_an_argv.** Why the padded title above is NOT a case of the statement's second rule:
    `title NUL^(k+2)` is, byte for byte, what the kernel writes for the argument vector `title, "", …, ""`
    (k+1 empty strings), so the FIRST rule ("NUL-separated with empty arguments preserved") already fixes the
    answer — and it is the one `C12_cmdline_roundtrip` promises for that vector. (Integrator decision, round
    3: kept as a characterisation; the second rule is read as "the file has no NUL separator".) -/
theorem C12_padded_title_is_an_argv (w : World) (t : Bytes) (k : Nat) (hd : w.dirExists = true) (ht : 0 ∉ t)
    (hc : w.cmdline = .data (t ++ List.replicate (k + 2) 0)) :
    t ++ List.replicate (k + 2) 0 = renderArgv (t :: List.replicate (k + 1) [])
    ∧ cmdline cfg w = .ok (t :: List.replicate (k + 1) []) := by
  refine ⟨?_, (C12_cmdline_padded_title w t hd ht).1 k hc⟩
  have : ∀ n, renderArgv (List.replicate n []) = List.replicate n 0 := by
    intro n
    induction n with
    | zero => rfl
    | succ n ih => simp [renderArgv, List.replicate_succ] at ih ⊢; exact ih
  rw [renderArgv_cons, this, ← List.replicate_succ]

/-- **C12_cmdline_setproctitle.** End to end for the nginx / sshd / postgres way of rewriting a title: the
    title `t` (no NUL) is written at `arg_start` over an argument area of `a` bytes followed by `e` bytes of
    (moved-away) environment, the rest of the `a + e` bytes NUL-padded, and the kernel exposes
    `kernelCmdline` of that memory. Then `cmdline()` returns: the title UNSPLIT followed by `a - |t| - 1` empty
    strings when the title is at least two bytes shorter than the argument area (`sshd: user@pts/0`, `nginx:
    worker process`); otherwise (it fills the area or overflows into the environment: `nginx: master process
    …`) the single piece, split on spaces if it contains any. -/
theorem C12_cmdline_setproctitle (w : World) (t : Bytes) (a e : Nat) (hd : w.dirExists = true)
    (ht0 : 0 ∉ t) (hne : t ≠ []) (ha : 0 < a) (hfit : t.length < a + e)
    (hc : w.cmdline = .data (kernelCmdline ((titleArea t (a + e)).take a) ((titleArea t (a + e)).drop a))) :
    cmdline cfg w = .ok (if t.length + 1 < a then t :: List.replicate (a - t.length - 1) []
                         else if 32 ∈ t then fields 32 t else [t]) := by
  rw [kernelCmdline_title t a e ht0 hne ha hfit] at hc
  by_cases h2 : t.length + 1 < a
  · obtain ⟨k, hk⟩ : ∃ k, a - t.length = k + 2 := ⟨a - t.length - 2, by omega⟩
    have hk' : a - t.length - 1 = k + 1 := by omega
    rw [if_pos (by omega), hk] at hc
    rw [if_pos h2, hk']
    exact (C12_cmdline_padded_title w t hd ht0).1 k hc
  · rw [if_neg h2]
    have hc' : w.cmdline = .data (t ++ [0]) := by
      by_cases h1 : t.length < a
      · have : a - t.length = 1 := by omega
        rw [if_pos h1, this] at hc
        simpa using hc
      · rw [if_neg h1] at hc; exact hc
    exact (C12_cmdline_padded_title w t hd ht0).2 hc'

/-- **C12_cmdline_strip_one_needed.** Why "exactly one trailing separator is removed" is a fact: removing ALL
    of them (`data.rstrip(sep)`, tempting in view of the padded titles above) loses trailing empty arguments,
    which the property promises to preserve — `a NUL NUL` is the argument vector `["a", ""]`. -/
theorem C12_cmdline_strip_one_needed :
    let w : World :=
      { dirExists := true, zombie := false, comm := [], cmdline := .data (renderArgv [[97], []]),
        environ := .data [], exe := .err .enoent, cwd := .err .enoent, fs := fun _ => .absent }
    cmdline { good with stripOne := false } w = .ok [[97]]
    ∧ Spec.cmdline w = some (.ok [[97], []])
    ∧ cmdline good w = .ok [[97], []] := by decide

/-- **C12_cmdline_unterminated.** A file whose last byte is not NUL — a title written without one, or an
    argument vector cut by a kernel that serves at most one page — is read as a space-separated title: the
    NULs it contains stay INSIDE the returned strings (joining the result with spaces gives the file back,
    one trailing space apart), so arguments separated by NUL come back glued together. -/
theorem C12_cmdline_unterminated (w : World) (d : Bytes) (hd : w.dirExists = true) (hne : d ≠ [])
    (h0 : d.getLast? ≠ some 0) (hc : w.cmdline = .data d) :
    let body := if d.getLast? = some 32 then d.dropLast else d
    cmdline cfg w = .ok (fields 32 body) ∧ joinWith [32] (fields 32 body) = body := by
  refine ⟨?_, (fields_isFields 32 _).2.2⟩
  rw [C12_cmdline_spec w d hd hc]
  simp [Spec.cmdlineOf, hne, args_unterminated d h0]

/-- the documented fields are characterised uniquely: a non-empty list of pieces without the
    separator whose join is the string (so `fields` in the statements above means what it says) -/
theorem C12_fields_characterised (sep : Nat) (s : Bytes) (fs : List Bytes) :
    IsFields sep s fs ↔ fs = fields sep s :=
  ⟨isFields_unique sep s fs, fun h => h ▸ fields_isFields sep s⟩

/-! ## environ() -/

/-- **C12_environ_spec.** For every content of `/proc/<pid>/environ`, `environ()` is the
    dictionary of the `NAME=value` entries up to the first empty entry (an unterminated tail
    is garbage; entries without `=` or with an empty NAME are not assignments), built in
    order with later duplicates overwriting earlier ones. -/
theorem C12_environ_spec (w : World) (d : Bytes) (hd : w.dirExists = true)
    (he : w.environ = .data d) : environ cfg w = .ok (environOf d) := by
  rw [cfg_good]
  exact environ_sound w _ (by simp [Spec.environ, hd, he])

/-- **C12_environ_last_wins.** Looking a name up in the result gives the value of the LAST
    assignment to it, and every name occurs once. -/
theorem C12_environ_last_wins (d : Bytes) (k : Bytes) :
    (environOf d).lookup k = lastValue (assignments d) k
    ∧ ((environOf d).map (·.1)).Nodup := by
  constructor
  · have := lookup_foldl_put (assignments d) [] k
    simpa [environOf] using this
  · exact foldl_put_keys_nodup (assignments d) [] (by simp)

/-- **C12_environ_roundtrip.** Whatever environment the kernel lays out (non-empty names
    without `=`/NUL, values without NUL but possibly with `=`, no duplicate names),
    `environ()` returns exactly it — whatever garbage follows an empty entry. -/
theorem C12_environ_roundtrip (w : World) (env : List (Bytes × Bytes)) (garbage : Bytes)
    (hd : w.dirExists = true) (hok : EnvOk env) (hnd : (env.map (·.1)).Nodup)
    (he : w.environ = .data (renderEnv env) ∨ w.environ = .data (renderEnv env ++ 0 :: garbage)) :
    environ cfg w = .ok env := by
  have key := assignments_renderEnv_tail env hok
  rcases he with he | he
  · rw [C12_environ_spec w _ hd he]
    have := key [] (Or.inl rfl)
    rw [List.append_nil] at this
    rw [environOf, this, foldl_put_nodup env [] (by simpa using hnd)]
    rfl
  · rw [C12_environ_spec w _ hd he]
    rw [environOf, key (0 :: garbage) (Or.inr ⟨garbage, rfl⟩),
      foldl_put_nodup env [] (by simpa using hnd)]
    rfl

/-- **C12_environ_unterminated_tail.** A block cut in the middle of an entry (old kernels serve at most
    4096 bytes) loses exactly that entry: whatever follows the last NUL — a half name, `NAME=half a value` —
    is dropped, everything before it is returned as if the block ended there. -/
theorem C12_environ_unterminated_tail (w : World) (d tail : Bytes) (hd : w.dirExists = true)
    (hterm : d = [] ∨ d.getLast? = some 0) (ht : 0 ∉ tail) (he : w.environ = .data (d ++ tail)) :
    environ cfg w = .ok (environOf d) := by
  rw [C12_environ_spec w _ hd he, environOf_append_tail d tail hterm ht]

/-- **C12_environ_not_assignment_ignored.** An entry without `=` (`B`) or with an empty NAME (`=x`, `=C=2`,
    `=`), anywhere after complete entries, changes nothing: the result is that of the block without it. -/
theorem C12_environ_not_assignment_ignored (w : World) (pre e rest : Bytes) (hd : w.dirExists = true)
    (hpre : pre = [] ∨ pre.getLast? = some 0) (he0 : 0 ∉ e) (hne : e ≠ [])
    (hna : 61 ∉ e ∨ e.head? = some 61) (he : w.environ = .data (pre ++ (e ++ 0 :: rest))) :
    environ cfg w = .ok (environOf (pre ++ rest)) := by
  rw [C12_environ_spec w _ hd he]
  have hp : parseEntry e = none :=
    (parseEntry_none_iff e).2 (hna.elim Or.inl fun h => Or.inr (Or.inl h))
  unfold environOf
  rw [assignments_skip_entry pre.length pre e rest (Nat.le_refl _) hpre he0 hne hp]

/-- **C12_environ_any_value.** A value may contain anything but NUL — newlines, `=`, spaces, bytes that are
    not UTF-8 — and so may a NAME, apart from `=`: `NAME=value NUL` comes back as exactly that pair. -/
theorem C12_environ_any_value (w : World) (k v : Bytes) (hd : w.dirExists = true) (hk : k ≠ [])
    (hk61 : 61 ∉ k) (hk0 : 0 ∉ k) (hv0 : 0 ∉ v) (he : w.environ = .data (k ++ 61 :: v ++ [0])) :
    environ cfg w = .ok [(k, v)] := by
  apply C12_environ_roundtrip w [(k, v)] [] hd
  · intro kv hkv
    simp only [List.mem_singleton] at hkv
    subst hkv
    exact ⟨hk, hk61, hk0, hv0⟩
  · simp
  · left
    simpa [renderEnv] using he

/-- **C12_environ_duplicates.** With duplicate names allowed: the value returned for a name is that of its
    LAST assignment in the kernel's layout, and a name that is assigned is returned. -/
theorem C12_environ_duplicates (w : World) (env : List (Bytes × Bytes)) (hd : w.dirExists = true)
    (hok : EnvOk env) (he : w.environ = .data (renderEnv env)) :
    ∃ d, environ cfg w = .ok d ∧ (∀ k, d.lookup k = lastValue env k) ∧ (d.map (·.1)).Nodup := by
  refine ⟨environOf (renderEnv env), C12_environ_spec w _ hd he, ?_, (C12_environ_last_wins _ []).2⟩
  intro k
  rw [(C12_environ_last_wins (renderEnv env) k).1, assignments_renderEnv env hok]

/-! ## exe() / cwd() links -/

/-- **C12_link_cleanup.** For every link target: NUL garbage is cut; a ` (deleted)` suffix is
    removed iff nothing with the suffixed name exists — `os.stat` of it says ENOENT, or fails with ANY other
    errno / class except PermissionError (seeded round 5) —; a file really named `… (deleted)`
    keeps its name. (`tail` = nothing, or NUL followed by anything.) This is a statement about the clean-up
    function `readlinkClean` (= `_pslinux.readlink` after `os.readlink`); that `cwd()` and the native `exe()`
    return exactly this for a readable link is `C12_link_spec` (through `Spec.link`, whose `.target` arm is
    `linkClean` = this clean-up, `readlinkClean_eq`). -/
theorem C12_link_cleanup (fs : Bytes → FsEnt) (p tail : Bytes) (hp : 0 ∉ p)
    (ht : tail = [] ∨ tail.head? = some 0) :
    ((fs (p ++ deleted) = .absent
        ∨ ∃ en cls, cls ≠ .permission ∧ fs (p ++ deleted) = .unstatable en cls) →
      readlinkClean cfg fs (p ++ deleted ++ tail) = .ok p)
    ∧ ((fs (p ++ deleted) = .dir ∨ ∃ x, fs (p ++ deleted) = .file x) →
        readlinkClean cfg fs (p ++ deleted ++ tail) = .ok (p ++ deleted))
    ∧ ((¬ ∃ q, p = q ++ deleted) → readlinkClean cfg fs (p ++ tail) = .ok p) := by
  rw [cfg_good]
  have hpd : 0 ∉ p ++ deleted := by
    simp only [List.mem_append, not_or]; exact ⟨hp, by decide⟩
  refine ⟨?_, ?_, ?_⟩
  · intro habs
    have htw := takeWhile_ne_of_tail 0 (p ++ deleted) tail hpd ht
    rw [readlinkClean_eq]
    rcases habs with habs | ⟨en, cls, hne, habs⟩
    · simp only [linkClean, htw, stripDeleted_append, habs, named]
    · simp only [linkClean, htw, stripDeleted_append, habs, named, hne, if_false]
  · intro hex
    have htw := takeWhile_ne_of_tail 0 (p ++ deleted) tail hpd ht
    rw [readlinkClean_eq]
    rcases hex with h | ⟨x, h⟩ <;> simp only [linkClean, htw, stripDeleted_append, h, named]
  · intro hno
    have htw := takeWhile_ne_of_tail 0 p tail hp ht
    rw [readlinkClean_eq]
    simp only [linkClean, htw, stripDeleted_none p hno]

/-- **C12_link_spec.** `cwd()` (and the native `exe()`) agree with the specification in every
    world where it speaks: clean-up of a readable target; `''` when the kernel withholds the
    link (ENOENT/ESRCH) from a live process, ZombieProcess for a zombie; AccessDenied on
    EACCES; NoSuchProcess once `/proc/<pid>` is gone. -/
theorem C12_link_spec (w : World) (r : Res Bytes) :
    (Spec.cwd w = some r → cwd cfg w = r) ∧ (Spec.link w w.exe = some r → procExe cfg w = r) := by
  rw [cfg_good]
  exact ⟨cwd_sound w r, procExe_sound w r⟩

/-- **C12_link_withheld.** ENOENT or ESRCH on the link while `/proc/<pid>` exists: `''` for a
    live process, ZombieProcess for a zombie. -/
theorem C12_link_withheld (w : World) (e : Err) (hd : w.dirExists = true) (hs : w.statExists = true)
    (hr : w.statReadable = true) (he : e ≠ .eacces) (hl : w.cwd = .err e) :
    cwd cfg w = if w.zombie then .error .zombieProcess else .ok [] := by
  have : Spec.cwd w = some (if w.zombie then .error .zombieProcess else .ok []) := by
    cases e <;> cases hz : w.zombie <;> simp_all [Spec.cwd, Spec.link, Spec.zombie]
  exact (C12_link_spec w _).1 this

/-! ## exe() front end -/

/-- **C12_exe_fallback.** One uncached `exe()`: a non-empty native answer is returned and
    remembered; `''` (withheld) → `cmdline()[0]` if that is an absolute path to an executable
    regular file, else `''`, remembered either way; AccessDenied → the same guess, else
    AccessDenied, and nothing is remembered. -/
theorem C12_exe_fallback (w : World) (r : Res Bytes) (rem : Bool)
    (h : Spec.exeOnce w = some (r, rem)) :
    exe cfg w ⟨none⟩ = (⟨remembered r rem⟩, r) := by
  rw [cfg_good]; exact exeOnce_sound w r rem h

/-- **C12_exe_refines.** After `exe()` calls in ANY sequence of worlds on one object, the next
    `exe()` returns what the history-defined specification promises: the first remembered
    answer, whatever the kernel says now; else the uncached answer. -/
theorem C12_exe_refines (ws : List World) (w : World) (r : Res Bytes)
    (h : Spec.exeAfter ws w = some r) : (exe cfg w (runExe cfg St.init ws)).2 = r := by
  rw [cfg_good]; exact exeAfter_sound ws w r h

/-- **C12_exe_cached.** Once an answer is remembered it is returned forever (also `''`). (MODEL: true by the
    first line of the model's `exe` — `if self._exe is not None: return self._exe` is not a translator fact; that
    the real method behaves so rests on the correspondence: mode `again`, the 120 exe-branch cases with a later
    readable link, mutation M5. The history-level statement against the specification is `C12_exe_refines`.) -/
theorem C12_exe_cached (v : Bytes) (ws : List World) (w : World) :
    exe cfg w (runExe cfg ⟨some v⟩ ws) = (⟨some v⟩, .ok v) := by
  rw [runExe_cached]; rfl

/-! ### every documented branch of the front-end `exe()`, in closed form

  `nat` is what the platform layer answers (`procExe`), `cl` what `cmdline()` answers; the
  branches are those of the docstring/comments of `psutil.Process.exe()`. -/

-- `Guessable w a0` ("`a0` is an absolute path to an executable regular file", as the property says it) is
-- defined in Proofs/C12Round3.lean: `a0.head? = some 47 ∧ 0 ∉ a0 ∧ w.fs a0 = .file true`.

/-- **branch 1: native answer.** A non-empty native answer is returned and remembered;
    `cmdline()` is not consulted. -/
theorem C12_exe_native (w : World) (p : Bytes) (hp : p ≠ []) (h : procExe cfg w = .ok p) :
    exe cfg w ⟨none⟩ = (⟨some p⟩, .ok p) := by
  have : p.isEmpty = false := by cases p <;> simp_all
  simp [exe, h, this]

/-- **branch 2: native error other than AccessDenied** (zombie, gone): propagates, nothing
    remembered. -/
theorem C12_exe_native_error (w : World) (e : Exc) (he : e ≠ .accessDenied)
    (h : procExe cfg w = .error e) : exe cfg w ⟨none⟩ = (⟨none⟩, .error e) := by
  rw [cfg_good] at h ⊢
  cases e <;> simp_all [exe]

/-- **branch 3: AccessDenied → guess.** If `cmdline()[0]` is an absolute path to an executable
    regular file it is returned (NOT remembered); if there is no such guess AccessDenied is
    re-raised; if `cmdline()` itself raises, that error is what the caller sees. -/
theorem C12_exe_denied (w : World) (h : procExe cfg w = .error .accessDenied) :
    (∀ a0 rest, cmdline cfg w = .ok (a0 :: rest) → Guessable w a0 →
        exe cfg w ⟨none⟩ = (⟨none⟩, .ok a0))
    ∧ (∀ a0 rest, cmdline cfg w = .ok (a0 :: rest) → ¬ Guessable w a0 →
        exe cfg w ⟨none⟩ = (⟨none⟩, .error .accessDenied))
    ∧ (cmdline cfg w = .ok [] → exe cfg w ⟨none⟩ = (⟨none⟩, .error .accessDenied))
    ∧ (∀ e, cmdline cfg w = .error e → exe cfg w ⟨none⟩ = (⟨none⟩, .error e)) := by
  rw [cfg_good] at h ⊢
  refine ⟨?_, ?_, ?_, ?_⟩
  · intro a0 rest hc hg
    have := (guess_cond w.fs a0).2 hg
    simp [exe, h, guessIt, hc, this]
  · intro a0 rest hc hg
    have : ¬ (isAbs a0 && isFile w.fs a0 && xOk w.fs a0) = true := fun x => hg ((guess_cond w.fs a0).1 x)
    simp [exe, h, guessIt, hc, this]
  · intro hc
    simp [exe, h, guessIt, hc]
  · intro e hc
    simp [exe, h, guessIt, hc]

/-- **branch 4: `''` (link withheld) → guess.** The guess if there is one, else `''`; also `''`
    when `cmdline()` raises AccessDenied ("we don't want to raise AD while guessing") — all
    three remembered; any other error of `cmdline()` propagates and nothing is remembered. -/
theorem C12_exe_withheld (w : World) (h : procExe cfg w = .ok []) :
    (∀ a0 rest, cmdline cfg w = .ok (a0 :: rest) → Guessable w a0 →
        exe cfg w ⟨none⟩ = (⟨some a0⟩, .ok a0))
    ∧ (∀ a0 rest, cmdline cfg w = .ok (a0 :: rest) → ¬ Guessable w a0 →
        exe cfg w ⟨none⟩ = (⟨some []⟩, .ok []))
    ∧ (cmdline cfg w = .ok [] → exe cfg w ⟨none⟩ = (⟨some []⟩, .ok []))
    ∧ (cmdline cfg w = .error .accessDenied → exe cfg w ⟨none⟩ = (⟨some []⟩, .ok []))
    ∧ (∀ e, e ≠ .accessDenied → cmdline cfg w = .error e →
        exe cfg w ⟨none⟩ = (⟨none⟩, .error e)) := by
  rw [cfg_good] at h ⊢
  refine ⟨?_, ?_, ?_, ?_, ?_⟩
  · intro a0 rest hc hg
    have := (guess_cond w.fs a0).2 hg
    simp [exe, h, guessIt, hc, this]
  · intro a0 rest hc hg
    have : ¬ (isAbs a0 && isFile w.fs a0 && xOk w.fs a0) = true := fun x => hg ((guess_cond w.fs a0).1 x)
    simp [exe, h, guessIt, hc, this]
  · intro hc
    simp [exe, h, guessIt, hc]
  · intro hc
    simp [exe, h, guessIt, hc]
  · intro e he hc
    cases e <;> simp_all [exe, guessIt]

/-- **C12_exe_eacces_link.** The case the branches above are for: `readlink(/proc/<pid>/exe)`
    answers EACCES (another user's process). For every cmdline file: readable with a guessable
    `argv[0]` → that path; otherwise AccessDenied — unless the cmdline file says the process is
    a zombie / gone, which wins. Nothing is remembered, so a later call asks the kernel again. -/
theorem C12_exe_eacces_link (w : World) (hd : w.dirExists = true) (hl : w.exe = .err .eacces)
    (r : Res (List Bytes)) (hc : Spec.cmdline w = some r) :
    exe cfg w ⟨none⟩ = (⟨none⟩,
      match r with
      | .ok (a0 :: _) => if a0.head? = some 47 ∧ 0 ∉ a0 ∧ w.fs a0 = .file true then .ok a0
                         else .error .accessDenied
      | .ok [] => .error .accessDenied
      | .error e => .error e) := by
  have hlink : Spec.link w w.exe = some (.error .accessDenied) := by simp [Spec.link, hd, hl]
  have key : ∀ x rem, Spec.exeOnce w = some (x, rem) → rem = false →
      exe cfg w ⟨none⟩ = (⟨none⟩, x) := by
    intro x rem hx hrem
    subst hrem
    have := C12_exe_fallback w x false hx
    cases x <;> simpa [remembered] using this
  cases r with
  | error e =>
    exact key _ false (by simp [Spec.exeOnce, hlink, Spec.guessOf, hc]) rfl
  | ok cl =>
    cases cl with
    | nil => exact key _ false (by simp [Spec.exeOnce, hlink, Spec.guessOf, hc]) rfl
    | cons a0 rest =>
      by_cases hg : a0.head? = some 47 ∧ 0 ∉ a0 ∧ w.fs a0 = .file true
      · simp only [hg]
        exact key _ false (by simp [Spec.exeOnce, hlink, Spec.guessOf, hc, hg]) rfl
      · simp only [hg, if_false]
        exact key _ false (by simp [Spec.exeOnce, hlink, Spec.guessOf, hc, hg]) rfl

/-- **C12_exe_withheld_link.** `C12_exe_withheld` stated on the WORLD instead of on the platform method's
    answer: the kernel withholds `/proc/<pid>/exe` (ENOENT/ESRCH) from a live process (`stat` readable, not `Z`).
    For every cmdline file: a guessable `argv[0]` → that path; no usable guess, an empty cmdline, or a DENIED
    cmdline → `''` — all remembered; a cmdline that says the process is gone → that error, nothing remembered. -/
theorem C12_exe_withheld_link (w : World) (e : Err) (hd : w.dirExists = true) (hs : w.statExists = true)
    (hr : w.statReadable = true) (hz : w.zombie = false) (he : e ≠ .eacces) (hl : w.exe = .err e)
    (r : Res (List Bytes)) (hc : Spec.cmdline w = some r) :
    exe cfg w ⟨none⟩ =
      match r with
      | .ok (a0 :: _) => if a0.head? = some 47 ∧ 0 ∉ a0 ∧ w.fs a0 = .file true then (⟨some a0⟩, .ok a0)
                         else (⟨some []⟩, .ok [])
      | .ok [] => (⟨some []⟩, .ok [])
      | .error .accessDenied => (⟨some []⟩, .ok [])
      | .error x => (⟨none⟩, .error x) := by
  have hlink : Spec.link w w.exe = some (.ok []) := by
    cases e <;> simp_all [Spec.link, Spec.zombie]
  have key : ∀ x rem, Spec.exeOnce w = some (x, rem) → exe cfg w ⟨none⟩ = (⟨remembered x rem⟩, x) :=
    fun x rem h => C12_exe_fallback w x rem h
  cases r with
  | error x =>
    cases x with
    | accessDenied =>
      simpa [remembered] using key (.ok []) true (by simp [Spec.exeOnce, hlink, Spec.guessOf, hc])
    | noSuchProcess =>
      simpa [remembered] using key (.error .noSuchProcess) false (by simp [Spec.exeOnce, hlink, Spec.guessOf, hc])
    | zombieProcess =>
      simpa [remembered] using key (.error .zombieProcess) false (by simp [Spec.exeOnce, hlink, Spec.guessOf, hc])
    | fileNotFound =>
      simpa [remembered] using key (.error .fileNotFound) false (by simp [Spec.exeOnce, hlink, Spec.guessOf, hc])
    | osError en =>
      simpa [remembered] using key (.error (.osError en)) false (by simp [Spec.exeOnce, hlink, Spec.guessOf, hc])
  | ok cl =>
    cases cl with
    | nil =>
      simpa [remembered] using key (.ok []) true (by simp [Spec.exeOnce, hlink, Spec.guessOf, hc])
    | cons a0 rest =>
      by_cases hg : a0.head? = some 47 ∧ 0 ∉ a0 ∧ w.fs a0 = .file true
      · simp only [hg]
        simpa [remembered] using key (.ok a0) true (by simp [Spec.exeOnce, hlink, Spec.guessOf, hc, hg])
      · simp only [hg, if_false]
        simpa [remembered] using key (.ok []) true (by simp [Spec.exeOnce, hlink, Spec.guessOf, hc, hg])

/-- **C12_cwd_exe_zombie.** A zombie has no cwd / exe: when the kernel withholds the link
    (ENOENT/ESRCH) both raise ZombieProcess — never `''`, and `exe()` does not try to guess —
    and nothing is remembered. -/
theorem C12_cwd_exe_zombie (w : World) (hd : w.dirExists = true) (hs : w.statExists = true)
    (hr : w.statReadable = true) (hz : w.zombie = true) :
    (∀ e, e ≠ .eacces → w.cwd = .err e → cwd cfg w = .error .zombieProcess)
    ∧ (∀ e, e ≠ .eacces → w.exe = .err e → exe cfg w ⟨none⟩ = (⟨none⟩, .error .zombieProcess)) := by
  constructor
  · intro e he hl
    rw [C12_link_withheld w e hd hs hr he hl, hz]; rfl
  · intro e he hl
    have hlink : Spec.link w w.exe = some (.error .zombieProcess) := by
      cases e <;> simp_all [Spec.link, Spec.zombie]
    have := C12_exe_fallback w (.error .zombieProcess) false (by simp [Spec.exeOnce, hlink])
    simpa [remembered] using this

/-! ## name() -/

/-- **C12_name_rule.** `name()` is the kernel's name, except that a name of at least 15
    BYTES is replaced by the basename of `cmdline()[0]` exactly when that basename starts
    with it (as bytes); a zombie's or unreadable cmdline leaves the kernel's name. -/
theorem C12_name_rule (w : World) (r : Res Bytes) (h : Spec.name w = some r) : name cfg w = r := by
  rw [cfg_good]; exact name_sound w r h

/-- the rule in closed form for a readable, non-empty cmdline -/
theorem C12_name_rule_explicit (w : World) (d : Bytes) (a0 : Bytes) (rest : List Bytes)
    (hd : w.dirExists = true) (hs : w.statExists = true) (hr : w.statReadable = true)
    (hc : w.cmdline = .data d) (ha : Spec.cmdlineOf w.zombie d = .ok (a0 :: rest)) :
    name cfg w = .ok (if 15 ≤ w.comm.length ∧ w.comm.isPrefixOf (base a0) then base a0 else w.comm) := by
  apply C12_name_rule
  have hz : Spec.zombie w = w.zombie := by simp [Spec.zombie, hs, hr]
  unfold Spec.name
  by_cases hl : w.comm.length < commMax
  · have : ¬ 15 ≤ w.comm.length := by unfold commMax at hl; omega
    simp [hd, hs, hr, hl, this]
  · have h15 : 15 ≤ w.comm.length := by unfold commMax at hl; omega
    have hl' : ¬ w.comm.length < 15 := by omega
    have hsc : Spec.cmdline w = some (.ok (a0 :: rest)) := by simp [Spec.cmdline, hd, hc, hz, ha]
    simp [hd, hs, hr, hsc, nameRule, commMax, hl', h15]

/-- `base` is "what follows the last slash" -/
theorem C12_base_characterised (dir b : Bytes) (hb : 47 ∉ b) :
    base (dir ++ 47 :: b) = b ∧ base b = b := by
  rw [← basename_eq_base, ← basename_eq_base]
  constructor
  · simp [basename, rfindIdx?_last 47 dir b hb]
  · simp [basename, rfindIdx?_none 47 b hb]

/-- what `name()` makes of an error of `cmdline()`: AccessDenied / ZombieProcess → the kernel's
    name; anything else is the caller's -/
def nameOnError (comm : Bytes) : Exc → Res Bytes
  | .accessDenied => .ok comm
  | .zombieProcess => .ok comm
  | e => .error e

/-- **C12_name_when_cmdline_raises.** Whatever makes `cmdline()` raise (a denied, vanished or
    withheld file, a zombie's empty one): a name shorter than 15 bytes never looks at it; for a
    longer one AccessDenied and ZombieProcess are swallowed and the kernel's name is returned,
    any other error (the process is gone) propagates. -/
theorem C12_name_when_cmdline_raises (w : World) (e : Exc) (hd : w.dirExists = true)
    (hs : w.statExists = true) (hr : w.statReadable = true) (h : cmdline cfg w = .error e) :
    name cfg w = if w.comm.length < 15 then .ok w.comm else nameOnError w.comm e := by
  rw [cfg_good] at h ⊢
  by_cases hl : w.comm.length < 15
  · have : ¬ 15 ≤ w.comm.length := by omega
    simp [name, procName_eq, hd, hs, hr, nameLen_good, nameMinLen_good, this, hl]
  · have h15 : 15 ≤ w.comm.length := by omega
    cases e <;> simp [name, procName_eq, hd, hs, hr, nameLen_good, nameMinLen_good, h15, hl, h, nameOnError]

/-- **C12_name_zombie_or_denied.** A process whose cmdline cannot be had — EACCES on the file, or
    a zombie (empty file, or ANY error on it) — still has a name: the kernel's, of any length
    (15 bytes included), both by the specification and by the code. -/
theorem C12_name_zombie_or_denied (w : World) (hd : w.dirExists = true)
    (hs : w.statExists = true) (hr : w.statReadable = true)
    (h : w.cmdline = .err .eacces
          ∨ (w.zombie = true ∧ (w.cmdline = .data [] ∨ ∃ e, w.cmdline = .err e))) :
    Spec.name w = some (.ok w.comm) ∧ name cfg w = .ok w.comm := by
  have hs : Spec.name w = some (.ok w.comm) := by
    unfold Spec.name
    by_cases hl : w.comm.length < commMax
    · simp [hd, hs, hr, hl]
    · rcases h with h | ⟨hz, h | ⟨e, h⟩⟩
      · simp [hd, hs, hr, hl, Spec.cmdline, h, fileErr]
      · simp [hd, hs, hr, hl, Spec.cmdline, h, hz, cmdlineOf, Spec.zombie]
      · cases e <;> simp [hd, hs, hr, hl, Spec.cmdline, h, hz, fileErr, Spec.zombie]
  exact ⟨hs, C12_name_rule w _ hs⟩

/-- a live process whose cmdline file answers ESRCH has died in the meantime: a long name
    cannot be completed and NoSuchProcess propagates (it is NOT mistaken for a zombie) -/
theorem C12_name_process_gone (w : World) (hd : w.dirExists = true) (hs : w.statExists = true)
    (hr : w.statReadable = true) (hz : w.zombie = false)
    (hc : w.cmdline = .err .esrch) (h15 : 15 ≤ w.comm.length) :
    name cfg w = .error .noSuchProcess := by
  apply C12_name_rule
  have : ¬ w.comm.length < commMax := by unfold commMax; omega
  simp [Spec.name, hd, hs, hr, this, Spec.cmdline, hc, fileErr, hz, Spec.zombie]

/-- **C12_file_errors.** OS errors on the cmdline / environ file itself while `/proc/<pid>`
    exists: EACCES → AccessDenied; ESRCH → NoSuchProcess, ZombieProcess for a zombie; ENOENT on
    a zombie → ZombieProcess. -/
theorem C12_file_errors (w : World) (e : Err) (x : Exc) (hd : w.dirExists = true)
    (hx : fileErr w e = some x) :
    (w.cmdline = .err e → cmdline cfg w = .error x)
    ∧ (w.environ = .err e → environ cfg w = .error x) := by
  rw [cfg_good]
  constructor
  · intro hc
    exact cmdline_sound w _ (by simp [Spec.cmdline, hd, hc, hx])
  · intro hc
    exact environ_sound w _ (by simp [Spec.environ, hd, hc, hx])

/-! ## username() / terminal(): who a zombie is -/

/-- **C12_identity_spec.** `username()` is the user-database name of the real uid (the uid in
    decimal when the database has none), `terminal()` the device whose number is `tty_nr` (or
    `None`); NoSuchProcess once `/proc/<pid>` (for `terminal()`: its `stat`) is gone, AccessDenied when `stat`
    cannot be read. -/
theorem C12_identity_spec (w : World) :
    (∀ r, Spec.username w = some r → username w = r)
    ∧ (∀ r, Spec.terminal w = some r → terminal w = r) := by
  constructor
  · intro r h
    cases hd : w.dirExists <;> simp [Spec.username, hd] at h <;> rw [← h]
    · simp [username, procUid, hd]
    · cases hu : w.users w.uid <;> simp [username, procUid, hd, hu]
  · intro r h
    cases hd : w.dirExists <;> cases hs : w.statExists <;> cases hr : w.statReadable <;>
      simp [Spec.terminal, hd, hs, hr] at h <;> rw [← h] <;> simp [terminal, procTty_eq, hd, hs, hr]

/-- **C12_zombie_identity.** A zombie still has an owner and a controlling terminal: the two
    calls never raise ZombieProcess, and answer exactly as for the same process alive. (A fact about the MODEL:
    `username()` never consults the zombie test; `terminal()` reaches it only through `wrap_exceptions`, on an
    error of `stat` itself, where `_is_zombie` cannot read `stat` either. That the real methods behave like
    the model here rests on the correspondence — family `zombie_id`.) -/
theorem C12_zombie_identity (w : World) :
    username { w with zombie := true } = username { w with zombie := false }
    ∧ terminal { w with zombie := true } = terminal { w with zombie := false }
    ∧ username w ≠ .error .zombieProcess ∧ terminal w ≠ .error .zombieProcess := by
  refine ⟨rfl, ?_, ?_, ?_⟩
  · simp [terminal, procTty_eq]
  · cases hd : w.dirExists <;> cases hu : w.users w.uid <;> simp [username, procUid, hd, hu]
  · cases hd : w.dirExists <;> cases hs : w.statExists <;> cases hr : w.statReadable <;>
      simp [terminal, procTty_eq, hd, hs, hr]

/-! ## branch-free invariants of exe() / cwd() (no specification of the error arms involved)

  The closed-form theorems above compare the model with `Spec.exeOnce` / `Spec.link`, whose error arms are a
  second transcription of the front end (see the header of Spec/C12.lean). The statements below are about the
  WORLD only: whatever path the code took, these hold. -/

/-- **C12_exe_result_invariant.** Whatever one uncached `exe()` returns as a string is one of exactly three
    things: (1) the documented clean-up of the readable link target (non-empty); (2) `argv[0]` of the readable,
    non-empty cmdline file, being an absolute path to an executable regular file; (3) `''` — and then the link
    was withheld (ENOENT/ESRCH) from a process that is not a known zombie, or its target cleans up to nothing.
    Never anything else, and never for a process whose `/proc/<pid>` is gone. -/
theorem C12_exe_result_invariant (w : World) (p : Bytes) (h : (exe cfg w ⟨none⟩).2 = .ok p) :
    w.dirExists = true ∧
    ((p ≠ [] ∧ ∃ t, w.exe = .target t ∧ linkClean w.fs t = some p)
     ∨ GuessedFromCmdline w p
     ∨ (p = [] ∧ ((∃ t, w.exe = .target t ∧ linkClean w.fs t = some [])
                  ∨ (∃ e, w.exe = .err e ∧ e ≠ .eacces ∧ Spec.zombie w = false)))) := by
  rw [cfg_good] at h
  rcases exe_ok_inv w p h with ⟨hne, hp⟩ | hg | ⟨hnil, hp⟩
  · obtain ⟨hd, hx⟩ := procExe_ok_inv w w.exe p hp
    refine ⟨hd, Or.inl ⟨hne, ?_⟩⟩
    rcases hx with hx | ⟨e, _, _, _, hx⟩
    · exact hx
    · exact absurd hx hne
  · exact ⟨hg.1, Or.inr (Or.inl hg)⟩
  · subst hnil
    obtain ⟨hd, hx⟩ := procExe_ok_inv w w.exe [] hp
    refine ⟨hd, Or.inr (Or.inr ⟨rfl, ?_⟩)⟩
    rcases hx with hx | ⟨e, he, hne, hz, _⟩
    · exact Or.inl hx
    · exact Or.inr ⟨e, he, hne, hz⟩

/-- **C12_exe_remembers_only_what_it_returned.** For EVERY configuration, world and object state: if the object
    remembers `v` after an `exe()` call, that call returned `v` — nothing is ever remembered on the side. -/
theorem C12_exe_remembers_only_what_it_returned (c : Cfg) (w : World) (st : St) (v : Bytes)
    (h : (exe c w st).1.exeCache = some v) : (exe c w st).2 = .ok v := by
  rcases exe_remembers_returned c w st v h with h' | h'
  · exact h'
  · obtain ⟨cache⟩ := st
    simp only at h'
    subst h'
    rfl

/-- **C12_exe_denied_never_remembered.** While `readlink(/proc/<pid>/exe)` answers EACCES, nothing is
    remembered — whatever the cmdline file says, guess or no guess — so a later call asks the kernel again. -/
theorem C12_exe_denied_never_remembered (w : World) (hl : w.exe = .err .eacces) :
    (exe cfg w ⟨none⟩).1 = ⟨none⟩ := by
  rw [cfg_good]
  cases hd : w.dirExists with
  | false =>
    have : procExe good w = .error .noSuchProcess := by
      simp [procExe, readlinkRaw, effLink, hd, wrap, isZombie_gone w hd, statThere_gone w hd]
    simp [exe, this]
  | true =>
    have : procExe good w = .error .accessDenied := link_eacces w w.exe hd hl
    simp [exe, this]

/-- **C12_zombie_never_empty_string.** A known zombie whose link cannot be read (any errno) never gets `''`
    from `cwd()` or `exe()`: the empty string is reserved for live processes. -/
theorem C12_zombie_never_empty_string (w : World) (hz : Spec.zombie w = true) :
    (∀ e, w.cwd = .err e → cwd cfg w ≠ .ok [])
    ∧ (∀ e, w.exe = .err e → (exe cfg w ⟨none⟩).2 ≠ .ok []) := by
  rw [cfg_good]
  constructor
  · intro e he hc
    obtain ⟨_, hx⟩ := procExe_ok_inv w w.cwd [] hc
    rcases hx with ⟨t, ht, _⟩ | ⟨e', _, _, hz', _⟩
    · rw [he] at ht; cases ht
    · rw [hz] at hz'; cases hz'
  · intro e he hc
    rcases exe_ok_inv w [] hc with ⟨hne, _⟩ | hg | ⟨_, hp⟩
    · exact hne rfl
    · exact guessable_ne_nil w [] hg.2.choose_spec.choose_spec.2.2.2 rfl
    · obtain ⟨_, hx⟩ := procExe_ok_inv w w.exe [] hp
      rcases hx with ⟨t, ht, _⟩ | ⟨e', _, _, hz', _⟩
      · rw [he] at ht; cases ht
      · rw [hz] at hz'; cases hz'

/-! ## a vanishing process: `/proc/<pid>` still listed, its `stat` already gone (psutil #2418) -/

/-- **C12_vanishing_process.** `/proc/<pid>` exists but `/proc/<pid>/stat` does not: ENOENT on the cmdline /
    environ file means the process is gone — NoSuchProcess, not a bare FileNotFoundError — and so do `name()`
    and `terminal()`, which read `stat` itself. Specification and code agree. (The test in `wrap_exceptions`
    must be on `…/<pid>/stat`, not on `…/<pid>`: with the directory test these would be FileNotFoundError;
    correspondence family `vanishing`.) -/
theorem C12_vanishing_process (w : World) (hd : w.dirExists = true) (hs : w.statExists = false) :
    (w.cmdline = .err .enoent →
        Spec.cmdline w = some (.error .noSuchProcess) ∧ cmdline cfg w = .error .noSuchProcess)
    ∧ (w.environ = .err .enoent →
        Spec.environ w = some (.error .noSuchProcess) ∧ environ cfg w = .error .noSuchProcess)
    ∧ name cfg w = .error .noSuchProcess ∧ terminal w = .error .noSuchProcess := by
  rw [cfg_good]
  refine ⟨?_, ?_, ?_, ?_⟩
  · intro hc
    have : Spec.cmdline w = some (.error .noSuchProcess) := by
      simp [Spec.cmdline, hd, hc, fileErr, Spec.zombie, hs]
    exact ⟨this, cmdline_sound w _ this⟩
  · intro hc
    have : Spec.environ w = some (.error .noSuchProcess) := by
      simp [Spec.environ, hd, hc, fileErr, Spec.zombie, hs]
    exact ⟨this, environ_sound w _ this⟩
  · exact name_sound w _ (by simp [Spec.name, hd, hs])
  · simp [terminal, procTty_eq, hd, hs]

/-- **C12_stat_unreadable.** `stat` is there but cannot be read: `name()` and `terminal()` raise AccessDenied,
    and the zombie test answers "no" (an empty cmdline is `[]` even if the process is in fact a zombie). -/
theorem C12_stat_unreadable (w : World) (hd : w.dirExists = true) (hs : w.statExists = true)
    (hr : w.statReadable = false) :
    name cfg w = .error .accessDenied ∧ terminal w = .error .accessDenied
    ∧ (w.cmdline = .data [] → cmdline cfg w = .ok []) := by
  refine ⟨?_, ?_, ?_⟩
  · rw [cfg_good]; exact name_sound w _ (by simp [Spec.name, hd, hs, hr])
  · simp [terminal, procTty_eq, hd, hs, hr]
  · intro hc
    rw [C12_cmdline_zombie w hd hc]
    simp [Spec.zombie, hr]

/-- **C12_link_withheld_unknown_liveness** (characterisation; the specification is silent here). The kernel
    withholds the link (ENOENT/ESRCH) while `/proc/<pid>` is listed but `stat` is missing or unreadable, so
    that the process cannot be told live from zombie from vanishing: the code answers `''`, as for a live
    process — NOT NoSuchProcess, although for `stat` missing the same situation on the cmdline file is reported
    as NoSuchProcess (`C12_vanishing_process`). -/
theorem C12_link_withheld_unknown_liveness (w : World) (e : Err) (hd : w.dirExists = true)
    (hs : w.statExists = false ∨ w.statReadable = false) (he : e ≠ .eacces) :
    (w.cwd = .err e → Spec.cwd w = none ∧ cwd cfg w = .ok [])
    ∧ (w.exe = .err e → Spec.link w w.exe = none ∧ procExe cfg w = .ok []) := by
  rw [cfg_good]
  have hz : Spec.zombie w = false := by rcases hs with h | h <;> simp [Spec.zombie, h]
  constructor
  · intro hl
    refine ⟨(link_none_iff w w.cwd).2 ⟨hd, Or.inr ⟨e, hl, he, hs⟩⟩, ?_⟩
    show wrap w (readlinkRaw good w w.cwd) = .ok []
    rw [hl]; exact link_withheld_not_zombie w e hd hz he
  · intro hl
    refine ⟨(link_none_iff w w.exe).2 ⟨hd, Or.inr ⟨e, hl, he, hs⟩⟩, ?_⟩
    show wrap w (readlinkRaw good w w.exe) = .ok []
    rw [hl]; exact link_withheld_not_zombie w e hd hz he

/-! ## where the specification is silent — exactly -/

/-- **C12_silent_region.** For a fresh object, the specification says nothing about a call exactly in these
    situations (`Silent`, Proofs/C12Round3.lean): cmdline()/environ(): ENOENT on the file while `/proc/<pid>`
    and its `stat` exist and the process is not a known zombie; cwd(): the ` (deleted)` path cannot be examined
    (stat denied), or the link is withheld while `stat` is missing/unreadable; name(): `stat` readable, name of
    ≥ 15 bytes, and cmdline() silent; exe(): as cwd() for its link, or the native answer is `''`/AccessDenied
    and cmdline() is silent; username()/terminal(): never. Everywhere else it speaks. -/
theorem C12_silent_region (w : World) (c : Call) : Spec.call [] w c = none ↔ Silent w c :=
  call_nil_none_iff w c

/-! ## every call, every history -/

/-- **C12_call_refines.** After ANY history of calls (any worlds, any order) on one Process
    object, each of the seven calls (cmdline, environ, exe, cwd, name, username, terminal) returns what the
    specification promises, wherever the specification speaks — and `C12_call_refines_outside_silent` below
    says exactly where that is. -/
theorem C12_call_refines (hist : List (World × Call)) (w : World) (c : Call) (o : Out)
    (h : Spec.call (exeWorldsOf hist) w c = some o) :
    (step cfg (runAll cfg St.init hist).1 w c).2 = o := by
  rw [runAll_state]
  cases c with
  | cmdline =>
    simp only [Spec.call, Option.map_eq_some_iff] at h
    obtain ⟨r, hr, ho⟩ := h
    rw [← ho, cfg_good]; simp [step, cmdline_sound w r hr]
  | environ =>
    simp only [Spec.call, Option.map_eq_some_iff] at h
    obtain ⟨r, hr, ho⟩ := h
    rw [← ho, cfg_good]; simp [step, environ_sound w r hr]
  | exe =>
    simp only [Spec.call, Option.map_eq_some_iff] at h
    obtain ⟨r, hr, ho⟩ := h
    rw [← ho]
    have := C12_exe_refines (exeWorldsOf hist) w r hr
    simp only [step]
    rw [← this]
  | cwd =>
    simp only [Spec.call, Option.map_eq_some_iff] at h
    obtain ⟨r, hr, ho⟩ := h
    rw [← ho, cfg_good]; simp [step, cwd_sound w r hr]
  | name =>
    simp only [Spec.call, Option.map_eq_some_iff] at h
    obtain ⟨r, hr, ho⟩ := h
    rw [← ho, cfg_good]; simp [step, name_sound w r hr]
  | username =>
    simp only [Spec.call, Option.map_eq_some_iff] at h
    obtain ⟨r, hr, ho⟩ := h
    rw [← ho]; simp [step, (C12_identity_spec w).1 r hr]
  | terminal =>
    simp only [Spec.call, Option.map_eq_some_iff] at h
    obtain ⟨r, hr, ho⟩ := h
    rw [← ho]; simp [step, (C12_identity_spec w).2 r hr]

/-- **C12_call_refines_outside_silent.** The same without an option type: if no earlier `exe()` call of the
    history was made in a world of the explicit silent region and the present call is not in it either
    (`Silent`, see `C12_silent_region`), the specification names an outcome and the code returns it. -/
theorem C12_call_refines_outside_silent (hist : List (World × Call)) (w : World) (c : Call)
    (hh : ∀ w' ∈ exeWorldsOf hist, ¬ Silent w' .exe) (hw : ¬ Silent w c) :
    ∃ o, Spec.call (exeWorldsOf hist) w c = some o
      ∧ (step cfg (runAll cfg St.init hist).1 w c).2 = o := by
  have hnil : ∃ o, Spec.call [] w c = some o := by
    cases h : Spec.call [] w c with
    | none => exact absurd ((C12_silent_region w c).1 h) hw
    | some o => exact ⟨o, rfl⟩
  have key : ∃ o, Spec.call (exeWorldsOf hist) w c = some o := by
    cases c with
    | exe =>
      obtain ⟨o, ho⟩ := hnil
      simp only [Spec.call, Spec.exeAfter, Spec.exeMemory, Option.map_map, Option.map_eq_some_iff] at ho ⊢
      obtain ⟨a, ha, _⟩ := ho
      cases hm : Spec.exeMemory (exeWorldsOf hist) with
      | none =>
        obtain ⟨w', hmem, hsil⟩ := exeMemory_none _ hm
        exact absurd ((exeOnce_none_iff w').1 hsil) (hh w' hmem)
      | some m =>
        cases m with
        | some v => exact ⟨_, ⟨.ok v, rfl, rfl⟩⟩
        | none => exact ⟨_, ⟨a.1, by simp [ha], rfl⟩⟩
    | cmdline => exact hnil
    | environ => exact hnil
    | cwd => exact hnil
    | name => exact hnil
    | username => exact hnil
    | terminal => exact hnil
  obtain ⟨o, ho⟩ := key
  exact ⟨o, ho, C12_call_refines hist w c o ho⟩

/-! ## the same calls inside `oneshot()` (and therefore via `as_dict()`) -/

/-- **C12_oneshot_same_answers.** Inside a `oneshot()` block every call answers exactly as it
    would outside for the world in which the block-cached sources (`stat`: name, tty_nr;
    `status`: real uid) still read as at their FIRST read in the block and everything else
    (cmdline, environ, the links, the file system, the zombie test) reads as it does NOW. In
    particular: an empty block changes no answer, and a warm block in an unchanged world
    changes no answer. (MODEL = MODEL: `stepIn` and `step ∘ Block.view` are both hand-written; no specification is
    involved. What ties it to the code: `cfg_block_cached_sources` — the translator's list of memoised / activated
    methods contains the two sources of `Block` and none of C12's methods — and the correspondence modes `warm` /
    `after_block`, whose warm-ups call environ, cmdline, cwd and the platform exe/cwd/environ/cmdline in an
    EARLIER world so that a newly memoised method shows as a stale answer: mutations A3/A3b.) -/
theorem C12_oneshot_same_answers (b : Block) (st : St) (w : World) (c : Call)
    (hd : w.dirExists = true) (hs : w.statExists = true) (hr : w.statReadable = true) :
    stepIn cfg b st w c = step cfg st (b.view w) c
    ∧ stepIn cfg Block.empty st w c = step cfg st w c
    ∧ (b.stat = none ∨ b.stat = some (w.comm, w.tty) → b.uid = none ∨ b.uid = some w.uid →
        stepIn cfg b st w c = step cfg st w c) := by
  have hview : stepIn cfg b st w c = step cfg st (b.view w) c := by
    cases c <;> try rfl
    · obtain ⟨bs, bu⟩ := b
      cases bs with
      | none => rfl
      | some p =>
        obtain ⟨n, t⟩ := p
        have hc : cmdline cfg (Block.view ⟨some (n, t), bu⟩ w) = cmdline cfg w := rfl
        show (st, Out.str (nameIn cfg ⟨some (n, t), bu⟩ w))
          = (st, Out.str (name cfg (Block.view ⟨some (n, t), bu⟩ w)))
        unfold nameIn name
        rw [hc]
        simp [procNameIn, procName_eq, Block.view, hd, hs, hr]
    · obtain ⟨bs, bu⟩ := b
      cases bu with
      | none => rfl
      | some u => simp [stepIn, step, usernameIn, username, procUidIn, procUid, Block.view, hd]
    · obtain ⟨bs, bu⟩ := b
      cases bs with
      | none => rfl
      | some p => obtain ⟨n, t⟩ := p; simp [stepIn, step, terminalIn, terminal, procTtyIn, procTty_eq, Block.view, hd, hs, hr]
  refine ⟨hview, ?_, ?_⟩
  · cases c <;> rfl
  · intro h1 h2
    rw [hview]
    have : b.view w = w := by
      obtain ⟨bs, bu⟩ := b
      cases w
      rcases h1 with h1 | h1 <;> rcases h2 with h2 | h2 <;> cases h1 <;> cases h2 <;> rfl
    rw [this]

/-! ## Non-vacuity, and the two defects re-found (why `cfg_good` matters) -/

def wEx : World :=
  { dirExists := true, zombie := false, comm := [], cmdline := .data [], environ := .data [],
    exe := .err .enoent, cwd := .err .enoent, fs := fun _ => .absent }

def wArgv : World := { wEx with cmdline := .data (renderArgv [[97], [], [98, 32, 99], []]) }

/-- `a`, ``, `b c`, `` comes back with its empty arguments -/
example : cmdline cfg wArgv = .ok [[97], [], [98, 32, 99], []] := by decide

/-- nginx worker, sshd session, postgres backend: title, NUL padding -/
def wSshd : World :=
  { wEx with cmdline := .data ([115,115,104,100,58,32,117,64,112,116,115,47,48,0,0,0,0]) }

/-- `sshd: u@pts/0` + 4 NULs → the title unsplit and three empty strings -/
example : cmdline cfg wSshd = .ok [[115,115,104,100,58,32,117,64,112,116,115,47,48], [], [], []] := by decide

/-- the same file derived from memory: `sshd: u@pts/0` written over the 17-byte argument area of
    `/usr/sbin/sshd NUL -D NUL` followed by 7 bytes of environment -/
example : kernelCmdline ((titleArea [115,115,104,100,58,32,117,64,112,116,115,47,48] 24).take 17)
      ((titleArea [115,115,104,100,58,32,117,64,112,116,115,47,48] 24).drop 17)
    = [115,115,104,100,58,32,117,64,112,116,115,47,48,0,0,0,0] := by decide

/-- `strcpy(argv[0], "w k")` over `/bin/py NUL s.py NUL`: title, then what is left of the old argv -/
example : cmdline cfg { wEx with cmdline := .data [119,32,107,0,110,47,112,121,0,115,46,112,121,0] }
    = .ok [[119,32,107], [110,47,112,121], [115,46,112,121]] := by decide

/-- `a NUL bc NUL` cut after three bytes (one-page kernels): ONE string with the NUL inside -/
example : cmdline cfg { wEx with cmdline := .data ((renderArgv [[97], [98, 99]]).take 3) }
    = .ok [[97, 0, 98]] := by decide

/-- `A=1 NUL B=x LF y NUL C=cut`: the newline stays in the value, the unterminated entry is dropped -/
example : environ cfg { wEx with environ := .data [65,61,49,0,66,61,120,10,121,0,67,61,99,117,116] }
    = .ok [([65], [49]), ([66], [120, 10, 121])] := by decide

def wEnv : World :=
  { wEx with
    environ := .data ([65, 61, 49, 0, 66, 0, 61, 67, 61, 50, 0, 65, 61, 51, 0, 0, 71, 61, 49, 0]) }

/-- `A=1`, `B`, `=C=2`, `A=3`, empty, garbage → {A: 3} -/
example : environ cfg wEnv = .ok [([65], [51])] := by decide

def wKeyring : World :=
  { wEx with
    comm := [103,110,111,109,101,45,107,101,121,114,105,110,103,45,100]
    cmdline := .data ([47,98,47,103,110,111,109,101,45,107,101,121,114,105,110,103,45,100,97,101,109,111,110,0]) }

/-- `gnome-keyring-d` → `gnome-keyring-daemon` -/
example : name cfg wKeyring
    = .ok [103,110,111,109,101,45,107,101,121,114,105,110,103,45,100,97,101,109,111,110] := by decide

def wGuess : World :=
  { wEx with
    cmdline := .data ([47, 97, 0])
    fs := fun p => if p = [47, 97] then .file true else .absent }

def wLater : World := { wEx with exe := .target ([47, 113]) }

/-- exe withheld, `cmdline()[0]` = `/a` executable → `/a`, remembered although the link says `/q` later -/
example : (exe cfg wLater (runExe cfg St.init [wGuess])).2 = .ok [47, 97]
    ∧ Spec.exeAfter [wGuess] wLater = some (.ok [47, 97]) := by
  decide

/-! ### round 3: vanishing process, unreadable stat, the silent region, padded titles -/

/-- `/proc/<pid>` listed, `stat` gone, ENOENT on cmdline: NoSuchProcess by specification and by the code -/
def wVanishing : World := { wEx with statExists := false, cmdline := .err .enoent }

example : Spec.cmdline wVanishing = some (.error .noSuchProcess)
    ∧ cmdline cfg wVanishing = .error .noSuchProcess
    ∧ name cfg wVanishing = .error .noSuchProcess := by decide

/-- the same ENOENT while `stat` is there: the specification is silent, the code re-raises FileNotFoundError -/
example : Spec.cmdline { wEx with cmdline := .err .enoent } = none
    ∧ Silent { wEx with cmdline := .err .enoent } .cmdline
    ∧ cmdline cfg { wEx with cmdline := .err .enoent } = .error .fileNotFound := by
  refine ⟨by decide, ?_, by decide⟩
  exact (C12_silent_region _ _).1 (by decide)

/-- …and outside the silent region the specification speaks (`wEx`, `wGuess`: every call) -/
example : ∀ c : Call, ¬ Silent wGuess c := by
  intro c h
  have := (C12_silent_region wGuess c).2 h
  cases c <;> revert this <;> decide

/-- the three disjuncts of `C12_exe_result_invariant` are inhabited: link target, guess, `''` -/
example : (exe cfg wLater ⟨none⟩).2 = .ok [47, 113] ∧ (exe cfg wGuess ⟨none⟩).2 = .ok [47, 97]
    ∧ (exe cfg wEx ⟨none⟩).2 = .ok [] := by decide

/-- a zombie with an unreadable `stat` is not KNOWN to be one: an empty cmdline is `[]` -/
example : cmdline cfg { wEx with zombie := true, statReadable := false } = .ok []
    ∧ cmdline cfg { wEx with zombie := true } = .error .zombieProcess := by decide

/-- the statement's second cmdline rule read as "a rewritten title is ALWAYS split on spaces", also when the
    process padded the rest of its argument area with NULs (nginx, sshd, postgres) -/
def C12_cmdline_title_split_Full : Prop :=
  ∀ (w : World) (t : Bytes) (k : Nat), w.dirExists = true → w.zombie = false → 0 ∉ t → t ≠ [] →
    w.cmdline = .data (t ++ List.replicate (k + 1) 0) → cmdline cfg w = .ok (fields 32 t)

/-- **C12_cmdline_padded_title_not_split** (characterisation, NOT a finding — integrator decision, round 3). The
    reading above is false of the code: `a b NUL NUL` comes back as `["a b", ""]`, not `["a", "b"]`. Those bytes
    ARE the kernel layout of the argument vector `["a b", ""]` (`C12_padded_title_is_an_argv`), so the statement's
    first rule ("NUL-separated with empty arguments preserved") applies and the two rules cannot both be honoured;
    the specification follows the first (see the header of Spec/C12.lean). -/
theorem C12_cmdline_padded_title_not_split :
    ¬ C12_cmdline_title_split_Full
    ∧ cmdline cfg { wEx with cmdline := .data [97, 32, 98, 0, 0] } = .ok [[97, 32, 98], []]
    ∧ renderArgv [[97, 32, 98], []] = [97, 32, 98, 0, 0] := by
  refine ⟨fun h => ?_, by decide, by decide⟩
  have := h { wEx with cmdline := .data [97, 32, 98, 0, 0] } [97, 32, 98] 1 rfl rfl (by decide) (by decide) rfl
  revert this
  decide

/-- the process whose executable is `ééééééééé` (18 bytes): the kernel keeps 15 bytes, i.e.
    7 `é` and half a character -/
def wMultiByte : World :=
  { wEx with
    comm := [195,169,195,169,195,169,195,169,195,169,195,169,195,169,195]
    cmdline := .data ([47,195,169,195,169,195,169,195,169,195,169,195,169,195,169,195,169,195,169,0]) }

/-- **L20 re-found.** With the length and prefix tests of `name()` made on decoded strings
    (the code as found), the rule is false: `name()` returns the truncated 15 bytes although
    the basename of `cmdline()[0]` starts with them; the specification (and the repaired
    code, by `C12_name_rule`) gives the full name. -/
theorem C12_name_rule_needs_bytes :
    name { good with nameTestOnBytes := false } wMultiByte = .ok wMultiByte.comm
    ∧ Spec.name wMultiByte = some (.ok [195,169,195,169,195,169,195,169,195,169,195,169,195,169,195,169,195,169])
    ∧ name good wMultiByte = .ok [195,169,195,169,195,169,195,169,195,169,195,169,195,169,195,169,195,169] := by
  decide

def wCR : World :=
  { wEx with
    cmdline := .data ([112, 0, 97, 13, 98, 0])
    environ := .data ([88, 61, 49, 13, 10, 50, 0]) }

/-- **Carriage returns re-found.** With `open_text` in universal-newlines mode (the code as
    found), the argument `a\rb` comes back as `a\nb` and the value `1\r\n2` as `1\n2`; the
    specification (and the repaired code) returns the bytes the kernel exposes. -/
theorem C12_text_needs_raw_newlines :
    let w := wCR
    cmdline { good with textRaw := false } w = .ok [[112], [97, 10, 98]]
    ∧ Spec.cmdline w = some (.ok [[112], [97, 13, 98]])
    ∧ cmdline good w = .ok [[112], [97, 13, 98]]
    ∧ environ { good with textRaw := false } w = .ok [([88], [49, 10, 50])]
    ∧ Spec.environ w = some (.ok [([88], [49, 13, 10, 50])]) := by
  decide

/-- **C12_newline_defect_region.** The universal-newlines defect is confined to files that
    contain a carriage return: without one, the code as found reads the same bytes. -/
theorem C12_newline_defect_region (raw : Bytes) (h : 13 ∉ raw) :
    textRead { good with textRaw := false } raw = textRead good raw := by
  simp [textRead, good, nlTranslate_noCR raw h]

/-- **C12_name_defect_region.** The code-point defect of `name()` is confined to names with
    non-ASCII bytes: on ASCII names and basenames both tests agree with the byte tests. -/
theorem C12_name_defect_region (n ext : Bytes) (hn : Ascii n) (he : Ascii ext) :
    nameLen { good with nameTestOnBytes := false } n = nameLen good n
    ∧ namePrefix { good with nameTestOnBytes := false } n ext = namePrefix good n ext := by
  simp [nameLen, namePrefix, good, chars_ascii n hn, chars_ascii ext he,
    isPrefixOf_map_singleton, startsWith]

/-! ### seeded round 5: `os.stat` of the ` (deleted)` name failing with another errno than ENOENT / EACCES -/

/-- **cfg_exists_strict.** The `except` clauses of `path_exists_strict` around `os.stat(path)`, read as Python
    reads them over `OSError` and its subclasses (first clause naming a class of the exception): every failure
    is answered `False` except a PermissionError, which no clause answers; no failure is answered `True`; and
    `readlink()` decides staleness of a ` (deleted)` suffix by `not path_exists_strict(path)`. (The first two
    are part of `cfg_good`, stated separately so that a narrowed clause points here.) -/
theorem cfg_exists_strict :
    osHandledWith Gen.C12.existsStrictClauses "false" = OsCls.all.filter (· != .permission)
    ∧ osHandledWith Gen.C12.existsStrictClauses "true" = []
    ∧ Gen.C12.readlinkStaleTest = "path_exists_strict" := by decide

/-- **C12_exists_strict_answer.** SPEC. For every answer of the file system — any errno, any `OSError` class —
    `path_exists_strict` says what the specification's `named` says: True iff `os.stat` succeeds, False iff it
    fails otherwise than by a refusal, and only a PermissionError leaves it. -/
theorem C12_exists_strict_answer (fs : Bytes → FsEnt) (p : Bytes) :
    (named (fs p) = some true → existsStrict cfg fs p = .yes)
    ∧ (named (fs p) = some false → existsStrict cfg fs p = .no)
    ∧ (named (fs p) = none → ∃ en, existsStrict cfg fs p = .raises .permission en) := by
  rw [cfg_good]
  unfold existsStrict
  cases h : fs p with
  | unstatable en cls => cases cls <;> simp [named, statFailure]
  | _ => simp [named, statFailure]

/-- **C12_stat_errno_never_matters.** For EVERY world, object state and call — and every history of calls on
    one object, and every call inside a `oneshot()` block —: the errno (and the `OSError` class) with which
    `os.stat` of any path outside procfs fails makes no difference. The answer is the one of the world in which
    such a failure is plain ENOENT (EACCES for a PermissionError). No hypothesis: ENOTDIR, ELOOP, ENAMETOOLONG,
    ESTALE, EIO, … on the ` (deleted)` name of exe / cwd or on `cmdline()[0]` never leak out as an `OSError`
    and never change what is returned or remembered. The specification does not look at the errno either. -/
theorem C12_stat_errno_never_matters (w : World) (st : St) (c : Call) :
    step cfg st w.forgetErrno c = step cfg st w c
    ∧ (∀ b, stepIn cfg b st w.forgetErrno c = stepIn cfg b st w c)
    ∧ (∀ h : List (World × Call),
        runAll cfg st (h.map fun wc => (wc.1.forgetErrno, wc.2)) = runAll cfg st h)
    ∧ (∀ ws, Spec.call (ws.map World.forgetErrno) w.forgetErrno c = Spec.call ws w c) := by
  rw [cfg_good]
  exact ⟨step_forgetErrno w st c, fun b => stepIn_forgetErrno b w st c, runAll_forgetErrno st,
    fun ws => specCall_forgetErrno ws w c⟩

/-- **C12_unstatable_deleted_is_stale.** SPEC, stated on the world. The link says `p (deleted)` (+ NUL garbage)
    and `os.stat("p (deleted)")` fails with ANY errno `en`, raised as ANY class but PermissionError: nothing of
    that name exists, the suffix is the kernel's remark — `cwd()` returns `p`, and `exe()` returns and remembers
    `p` (non-empty), for a zombie as well as for a live process. -/
theorem C12_unstatable_deleted_is_stale (w : World) (p tail : Bytes) (en : Nat) (cls : OsCls)
    (hd : w.dirExists = true) (hp : 0 ∉ p) (ht : tail = [] ∨ tail.head? = some 0)
    (hc : cls ≠ .permission) (hfs : w.fs (p ++ deleted) = .unstatable en cls) :
    (w.cwd = .target (p ++ deleted ++ tail) → cwd cfg w = .ok p ∧ Spec.cwd w = some (.ok p))
    ∧ (w.exe = .target (p ++ deleted ++ tail) → p ≠ [] → exe cfg w ⟨none⟩ = (⟨some p⟩, .ok p)) := by
  have hclean := (C12_link_cleanup w.fs p tail hp ht).1 (Or.inr ⟨en, cls, hc, hfs⟩)
  have hpd : 0 ∉ p ++ deleted := by
    simp only [List.mem_append, not_or]; exact ⟨hp, by decide⟩
  have htw := takeWhile_ne_of_tail 0 (p ++ deleted) tail hpd ht
  constructor
  · intro hl
    constructor
    · simp only [cwd, readlinkRaw, effLink, hd, hl, hclean, wrap, if_true]
    · simp only [Spec.cwd, Spec.link, hd, hl, linkClean, htw, stripDeleted_append, hfs, named, hc, if_false,
        Bool.not_true, Bool.false_eq_true, Option.map_some]
  · intro hl hne
    have hpe : procExe cfg w = .ok p := by
      simp only [procExe, readlinkRaw, effLink, hd, hl, hclean, wrap, if_true]
    have : p.isEmpty = false := by cases p <;> simp_all
    simp [exe, hpe, this]

def wNotDir : World :=
  { wEx with
    -- cwd -> "/d/f (deleted)"; `/d` is a regular file now: stat of the suffixed name says ENOTDIR
    cwd := .target ([47, 100, 47, 102] ++ deleted)
    fs := fun p => if p = [47, 100, 47, 102] ++ deleted then .unstatable 20 .notADirectory else .absent }

/-- `path_exists_strict` narrowed to `except FileNotFoundError: return False` (what a "tidied" helper looks like) -/
def narrowExists : Cfg := { good with existsFalseOn := [.fileNotFound] }

/-- **C12_exists_strict_needs_catch_all.** Proved counterexample for the narrowed helper: with only
    FileNotFoundError answered False, `cwd()` of a link `/d/f (deleted)` whose parent became a file (ENOTDIR) leaks
    a bare OSError, where the specification — and the code as it is — return `/d/f`. -/
theorem C12_exists_strict_needs_catch_all :
    cwd narrowExists wNotDir = .error (.osError 20)
    ∧ Spec.cwd wNotDir = some (.ok [47, 100, 47, 102])
    ∧ cwd cfg wNotDir = .ok [47, 100, 47, 102] := by decide

/-- non-vacuity: ELOOP (plain OSError) on the exe link's name, NUL garbage behind it: stripped and remembered -/
example :
    let w : World := { wEx with
      exe := .target ([47, 108, 47, 103] ++ deleted ++ [0, 120])
      fs := fun p => if p = [47, 108, 47, 103] ++ deleted then .unstatable 40 .osError else .absent }
    exe cfg w ⟨none⟩ = (⟨some [47, 108, 47, 103]⟩, .ok [47, 108, 47, 103])
    ∧ Spec.call [] w .exe = some (.str (.ok [47, 108, 47, 103])) := by decide

end Psutil.C12
