/-
  Props/C17.lean — property theorems for C17 (the C extension decodes OS records faithfully and
  its bounds logic is safe).  Level: *partial* — these are theorems about the Lean MODEL of the
  decoders and of the bounds arithmetic (Model/C17.lean); the compiled C is tied to the model by
  the translator facts below (`*_good` obligations) and by the sanitizer-instrumented
  differential correspondence, which is testing.

  `ucfg … icfg` are built from Generated/C17.lean, which the translator rewrites from /repo's
  source on every run; each `*_good` theorem is the proof obligation that breaks when the
  corresponding guard / bound / table entry changes in the source.
-/
import PsutilModel.Proofs.C17Users
import PsutilModel.Proofs.C17Parts
import PsutilModel.Proofs.C17Ext
import PsutilModel.Proofs.C17Mnt
import PsutilModel.Proofs.C17Mac
import PsutilModel.Proofs.C17Py
import PsutilModel.Proofs.C17Shape
import PsutilModel.Proofs.C17R3
import PsutilModel.Proofs.C17Thr
import PsutilModel.Model.C17Gen
namespace Psutil.C17
open Spec

/-! ## users() -/

/-- translator obligation: users.c decodes all three strings size-bounded, filters USER_PROCESS,
    compares ut_host with ":0" / ":0.0", builds the tuple in the documented order, and
    `_pslinux.users()` passes it on with `tty or None` -/
theorem ucfg_good : ucfg.Good := by
  refine ⟨?_, ?_, ?_, ?_, ?_, ?_, ?_, ?_, ?_⟩ <;> decide

/-- **C17_users_fields_cut** — for every list of login records (any field contents, any record
    types, any integers), any trailing partial record and any memory behind glibc's buffer,
    `users()` on the file returns exactly the USER_PROCESS records with user, terminal and host
    each cut at the first NUL *or at the field's width*, ':0'/':0.0' shown as localhost, the
    start time and the PID. -/
theorem C17_users_fields_cut (c : UCfg) (hg : c.Good) (rs : List Utmp) (h : ∀ r ∈ rs, r.WF)
    (trail beyond : Bytes) (ht : trail.length < 384) :
    C17.users c (renderAll rs ++ trail) beyond = Spec.users rs := by
  unfold C17.users usersC Spec.users
  rw [records_render rs h trail ht]
  induction rs with
  | nil => rfl
  | cons r rs ih =>
    have hr := h r (by simp)
    have ih' := ih (fun x hx => h x (by simp [hx]))
    simp only [List.map_cons, List.filterMap_cons, decodeRec_good c hg r hr beyond, List.filter_cons]
    by_cases ht7 : r.typ = 7
    · simp only [ht7, if_true, List.map_cons, ih', pyRow_good c hg, BEq.rfl, Spec.row]
      congr 2
      simp [falsy]
    · have : (r.typ == 7) = false := by simp [ht7]
      simp only [ht7, if_false, this, ih']
      rfl

/-- the same for the configuration extracted from the current source -/
theorem C17_users_fields_cut_current (rs : List Utmp) (h : ∀ r ∈ rs, r.WF)
    (trail beyond : Bytes) (ht : trail.length < 384) :
    C17.users ucfg (renderAll rs ++ trail) beyond = Spec.users rs :=
  C17_users_fields_cut ucfg ucfg_good rs h trail beyond ht

/-- **C17_users_read_in_record** — every byte `users()` reads through a string pointer lies
    inside the 384-byte record it belongs to, whatever the record contains. -/
theorem C17_users_read_in_record (c : UCfg) (hg : c.Good) (rs : List Utmp) (h : ∀ r ∈ rs, r.WF)
    (trail beyond : Bytes) (ht : trail.length < 384) :
    ∀ s ∈ usersReads c (renderAll rs ++ trail) beyond, s ≤ 384 := by
  unfold usersReads
  rw [records_render rs h trail ht]
  intro s hs
  simp only [List.mem_flatMap, List.mem_map] at hs
  obtain ⟨m, ⟨r, hr, rfl⟩, hs⟩ := hs
  exact recReads_good c hg r (h r hr) beyond s hs

theorem C17_users_read_in_record_current (rs : List Utmp) (h : ∀ r ∈ rs, r.WF)
    (trail beyond : Bytes) (ht : trail.length < 384) :
    ∀ s ∈ usersReads ucfg (renderAll rs ++ trail) beyond, s ≤ 384 :=
  C17_users_read_in_record ucfg ucfg_good rs h trail beyond ht

/-- the configuration of the code before the fix: `PyUnicode_DecodeFSDefault(ut->ut_xxx)` -/
def ucfgUnbounded : UCfg := { ucfg with userBounded := false, lineBounded := false, hostBounded := false }

/-- a login record whose three strings fill their fields completely (no terminator) -/
def fullWidth : Utmp :=
  { typ := 7, pid := 1234, line := List.replicate 32 76, id := List.replicate 4 73,
    user := List.replicate 32 85, host := List.replicate 256 72, exit := List.replicate 4 84,
    session := List.replicate 4 84, sec := 1414812756, usec := List.replicate 4 84,
    addr := List.replicate 16 84, unused := List.replicate 20 84 }

set_option maxRecDepth 100000 in
theorem fullWidth_wf : fullWidth.WF := by
  refine ⟨?_, ?_, ?_, ?_, ?_, ?_, ?_, ?_, ?_, ?_, ?_, ?_⟩ <;> decide

set_option maxRecDepth 100000 in
/-- hypotheses of the two theorems are satisfiable by a non-trivial file -/
example : (∀ r ∈ [fullWidth, { fullWidth with typ := 8 }], r.WF) ∧ ([1, 2, 3] : Bytes).length < 384 := by
  refine ⟨?_, by decide⟩
  intro r hr
  simp only [List.mem_cons, List.not_mem_nil, or_false] at hr
  rcases hr with rfl | rfl
  · exact fullWidth_wf
  · refine ⟨?_, ?_, ?_, ?_, ?_, ?_, ?_, ?_, ?_, ?_, ?_, ?_⟩ <;> decide

set_option maxRecDepth 100000 in
/-- **counterexample (lead L14)** — with the unbounded decode the full-width record makes
    `users()` report a 341-character name (32 expected): the read runs through ut_host, the rest
    of the record and one byte of the memory behind it. -/
theorem C17_users_fields_cut_unbounded_counterexample :
    C17.users ucfgUnbounded (renderAll [fullWidth]) [83, 0] ≠ Spec.users [fullWidth]
    ∧ ((C17.users ucfgUnbounded (renderAll [fullWidth]) [83, 0]).map
        (fun row => match row.head? with | some (.str b) => b.length | _ => 0)) = [341] := by
  decide

set_option maxRecDepth 100000 in
/-- … and the reads leave the record: the `ut_user` read stops at index 386 > 384. -/
theorem C17_users_read_in_record_unbounded_counterexample :
    ¬ (∀ s ∈ usersReads ucfgUnbounded (renderAll [fullWidth]) [83, 0], s ≤ 384) := by
  decide


/-! ## disk_partitions() -/

theorem pcfg_good : pcfg.Good := by
  refine ⟨?_, ?_, ?_, ?_, ?_, ?_, ?_⟩ <;> decide

/-- **C17_filesystems_parse** — the `fstypes` set built from /proc/filesystems (every list of
    registered types, `nodev` or not) is exactly the disk-backed types: the non-`nodev` lines
    plus zfs. -/
theorem C17_filesystems_parse (c : PCfg) (hg : c.Good) (fs : List FsEntry) (h : ∀ e ∈ fs, e.WF) :
    fsLines c [] (fs.map renderFsLine) = some (diskFs fs) := by
  simpa using fsLines_good c hg fs h []

/-- **C17_partitions_filter** — for every list of mount entries, `disk_partitions(all)` returns
    each entry's device (`none` → '', `/dev/root`/`rootfs` resolved), mount point, type and
    options, in order; with `all=False` exactly those with a device and a disk-backed type, with
    `all=True` every entry. -/
theorem C17_partitions_filter (c : PCfg) (hg : c.Good) (all : Bool) (ft disk : List Bytes)
    (hft : ∀ x, x ∈ ft ↔ x ∈ disk) (root : Option Bytes) (ms : List Mnt) :
    C17.partitions c all ft root ms = Spec.partitions all disk root ms := by
  unfold C17.partitions Spec.partitions
  have hv : ms.map (viewMnt c root) = ms.map (shown root) := by
    apply List.map_congr_left
    intro m _
    simp [viewMnt, shown, viewDev_good c hg]
  rw [hv]
  cases all with
  | true =>
    simp only [if_true, Bool.true_or]
    exact (List.filter_eq_self.2 (fun _ _ => rfl)).symm
  | false =>
    simp only [Bool.false_eq_true, if_false, Bool.false_or]
    apply List.filter_congr
    intro m _
    exact keepMnt_good c hg ft disk hft m

theorem C17_partitions_filter_current (all : Bool) (fs : List FsEntry) (root : Option Bytes) (ms : List Mnt) :
    C17.partitions pcfg all (diskFs fs) root ms = Spec.partitions all (diskFs fs) root ms :=
  C17_partitions_filter pcfg pcfg_good all _ _ (fun _ => Iff.rfl) root ms

/-- membership form of the promise: with `all=False` a row is returned iff it is the view of a
    mount entry that has a device and a disk-backed type; with `all=True` every entry is there -/
theorem C17_partitions_kept_iff (disk : List Bytes) (root : Option Bytes) (ms : List Mnt) (row : Mnt) :
    row ∈ Spec.partitions false disk root ms ↔ (∃ e ∈ ms, row = shown root e) ∧ row.dev ≠ [] ∧ row.typ ∈ disk := by
  simp only [Spec.partitions, Bool.false_or, List.mem_filter, List.mem_map, decide_eq_true_eq]
  unfold Kept
  constructor
  · rintro ⟨⟨e, he, rfl⟩, hk⟩; exact ⟨⟨e, he, rfl⟩, hk⟩
  · rintro ⟨⟨e, he, rfl⟩, hk⟩; exact ⟨⟨e, he, rfl⟩, hk⟩

theorem C17_partitions_all (disk : List Bytes) (root : Option Bytes) (ms : List Mnt) :
    Spec.partitions true disk root ms = ms.map (shown root) := by
  simp [Spec.partitions]

example : (∀ e ∈ [FsEntry.mk true [115, 121, 115, 102, 115], ⟨false, [101, 120, 116, 52]⟩, ⟨true, zfs⟩], e.WF) := by
  intro e he
  simp only [List.mem_cons, List.not_mem_nil, or_false] at he
  rcases he with rfl | rfl | rfl <;> exact ⟨by decide, by decide, by decide⟩

/-- the code as it is: a *disk-backed* type whose name begins with "nodev" makes
    `line.split("\t")[1]` raise IndexError (no such type exists; stated, not claimed away) -/
theorem C17_filesystems_nodev_named_type_IndexError :
    fsLines pcfg [] [renderFsLine ⟨false, [110, 111, 100, 101, 118, 102, 115]⟩] = none := by decide

/-! ## PSUTIL_STRNCPY -/

theorem scfg_good : scfg.Good := by
  refine ⟨?_, ?_, ?_, ?_⟩ <;> decide

/-- **C17_strncpy_terminated** — for every source string and every array size `n > 0`: no store
    at an index ≥ n, `dst[n-1] = 0`, and `dst` holds the source cut to `n-1` bytes. -/
theorem C17_strncpy_terminated (c : SCfg) (hg : c.Good) (src dst : Bytes) (n : Nat) (hn : 0 < n)
    (hd : dst.length = n) :
    (∀ w ∈ strncpyWrites c src n, w.1 < n)
    ∧ (applyWrites dst (strncpyWrites c src n))[n - 1]? = some 0
    ∧ cut (applyWrites dst (strncpyWrites c src n)) = boundedCopy src n := by
  have hlen := strncpyBytes_length src (n - 1)
  have hrun := applyWrites_run (strncpyBytes src (n - 1)) dst 0 (by rw [hlen]; omega)
  have hw : strncpyWrites c src n =
      ((strncpyBytes src (n - 1)).zipIdx 0).map (fun p => (p.2, p.1)) ++ [(n - 1, 0)] := by
    simp [strncpyWrites, hg.copy, hg.term, hg.has]
  have hres : applyWrites dst (strncpyWrites c src n) = strncpyBytes src (n - 1) ++ [0] := by
    rw [hw, applyWrites_append, hrun]
    simp only [List.take_zero, List.nil_append, Nat.zero_add, hlen]
    obtain ⟨z, hz⟩ : ∃ z, dst.drop (n - 1) = [z] := by
      have : (dst.drop (n - 1)).length = 1 := by simp; omega
      match hdd : dst.drop (n - 1), this with
      | [z], _ => exact ⟨z, rfl⟩
    rw [hz]
    simp only [applyWrites, List.foldl_cons, List.foldl_nil]
    rw [List.set_eq_take_append_cons_drop]
    have : n - 1 < (strncpyBytes src (n - 1) ++ [z]).length := by simp [hlen]
    rw [if_pos this, List.take_left' hlen]
    have : List.drop (n - 1 + 1) (strncpyBytes src (n - 1) ++ [z]) = [] := by
      apply List.drop_eq_nil_of_le; simp [hlen]
    rw [this]
  refine ⟨?_, ?_, ?_⟩
  · intro w hwm
    rw [hw] at hwm
    simp only [List.mem_append, List.mem_map, List.mem_cons, List.not_mem_nil, or_false] at hwm
    rcases hwm with ⟨⟨b, i⟩, hm, rfl⟩ | rfl
    · have := List.mem_zipIdx hm
      simp only at this ⊢
      omega
    · simp only; omega
  · rw [hres, List.getElem?_append_right (by rw [hlen]; exact Nat.le_refl _), hlen]
    simp
  · rw [hres]
    unfold boundedCopy strncpyBytes
    have hs : ∀ x ∈ (List.takeWhile (fun c => c != 0) src).take (n - 1), x ≠ 0 :=
      fun x hx => cut_nonzero src x (List.mem_of_mem_take hx)
    unfold cut at *
    rw [List.append_assoc]
    apply takeWhile_append_zero _ _ hs
    intro _
    cases hrep : List.replicate (n - 1 - ((List.takeWhile (fun c => c != 0) src).take (n - 1)).length) 0 with
    | nil => rfl
    | cons a t =>
      have : a ∈ List.replicate (n - 1 - ((List.takeWhile (fun c => c != 0) src).take (n - 1)).length) 0 := by
        rw [hrep]; simp
      have := (List.mem_replicate.1 this).2
      simp [this]

theorem C17_strncpy_terminated_current (src dst : Bytes) (n : Nat) (hn : 0 < n) (hd : dst.length = n) :
    (∀ w ∈ strncpyWrites scfg src n, w.1 < n)
    ∧ (applyWrites dst (strncpyWrites scfg src n))[n - 1]? = some 0
    ∧ cut (applyWrites dst (strncpyWrites scfg src n)) = boundedCopy src n :=
  C17_strncpy_terminated scfg scfg_good src dst n hn hd

/-- a macro that stores the terminator at `dst[n]` writes one past the array -/
theorem C17_strncpy_off_by_one_counterexample :
    ¬ (∀ w ∈ strncpyWrites { scfg with termMinus := 0 } [97, 98] 16, w.1 < 16) := by decide

/-! ## MAC address formatting -/

theorem mcfg_good : mcfg.Good := by
  refine ⟨?_, ?_, ?_, ?_, ?_⟩ <;> decide

/-- **C17_mac_fits** — for every hardware address of length ≤ 255 (`sll_halen` is an `unsigned
    char`), every store of the formatting loop and the final `*--ptr = 0` lie inside
    `char buf[NI_MAXHOST]`; for a non-empty address the final `--ptr` does not go below `buf`. -/
theorem C17_mac_fits (c : MCfg) (hg : c.Good) (data : Bytes) (hlen : data.length ≤ 255) :
    (∀ w ∈ macWrites c data, w.1 < c.bufSize) ∧ (data ≠ [] → 1 ≤ c.step * data.length) := by
  constructor
  · intro w hw
    rw [hg.buf]
    simp only [macWrites, List.mem_append, List.mem_flatMap, List.mem_map, List.mem_cons,
      List.not_mem_nil, or_false, hg.step] at hw
    rcases hw with ⟨⟨b, i⟩, hbi, ⟨ch, j⟩, hj, rfl⟩ | rfl
    · have h1 := List.mem_zipIdx hbi
      have h2 := List.mem_zipIdx hj
      have hp : (macPiece c b ++ [0]).length = 4 := by
        simp [macPiece, hg.masked, hex2]
      simp only at h1 h2 ⊢
      omega
    · simp only; omega
  · intro hne
    rw [hg.step]
    have : 0 < data.length := List.length_pos_iff.mpr hne
    omega

theorem C17_mac_fits_current (data : Bytes) (hlen : data.length ≤ 255) :
    (∀ w ∈ macWrites mcfg data, w.1 < mcfg.bufSize) ∧ (data ≠ [] → 1 ≤ mcfg.step * data.length) :=
  C17_mac_fits mcfg mcfg_good data hlen

/-- **C17_mac_text** (round 2) — the formatting loop AS TRANSCRIBED (the `sprintf(ptr, "%02x:", data[n] & 0xff)`
    stores, `ptr += 3`, the final `*--ptr = 0`, over whatever `buf` held before) yields, for every
    non-empty hardware address of at most 255 bytes, exactly the kernel's `xx:xx:…:xx`: two
    lower-case hex digits per byte, colon separated, `3·n − 1` characters (17 for 6 bytes). -/
theorem C17_mac_text (c : MCfg) (hg : c.Good) (data : Bytes) (hne : data ≠ []) (hlen : data.length ≤ 255)
    (hb : ∀ b ∈ data, b < 256) :
    macFormat c data = some (macText data) ∧ (macText data).length = 3 * data.length - 1
    ∧ (data.length = 6 → (macText data).length = 17) := by
  refine ⟨macFormat_text c hg data hne (by omega) hb, macText_length data hne, ?_⟩
  intro h6
  rw [macText_length data hne, h6]

theorem C17_mac_text_current (data : Bytes) (hne : data ≠ []) (hlen : data.length ≤ 255) (hb : ∀ b ∈ data, b < 256) :
    macFormat mcfg data = some (macText data) := (C17_mac_text mcfg mcfg_good data hne hlen hb).1

/-- every character of the text is a lower-case hex digit or the colon -/
theorem C17_mac_text_alphabet (data : Bytes) (hb : ∀ b ∈ data, b < 256) :
    ∀ x ∈ macText data, x = 58 ∨ (48 ≤ x ∧ x ≤ 57) ∨ (97 ≤ x ∧ x ≤ 102) := by
  have hx : ∀ n, n < 16 → (48 ≤ hexLower n ∧ hexLower n ≤ 57) ∨ (97 ≤ hexLower n ∧ hexLower n ≤ 102) := by
    intro n hn; unfold hexLower; split <;> omega
  induction data with
  | nil => simp [macText]
  | cons b r ih =>
    have hb' := hb b (by simp)
    cases r with
    | nil =>
      intro x hxm
      simp only [macText, List.mem_cons, List.not_mem_nil, or_false] at hxm
      rcases hxm with rfl | rfl
      · exact Or.inr (hx _ (by omega))
      · exact Or.inr (hx _ (by omega))
    | cons b2 r2 =>
      intro x hxm
      simp only [macText, List.cons_append, List.nil_append, List.mem_cons] at hxm
      rcases hxm with rfl | rfl | rfl | hxm
      · exact Or.inr (hx _ (by omega))
      · exact Or.inr (hx _ (by omega))
      · exact Or.inl rfl
      · exact ih (fun y hy => hb y (by simp [hy])) x (by simpa [macText] using hxm)

/-- non-vacuity, and the sign-extension counterexample: without the `& 0xff` a byte ≥ 0x80 prints
    eight hex digits and the text is wrong -/
example : macFormat mcfg [0, 255, 16, 171, 205, 239] = some (macText [0, 255, 16, 171, 205, 239]) := by decide
theorem C17_mac_text_unmasked_counterexample :
    macFormat { mcfg with masked := false } [128] ≠ some (macText [128]) := by decide

/-! ## cpu_affinity_get: the doubling loop -/

theorem acfg_good : acfg.Good := by
  refine ⟨?_, ?_, ?_⟩ <;> decide

/-- **C17_affinity_no_overflow** — whatever the kernel answers (accepting at any size, or
    never), the loop never evaluates `ncpus * 2` when that is not representable in `int`, and it
    terminates (with the list size or OverflowError). -/
theorem C17_affinity_no_overflow (c : ACfg) (hg : c.Good) (need : Option Nat) :
    (∀ m, affGet c need ≠ .ub m) ∧ affGet c need ≠ .fuelOut := by
  have hnone : affGet c none = .overflowError := by
    obtain ⟨i, g, f⟩ := c
    obtain ⟨hi, hgd, hf⟩ := hg
    simp only at hi hgd hf
    subst hi hgd hf
    decide
  unfold affGet at *
  rcases affLoop_sim c need 64 c.initBits with ⟨k, hk⟩ | he
  · rw [hk]; exact ⟨fun m h => (by cases h), fun h => (by cases h)⟩
  · rw [he, hnone]; exact ⟨fun m h => (by cases h), fun h => (by cases h)⟩

theorem C17_affinity_no_overflow_current (need : Option Nat) :
    (∀ m, affGet acfg need ≠ .ub m) ∧ affGet acfg need ≠ .fuelOut :=
  C17_affinity_no_overflow acfg acfg_good need

/-- without the `ncpus > INT_MAX / 2` guard a kernel that keeps answering EINVAL drives the loop
    into signed overflow -/
theorem C17_affinity_unguarded_counterexample :
    affGet { acfg with guard := none } none = .ub 1073741824 := by decide

/-! ## CPU_SET on an arbitrary C `long` -/

theorem ccfg_good : ccfg.Good := by
  refine ⟨?_, ?_⟩ <;> decide

/-- **C17_cpuset_in_bounds** — for every value of a C `long` (negative, huge, anything),
    `CPU_SET(v, &cpu_set)` touches an 8-byte word inside the 128-byte set, or nothing. -/
theorem C17_cpuset_in_bounds (c : CCfg) (hg : c.Good) (v : Int) :
    match cpuSetWord c v with
    | some w => 8 * w + 8 ≤ c.setBytes
    | none => True := by
  cases h : cpuSetWord c v with
  | none => trivial
  | some w => exact cpuSetWord_good c hg v w h

/-- … hence `cpu_affinity_set` never stores outside the set, for every sequence of items -/
theorem C17_affinity_set_in_bounds (c : CCfg) (hg : c.Good) (items : List Item) :
    ∀ w, affSet c items ≠ .oob w := by
  unfold affSet
  generalize ([] : List Nat) = acc
  induction items generalizing acc with
  | nil => intro w h; simp [affSetGo] at h
  | cons it rest ih =>
    intro w
    cases it with
    | other => simp [affSetGo]
    | int v =>
      simp only [affSetGo]
      split
      · simp
      · split
        · simp
        · split
          · exact ih _ w
          · rename_i w' hw'
            have := cpuSetWord_good c hg v w' hw'
            rw [if_pos this]
            exact ih _ w

theorem C17_cpuset_in_bounds_current (items : List Item) : ∀ w, affSet ccfg items ≠ .oob w :=
  C17_affinity_set_in_bounds ccfg ccfg_good items

/-- an unchecked `bits[v / 64] |= …` would store outside the set for CPU number 1024 -/
theorem C17_cpuset_unchecked_counterexample :
    affSet { ccfg with checkedMacro := false } [.int 1024] = .oob 16 := by decide

/-! ## check_pid_range -/

theorem rcfg_good : rcfg.Good := by
  refine ⟨?_, ?_⟩ <;> decide

/-- **C17_pid_range** — for every Python int: accepted (None) iff it is a non-negative `pid_t`;
    negative → ValueError; not representable → OverflowError; never anything else. -/
theorem C17_pid_range (c : RCfg) (hg : c.Good) (v : Int) :
    (checkPidRange c (.int v) = .none ↔ PidOk v)
    ∧ (-2147483648 ≤ v ∧ v < 0 → checkPidRange c (.int v) = .valueError)
    ∧ (v < -2147483648 ∨ 2147483647 < v → checkPidRange c (.int v) = .overflowError)
    ∧ checkPidRange c .other = .typeError := by
  have e : (2 : Int) ^ (32 - 1) = 2147483648 := by decide
  simp only [checkPidRange, parseCInt, hg.bits, hg.neg, e, PidOk, Bool.true_and]
  refine ⟨?_, ?_, ?_, trivial⟩
  · by_cases h1 : v ≥ 2147483648 ∨ v < -2147483648
    · simp only [h1, if_true]; constructor
      · intro h; cases h
      · intro h; omega
    · simp only [h1, if_false]
      by_cases h2 : v < 0
      · simp only [decide_eq_true_eq, h2, if_true]; constructor
        · intro h; cases h
        · intro h; omega
      · simp only [decide_eq_true_eq, h2, if_false, true_iff]; omega
  · intro h
    have h1 : ¬ (v ≥ 2147483648 ∨ v < -2147483648) := by omega
    simp [h1, h.2]
  · intro h
    have h1 : v ≥ 2147483648 ∨ v < -2147483648 := by omega
    simp [h1]

theorem C17_pid_range_current (v : Int) : checkPidRange rcfg (.int v) = .none ↔ PidOk v :=
  (C17_pid_range rcfg rcfg_good v).1

/-! ## ioprio packing in C `int` -/

/-- **C17_ioprio_no_overflow** — for `0 ≤ class < 2¹⁸` and `0 ≤ data ≤ INT_MAX` the shift is
    defined and `(class << 13) | data` is representable in `int`. -/
theorem C17_ioprio_no_overflow (cls data : Int) (h0 : 0 ≤ cls) (h1 : cls < 262144) (hd0 : 0 ≤ data)
    (hd1 : data ≤ 2147483647) :
    shlInt cls 13 = some (cls * 8192) ∧ Representable (orNat (cls * 8192) data) := by
  have e : (2 : Int) ^ 13 = 8192 := by decide
  constructor
  · unfold shlInt INT_MAX
    rw [e]
    have : ¬ cls < 0 := by omega
    have h2 : ¬ cls * 8192 > 2147483647 := by omega
    simp [this, h2]
  · unfold Representable orNat
    have hx : (cls * 8192).toNat < 2 ^ 31 := by
      have : (2 : Nat) ^ 31 = 2147483648 := by decide
      omega
    have hy : data.toNat < 2 ^ 31 := by
      have : (2 : Nat) ^ 31 = 2147483648 := by decide
      omega
    have := Nat.or_lt_two_pow hx hy
    have e31 : (2 : Nat) ^ 31 = 2147483648 := by decide
    rw [e31] at this
    omega

/-- translator obligation: the C entry point checks `ioclass` before shifting -/
theorem icfg_safe : icfg.CSafe := by
  refine ⟨by decide, ?_⟩
  refine ⟨(Gen.C17.ioprioCGuard.getD (0, 0)).1, (Gen.C17.ioprioCGuard.getD (0, 0)).2, ?_, ?_, ?_⟩ <;> decide

theorem ioprioSetC_defined (c : ICfg) (hs : c.CSafe) (cls data : Int) : ioprioSetC c cls data ≠ .ub := by
  obtain ⟨hsh, lo, hi, hg, hlo, hhi⟩ := hs
  unfold ioprioSetC
  by_cases hr : inRange c.cGuard cls = true
  · have hin : lo ≤ cls ∧ cls ≤ hi := by
      simpa [inRange, hg] using hr
    have hshl := (C17_ioprio_no_overflow cls 0 (by omega) (by omega) (by decide) (by decide)).1
    rw [hsh, hshl]
    by_cases hb : (!inRange c.cGuard cls || !inRange c.cDataGuard data) = true
    · cases c.cGuardOSError <;> simp [hb]
    · simp only [hb, if_false]
      by_cases hd : data < 0 <;> simp [hd]
  · have : inRange c.cGuard cls = false := by simpa using hr
    cases c.cGuardOSError <;> simp [this]

theorem parseCInt_error (bits : Nat) (a : Arg) (e : PyOut) (h : parseCInt bits a = .error e) : e ≠ .ub := by
  cases a with
  | other => simp [parseCInt] at h; subst h; simp
  | int v =>
    simp only [parseCInt] at h
    split at h
    · injection h with h; subst h; simp
    · cases h

/-- translator obligation (round 2): psutil_proc_ioprio_set parses (pid, ioclass, iodata) with the
    CHECKED unit `i` each, and checks 0 ≤ ioclass ≤ 7, 0 ≤ iodata ≤ 8191 -/
theorem icfg_units_good : icfg.units = ['i', 'i', 'i'] ∧ icfg.cGuard = some (0, 7) ∧ icfg.cDataGuard = some (0, 8191) := by
  decide

/-- translator obligation (round 2): EVERY PyArg_ParseTuple call of the Linux build uses only
    converters from this allow-list — in particular none of the unchecked integer converters
    `B H I k K` (the Python int is silently reduced modulo 2^width) and no format the translator could
    not read (`?…`).  A new use must be justified here, parameter by parameter. -/
theorem parse_formats_good :
    Gen.C17.parseFormats.all (fun p => p.2.toList.all (fun c =>
      ['i', 'l', 'L', 'n', 's', 'z', 'y', 'O', 'd', 'f', 'p', '|', ':', '#'].contains c)) = true
    ∧ Gen.C17.parseFormats.length ≥ 10 := by decide

theorem ioprioSetExt_checked (c : ICfg) (hu : c.units = ['i', 'i', 'i']) (pid cls data : Arg) :
    ioprioSetExt c pid cls data = ioprioSetExtChecked c pid cls data := by
  simp [ioprioSetExt, ioprioSetExtChecked, hu, parseUnit]

/-- **C17_ioprio_entry_defined** — with the C-side range check and checked units,
    `cext.proc_ioprio_set` reaches no undefined shift for ANY three Python arguments (ints of any
    size, or other types). -/
theorem C17_ioprio_entry_defined (c : ICfg) (hs : c.CSafe) (hu : c.units = ['i', 'i', 'i']) (pid cls data : Arg) :
    ioprioSetExt c pid cls data ≠ .ub := by
  rw [ioprioSetExt_checked c hu]
  cases hp : parseCInt 32 pid with
  | error e => simp only [ioprioSetExtChecked, hp]; exact parseCInt_error _ _ _ hp
  | ok p =>
    cases hc : parseCInt 32 cls with
    | error e => simp only [ioprioSetExtChecked, hp, hc]; exact parseCInt_error _ _ _ hc
    | ok cv =>
      cases hdd : parseCInt 32 data with
      | error e => simp only [ioprioSetExtChecked, hp, hc, hdd]; exact parseCInt_error _ _ _ hdd
      | ok dv => simp only [ioprioSetExtChecked, hp, hc, hdd]; exact ioprioSetC_defined c hs cv dv

/-- **C17_ioprio_applied_is_passed** (round 2) — whatever three Python objects are passed, the value
    handed to the kernel is built from the ints THE CALLER PASSED: `ioclass` and `iodata` are ints
    within 0..7 / 0..8191 and the packed word is `(ioclass << 13) | iodata`.  Anything else is an
    exception — nothing is truncated into range. -/
theorem C17_ioprio_applied_is_passed (c : ICfg) (hsh : c.shift = 13) (hu : c.units = ['i', 'i', 'i'])
    (hg : c.cGuard = some (0, 7)) (hd : c.cDataGuard = some (0, 8191)) (pid cls data : Arg) (p : Int)
    (h : ioprioSetExt c pid cls data = .syscall p) :
    ∃ cv dv, cls = .int cv ∧ data = .int dv ∧ 0 ≤ cv ∧ cv ≤ 7 ∧ 0 ≤ dv ∧ dv ≤ 8191 ∧ p = orNat (cv * 8192) dv := by
  have herr : ∀ (a : Arg) (e : PyOut), parseCInt 32 a = .error e → e ≠ .syscall p := by
    intro a e he
    cases a with
    | other => simp [parseCInt] at he; subst he; simp
    | int v => simp only [parseCInt] at he; split at he <;> simp at he; subst he; simp
  have hok : ∀ (a : Arg) (v : Int), parseCInt 32 a = .ok v → a = .int v := by
    intro a v hv
    cases a with
    | other => simp [parseCInt] at hv
    | int w => simp only [parseCInt] at hv; split at hv <;> simp at hv; rw [hv]
  rw [ioprioSetExt_checked c hu] at h
  unfold ioprioSetExtChecked at h
  cases hp : parseCInt 32 pid with
  | error e => simp only [hp] at h; exact absurd h (herr _ _ hp)
  | ok pv =>
    cases hc : parseCInt 32 cls with
    | error e => simp only [hp, hc] at h; exact absurd h (herr _ _ hc)
    | ok cv =>
      cases hdd : parseCInt 32 data with
      | error e => simp only [hp, hc, hdd] at h; exact absurd h (herr _ _ hdd)
      | ok dv =>
        simp only [hp, hc, hdd] at h
        refine ⟨cv, dv, hok _ _ hc, hok _ _ hdd, ?_⟩
        simp only [ioprioSetC, hg, hd, inRange, hsh] at h
        by_cases h1 : 0 ≤ cv ∧ cv ≤ 7
        · by_cases h2 : 0 ≤ dv ∧ dv ≤ 8191
          · have hshl := (C17_ioprio_no_overflow cv 0 h1.1 (by omega) (by decide) (by decide)).1
            have hn : ¬ dv < 0 := by omega
            simp only [h1.1, h1.2, h2.1, h2.2, decide_true, Bool.and_self, Bool.not_true, Bool.or_self,
              Bool.false_eq_true, if_false, hshl, hn] at h
            injection h with h
            exact ⟨h1.1, h1.2, h2.1, h2.2, h.symm⟩
          · exfalso
            have : (decide (0 ≤ dv) && decide (dv ≤ 8191)) = false := by
              simp only [Bool.and_eq_false_iff, decide_eq_false_iff_not]; omega
            simp only [this, Bool.not_false, Bool.or_true, if_true] at h
            cases hh : c.cGuardOSError <;> rw [hh] at h <;> cases h
        · exfalso
          have : (decide (0 ≤ cv) && decide (cv ≤ 7)) = false := by
            simp only [Bool.and_eq_false_iff, decide_eq_false_iff_not]; omega
          simp only [this, Bool.not_false, Bool.true_or, if_true] at h
          cases hh : c.cGuardOSError <;> rw [hh] at h <;> cases h

theorem C17_ioprio_applied_is_passed_current (pid cls data : Arg) (p : Int) (h : ioprioSetExt icfg pid cls data = .syscall p) :
    ∃ cv dv, cls = .int cv ∧ data = .int dv ∧ 0 ≤ cv ∧ cv ≤ 7 ∧ 0 ≤ dv ∧ dv ≤ 8191 ∧ p = orNat (cv * 8192) dv :=
  C17_ioprio_applied_is_passed icfg (by decide) icfg_units_good.1 icfg_units_good.2.1 icfg_units_good.2.2 pid cls data p h

/-- **counterexample (seeded C17-3)** — with the UNCHECKED unit `I` for ioclass / iodata (and the
    same range check), `proc_ioprio_set(pid, 2**32 + 2, 4)` is reduced modulo 2³² to class 2, passes
    the check and (2 << 13) | 4 is APPLIED: a value the caller did not pass.  Also 2**64 + 2,
    −2**32 + 2, and 2**32 (→ class NONE). -/
theorem C17_ioprio_unchecked_unit_counterexample :
    ioprioSetExt { icfg with units := ['i', 'I', 'I'] } (.int 1) (.int (4294967296 + 2)) (.int 4) = .syscall 16388
    ∧ ioprioSetExt { icfg with units := ['i', 'I', 'I'] } (.int 1) (.int (18446744073709551616 + 2)) (.int 4) = .syscall 16388
    ∧ ioprioSetExt { icfg with units := ['i', 'I', 'I'] } (.int 1) (.int (-4294967296 + 2)) (.int 4) = .syscall 16388
    ∧ ioprioSetExt { icfg with units := ['i', 'I', 'I'] } (.int 1) (.int 4294967296) (.int 0) = .syscall 0 := by
  decide

/-- **C17_ioprio_reach** — which `ioclass` values can reach the shift from
    `Process.ionice(ioclass, value)`: with the C-side guard none that makes it undefined, for
    every int `ioclass` and every `value`. -/
theorem C17_ioprio_reach (c : ICfg) (hs : c.CSafe) (hu : c.units = ['i', 'i', 'i']) (cls : Int) (value : Option Int) :
    ioniceSetPy c cls value ≠ .ub := by
  unfold ioniceSetPy
  simp only
  split
  · simp
  · split
    · simp
    · split
      · simp
      · exact C17_ioprio_entry_defined c hs hu _ _ _

theorem C17_ioprio_reach_current (cls : Int) (value : Option Int) : ioniceSetPy icfg cls value ≠ .ub :=
  C17_ioprio_reach icfg icfg_safe icfg_units_good.1 cls value

/-- **counterexample (lead L15)** — without a range check on `ioclass`, `ionice(2**18, 0)`
    passes every Python-side test and reaches `262144 << 13`: signed overflow. -/
theorem C17_ioprio_unguarded_counterexample :
    ioniceSetPy { icfg with cGuard := none, cDataGuard := none, pyClassGuard := none } 262144 (some 0) = .ub := by
  decide

/-! ## NIC speed from the two ethtool halves -/

/-- translator obligation: net.c widens `speed_hi` to an unsigned 32-bit type before `<< 16` -/
theorem ecfg_good : ecfg.castUnsigned = true := by decide

/-- **C17_ethspeed_defined** — for every pair of 16-bit halves a driver can report, the speed
    computation is defined and yields the documented value: the 32-bit Mb/s figure, or 0 for
    SPEED_UNKNOWN (0xFFFFFFFF) and for anything above INT_MAX. -/
theorem C17_ethspeed_defined (c : ECfg) (hg : c.castUnsigned = true) (hi lo : Nat) (hh : hi < 65536) (hl : lo < 65536) :
    ethSpeed c hi lo = .speed (nicSpeed hi lo) ∧ 0 ≤ nicSpeed hi lo ∧ nicSpeed hi lo ≤ 2147483647 := by
  have hor : hi * 65536 ||| lo = hi * 65536 + lo := by
    have h := Nat.two_pow_add_eq_or_of_lt (i := 16) (b := lo) (by simpa using hl) hi
    have e : (2 : Nat) ^ 16 = 65536 := by decide
    rw [e] at h
    rw [Nat.mul_comm hi 65536, ← h]
  unfold ethSpeed nicSpeed INT_MAX
  rw [hg, hor]
  have hm : (hi * 65536 + lo) % 4294967296 = hi * 65536 + lo := Nat.mod_eq_of_lt (by omega)
  simp only [Bool.not_true, Bool.false_and, Bool.false_eq_true, if_false, hm]
  by_cases h1 : hi * 65536 + lo = 4294967295
  · simp [h1]
  · by_cases h2 : hi * 65536 + lo > 2147483647
    · have h2' : ((hi * 65536 + lo : Nat) : Int) > 2147483647 := by omega
      simp only [h1, h2, h2', or_true, if_true, true_and]
      omega
    · have h2' : ¬ ((hi * 65536 + lo : Nat) : Int) > 2147483647 := by omega
      simp only [h1, h2, h2', or_self, if_false, true_and]
      omega

theorem C17_ethspeed_defined_current (hi lo : Nat) (hh : hi < 65536) (hl : lo < 65536) :
    ethSpeed ecfg hi lo = .speed (nicSpeed hi lo) :=
  (C17_ethspeed_defined ecfg ecfg_good hi lo hh hl).1

/-- **counterexample (found by the UBSan build on the sandbox's eth0)** — a NIC that reports
    SPEED_UNKNOWN (both halves 0xFFFF) makes `speed_hi << 16` overflow `int` without the cast. -/
theorem C17_ethspeed_uncast_counterexample : ethSpeed { castUnsigned := false } 65535 65535 = .ub := by decide

/-! ## net_if_flags: bit → name -/

/-- **C17_iff_table** — the C table (macro → name), restricted to the macros the platform's
    `<net/if.h>` defines and with their values, is netdevice(7)'s table. -/
theorem C17_iff_table : iffLinux = Spec.linuxIff := by decide

theorem iffMask_good : Gen.C17.iffMask = 65535 := by decide

/-- **C17_iff_flag_names** — for every flags word the names returned are exactly the names of
    its set bits among the 16 Linux interface flags, lowest bit first. -/
theorem C17_iff_flag_names (flags : Nat) :
    iffNames iffLinux Gen.C17.iffMask flags = Spec.flagNames (flags % 65536) := by
  rw [C17_iff_table, iffMask_good]
  unfold iffNames Spec.flagNames
  congr 1
  apply List.filter_congr
  intro e he
  have hm : flags &&& 65535 = flags % 65536 := Nat.and_two_pow_sub_one_eq_mod flags 16
  rw [hm]
  simp only [Spec.linuxIff, List.mem_cons, List.not_mem_nil, or_false] at he
  rcases he with rfl | rfl | rfl | rfl | rfl | rfl | rfl | rfl | rfl | rfl | rfl | rfl | rfl | rfl | rfl | rfl
  · exact and_two_pow_ne_zero _ 0
  · exact and_two_pow_ne_zero _ 1
  · exact and_two_pow_ne_zero _ 2
  · exact and_two_pow_ne_zero _ 3
  · exact and_two_pow_ne_zero _ 4
  · exact and_two_pow_ne_zero _ 5
  · exact and_two_pow_ne_zero _ 6
  · exact and_two_pow_ne_zero _ 7
  · exact and_two_pow_ne_zero _ 8
  · exact and_two_pow_ne_zero _ 9
  · exact and_two_pow_ne_zero _ 10
  · exact and_two_pow_ne_zero _ 11
  · exact and_two_pow_ne_zero _ 12
  · exact and_two_pow_ne_zero _ 13
  · exact and_two_pow_ne_zero _ 14
  · exact and_two_pow_ne_zero _ 15

/-- **C17_iff_documented** — every flag name the extension can return on Linux is listed in the
    documentation of `net_if_stats()`, and `isup` is derived from the `running` flag. -/
theorem C17_iff_documented :
    (∀ e ∈ iffLinux, e.2 ∈ Gen.C17.iffDocNames) ∧ Gen.C17.isupFlag = "running" := by decide

/-! ## net_if_addrs(): getifaddrs() list → rows (extension round) -/

/-- translator obligation: psutil_convert_ipaddr switches on AF_INET / AF_INET6 / AF_PACKET with
    addrlen = sizeof(sockaddr_in) / sizeof(sockaddr_in6), gives getnameinfo `sizeof(buf)`, reads
    sll_halen / sll_addr; psutil_net_if_addrs takes the family from ifa_addr, the netmask from
    ifa_netmask, fills broadcast under IFF_BROADCAST else ptp under IFF_POINTOPOINT, and builds
    the tuple in the documented order -/
theorem ncfg_good : ncfg.Good := by
  refine ⟨?_, ?_, ?_, ?_, ?_, ?_, ?_, ?_, ?_, ?_, ?_, ?_⟩ <;> decide

/-- **C17_ifaddrs_rows** — for every list getifaddrs() can return (any names, flags words,
    NULL pointers anywhere, any INET/INET6 texts, hardware addresses of any length that fit their
    object): the rows are exactly (name, family, address, netmask, broadcast iff IFF_BROADCAST, ptp
    iff IFF_POINTOPOINT and not broadcast) of the entries that have a showable address. -/
theorem C17_ifaddrs_rows (c : NCfg) (hg : c.Good) (mac : MCfg) (hm : mac.Good) (es : List IfEntry)
    (h : ∀ e ∈ es, EntryWF e) : ifRows c mac es = Spec.ifRows (macFormat mac) es := by
  unfold ifRows Spec.ifRows
  induction es with
  | nil => rfl
  | cons e es ih =>
    simp only [List.filterMap_cons, ifRow_good c hg mac hm.buf e (h e (by simp))]
    rw [ih (fun x hx => h x (by simp [hx]))]

theorem C17_ifaddrs_rows_current (es : List IfEntry) (h : ∀ e ∈ es, EntryWF e) :
    ifRows ncfg mcfg es = Spec.ifRows (macFormat mcfg) es :=
  C17_ifaddrs_rows ncfg ncfg_good mcfg mcfg_good es h

/-- **C17_ifaddrs_reads_in_object** — every extent psutil reads (or tells libc to read) of a
    sockaddr of the list lies inside the object libc allocated for it. -/
theorem C17_ifaddrs_reads_in_object (c : NCfg) (hg : c.Good) (e : IfEntry) (hw : EntryWF e) :
    ∀ r ∈ ifReads c e, r.1 ≤ r.2 := by
  intro r hr
  unfold ifReads at hr
  cases ha : e.addr with
  | none => simp [ha] at hr
  | some a =>
    obtain ⟨wa, wn, wu⟩ := hw.addr a ha
    simp only [ha, List.mem_append] at hr
    have key : ∀ (o : Option Sock), optWF a.fam o →
        r ∈ (match o with
          | none => []
          | some s => (convertReads c o a.fam).map (fun x => (x, s.store.length))) → r.1 ≤ r.2 := by
      intro o ho hm
      cases o with
      | none => simp at hm
      | some s =>
        simp only [List.mem_map] at hm
        obtain ⟨x, hx, rfl⟩ := hm
        exact convertReads_good c hg a.fam s (ho s rfl) x hx
    rcases hr with (h1 | h2) | h3
    · exact key (some a) (by intro s hs; cases hs; exact wa) h1
    · exact key e.netmask wn h2
    · exact key e.ifu wu h3

/-- non-vacuity: a loopback-style entry honours the contract and yields its row -/
example : ifRows ncfg mcfg
    [{ name := [108, 111], flags := 73,
       addr := some ⟨2, [2, 0, 0, 0, 127, 0, 0, 1, 0, 0, 0, 0, 0, 0, 0, 0], 16, some [49, 50, 55, 46, 48, 46, 48, 46, 49]⟩,
       netmask := none, ifu := none }]
    = [[.str [108, 111], .int 2, .str [49, 50, 55, 46, 48, 46, 48, 46, 49], .none, .none, .none]] := by decide

/-! ## entry points that copy a NIC name into `struct ifreq` -/

/-- translator obligation: IFNAMSIZ = 16, the running bit is IFF_RUNNING, and each of the four
    entry points that hand `&ifr` to ioctl() copies the name only through
    `PSUTIL_STRNCPY(ifr.ifr_name, nic_name, sizeof(ifr.ifr_name))` -/
theorem qcfg_good : qcfg.ifnamsiz = 16 ∧ qcfg.runningBit = 64
    ∧ Gen.C17.ifreqCopies.length = 4 ∧ Gen.C17.ifreqCopies.all (·.2) = true := by decide

/-- **C17_ifr_name_bounded** — for every NIC name (any length, any bytes): every store of the copy
    is inside `ifr_name[IFNAMSIZ]` and the ioctl sees the name cut to IFNAMSIZ-1 bytes, terminated. -/
theorem C17_ifr_name_bounded (s : SCfg) (hs : s.Good) (q : QCfg) (hq : 0 < q.ifnamsiz) (name : Bytes) :
    ifrInBounds s q name = true ∧ ifrName s q name = boundedCopy name q.ifnamsiz := by
  obtain ⟨h1, _, h3⟩ := C17_strncpy_terminated s hs name (List.replicate q.ifnamsiz 170) q.ifnamsiz hq (by simp)
  refine ⟨?_, h3⟩
  simp only [ifrInBounds, List.all_eq_true, decide_eq_true_eq]
  exact h1

theorem C17_ifr_name_bounded_current (name : Bytes) :
    ifrInBounds scfg qcfg name = true ∧ ifrName scfg qcfg name = boundedCopy name 16 :=
  C17_ifr_name_bounded scfg scfg_good qcfg (by decide) name

/-- **C17_ifr_running** — `net_if_is_running` answers bit 6 (IFF_RUNNING) of the 16-bit flags word -/
theorem C17_ifr_running (q : QCfg) (hq : q.runningBit = 64) (flags : Nat) :
    isRunning q flags = (flags % 65536 / 64 % 2 == 1) := by
  unfold isRunning
  rw [hq]
  exact bitSet_two_pow (flags % 65536) 6

/-! ## disk_partitions(): the C loop over getmntent -/

/-- translator obligation: the line buffer in effect (libc's own for `getmntent`, the caller's
    for `getmntent_r`) holds at least 4096 bytes, and the tuple is (fsname, dir, type, opts) -/
theorem dcfg_good : dcfg.Good := ⟨by decide, by decide⟩

/-- **C17_mntent_line_whole** — every mounts line of up to 4095 bytes reaches the field decoder
    complete (nothing cut, nothing dropped), with or without a final newline.  (The kernel can
    print longer lines; what libc does with them is its own: `mntLibcBuf` is measured.) -/
theorem C17_mntent_line_whole (c : DCfg) (hg : c.Good) (l : Bytes) (term : Bool) (h : l.length ≤ 4095) :
    (fgetsLine c.effBuf l term).1 = l :=
  fgetsLine_whole c.effBuf l term (by have := hg.buf; omega)

theorem C17_mntent_line_whole_current (l : Bytes) (term : Bool) (h : l.length ≤ 4095) :
    (fgetsLine dcfg.effBuf l term).1 = l := C17_mntent_line_whole dcfg dcfg_good l term h

/-- a `getmntent_r` with a 1024-byte buffer of its own cuts every line of 1023 bytes or more at
    1023 bytes (seeded change C17-1) -/
theorem C17_mntent_small_buffer_counterexample (l : Bytes) (h : 1023 ≤ l.length) :
    ((fgetsLine ({ dcfg with reentrant := true, userBuf := 1024 } : DCfg).effBuf l true).1).length = 1023 := by
  have e : ({ dcfg with reentrant := true, userBuf := 1024 } : DCfg).effBuf = 1024 := rfl
  have h2 : ¬ l.length + 2 ≤ 1024 := by omega
  rw [e]
  simp only [fgetsLine, if_true, h2, if_false, List.length_take]
  omega

/-- **C17_mntent_tuple** — the tuple is (device, mount point, type, options) of the entry -/
theorem C17_mntent_tuple (c : DCfg) (hg : c.Good) (m : Mnt) : mntTuple c m = [m.dev, m.dir, m.typ, m.opts] := by
  simp [mntTuple, hg.order]

/-- a kernel-style line with escapes decodes to the entry it was rendered from -/
example : mntLine dcfg.effBuf (renderMnt ⟨[47, 100, 32, 97], [47, 109, 92], [101, 120, 116, 52], [114, 119, 9]⟩)
    = some ⟨[47, 100, 32, 97], [47, 109, 92], [101, 120, 116, 52], [114, 119, 9]⟩ := by decide

/-- FULL statement of the field decoding: every entry with non-empty, NUL-free fields whose device
    does not start with '#', rendered the way the kernel prints it (space, tab, newline, backslash
    as \040 \011 \012 \134), decodes to itself whenever the line fits the buffer.  (Stated in
    the extension round, PROVED in round 2: `C17_mntent_roundtrip` below.) -/
def C17_mntent_roundtrip_Full : Prop :=
  ∀ (B : Nat) (m : Mnt), m.dev ≠ [] → m.dir ≠ [] → m.typ ≠ [] → m.opts ≠ [] → m.dev.head? ≠ some 35 →
    (∀ c ∈ m.dev ++ m.dir ++ m.typ ++ m.opts, c ≠ 0) → (renderMnt m).length < B →
    mntLine B (renderMnt m) = some m

/-- **C17_mntent_roundtrip** — render → decode is the identity for EVERY mount entry (any bytes
    in the four fields, the escaped characters included).  The NUL-freeness of the statement is
    not even needed by the model. -/
theorem C17_mntent_roundtrip : C17_mntent_roundtrip_Full :=
  fun B m h1 h2 h3 h4 h35 _ hB => mntLine_renderMnt B m h1 h2 h3 h4 h35 hB true

/-- … also for a last line without newline, and through the C loop with the buffer in effect:
    `cext.disk_partitions()` on the one-line file returns the entry it was rendered from -/
theorem C17_mntent_roundtrip_current (m : Mnt) (h1 : m.dev ≠ []) (h2 : m.dir ≠ []) (h3 : m.typ ≠ [])
    (h4 : m.opts ≠ []) (h35 : m.dev.head? ≠ some 35) (hl : (renderMnt m).length ≤ 4095) (lastTerm : Bool) :
    diskPartitionsC dcfg [renderMnt m] lastTerm = [[m.dev, m.dir, m.typ, m.opts]] := by
  have hB : (renderMnt m).length < dcfg.effBuf := by have := dcfg_good.buf; omega
  have := mntLine_renderMnt dcfg.effBuf m h1 h2 h3 h4 h35 hB (lastTerm || decide (0 + 1 < 1))
  simp only [diskPartitionsC, List.zipIdx_cons, List.zipIdx_nil, List.filterMap_cons, List.filterMap_nil,
    List.length_cons, List.length_nil, this, List.map_cons, List.map_nil, C17_mntent_tuple dcfg dcfg_good]

/-- decoding is not injective on ARBITRARY lines — `\\134` and `\\\\` both give a backslash — which
    is why the round trip is stated from the entry, not from the line -/
example : decodeName 9 [92, 49, 51, 52] = decodeName 9 [92, 92] := by decide

/-! ## linux_sysinfo(): format units vs member widths -/

/-- translator obligation: "(kkkkkkI)" over (totalram, freeram, bufferram, sharedram, totalswap,
    freeswap, mem_unit), whose widths in <linux/sysinfo.h> are 64 ×6 and 32 -/
theorem ycfg_good : ycfg.Good := ⟨by decide, by decide, by decide, by decide⟩

/-- **C17_sysinfo_tuple** — for every struct the kernel can fill in, each slot is the member's
    value: nothing truncated, nothing indeterminate. -/
theorem C17_sysinfo_tuple (c : YCfg) (hg : c.Good) (info : String → Nat) (hw : SysinfoWF info) :
    C17.sysinfoTuple c info = Spec.sysinfoTuple info := by
  obtain ⟨h64, h32⟩ := hw
  have w := hg.wide
  simp only [C17.sysinfoTuple, Spec.sysinfoTuple, hg.format, hg.fields, sysinfoOrder, List.zip_cons_cons,
    List.zip_nil_right, List.map_cons, List.map_nil, hg.unit,
    w "totalram" (by simp), w "freeram" (by simp), w "bufferram" (by simp), w "sharedram" (by simp),
    w "totalswap" (by simp), w "freeswap" (by simp)]
  rw [buildSlot_k _ (h64 "totalram" (by simp [sysinfoOrder]) (by decide)),
      buildSlot_k _ (h64 "freeram" (by simp [sysinfoOrder]) (by decide)),
      buildSlot_k _ (h64 "bufferram" (by simp [sysinfoOrder]) (by decide)),
      buildSlot_k _ (h64 "sharedram" (by simp [sysinfoOrder]) (by decide)),
      buildSlot_k _ (h64 "totalswap" (by simp [sysinfoOrder]) (by decide)),
      buildSlot_k _ (h64 "freeswap" (by simp [sysinfoOrder]) (by decide)),
      buildSlot_I _ h32]

theorem C17_sysinfo_tuple_current (info : String → Nat) (hw : SysinfoWF info) :
    C17.sysinfoTuple ycfg info = Spec.sysinfoTuple info := C17_sysinfo_tuple ycfg ycfg_good info hw

/-- a 32-bit unit on a 64-bit member loses the upper half; a 64-bit unit on `mem_unit` reads
    indeterminate bits -/
theorem C17_sysinfo_wrong_unit_counterexample :
    C17.sysinfoTuple { ycfg with format := "IkkkkkI".toList } (fun f => if f = "totalram" then 2 ^ 32 else 1)
      ≠ Spec.sysinfoTuple (fun f => if f = "totalram" then 2 ^ 32 else 1)
    ∧ (C17.sysinfoTuple { ycfg with format := "kkkkkkk".toList } (fun _ => 1)).getLast? = some .ub := by
  decide

/-! ## getpriority(): errno hygiene -/

theorem gcfg_good : gcfg.resetBefore = true := by decide

/-- translator obligation: every function of the Linux build that tests errno against 0 either
    resets it first, or is not an entry point and has no call site in the Linux build -/
theorem errno_discriminators_good :
    Gen.C17.errnoDiscriminators.all (fun p => p.2.1 || (!p.2.2.1 && p.2.2.2 == 0)) = true := by decide

/-- **C17_getpriority_errno_independent** — with errno cleared before the call, the result is the
    kernel's answer for EVERY errno value on entry: a nice value (−1 included) is returned, an
    error is raised with the kernel's code. -/
theorem C17_getpriority_errno_independent (c : GCfg) (hg : c.resetBefore = true) (errnoIn : Nat)
    (k : Except Nat Int) (hk : ∀ code, k = .error code → code ≠ 0) :
    C17.getPriority c errnoIn k = Spec.getPriority k := by
  cases k with
  | ok v => simp [C17.getPriority, Spec.getPriority, hg]
  | error code =>
    have := hk code rfl
    simp [C17.getPriority, Spec.getPriority, this]

theorem C17_getpriority_errno_independent_current (e1 e2 : Nat) (k : Except Nat Int)
    (hk : ∀ code, k = .error code → code ≠ 0) :
    C17.getPriority gcfg e1 k = C17.getPriority gcfg e2 k := by
  rw [C17_getpriority_errno_independent gcfg gcfg_good e1 k hk, C17_getpriority_errno_independent gcfg gcfg_good e2 k hk]

/-- without the reset a stale ESRCH turns a legitimate nice value into OSError — with the
    `priority == -1 &&` form for nice −1, with the plain `errno != 0` form for any value -/
theorem C17_getpriority_stale_errno_counterexample :
    C17.getPriority { resetBefore := false, testMinusOne := true } 3 (.ok (-1)) = .osError 3
    ∧ C17.getPriority { resetBefore := false, testMinusOne := false } 3 (.ok 5) = .osError 3 := by decide

/-! ## round 2 — users(): the decode SHAPE of users.c is a pinned fact -/

/-- translator obligation: in psutil_users each of the three strings is produced by
    `PyUnicode_DecodeFSDefaultAndSize(ut->F, strnlen(ut->F, sizeof(ut->F)))` straight from the record
    (the host additionally by the "localhost" literal), these and the two `strcmp`s are the ONLY
    uses of the three members, and there is no `char x[N]` local.  The extractor is total: any other
    decoding shape (local copies, another length expression, another function) changes the value
    and this theorem stops building (seeded change C17-2). -/
theorem ushape_good : ushape.Canonical := ⟨by decide, by decide, by decide, by decide⟩

theorem ucfg_rest_good : ucfg.RestGood := ⟨by decide, by decide, by decide, by decide, by decide, by decide⟩

/-- **C17_users_fields_cut_shape** — `C17_users_fields_cut` for the configuration whose cut
    semantics is READ OFF the source shape: for exactly the canonical shape, every utmp file gives
    the specified rows.  (`ucfgS` does not depend on the older regex flags.) -/
theorem C17_users_fields_cut_shape (rs : List Utmp) (h : ∀ r ∈ rs, r.WF)
    (trail beyond : Bytes) (ht : trail.length < 384) :
    C17.users ucfgS (renderAll rs ++ trail) beyond = Spec.users rs
    ∧ ∀ s ∈ usersReads ucfgS (renderAll rs ++ trail) beyond, s ≤ 384 :=
  have hg : ucfgS.Good := withShape_good ucfg ucfg_rest_good ushape ushape_good
  ⟨C17_users_fields_cut ucfgS hg rs h trail beyond ht, C17_users_read_in_record ucfgS hg rs h trail beyond ht⟩

/-- the parametric form: ANY base configuration, ANY canonical shape -/
theorem C17_users_fields_cut_any_canonical (base : UCfg) (hb : base.RestGood) (s : UShape) (hs : s.Canonical)
    (rs : List Utmp) (h : ∀ r ∈ rs, r.WF) (trail beyond : Bytes) (ht : trail.length < 384) :
    C17.users (base.withShape s) (renderAll rs ++ trail) beyond = Spec.users rs :=
  C17_users_fields_cut _ (withShape_good base hb s hs) rs h trail beyond ht

/-- the shape of seeded change C17-2 (bounded copies into `char x[UT_…SIZE]` locals, then
    `PyUnicode_DecodeFSDefault(local)`) is NOT a shape the model claims anything about … -/
theorem C17_users_copy_shape_unclaimed :
    decodeKind "ut_user" "PyUnicode_DecodeFSDefault(username)" = .other
    ∧ ¬ ({ ushape with charLocals := ["charusername[UT_NAMESIZE]"] } : UShape).Canonical := by
  refine ⟨by decide, fun h => ?_⟩
  have := h.locals
  simp at this

/-- … and it is wrong: a PSUTIL_STRNCPY into a local of exactly the field's width keeps 31 of the
    32 bytes of a full-width name (§3 `C17_strncpy_terminated`: the copy is `boundedCopy src n`) -/
theorem C17_users_copy_shape_counterexample :
    boundedCopy fullWidth.user 32 ≠ cut fullWidth.user ∧ (boundedCopy fullWidth.user 32).length = 31 := by
  decide

/-! ## round 2 — RootFsDeviceFinder -/

/-- translator obligation: ask_proc_partitions skips 2 header lines, needs ≥ 4 fields, reads
    major/minor/name at 0/1/3; ask_sys_dev_block keys on "DEVNAME="; all three strategies compare
    with (self.major, self.minor) = (os.major, os.minor) of `/` and return "/dev/" + name; find()
    tries them in the documented order, swallowing OSError, and checks the path exists -/
theorem fcfg_good : fcfg.Good :=
  ⟨by decide, by decide, by decide, by decide, by decide, by decide, by decide, by decide, by decide, by decide⟩

/-- **C17_rootfs_strategies_agree** — on every tree in which /proc/partitions,
    /sys/dev/block/M:m/uevent and /sys/class/block/*/dev show the same block devices (any devices,
    any numbers, /sys/class/block listed in any order) the three strategies give the SAME answer:
    `/dev/<name>` of the device whose number is that of `/`, or nothing if none has it. -/
theorem C17_rootfs_strategies_agree (c : FCfg) (hg : c.Good) (ds cls : List BlockDev) (s : RootSys)
    (h : Consistent ds cls s) :
    runStrategy c s "ask_proc_partitions" = runStrategy c s "ask_sys_dev_block"
    ∧ runStrategy c s "ask_sys_dev_block" = runStrategy c s "ask_sys_class_block"
    ∧ runStrategy c s "ask_sys_class_block" =
        (match rootOf ds s.major s.minor with | some d => .found (devPath d) | none => .nothing) := by
  obtain ⟨h1, h2, h3⟩ := strategies_agree c hg ds cls s h
  exact ⟨by rw [h1, h2], by rw [h2, h3], h3⟩

/-- **C17_rootfs_find** — `RootFsDeviceFinder().find()` on such a tree: the root device's path if
    it exists under /dev, otherwise None; never an exception. -/
theorem C17_rootfs_find (c : FCfg) (hg : c.Good) (ds cls : List BlockDev) (s : RootSys) (h : Consistent ds cls s) :
    rootFind c s = match rootOf ds s.major s.minor with
      | some d => if s.pathExists (devPath d) then .found (devPath d) else .nothing
      | none => .nothing := rootFind_consistent c hg ds cls s h

theorem C17_rootfs_find_current (ds cls : List BlockDev) (s : RootSys) (h : Consistent ds cls s) :
    rootFind fcfg s ≠ .indexError := by
  rw [C17_rootfs_find fcfg fcfg_good ds cls s h]
  cases rootOf ds s.major s.minor with
  | none => simp
  | some d => by_cases he : s.pathExists (devPath d) <;> simp [he]

/-- non-vacuity: a concrete device list is well-formed and /proc/partitions' strategy finds sda1 (8:1) -/
example :
    askPartLines fcfg 8 1 (partLinesOf [⟨8, 0, 1000, [115, 100, 97]⟩, ⟨8, 1, 999, [115, 100, 97, 49]⟩])
      = .found [47, 100, 101, 118, 47, 115, 100, 97, 49] := by
  rw [askPartLines_consistent fcfg fcfg_good 8 1 _ (by
    intro d hd
    simp only [List.mem_cons, List.not_mem_nil, or_false] at hd
    rcases hd with rfl | rfl <;> exact ⟨by decide, by unfold NoWs; decide, by decide⟩)]
  decide

/-- the code as it is, outside kernel-consistent trees: the strategies are only FALLBACKS of each
    other — whatever sysfs says, an answer of /proc/partitions that exists under /dev wins
    (characterisation, not a defect: the kernel never shows two names for one number) -/
theorem C17_rootfs_first_strategy_wins (c : FCfg) (hg : c.Good) (s : RootSys) (p : Bytes)
    (h : runStrategy c s "ask_proc_partitions" = .found p) (he : s.pathExists p = true) :
    rootFind c s = .found p := by
  unfold rootFind
  rw [hg.order, hg.ex]
  simp [findChain, h, he]

/-! ## round 2 — net_if_stats() -/

/-- translator obligation: net_if_duplex_speed tolerates EOPNOTSUPP/EINVAL with (DUPLEX_UNKNOWN = 0xff, 0);
    duplex_map is {FULL 1 ↦ 2, HALF 0 ↦ 1, UNKNOWN 0xff ↦ 0}; a NIC failing with ENODEV is skipped;
    the three calls are made in the order mtu, flags, duplex/speed; flags are joined with ',';
    isup is 'running' in flags -/
theorem tcfg_good : tcfg.Good := ⟨by decide, by decide, by decide, by decide, by decide, by decide, by decide⟩

/-- **C17_netifstats_rows** — for every list of NICs and every combination of kernel answers
    (each of the three ioctls succeeding or failing with any errno; any flags word, any MTU, any
    16-bit speed halves, any duplex byte): net_if_stats() = the specification — NICs that vanished
    (ENODEV) are left out, any other failure is raised as OSError with the kernel's errno, the others
    are listed in order with isup = IFF_RUNNING, the documented duplex value, the 32-bit speed (0 if
    unknown or ethtool unsupported), the MTU and the comma-joined names of the set flag bits. -/
theorem C17_netifstats_rows (t : TCfg) (ht : t.Good) (e : ECfg) (he : e.castUnsigned = true)
    (nics : List (Bytes × NicAns))
    (hw : ∀ p ∈ nics, ∀ d hi lo, p.2.eth = .ok (d, hi, lo) → hi < 65536 ∧ lo < 65536) :
    C17.netIfStats t e Spec.linuxIff 65535 nics = Spec.netIfStats nics [] :=
  netIfStats_good t ht e he nics hw

theorem C17_netifstats_rows_current (nics : List (Bytes × NicAns))
    (hw : ∀ p ∈ nics, ∀ d hi lo, p.2.eth = .ok (d, hi, lo) → hi < 65536 ∧ lo < 65536) :
    C17.netIfStats tcfg ecfg iffLinux Gen.C17.iffMask nics = Spec.netIfStats nics [] := by
  rw [C17_iff_table, iffMask_good]
  exact C17_netifstats_rows tcfg tcfg_good ecfg ecfg_good nics hw

/-- the code as it is: a driver that reports a duplex byte other than 0 / 1 / 0xff makes
    `duplex_map[duplex]` raise KeyError (a Python exception — allowed by the property; stated, not
    claimed away) -/
theorem C17_netifstats_unknown_duplex_KeyError :
    C17.netIfStats tcfg ecfg iffLinux Gen.C17.iffMask [([101], ⟨.ok 1500, .ok 0x1043, .ok (2, 0, 1000)⟩)] = .keyError 2 := by
  decide

example : C17.netIfStats tcfg ecfg iffLinux Gen.C17.iffMask
    [([108, 111], ⟨.ok 65536, .ok 0x49, .error 95⟩), ([120], ⟨.error 19, .ok 0, .ok (1, 0, 0)⟩)]
    = .rows [([108, 111], ⟨true, 0, 0, 65536, ["up", "loopback", "running"]⟩)] := by
  decide

/-! ## round 2 — net_if_addrs() front end -/

theorem wcfg_good : wcfg.Good := ⟨by decide, by decide, by decide, by decide, by decide⟩

/-- **C17_netifaddrs_mac_padding** — an AF_LINK text with fewer than 6 groups is completed with
    `:00` groups to exactly 6; one with 6 or more is left alone.  With `C17_mac_text`: a 6-byte
    hardware address reaches the caller as the 17 characters the C loop wrote. -/
theorem C17_netifaddrs_mac_padding (w : WCfg) (hg : w.Good) (a : Bytes) :
    padMac w w.minSeps a = a ++ (List.replicate (5 - a.count 58) [58, 48, 48]).flatten
    ∧ (5 ≤ a.count 58 → padMac w w.minSeps a = a) := by
  have h := padMac_eq w hg w.minSeps a (by rw [hg.min]; omega)
  refine ⟨h, fun h5 => ?_⟩
  rw [h]
  have : 5 - a.count 58 = 0 := by omega
  simp [this]

/-- **C17_netifaddrs_grouping** — for every list of platform rows: the list stored under a NIC name
    is exactly that NIC's rows (MAC texts padded), sorted by family, rows of one family in the
    order the kernel listed them (the sort is stable). -/
theorem C17_netifaddrs_grouping (w : WCfg) (hg : w.Good) (raw : List AddrRow) (n : Bytes) :
    ((netIfAddrs w raw).lookup n).getD [] = ((sortByFam raw).map (frontRow w)).filter (fun r => r.name = n)
    ∧ (sortByFam raw).Pairwise (fun a b => a.fam ≤ b.fam)
    ∧ ∀ f : Int, (sortByFam raw).filter (fun a => a.fam = f) = raw.filter (fun a => a.fam = f) := by
  refine ⟨?_, (sortByFam_stable raw).1, (sortByFam_stable raw).2⟩
  unfold netIfAddrs
  rw [hg.key]
  simp only [if_true]
  have := group_lookup ((sortByFam raw).map (frontRow w)) n []
  simpa using this

example : netIfAddrs wcfg [⟨[101], 17, .str [48, 48, 58, 49, 49], .none, .none, .none⟩, ⟨[108], 2, .str [49], .none, .none, .none⟩,
      ⟨[101], 2, .str [50], .none, .none, .none⟩]
    = [([108], [⟨[108], 2, .str [49], .none, .none, .none⟩]),
       ([101], [⟨[101], 2, .str [50], .none, .none, .none⟩,
                ⟨[101], 17, .str [48, 48, 58, 49, 49, 58, 48, 48, 58, 48, 48, 58, 48, 48, 58, 48, 48], .none, .none, .none⟩])] := by
  decide

/-! ## round 3 (audit-driven) — failure path of getifaddrs() -/

/-- **C17_ifaddrs_failure_defined** — with `ifaddr` initialised to NULL, `net_if_addrs()` is DEFINED for every answer of
    getifaddrs(): a failure (any errno; libc storing NULL into `*ifap` or leaving it untouched — getifaddrs(3) promises
    neither) is OSError(errno); a list honouring libc's object contract gives getifaddrs(3)'s rows with the kernel's
    hardware text `aa:bb:…` (no model function inside the specification). -/
theorem C17_ifaddrs_failure_defined (f : NFail) (hf : f.ifaddrInit = true) (c : NCfg) (hg : c.Good) (mac : MCfg) (hm : mac.Good)
    (a : GiaAns) (h : ∀ es, a = .ok es → (∀ e ∈ es, EntryWF e) ∧ (∀ e ∈ es, EntryBytes e)) :
    netIfAddrsC f c mac a = Spec.nifOutcome a := by
  cases a with
  | fail e st => simp [netIfAddrsC, Spec.nifOutcome, hf]
  | ok es =>
    obtain ⟨h1, h2⟩ := h es rfl
    simp only [netIfAddrsC, Spec.nifOutcome, ifRows_hwText c hg mac hm es h1 h2]

/-- **counterexample (defect C17-ifaddr-uninit, repaired by /repo 8ff7455; kept for the unrepaired configuration)** — with `struct ifaddrs *ifaddr;`
    left uninitialised, a getifaddrs() that fails WITHOUT storing into `*ifap` (musl; allowed by getifaddrs(3)) makes the
    error path call `freeifaddrs()` on an indeterminate pointer: undefined behaviour (SIGSEGV on the real extension)
    where the specification says OSError(ENOMEM).  With glibc's store-NULL-first behaviour the same code is defined. -/
theorem C17_ifaddrs_failure_uninit_counterexample :
    netIfAddrsC { ifaddrInit := false } ncfg mcfg (.fail 12 false) = .ub
    ∧ Spec.nifOutcome (.fail 12 false) = .osError 12
    ∧ netIfAddrsC { ifaddrInit := false } ncfg mcfg (.fail 12 true) = .osError 12 := ⟨rfl, rfl, rfl⟩

/-- translator obligation: the statement run when getifaddrs() fails sets OSError from errno and jumps to `error:`;
    `freeifaddrs(ifaddr)` occurs exactly twice: unconditionally after the loop, and under `if (ifaddr != NULL)` on the
    error path (a second free on a path, or an unguarded one, changes this list) -/
theorem nif_cleanup_good : Gen.C17.nifCleanup =
    ["if(getifaddrs(&ifaddr)==-1){PyErr_SetFromErrno(PyExc_OSError);gotoerror;}", "loop-exit:freeifaddrs(ifaddr);",
     "error:if(ifaddr!=NULL)freeifaddrs(ifaddr);"] := by decide

/- fixes/C17-ifaddr-init.diff has landed as /repo 8ff7455 (fact nifIfaddrInit = true): obligation + the statement for the code as it is -/
/-- translator obligation: `ifaddr` holds NULL when getifaddrs() is called -/
theorem nfail_good : nfail.ifaddrInit = true := by decide

theorem C17_ifaddrs_failure_defined_current (a : GiaAns)
    (h : ∀ es, a = .ok es → (∀ e ∈ es, EntryWF e) ∧ (∀ e ∈ es, EntryBytes e)) :
    netIfAddrsC nfail ncfg mcfg a = Spec.nifOutcome a :=
  C17_ifaddrs_failure_defined nfail nfail_good ncfg ncfg_good mcfg mcfg_good a h

/-- **C17_ifaddrs_rows_kernel_text** — `C17_ifaddrs_rows` composed with `C17_mac_text`: the rows of the CURRENT source equal
    the specification written with the kernel's own hardware text (`Spec.hwText`: `aa:bb:…`, nothing for an empty address) -/
theorem C17_ifaddrs_rows_kernel_text (es : List IfEntry) (h : ∀ e ∈ es, EntryWF e) (hb : ∀ e ∈ es, EntryBytes e) :
    ifRows ncfg mcfg es = Spec.ifRows Spec.hwText es := ifRows_hwText ncfg ncfg_good mcfg mcfg_good es h hb

/-- the instance of `C17_ifaddrs_reads_in_object` for the configuration extracted from the current source -/
theorem C17_ifaddrs_reads_in_object_current (e : IfEntry) (hw : EntryWF e) : ∀ r ∈ ifReads ncfg e, r.1 ≤ r.2 :=
  C17_ifaddrs_reads_in_object ncfg ncfg_good e hw

/-- an Ethernet-style entry (AF_PACKET, 6-byte address in a 20-byte sockaddr_ll) -/
def ethEntry : IfEntry :=
  { name := [101], flags := 0x1043,
    addr := some ⟨17, [17, 0, 0, 3, 2, 0, 0, 0, 1, 0, 0, 6, 0, 255, 16, 171, 205, 239, 0, 0], 0, none⟩,
    netmask := none, ifu := some ⟨17, [17, 0, 0, 3, 2, 0, 0, 0, 1, 0, 0, 6, 255, 255, 255, 255, 255, 255, 0, 0], 0, none⟩ }

/-- non-vacuity of `EntryWF` / `EntryBytes` (hypotheses of the rows and reads theorems): a link-level entry and a
    loopback-style INET entry honour the contract -/
theorem ethEntry_wf : EntryWF ethEntry ∧ EntryBytes ethEntry := by
  constructor
  · refine ⟨fun a ha => ?_⟩
    have : a = ⟨17, [17, 0, 0, 3, 2, 0, 0, 0, 1, 0, 0, 6, 0, 255, 16, 171, 205, 239, 0, 0], 0, none⟩ := by
      simp [ethEntry] at ha; exact ha.symm
    subst this
    refine ⟨⟨by decide, by decide, (by intro t ht; cases ht), by decide⟩, ?_, ?_⟩
    · intro s hs; simp [ethEntry] at hs
    · intro s hs
      have : s = ⟨17, [17, 0, 0, 3, 2, 0, 0, 0, 1, 0, 0, 6, 255, 255, 255, 255, 255, 255, 0, 0], 0, none⟩ := by
        simp [ethEntry] at hs; exact hs.symm
      subst this
      exact ⟨by decide, by decide, (by intro t ht; cases ht), by decide⟩
  · intro o ho s hs b hb
    simp only [ethEntry, List.mem_cons, List.not_mem_nil, or_false] at ho
    rcases ho with rfl | rfl | rfl
    · cases hs; revert b; decide
    · cases hs
    · cases hs; revert b; decide

example : ifRows ncfg mcfg [ethEntry] =
    [[.str [101], .int 17, .str (Spec.macText [0, 255, 16, 171, 205, 239]), .none, .str (Spec.macText [255, 255, 255, 255, 255, 255]), .none]] := by
  decide

/-! ## round 3 — inventories of the Linux build (audit item 2) -/

/-- translator obligation (allow-list, like `parse_formats_good`): EVERY call of an unbounded or caller-bounded copy /
    format function (`sprintf vsprintf strcpy stpcpy strcat strncat strncpy gets memcpy memmove alloca *scanf snprintf
    readlink getcwd realpath …`) in the C files of the Linux build, preprocessor resolved for PSUTIL_LINUX, is one of:
      * `strncpy(dst, …)` inside PSUTIL_STRNCPY — §3 `C17_strncpy_terminated`, sites pinned by `scfg_good.sites` / `qcfg_good`;
      * `sprintf(ptr, "%02x:", …)` in psutil_convert_ipaddr — §4 `C17_mac_fits` / `C17_mac_text`;
      * the three message helpers' `sprintf(msg|fullmsg, …)` — `C17_errmsg_fits` below;
    and EVERY fixed-size char array is one of the four these theorems speak about.  A new site or buffer must be
    justified here. -/
theorem unsafe_sites_good :
    Gen.C17.cUnsafeCalls =
      [("#define PSUTIL_STRNCPY", "strncpy", "dst"), ("AccessDenied", "sprintf", "msg"), ("NoSuchProcess", "sprintf", "msg"),
       ("psutil_PyErr_SetFromOSErrnoWithSyscall", "sprintf", "fullmsg"), ("psutil_convert_ipaddr", "sprintf", "ptr")]
    ∧ Gen.C17.cCharBuffers =
      [("AccessDenied", "msg", "1024"), ("NoSuchProcess", "msg", "1024"),
       ("psutil_PyErr_SetFromOSErrnoWithSyscall", "fullmsg", "1024"), ("psutil_convert_ipaddr", "buf", "NI_MAXHOST")] := by
  decide

/-- translator obligation: each `sprintf` into a char local has only `%s` directives, as many arguments as directives,
    each argument is `strerror(errno)` (at most `strerrorMaxLen` characters on the platform libc — measured) or the
    `syscall` parameter (a string literal at every live call site — the longest is counted), and literal text + longest
    arguments + NUL fit the array -/
theorem errmsg_good :
    Gen.C17.errMsgHelpers.all (helperFits Gen.C17.strerrorMaxLen (maxLitLen Gen.C17.errMsgSites)) = true
    ∧ Gen.C17.errMsgSites.all siteOk = true ∧ Gen.C17.errMsgHelpers.length = 3 := by decide

/-- **C17_errmsg_fits** — a `sprintf(buf, fmt, args…)` that passes the obligation stores, for EVERY argument texts within
    their bounds (any errno's message, any of the literals), at most `sizeof buf` bytes including the terminating NUL. -/
theorem C17_errmsg_fits (maxS maxL : Nat) (h : String × Nat × String × List String) (hf : helperFits maxS maxL h = true)
    (ps : List Piece) (hp : parseFmt h.2.2.1.toList = some ps) (bs : List Nat) (hb : argBounds maxS maxL h.2.2.2 = some bs)
    (args : List (List Char)) (ha : ArgsLe args bs) : (renderPieces ps args).length + 1 ≤ h.2.1 := by
  unfold helperFits at hf
  rw [hp, hb] at hf
  simp only [Bool.and_eq_true, decide_eq_true_eq] at hf
  have := render_le ps args bs ha
  omega

theorem C17_errmsg_fits_current (h : String × Nat × String × List String) (hm : h ∈ Gen.C17.errMsgHelpers)
    (ps : List Piece) (hp : parseFmt h.2.2.1.toList = some ps) (bs : List Nat)
    (hb : argBounds Gen.C17.strerrorMaxLen (maxLitLen Gen.C17.errMsgSites) h.2.2.2 = some bs)
    (args : List (List Char)) (ha : ArgsLe args bs) : (renderPieces ps args).length + 1 ≤ h.2.1 :=
  C17_errmsg_fits _ _ h (List.all_eq_true.1 errmsg_good.1 h hm) ps hp bs hb args ha

/-- non-vacuity: the errno helper's format parses, and the longest message of the platform with the longest literal fits -/
example : parseFmt "%s (originated from %s)".toList = some [.str, .lit " (originated from ".toList, .str, .lit [')']]
    ∧ argBounds 49 19 ["strerror(errno)", "syscall"] = some [49, 19]
    ∧ boundPieces [.str, .lit " (originated from ".toList, .str, .lit [')']] [49, 19] + 1 = 88 := by decide

/-- a 64-byte buffer (audit: "realistic edit that would not be noticed") fails the obligation: 49 + 19 + 19 + 1 > 64 -/
theorem C17_errmsg_small_buffer_counterexample :
    helperFits 49 19 ("psutil_PyErr_SetFromOSErrnoWithSyscall", 64, "%s (originated from %s)", ["strerror(errno)", "syscall"]) = false
    ∧ (renderPieces [.str, .lit " (originated from ".toList, .str, .lit [')']]
        ["Attempting to link in too many shared libraries".toList, "ioctl(SIOCGIFFLAGS)".toList]).length + 1 = 86 := by decide

/-! ## round 3 — guards and plumbing the theorems above rely on, pinned as source text (audit items 5, 6) -/

set_option maxRecDepth 100000 in
/-- translator obligation: in psutil_convert_ipaddr the link-level text is produced under `if (len > 0)` (only `ptr = buf;`
    between the test and the loop — `C17_mac_fits`' "`--ptr` stays inside `buf`" presupposes it), by
    `for (n = 0; n < len; ++n)` (reads `data[0..len)`: `C17_ifaddrs_reads_in_object`), followed by `*--ptr = '\0'`;
    a failing getnameinfo() gives None; net_if_duplex_speed maps SPEED_UNKNOWN and anything above INT_MAX to 0
    (`C17_ethspeed_defined`); users.c hands the start time as `(double)ut->ut_tv.tv_sec` to unit `d` and the pid to the
    pid unit -/
theorem guards_good :
    Gen.C17.macLoopShape = ["len>0", "n=0", "n<len", "++n", "*--ptr='\\0'"]
    ∧ Gen.C17.gniErrTest = "err!=0?Py_INCREF(Py_None);returnPy_None;:returnPy_BuildValue(\"s\",buf);"
    ∧ Gen.C17.ethSpeedTest = "uint_speed==(__u32)SPEED_UNKNOWN||uint_speed>INT_MAX?speed=0;:speed=(int)uint_speed;"
    ∧ Gen.C17.usersStartSlot = "\"OOOd\"_Py_PARSE_PID|(double)ut->ut_tv.tv_sec|ut->ut_pid" := by decide

set_option maxRecDepth 100000 in
/-- translator obligation: `_pslinux.disk_partitions` strips each /proc/filesystems line first, reads
    `/etc/mtab` (resolved) only when the procfs path is "/proc" and that file exists, else `<procfs>/self/mounts`, hands
    that path to cext.disk_partitions, iterates over its result, unpacks (device, mountpoint, fstype, opts) and passes
    them to sdiskpart in that order -/
theorem partitions_plumbing_good :
    Gen.C17.fsLineStrip = "line = line.strip()"
    ∧ Gen.C17.mountsPathLogic = "if procfs_path == '/proc' and os.path.isfile('/etc/mtab'): ;     mounts_path = os.path.realpath('/etc/mtab') ; else: ;     mounts_path = os.path.realpath(f'{procfs_path}/self/mounts')"
    ∧ Gen.C17.partCextArg = "partitions=cext.disk_partitions(mounts_path)|partitions"
    ∧ Gen.C17.partUnpack = ["device", "mountpoint", "fstype", "opts"]
    ∧ Gen.C17.sdiskpartArgs = ["device", "mountpoint", "fstype", "opts"] := by decide

/-! ## round 3 — disk_partitions() over whole files (audit item 3) -/

/-- **C17_mounts_file_entries** — for EVERY mounts file made of mount entries as the kernel prints them (four non-empty
    fields of any bytes, escapes included), comment lines and blank lines, in any order and number, each line within
    4095 bytes, with or without a final newline: `cext.disk_partitions()` returns exactly the entries, in order. -/
theorem C17_mounts_file_entries (c : DCfg) (hg : c.Good) (ls : List MLine) (h : ∀ l ∈ ls, MLineOk l) (lastTerm : Bool) :
    diskPartitionsC c (ls.map renderMLine) lastTerm = (entriesOf ls).map (fun m => [m.dev, m.dir, m.typ, m.opts]) :=
  diskPartitionsC_lines c hg ls h lastTerm

/-- **C17_disk_partitions_end_to_end** — text to rows: /proc/filesystems as the kernel prints it (any registered types)
    and any such mounts file give, through the Python parser, the C loop, the 4-tuple unpack and the filter, exactly the
    specified rows: each entry's device (`none` → '', root aliases resolved), mount point, type, options; with
    `all=False` only those with a device and a disk-backed type. -/
theorem C17_disk_partitions_end_to_end (p : PCfg) (hp : p.Good) (d : DCfg) (hd : d.Good) (all : Bool) (fs : List FsEntry)
    (hfs : ∀ e ∈ fs, e.WF) (ls : List MLine) (hls : ∀ l ∈ ls, MLineOk l) (lastTerm : Bool) (root : Option Bytes) :
    diskPartitionsPy p d all (renderFsText fs) (ls.map renderMLine) lastTerm root
      = .rows (Spec.partitions all (diskFs fs) root (entriesOf ls)) := by
  unfold diskPartitionsPy
  rw [diskPartitionsC_lines d hd ls hls lastTerm, mntsOfTuples_map]
  cases all with
  | true =>
    simp only [if_true]
    have e : C17.partitions p true [] root (entriesOf ls) = C17.partitions p true (diskFs fs) root (entriesOf ls) := by
      simp [C17.partitions]
    rw [e, C17_partitions_filter p hp true (diskFs fs) (diskFs fs) (fun _ => Iff.rfl) root]
  | false =>
    have hl : linesOf (renderFsText fs) = fs.map renderFsLine := by
      unfold renderFsText
      apply Psutil.C09.linesOf_unlines
      intro l hl
      obtain ⟨e, he, rfl⟩ := List.mem_map.1 hl
      exact renderFsLine_noNl e (hfs e he)
    simp only [Bool.false_eq_true, if_false, parseFilesystems, hl, C17_filesystems_parse p hp fs hfs]
    rw [C17_partitions_filter p hp false (diskFs fs) (diskFs fs) (fun _ => Iff.rfl) root]

theorem C17_disk_partitions_end_to_end_current (all : Bool) (fs : List FsEntry) (hfs : ∀ e ∈ fs, e.WF) (ls : List MLine)
    (hls : ∀ l ∈ ls, MLineOk l) (lastTerm : Bool) (root : Option Bytes) :
    diskPartitionsPy pcfg dcfg all (renderFsText fs) (ls.map renderMLine) lastTerm root
      = .rows (Spec.partitions all (diskFs fs) root (entriesOf ls)) :=
  C17_disk_partitions_end_to_end pcfg pcfg_good dcfg dcfg_good all fs hfs ls hls lastTerm root

/-- non-vacuity: a file with a comment, an entry with an escaped space, a blank line and a `none` device of a disk type -/
example :
    diskPartitionsPy pcfg dcfg false (renderFsText [⟨true, [112, 114, 111, 99]⟩, ⟨false, [101, 120, 116, 52]⟩])
      ([MLine.comment [32] [120], .entry ⟨[47, 100, 32, 97], [47], [101, 120, 116, 52], [114, 119]⟩, .blank [32, 9],
        .entry ⟨[110, 111, 110, 101], [47, 109], [101, 120, 116, 52], [114, 111]⟩,
        .entry ⟨[112], [47, 112], [112, 114, 111, 99], [114, 119]⟩].map renderMLine) false none
      = .rows [⟨[47, 100, 32, 97], [47], [101, 120, 116, 52], [114, 119]⟩] := by decide


/-! ## seeded round 5 — several threads inside the extension at once (§24)

`disk_partitions()` and `users()` decode records that libc hands out through ONE process-wide static object
(`getmntent`, `getutent`).  The statement of C17 ("returns each mount entry's device, mount point, type and options",
"each login record's …") knows one input per call — the file that call reads — so it must hold for every number of
threads and every way their moves interleave. -/

/-- translator obligation: no call made inside a GIL window (any spelling of the window, psutil helpers followed), in
    any C function of the Linux build, is one of the libc functions that answer through a process-wide static object,
    and every window the scan found is properly paired (`?…` entries describe the ones that are not) -/
theorem gil_released_calls_good :
    Gen.C17.gilReleasedCalls.all (fun p => !(Thr.nonReentrant.contains p.2) && p.2.toList.head? != some '?') = true := by decide

/-- translator obligation: the scan behind `gilStaticLoops` looked for every name of `Thr.nonReentrant` -/
theorem gil_scan_covers : Thr.nonReentrant.all (fun n => Gen.C17.gilScannedNames.contains n) = true := by decide

/-- translator obligation: every function that makes a static-result call keeps the GIL from the call to the last access
    through its result (no window around the call, none in between), and the two decoders are among them -/
theorem gil_loops_good :
    (∀ e ∈ Gen.C17.gilStaticLoops, (Thr.cfgOfEvents e.2).Good)
    ∧ (Gen.C17.gilStaticLoops.map (·.1)).contains "psutil_disk_partitions" = true
    ∧ (Gen.C17.gilStaticLoops.map (·.1)).contains "psutil_users" = true := by decide

/-- **C17_thread_rows_own** — for EVERY number of threads, every file per thread (`files t`: the records call `t` reads),
    every schedule (which thread moves next, for as long as one likes): with no GIL window around the static-result call
    and none between the call and the decode, what call `t` has built is at every moment a beginning of ITS OWN file's
    records, and once the call has returned it is exactly those records — nothing of another thread's file, nothing
    lost, nothing twice.  (`Spec.Thr.callResult` does not mention the schedule.) -/
theorem C17_thread_rows_own {α : Type} (c : Thr.GilCfg) (hc : c.Good) (files : Nat → List α) (sched : List Nat) (t : Nat) :
    Spec.Thr.PartialOk files t (Thr.result c files sched t)
    ∧ (Thr.finished c files sched t = true → Thr.result c files sched t = Spec.Thr.callResult files t) := by
  have h := Thr.inv_rows (Thr.run_inv c hc files sched _ (Thr.init_inv files) t)
  refine ⟨h.1, fun hf => h.2 ?_⟩
  simpa [Thr.finished] using hf

/-- the same for the loops of the source as it is: every function of `gilStaticLoops` (among them
    `psutil_disk_partitions` and `psutil_users`, by `gil_loops_good`) -/
theorem C17_thread_rows_own_current {α : Type} (e : String × List String) (he : e ∈ Gen.C17.gilStaticLoops)
    (files : Nat → List α) (sched : List Nat) (t : Nat) :
    Spec.Thr.PartialOk files t (Thr.result (Thr.cfgOfEvents e.2) files sched t)
    ∧ (Thr.finished (Thr.cfgOfEvents e.2) files sched t = true
        → Thr.result (Thr.cfgOfEvents e.2) files sched t = Spec.Thr.callResult files t) :=
  C17_thread_rows_own _ (gil_loops_good.1 e he) files sched t

/-- every complete run of a Good loop is schedule independent in the sense of the specification: whatever the schedule,
    a call that has returned returned its own file -/
theorem C17_thread_schedule_independent {α : Type} (c : Thr.GilCfg) (hc : c.Good) (files : Nat → List α) (s s' : List Nat) (t : Nat)
    (h : Thr.finished c files s t = true) (h' : Thr.finished c files s' t = true) :
    Thr.result c files s t = Thr.result c files s' t := by
  rw [(C17_thread_rows_own c hc files s t).2 h, (C17_thread_rows_own c hc files s' t).2 h']

/-- non-vacuity: two threads, fully interleaved, both calls return their own two records -/
example :
    let files : Nat → List Nat := fun t => if t = 0 then [10, 11] else if t = 1 then [20, 21] else []
    let sched := [1, 0, 1, 0, 1, 0, 0, 1, 0, 0, 1, 1, 0, 0, 1, 0, 0, 0, 0]
    Thr.finished ⟨false, false⟩ files sched 0 = true ∧ Thr.finished ⟨false, false⟩ files sched 1 = true
    ∧ Thr.result ⟨false, false⟩ files sched 0 = [10, 11] ∧ Thr.result ⟨false, false⟩ files sched 1 = [20, 21] := by decide

/-- **counterexample (seeded C17-5)** — the static-result call made inside a GIL window: thread 0 fetches its first record
    while thread 2 (a thread that merely owns the GIL: its file is empty) keeps it from decoding, thread 1 fetches ITS
    first record into the same static object, then both decode: call 0 returns thread 1's record. -/
theorem C17_thread_released_call_counterexample :
    let files : Nat → List Nat := fun t => if t = 0 then [10] else if t = 1 then [20] else []
    let sched := [0, 0, 1, 1, 2, 0, 1, 2, 0, 0, 0, 0, 0]
    Thr.finished ⟨true, false⟩ files sched 0 = true ∧ Thr.result ⟨true, false⟩ files sched 0 = [20]
    ∧ ¬ Spec.Thr.PartialOk files 0 (Thr.result ⟨true, false⟩ files sched 0) := by decide

/-- **counterexample** — the call made with the GIL held but a window opened before its result is decoded (say, a
    `statvfs()` of the mount point wrapped in `Py_BEGIN_ALLOW_THREADS`): thread 1 runs its call inside that window. -/
theorem C17_thread_window_counterexample :
    let files : Nat → List Nat := fun t => if t = 0 then [10] else if t = 1 then [20] else []
    let sched := [0, 0, 0, 1, 1, 1, 0, 0, 0, 0, 1, 1, 1, 1]
    Thr.finished ⟨false, true⟩ files sched 0 = true ∧ Thr.result ⟨false, true⟩ files sched 0 = [20]
    ∧ ¬ Spec.Thr.PartialOk files 0 (Thr.result ⟨false, true⟩ files sched 0) := by decide

/-- the event lists of the two defects are read as the two bad configurations, the source's own shape as the good one -/
example : Thr.cfgOfEvents ["release", "acquire", "release", "produce:getmntent", "acquire", "use", "use"] = ⟨true, false⟩
    ∧ Thr.cfgOfEvents ["release", "acquire", "produce:getmntent", "use", "release", "acquire", "use"] = ⟨false, true⟩
    ∧ Thr.cfgOfEvents ["release", "acquire", "produce:getmntent", "use", "use", "release", "acquire"] = ⟨false, false⟩
    ∧ Thr.cfgOfEvents ["produce:getmntent", "lock", "use"] = ⟨true, true⟩ := by decide


end Psutil.C17
