/-
  Props/C17.lean — property theorems for C17 (the C extension decodes OS records faithfully and
  its bounds logic is safe).  Level: *partial* — these are theorems about the Lean MODEL of the
  decoders and of the bounds arithmetic (Model/C17.lean); the compiled C is tied to the model by
  the translator facts below (`*_good` obligations) and by the sanitizer-instrumented
  differential correspondence, which is testing.

  `ucfg … icfg` are built from Generated/C17.lean, which the translator rewrites from /repo's
  source on every run; each `*_good` theorem is the proof obligation that breaks when the
  corresponding guard / bound / table entry changes in the source.
-/
import PsutilModel.Proofs.C17Users
import PsutilModel.Model.C17Gen
namespace Psutil.C17
open Spec

/-! ## users() -/

/-- translator obligation: users.c decodes all three strings size-bounded, filters USER_PROCESS,
    compares ut_host with ":0" / ":0.0", builds the tuple in the documented order, and
    `_pslinux.users()` passes it on with `tty or None` -/
theorem ucfg_good : ucfg.Good := by
  refine ⟨?_, ?_, ?_, ?_, ?_, ?_, ?_, ?_, ?_⟩ <;> decide

/-- **C17_users_fields_cut** — for every list of login records (any field contents, any record
    types, any integers), any trailing partial record and any memory behind glibc's buffer,
    `users()` on the file returns exactly the USER_PROCESS records with user, terminal and host
    each cut at the first NUL *or at the field's width*, ':0'/':0.0' shown as localhost, the
    start time and the PID. -/
theorem C17_users_fields_cut (c : UCfg) (hg : c.Good) (rs : List Utmp) (h : ∀ r ∈ rs, r.WF)
    (trail beyond : Bytes) (ht : trail.length < 384) :
    C17.users c (renderAll rs ++ trail) beyond = Spec.users rs := by
  unfold C17.users usersC Spec.users
  rw [records_render rs h trail ht]
  induction rs with
  | nil => rfl
  | cons r rs ih =>
    have hr := h r (by simp)
    have ih' := ih (fun x hx => h x (by simp [hx]))
    simp only [List.map_cons, List.filterMap_cons, decodeRec_good c hg r hr beyond, List.filter_cons]
    by_cases ht7 : r.typ = 7
    · simp only [ht7, if_true, List.map_cons, ih', pyRow_good c hg, BEq.rfl, Spec.row]
      congr 2
      simp [falsy]
    · have : (r.typ == 7) = false := by simp [ht7]
      simp only [ht7, if_false, this, ih']
      rfl

/-- the same for the configuration extracted from the current source -/
theorem C17_users_fields_cut_current (rs : List Utmp) (h : ∀ r ∈ rs, r.WF)
    (trail beyond : Bytes) (ht : trail.length < 384) :
    C17.users ucfg (renderAll rs ++ trail) beyond = Spec.users rs :=
  C17_users_fields_cut ucfg ucfg_good rs h trail beyond ht

/-- **C17_users_read_in_record** — every byte `users()` reads through a string pointer lies
    inside the 384-byte record it belongs to, whatever the record contains. -/
theorem C17_users_read_in_record (c : UCfg) (hg : c.Good) (rs : List Utmp) (h : ∀ r ∈ rs, r.WF)
    (trail beyond : Bytes) (ht : trail.length < 384) :
    ∀ s ∈ usersReads c (renderAll rs ++ trail) beyond, s ≤ 384 := by
  unfold usersReads
  rw [records_render rs h trail ht]
  intro s hs
  simp only [List.mem_flatMap, List.mem_map] at hs
  obtain ⟨m, ⟨r, hr, rfl⟩, hs⟩ := hs
  exact recReads_good c hg r (h r hr) beyond s hs

theorem C17_users_read_in_record_current (rs : List Utmp) (h : ∀ r ∈ rs, r.WF)
    (trail beyond : Bytes) (ht : trail.length < 384) :
    ∀ s ∈ usersReads ucfg (renderAll rs ++ trail) beyond, s ≤ 384 :=
  C17_users_read_in_record ucfg ucfg_good rs h trail beyond ht

/-- the configuration of the code before the fix: `PyUnicode_DecodeFSDefault(ut->ut_xxx)` -/
def ucfgUnbounded : UCfg := { ucfg with userBounded := false, lineBounded := false, hostBounded := false }

/-- a login record whose three strings fill their fields completely (no terminator) -/
def fullWidth : Utmp :=
  { typ := 7, pid := 1234, line := List.replicate 32 76, id := List.replicate 4 73,
    user := List.replicate 32 85, host := List.replicate 256 72, exit := List.replicate 4 84,
    session := List.replicate 4 84, sec := 1414812756, usec := List.replicate 4 84,
    addr := List.replicate 16 84, unused := List.replicate 20 84 }

set_option maxRecDepth 100000 in
theorem fullWidth_wf : fullWidth.WF := by
  refine ⟨?_, ?_, ?_, ?_, ?_, ?_, ?_, ?_, ?_, ?_, ?_, ?_⟩ <;> decide

set_option maxRecDepth 100000 in
/-- hypotheses of the two theorems are satisfiable by a non-trivial file -/
example : (∀ r ∈ [fullWidth, { fullWidth with typ := 8 }], r.WF) ∧ ([1, 2, 3] : Bytes).length < 384 := by
  refine ⟨?_, by decide⟩
  intro r hr
  simp only [List.mem_cons, List.not_mem_nil, or_false] at hr
  rcases hr with rfl | rfl
  · exact fullWidth_wf
  · refine ⟨?_, ?_, ?_, ?_, ?_, ?_, ?_, ?_, ?_, ?_, ?_, ?_⟩ <;> decide

set_option maxRecDepth 100000 in
/-- **counterexample (lead L14)** — with the unbounded decode the full-width record makes
    `users()` report a 341-character name (32 expected): the read runs through ut_host, the rest
    of the record and one byte of the memory behind it. -/
theorem C17_users_fields_cut_unbounded_counterexample :
    C17.users ucfgUnbounded (renderAll [fullWidth]) [83, 0] ≠ Spec.users [fullWidth]
    ∧ ((C17.users ucfgUnbounded (renderAll [fullWidth]) [83, 0]).map
        (fun row => match row.head? with | some (.str b) => b.length | _ => 0)) = [341] := by
  decide

set_option maxRecDepth 100000 in
/-- … and the reads leave the record: the `ut_user` read stops at index 386 > 384. -/
theorem C17_users_read_in_record_unbounded_counterexample :
    ¬ (∀ s ∈ usersReads ucfgUnbounded (renderAll [fullWidth]) [83, 0], s ≤ 384) := by
  decide

end Psutil.C17
